/-
  Lemmas for the end-to-end theorems of C19: EnergyPlus-ordered rows, per-key columns,
  per-column conversion, `mapM` in `Except`.  No Mathlib.
-/
import Ladybug.Proofs.C19Lemmas

namespace Sql

variable {α : Type}

/-! ### EnergyPlus row order -/

/-- The `ReportData` rows EnergyPlus writes for time indices `ts` and dictionary indices `idxs`:
    time-major, and inside one time index in dictionary order; `v t d` is the value of key `d` at
    time index `t`. -/
def epRows (ts idxs : List Nat) (v : Nat → Nat → α) : List (DataRow α) :=
  ts.flatMap fun t => idxs.map fun d => ⟨t, d, v t d⟩

/-- What the property demands for one run period with time indices `ts`: per key `d` (in dictionary
    order) the list of that key's values in time order. -/
def keyCols (ts idxs : List Nat) (v : Nat → Nat → α) : List (List α) :=
  idxs.map fun d => ts.map fun t => v t d

theorem mem_epRows_time (ts idxs : List Nat) (v : Nat → Nat → α) (r : DataRow α)
    (h : r ∈ epRows ts idxs v) : r.time ∈ ts := by
  simp only [epRows, List.mem_flatMap, List.mem_map] at h
  obtain ⟨t, ht, d, _, rfl⟩ := h
  exact ht

theorem epRows_sorted (ts idxs : List Nat) (v : Nat → Nat → α) (h : ts.Pairwise (· ≤ ·)) :
    (epRows ts idxs v).Pairwise fun a b => a.time ≤ b.time := by
  induction ts with
  | nil => simp [epRows]
  | cons t ts ih =>
    have hp := List.pairwise_cons.mp h
    have e : epRows (t :: ts) idxs v = (idxs.map fun d => (⟨t, d, v t d⟩ : DataRow α)) ++ epRows ts idxs v := by
      simp [epRows]
    rw [e, List.pairwise_append]
    refine ⟨?_, ih hp.2, ?_⟩
    · rw [List.pairwise_map]
      exact List.Pairwise.imp (fun _ => Nat.le_refl _) (List.pairwise_of_forall (fun _ _ => trivial))
    · intro a ha b hb
      simp only [List.mem_map] at ha
      obtain ⟨d, _, rfl⟩ := ha
      exact hp.1 _ (mem_epRows_time ts idxs v b hb)

theorem epRows_values (ts idxs : List Nat) (v : Nat → Nat → α) :
    (epRows ts idxs v).map (·.value) = (ts.map fun t => idxs.map (v t)).flatten := by
  induction ts with
  | nil => simp [epRows]
  | cons t ts ih =>
    have e : epRows (t :: ts) idxs v = (idxs.map fun d => (⟨t, d, v t d⟩ : DataRow α)) ++ epRows ts idxs v := by
      simp [epRows]
    rw [e, List.map_append, ih]
    simp

/-- Column `k` of the row matrix `xs.map (fun x => ys.map (f x))`. -/
theorem column_map_map {A B : Type} (xs : List A) (ys : List B) (f : A → B → α) (k : Nat)
    (hk : k < ys.length) :
    column (xs.map fun x => ys.map (f x)) k = xs.map fun x => f x ys[k] := by
  induction xs with
  | nil => simp [column]
  | cons x xs ih =>
    simp only [List.map_cons, column, List.filterMap_cons] at ih ⊢
    have : (ys.map (f x))[k]? = some (f x ys[k]) := by simp [List.getElem?_map, List.getElem?_eq_getElem hk]
    rw [this]
    simp only [List.cons.injEq, true_and]
    exact ih

/-- `zip(*rows)` of a matrix given row by row is the matrix given column by column. -/
theorem zipStar_map_map {A B : Type} (xs : List A) (ys : List B) (f : A → B → α) (hx : xs ≠ []) :
    zipStar (xs.map fun x => ys.map (f x)) = ys.map fun y => xs.map fun x => f x y := by
  have hrect : ∀ r ∈ xs.map (fun x => ys.map (f x)), r.length = ys.length := by
    intro r hr
    simp only [List.mem_map] at hr
    obtain ⟨x, _, rfl⟩ := hr
    simp
  have hne : xs.map (fun x => ys.map (f x)) ≠ [] := by simpa using hx
  apply List.ext_getElem?
  intro k
  by_cases hk : k < ys.length
  · rw [zipStar_rect_getElem? ys.length _ hrect hne k hk, column_map_map xs ys f k hk]
    simp [List.getElem?_map, List.getElem?_eq_getElem hk]
  · have h1 : (zipStar (xs.map fun x => ys.map (f x)))[k]? = none :=
      List.getElem?_eq_none (by rw [zipStar_rect_length ys.length _ hrect hne]; omega)
    have h2 : (ys.map fun y => xs.map fun x => f x y)[k]? = none :=
      List.getElem?_eq_none (by simp; omega)
    rw [h1, h2]

/-- One run period: de-interleaving the values of EnergyPlus-ordered rows gives, per key, that key's
    values in time order. -/
theorem partition_epRows (ts idxs : List Nat) (v : Nat → Nat → α) (hts : ts ≠ []) (hn : idxs ≠ []) :
    partition ((epRows ts idxs v).map (·.value)) idxs.length = .ok (keyCols ts idxs v) := by
  have hpos : 0 < idxs.length := List.length_pos_iff.mpr hn
  have hrect : ∀ r ∈ ts.map (fun t => idxs.map (v t)), r.length = idxs.length := by
    intro r hr
    simp only [List.mem_map] at hr
    obtain ⟨x, _, rfl⟩ := hr
    simp
  simp only [partition, Nat.ne_of_gt hpos, if_false, epRows_values]
  rw [chunksOf_flatten idxs.length _ hpos hrect, zipStar_map_map ts idxs v hts]
  rfl

/-! ### Several run periods -/

/-- Block `j` of a concatenation. -/
theorem flatten_slice {β : Type} (L : List (List β)) (j : Nat) (hj : j < L.length) :
    (L.flatten.drop ((L.take j).map List.length).sum).take L[j].length = L[j] := by
  induction L generalizing j with
  | nil => simp at hj
  | cons b bs ih =>
    cases j with
    | zero => simp [List.take_left']
    | succ j =>
      simp only [List.take_succ_cons, List.map_cons, List.sum_cons, List.flatten_cons,
        List.getElem_cons_succ, List.drop_append]
      have h0 : List.drop (b.length + ((bs.take j).map List.length).sum) b = [] :=
        List.drop_eq_nil_of_le (by omega)
      have h1 : b.length + ((bs.take j).map List.length).sum - b.length = ((bs.take j).map List.length).sum := by
        omega
      rw [h0, h1, List.nil_append]
      exact ih j (by simpa using hj)

theorem sum_scale {β : Type} (l : List (List β)) (n : Nat) :
    (l.map fun b => n * b.length).sum = (l.map List.length).sum * n := by
  induction l with
  | nil => simp
  | cons b bs ih =>
    simp only [List.map_cons, List.sum_cons, ih, Nat.add_mul]
    rw [Nat.mul_comm]

theorem epRows_append (ts1 ts2 idxs : List Nat) (v : Nat → Nat → α) :
    epRows (ts1 ++ ts2) idxs v = epRows ts1 idxs v ++ epRows ts2 idxs v := by
  simp [epRows]

theorem epRows_flatten_values (blocks : List (List Nat)) (idxs : List Nat) (v : Nat → Nat → α) :
    (epRows blocks.flatten idxs v).map (·.value) =
      (blocks.map fun b => (epRows b idxs v).map (·.value)).flatten := by
  induction blocks with
  | nil => simp [epRows]
  | cons b bs ih => simp [epRows_append, ih]

theorem epRows_values_length (ts idxs : List Nat) (v : Nat → Nat → α) :
    ((epRows ts idxs v).map (·.value)).length = idxs.length * ts.length := by
  induction ts with
  | nil => simp [epRows]
  | cons t ts ih =>
    have e : epRows (t :: ts) idxs v = (idxs.map fun d => (⟨t, d, v t d⟩ : DataRow α)) ++ epRows ts idxs v := by
      simp [epRows]
    rw [e]
    simp only [List.map_append, List.length_append, List.length_map, List.length_cons] at ih ⊢
    rw [ih, Nat.mul_succ]
    omega

/-- Several run periods with time indices `blocks[0], blocks[1], …`: the chunked partition with chunk
    sizes `|blocks[j]|` gives, period after period, per key that key's values of the period. -/
theorem partitionChunks_epRows (blocks : List (List Nat)) (idxs : List Nat) (v : Nat → Nat → α)
    (hb : ∀ b ∈ blocks, b ≠ []) (hbl : blocks ≠ []) (hn : idxs ≠ []) :
    partitionChunks ((epRows blocks.flatten idxs v).map (·.value)) (blocks.map List.length) =
      .ok (blocks.flatMap fun b => keyCols b idxs v) := by
  have hpos : 0 < idxs.length := List.length_pos_iff.mpr hn
  let L := blocks.map fun b => (epRows b idxs v).map (·.value)
  have hLlen : ∀ j (hj : j < blocks.length), (L[j]'(by simpa [L] using hj)).length = idxs.length * (blocks[j]).length := by
    intro j hj
    simp only [L, List.getElem_map]
    exact epRows_values_length _ _ _
  have hsum : 0 < (blocks.map List.length).sum := by
    cases blocks with
    | nil => exact absurd rfl hbl
    | cons b bs =>
      have : 0 < b.length := List.length_pos_iff.mpr (hb b (by simp))
      simp only [List.map_cons, List.sum_cons]
      omega
  have hlen : ((epRows blocks.flatten idxs v).map (·.value)).length = idxs.length * (blocks.map List.length).sum := by
    rw [epRows_values_length]
    congr 1
    simp [List.length_flatten]
  rw [partitionChunks_eq_slices _ _ idxs.length hpos hsum hlen]
  congr 1
  simp only [List.length_map, List.flatMap_def]
  have hr : blocks = (List.range blocks.length).map fun j => blocks.getD j [] := by
    apply List.ext_getElem?
    intro i
    by_cases hi : i < blocks.length
    · simp [List.getElem?_map, List.getElem?_range hi, List.getD_eq_getElem?_getD, List.getElem?_eq_getElem hi]
    · rw [List.getElem?_eq_none (by omega), List.getElem?_eq_none (by simp; omega)]
  conv => rhs; rw [hr]
  rw [List.map_map]
  congr 1
  apply List.map_congr_left
  intro j hj
  have hj' : j < blocks.length := List.mem_range.mp hj
  have hjL : j < L.length := by simpa [L] using hj'
  have hslice : periodSlice ((epRows blocks.flatten idxs v).map (·.value)) (blocks.map List.length) idxs.length j
      = (epRows (blocks[j]) idxs v).map (·.value) := by
    have h1 := flatten_slice L j hjL
    have hdrop : ((L.take j).map List.length).sum = cumBefore (blocks.map List.length) j * idxs.length := by
      have e1 : L.take j = (blocks.take j).map fun b => (epRows b idxs v).map (·.value) := by
        simp only [L, List.map_take]
      have e2 : cumBefore (blocks.map List.length) j = ((blocks.take j).map List.length).sum := by
        simp only [cumBefore, List.map_take]
      rw [e1, e2, ← sum_scale, List.map_map]
      congr 1
      apply List.map_congr_left
      intro b _
      simp only [Function.comp]
      exact epRows_values_length b idxs v
    have htake : (L[j]).length = (blocks.map List.length).getD j 0 * idxs.length := by
      rw [hLlen j hj', Nat.mul_comm]
      congr 1
      simp [List.getD_eq_getElem?_getD, List.getElem?_map, List.getElem?_eq_getElem hj']
    unfold periodSlice
    rw [epRows_flatten_values, ← hdrop, ← htake]
    have : L[j] = (epRows (blocks[j]) idxs v).map (·.value) := by simp [L]
    rw [← this]
    exact h1
  simp only [Function.comp]
  rw [hslice]
  have hbj : blocks.getD j [] = blocks[j] := by
    simp [List.getD_eq_getElem?_getD, List.getElem?_eq_getElem hj']
  rw [hbj]
  have := partition_epRows (blocks[j]) idxs v (hb _ (List.getElem_mem _)) hn
  simp only [partition, Nat.ne_of_gt hpos, if_false, Except.ok.injEq] at this
  exact this

/-! ### Conversion per column, collections per header -/

theorem convCols_map {β : Type} (conv : α → α) (l : List β) (fl : β → Bool) (col : β → List α) :
    convCols conv (l.map fl) (l.map col) = l.map fun r => if fl r then (col r).map conv else col r := by
  simp [convCols, List.zip_map']

theorem convCols_append (conv : α → α) (f1 f2 : List Bool) (c1 c2 : List (List α))
    (h : f1.length = c1.length) :
    convCols conv (f1 ++ f2) (c1 ++ c2) = convCols conv f1 c1 ++ convCols conv f2 c2 := by
  simp [convCols, List.zip_append h]

/-- The flags repeated once per run period convert every period's columns by the same flags. -/
theorem convCols_blocks {β : Type} (conv : α → α) (fl : List Bool) (blocks : List β)
    (g : β → List (List α)) (hg : ∀ b ∈ blocks, (g b).length = fl.length) :
    convCols conv (List.replicate blocks.length fl).flatten (blocks.flatMap g) =
      blocks.flatMap fun b => convCols conv fl (g b) := by
  induction blocks with
  | nil => simp [convCols]
  | cons b bs ih =>
    simp only [List.length_cons, List.replicate_succ, List.flatten_cons, List.flatMap_cons]
    rw [convCols_append conv _ _ _ _ (hg b (by simp)).symm, ih (fun b' hb' => hg b' (by simp [hb']))]

theorem mapM_ok {β γ : Type} (f : β → Except Err γ) (g : β → γ) (l : List β)
    (h : ∀ x ∈ l, f x = .ok (g x)) : l.mapM f = .ok (l.map g) := by
  induction l with
  | nil => rfl
  | cons a l ih =>
    rw [List.mapM_cons, h a (by simp), ih (fun x hx => h x (by simp [hx]))]
    rfl

theorem mapM_mem {β γ : Type} (f : β → Except Err γ) (l : List β) (cs : List γ)
    (h : l.mapM f = .ok cs) : ∀ c ∈ cs, ∃ x ∈ l, f x = .ok c := by
  induction l generalizing cs with
  | nil =>
    simp only [List.mapM_nil, pure, Except.pure, Except.ok.injEq] at h
    subst h
    simp
  | cons a l ih =>
    rw [List.mapM_cons] at h
    cases hf : f a with
    | error e => rw [hf] at h; simp [bind, Except.bind] at h
    | ok b =>
      cases hm : l.mapM f with
      | error e => rw [hf, hm] at h; simp [bind, Except.bind] at h
      | ok bs =>
        rw [hf, hm] at h
        simp only [bind, Except.bind, pure, Except.pure, Except.ok.injEq] at h
        subst h
        intro c hc
        rcases List.mem_cons.mp hc with rfl | hc
        · exact ⟨a, by simp, hf⟩
        · obtain ⟨x, hx, hfx⟩ := ih bs hm c hc
          exact ⟨x, by simp [hx], hfx⟩

/-- The collection class of a reporting frequency. -/
def kindOf : Freq → Kind
  | .steps _ => .hourly
  | .daily => .daily
  | .monthly => .monthly
  | .annual => .hourly

/-- The datetimes a collection of that class carries: days of the year, months, or none (continuous). -/
def datetimesOf : Freq → Period → List Nat
  | .daily, p => p.doys
  | .monthly, p => p.months
  | _, _ => []

/-- What the collection constructor of the class requires of a period and a number of values. -/
def okPeriod (freq : Freq) (p : Period) (len : Nat) : Prop :=
  match freq with
  | .steps _ => p.stHour = 0 ∧ p.endHour = 23 ∧ len = p.len
  | .daily => len = p.doys.length ∧ len ≠ 0
  | .monthly => len = p.months.length ∧ len ≠ 0
  | .annual => False

theorem buildOne_ok (freq : Freq) (h : Hdr) (v : List α) (hok : okPeriod freq h.period v.length) :
    buildOne freq h v = .ok ⟨kindOf freq, h.dtype, h.unit, h.period, h.labels.1, h.labels.2.1, h.labels.2.2, v,
      datetimesOf freq h.period⟩ := by
  cases freq with
  | steps n =>
    obtain ⟨h1, h2, h3⟩ := hok
    simp [buildOne, h1, h2, h3, kindOf, datetimesOf]
  | daily =>
    obtain ⟨h1, h2⟩ := hok
    simp [buildOne, h1, kindOf, datetimesOf]
    simpa [h1] using h2
  | monthly =>
    obtain ⟨h1, h2⟩ := hok
    simp [buildOne, h1, kindOf, datetimesOf]
    simpa [h1] using h2
  | annual => exact absurd hok (by simp [okPeriod])

/-- `zip` of two block-wise aligned concatenations. -/
theorem zip_flatMap_aligned {A B C D : Type} (ps : List A) (bs : List B) (f : A → List C) (g : B → List D)
    (hlen : ps.length = bs.length) (n : Nat) (hf : ∀ p ∈ ps, (f p).length = n) (hg : ∀ b ∈ bs, (g b).length = n) :
    (ps.flatMap f).zip (bs.flatMap g) = (ps.zip bs).flatMap fun pb => (f pb.1).zip (g pb.2) := by
  induction ps generalizing bs with
  | nil => simp
  | cons p ps ih =>
    cases bs with
    | nil => simp at hlen
    | cons b bs =>
      simp only [List.flatMap_cons, List.zip_cons_cons]
      rw [List.zip_append (by rw [hf p (by simp), hg b (by simp)]),
        ih bs (by simpa using hlen) (fun p' hp' => hf p' (by simp [hp'])) (fun b' hb' => hg b' (by simp [hb']))]

/-! ### The assembly stage on EnergyPlus-ordered data -/

/-- The values of key `r` over the time indices `ts`, converted iff the key's own unit became `kWh`. -/
def keyValues (conv : α → α) (ts : List Nat) (v : Nat → Nat → α) (r : DictRow) : List α :=
  if (typeUnitOf r).2 == "kWh" then (ts.map fun t => v t r.idx).map conv else ts.map fun t => v t r.idx

/-- The collection the property demands for run period `p` (time indices `ts`) and key `r`. -/
def expectedColl (conv : α → α) (surface : Bool) (freq : Freq) (p : Period) (ts : List Nat)
    (v : Nat → Nat → α) (r : DictRow) : Coll α :=
  ⟨kindOf freq, (typeUnitOf r).1, (typeUnitOf r).2, p, r.name, if surface then "Surface" else r.group, r.key,
   keyValues conv ts v r, datetimesOf freq p⟩

theorem keyValues_length (conv : α → α) (ts : List Nat) (v : Nat → Nat → α) (r : DictRow) :
    (keyValues conv ts v r).length = ts.length := by
  unfold keyValues
  split <;> simp

theorem chunkOf_of_ok (freq : Freq) (p : Period) (len : Nat) (h : okPeriod freq p len) :
    chunkOf freq p = len := by
  cases freq with
  | steps n => exact h.2.2.symm
  | daily => exact h.1.symm
  | monthly => exact h.1.symm
  | annual => exact absurd h (by simp [okPeriod])

theorem map_eq_of_zip {A B C : Type} (ps : List A) (bs : List B) (F : A → C) (G : B → C)
    (hlen : ps.length = bs.length) (h : ∀ pb ∈ ps.zip bs, F pb.1 = G pb.2) : ps.map F = bs.map G := by
  induction ps generalizing bs with
  | nil => cases bs with
    | nil => rfl
    | cons b bs => simp at hlen
  | cons p ps ih =>
    cases bs with
    | nil => simp at hlen
    | cons b bs =>
      simp only [List.map_cons, List.cons.injEq]
      exact ⟨h (p, b) (by simp), ih bs (by simpa using hlen) (fun pb hpb => h pb (by simp [hpb]))⟩

theorem keyCols_hdr (ts : List Nat) (hdr : List DictRow) (v : Nat → Nat → α) :
    keyCols ts (hdr.map (·.idx)) v = hdr.map fun r => ts.map fun t => v t r.idx := by
  simp [keyCols, List.map_map, Function.comp]

/-- Collections of one run period from its headers and converted columns. -/
theorem buildColls_period (conv : α → α) (hdr : List DictRow) (surface : Bool) (freq : Freq)
    (pbs : List (Period × List Nat)) (v : Nat → Nat → α)
    (hok : ∀ pb ∈ pbs, okPeriod freq pb.1 pb.2.length) :
    (pbs.flatMap fun pb => (hdrOf hdr surface pb.1).zip (hdr.map (keyValues conv pb.2 v))).mapM
        (fun hv => buildOne freq hv.1 hv.2) =
      .ok (pbs.flatMap fun pb => hdr.map (expectedColl conv surface freq pb.1 pb.2 v)) := by
  have hz : ∀ pb : Period × List Nat, (hdrOf hdr surface pb.1).zip (hdr.map (keyValues conv pb.2 v)) =
      hdr.map fun r => ((⟨pb.1, (typeUnitOf r).1, (typeUnitOf r).2, metaOf surface r⟩ : Hdr), keyValues conv pb.2 v r) := by
    intro pb
    simp [hdrOf, List.zip_map']
  rw [mapM_ok _ (fun hv => (⟨kindOf freq, hv.1.dtype, hv.1.unit, hv.1.period, hv.1.labels.1, hv.1.labels.2.1,
      hv.1.labels.2.2, hv.2, datetimesOf freq hv.1.period⟩ : Coll α))]
  · congr 1
    simp only [List.map_flatMap, hz, List.map_map]
    rfl
  · intro hv hhv
    simp only [List.mem_flatMap, hz, List.mem_map] at hhv
    obtain ⟨pb, hpb, r, _, rfl⟩ := hhv
    apply buildOne_ok
    simp only [keyValues_length]
    exact hok pb hpb

/-- Several run periods: the assembly stage returns, period after period and key after key, the
    demanded collection. -/
theorem assemble_periods (conv : α → α) (hdr : List DictRow) (surface : Bool) (freq : Freq)
    (ps : List Period) (blocks : List (List Nat)) (v : Nat → Nat → α)
    (hh : hdr ≠ []) (hfr : freq ≠ .annual) (hlen : ps.length = blocks.length) (hbl : blocks ≠ [])
    (hb : ∀ b ∈ blocks, b ≠ []) (hok : ∀ pb ∈ ps.zip blocks, okPeriod freq pb.1 pb.2.length) :
    assemble conv hdr surface freq (.inl ps) ((epRows blocks.flatten (hdr.map (·.idx)) v).map (·.value)) =
      .ok (.colls ((ps.zip blocks).flatMap fun pb => hdr.map (expectedColl conv surface freq pb.1 pb.2 v))) := by
  have hidx : hdr.map (·.idx) ≠ [] := by simpa using hh
  have hchunks : ps.map (chunkOf freq) = blocks.map List.length :=
    map_eq_of_zip ps blocks _ _ hlen (fun pb hpb => chunkOf_of_ok freq pb.1 _ (hok pb hpb))
  have hcols : convCols conv (kwhFlags hdr ps.length) (blocks.flatMap fun b => keyCols b (hdr.map (·.idx)) v) =
      blocks.flatMap fun b => hdr.map (keyValues conv b v) := by
    unfold kwhFlags
    rw [hlen, convCols_blocks conv _ blocks _ (fun b _ => by simp [keyCols])]
    congr 1
    funext b
    rw [keyCols_hdr, convCols_map]
    rfl
  have hzip : (ps.flatMap (hdrOf hdr surface)).zip (blocks.flatMap fun b => hdr.map (keyValues conv b v)) =
      (ps.zip blocks).flatMap fun pb => (hdrOf hdr surface pb.1).zip (hdr.map (keyValues conv pb.2 v)) :=
    zip_flatMap_aligned ps blocks _ _ hlen hdr.length (fun p _ => by simp [hdrOf]) (fun b _ => by simp)
  simp only [assemble, hfr, if_false, hchunks, partitionChunks_epRows blocks _ v hb hbl hidx, bind, Except.bind,
    pure, Except.pure, hcols, buildColls, hzip, buildColls_period conv hdr surface freq _ v hok]

theorem kwhFlags_one (hdr : List DictRow) :
    kwhFlags hdr 1 = hdr.map fun r => (typeUnitOf r).2 == "kWh" := by
  simp [kwhFlags]

theorem convCols_keyCols (conv : α → α) (hdr : List DictRow) (ts : List Nat) (v : Nat → Nat → α) :
    convCols conv (kwhFlags hdr 1) (keyCols ts (hdr.map (·.idx)) v) = hdr.map (keyValues conv ts v) := by
  rw [kwhFlags_one, keyCols_hdr, convCols_map]
  rfl

/-- One run period: the assembly stage returns one collection per key, in dictionary order. -/
theorem assemble_single (conv : α → α) (hdr : List DictRow) (surface : Bool) (freq : Freq)
    (p : Period) (ts : List Nat) (v : Nat → Nat → α)
    (hh : hdr ≠ []) (hfr : freq ≠ .annual) (hts : ts ≠ []) (hok : okPeriod freq p ts.length) :
    assemble conv hdr surface freq (.inr (some p)) ((epRows ts (hdr.map (·.idx)) v).map (·.value)) =
      .ok (.colls (hdr.map (expectedColl conv surface freq p ts v))) := by
  have hidx : hdr.map (·.idx) ≠ [] := by simpa using hh
  have hpart := partition_epRows ts (hdr.map (·.idx)) v hts hidx
  rw [List.length_map] at hpart
  have hb := buildColls_period conv hdr surface freq [(p, ts)] v (by simpa using hok)
  simp only [List.flatMap_cons, List.flatMap_nil, List.append_nil] at hb
  simp only [assemble, hfr, if_false, hpart, bind, Except.bind, pure, Except.pure, convCols_keyCols,
    buildColls, hb]

/-- The value of key `r` at time index `t`, converted iff the key's own unit became `kWh`. -/
def keyValue (conv : α → α) (v : Nat → Nat → α) (r : DictRow) (t : Nat) : α :=
  if (typeUnitOf r).2 == "kWh" then conv (v t r.idx) else v t r.idx

theorem keyValues_eq (conv : α → α) (ts : List Nat) (v : Nat → Nat → α) (r : DictRow) :
    keyValues conv ts v r = ts.map (keyValue conv v r) := by
  unfold keyValues keyValue
  split <;> simp_all [List.map_map, Function.comp]

/-- Annual (run-period) frequency: one value per time index (= run period) and key, in time order,
    whatever the number of environments. -/
theorem assemble_annual (conv : α → α) (hdr : List DictRow) (surface : Bool) (rp : Option Period)
    (ts : List Nat) (v : Nat → Nat → α) (hh : hdr ≠ []) (hts : ts ≠ []) :
    assemble conv hdr surface .annual (.inr rp) ((epRows ts (hdr.map (·.idx)) v).map (·.value)) =
      .ok (.annual (ts.flatMap fun t => hdr.map fun r => keyValue conv v r t)) := by
  have hidx : hdr.map (·.idx) ≠ [] := by simpa using hh
  have hpart := partition_epRows ts (hdr.map (·.idx)) v hts hidx
  rw [List.length_map] at hpart
  have hint : interleave (hdr.map (keyValues conv ts v)) = ts.flatMap fun t => hdr.map fun r => keyValue conv v r t := by
    have : hdr.map (keyValues conv ts v) = hdr.map fun r => ts.map fun t => keyValue conv v r t := by
      apply List.map_congr_left
      intro r _
      exact keyValues_eq conv ts v r
    rw [this, interleave, zipStar_map_map hdr ts (fun r t => keyValue conv v r t) hh, List.flatMap_def]
  simp only [assemble, if_true, hpart, bind, Except.bind, pure, Except.pure, convCols_keyCols, hint]

/-! ### The data stage -/

theorem sortByTime_sorted (l : List (DataRow α)) (h : l.Pairwise fun a b => a.time ≤ b.time) :
    sortByTime l = l := by
  induction l with
  | nil => rfl
  | cons x xs ih =>
    have hx := List.pairwise_cons.mp h
    simp only [sortByTime, List.foldr_cons] at ih ⊢
    rw [ih hx.2]
    cases xs with
    | nil => rfl
    | cons y ys =>
      have : x.time ≤ y.time := hx.1 y (by simp)
      simp [insertByTime, this]

theorem epRows_getLast (ts : List Nat) (d : Nat) (ds : List Nat) (v : Nat → Nat → α) (t1 : Nat)
    (h1 : ts.getLast? = some t1) : ∃ b, (epRows ts (d :: ds) v).getLast? = some b ∧ b.time = t1 := by
  induction ts with
  | nil => simp at h1
  | cons t ts' ih =>
    have e : epRows (t :: ts') (d :: ds) v =
        ((d :: ds).map fun d' => (⟨t, d', v t d'⟩ : DataRow α)) ++ epRows ts' (d :: ds) v := by
      simp [epRows]
    rw [e, List.getLast?_append]
    cases ts' with
    | nil =>
      simp only [List.getLast?_singleton, Option.some.injEq] at h1
      subst h1
      have hnil : epRows [] (d :: ds) v = [] := by simp [epRows]
      rw [hnil]
      cases hl : ((d :: ds).map fun d' => (⟨t, d', v t d'⟩ : DataRow α)).getLast? with
      | none => simp [List.getLast?_eq_none_iff] at hl
      | some b =>
        have hm := List.mem_of_getLast? hl
        simp only [List.mem_map] at hm
        obtain ⟨d', _, rfl⟩ := hm
        exact ⟨⟨t, d', v t d'⟩, by simp, rfl⟩
    | cons t' ts'' =>
      have h1' : (t' :: ts'').getLast? = some t1 := by
        rw [List.getLast?_cons_cons] at h1
        exact h1
      obtain ⟨b, hb, hbt⟩ := ih h1'
      exact ⟨b, by simp [hb], hbt⟩

theorem timeSpan_epRows (ts idxs : List Nat) (v : Nat → Nat → α) (t0 t1 : Nat) (hn : idxs ≠ [])
    (h0 : ts.head? = some t0) (h1 : ts.getLast? = some t1) :
    timeSpan (epRows ts idxs v) = .ok (t0, t1) := by
  obtain ⟨d, ds, rfl⟩ := List.exists_cons_of_ne_nil hn
  have hhead : (epRows ts (d :: ds) v).head? = some ⟨t0, d, v t0 d⟩ := by
    cases ts with
    | nil => simp at h0
    | cons t ts' =>
      simp only [List.head?_cons, Option.some.injEq] at h0
      subst h0
      simp [epRows]
  obtain ⟨b, hb, hbt⟩ := epRows_getLast ts d ds v t1 h1
  simp [timeSpan, hhead, hb, hbt]

/-! ### The run-period method -/

theorem epRows_map_conv (conv : α → α) (ts idxs : List Nat) (v : Nat → Nat → α) :
    ((epRows ts idxs v).map (·.value)).map conv = (epRows ts idxs fun t d => conv (v t d)).map (·.value) := by
  simp only [epRows_values, List.map_flatten, List.map_map]
  congr 1
  apply List.map_congr_left
  intro t _
  simp [Function.comp, List.map_map]

/-- The assembly stage of the run-period method on the EnergyPlus-ordered rows of one environment, for
    an output whose keys all carry the unit of the first one. -/
theorem assembleRP_single (conv : α → α) (hdr : List DictRow) (h0 : DictRow) (surface : Bool) (freq : Freq)
    (p : Period) (ts : List Nat) (v : Nat → Nat → α)
    (hh : hdr ≠ []) (hfr : freq ≠ .annual) (hts : ts ≠ []) (hok : okPeriod freq p ts.length)
    (hu : ∀ r ∈ hdr, typeUnitOf r = typeUnitOf h0) :
    assembleRP conv hdr h0 surface freq (some p) ((epRows ts (hdr.map (·.idx)) v).map (·.value)) =
      .ok (.colls (hdr.map (expectedColl conv surface freq p ts v))) := by
  have hidx : hdr.map (·.idx) ≠ [] := by simpa using hh
  let w : Nat → Nat → α := fun t d => if (typeUnitOf h0).2 == "kWh" then conv (v t d) else v t d
  have hvals : (if (typeUnitOf h0).2 = "kWh" then ((epRows ts (hdr.map (·.idx)) v).map (·.value)).map conv
      else (epRows ts (hdr.map (·.idx)) v).map (·.value)) = (epRows ts (hdr.map (·.idx)) w).map (·.value) := by
    by_cases hk : (typeUnitOf h0).2 = "kWh"
    · rw [if_pos hk, epRows_map_conv]
      simp [w, hk]
    · rw [if_neg hk]
      simp [w, hk]
  have hpart := partition_epRows ts (hdr.map (·.idx)) w hts hidx
  rw [List.length_map] at hpart
  have hzip : (hdr.map fun r => (⟨p, (typeUnitOf h0).1, (typeUnitOf h0).2, metaOf surface r⟩ : Hdr)).zip
      (keyCols ts (hdr.map (·.idx)) w) =
      hdr.map fun r => ((⟨p, (typeUnitOf h0).1, (typeUnitOf h0).2, metaOf surface r⟩ : Hdr), ts.map fun t => w t r.idx) := by
    rw [keyCols_hdr]
    simp [List.zip_map']
  have hbuild : buildColls freq (hdr.map fun r => (⟨p, (typeUnitOf h0).1, (typeUnitOf h0).2, metaOf surface r⟩ : Hdr))
      (keyCols ts (hdr.map (·.idx)) w) = .ok (hdr.map (expectedColl conv surface freq p ts v)) := by
    unfold buildColls
    rw [hzip, mapM_ok _ (fun hv => (⟨kindOf freq, hv.1.dtype, hv.1.unit, hv.1.period, hv.1.labels.1, hv.1.labels.2.1,
      hv.1.labels.2.2, hv.2, datetimesOf freq hv.1.period⟩ : Coll α))]
    · congr 1
      rw [List.map_map]
      apply List.map_congr_left
      intro r hr
      have e := hu r hr
      simp only [Function.comp, expectedColl, metaOf, keyValues_eq, keyValue, e, w]
      congr 1
      apply List.map_congr_left
      intro t _
      simp [keyValue, e]
    · intro hv hhv
      simp only [List.mem_map] at hhv
      obtain ⟨r, _, rfl⟩ := hhv
      apply buildOne_ok
      simpa using hok
  simp only [assembleRP, hvals, hpart, bind, Except.bind, hfr, if_false, hbuild, pure, Except.pure]

end Sql
