/-
  Lemmas for the histogram / wind-rose / psychrometric counting theorems of C17.
  Imports single Mathlib tactic modules (order reasoning on `Rat`).
-/
import Ladybug.Model.Plot
import Mathlib.Tactic.Linarith
import Mathlib.Tactic.FieldSimp
import Mathlib.Tactic.Positivity
import Mathlib.Tactic.NormNum
import Mathlib.Tactic.Ring

namespace Plot

/-! ### Counting -/

theorem filter_split_length {α : Type} (l : List α) (p q : α → Bool)
    (hd : ∀ a, ¬ (p a = true ∧ q a = true)) :
    (l.filter p).length + (l.filter q).length = (l.filter fun a => p a || q a).length := by
  induction l with
  | nil => simp
  | cons a as ih =>
    have := hd a
    simp only [List.filter_cons]
    cases hp : p a <;> cases hq : q a <;> simp_all <;> omega

/-- The classes `f a = j`, `j < m`, partition the elements with `f a < m`. -/
theorem sum_classes {α : Type} (l : List α) (f : α → Nat) (m : Nat) :
    ((List.range m).map fun j => (l.filter fun a => f a == j).length).sum =
      (l.filter fun a => decide (f a < m)).length := by
  induction m with
  | zero =>
    have : l.filter (fun _ => false) = [] := by rw [List.filter_eq_nil_iff]; simp
    simp [this]
  | succ m ih =>
    rw [List.range_succ, List.map_append, List.sum_append, ih]
    simp only [List.map_cons, List.map_nil, List.sum_cons, List.sum_nil, Nat.add_zero]
    rw [filter_split_length]
    · congr 1
      apply List.filter_congr
      intro a _
      by_cases h1 : f a < m
      · have : f a < m + 1 := by omega
        have h3 : (f a == m) = false := by simp; omega
        simp [h1, this, h3]
      · by_cases h2 : f a = m
        · simp [h2]
        · have : ¬ f a < m + 1 := by omega
          have h3 : (f a == m) = false := by simp; omega
          simp [h1, this, h3]
    · intro a ⟨h1, h2⟩
      simp at h1 h2
      omega

/-- `collect` over assignments computed value by value is a filter. -/
theorem collect_map {α : Type} (vals : List α) (g : α → Option Nat) (j : Nat) :
    collect vals (vals.map g) j = vals.filter fun a => g a == some j := by
  unfold collect
  induction vals with
  | nil => simp
  | cons a as ih =>
    simp only [List.map_cons, List.zip_cons_cons, List.filter_cons]
    by_cases h : g a == some j
    · simp only [h, if_true, List.map_cons, ih]
    · simp only [h, Bool.false_eq_true, if_false, ih]

/-! ### Sorting -/

theorem sortByKey_perm {α : Type} (key : α → Rat) (l : List α) : (sortByKey key l).Perm l :=
  List.mergeSort_perm _ _

theorem sortByKey_sorted {α : Type} (key : α → Rat) (l : List α) :
    ((sortByKey key l).map key).Pairwise (· ≤ ·) := by
  rw [List.pairwise_map]
  have := List.pairwise_mergeSort (le := fun a b => decide (key a ≤ key b))
    (by intro a b c h1 h2; simp at *; linarith)
    (by intro a b; simp; exact le_total _ _) l
  exact this.imp (by intro a b h; simpa using h)

/-! ### The bin of a key: the number of edges not above it -/

/-- Number of edges `≤ k`.  For increasing edges this is the index of the list that holds `k`:
    `0` below the first edge, `j` for `edge_{j-1} ≤ k < edge_j`, `len` at/above the last edge. -/
def binOf (bins : List Rat) (k : Rat) : Nat := (bins.filter fun e => decide (e ≤ k)).length

theorem binOf_le (bins : List Rat) (k : Rat) : binOf bins k ≤ bins.length :=
  List.length_filter_le _ _

/-- For increasing edges, the edges `≤ k` are a prefix: every edge before position `binOf` is `≤ k`
    and every edge from that position on is `> k`. -/
theorem binOf_prefix (bins : List Rat) (hs : bins.Pairwise (· ≤ ·)) (k : Rat) :
    (∀ i x, i < binOf bins k → bins[i]? = some x → x ≤ k) ∧
    (∀ i x, binOf bins k ≤ i → bins[i]? = some x → k < x) := by
  induction bins with
  | nil => simp [binOf]
  | cons e es ih =>
    rw [List.pairwise_cons] at hs
    obtain ⟨ih1, ih2⟩ := ih hs.2
    by_cases he : e ≤ k
    · have hb : binOf (e :: es) k = binOf es k + 1 := by simp [binOf, List.filter_cons, he]
      rw [hb]
      constructor
      · intro i x hi hx
        cases i with
        | zero => simp at hx; rw [← hx]; exact he
        | succ i => exact ih1 i x (by omega) (by simpa using hx)
      · intro i x hi hx
        cases i with
        | zero => omega
        | succ i => exact ih2 i x (by omega) (by simpa using hx)
    · have hlt : k < e := not_le.mp he
      have hall : ∀ y ∈ es, ¬ y ≤ k := fun y hy hyk => by have := hs.1 y hy; linarith
      have hb : binOf (e :: es) k = 0 := by
        simp only [binOf, List.filter_cons, he, decide_false, Bool.false_eq_true, if_false]
        rw [List.length_eq_zero_iff, List.filter_eq_nil_iff]
        intro y hy; simpa using hall y hy
      rw [hb]
      constructor
      · intro i x hi; omega
      · intro i x _ hx
        have hm : x ∈ e :: es := List.mem_of_getElem? hx
        rcases List.mem_cons.mp hm with rfl | hm'
        · exact hlt
        · exact not_le.mp (hall x hm')

/-- The position between a last edge `≤ k` and a first edge `> k` is `binOf`. -/
theorem binOf_unique (bins : List Rat) (hs : bins.Pairwise (· ≤ ·)) (k : Rat) (j : Nat)
    (hj : j ≤ bins.length) (hlo : ∀ x, 0 < j → bins[j - 1]? = some x → x ≤ k)
    (hhi : ∀ x, bins[j]? = some x → k < x) : binOf bins k = j := by
  obtain ⟨hA, hB⟩ := binOf_prefix bins hs k
  have hle := binOf_le bins k
  rcases Nat.lt_trichotomy j (binOf bins k) with h | h | h
  · have hjl : j < bins.length := by omega
    have h1 := hA j bins[j] h (List.getElem?_eq_getElem hjl)
    have h2 := hhi bins[j] (List.getElem?_eq_getElem hjl)
    linarith
  · exact h.symm
  · have hjl : j - 1 < bins.length := by omega
    have h1 := hB (j - 1) bins[j - 1] (by omega) (List.getElem?_eq_getElem hjl)
    have h2 := hlo bins[j - 1] (by omega) (List.getElem?_eq_getElem hjl)
    linarith

/-! ### `min` / `max` of increasing edges -/

theorem foldl_min_sorted (x : Rat) (xs : List Rat) (h : ∀ y ∈ xs, x ≤ y) :
    xs.foldl (fun a b => if b < a then b else a) x = x := by
  induction xs with
  | nil => rfl
  | cons y ys ih =>
    have hy : ¬ y < x := not_lt.mpr (h y (by simp))
    simp only [List.foldl_cons, hy, if_false]
    exact ih (fun z hz => h z (List.mem_cons_of_mem _ hz))

theorem foldl_max_sorted (x : Rat) (xs : List Rat) (h : (x :: xs).Pairwise (· ≤ ·)) :
    xs.foldl (fun a b => if a < b then b else a) x = (x :: xs).getLast (by simp) := by
  induction xs generalizing x with
  | nil => rfl
  | cons y ys ih =>
    rw [List.pairwise_cons] at h
    have hxy : x ≤ y := h.1 y (by simp)
    have e : (if x < y then y else x) = y := by
      split
      · rfl
      · linarith [le_antisymm hxy (not_lt.mp ‹_›)]
    simp only [List.foldl_cons, e]
    rw [ih y h.2]
    simp [List.getLast_cons]

/-! ### The search for the upper edge -/

theorem find_range' (p : Nat → Bool) (len : Nat) : ∀ (start : Nat),
    (∀ i, (List.range' start len).find? p = some i →
      start ≤ i ∧ i < start + len ∧ p i = true ∧ ∀ j, start ≤ j → j < i → p j = false) ∧
    ((List.range' start len).find? p = none → ∀ j, start ≤ j → j < start + len → p j = false) := by
  induction len with
  | zero => intro start; simp; intro j h1 h2; omega
  | succ n ih =>
    intro start
    rw [List.range'_succ, List.find?_cons]
    cases hp : p start with
    | true =>
      simp only
      constructor
      · intro i hi
        have : start = i := by simpa using hi
        subst this
        exact ⟨Nat.le_refl _, by omega, hp, fun j h1 h2 => by omega⟩
      · intro h; simp at h
    | false =>
      simp only
      obtain ⟨ih1, ih2⟩ := ih (start + 1)
      constructor
      · intro i hi
        obtain ⟨a, b, c, d⟩ := ih1 i hi
        refine ⟨by omega, by omega, c, fun j h1 h2 => ?_⟩
        rcases Nat.eq_or_lt_of_le h1 with e | e
        · rw [← e]; exact hp
        · exact d j e h2
      · intro h j h1 h2
        rcases Nat.eq_or_lt_of_le h1 with e | e
        · rw [← e]; exact hp
        · exact ih2 h j e (by omega)

/-! ### The assignment loop of `histogram` -/

theorem histAssign_eq (bins : List Rat) (hs : bins.Pairwise (· ≤ ·)) (mn mx : Rat)
    (hmn : bins[0]? = some mn) (hmx : bins[bins.length - 1]? = some mx) :
    ∀ (ks : List Rat) (bi : Nat), ks.Pairwise (· ≤ ·) → bi < bins.length →
      (∀ k ∈ ks, mn ≤ k → ∀ x, bins[bi]? = some x → x ≤ k) →
      histAssign bins mn mx bi ks = ks.map fun k => some (binOf bins k) := by
  have hn : 0 < bins.length := by
    rcases Nat.eq_zero_or_pos bins.length with h | h
    · rw [List.length_eq_zero_iff] at h; subst h; simp at hmn
    · exact h
  intro ks
  induction ks with
  | nil => intro bi _ _ _; simp [histAssign]
  | cons k ks ih =>
    intro bi hks hbi hinv
    rw [List.pairwise_cons] at hks
    have hinv' : ∀ bi' : Nat, (∀ x, bins[bi']? = some x → x ≤ k) →
        ∀ k' ∈ ks, mn ≤ k' → ∀ x, bins[bi']? = some x → x ≤ k' := by
      intro bi' h k' hk' _ x hx
      have := hks.1 k' hk'
      have := h x hx
      linarith
    simp only [histAssign, List.map_cons]
    by_cases h1 : k < mn
    · simp only [h1, if_true]
      rw [ih bi hks.2 hbi (fun k' hk' => hinv k' (List.mem_cons_of_mem _ hk'))]
      congr 2
      symm
      apply binOf_unique bins hs k 0 (Nat.zero_le _)
      · intro x h; omega
      · intro x hx; rw [hmn] at hx; have : mn = x := by simpa using hx
        rw [← this]; exact h1
    · simp only [h1, if_false]
      by_cases h2 : mx ≤ k
      · simp only [h2, if_true]
        rw [ih bi hks.2 hbi (fun k' hk' => hinv k' (List.mem_cons_of_mem _ hk'))]
        congr 2
        symm
        apply binOf_unique bins hs k bins.length (Nat.le_refl _)
        · intro x _ hx; rw [hmx] at hx; have : mx = x := by simpa using hx
          rw [← this]; exact h2
        · intro x hx; simp at hx
      · simp only [h2, if_false]
        have hk1 : mn ≤ k := not_lt.mp h1
        have hk2 : k < mx := not_le.mp h2
        have hbik : ∀ x, bins[bi]? = some x → x ≤ k := hinv k (by simp) hk1
        -- bi is below the last edge
        have hbi2 : bi + 1 < bins.length := by
          rcases Nat.lt_or_ge (bi + 1) bins.length with h | h
          · exact h
          · have e : bi = bins.length - 1 := by omega
            have := hbik mx (by rw [e]; exact hmx)
            linarith
        obtain ⟨f1, f2⟩ := find_range' (fun i => match bins[i + 1]? with
          | some b => decide (k < b) | none => false) (bins.length - 1 - bi) bi
        unfold findUpper
        cases hf : (List.range' bi (bins.length - 1 - bi)).find? (fun i => match bins[i + 1]? with
          | some b => decide (k < b) | none => false) with
        | none =>
          exfalso
          have := f2 hf (bins.length - 2) (by omega) (by omega)
          have e : bins.length - 2 + 1 = bins.length - 1 := by omega
          simp only [e, hmx] at this
          simp at this
          linarith
        | some i =>
          obtain ⟨a, b, c, d⟩ := f1 i hf
          simp only
          have hi1 : i + 1 < bins.length := by omega
          have hpi : k < bins[i + 1] := by
            simp only [List.getElem?_eq_getElem hi1] at c
            simpa using c
          have hlo : ∀ x, bins[i]? = some x → x ≤ k := by
            intro x hx
            rcases Nat.eq_or_lt_of_le a with e | e
            · rw [← e] at hx; exact hbik x hx
            · have hd := d (i - 1) (by omega) (by omega)
              have e2 : i - 1 + 1 = i := by omega
              simp only [e2, hx] at hd
              simpa using hd
          rw [ih i hks.2 (by omega) (hinv' i hlo)]
          congr 2
          symm
          apply binOf_unique bins hs k (i + 1) (by omega)
          · intro x _ hx; exact hlo x (by simpa using hx)
          · intro x hx
            rw [List.getElem?_eq_getElem hi1] at hx
            have : bins[i + 1] = x := by simpa using hx
            rw [← this]; exact hpi

end Plot

namespace Plot

/-- `histogram` for increasing edges, in closed form: list `j` holds the sorted values whose key has
    exactly `j` edges at or below it. -/
theorem histogram_eq {α : Type} (key : α → Rat) (values : List α) (bins : List Rat)
    (hne : bins ≠ []) (hs : bins.Pairwise (· ≤ ·)) :
    histogram key values bins = .ok ((List.range (bins.length + 1)).map fun j =>
      (sortByKey key values).filter fun a => binOf bins (key a) == j) := by
  cases bins with
  | nil => exact absurd rfl hne
  | cons e es =>
    have hs' := hs
    rw [List.pairwise_cons] at hs'
    have hmin : minL (e :: es) = some e := by
      simp only [minL]; rw [foldl_min_sorted e es hs'.1]
    have hmax : maxL (e :: es) = some ((e :: es).getLast (by simp)) := by
      simp only [maxL]; rw [foldl_max_sorted e es hs]
    have hmx : (e :: es)[(e :: es).length - 1]? = some ((e :: es).getLast (by simp)) := by
      rw [List.getLast_eq_getElem]
      exact List.getElem?_eq_getElem (by simp)
    have hasg := histAssign_eq (e :: es) hs e ((e :: es).getLast (by simp)) (by simp) hmx
      ((sortByKey key values).map key) 0 (sortByKey_sorted key values) (by simp)
      (by intro k _ hk x hx; have : e = x := by simpa using hx
          rw [← this]; exact hk)
    unfold histogram
    rw [hmin, hmax]
    simp only
    rw [hasg, List.map_map]
    congr 1
    apply List.map_congr_left
    intro j _
    have := collect_map (sortByKey key values) (fun a => some (binOf (e :: es) (key a))) j
    simp only [Function.comp_def] at this ⊢
    rw [this]
    apply List.filter_congr
    intro a _
    simp

end Plot

namespace Plot

/-! ### Circular histogram in closed form -/

theorem circBin_lt (bins : List Rat) (lo hi k : Rat) (i : Nat) (h : circBin bins lo hi k = some i) :
    i < bins.length - 1 := by
  unfold circBin at h
  split at h
  · simp at h
  · have := List.mem_of_find?_eq_some h
    simpa using this

theorem histogramCircular_eq {α : Type} (key : α → Rat) (values : List α) (bins : List Rat)
    (lo hi : Rat) :
    histogramCircular key values bins (some (lo, hi)) = .ok ((List.range (bins.length - 1)).map fun j =>
      (sortByKey key values).filter fun a => circBin bins lo hi (key a) == some j) := by
  unfold histogramCircular
  simp only [List.map_map]
  congr 1
  apply List.map_congr_left
  intro j _
  exact collect_map (sortByKey key values) (fun a => circBin bins lo hi (key a)) j

/-- Σ bin sizes = number of samples that some bin takes. -/
theorem circ_sum {α : Type} (key : α → Rat) (l : List α) (bins : List Rat) (lo hi : Rat) :
    ((List.range (bins.length - 1)).map fun j =>
      (l.filter fun a => circBin bins lo hi (key a) == some j).length).sum =
    (l.filter fun a => (circBin bins lo hi (key a)).isSome).length := by
  have h := sum_classes l (fun a => (circBin bins lo hi (key a)).getD (bins.length - 1)) (bins.length - 1)
  have e1 : ∀ j, j ∈ List.range (bins.length - 1) →
      (l.filter fun a => circBin bins lo hi (key a) == some j).length =
      (l.filter fun a => (circBin bins lo hi (key a)).getD (bins.length - 1) == j).length := by
    intro j hj
    congr 1
    apply List.filter_congr
    intro a _
    have hjlt : j < bins.length - 1 := by simpa using hj
    cases hc : circBin bins lo hi (key a) with
    | none => simp; omega
    | some i => simp
  rw [List.map_congr_left e1, h]
  congr 1
  apply List.filter_congr
  intro a _
  cases hc : circBin bins lo hi (key a) with
  | none => simp
  | some i => have := circBin_lt _ _ _ _ _ hc; simp [this]

/-! ### Chains of edges cover what lies between their ends -/

theorem chain_cover : ∀ (cs : List Rat) (k : Rat), (∀ x, cs[0]? = some x → x ≤ k) →
    (∀ x, cs.getLast? = some x → k < x) → cs ≠ [] →
    ∃ i a b, cs[i]? = some a ∧ cs[i + 1]? = some b ∧ a ≤ k ∧ k < b
  | [], _, _, _, h => absurd rfl h
  | [c], k, h1, h2, _ => by
    have := h1 c (by simp); have := h2 c (by simp); linarith
  | c0 :: c1 :: rest, k, h1, h2, _ => by
    by_cases h : k < c1
    · exact ⟨0, c0, c1, by simp, by simp, h1 c0 (by simp), h⟩
    · obtain ⟨i, a, b, ha, hb, h3, h4⟩ := chain_cover (c1 :: rest) k
        (by intro x hx; have : c1 = x := by simpa using hx
            rw [← this]; exact not_lt.mp h)
        (by intro x hx; exact h2 x (by simpa [List.getLast?_cons_cons] using hx)) (by simp)
      exact ⟨i + 1, a, b, by simpa using ha, by simpa using hb, h3, h4⟩

/-! ### Prevailing direction -/

/-- The largest frequency seen, starting from `mx`. -/
def maxFrom (mx : Nat) (l : List (Nat × Rat)) : Nat := l.foldl (fun m p => max m p.1) mx

theorem maxFrom_ge (l : List (Nat × Rat)) : ∀ mx, mx ≤ maxFrom mx l := by
  induction l with
  | nil => intro mx; exact Nat.le_refl _
  | cons p ps ih => intro mx; exact Nat.le_trans (Nat.le_max_left _ _) (ih _)

theorem prevailGo_eq (l : List (Nat × Rat)) : ∀ (mx : Nat) (acc : List Rat),
    prevailGo mx acc l = (if maxFrom mx l = mx then acc else []) ++
      (l.filter fun p => p.1 == maxFrom mx l).map (·.2) := by
  induction l with
  | nil => intro mx acc; simp [prevailGo, maxFrom]
  | cons p ps ih =>
    intro mx acc
    obtain ⟨f, d⟩ := p
    have hM : maxFrom mx ((f, d) :: ps) = maxFrom (max mx f) ps := rfl
    have hge := maxFrom_ge ps (max mx f)
    simp only [prevailGo]
    by_cases h1 : mx < f
    · have e : max mx f = f := Nat.max_eq_right (Nat.le_of_lt h1)
      rw [if_pos h1, ih, hM, e]
      rw [e] at hge
      have hne : ¬ maxFrom f ps = mx := by omega
      simp only [hne, if_false, List.nil_append, List.filter_cons]
      by_cases h2 : maxFrom f ps = f
      · simp [h2]
      · have : (f == maxFrom f ps) = false := by simp; omega
        simp [h2, this]
    · rw [if_neg h1]
      by_cases h2 : mx = f
      · subst h2
        have e : max mx mx = mx := Nat.max_self _
        rw [if_pos rfl, ih, hM, e]
        simp only [List.filter_cons]
        by_cases h3 : maxFrom mx ps = mx
        · simp [h3]
        · have : (mx == maxFrom mx ps) = false := by simp; omega
          simp [h3, this]
      · have e : max mx f = mx := Nat.max_eq_left (by omega)
        rw [if_neg h2, ih, hM, e]
        rw [e] at hge
        have : (f == maxFrom mx ps) = false := by simp; omega
        simp [List.filter_cons, this]

/-! ### Category search of the psychrometric chart -/

theorem catIndex_spec (cats : List Rat) (v : Rat) (hpos : 0 < cats.length) :
    catIndex cats v < cats.length ∧
    (∀ j, j < catIndex cats v → ¬ v < cats.getD j 0) ∧
    (v < cats.getD (catIndex cats v) 0 ∨
      (catIndex cats v = cats.length - 1 ∧ ∀ j, j < cats.length → ¬ v < cats.getD j 0)) := by
  unfold catIndex
  obtain ⟨f1, f2⟩ := find_range' (fun i => decide (v < cats.getD i 0)) cats.length 0
  rw [List.range_eq_range']
  cases hf : (List.range' 0 cats.length).find? (fun i => decide (v < cats.getD i 0)) with
  | none =>
    have := f2 hf
    refine ⟨by simp; omega, ?_, Or.inr ⟨rfl, ?_⟩⟩
    · intro j hj; simpa using this j (Nat.zero_le _) (by simp at hj ⊢; omega)
    · intro j hj; simpa using this j (Nat.zero_le _) (by omega)
  | some i =>
    obtain ⟨_, b, c, d⟩ := f1 i hf
    refine ⟨by simpa using b, ?_, Or.inl (by simpa using c)⟩
    intro j hj; simpa using d j (Nat.zero_le _) hj

end Plot

namespace Plot

/-! ### The wind-rose sectors cover the circle -/

theorem angles_facts (n : Nat) (hn : 1 ≤ n) :
    (angles n).length = n + 1 ∧
    (∃ a0 a1, (angles n)[0]? = some a0 ∧ (angles n)[1]? = some a1 ∧ (angles n)[n]? = some a0 ∧
      ¬ a0 < a1 ∧ a0 ≤ 360 ∧ 0 ≤ a1) := by
  have hnq : (1 : Rat) ≤ (n : Rat) := by exact_mod_cast hn
  have hn0 : (n : Rat) ≠ 0 := by linarith
  have hphi0 : (0 : Rat) < 360 / (n : Rat) / 2 := by positivity
  have hphi : 360 / (n : Rat) / 2 ≤ 180 := by
    rw [div_div, div_le_iff₀ (by positivity)]; linarith
  have hfull : (n : Rat) * (360 / (n : Rat)) = 360 := by field_simp
  refine ⟨by simp [angles], 360 - 360 / (n : Rat) / 2, 360 / (n : Rat) / 2, ?_, ?_, ?_, ?_, ?_, ?_⟩
  · simp only [angles]
    rw [List.getElem?_map, List.getElem?_range (by omega)]
    simp only [Option.map_some, Nat.cast_zero, zero_mul, zero_add]
    have : ¬ (0 : Rat) ≤ 0 - 360 / (n : Rat) / 2 := by linarith
    rw [if_neg this]; congr 1; ring
  · simp only [angles]
    rw [List.getElem?_map, List.getElem?_range (by omega)]
    simp only [Option.map_some, Nat.cast_one, one_mul, add_zero]
    have : (0 : Rat) ≤ 360 / (n : Rat) - 360 / (n : Rat) / 2 := by linarith
    rw [if_pos this]; congr 1; ring
  · simp only [angles]
    rw [List.getElem?_map, List.getElem?_range (by omega)]
    simp only [Option.map_some, add_zero, hfull]
    have : (0 : Rat) ≤ 360 - 360 / (n : Rat) / 2 := by linarith
    rw [if_pos this]
  · linarith
  · linarith
  · linarith

/-- Every direction in `[0, 360)` is taken by one of the `n` sectors. -/
theorem windrose_cover (n : Nat) (hn : 1 ≤ n) (k : Rat) (h0 : 0 ≤ k) (h360 : k < 360) :
    (circBin (angles n) 0 360 k).isSome = true := by
  obtain ⟨hlen, a0, a1, e0, e1, en, hwrap, ha0, ha1⟩ := angles_facts n hn
  have hrange : ¬ (k < 0 ∨ (360 : Rat) ≤ k) := by
    intro h; rcases h with h | h <;> linarith
  unfold circBin
  rw [if_neg hrange, List.find?_isSome]
  by_cases hb0 : a0 ≤ k ∨ k < a1
  · refine ⟨0, by simp [hlen]; omega, ?_⟩
    simp only [circTakes, e0, e1, Nat.zero_add]
    rw [if_neg hwrap]
    rcases hb0 with h | h
    · simp; left; exact ⟨by linarith, h⟩
    · simp; right; exact ⟨h, h0⟩
  · have hk1 : a1 ≤ k := by
      rcases le_or_gt a1 k with h | h
      · exact h
      · exact absurd (Or.inr h) hb0
    have hk2 : k < a0 := by
      rcases lt_or_ge k a0 with h | h
      · exact h
      · exact absurd (Or.inl h) hb0
    have htail : (angles n).tail ≠ [] := by
      intro h
      have := congrArg List.length h
      simp [hlen] at this
      have hn1 : n = 0 := this
      omega
    have hn2 : 2 ≤ n := by
      rcases Nat.lt_or_ge n 2 with h | h
      · have : n = 1 := by omega
        subst this
        rw [e1] at en; have : a1 = a0 := by simpa using en
        linarith
      · exact h
    obtain ⟨i, a, b, ha, hb, h3, h4⟩ := chain_cover (angles n).tail k
      (by intro x hx; rw [List.getElem?_tail, e1] at hx; have : a1 = x := by simpa using hx
          rw [← this]; exact hk1)
      (by intro x hx
          have hl : (angles n).tail.getLast? = (angles n)[n]? := by
            rw [List.getLast?_eq_getElem?, List.getElem?_tail, List.length_tail, hlen]
            congr 1; omega
          rw [hl, en] at hx; have : a0 = x := by simpa using hx
          rw [← this]; exact hk2) htail
    rw [List.getElem?_tail] at ha hb
    have hi : i + 2 < (angles n).length := by
      have := (List.getElem?_eq_some_iff.mp hb).1
      omega
    have hi' : i + 1 < n := by rw [hlen] at hi; omega
    refine ⟨i + 1, by simpa [hlen] using hi', ?_⟩
    simp only [circTakes, ha, hb]
    have hab : a < b := by linarith
    rw [if_pos hab]
    simp [h3, h4]

end Plot

namespace Plot

theorem maxFrom_bound (l : List (Nat × Rat)) : ∀ mx, ∀ p ∈ l, p.1 ≤ maxFrom mx l := by
  induction l with
  | nil => intro mx p hp; simp at hp
  | cons q qs ih =>
    intro mx p hp
    rcases List.mem_cons.mp hp with rfl | h
    · exact Nat.le_trans (Nat.le_max_right _ _) (maxFrom_ge qs _)
    · exact ih _ p h

theorem maxFrom_attained (l : List (Nat × Rat)) : ∀ mx, maxFrom mx l = mx ∨ ∃ p ∈ l, p.1 = maxFrom mx l := by
  induction l with
  | nil => intro mx; exact Or.inl rfl
  | cons q qs ih =>
    intro mx
    have hM : maxFrom mx (q :: qs) = maxFrom (max mx q.1) qs := rfl
    rw [hM]
    rcases ih (max mx q.1) with h | ⟨p, hp, h⟩
    · rw [h]
      rcases Nat.le_total mx q.1 with h2 | h2
      · right; exact ⟨q, by simp, (Nat.max_eq_right h2).symm⟩
      · left; exact Nat.max_eq_left h2
    · right; exact ⟨p, List.mem_cons_of_mem _ hp, h⟩

theorem pair_index_inj (m a b c d : Nat) (hb : b < m) (hd : d < m) (h : a * m + b = c * m + d) :
    a = c ∧ b = d := by
  have hm : 0 < m := by omega
  have h1 : (a * m + b) / m = a := by
    rw [Nat.add_comm, Nat.add_mul_div_right _ _ hm, Nat.div_eq_of_lt hb]; simp
  have h2 : (c * m + d) / m = c := by
    rw [Nat.add_comm, Nat.add_mul_div_right _ _ hm, Nat.div_eq_of_lt hd]; simp
  have hac : a = c := by rw [← h1, ← h2, h]
  subst hac
  exact ⟨rfl, by omega⟩

end Plot
