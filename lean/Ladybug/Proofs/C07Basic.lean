/-
  C07 — lemmas about the basic codecs shared by Props/C07 and the composite laws (Wea):
  constructor idempotence of AnalysisPeriod, DateTime arrays.  No Mathlib.
-/
import Ladybug.Model.Serial.Coll
import Ladybug.Props.C08

namespace Codec
open Cal

theorem make_hour0 (m d h : Nat) (leap : Bool) (hv : (DT.mk m d h 0 leap).valid) :
    DT.make m d h 0 leap = .ok ⟨m, d, h, 0, leap⟩ := make_of_valid ⟨m, d, h, 0, leap⟩ hv

theorem orD_pos (n d : Nat) (h : 1 ≤ n) : orD (some n) d = n := by
  cases n with
  | zero => omega
  | succ k => rfl

/-- The constructor applied to the fields of a well-formed period rebuilds it (constructor
    idempotence): no `or`-default fires, no end-day clipping, both DateTimes are accepted. -/
theorem AP.make_of_wf (a : AP) (h : a.wf) :
    AP.make (some a.stM) (some a.stD) (some a.stH) (some a.endM) (some a.endD) (some a.endH)
      (some a.ts) a.leap = some a := by
  obtain ⟨hs, he, ht⟩ := h
  have hs' := hs
  have he' := he
  simp only [DT.valid] at hs' he'
  have e1 := orD_pos a.stM 1 hs'.1
  have e2 := orD_pos a.stD 1 hs'.2.2.1
  have e4 := orD_pos a.endM 12 he'.1
  have e5 := orD_pos a.endD 31 he'.2.2.1
  have e7 : orD (some a.ts) 1 = a.ts := by
    apply orD_pos
    simp only [validTimesteps, List.mem_cons, List.not_mem_nil, or_false] at ht
    omega
  have e3 : orD (some a.stH) 0 = a.stH := by cases h3 : a.stH <;> rfl
  have hclip : ¬ (monthLen a.leap a.endM < a.endD) := by omega
  have h12 : ¬ (12 < a.endM) := by omega
  simp only [AP.make, e1, e2, e3, e4, e5, e7, make_hour0 _ _ _ _ hs, make_hour0 _ _ _ _ he, okOpt,
    hclip, h12, ht, if_true, if_false, Option.bind_eq_bind, Option.bind_some]


theorem dtOfArray_roundtrip (d : DT) (hv : d.valid) : dtOfArray (jsonRT (dtArray d)) = some d := by
  have h := C08_array_roundtrip d hv
  have hl : decList PyVal.nat? (d.toArray.map natV) = some d.toArray :=
    decList_map _ _ _ (fun a _ => nat?_natV a)
  simp [dtOfArray, dtArray, PyVal.list?, List.map_map, Function.comp_def, hl, h, okOpt]


end Codec
