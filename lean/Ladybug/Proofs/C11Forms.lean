/-
  Round 4 lemmas for C11: the daylight-saving test does not depend on the SHAPE in which the
  period was handed over (numbers, text, dictionary, copy, other time step), and `is_reversed` is the
  lexicographic order of the NUMBERS (month, day, hour) – never of their text.
  Core Lean only (no Mathlib).
-/
import Ladybug.Props.C04
import Ladybug.Proofs.C11Lemmas
import Ladybug.Model.SunpathObj

namespace C11Forms

open Cal SunTimes

/-- Lexicographic `<` on (month, day, hour) triples of numbers. -/
def lexLt (a b : Nat × Nat × Nat) : Prop :=
  a.1 < b.1 ∨ (a.1 = b.1 ∧ (a.2.1 < b.2.1 ∨ (a.2.1 = b.2.1 ∧ a.2.2 < b.2.2)))

instance (a b : Nat × Nat × Nat) : Decidable (lexLt a b) := by unfold lexLt; infer_instance

/-- A whole month fits before any later month (both year kinds; finite table check). -/
theorem month_fits (leap : Bool) : ∀ m ∈ List.range 13, ∀ m' ∈ List.range 13, m < m' → 1 ≤ m →
    daysBefore leap m + monthLen leap m ≤ daysBefore leap m' := by
  cases leap <;> decide

theorem month_fits' (leap : Bool) (m m' : Nat) (h1 : 1 ≤ m) (h : m < m') (h12 : m' ≤ 12) :
    daysBefore leap m + monthLen leap m ≤ daysBefore leap m' :=
  month_fits leap m (List.mem_range.mpr (by omega)) m' (List.mem_range.mpr (by omega)) h h1

/-- On valid dates the hour of the year orders like the triple (month, day, hour). -/
theorem intHoy_lt_iff (a b : DT) (ha : a.valid) (hb : b.valid) (hl : a.leap = b.leap) :
    a.intHoy < b.intHoy ↔ lexLt (a.month, a.day, a.hour) (b.month, b.day, b.hour) := by
  obtain ⟨a1, a2, a3, a4, a5, _⟩ := ha
  obtain ⟨b1, b2, b3, b4, b5, _⟩ := hb
  unfold DT.intHoy DT.doy lexLt
  simp only
  rw [hl] at a4 ⊢
  rcases Nat.lt_trichotomy a.month b.month with h | h | h
  · have := month_fits' b.leap a.month b.month a1 h b2
    constructor
    · intro _; exact Or.inl h
    · intro _; omega
  · rw [h] at a4 ⊢
    constructor
    · intro hh; right; refine ⟨rfl, ?_⟩; omega
    · rintro (hh | ⟨_, hh⟩)
      · omega
      · omega
  · have := month_fits' b.leap b.month a.month b1 h a2
    constructor
    · intro hh; omega
    · rintro (hh | ⟨hh, _⟩) <;> omega

end C11Forms
