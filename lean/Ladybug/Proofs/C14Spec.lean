/-
  C14 helper lemmas, part 2: allocation of derived collections, the shape of the specs of the fixed
  code, mutators as local steps.  No Mathlib.
-/
import Ladybug.Proofs.C14Lemmas

namespace LbHeap

/-! ### allocation only allocates -/

theorem allocAp_ext {h : Heap} (wf : WF h) (s : ApSrc) :
    Ext h (allocAp h s).1 ∧ WF (allocAp h s).1 := by
  cases s with
  | share r => exact ⟨Ext.refl h, wf⟩
  | new a => exact ⟨alloc_ext h _, alloc_wf wf _⟩

/-- `deepcopy(metadata)`: only allocations; every nested list of the copy is a new list cell. -/
theorem allocMd_spec {h : Heap} (wf : WF h) (m : List (Nat × OV)) :
    Ext h (allocMd h m).1 ∧ WF (allocMd h m).1 ∧
    ∀ r ∈ mdRefs (allocMd h m).2, h.next ≤ r ∧ ∃ l, (allocMd h m).1.cells r = some (.mlist l) := by
  induction m generalizing h with
  | nil => exact ⟨Ext.refl h, wf, fun r hr => by simp [allocMd, mdRefs] at hr⟩
  | cons p rest ih =>
    obtain ⟨k, v⟩ := p
    cases v with
    | tok s =>
      simp only [allocMd, mdRefs_cons_tok]
      exact ih wf
    | bad =>
      simp only [allocMd, mdRefs_cons_tok]
      exact ih wf
    | lst l =>
      simp only [allocMd, mdRefs_cons_lst]
      have A := alloc_ext h (.mlist l)
      have Awf := alloc_wf wf (.mlist l)
      have I := ih (h := (h.alloc (.mlist l)).1) Awf
      refine ⟨A.trans I.1, I.2.1, fun r hr => ?_⟩
      rcases List.mem_cons.1 hr with e | e
      · subst e
        exact ⟨Nat.le_refl _, l, ext_cell Awf I.1 (alloc_get h _)⟩
      · obtain ⟨h1, h2⟩ := I.2.2 r e
        have : h.next ≤ (h.alloc (.mlist l)).1.next := A.1
        exact ⟨Nat.le_trans this h1, h2⟩

theorem allocMeta_ext {h : Heap} (wf : WF h) (s : MetaSrc) :
    Ext h (allocMeta h s).1 ∧ WF (allocMeta h s).1 := by
  cases s with
  | share r => exact ⟨Ext.refl h, wf⟩
  | new m =>
    have A := allocMd_spec wf m
    exact ⟨A.1.trans (alloc_ext _ _), alloc_wf A.2.1 _⟩
  | shallow m => exact ⟨alloc_ext h _, alloc_wf wf _⟩

/-- A deep-copied metadata dict: a new dict cell whose nested lists are new cells. -/
theorem allocMeta_new_spec {h : Heap} (wf : WF h) (m : List (Nat × OV)) :
    Ext h (allocMeta h (.new m)).1 ∧ WF (allocMeta h (.new m)).1 ∧ h.next ≤ (allocMeta h (.new m)).2 ∧
    ∃ mm, (allocMeta h (.new m)).1.cells (allocMeta h (.new m)).2 = some (.md mm) ∧
      ∀ r ∈ mdRefs mm, h.next ≤ r ∧ ∃ l, (allocMeta h (.new m)).1.cells r = some (.mlist l) := by
  have A := allocMd_spec wf m
  simp only [allocMeta]
  have B := alloc_ext (allocMd h m).1 (.md (allocMd h m).2)
  have Bwf := alloc_wf A.2.1 (.md (allocMd h m).2)
  refine ⟨A.1.trans B, Bwf, ?_, _, alloc_get _ _, fun r hr => ?_⟩
  · have : h.next ≤ (allocMd h m).1.next := A.1.1
    exact this
  · obtain ⟨h1, l, h2⟩ := A.2.2 r hr
    exact ⟨h1, l, ext_cell A.2.1 B h2⟩

theorem allocVals_ext {h : Heap} (wf : WF h) (s : ValSrc) :
    Ext h (allocVals h s).1 ∧ WF (allocVals h s).1 := by
  cases s with
  | share r => exact ⟨Ext.refl h, wf⟩
  | new a t => exact ⟨alloc_ext h _, alloc_wf wf _⟩

theorem allocHdr_ext {h : Heap} (wf : WF h) (s : HdrSrc) :
    Ext h (allocHdr h s).1 ∧ WF (allocHdr h s).1 := by
  cases s with
  | share r => exact ⟨Ext.refl h, wf⟩
  | new dt u ap m =>
    simp only [allocHdr]
    have h1 := allocAp_ext wf ap
    have h2 := allocMeta_ext h1.2 m
    exact ⟨(h1.1.trans h2.1).trans (alloc_ext _ _), alloc_wf h2.2 _⟩

theorem mkColl_ext {h : Heap} (wf : WF h) (s : NewSpec) :
    Ext h (mkColl h s).1 ∧ WF (mkColl h s).1 := by
  simp only [mkColl]
  have h1 := allocHdr_ext wf s.hdr
  have h2 := allocVals_ext h1.2 s.vals
  exact ⟨(h1.1.trans h2.1).trans (alloc_ext _ _), alloc_wf h2.2 _⟩

/-- Every deriving operation (pinned or fixed code) only allocates: no existing cell changes. -/
theorem derive_ext {m : Mode} {h h' : Heap} {c r : Nat} {op : DOp} (wf : WF h)
    (e : derive m h c op = .ok (h', r)) : Ext h h' ∧ WF h' := by
  unfold derive at e
  split at e
  · cases e
  · rename_i s _
    have e' : mkColl h s = (h', r) := Except.ok.inj e
    have := mkColl_ext wf s
    rw [e'] at this
    exact this

/-! ### reading a source -/

theorem src_ok {h : Heap} {c : Nat} {s : Src} (e : src h c = .ok s) :
    h.cells c = some (.coll s.k) ∧ h.cells s.k.hdr = some (.hdr s.hd) ∧
    h.cells s.hd.md = some (.md s.rmd) ∧ h.cells s.hd.ap = some (.ap s.ap) ∧
    h.cells s.k.vals = some (.vals s.vals s.tuple) ∧ s.md = obsMeta h.cells s.rmd := by
  unfold src at e
  split at e
  · cases e
  · rename_i k hk
    split at e
    · cases e
    · rename_i hd hhd
      split at e
      · rename_i m a v t hm ha hv
        cases e
        simp only [getColl, getHdr, getMeta, getAP, getVals] at hk hhd hm ha hv
        refine ⟨?_, ?_, ?_, ?_, ?_, rfl⟩
        · split at hk <;> simp_all
        · split at hhd <;> simp_all
        · split at hm <;> simp_all
        · split at ha <;> simp_all
        · split at hv <;> simp_all
      · cases e

theorem src_of_typed {h : Heap} {c : Nat} (ty : Typed h c) :
    ∃ s, src h c = .ok s ∧ (s.k.isMut = true → s.tuple = false) ∧
      ∀ r ∈ mdRefs s.rmd, ∃ l, h.cells r = some (.mlist l) := by
  obtain ⟨k, hd, m, a, v, t, e1, e2, e3, e4, e5, e6, e7⟩ := ty
  exact ⟨⟨k, hd, m, obsMeta h.cells m, a, v, t⟩,
    by simp [src, getColl, getHdr, getMeta, getAP, getVals, e1, e2, e3, e4, e5], e6, e7⟩

/-! ### a copying spec builds a fresh collection -/

/-- A new header with a deep-copied metadata dict. -/
theorem allocHdr_new_spec {h : Heap} (wf : WF h) (dt u : Nat) (ap : ApSrc) (m : List (Nat × OV))
    (hap : ∀ r, ap = .share r → ∃ a, h.cells r = some (.ap a)) :
    Ext h (allocHdr h (.new dt u ap (.new m))).1 ∧ WF (allocHdr h (.new dt u ap (.new m))).1 ∧
    h.next ≤ (allocHdr h (.new dt u ap (.new m))).2 ∧
    ∃ ra rm mm a,
      (allocHdr h (.new dt u ap (.new m))).1.cells (allocHdr h (.new dt u ap (.new m))).2
        = some (.hdr ⟨dt, u, ra, rm⟩) ∧
      h.next ≤ rm ∧ (allocHdr h (.new dt u ap (.new m))).1.cells rm = some (.md mm) ∧
      (∀ r ∈ mdRefs mm, h.next ≤ r ∧
        ∃ l, (allocHdr h (.new dt u ap (.new m))).1.cells r = some (.mlist l)) ∧
      (allocHdr h (.new dt u ap (.new m))).1.cells ra = some (.ap a) ∧
      (h.next ≤ ra ∨ h.cells ra = some (.ap a)) := by
  have A := allocAp_ext wf ap
  have Aref : ∃ a, (allocAp h ap).1.cells (allocAp h ap).2 = some (.ap a) ∧
      (h.next ≤ (allocAp h ap).2 ∨ h.cells (allocAp h ap).2 = some (.ap a)) := by
    cases ap with
    | share r => obtain ⟨a, ha⟩ := hap r rfl; exact ⟨a, ha, Or.inr ha⟩
    | new a => exact ⟨a, alloc_get h _, Or.inl (Nat.le_refl _)⟩
  obtain ⟨a, ha1, ha2⟩ := Aref
  have B := allocMeta_new_spec A.2 m
  obtain ⟨Bext, Bwf, Bge, mm, Bget, Bn⟩ := B
  simp only [allocHdr]
  have C := alloc_ext (allocMeta (allocAp h ap).1 (.new m)).1
    (.hdr ⟨dt, u, (allocAp h ap).2, (allocMeta (allocAp h ap).1 (.new m)).2⟩)
  have Cwf := alloc_wf Bwf
    (.hdr ⟨dt, u, (allocAp h ap).2, (allocMeta (allocAp h ap).1 (.new m)).2⟩)
  have n01 : h.next ≤ (allocAp h ap).1.next := A.1.1
  have n12 : (allocAp h ap).1.next ≤ (allocMeta (allocAp h ap).1 (.new m)).1.next := Bext.1
  refine ⟨(A.1.trans Bext).trans C, Cwf, ?_, _, _, mm, a, alloc_get _ _, ?_, ext_cell Bwf C Bget,
    fun r hr => ?_, ext_cell A.2 (Bext.trans C) ha1, ha2⟩
  · rw [alloc_ref]; omega
  · omega
  · obtain ⟨h1, l, h2⟩ := Bn r hr
    exact ⟨by omega, l, ext_cell Bwf C h2⟩

/-- A copying spec builds a fresh collection. -/
theorem mkColl_fresh {h : Heap} (wf : WF h) {s : NewSpec} (cp : s.Copying h) :
    Fresh collFP h (mkColl h s).1 (mkColl h s).2 := by
  obtain ⟨⟨dt, u, ap, m, hh, hap⟩, hshare, hnew⟩ := cp
  have hext := mkColl_ext wf s
  have H := allocHdr_new_spec wf dt u ap m hap
  rw [← hh] at H
  obtain ⟨Hext, Hwf, Hge, ra, rm, mm, a, Hget, Hrm, Hmd, Hn, Hap, Hapn⟩ := H
  -- the values cell
  have D := allocVals_ext Hwf s.vals
  have Dref : (∃ v t, (allocVals (allocHdr h s.hdr).1 s.vals).1.cells
        (allocVals (allocHdr h s.hdr).1 s.vals).2 = some (.vals v t) ∧ (s.isMut = true → t = false)) ∧
      (((allocHdr h s.hdr).1.next ≤ (allocVals (allocHdr h s.hdr).1 s.vals).2) ∨
        (s.isMut = false ∧ ∃ v, h.cells (allocVals (allocHdr h s.hdr).1 s.vals).2 = some (.vals v true))) := by
    cases hv : s.vals with
    | share r =>
      obtain ⟨⟨v, hv1⟩, hm⟩ := hshare r hv
      exact ⟨⟨v, true, ext_cell wf Hext hv1, fun hm' => by rw [hm] at hm'; cases hm'⟩,
        Or.inr ⟨hm, v, hv1⟩⟩
    | new v t =>
      exact ⟨⟨v, t, alloc_get _ _, hnew v t hv⟩, Or.inl (Nat.le_refl _)⟩
  obtain ⟨⟨vv, vt, hvv, hvt⟩, hvn⟩ := Dref
  have n03 : h.next ≤ (allocHdr h s.hdr).1.next := Hext.1
  have n34 : (allocHdr h s.hdr).1.next ≤ (allocVals (allocHdr h s.hdr).1 s.vals).1.next := D.1.1
  simp only [mkColl]
  have E := alloc_ext (allocVals (allocHdr h s.hdr).1 s.vals).1
    (.coll ⟨(allocHdr h s.hdr).2, (allocVals (allocHdr h s.hdr).1 s.vals).2, s.dts, s.isMut, s.cls,
      s.validated, false⟩)
  have Ewf := alloc_wf D.2
    (.coll ⟨(allocHdr h s.hdr).2, (allocVals (allocHdr h s.hdr).1 s.vals).2, s.dts, s.isMut, s.cls,
      s.validated, false⟩)
  have Eget := alloc_get (allocVals (allocHdr h s.hdr).1 s.vals).1
    (.coll ⟨(allocHdr h s.hdr).2, (allocVals (allocHdr h s.hdr).1 s.vals).2, s.dts, s.isMut, s.cls,
      s.validated, false⟩)
  have e35 := D.1.trans E
  have c_hdr := ext_cell Hwf e35 Hget
  have c_md := ext_cell Hwf e35 Hmd
  have c_ap := ext_cell Hwf e35 Hap
  have c_vals := ext_cell D.2 E hvv
  have c_n : ∀ r ∈ mdRefs mm, ∃ l, _ = some (Cell.mlist l) :=
    fun r hr => let ⟨_, l, h2⟩ := Hn r hr; ⟨l, ext_cell Hwf e35 h2⟩
  have self_ge : h.next ≤ (allocVals (allocHdr h s.hdr).1 s.vals).1.next := by omega
  refine ⟨Hext.trans e35, Ewf, ⟨_, _, mm, a, vv, vt, Eget, c_hdr, c_md, c_ap, c_vals, hvt, c_n⟩,
    self_ge, ?_, ?_⟩
  · intro r hr
    rcases (mem_owned Eget c_hdr c_md).1 hr with h1 | h1 | h1 | h1 | ⟨hm, h1⟩
    · rw [h1]; exact self_ge
    · rw [h1]; exact Hge
    · rw [h1]; exact Hrm
    · exact (Hn r h1).1
    · rw [h1]
      rcases hvn with h2 | ⟨h2, _⟩
      · simp only at hm ⊢; omega
      · simp only at hm; rw [h2] at hm; cases hm
  · intro r hr
    rcases (mem_reads Eget c_hdr c_md).1 hr with h1 | h1 | h1 | h1 | h1 | h1
    · left; rw [h1]; exact self_ge
    · left; rw [h1]; exact Hge
    · left; rw [h1]; exact Hrm
    · rw [h1]
      rcases Hapn with h2 | h2
      · left; exact h2
      · right; left; exact ⟨a, h2⟩
    · rw [h1]
      rcases hvn with h2 | ⟨_, v, h2⟩
      · left; simp only; omega
      · right; right; left; exact ⟨v, h2⟩
    · left; exact (Hn r h1).1

/-! ### the deriving operations of the fixed code copy -/

/-- Shape of the specs of the fixed code: new header with a deep-copied metadata dict; period new or
    the source's; values new (a list for a mutable result) or – for an immutable result – the source's
    tuple. -/
def CopyShape (s : Src) (sp : NewSpec) : Prop :=
  (∃ dt u ap m, sp.hdr = .new dt u ap (.new m) ∧ (∀ r, ap = .share r → r = s.hd.ap)) ∧
  (∀ r, sp.vals = .share r → r = s.k.vals ∧ s.tuple = true ∧ sp.isMut = false) ∧
  (∀ v t, sp.vals = .new v t → (sp.isMut = true → t = false))

theorem copying_of_shape {h : Heap} {c : Nat} {s : Src} (e : src h c = .ok s) {sp : NewSpec}
    (sh : CopyShape s sp) : sp.Copying h := by
  obtain ⟨_, _, _, e4, e5, _⟩ := src_ok e
  obtain ⟨⟨dt, u, ap, m, hh, hap⟩, hv, hn⟩ := sh
  refine ⟨⟨dt, u, ap, m, hh, fun r hr => ?_⟩, fun r hr => ?_, hn⟩
  · rw [hap r hr]; exact ⟨_, e4⟩
  · obtain ⟨rfl, ht, hm⟩ := hv r hr
    rw [ht] at e5
    exact ⟨⟨_, e5⟩, hm⟩

theorem shape_dup (s : Src) (u : Option Nat) (ap : Option (List Nat)) (x : Option (Nat × MV))
    (dt : Option Nat) (b : Bool) (v : List Rat) (d : List Nat) (c : Cls) (vd : Bool) :
    CopyShape s ⟨dupHdr s u ap x dt, newVals b v, d, b, c, vd⟩ := by
  refine ⟨⟨_, _, _, _, rfl, ?_⟩, ?_, ?_⟩
  · intro r hr; cases hr
  · intro r hr; simp [newVals] at hr
  · intro v t hv hb; simp only [newVals, ValSrc.new.injEq] at hv; simp only at hb; rw [← hv.2, hb]; rfl

theorem shape_dup_share (s : Src) (b : Bool) (d : List Nat) (c : Cls) (vd : Bool)
    (hb : b = false) (ht : s.tuple = true) :
    CopyShape s ⟨dupHdr s, .share s.k.vals, d, b, c, vd⟩ := by
  refine ⟨⟨_, _, _, _, rfl, ?_⟩, ?_, ?_⟩
  · intro r hr; cases hr
  · intro r hr; simp only [ValSrc.share.injEq] at hr; exact ⟨hr.symm, ht, hb⟩
  · intro v t hv; cases hv

theorem shape_aligned (s : Src) (dt u : Nat) (b : Bool) (v : List Rat) (d : List Nat) (c : Cls)
    (vd : Bool) :
    CopyShape s ⟨.new dt u (.share s.hd.ap) (.new s.md), newVals b v, d, b, c, vd⟩ := by
  refine ⟨⟨_, _, _, _, rfl, ?_⟩, ?_, ?_⟩
  · intro r hr; simp only [ApSrc.share.injEq] at hr; exact hr.symm
  · intro r hr; simp [newVals] at hr
  · intro v t hv hb; simp only [newVals, ValSrc.new.injEq] at hv; simp only at hb; rw [← hv.2, hb]; rfl

theorem shape_newap (s : Src) (dt u : Nat) (b : Bool) (v : List Rat) (d : List Nat) (c : Cls)
    (vd : Bool) :
    CopyShape s ⟨.new dt u (.new s.ap) (.new s.md), newVals b v, d, b, c, vd⟩ := by
  refine ⟨⟨_, _, _, _, rfl, ?_⟩, ?_, ?_⟩
  · intro r hr; cases hr
  · intro r hr; simp [newVals] at hr
  · intro v t hv hb; simp only [newVals, ValSrc.new.injEq] at hv; simp only at hb; rw [← hv.2, hb]; rfl

theorem shape_filtered {s : Src} {sel : Nat → Bool} {kf : Bool} {ap : Option (List Nat)}
    {order : Option (List Nat)} {sp : NewSpec}
    (e : filtered s sel kf ap order = .ok sp) : CopyShape s sp := by
  unfold filtered at e
  simp only at e
  split at e
  · cases e
  · cases e; exact shape_dup s _ _ _ _ _ _ _ _ _

theorem shape_cfa {h : Heap} {s : Src} {x : Operand} {u : Nat} {sp : NewSpec}
    (e : cfaSpec .fixed h s x u = .ok sp) : CopyShape s sp := by
  unfold cfaSpec at e
  simp only [bind, Except.bind, pure, Except.pure, reduceCtorEq, false_and, if_false] at e
  repeat' (split at e)
  all_goals first
    | (cases e <;> first
        | exact shape_aligned _ _ _ _ _ _ _ _
        | exact shape_newap _ _ _ _ _ _ _ _)
    | cases e

/-- Every deriving operation of the fixed code copies. -/
theorem specOf_fixed_shape {h : Heap} {c : Nat} {op : DOp} {s : Src} {sp : NewSpec}
    (hs : src h c = .ok s) (e : specOf .fixed h c op = .ok sp) : CopyShape s sp := by
  unfold specOf at e
  simp only [hs, bind, Except.bind, pure, Except.pure, hdrOrShare] at e
  cases op <;> simp only [reduceCtorEq, false_and, if_false] at e
  all_goals
    repeat' (split at e)
  all_goals first
    | exact shape_filtered e
    | exact shape_cfa e
    | (cases e <;> first
        | exact shape_dup _ _ _ _ _ _ _ _ _ _
        | exact shape_aligned _ _ _ _ _ _ _ _
        | exact shape_newap _ _ _ _ _ _ _ _
        | (refine shape_dup_share _ _ _ _ _ ?_ ?_ <;> simp_all))

/-! ### mutators are local steps -/

/-- Generic shape of the heap after a mutator on `a`. -/
theorem local_of_shape {h h' : Heap} {a : Nat} {k k' : Coll} {hd hd' : Hdr}
    {m m' : List (Nat × MVal)} {ap' : List Nat} {v' : List Rat} {t' : Bool}
    (e1 : h.cells a = some (.coll k)) (e2 : h.cells k.hdr = some (.hdr hd))
    (e3 : h.cells hd.md = some (.md m))
    (wf' : WF h')
    (c1 : h'.cells a = some (.coll k')) (c2 : h'.cells k'.hdr = some (.hdr hd'))
    (c3 : h'.cells hd'.md = some (.md m')) (c4 : h'.cells hd'.ap = some (.ap ap'))
    (c5 : h'.cells k'.vals = some (.vals v' t')) (c6 : k'.isMut = true → t' = false)
    (c7 : ∀ r ∈ mdRefs m', ∃ l, h'.cells r = some (.mlist l))
    (khdr : k'.hdr = k.hdr) (kmut : k'.isMut = k.isMut)
    (pmd : hd'.md = hd.md ∨ h.next ≤ hd'.md) (pap : hd'.ap = hd.ap ∨ h.next ≤ hd'.ap)
    (pv : k'.vals = k.vals ∨ h.next ≤ k'.vals)
    (pn : ∀ r ∈ mdRefs m', r ∈ mdRefs m ∨ h.next ≤ r)
    (frame : ∀ r, r < h.next → r ∉ owned h a → h'.cells r = h.cells r) : Local collFP h h' a := by
  refine ⟨wf', frame, ⟨_, _, _, _, _, _, c1, c2, c3, c4, c5, c6, c7⟩, ?_, ?_⟩
  · intro r hr
    have hr' := (mem_owned c1 c2 c3).1 hr
    show r ∈ owned h a ∨ h.next ≤ r
    rw [mem_owned e1 e2 e3]
    rcases hr' with h1 | h1 | h1 | h1 | ⟨hm, h1⟩
    · exact Or.inl (Or.inl h1)
    · exact Or.inl (Or.inr (Or.inl (h1.trans khdr)))
    · rcases pmd with p | p
      · exact Or.inl (Or.inr (Or.inr (Or.inl (h1.trans p))))
      · exact Or.inr (by rw [h1]; exact p)
    · rcases pn r h1 with p | p
      · exact Or.inl (Or.inr (Or.inr (Or.inr (Or.inl p))))
      · exact Or.inr p
    · rcases pv with p | p
      · exact Or.inl (Or.inr (Or.inr (Or.inr (Or.inr ⟨kmut ▸ hm, h1.trans p⟩))))
      · exact Or.inr (by rw [h1]; exact p)
  · intro r hr
    have hr' := (mem_reads c1 c2 c3).1 hr
    show r ∈ reads h a ∨ h.next ≤ r
    rw [mem_reads e1 e2 e3]
    rcases hr' with h1 | h1 | h1 | h1 | h1 | h1
    · exact Or.inl (Or.inl h1)
    · exact Or.inl (Or.inr (Or.inl (h1.trans khdr)))
    · rcases pmd with p | p
      · exact Or.inl (Or.inr (Or.inr (Or.inl (h1.trans p))))
      · exact Or.inr (by rw [h1]; exact p)
    · rcases pap with p | p
      · exact Or.inl (Or.inr (Or.inr (Or.inr (Or.inl (h1.trans p)))))
      · exact Or.inr (by rw [h1]; exact p)
    · rcases pv with p | p
      · exact Or.inl (Or.inr (Or.inr (Or.inr (Or.inr (Or.inl (h1.trans p))))))
      · exact Or.inr (by rw [h1]; exact p)
    · rcases pn r h1 with p | p
      · exact Or.inl (Or.inr (Or.inr (Or.inr (Or.inr (Or.inr p)))))
      · exact Or.inr p

theorem not_owned {h : Heap} {a r : Nat} {k : Coll} {hd : Hdr} {m : List (Nat × MVal)}
    (e1 : h.cells a = some (.coll k)) (e2 : h.cells k.hdr = some (.hdr hd))
    (e3 : h.cells hd.md = some (.md m)) (hr : r ∉ owned h a) :
    r ≠ a ∧ r ≠ k.hdr ∧ r ≠ hd.md ∧ r ∉ mdRefs m ∧ (k.isMut = true → r ≠ k.vals) := by
  rw [mem_owned e1 e2 e3] at hr
  simp only [not_or, not_and] at hr
  exact ⟨hr.1, hr.2.1, hr.2.2.1, hr.2.2.2.1, hr.2.2.2.2⟩

theorem mdRefs_metaSet_sub {m : List (Nat × MVal)} {k : Nat} {v : MVal} {r : Nat}
    (hr : r ∈ mdRefs (metaSet m k v)) : r ∈ mdRefs m ∨ v = .lst r := by
  obtain ⟨k', hk⟩ := mem_mdRefs.1 hr
  unfold metaSet at hk
  split at hk
  · obtain ⟨p, hp, he⟩ := List.mem_map.1 hk
    split at he
    · right; cases he; rfl
    · left; subst he; exact mem_mdRefs.2 ⟨_, hp⟩
  · rcases List.mem_append.1 hk with h1 | h1
    · left; exact mem_mdRefs.2 ⟨_, h1⟩
    · right
      simp only [List.mem_cons, List.not_mem_nil, or_false, Prod.mk.injEq] at h1
      exact h1.2.symm

/-- Every successful mutator (pinned or fixed code) is a local step on its target. -/
theorem mutate_local {m : Mode} {h h' : Heap} {a : Nat} {op : MOp} (wf : WF h) (ty : Typed h a)
    (e : mutate m h a op = .ok h') : Local collFP h h' a := by
  obtain ⟨s, hs, hmt, e7⟩ := src_of_typed ty
  obtain ⟨e1, e2, e3, e4, e5, _⟩ := src_ok hs
  have l1 := lt_next_of_some wf e1
  have l2 := lt_next_of_some wf e2
  have l3 := lt_next_of_some wf e3
  have l4 := lt_next_of_some wf e4
  have l5 := lt_next_of_some wf e5
  have n12 : a ≠ s.k.hdr := ne_of_kind e1 e2 (by simp)
  have n13 : a ≠ s.hd.md := ne_of_kind e1 e3 (by simp)
  have n14 : a ≠ s.hd.ap := ne_of_kind e1 e4 (by simp)
  have n15 : a ≠ s.k.vals := ne_of_kind e1 e5 (by simp)
  have n23 : s.k.hdr ≠ s.hd.md := ne_of_kind e2 e3 (by simp)
  have n24 : s.k.hdr ≠ s.hd.ap := ne_of_kind e2 e4 (by simp)
  have n25 : s.k.hdr ≠ s.k.vals := ne_of_kind e2 e5 (by simp)
  have n34 : s.hd.md ≠ s.hd.ap := ne_of_kind e3 e4 (by simp)
  have n35 : s.hd.md ≠ s.k.vals := ne_of_kind e3 e5 (by simp)
  have n45 : s.hd.ap ≠ s.k.vals := ne_of_kind e4 e5 (by simp)
  have f1 : a ≠ h.next := by omega
  have f2 : s.k.hdr ≠ h.next := Nat.ne_of_lt l2
  have f3 : s.hd.md ≠ h.next := Nat.ne_of_lt l3
  have f4 : s.hd.ap ≠ h.next := Nat.ne_of_lt l4
  have f5 : s.k.vals ≠ h.next := Nat.ne_of_lt l5
  -- nested list cells differ from all the other cells of `a` and are old
  have nn : ∀ (r : Nat) l, h.cells r = some (.mlist l) →
      r ≠ a ∧ r ≠ s.k.hdr ∧ r ≠ s.hd.md ∧ r ≠ s.hd.ap ∧ r ≠ s.k.vals ∧ r ≠ h.next ∧ r ≠ h.next + 1 := by
    intro r l hl
    have := lt_next_of_some wf hl
    exact ⟨ne_of_kind hl e1 (by simp), ne_of_kind hl e2 (by simp), ne_of_kind hl e3 (by simp),
      ne_of_kind hl e4 (by simp), ne_of_kind hl e5 (by simp), Nat.ne_of_lt this,
      Nat.ne_of_lt (Nat.lt_succ_of_lt this)⟩
  -- the three unit conversions share one heap shape
  have conv : ∀ u, Local collFP h (convertTo h a s u) a := by
    intro u
    refine local_of_shape (k' := { s.k with vals := h.next }) (hd' := { s.hd with unit := u })
      (m' := s.rmd) (ap' := s.ap) (v' := convVals s.hd.unit u s.vals) (t' := false)
      e1 e2 e3 ?_ ?_ ?_ ?_ ?_ ?_ (fun _ => rfl) ?_ rfl rfl (Or.inl rfl) (Or.inl rfl)
      (Or.inr (Nat.le_refl _)) (fun r hr => Or.inl hr) ?_
    · exact write_wf (write_wf (alloc_wf wf _) _ (by simp only [alloc_next]; omega)) _
        (by simp only [write_next, alloc_next]; omega)
    · simp [convertTo, Heap.write, Heap.alloc, n12]
    · simp [convertTo, Heap.write, Heap.alloc]
    · simp [convertTo, Heap.write, Heap.alloc, n23.symm, n13.symm, f3, e3]
    · simp [convertTo, Heap.write, Heap.alloc, n24.symm, n14.symm, f4, e4]
    · simp [convertTo, Heap.write, Heap.alloc, f2.symm, f1.symm]
    · intro r hr
      obtain ⟨l, hl⟩ := e7 r hr
      obtain ⟨r1, r2, _, _, _, r6, _⟩ := nn r l hl
      exact ⟨l, by simp [convertTo, Heap.write, Heap.alloc, r1, r2, r6, hl]⟩
    · intro r hr ho
      obtain ⟨r1, r2, _, _, _⟩ := not_owned e1 e2 e3 ho
      have : r ≠ h.next := by omega
      simp [convertTo, Heap.write, Heap.alloc, r1, r2, this]
  -- `values = v`
  have setv : ∀ v h'', setVals h a s v = .ok h'' → Local collFP h h'' a := by
    intro v h'' e
    unfold setVals at e
    repeat' (split at e)
    all_goals try (cases e; done)
    cases e
    refine local_of_shape (k' := { s.k with vals := h.next }) (hd' := s.hd)
      (m' := s.rmd) (ap' := s.ap) (v' := v) (t' := false)
      e1 e2 e3 ?_ ?_ ?_ ?_ ?_ ?_ (fun _ => rfl) ?_ rfl rfl (Or.inl rfl) (Or.inl rfl)
      (Or.inr (Nat.le_refl _)) (fun r hr => Or.inl hr) ?_
    · exact write_wf (alloc_wf wf _) _ (by simp only [alloc_next]; omega)
    · simp [Heap.write, Heap.alloc]
    · simp [Heap.write, Heap.alloc, n12.symm, f2, e2]
    · simp [Heap.write, Heap.alloc, n13.symm, f3, e3]
    · simp [Heap.write, Heap.alloc, n14.symm, f4, e4]
    · simp [Heap.write, Heap.alloc, f1.symm]
    · intro r hr
      obtain ⟨l, hl⟩ := e7 r hr
      obtain ⟨r1, _, _, _, _, r6, _⟩ := nn r l hl
      exact ⟨l, by simp [Heap.write, Heap.alloc, r1, r6, hl]⟩
    · intro r hr ho
      obtain ⟨r1, _, _, _, _⟩ := not_owned e1 e2 e3 ho
      have : r ≠ h.next := by omega
      simp [Heap.write, Heap.alloc, r1, this]
  unfold mutate at e
  simp only [hs, bind, Except.bind, pure, Except.pure] at e
  cases op <;> simp only at e
  case convUnit u =>
    repeat' (split at e)
    all_goals first | (cases e; exact conv _) | cases e
  case convIp =>
    repeat' (split at e)
    all_goals first | (cases e; exact conv _) | cases e
  case convSi =>
    repeat' (split at e)
    all_goals first | (cases e; exact conv _) | cases e
  case setValues v => exact setv v h' e
  case setValuesRef r =>
    split at e
    · cases e
    · split at e
      · exact setv _ h' e
      · cases e
  case setItem i x =>
    repeat' (split at e)
    all_goals try (cases e; done)
    all_goals
      have hm : s.k.isMut = true := by simp_all
      cases e
      refine local_of_shape (k' := s.k) (hd' := s.hd) (m' := s.rmd) (ap' := s.ap)
        (t' := s.tuple)
        e1 e2 e3 ?_ ?_ ?_ ?_ ?_ (write_same _ _ _) hmt ?_ rfl rfl (Or.inl rfl) (Or.inl rfl) (Or.inl rfl)
        (fun r hr => Or.inl hr) ?_
      · exact write_wf wf _ l5
      · simp [Heap.write, n15, e1]
      · simp [Heap.write, n25, e2]
      · simp [Heap.write, n35, e3]
      · simp [Heap.write, n45, e4]
      · intro r hr
        obtain ⟨l, hl⟩ := e7 r hr
        obtain ⟨_, _, _, _, r5, _, _⟩ := nn r l hl
        exact ⟨l, by simp [Heap.write, r5, hl]⟩
      · intro r hr ho
        obtain ⟨_, _, _, _, r4⟩ := not_owned e1 e2 e3 ho
        simp [Heap.write, r4 hm]
  case rotate left =>
    repeat' (split at e)
    all_goals try (cases e; done)
    all_goals
      have hm : s.k.isMut = true := by simp_all
      cases e
      refine local_of_shape (k' := s.k) (hd' := s.hd) (m' := s.rmd) (ap' := s.ap)
        (t' := s.tuple)
        e1 e2 e3 ?_ ?_ ?_ ?_ ?_ (write_same _ _ _) hmt ?_ rfl rfl (Or.inl rfl) (Or.inl rfl) (Or.inl rfl)
        (fun r hr => Or.inl hr) ?_
      · exact write_wf wf _ l5
      · simp [Heap.write, n15, e1]
      · simp [Heap.write, n25, e2]
      · simp [Heap.write, n35, e3]
      · simp [Heap.write, n45, e4]
      · intro r hr
        obtain ⟨l, hl⟩ := e7 r hr
        obtain ⟨_, _, _, _, r5, _, _⟩ := nn r l hl
        exact ⟨l, by simp [Heap.write, r5, hl]⟩
      · intro r hr ho
        obtain ⟨_, _, _, _, r4⟩ := not_owned e1 e2 e3 ho
        simp [Heap.write, r4 hm]
  case truncate n =>
    repeat' (split at e)
    all_goals try (cases e; done)
    all_goals
      have hm : s.k.isMut = true := by simp_all
      cases e
      refine local_of_shape (k' := s.k) (hd' := s.hd) (m' := s.rmd) (ap' := s.ap)
        (t' := s.tuple)
        e1 e2 e3 ?_ ?_ ?_ ?_ ?_ (write_same _ _ _) hmt ?_ rfl rfl (Or.inl rfl) (Or.inl rfl) (Or.inl rfl)
        (fun r hr => Or.inl hr) ?_
      · exact write_wf wf _ l5
      · simp [Heap.write, n15, e1]
      · simp [Heap.write, n25, e2]
      · simp [Heap.write, n35, e3]
      · simp [Heap.write, n45, e4]
      · intro r hr
        obtain ⟨l, hl⟩ := e7 r hr
        obtain ⟨_, _, _, _, r5, _, _⟩ := nn r l hl
        exact ⟨l, by simp [Heap.write, r5, hl]⟩
      · intro r hr ho
        obtain ⟨_, _, _, _, r4⟩ := not_owned e1 e2 e3 ho
        simp [Heap.write, r4 hm]
  case metaSet k v =>
    cases v with
    | bad => cases e
    | tok t =>
      simp only at e
      cases e
      refine local_of_shape (k' := s.k) (hd' := s.hd) (m' := LbHeap.metaSet s.rmd k (.tok t))
        (ap' := s.ap) (v' := s.vals) (t' := s.tuple)
        e1 e2 e3 ?_ ?_ ?_ ?_ ?_ ?_ hmt ?_ rfl rfl (Or.inl rfl) (Or.inl rfl) (Or.inl rfl) ?_ ?_
      · exact write_wf wf _ l3
      · simp [Heap.write, n13, e1]
      · simp [Heap.write, n23, e2]
      · simp [Heap.write]
      · simp [Heap.write, n34.symm, e4]
      · simp [Heap.write, n35.symm, e5]
      · intro r hr
        rcases mdRefs_metaSet_sub hr with h1 | h1
        · obtain ⟨l, hl⟩ := e7 r h1
          obtain ⟨_, _, r3, _, _, _, _⟩ := nn r l hl
          exact ⟨l, by simp [Heap.write, r3, hl]⟩
        · cases h1
      · intro r hr
        rcases mdRefs_metaSet_sub hr with h1 | h1
        · exact Or.inl h1
        · cases h1
      · intro r hr ho
        obtain ⟨_, _, r3, _, _⟩ := not_owned e1 e2 e3 ho
        simp [Heap.write, r3]
    | lst l0 =>
      simp only at e
      cases e
      refine local_of_shape (k' := s.k) (hd' := s.hd)
        (m' := LbHeap.metaSet s.rmd k (.lst h.next))
        (ap' := s.ap) (v' := s.vals) (t' := s.tuple)
        e1 e2 e3 ?_ ?_ ?_ ?_ ?_ ?_ hmt ?_ rfl rfl (Or.inl rfl) (Or.inl rfl) (Or.inl rfl) ?_ ?_
      · exact write_wf (alloc_wf wf _) _ (by simp only [alloc_next]; omega)
      · simp [Heap.write, Heap.alloc, n13, f1, e1]
      · simp [Heap.write, Heap.alloc, n23, f2, e2]
      · simp [Heap.write, Heap.alloc]
      · simp [Heap.write, Heap.alloc, n34.symm, f4, e4]
      · simp [Heap.write, Heap.alloc, n35.symm, f5, e5]
      · intro r hr
        rcases mdRefs_metaSet_sub hr with h1 | h1
        · obtain ⟨l, hl⟩ := e7 r h1
          obtain ⟨_, _, r3, _, _, r6, _⟩ := nn r l hl
          exact ⟨l, by simp [Heap.write, Heap.alloc, r3, r6, hl]⟩
        · cases h1
          exact ⟨l0, by simp [Heap.write, Heap.alloc, f3.symm]⟩
      · intro r hr
        rcases mdRefs_metaSet_sub hr with h1 | h1
        · exact Or.inl h1
        · cases h1; exact Or.inr (Nat.le_refl _)
      · intro r hr ho
        obtain ⟨_, _, r3, _, _⟩ := not_owned e1 e2 e3 ho
        have : r ≠ h.next := by omega
        simp [Heap.write, Heap.alloc, r3, this]
  case metaReplace nm =>
    cases e
    have A := allocMd_spec wf nm
    have Bwf := alloc_wf A.2.1 (.md (allocMd h nm).2)
    have B := alloc_ext (allocMd h nm).1 (.md (allocMd h nm).2)
    have AB := A.1.trans B
    have nA : h.next ≤ (allocMd h nm).1.next := A.1.1
    have keep : ∀ r x, h.cells r = some x → r ≠ s.k.hdr →
        ((allocMd h nm).1.alloc (.md (allocMd h nm).2)).1.cells r = some x :=
      fun r x hx _ => ext_cell wf AB hx
    refine local_of_shape (k' := s.k) (hd' := { s.hd with md := (allocMd h nm).1.next })
      (m' := (allocMd h nm).2) (ap' := s.ap) (v' := s.vals) (t' := s.tuple)
      e1 e2 e3 ?_ ?_ ?_ ?_ ?_ ?_ hmt ?_ rfl rfl (Or.inr nA) (Or.inl rfl) (Or.inl rfl) ?_ ?_
    · exact write_wf Bwf _ (Nat.lt_of_lt_of_le l2 AB.1)
    · rw [write_other _ _ n12]; exact keep a _ e1 n12
    · exact write_same _ _ _
    · have : (allocMd h nm).1.next ≠ s.k.hdr := by omega
      rw [write_other _ _ this]; exact alloc_get _ _
    · rw [write_other _ _ n24.symm]; exact keep _ _ e4 n24.symm
    · rw [write_other _ _ n25.symm]; exact keep _ _ e5 n25.symm
    · intro r hr
      obtain ⟨h1, l, h2⟩ := A.2.2 r hr
      have : r ≠ s.k.hdr := Nat.ne_of_gt (Nat.lt_of_lt_of_le l2 h1)
      exact ⟨l, by rw [write_other _ _ this]; exact ext_cell A.2.1 B h2⟩
    · intro r hr; exact Or.inr (A.2.2 r hr).1
    · intro r hr ho
      obtain ⟨_, r2, _, _, _⟩ := not_owned e1 e2 e3 ho
      rw [write_other _ _ r2]
      exact AB.2 r hr
  case cullInplace ts =>
    repeat' (split at e)
    all_goals try (cases e; done)
    cases e
    have g1 : a ≠ h.next + 1 := by omega
    have g2 : s.k.hdr ≠ h.next + 1 := Nat.ne_of_lt (Nat.lt_succ_of_lt l2)
    have g3 : s.hd.md ≠ h.next + 1 := Nat.ne_of_lt (Nat.lt_succ_of_lt l3)
    refine local_of_shape
      (k' := { s.k with vals := h.next + 1, dts := keep s.k.dts (cullSel s.k.dts ts), dtsList := true })
      (hd' := { s.hd with ap := h.next }) (m' := s.rmd) (ap' := apWithTs s.ap ts)
      (v' := keep s.vals (cullSel s.k.dts ts)) (t' := false)
      e1 e2 e3 ?_ ?_ ?_ ?_ ?_ ?_ (fun _ => rfl) ?_ rfl rfl (Or.inl rfl) (Or.inr (Nat.le_refl _))
      (Or.inr (Nat.le_succ _)) (fun r hr => Or.inl hr) ?_
    · exact write_wf (write_wf (alloc_wf (alloc_wf wf _) _) _ (by simp only [alloc_next]; omega)) _
        (by simp only [write_next, alloc_next]; omega)
    · simp [Heap.write, Heap.alloc, n12]
    · simp [Heap.write, Heap.alloc]
    · simp [Heap.write, Heap.alloc, n23.symm, n13.symm, f3, g3, e3]
    · simp [Heap.write, Heap.alloc, f2.symm, f1.symm]
    · simp [Heap.write, Heap.alloc, g2.symm, g1.symm]
    · intro r hr
      obtain ⟨l, hl⟩ := e7 r hr
      obtain ⟨r1, r2, _, _, _, r6, r7⟩ := nn r l hl
      exact ⟨l, by simp [Heap.write, Heap.alloc, r1, r2, r6, r7, hl]⟩
    · intro r hr ho
      obtain ⟨r1, r2, _, _, _⟩ := not_owned e1 e2 e3 ho
      have : r ≠ h.next := by omega
      have : r ≠ h.next + 1 := by omega
      simp [Heap.write, Heap.alloc, r1, r2, *]
  case metaAppend k x =>
    split at e
    · cases e
    · cases e
    · rename_i k0 r0 hfind
      split at e
      · rename_i l0 hl0
        cases e
        have hmem : r0 ∈ mdRefs s.rmd :=
          mem_mdRefs.2 ⟨k0, List.mem_of_find?_eq_some hfind⟩
        obtain ⟨q1, q2, q3, q4, q5, _, _⟩ := nn r0 l0 hl0
        refine local_of_shape (k' := s.k) (hd' := s.hd) (m' := s.rmd) (ap' := s.ap) (v' := s.vals)
          (t' := s.tuple)
          e1 e2 e3 ?_ ?_ ?_ ?_ ?_ ?_ hmt ?_ rfl rfl (Or.inl rfl) (Or.inl rfl) (Or.inl rfl)
          (fun r hr => Or.inl hr) ?_
        · exact write_wf wf _ (lt_next_of_some wf hl0)
        · simp [Heap.write, q1.symm, e1]
        · simp [Heap.write, q2.symm, e2]
        · simp [Heap.write, q3.symm, e3]
        · simp [Heap.write, q4.symm, e4]
        · simp [Heap.write, q5.symm, e5]
        · intro r hr
          by_cases er : r = r0
          · subst er; exact ⟨_, write_same _ _ _⟩
          · obtain ⟨l, hl⟩ := e7 r hr
            exact ⟨l, by rw [write_other _ _ er]; exact hl⟩
        · intro r hr ho
          obtain ⟨_, _, _, r4, _⟩ := not_owned e1 e2 e3 ho
          have : r ≠ r0 := fun e' => r4 (e' ▸ hmem)
          rw [write_other _ _ this]
      · cases e

/-- The spec of a collection built from new parts copies. -/
theorem build_spec_copying (h : Heap) (cls : Cls) (mt vd : Bool) (dt u : Nat) (ap : List Nat)
    (md : List (Nat × OV)) (dts : List Nat) (vals : List Rat) :
    NewSpec.Copying h ⟨.new dt u (.new ap) (.new md), newVals mt vals, dts, mt, cls, vd⟩ := by
  refine ⟨⟨_, _, _, _, rfl, fun r hr => by cases hr⟩, fun r hr => by simp [newVals] at hr, ?_⟩
  intro v t hv hb
  simp only [newVals, ValSrc.new.injEq] at hv
  simp only at hb
  rw [← hv.2, hb]; rfl

end LbHeap
