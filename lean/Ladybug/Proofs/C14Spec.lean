import Ladybug.Proofs.C14Lemmas
namespace LbHeap

theorem src_ok {h : Heap} {c : Nat} {s : Src} (e : src h c = .ok s) :
    h.cells c = some (.coll s.k) ∧ h.cells s.k.hdr = some (.hdr s.hd) ∧
    h.cells s.hd.md = some (.md s.md) ∧ h.cells s.hd.ap = some (.ap s.ap) ∧
    h.cells s.k.vals = some (.vals s.vals s.tuple) := by
  unfold src at e
  split at e
  · cases e
  · rename_i k hk
    split at e
    · cases e
    · rename_i hd hhd
      split at e
      · rename_i m a v t hm ha hv
        cases e
        simp only [getColl, getHdr, getMeta, getAP, getVals] at hk hhd hm ha hv
        refine ⟨?_, ?_, ?_, ?_, ?_⟩
        · split at hk <;> simp_all
        · split at hhd <;> simp_all
        · split at hm <;> simp_all
        · split at ha <;> simp_all
        · split at hv <;> simp_all
      · cases e

theorem typed_of_src {h : Heap} {c : Nat} {s : Src} (e : src h c = .ok s)
    (hm : s.k.isMut = true → s.tuple = false) : Typed h c := by
  obtain ⟨e1, e2, e3, e4, e5⟩ := src_ok e
  exact ⟨_, _, _, _, _, _, e1, e2, e3, e4, e5, hm⟩

theorem src_of_typed {h : Heap} {c : Nat} (ty : Typed h c) :
    ∃ s, src h c = .ok s ∧ (s.k.isMut = true → s.tuple = false) := by
  obtain ⟨k, hd, m, a, v, t, e1, e2, e3, e4, e5, e6⟩ := ty
  exact ⟨⟨k, hd, m, a, v, t⟩, by simp [src, getColl, getHdr, getMeta, getAP, getVals, e1, e2, e3, e4, e5], e6⟩

/-- Shape of the specs of the fixed code: new header with a new metadata dict; period new or the
    source's; values new (a list for a mutable result) or – for an immutable result – the source's tuple. -/
def CopyShape (s : Src) (sp : NewSpec) : Prop :=
  (∃ dt u ap m, sp.hdr = .new dt u ap (.new m) ∧ (∀ r, ap = .share r → r = s.hd.ap)) ∧
  (∀ r, sp.vals = .share r → r = s.k.vals ∧ s.tuple = true ∧ sp.isMut = false) ∧
  (∀ v t, sp.vals = .new v t → (sp.isMut = true → t = false))

theorem copying_of_shape {h : Heap} {c : Nat} {s : Src} (e : src h c = .ok s) {sp : NewSpec}
    (sh : CopyShape s sp) : sp.Copying h := by
  obtain ⟨_, _, _, e4, e5⟩ := src_ok e
  obtain ⟨⟨dt, u, ap, m, hh, hap⟩, hv, hn⟩ := sh
  refine ⟨⟨dt, u, ap, m, hh, fun r hr => ?_⟩, fun r hr => ?_, hn⟩
  · rw [hap r hr]; exact ⟨_, e4⟩
  · obtain ⟨rfl, ht, hm⟩ := hv r hr
    rw [ht] at e5
    exact ⟨⟨_, e5⟩, hm⟩

theorem shape_dup (s : Src) (u : Option Nat) (ap : Option (List Nat)) (x : Option (Nat × MV))
    (b : Bool) (v : List Rat) (d : List Nat) (c : Cls) (vd : Bool) :
    CopyShape s ⟨dupHdr s u ap x, newVals b v, d, b, c, vd⟩ := by
  refine ⟨⟨_, _, _, _, rfl, ?_⟩, ?_, ?_⟩
  · intro r hr; cases hr
  · intro r hr; simp [newVals] at hr
  · intro v t hv hb; simp only [newVals, ValSrc.new.injEq] at hv; simp only at hb; rw [← hv.2, hb]; rfl

theorem shape_dup_share (s : Src) (b : Bool) (d : List Nat) (c : Cls) (vd : Bool)
    (hb : b = false) (ht : s.tuple = true) :
    CopyShape s ⟨dupHdr s, .share s.k.vals, d, b, c, vd⟩ := by
  refine ⟨⟨_, _, _, _, rfl, ?_⟩, ?_, ?_⟩
  · intro r hr; cases hr
  · intro r hr; simp only [ValSrc.share.injEq] at hr; exact ⟨hr.symm, ht, hb⟩
  · intro v t hv; cases hv

theorem shape_aligned (s : Src) (dt u : Nat) (b : Bool) (v : List Rat) (d : List Nat) (c : Cls)
    (vd : Bool) :
    CopyShape s ⟨.new dt u (.share s.hd.ap) (.new s.md), newVals b v, d, b, c, vd⟩ := by
  refine ⟨⟨_, _, _, _, rfl, ?_⟩, ?_, ?_⟩
  · intro r hr; simp only [ApSrc.share.injEq] at hr; exact hr.symm
  · intro r hr; simp [newVals] at hr
  · intro v t hv hb; simp only [newVals, ValSrc.new.injEq] at hv; simp only at hb; rw [← hv.2, hb]; rfl

theorem shape_newap (s : Src) (dt u : Nat) (b : Bool) (v : List Rat) (d : List Nat) (c : Cls)
    (vd : Bool) :
    CopyShape s ⟨.new dt u (.new s.ap) (.new s.md), newVals b v, d, b, c, vd⟩ := by
  refine ⟨⟨_, _, _, _, rfl, ?_⟩, ?_, ?_⟩
  · intro r hr; cases hr
  · intro r hr; simp [newVals] at hr
  · intro v t hv hb; simp only [newVals, ValSrc.new.injEq] at hv; simp only at hb; rw [← hv.2, hb]; rfl

theorem shape_filtered {s : Src} {sel : Nat → Bool} {kf : Bool} {ap : Option (List Nat)} {sp : NewSpec}
    (e : filtered s sel kf ap = .ok sp) : CopyShape s sp := by
  unfold filtered at e
  simp only at e
  split at e
  · cases e
  · cases e; exact shape_dup s _ _ _ _ _ _ _ _

/-- Every deriving operation of the fixed code copies. -/
theorem specOf_fixed_shape {h : Heap} {c : Nat} {op : DOp} {s : Src} {sp : NewSpec}
    (hs : src h c = .ok s) (e : specOf .fixed h c op = .ok sp) : CopyShape s sp := by
  unfold specOf at e
  simp only [hs, bind, Except.bind, pure, Except.pure, hdrOrShare] at e
  cases op <;> simp only [reduceCtorEq, false_and, if_false, and_false] at e
  all_goals
    repeat' (split at e)
  all_goals first
    | exact shape_filtered e
    | (cases e <;> first
        | exact shape_dup _ _ _ _ _ _ _ _ _
        | exact shape_aligned _ _ _ _ _ _ _ _
        | exact shape_newap _ _ _ _ _ _ _ _
        | (refine shape_dup_share _ _ _ _ _ ?_ ?_ <;> simp_all))

/-! ### mutators are local steps -/

/-- Generic shape of the heap after a mutator on `a`. -/
theorem local_of_shape {h h' : Heap} {a : Nat} {k k' : Coll} {hd hd' : Hdr}
    {m' : List (Nat × MV)} {ap' : List Nat} {v' : List Rat} {t' : Bool}
    (e1 : h.cells a = some (.coll k)) (e2 : h.cells k.hdr = some (.hdr hd))
    (wf' : WF h')
    (c1 : h'.cells a = some (.coll k')) (c2 : h'.cells k'.hdr = some (.hdr hd'))
    (c3 : h'.cells hd'.md = some (.md m')) (c4 : h'.cells hd'.ap = some (.ap ap'))
    (c5 : h'.cells k'.vals = some (.vals v' t')) (c6 : k'.isMut = true → t' = false)
    (khdr : k'.hdr = k.hdr) (kmut : k'.isMut = k.isMut)
    (pmd : hd'.md = hd.md ∨ h.next ≤ hd'.md) (pap : hd'.ap = hd.ap ∨ h.next ≤ hd'.ap)
    (pv : k'.vals = k.vals ∨ h.next ≤ k'.vals)
    (frame : ∀ r, r < h.next → r ∉ owned h a → h'.cells r = h.cells r) : Local h h' a := by
  have hf := foot_of_typed e1 e2
  have hf' := foot_of_typed c1 c2
  refine ⟨wf', frame, ⟨_, _, _, _, _, _, c1, c2, c3, c4, c5, c6⟩, ?_, ?_⟩
  · intro r hr
    simp only [owned, hf', List.mem_append, List.mem_cons, List.not_mem_nil, or_false] at hr
    simp only [owned, hf, List.mem_append, List.mem_cons, List.not_mem_nil, or_false]
    rcases hr with (rfl | rfl | rfl) | hr
    · exact Or.inl (Or.inl (Or.inl rfl))
    · exact Or.inl (Or.inl (Or.inr (Or.inl khdr)))
    · rcases pmd with p | p
      · exact Or.inl (Or.inl (Or.inr (Or.inr p)))
      · exact Or.inr p
    · rw [kmut] at hr
      split at hr
      · rename_i hm
        simp only [List.mem_cons, List.not_mem_nil, or_false] at hr
        subst hr
        rcases pv with p | p
        · left; right; simp [hm, p]
        · exact Or.inr p
      · cases hr
  · intro r hr
    simp only [reads, hf', List.mem_cons, List.not_mem_nil, or_false] at hr
    simp only [reads, hf, List.mem_cons, List.not_mem_nil, or_false]
    rcases hr with rfl | rfl | rfl | rfl | rfl
    · exact Or.inl (Or.inl rfl)
    · exact Or.inl (Or.inr (Or.inl khdr))
    · rcases pmd with p | p
      · exact Or.inl (Or.inr (Or.inr (Or.inl p)))
      · exact Or.inr p
    · rcases pap with p | p
      · exact Or.inl (Or.inr (Or.inr (Or.inr (Or.inl p))))
      · exact Or.inr p
    · rcases pv with p | p
      · exact Or.inl (Or.inr (Or.inr (Or.inr (Or.inr p))))
      · exact Or.inr p

theorem not_owned {h : Heap} {a r : Nat} {k : Coll} {hd : Hdr}
    (e1 : h.cells a = some (.coll k)) (e2 : h.cells k.hdr = some (.hdr hd)) (hr : r ∉ owned h a) :
    r ≠ a ∧ r ≠ k.hdr ∧ r ≠ hd.md ∧ (k.isMut = true → r ≠ k.vals) := by
  simp only [owned, foot_of_typed e1 e2, List.mem_append, List.mem_cons, List.not_mem_nil, or_false,
    not_or] at hr
  refine ⟨hr.1.1, hr.1.2.1, hr.1.2.2, fun hm => ?_⟩
  have := hr.2
  simp only [hm, if_true, List.mem_cons, List.not_mem_nil, or_false] at this
  exact this

/-- Every successful mutator (pinned or fixed code) is a local step on its target. -/
theorem mutate_local {m : Mode} {h h' : Heap} {a : Nat} {op : MOp} (wf : WF h) (ty : Typed h a)
    (e : mutate m h a op = .ok h') : Local h h' a := by
  obtain ⟨s, hs, hmt⟩ := src_of_typed ty
  obtain ⟨e1, e2, e3, e4, e5⟩ := src_ok hs
  have l1 := lt_next_of_some wf e1
  have l2 := lt_next_of_some wf e2
  have l3 := lt_next_of_some wf e3
  have l4 := lt_next_of_some wf e4
  have l5 := lt_next_of_some wf e5
  have n12 : a ≠ s.k.hdr := ne_of_kind e1 e2 (by simp)
  have n13 : a ≠ s.hd.md := ne_of_kind e1 e3 (by simp)
  have n14 : a ≠ s.hd.ap := ne_of_kind e1 e4 (by simp)
  have n15 : a ≠ s.k.vals := ne_of_kind e1 e5 (by simp)
  have n23 : s.k.hdr ≠ s.hd.md := ne_of_kind e2 e3 (by simp)
  have n24 : s.k.hdr ≠ s.hd.ap := ne_of_kind e2 e4 (by simp)
  have n25 : s.k.hdr ≠ s.k.vals := ne_of_kind e2 e5 (by simp)
  have n34 : s.hd.md ≠ s.hd.ap := ne_of_kind e3 e4 (by simp)
  have n35 : s.hd.md ≠ s.k.vals := ne_of_kind e3 e5 (by simp)
  have n45 : s.hd.ap ≠ s.k.vals := ne_of_kind e4 e5 (by simp)
  have f1 : a ≠ h.next := by omega
  have f2 : s.k.hdr ≠ h.next := Nat.ne_of_lt l2
  have f3 : s.hd.md ≠ h.next := Nat.ne_of_lt l3
  have f4 : s.hd.ap ≠ h.next := Nat.ne_of_lt l4
  have f5 : s.k.vals ≠ h.next := Nat.ne_of_lt l5
  -- the three unit conversions share one heap shape
  have conv : ∀ u, Local h (convertTo h a s u) a := by
    intro u
    refine local_of_shape (k' := { s.k with vals := h.next }) (hd' := { s.hd with unit := u })
      (m' := s.md) (ap' := s.ap) (v' := convVals s.hd.unit u s.vals) (t' := false)
      e1 e2 ?_ ?_ ?_ ?_ ?_ ?_ (fun _ => rfl) rfl rfl (Or.inl rfl) (Or.inl rfl)
      (Or.inr (Nat.le_refl _)) ?_
    · exact write_wf (write_wf (alloc_wf wf _) _ (by simp only [alloc_next]; omega)) _
        (by simp only [write_next, alloc_next]; omega)
    · simp [convertTo, Heap.write, Heap.alloc, n12]
    · simp [convertTo, Heap.write, Heap.alloc]
    · simp [convertTo, Heap.write, Heap.alloc, n23.symm, n13.symm, f3, e3]
    · simp [convertTo, Heap.write, Heap.alloc, n24.symm, n14.symm, f4, e4]
    · simp [convertTo, Heap.write, Heap.alloc, f2.symm, f1.symm]
    · intro r hr ho
      obtain ⟨r1, r2, _, _⟩ := not_owned e1 e2 ho
      have : r ≠ h.next := by omega
      simp [convertTo, Heap.write, Heap.alloc, r1, r2, this]
  unfold mutate at e
  simp only [hs, bind, Except.bind, pure, Except.pure] at e
  cases op <;> simp only at e
  case convUnit u =>
    repeat' (split at e)
    all_goals first | (cases e; exact conv _) | cases e
  case convIp =>
    repeat' (split at e)
    all_goals first | (cases e; exact conv _) | cases e
  case convSi =>
    repeat' (split at e)
    all_goals first | (cases e; exact conv _) | cases e
  case setValues v =>
    repeat' (split at e)
    all_goals try (cases e; done)
    cases e
    refine local_of_shape (k' := { s.k with vals := h.next }) (hd' := s.hd)
      (m' := s.md) (ap' := s.ap) (v' := v) (t' := false)
      e1 e2 ?_ ?_ ?_ ?_ ?_ ?_ (fun _ => rfl) rfl rfl (Or.inl rfl) (Or.inl rfl)
      (Or.inr (Nat.le_refl _)) ?_
    · exact write_wf (alloc_wf wf _) _ (by simp only [alloc_next]; omega)
    · simp [Heap.write, Heap.alloc]
    · simp [Heap.write, Heap.alloc, n12.symm, f2, e2]
    · simp [Heap.write, Heap.alloc, n13.symm, f3, e3]
    · simp [Heap.write, Heap.alloc, n14.symm, f4, e4]
    · simp [Heap.write, Heap.alloc, f1.symm]
    · intro r hr ho
      obtain ⟨r1, _, _, _⟩ := not_owned e1 e2 ho
      have : r ≠ h.next := by omega
      simp [Heap.write, Heap.alloc, r1, this]
  case setItem i x =>
    repeat' (split at e)
    all_goals try (cases e; done)
    all_goals
      have hm : s.k.isMut = true := by simp_all
      cases e
      refine local_of_shape (k' := s.k) (hd' := s.hd) (m' := s.md) (ap' := s.ap)
        (t' := s.tuple)
        e1 e2 ?_ ?_ ?_ ?_ ?_ (write_same _ _ _) hmt rfl rfl (Or.inl rfl) (Or.inl rfl) (Or.inl rfl) ?_
      · exact write_wf wf _ l5
      · simp [Heap.write, n15, e1]
      · simp [Heap.write, n25, e2]
      · simp [Heap.write, n35, e3]
      · simp [Heap.write, n45, e4]
      · intro r hr ho
        obtain ⟨_, _, _, r4⟩ := not_owned e1 e2 ho
        simp [Heap.write, r4 hm]
  case metaSet k v =>
    cases e
    refine local_of_shape (k' := s.k) (hd' := s.hd) (m' := LbHeap.metaSet s.md k v) (ap' := s.ap)
      (v' := s.vals) (t' := s.tuple)
      e1 e2 ?_ ?_ ?_ ?_ ?_ ?_ hmt rfl rfl (Or.inl rfl) (Or.inl rfl) (Or.inl rfl) ?_
    · exact write_wf wf _ l3
    · simp [Heap.write, n13, e1]
    · simp [Heap.write, n23, e2]
    · simp [Heap.write]
    · simp [Heap.write, n34.symm, e4]
    · simp [Heap.write, n35.symm, e5]
    · intro r hr ho
      obtain ⟨_, _, r3, _⟩ := not_owned e1 e2 ho
      simp [Heap.write, r3]
  case metaReplace nm =>
    cases e
    refine local_of_shape (k' := s.k) (hd' := { s.hd with md := h.next }) (m' := nm) (ap' := s.ap)
      (v' := s.vals) (t' := s.tuple)
      e1 e2 ?_ ?_ ?_ ?_ ?_ ?_ hmt rfl rfl (Or.inr (Nat.le_refl _)) (Or.inl rfl) (Or.inl rfl) ?_
    · exact write_wf (alloc_wf wf _) _ (by simp only [alloc_next]; omega)
    · simp [Heap.write, Heap.alloc, n12, f1, e1]
    · simp [Heap.write, Heap.alloc]
    · simp [Heap.write, Heap.alloc, f2.symm]
    · simp [Heap.write, Heap.alloc, n24.symm, f4, e4]
    · simp [Heap.write, Heap.alloc, n25.symm, f5, e5]
    · intro r hr ho
      obtain ⟨_, r2, _, _⟩ := not_owned e1 e2 ho
      have : r ≠ h.next := by omega
      simp [Heap.write, Heap.alloc, r2, this]
  case cullInplace ts =>
    repeat' (split at e)
    all_goals try (cases e; done)
    cases e
    have g1 : a ≠ h.next + 1 := by omega
    have g2 : s.k.hdr ≠ h.next + 1 := Nat.ne_of_lt (Nat.lt_succ_of_lt l2)
    have g3 : s.hd.md ≠ h.next + 1 := Nat.ne_of_lt (Nat.lt_succ_of_lt l3)
    refine local_of_shape
      (k' := { s.k with vals := h.next + 1, dts := keep s.k.dts (cullSel s.k.dts ts), dtsList := true })
      (hd' := { s.hd with ap := h.next }) (m' := s.md) (ap' := apWithTs s.ap ts)
      (v' := keep s.vals (cullSel s.k.dts ts)) (t' := false)
      e1 e2 ?_ ?_ ?_ ?_ ?_ ?_ (fun _ => rfl) rfl rfl (Or.inl rfl) (Or.inr (Nat.le_refl _))
      (Or.inr (Nat.le_succ _)) ?_
    · exact write_wf (write_wf (alloc_wf (alloc_wf wf _) _) _ (by simp only [alloc_next]; omega)) _
        (by simp only [write_next, alloc_next]; omega)
    · simp [Heap.write, Heap.alloc, n12]
    · simp [Heap.write, Heap.alloc]
    · simp [Heap.write, Heap.alloc, n23.symm, n13.symm, f3, g3, e3]
    · simp [Heap.write, Heap.alloc, f2.symm, f1.symm]
    · simp [Heap.write, Heap.alloc, g2.symm, g1.symm]
    · intro r hr ho
      obtain ⟨r1, r2, _, _⟩ := not_owned e1 e2 ho
      have : r ≠ h.next := by omega
      have : r ≠ h.next + 1 := by omega
      simp [Heap.write, Heap.alloc, r1, r2, *]

end LbHeap
