/-
  Helper lemmas for the C08 history machine (Model/C08Hist.lean).  No Mathlib.
  Everything a history step returns comes out of a constructor call (`DT.make`), hence is valid;
  the band of negative minutes that `from_moy` does not refuse is characterised exactly.
-/
import Ladybug.Proofs.CalLemmas
import Ladybug.Model.C08Hist

namespace Cal

theorem make_ok_valid {mo da h mi : Nat} {l : Bool} {d : DT} (hd : DT.make mo da h mi l = .ok d) :
    d.valid := by
  unfold DT.make at hd
  simp only [] at hd
  split at hd
  · rename_i hv
    cases hd
    exact hv
  · cases hd

theorem make_ok_leap {mo da h mi : Nat} {l : Bool} {d : DT} (hd : DT.make mo da h mi l = .ok d) :
    d.leap = l := by
  unfold DT.make at hd
  simp only [] at hd
  split at hd
  · cases hd; rfl
  · cases hd

theorem fromMoyNat_ok_valid {leap : Bool} {m : Nat} {d : DT} (hd : fromMoyNat leap m = .ok d) : d.valid := by
  unfold fromMoyNat at hd
  split at hd
  · cases hd
  · exact make_ok_valid hd

theorem fromMoy_ok_valid {leap : Bool} {m : Int} {d : DT} (hd : fromMoy leap m = .ok d) : d.valid := by
  unfold fromMoy at hd
  split at hd
  · exact fromMoyNat_ok_valid hd
  · split at hd
    · exact make_ok_valid hd
    · cases hd

theorem fromArray_ok_valid {a : List Nat} {d : DT} (hd : DT.fromArray a = .ok d) : d.valid := by
  unfold DT.fromArray at hd
  split at hd
  · exact make_ok_valid hd
  · exact make_ok_valid hd
  · cases hd

theorem parseTokens_ok_valid {t : Nat × String × Nat × Nat} {l : Bool} {d : DT}
    (hd : DT.parseTokens t l = .ok d) : d.valid := by
  unfold DT.parseTokens at hd
  split at hd
  · cases hd
  · split at hd
    · exact make_ok_valid hd
    · cases hd

/-- `from_moy` does not refuse the last day *before* the year: -1440 < m < 0 gives 1 Jan at the
    minute of the day `m + 1440` (float `%` wraps hour and minute).  Outside the statement of C08
    (the offset leaves the year); modelled and proved as the code is. -/
theorem fromMoy_negative_band (leap : Bool) (m : Int) (h1 : -1440 < m) (h2 : m < 0) :
    ∃ d, fromMoy leap m = .ok d ∧ d.valid ∧ d.leap = leap ∧ (d.moy : Int) = m + 1440 := by
  have hn : ¬ (0 ≤ m) := by omega
  have e1 : Py.floordiv m 60 = m / 60 := Int.fdiv_eq_ediv_of_nonneg _ (by decide)
  have e2 : Py.mod (m / 60) 24 = (m / 60) % 24 := Int.fmod_eq_emod_of_nonneg _ (by decide)
  have e3 : Py.mod m 60 = m % 60 := Int.fmod_eq_emod_of_nonneg _ (by decide)
  obtain ⟨h, hh⟩ : ∃ h : Nat, (m / 60) % 24 = (h : Int) := ⟨((m / 60) % 24).toNat, by omega⟩
  obtain ⟨mi, hmi⟩ : ∃ mi : Nat, m % 60 = (mi : Int) := ⟨(m % 60).toNat, by omega⟩
  have hh23 : h ≤ 23 := by omega
  have hmi59 : mi ≤ 59 := by omega
  have hnorm : normHM h mi = (h, mi) := by
    unfold normHM
    have a : mi / 60 = 0 := by omega
    have b : mi % 60 = mi := by omega
    simp [a, b]
  have hml : monthLen leap 1 = 31 := by cases leap <;> decide
  have hdb : daysBefore leap 1 = 0 := by cases leap <;> decide
  have hv : (⟨1, 1, h, mi, leap⟩ : DT).valid := by
    unfold DT.valid; simp only [hml]; omega
  refine ⟨⟨1, 1, h, mi, leap⟩, ?_, hv, rfl, ?_⟩
  · simp only [fromMoy, hn, if_false, h1, if_true, e1, e2, e3, hh, hmi, Int.toNat_natCast, DT.make, hnorm]
    exact if_pos hv
  · simp only [DT.moy, DT.intHoy, DT.doy, hdb]; omega

theorem fromMoy_far_negative (leap : Bool) (m : Int) (h : m ≤ -1440) : fromMoy leap m = .error .value := by
  have h1 : ¬ (0 ≤ m) := by omega
  have h2 : ¬ (-1440 < m) := by omega
  simp only [fromMoy, h1, h2, if_false]

namespace Hist

/-- Every value a history step assigns is a valid date-time. -/
theorem apply_ok_valid {d d' : DT} (hv : d.valid) {op : Op} (h : apply d op = .ok d') : d'.valid := by
  cases op with
  | fromMoy leap m => exact fromMoy_ok_valid h
  | fromHoy leap x => exact fromMoy_ok_valid h
  | fromDoy leap k =>
    simp only [apply] at h
    split at h
    · exact make_ok_valid h
    · cases h
    · cases h
  | make leap mo da hh mi => exact make_ok_valid h
  | addMin k => exact fromMoy_ok_valid h
  | subMin k => exact fromMoy_ok_valid h
  | addHour x => exact fromMoy_ok_valid h
  | subHour x => exact fromMoy_ok_valid h
  | setLeap b => exact make_ok_valid h
  | setMod m =>
    simp only [apply] at h
    split at h
    · exact make_ok_valid h
    · cases h
    · cases h
  | via f =>
    cases f with
    | array => exact fromArray_ok_valid h
    | dict => exact make_ok_valid h
    | reduce => exact fromArray_ok_valid h
    | text => exact parseTokens_ok_valid h
    | dateAndTime =>
      simp only [apply, viaForm] at h
      split at h
      · exact make_ok_valid h
      · cases h
      · cases h
  | read =>
    simp only [apply] at h
    cases h
    exact hv

theorem step_valid {o : Obj} (hv : o.cur.valid) (op : Op) : (step o op).1.cur.valid := by
  unfold step
  cases h : apply o.cur op with
  | ok d => exact apply_ok_valid hv h
  | error e => exact hv

theorem run_valid {o : Obj} (hv : o.cur.valid) (ops : List Op) : (run o ops).cur.valid := by
  induction ops generalizing o with
  | nil => exact hv
  | cons op rest ih => exact ih (step_valid hv op)

/-- Is the op a pure read? -/
def Op.isRead : Op → Bool
  | .read => true
  | _ => false

/-- The ops the statement of C08 is about on the index side: build from a minute / hour / day of
    the year or a minute of the day, add / subtract minutes / hours, serial trips, reads.
    (Not: the constructor from month/day and the change of the leap flag, whose result is given by
    the calendar fields, see `C08_history_refines_fresh`.) -/
def Op.isIndex : Op → Bool
  | .fromMoy _ _ | .fromHoy _ _ | .fromDoy _ _ | .setMod _ | .addMin _ | .subMin _ | .addHour _
  | .subHour _ | .via _ | .read => true
  | _ => false

/-- `from_doy` (time of day kept): day `k` of the year, refused outside 1..365/366. -/
def specDoy (s : Bool × Nat) (leap : Bool) (k : Int) : Bool × Nat :=
  if 1 ≤ k ∧ k ≤ (daysInYear leap : Int) then (leap, (k.toNat - 1) * 1440 + s.2 % 1440) else s

/-- `from_mod` (date kept): minute `m` of the day, refused from 1440 on. -/
def specMod (s : Bool × Nat) (m : Nat) : Bool × Nat :=
  if m < 1440 then (s.1, s.2 / 1440 * 1440 + m) else s

/-- `from_moy` on the public state: inside the year the minute is taken; the day before the year
    wraps into 1 Jan (quirk of the code, outside the statement); everything else is refused and
    leaves the state as it was. -/
def specMoy (cur : Bool × Nat) (leap : Bool) (m : Int) : Bool × Nat :=
  if 0 ≤ m ∧ m < (minutesInYear leap : Int) then (leap, m.toNat)
  else if -1440 < m ∧ m < 0 then (leap, (m + 1440).toNat)
  else cur

/-- Integer arithmetic specification of one index op on the public state (leap flag, minute of the
    year): no hidden state, nothing else. -/
def specStep (s : Bool × Nat) : Op → Bool × Nat
  | .fromMoy leap m => specMoy s leap m
  | .fromHoy leap x => specMoy s leap (Py.round x)
  | .addMin k => specMoy s s.1 ((s.2 : Int) + k)
  | .subMin k => specMoy s s.1 ((s.2 : Int) + -k)
  | .addHour x => specMoy s s.1 ((s.2 : Int) + Py.truncRat x)
  | .subHour x => specMoy s s.1 ((s.2 : Int) + Py.truncRat (-x))
  | .fromDoy leap k => specDoy s leap k
  | .setMod m => specMod s m
  | _ => s

def specRun (s : Bool × Nat) : List Op → Bool × Nat
  | [] => s
  | op :: rest => specRun (specStep s op) rest

/-- The public state of a date-time as far as the index ops are concerned. -/
def pub (d : DT) : Bool × Nat := (d.leap, d.moy)

end Hist
end Cal
