/-
  Helper lemmas for the round-4 theorems of C08 (fractional offsets, the two branches of
  `_calculate_hour_and_minute`, the branches of `from_doy` / `from_moy`).  No Mathlib.
-/
import Ladybug.Proofs.CalLemmas
import Ladybug.Proofs.C08Hist
import Ladybug.Model.C08Frac

namespace Cal

/-- `int(-x) = -int(x)`: Python's truncation toward zero is odd (floor and ceiling swap). -/
theorem truncRat_neg (x : Rat) : Py.truncRat (-x) = -Py.truncRat x := by
  unfold Py.truncRat
  by_cases h0 : 0 ≤ x
  · by_cases h1 : 0 ≤ -x
    · have hx : x = 0 := by grind
      subst hx
      have hf : (0 : Rat).floor = 0 := by decide +kernel
      have hn : (-(0 : Rat)) = 0 := by decide +kernel
      simp [hn, hf]
    · rw [if_pos h0, if_neg h1, Rat.ceil_eq_neg_floor_neg, Rat.neg_neg]
  · have h1 : 0 ≤ -x := by grind
    rw [if_neg h0, if_pos h1, Rat.ceil_eq_neg_floor_neg, Int.neg_neg]

/-- `int(x)` lies strictly within one of `x`, on the side of zero. -/
theorem truncRat_near (x : Rat) :
    ((Py.truncRat x : Int) : Rat) - x < 1 ∧ x - ((Py.truncRat x : Int) : Rat) < 1 := by
  unfold Py.truncRat
  by_cases h0 : 0 ≤ x
  · rw [if_pos h0]
    have h1 := Rat.floor_le x
    have h2 := Rat.lt_floor_add_one x
    constructor <;> grind
  · rw [if_neg h0, Rat.ceil_eq_neg_floor_neg]
    have h1 := Rat.floor_le (-x)
    have h2 := Rat.lt_floor_add_one (-x)
    have h3 : (((-(-x).floor : Int)) : Rat) = -(((-x).floor : Int) : Rat) := Rat.intCast_neg _
    rw [h3]
    constructor <;> grind

theorem truncRat_intCast (z : Int) : Py.truncRat (z : Rat) = z := by
  unfold Py.truncRat; split <;> simp [Rat.floor_intCast, Rat.ceil_intCast]

theorem make_ok_month {mo da h mi : Nat} {l : Bool} {d : DT} (hd : DT.make mo da h mi l = .ok d) :
    d.month = mo := by
  unfold DT.make at hd
  simp only [] at hd
  split at hd
  · cases hd; rfl
  · cases hd

/-- The search loop of `from_doy` falls through exactly past the end of the year. -/
theorem findMonth_dayTable_none (leap : Bool) (n : Nat) (h : daysInYear leap < n) :
    findMonth (dayTable leap) n = none := by
  have key : ∀ t ∈ dayTable leap, t ≤ daysInYear leap + 1 := by cases leap <;> decide
  have gen : ∀ fuel k, findMonth.go (dayTable leap) n fuel k = none := by
    intro fuel
    induction fuel with
    | zero => intro k; simp [findMonth.go]
    | succ f ih =>
      intro k
      unfold findMonth.go
      cases hk : (dayTable leap)[k + 1]? with
      | none => rfl
      | some t =>
        have ht : t ∈ dayTable leap := List.mem_of_getElem? hk
        have : ¬ n < t := by have := key t ht; omega
        simp [this, ih]
  exact gen 12 0

/-- Finite fact behind the branch theorem of `from_doy`: for day `k` of the year the `day == 0`
    branch is taken exactly on the month-end days, and there the result is the last day of the
    month that ends. -/
def doyBranchFact (leap : Bool) (k : Nat) : Bool :=
  !(1 ≤ k ∧ k ≤ daysInYear leap) ||
    (decide ((doyBranch leap k = .monthEnd) ↔ k ∈ monthEndDays leap) &&
     decide (doyBranch leap k = .monthEnd ∨ doyBranch leap k = .plain) &&
     decide (doyBranch leap k = .monthEnd →
       ∃ m ∈ List.range 12, 1 ≤ m ∧ k = daysBefore leap (m + 1) ∧
         fromDoy leap k = .ok ⟨m, monthLen leap m, leap⟩))

theorem doyBranchFact_all (leap : Bool) : (List.range 367).all (doyBranchFact leap) = true := by
  cases leap <;> decide +kernel

end Cal
