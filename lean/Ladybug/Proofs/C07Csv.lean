/-
  C07 — the CSV header strings and the data-type text (Model/Serial/Csv.lean).  No Mathlib.
-/
import Ladybug.Model.Serial.Csv

namespace Codec

theorem joinS_single (sep x : String) : joinS sep [x] = x := by
  simp [joinS, joinL, String.ofList_toList]

theorem readItems_map (md : List (String × String)) (h : ∀ p ∈ md, readItem (itemText p) = some p) :
    readItems (md.map itemText) = some md := by
  induction md with
  | nil => rfl
  | cons x xs ih =>
    simp [readItems, h x (by simp), ih (fun p hp => h p (by simp [hp]))]

theorem filter_nonempty (md : List (String × String)) (h : ∀ p ∈ md, itemText p ≠ "") :
    (md.map itemText).filter (· != "") = md.map itemText := by
  induction md with
  | nil => rfl
  | cons x xs ih =>
    have hx := h x (by simp)
    simp [hx, ih (fun p hp => h p (by simp [hp]))]

theorem flatMap_cells (md : List (String × String))
    (h : ∀ p ∈ md, splitS " | " (itemText p) = [itemText p]) :
    (md.map itemText).flatMap (splitS " | ") = md.map itemText := by
  induction md with
  | nil => rfl
  | cons x xs ih =>
    simp [h x (by simp), ih (fun p hp => h p (by simp [hp]))]

theorem split_empty : splitS " | " "" = [""] := by decide +kernel

/-- The metadata cells read back, in both layouts (one cell per entry, or one `' | '`-joined
    row), given the character-level facts `SplitsBack`. -/
theorem readCells_metaCells (perRow : Bool) (md : List (String × String)) (h : SplitsBack md) :
    (if (metaCells perRow md).isEmpty then some [] else readCells (metaCells perRow md)) = some md := by
  cases perRow with
  | true =>
    cases md with
    | nil => rfl
    | cons x xs =>
      simp only [metaCells, if_true, List.map_cons, List.isEmpty_cons, Bool.false_eq_true, if_false]
      have := flatMap_cells (x :: xs) h.cell
      simp only [List.map_cons] at this
      simp only [readCells, this]
      have f := filter_nonempty (x :: xs) h.nonempty
      simp only [List.map_cons] at f
      rw [f]
      exact readItems_map (x :: xs) h.item
  | false =>
    simp only [metaCells, Bool.false_eq_true, if_false, List.isEmpty_cons, readCells,
      List.flatMap_cons, List.flatMap_nil, List.append_nil]
    cases md with
    | nil =>
      simp [joinS, joinL, split_empty, readItems]
    | cons x xs =>
      rw [h.row (by simp), filter_nonempty (x :: xs) h.nonempty]
      exact readItems_map (x :: xs) h.item

/-- CSV strings of a header with a default-named standard data type. -/
theorem CsvHdr.law (num : Option Num → String) (descr : Option (List (Key × PyVal)) → String)
    (perRow : Bool) (cls unit : String) (md : List (String × String))
    (hc : Gen.DataTypes.names.contains cls = true) (ht : titleKey (spaced cls) = cls)
    (hs : SplitsBack md) :
    CsvHdr.read (CsvHdr.write num descr perRow ⟨.std cls Option.none, unit, md⟩) =
      some ⟨.std cls Option.none, unit, md⟩ := by
  have hr := readCells_metaCells perRow md hs
  simp only [CsvHdr.write, DType.textParts, DType.name, joinS_single, List.cons_append,
    List.nil_append, CsvHdr.read, DType.ofText, ht, hc, if_true, DType.unitOk, Bool.not_true,
    Bool.false_eq_true, if_false, Option.bind_eq_bind, Option.bind_some, Option.pure_def]
  by_cases he : (metaCells perRow md).isEmpty = true
  · simp only [he, if_true] at hr ⊢
    cases hr; rfl
  · simp only [he, Bool.false_eq_true, if_false] at hr ⊢
    rw [hr]; rfl

/-- A column of the header block is the member's own CSV strings under the layout flag: nothing else of
    the series enters it. -/
theorem csvColumns_getElem (num : Option Num → String) (descr : Option (List (Key × PyVal)) → String)
    (hs : List CsvHdr) (i : Nat) (hi : i < hs.length) :
    (csvColumns num descr hs)[i]'(by simpa [csvColumns] using hi) =
      CsvHdr.write num descr (csvLayout (hs.map (·.md.length))) hs[i] := by
  simp [csvColumns]

theorem mapM_read_write (num : Option Num → String) (descr : Option (List (Key × PyVal)) → String)
    (perRow : Bool) (hs : List CsvHdr)
    (h : ∀ x ∈ hs, CsvHdr.read (CsvHdr.write num descr perRow x) = some x) :
    (hs.map (CsvHdr.write num descr perRow)).mapM CsvHdr.read = some hs := by
  induction hs with
  | nil => rfl
  | cons x xs ih =>
    simp [List.mapM_cons, h x (by simp), ih (fun y hy => h y (by simp [hy]))]

/-- The text form of a generic data type never reads back: `to_string` prints eight fields, and
    `from_string` hands them to the constructor as text, which rejects text for `min`. -/
theorem generic_text_rejected (num : Option Num → String) (descr : Option (List (Key × PyVal)) → String)
    (name unit : String) (mn mx : Option Num) (abbr : String) (ud : Option (List (Key × PyVal)))
    (pit cum : Bool) :
    DType.ofParts ((DType.generic name unit mn mx abbr ud pit cum).textParts num descr) = Option.none := rfl

/-- A default-named standard type does read back from its text. -/
theorem std_text_roundtrip (num : Option Num → String) (descr : Option (List (Key × PyVal)) → String)
    (cls : String) (hc : Gen.DataTypes.names.contains cls = true) (ht : titleKey (spaced cls) = cls) :
    DType.ofParts ((DType.std cls Option.none).textParts num descr) = some (.std cls Option.none) := by
  have : cls ∈ Gen.DataTypes.names := by simpa using hc
  simp [DType.textParts, DType.name, DType.ofParts, ht, this]

end Codec
