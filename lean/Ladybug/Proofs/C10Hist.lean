/-
  Helper lemmas for the history theorems of Props/C10 (round 3): the object state machines of
  Model/SkyObj (Wea; sky condition held by a design day).  Generic in the number type (no Mathlib
  needed for the state lemmas); the property-level lemmas at the end are about ℝ.
-/
import Ladybug.Proofs.C10Dirint
import Ladybug.Model.SkyObj

namespace Sky

section Generic

variable {α : Type} [Add α] [Sub α] [Mul α] [Div α] [Neg α] [OfScientific α]
  [LT α] [LE α] [DecidableLT α] [DecidableLE α] [Transc α]

/-! ### Wea -/

/-- Every step whose output is not `unit` (a read, a failing read, a refused operation) leaves the
    state as it was. -/
theorem WeaObj.step_state_of_not_unit (env : WeaEnv α) (o : WeaObj α) (op : WeaOp α)
    (h : (o.step env op).2 ≠ .unit) : (o.step env op).1 = o := by
  cases op <;> simp only [WeaObj.step] at h ⊢ <;>
    first
    | rfl
    | exact absurd rfl h
    | (split at h <;> rename_i hc <;> simp [hc] at h ⊢)

theorem WeaObj.step_read (env : WeaEnv α) (o : WeaObj α) (op : WeaOp α) (h : op.isRead = true) :
    (o.step env op).1 = o := by
  cases op <;> simp only [WeaObj.step, WeaOp.isRead] at h ⊢ <;>
    first
    | rfl
    | (split <;> rfl)
    | cases h

theorem WeaObj.step_err (env : WeaEnv α) (o : WeaObj α) (op : WeaOp α) (e : HErr)
    (h : (o.step env op).2 = .err e) : (o.step env op).1 = o := by
  apply WeaObj.step_state_of_not_unit
  rw [h]
  intro hh
  cases hh

theorem WeaObj.run_accepted (env : WeaEnv α) :
    ∀ (ops : List (WeaOp α)) (o : WeaObj α), (o.run env ops).1 = (o.run env (o.accepted env ops)).1
  | [], o => rfl
  | op :: ops, o => by
    by_cases hu : (o.step env op).2 = .unit
    · have ha : o.accepted env (op :: ops) = op :: (o.step env op).1.accepted env ops := by
        simp only [WeaObj.accepted, hu]
      rw [ha]
      simp only [WeaObj.run]
      exact WeaObj.run_accepted env ops _
    · have hs := WeaObj.step_state_of_not_unit env o op hu
      have ha : o.accepted env (op :: ops) = o.accepted env ops := by
        simp only [WeaObj.accepted]
        rw [hs]
      rw [ha]
      simp only [WeaObj.run]
      rw [hs]
      exact WeaObj.run_accepted env ops o

/-- Every operation of the accepted part is accepted again (output `unit`) when replayed alone. -/
theorem WeaObj.accepted_all_unit (env : WeaEnv α) :
    ∀ (ops : List (WeaOp α)) (o : WeaObj α), ∀ out ∈ (o.run env (o.accepted env ops)).2, out = .unit
  | [], o => by intro out h; simp [WeaObj.accepted, WeaObj.run] at h
  | op :: ops, o => by
    by_cases hu : (o.step env op).2 = .unit
    · have ha : o.accepted env (op :: ops) = op :: (o.step env op).1.accepted env ops := by
        simp only [WeaObj.accepted, hu]
      rw [ha]
      intro out h
      simp only [WeaObj.run, List.mem_cons] at h
      rcases h with h | h
      · rw [h, hu]
      · exact WeaObj.accepted_all_unit env ops _ out h
    · have hs := WeaObj.step_state_of_not_unit env o op hu
      have ha : o.accepted env (op :: ops) = o.accepted env ops := by
        simp only [WeaObj.accepted]
        rw [hs]
      rw [ha]
      exact WeaObj.accepted_all_unit env ops o

/-! ### sky condition / design day -/

theorem SkyObj.step_state_of_not_unit (env : SkyEnv α) (o : SkyObj α) (op : SkyOp α)
    (h : (o.step env op).2 ≠ .unit) : (o.step env op).1 = o := by
  cases op <;> simp only [SkyObj.step] at h ⊢ <;>
    first
    | rfl
    | exact absurd rfl h
    | (split at h <;> rename_i hc <;> simp [hc] at h ⊢; done)
    | (split at h <;> rename_i hk <;> simp only [hk] at h ⊢ <;>
        first
        | rfl
        | exact absurd rfl h
        | (split at h <;> rename_i hc <;> simp [hc] at h ⊢))

theorem SkyObj.step_read (env : SkyEnv α) (o : SkyObj α) (op : SkyOp α) (h : op.isRead = true) :
    (o.step env op).1 = o := by
  cases op <;> simp only [SkyObj.step, SkyOp.isRead] at h ⊢ <;>
    first
    | rfl
    | (split <;> rfl)
    | cases h

theorem SkyObj.step_err (env : SkyEnv α) (o : SkyObj α) (op : SkyOp α) (e : HErr)
    (h : (o.step env op).2 = .err e) : (o.step env op).1 = o := by
  apply SkyObj.step_state_of_not_unit
  rw [h]
  intro hh
  cases hh

theorem SkyObj.run_accepted (env : SkyEnv α) :
    ∀ (ops : List (SkyOp α)) (o : SkyObj α), (o.run env ops).1 = (o.run env (o.accepted env ops)).1
  | [], o => rfl
  | op :: ops, o => by
    by_cases hu : (o.step env op).2 = .unit
    · have ha : o.accepted env (op :: ops) = op :: (o.step env op).1.accepted env ops := by
        simp only [SkyObj.accepted, hu]
      rw [ha]
      simp only [SkyObj.run]
      exact SkyObj.run_accepted env ops _
    · have hs := SkyObj.step_state_of_not_unit env o op hu
      have ha : o.accepted env (op :: ops) = o.accepted env ops := by
        simp only [SkyObj.accepted]
        rw [hs]
      rw [ha]
      simp only [SkyObj.run]
      rw [hs]
      exact SkyObj.run_accepted env ops o

/-- The clearness a history leaves behind is the initial one or one that passed the setter's range check. -/
theorem SkyObj.run_clearness (env : SkyEnv α) (P : α → Prop) (hP : ∀ v, clearnessOk v → P v) :
    ∀ (ops : List (SkyOp α)) (o : SkyObj α), P o.clearness → P (o.run env ops).1.clearness
  | [], _, h => h
  | op :: ops, o, h => by
    simp only [SkyObj.run]
    apply SkyObj.run_clearness env P hP ops
    cases op <;> simp only [SkyObj.step] <;> (try exact h) <;> split <;> (try split) <;>
      first | exact h | (rename_i hc; exact hP _ hc)

end Generic

end Sky
