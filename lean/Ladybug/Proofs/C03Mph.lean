/-
  Helper lemmas for C03: the key list of group_by_month_per_hour.  No Mathlib.
-/
import Ladybug.Proofs.C03Month

open Cal AP

namespace Grp

theorem mem_mphKeys (ts : Nat) (t : Nat × Nat × Nat) :
    t ∈ mphKeys ts ↔ (1 ≤ t.1 ∧ t.1 ≤ 12) ∧ ∃ h, h < 24 * ts ∧ t.2.1 = h / ts ∧ t.2.2 = h % ts * (60 / ts) := by
  obtain ⟨m, hr, mi⟩ := t
  simp only [mphKeys, List.mem_flatMap, List.mem_map, List.mem_range, mem_monthKeys, Prod.mk.injEq]
  constructor
  · rintro ⟨m', hm', h, hh, rfl, rfl, rfl⟩
    exact ⟨hm', h, hh, rfl, rfl⟩
  · rintro ⟨hm, h, hh, e1, e2⟩
    exact ⟨m, hm, h, hh, rfl, e1.symm, e2.symm⟩

/-- **No key of `group_by_month_per_hour` is built twice** (any timestep that divides the hour). -/
theorem mphKeys_nodup (ts : Nat) (hts : 0 < ts) (hst : 0 < 60 / ts) : (mphKeys ts).Nodup := by
  unfold mphKeys List.Nodup
  rw [List.pairwise_flatMap]
  constructor
  · intro m _
    rw [List.pairwise_map]
    apply List.Pairwise.imp _ (List.nodup_range (n := 24 * ts))
    intro a b hab heq
    simp only [Prod.mk.injEq, true_and] at heq
    have h1 := heq.1
    have h2 : a % ts = b % ts := Nat.eq_of_mul_eq_mul_right hst heq.2
    apply hab
    rw [← Nat.div_add_mod a ts, ← Nat.div_add_mod b ts, h1, h2]
  · have hnd : monthKeys.Nodup := List.nodup_range' (step := 1) (by omega)
    apply List.Pairwise.imp _ hnd
    intro a b hab x hx y hy heq
    simp only [List.mem_map] at hx hy
    obtain ⟨_, _, rfl⟩ := hx
    obtain ⟨_, _, rfl⟩ := hy
    simp only [Prod.mk.injEq] at heq
    exact hab heq.1

/-- **Every date-time on the timestep grid has its key** (all 12 valid timesteps). -/
theorem grid_mem_mphKeys (ts : Nat) (hts : ts ∈ Gen.Ap.validTimesteps) (mo hr mi : Nat)
    (hm1 : 1 ≤ mo) (hm2 : mo ≤ 12) (hh : hr ≤ 23) (hmi : mi ≤ 59) (hg : mi % (60 / ts) = 0) :
    (mo, hr, mi) ∈ mphKeys ts := by
  rw [mem_mphKeys]
  refine ⟨⟨hm1, hm2⟩, hr * ts + mi / (60 / ts), ?_⟩
  rcases ts_cases hts with rfl | rfl | rfl | rfl | rfl | rfl | rfl | rfl | rfl | rfl | rfl | rfl <;>
    simp only [Nat.reduceDiv] at hg ⊢ <;> omega

/-- A date-time off the grid has no key (so `group_by_month_per_hour` raises KeyError). -/
theorem offgrid_not_mem_mphKeys (ts : Nat) (hts : ts ∈ Gen.Ap.validTimesteps) (mo hr mi : Nat)
    (hg : mi % (60 / ts) ≠ 0) : (mo, hr, mi) ∉ mphKeys ts := by
  rw [mem_mphKeys]
  rintro ⟨_, h, _, _, e⟩
  apply hg
  simp only at e
  rw [e, Nat.mul_mod_left]

theorem valid_ts_pos (ts : Nat) (hts : ts ∈ Gen.Ap.validTimesteps) : 0 < ts ∧ 0 < 60 / ts := by
  rcases ts_cases hts with rfl | rfl | rfl | rfl | rfl | rfl | rfl | rfl | rfl | rfl | rfl | rfl <;> decide

/-- Every entry of `months_per_hour` of a well-formed period is a key of the dictionary. -/
theorem monthsPerHour_subset (ap : AP) (hwf : ap.WF) (t : Nat × Nat × Nat) (ht : t ∈ ap.monthsPerHour) :
    t ∈ mphKeys ap.timestep := by
  unfold monthsPerHour hourRange at ht
  simp only [List.mem_flatMap, List.mem_map, List.mem_filter, List.mem_range] at ht
  obtain ⟨mo, hmo, hr, ⟨hhr, _⟩, rfl⟩ := ht
  rw [mem_mphKeys]
  have v1 : 1 ≤ ap.st_month := hwf.1.1
  have w2 : ap.end_month ≤ 12 := hwf.2.1.2.1
  have := (mem_monthsInt ap mo).mp hmo
  exact ⟨by omega, hr, hhr, rfl, rfl⟩

end Grp
