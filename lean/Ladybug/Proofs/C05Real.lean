/-
  Rewriting lemmas that turn the generic definitions of Model/Sun.lean, instantiated at the reals
  (instance `Transc ℝ` of Ladybug/RealInst.lean), into ordinary Mathlib terms.
-/
import Mathlib.Analysis.SpecialFunctions.Pow.Real
import Mathlib.Tactic.NormNum
import Mathlib.Tactic.Linarith
import Mathlib.Tactic.FieldSimp
import Mathlib.Tactic.Ring
import Ladybug.RealInst
import Ladybug.Model.Sun

open Real

namespace Sun


@[simp] theorem t_sin (x : ℝ) : Transc.sin x = Real.sin x := rfl
@[simp] theorem t_cos (x : ℝ) : Transc.cos x = Real.cos x := rfl
@[simp] theorem t_tan (x : ℝ) : Transc.tan x = Real.tan x := rfl
@[simp] theorem t_asin (x : ℝ) : Transc.asin x = Real.arcsin x := rfl
@[simp] theorem t_acos (x : ℝ) : Transc.acos x = Real.arccos x := rfl
@[simp] theorem t_pow (x y : ℝ) : Transc.pow x y = x ^ y := rfl
@[simp] theorem t_sqrt (x : ℝ) : Transc.sqrt x = Real.sqrt x := rfl
@[simp] theorem t_floor (x : ℝ) : Transc.floor x = (⌊x⌋ : ℝ) := rfl

/-- The model's `pi` is π. -/
theorem pi_eq : (pi : ℝ) = π := rfl

theorem rad_eq (x : ℝ) : rad x = x * (π / 180) := by
  unfold rad; rw [pi_eq]; norm_num

theorem deg_eq (x : ℝ) : deg x = x * (180 / π) := by
  unfold deg; rw [pi_eq]; norm_num

theorem deg_rad (x : ℝ) : deg (rad x) = x := by
  rw [rad_eq, deg_eq]; field_simp

theorem rad_deg (x : ℝ) : rad (deg x) = x := by
  rw [rad_eq, deg_eq]; field_simp

theorem rad_zero : rad (0 : ℝ) = 0 := by rw [rad_eq]; simp

/-- Over the reals Python's `%` with a positive modulus is `x - ⌊x / y⌋ * y`. -/
theorem pyMod_eq (x y : ℝ) (hy : 0 < y) : pyMod x y = x - (⌊x / y⌋ : ℝ) * y := by
  unfold pyMod
  simp only [t_floor]
  have h1 : (⌊x / y⌋ : ℝ) ≤ x / y := Int.floor_le _
  have h2 : (⌊x / y⌋ : ℝ) * y ≤ x := by
    have := mul_le_mul_of_nonneg_right h1 hy.le
    rwa [div_mul_cancel₀ x hy.ne'] at this
  have h3 : ¬ (x - (⌊x / y⌋ : ℝ) * y < (0.0 : ℝ)) := by
    have : (0.0 : ℝ) = 0 := by norm_num
    rw [this]; linarith
  simp [h3]

theorem pyMod_nonneg (x y : ℝ) (hy : 0 < y) : 0 ≤ pyMod x y := by
  rw [pyMod_eq x y hy]
  have h1 : (⌊x / y⌋ : ℝ) ≤ x / y := Int.floor_le _
  have := mul_le_mul_of_nonneg_right h1 hy.le
  rw [div_mul_cancel₀ x hy.ne'] at this
  linarith

theorem pyMod_lt (x y : ℝ) (hy : 0 < y) : pyMod x y < y := by
  rw [pyMod_eq x y hy]
  have h1 : x / y < (⌊x / y⌋ : ℝ) + 1 := Int.lt_floor_add_one _
  have := mul_lt_mul_of_pos_right h1 hy
  rw [div_mul_cancel₀ x hy.ne'] at this
  linarith

/-- In `[0, y)` the modulus is the identity; at `y` itself it gives 0. -/
theorem pyMod_of_mem (x y : ℝ) (hy : 0 < y) (h0 : 0 ≤ x) (h1 : x < y) : pyMod x y = x := by
  rw [pyMod_eq x y hy]
  have : ⌊x / y⌋ = 0 := by
    rw [Int.floor_eq_iff]
    constructor
    · simpa using div_nonneg h0 hy.le
    · simpa using (div_lt_one hy).mpr h1
  simp [this]

theorem pyMod_sub_of_mem (x y : ℝ) (hy : 0 < y) (h0 : y ≤ x) (h1 : x < 2 * y) : pyMod x y = x - y := by
  rw [pyMod_eq x y hy]
  have : ⌊x / y⌋ = 1 := by
    rw [Int.floor_eq_iff]
    constructor
    · simpa using (one_le_div hy).mpr h0
    · have : x / y < 2 := (div_lt_iff₀ hy).mpr h1
      push_cast; linarith
  simp [this]

end Sun
