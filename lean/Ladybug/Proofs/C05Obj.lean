/-
  Helper lemmas for the object theorems of Props/C05.lean (round 3): one step on a fresh object,
  the nudged latitude is never a pole.
-/
import Ladybug.Proofs.C05Lemmas
import Ladybug.Model.SunObj

open Real

namespace Sun

section Object

variable {α : Type} [Add α] [Sub α] [Mul α] [Div α] [Neg α] [OfScientific α] [LT α] [LE α]
  [DecidableLT α] [DecidableLE α] [Transc α]

/-- One step on a freshly built object: unless the step is a numeric setter call the code refuses,
    the object afterwards IS the fresh object of the configuration established by the step. -/
theorem step_ofCfg (V : Validate) (ofN : Nat → α) (c : Cfg α) (op : Op α) (h : refusedSetter c op = false) :
    (step V ofN (Obj.ofCfg c) op).1 = Obj.ofCfg (c.estab op) := by
  cases op with
  | setLat a =>
    cases a with
    | num v => simp only [refusedSetter, Bool.not_eq_false'] at h; simp [step, Cfg.estab, h, Obj.ofCfg]
    | none => rfl
    | bad e => rfl
  | setLon a =>
    cases a with
    | num v =>
      simp only [refusedSetter, Bool.not_eq_false'] at h
      simp [step, Cfg.estab, h, Obj.ofCfg, timeZoneOf]
    | none => rfl
    | bad e => rfl
  | setTz a =>
    cases a with
    | num v => simp only [refusedSetter, Bool.not_eq_false'] at h; simp [step, Cfg.estab, h, Obj.ofCfg, timeZoneOf]
    | none =>
      simp only [refusedSetter, Bool.not_eq_false'] at h
      simp [step, Cfg.estab, h, Obj.ofCfg, timeZoneOf]
    | bad e => rfl
  | setNorth a =>
    cases a with
    | num v => simp only [refusedSetter, Bool.not_eq_false'] at h; simp [step, Cfg.estab, h, Obj.ofCfg]
    | none => rfl
    | bad e => rfl
  | setLeap b => rfl
  | read q => rfl
  | get => rfl
  | other => rfl


/-- With every numeric setter checking before it stores (`Validate.first`) the same holds for
    EVERY operation: a refused setter call leaves the object, and establishes nothing. -/
theorem step_ofCfg_first (ofN : Nat → α) (c : Cfg α) (op : Op α) :
    (step Validate.first ofN (Obj.ofCfg c) op).1 = Obj.ofCfg (c.estab op) := by
  by_cases h : refusedSetter c op = false
  · exact step_ofCfg Validate.first ofN c op h
  · cases op with
    | setLat a =>
      cases a with
      | num v => simp only [refusedSetter, Bool.not_eq_false, Bool.not_eq_true'] at h; simp [step, Cfg.estab, h, Validate.first]
      | none => rfl
      | bad e => rfl
    | setLon a =>
      cases a with
      | num v => simp only [refusedSetter, Bool.not_eq_false, Bool.not_eq_true'] at h; simp [step, Cfg.estab, h, Validate.first]
      | none => rfl
      | bad e => rfl
    | setTz a =>
      cases a with
      | num v => simp only [refusedSetter, Bool.not_eq_false, Bool.not_eq_true'] at h; simp [step, Cfg.estab, h, Validate.first]
      | none =>
        simp only [refusedSetter, Bool.not_eq_false, Bool.not_eq_true'] at h
        simp [step, Cfg.estab, h, Validate.first, Obj.ofCfg]
      | bad e => rfl
    | setNorth a =>
      cases a with
      | num v => simp only [refusedSetter, Bool.not_eq_false, Bool.not_eq_true'] at h; simp [step, Cfg.estab, h, Validate.first]
      | none => rfl
      | bad e => rfl
    | setLeap b => rfl
    | read q => rfl
    | get => rfl
    | other => rfl

end Object

theorem latitudeRad_ne_pole (x : ℝ) :
    ¬ (latitudeRad x ≤ (pi : ℝ) / 2.0 ∧ (pi : ℝ) / 2.0 ≤ latitudeRad x) ∧
    ¬ (latitudeRad x ≤ -((pi : ℝ) / 2.0) ∧ -((pi : ℝ) / 2.0) ≤ latitudeRad x) := by
  have hpi := Real.pi_pos
  have e9 : (0 : ℝ) < 0.000000001 := by norm_num
  have e9' : (0.000000001 : ℝ) < 1 := by norm_num
  have h3 : (2 : ℝ) ≤ π := Real.two_le_pi
  have hh : (pi : ℝ) / 2.0 = π / 2 := by rw [pi_eq]; norm_num
  unfold latitudeRad
  simp only [hh]
  split
  · next h =>
    have : rad x = π / 2 := le_antisymm h.1 h.2
    rw [this]
    constructor <;> intro h' <;> linarith [h'.1, h'.2]
  · split
    · next h1 h =>
      have : rad x = -(π / 2) := le_antisymm h.1 h.2
      rw [this]
      constructor <;> intro h' <;> linarith [h'.1, h'.2]
    · next h1 h2 => exact ⟨h1, h2⟩

theorem latitudeRad_deg (y : ℝ) (h1 : ¬ (y ≤ (pi : ℝ) / 2.0 ∧ (pi : ℝ) / 2.0 ≤ y))
    (h2 : ¬ (y ≤ -((pi : ℝ) / 2.0) ∧ -((pi : ℝ) / 2.0) ≤ y)) : latitudeRad (deg y) = y := by
  unfold latitudeRad
  simp only [rad_deg]
  rw [if_neg h1, if_neg h2]


end Sun
