/-
  Lemmas about the object state machine of Model/ResampleObj.lean (C13, round 3):
  every step is a function of the public state; refused steps change nothing.
-/
import Ladybug.Model.ResampleObj

open Cal

namespace Resample

theorem pub_fresh (p : Pub) : p.fresh.pub = p := by
  cases p; rfl

theorem pub_eq_iff (o o' : Obj) :
    o.pub = o'.pub ↔ o.cont = o'.cont ∧ o.imm = o'.imm ∧ o.ap = o'.ap ∧ o.vals = o'.vals ∧
      o.moys = o'.moys ∧ o.validated = o'.validated ∧ o.nativeCum = o'.nativeCum ∧ o.pit = o'.pit := by
  simp [Obj.pub]

theorem fill_pub (o : Obj) : o.fill.pub = o.pub := by
  simp [Obj.fill, Obj.pub, Obj.moys]

theorem derive_congr (o o' : Obj) (h : o.pub = o'.pub) (adopt : Bool) (r : Except OErr Obj) :
    (derive o adopt r).2 = (derive o' adopt r).2 ∧ (derive o adopt r).1.pub = (derive o' adopt r).1.pub := by
  cases r with
  | error e => simp [derive, h]
  | ok n => cases adopt <;> simp [derive, h]

theorem derive_refused (o : Obj) (adopt : Bool) (r : Except OErr Obj) (e : OErr)
    (h : (derive o adopt r).2 = .refused e) : (derive o adopt r).1 = o := by
  cases r with
  | error e' => simp [derive]
  | ok n => simp [derive] at h

/-- Every step is a function of the public state: two objects that show the same public state
    answer alike and show the same public state afterwards. -/
theorem step_congr (o o' : Obj) (h : o.pub = o'.pub) (op : Op) :
    (step o op).2 = (step o' op).2 ∧ (step o op).1.pub = (step o' op).1.pub := by
  have hf := (pub_eq_iff o o').mp h
  obtain ⟨h1, h2, h3, h4, h5, h6, h7, h8⟩ := hf
  cases op with
  | read fill => cases fill <;> simp [step, fill_pub, h]
  | validate adopt => simp only [step, h]; exact derive_congr o o' h _ _
  | cull ts adopt => simp only [step, h]; exact derive_congr o o' h _ _
  | holes adopt => simp only [step, h]; exact derive_congr o o' h _ _
  | interp ts cum adopt => simp only [step, h]; exact derive_congr o o' h _ _
  | toImmutable => simp only [step, h]; exact derive_congr o o' h _ _
  | toMutable => simp only [step, h]; exact derive_congr o o' h _ _
  | duplicate => simp only [step, h, h2]; exact derive_congr o o' h _ _
  | toDiscontinuous => simp only [step, h]; exact derive_congr o o' h _ _
  | dictRoundTrip => simp only [step, h, h2]; exact derive_congr o o' h _ _
  | convCull ts =>
    simp only [step, h]
    cases convCullP o'.pub ts with
    | error e => simp [h]
    | ok r => simp [Obj.pub, Obj.moys, h1, h2, h6, h7, h8]
  | setValues vs =>
    simp only [step, h]
    cases setValuesP o'.pub vs with
    | error e => simp [h]
    | ok r =>
      have : o.dts.getD o'.ap.moys = o'.dts.getD o'.ap.moys := by
        have := h5; simp only [Obj.moys, h3] at this; exact this
      simp [Obj.pub, Obj.moys, h1, h2, h3, h6, h7, h8, this]
  | setItem i v =>
    simp only [step, h]
    cases setItemP o'.pub i v with
    | error e => simp [h]
    | ok r =>
      have : o.dts.getD o'.ap.moys = o'.dts.getD o'.ap.moys := by
        have := h5; simp only [Obj.moys, h3] at this; exact this
      simp [Obj.pub, Obj.moys, h1, h2, h3, h6, h7, h8, this]

/-- A refused step leaves the stored object (slot included) exactly as it was. -/
theorem step_refused (o : Obj) (op : Op) (e : OErr) (h : (step o op).2 = .refused e) : (step o op).1 = o := by
  cases op with
  | read fill => simp [step] at h
  | validate adopt => exact derive_refused o _ _ e h
  | cull ts adopt => exact derive_refused o _ _ e h
  | holes adopt => exact derive_refused o _ _ e h
  | interp ts cum adopt => exact derive_refused o _ _ e h
  | toImmutable => exact derive_refused o _ _ e h
  | toMutable => exact derive_refused o _ _ e h
  | duplicate => exact derive_refused o _ _ e h
  | toDiscontinuous => exact derive_refused o _ _ e h
  | dictRoundTrip => exact derive_refused o _ _ e h
  | convCull ts =>
    simp only [step] at h ⊢
    cases hc : convCullP o.pub ts with
    | error e' => simp
    | ok r => rw [hc] at h; simp at h
  | setValues vs =>
    simp only [step] at h ⊢
    cases hc : setValuesP o.pub vs with
    | error e' => simp
    | ok r => rw [hc] at h; simp at h
  | setItem i v =>
    simp only [step] at h ⊢
    cases hc : setItemP o.pub i v with
    | error e' => simp
    | ok r => rw [hc] at h; simp at h

theorem run_congr (ops : List Op) : ∀ (o o' : Obj), o.pub = o'.pub →
    (run o ops).2 = (run o' ops).2 ∧ (run o ops).1.pub = (run o' ops).1.pub := by
  induction ops with
  | nil => intro o o' h; simp [run, h]
  | cons op rest ih =>
    intro o o' h
    obtain ⟨h1, h2⟩ := step_congr o o' h op
    obtain ⟨h3, h4⟩ := ih _ _ h2
    simp [run, h1, h3, h4]

theorem run_runPub (ops : List Op) : ∀ (o : Obj),
    (run o ops).2 = (runPub o.pub ops).2 ∧ (run o ops).1.pub = (runPub o.pub ops).1 := by
  induction ops with
  | nil => intro o; simp [run, runPub]
  | cons op rest ih =>
    intro o
    obtain ⟨h1, h2⟩ := step_congr o o.pub.fresh (pub_fresh o.pub).symm op
    have h3 := ih (step o op).1
    simp only [run, runPub, stepPub]
    rw [← h1, ← h2]
    exact ⟨by rw [h3.1], h3.2⟩

theorem run_append (o : Obj) (a b : List Op) :
    (run o (a ++ b)).1 = (run (run o a).1 b).1 ∧ (run o (a ++ b)).2 = (run o a).2 ++ (run (run o a).1 b).2 := by
  induction a generalizing o with
  | nil => simp [run]
  | cons op rest ih =>
    obtain ⟨h1, h2⟩ := ih (step o op).1
    simp [run, h1, h2]

theorem zip_map_fst_snd {α β : Type} (l : List (α × β)) : (l.map (·.1)).zip (l.map (·.2)) = l := by
  induction l with
  | nil => rfl
  | cons a t ih => simp [ih]

/-! ### Coherence of continuous objects (round 4) -/

/-- A continuous object is **coherent** when it holds one value per step of its whole-day period and
    its `_datetimes` slot is empty or holds exactly those steps. -/
def Obj.Coherent (o : Obj) : Prop :=
  o.cont = true → (o.vals.length = o.ap.len ∧ o.moys = o.ap.moys)

instance (o : Obj) : Decidable o.Coherent := by unfold Obj.Coherent; infer_instance

theorem mkCont_coherent {p : Pub} {imm : Bool} {ap : AP} {vals : List Rat} {n : Obj}
    (h : mkCont p imm ap vals = .ok n) : n.Coherent := by
  unfold mkCont at h
  split at h
  · cases h
  · split at h
    · cases h
    · next hl =>
      injection h with h
      subst h
      intro _
      exact ⟨by simpa using hl, by simp [Obj.moys]⟩

theorem mkDisc_coherent {p : Pub} {imm : Bool} {ap : AP} {vals : List Rat} {moys : List Nat} {v : Bool} {n : Obj}
    (h : mkDisc p imm ap vals moys v = .ok n) : n.Coherent := by
  unfold mkDisc at h
  split at h
  · cases h
  · split at h
    · cases h
    · injection h with h
      subst h
      intro hc
      cases hc

theorem copyP_coherent {p : Pub} {imm : Bool} {n : Obj} (h : copyP p imm = .ok n) : n.Coherent := by
  unfold copyP at h
  split at h
  · exact mkCont_coherent h
  · exact mkDisc_coherent h

theorem validateP_coherent {p : Pub} {n : Obj} (h : validateP p = .ok n) : n.Coherent := by
  unfold validateP at h
  split at h
  · exact copyP_coherent h
  · split at h
    · cases h
    · split at h
      · cases h
      · exact mkDisc_coherent h

theorem cullP_coherent {p : Pub} {ts : Nat} {n : Obj} (h : cullP p ts = .ok n) : n.Coherent := by
  unfold cullP at h
  split at h
  · cases h
  · exact mkDisc_coherent h

theorem holesP_coherent {p : Pub} {n : Obj} (h : holesP p = .ok n) : n.Coherent := by
  unfold holesP at h
  split at h
  · exact copyP_coherent h
  · split at h
    · cases h
    · exact mkCont_coherent h

theorem interpP_coherent {p : Pub} {ts : Nat} {cum : Option (Option Bool)} {n : Obj}
    (h : interpP p ts cum = .ok n) : n.Coherent := by
  unfold interpP at h
  split at h
  · cases h
  · split at h
    · cases h
    · split at h
      · cases h
      · split at h
        · cases h
        · exact mkCont_coherent h

theorem toDiscP_coherent {p : Pub} {n : Obj} (h : toDiscP p = .ok n) : n.Coherent := by
  unfold toDiscP at h
  split at h
  · cases h
  · exact mkDisc_coherent h

theorem setValuesP_len {p : Pub} {vs : Option (List Rat)} {w : List Rat} (h : setValuesP p vs = .ok w)
    (hc : p.cont = true) : w.length = p.ap.len := by
  unfold setValuesP at h
  by_cases hi : p.imm = true
  · simp [hi] at h
  · cases vs with
    | none => simp [hi] at h
    | some vs =>
      by_cases hl : vs.length = p.ap.len
      · simp [hi, hc, hl] at h
        subst h
        exact hl
      · simp [hi, hc, hl] at h

theorem setItemP_len {p : Pub} {i : Int} {v : Rat} {w : List Rat} (h : setItemP p i v = .ok w) :
    w.length = p.vals.length := by
  unfold setItemP at h
  by_cases hi : p.imm = true
  · simp [hi] at h
  · simp only [hi, Bool.false_eq_true, if_false] at h
    split at h <;> split at h <;> first | (injection h with h; subst h; simp) | cases h

theorem derive_coherent (o : Obj) (adopt : Bool) (r : Except OErr Obj) (ho : o.Coherent)
    (hr : ∀ n, r = .ok n → n.Coherent) : (derive o adopt r).1.Coherent := by
  unfold derive
  cases r with
  | error e => exact ho
  | ok n =>
    cases adopt
    · exact ho
    · exact hr n rfl

end Resample
