/-
  Lemmas for C19 about the object state machine of Model/SqlObj.lean: the invariant of the lazily
  filled slots, its preservation by every request, and the equality of observations with a fresh
  object.  No Mathlib.
-/
import Ladybug.Model.SqlObj

namespace Sql

variable {α : Type}

/-- Every slot is either empty or holds exactly what a fresh object of the same file would compute. -/
structure Inv (o : Obj α) : Prop where
  ao : o.ao = none ∨ o.ao = some (outputNames o.db.dict)
  ai : o.ai = none ∨ o.ai = some (outputInfos o.db.dict)
  ri : o.ri = none ∨ o.ri = some (runPeriodIndices o.db.time)
  rf : o.rf = none ∨ (∃ s, lastLabel o.db.dict = some s ∧ o.rf = some (.label s)) ∨
    (∃ s n, lastLabel o.db.dict = some s ∧ hasTimestep s = true ∧
      extractTimestep o.db.time = .ok n ∧ o.rf = some (.steps n))

theorem inv_fresh (db : DB α) : Inv (Obj.fresh db) :=
  ⟨Or.inl rfl, Or.inl rfl, Or.inl rfl, Or.inl rfl⟩

theorem extract_db (o : Obj α) : o.extract.db = o.db := rfl

theorem inv_extract (o : Obj α) (h : Inv o) : Inv o.extract := by
  refine ⟨Or.inr rfl, Or.inr rfl, h.ri, ?_⟩
  show (Obj.extract o).rf = none ∨ _
  simp only [Obj.extract]
  cases hl : lastLabel o.db.dict with
  | none =>
    simp only
    rcases h.rf with h1 | ⟨s, hs, _⟩ | ⟨s, n, hs, _⟩
    · exact Or.inl h1
    · rw [hl] at hs; cases hs
    · rw [hl] at hs; cases hs
  | some s => exact Or.inr (Or.inl ⟨s, rfl, rfl⟩)

/-- The object a request leaves behind still points to the same file. -/
theorem step_db (conv : α → α) (o : Obj α) (op : Op) : (step conv o op).1.db = o.db := by
  cases op with
  | queryAll q => rfl
  | queryRunPeriod n e => rfl
  | values q => rfl
  | availableOutputs => simp only [step]; split <;> rfl
  | availableOutputsInfo => simp only [step]; split <;> rfl
  | runPeriodIndices => simp only [step]; split <;> rfl
  | malformed => rfl
  | reportingFrequency =>
    simp only [step]
    have hdb : (if falsyRF o.rf = true then o.extract else o).db = o.db := by split <;> rfl
    generalize (if falsyRF o.rf = true then o.extract else o) = o1 at hdb ⊢
    split
    · split
      · split <;> exact hdb
      · exact hdb
    · exact hdb

/-- Every request preserves the invariant. -/
theorem step_inv (conv : α → α) (o : Obj α) (op : Op) (h : Inv o) : Inv (step conv o op).1 := by
  cases op with
  | queryAll q => exact h
  | queryRunPeriod n e => exact h
  | values q => exact h
  | malformed => exact h
  | availableOutputs => simp only [step]; split; exact inv_extract o h; exact h
  | availableOutputsInfo => simp only [step]; split; exact inv_extract o h; exact h
  | runPeriodIndices =>
    simp only [step]
    split
    · exact ⟨h.ao, h.ai, Or.inr rfl, h.rf⟩
    · exact h
  | reportingFrequency =>
    simp only [step]
    have h1 : Inv (if falsyRF o.rf = true then o.extract else o) := by
      split
      · exact inv_extract o h
      · exact h
    generalize (if falsyRF o.rf = true then o.extract else o) = o1 at h1 ⊢
    split
    · rename_i s hs
      split
      · rename_i ht
        split
        · rename_i n hn
          refine ⟨h1.ao, h1.ai, h1.ri, ?_⟩
          rcases h1.rf with e | ⟨s', hs', e⟩ | ⟨s', n', _, _, _, e⟩
          · rw [hs] at e; cases e
          · rw [hs] at e
            cases e
            exact Or.inr (Or.inr ⟨s, n, hs', ht, hn, rfl⟩)
          · rw [hs] at e; cases e
        · exact h1
      · exact h1
    · exact h1

/-- What a fresh object answers to a property read, spelled out. -/
def freshFreq (db : DB α) : Out α :=
  match lastLabel db.dict with
  | some s =>
    if hasTimestep s then
      match extractTimestep db.time with
      | .ok n => .freq (some (.steps n))
      | .error e => .error e
    else .freq (some (.label s))
  | none => .freq none

theorem fresh_reportingFrequency (conv : α → α) (db : DB α) :
    (step conv (Obj.fresh db) .reportingFrequency).2 = freshFreq db := by
  simp only [step, Obj.fresh, falsyRF, if_true, Obj.extract, freshFreq]
  cases lastLabel db.dict with
  | none => rfl
  | some s =>
    simp only
    split
    · cases extractTimestep db.time <;> rfl
    · rfl

theorem getD_of_falsy {β : Type} (x : Option (List β)) (h : falsyList x = false) :
    ∃ a l, x = some (a :: l) := by
  cases x with
  | none => simp [falsyList] at h
  | some l =>
    cases l with
    | nil => simp [falsyList] at h
    | cons a l => exact ⟨a, l, rfl⟩

/-- Under the invariant every observation is the one of a fresh object of the same file. -/
theorem step_obs (conv : α → α) (o : Obj α) (op : Op) (h : Inv o) :
    (step conv o op).2 = (step conv (Obj.fresh o.db) op).2 := by
  cases op with
  | queryAll q => rfl
  | queryRunPeriod n e => rfl
  | values q => rfl
  | malformed => rfl
  | availableOutputs =>
    have hfresh : (step conv (Obj.fresh o.db) .availableOutputs).2 = .names (outputNames o.db.dict) := by
      simp [step, Obj.fresh, falsyList, Obj.extract]
    rw [hfresh]
    simp only [step]
    cases hf : falsyList o.ao with
    | true => simp [Obj.extract]
    | false =>
      obtain ⟨a, l, hx⟩ := getD_of_falsy _ hf
      rcases h.ao with e | e
      · rw [hx] at e; cases e
      · simp [e]
  | availableOutputsInfo =>
    have hfresh : (step conv (Obj.fresh o.db) .availableOutputsInfo).2 = .infos (outputInfos o.db.dict) := by
      simp [step, Obj.fresh, falsyList, Obj.extract]
    rw [hfresh]
    simp only [step]
    cases hf : falsyList o.ai with
    | true => simp [Obj.extract]
    | false =>
      obtain ⟨a, l, hx⟩ := getD_of_falsy _ hf
      rcases h.ai with e | e
      · rw [hx] at e; cases e
      · simp [e]
  | runPeriodIndices =>
    have hfresh : (step conv (Obj.fresh o.db) .runPeriodIndices).2 = .indices (runPeriodIndices o.db.time) := by
      simp [step, Obj.fresh, falsyList]
    rw [hfresh]
    simp only [step]
    cases hf : falsyList o.ri with
    | true => simp
    | false =>
      obtain ⟨a, l, hx⟩ := getD_of_falsy _ hf
      rcases h.ri with e | e
      · rw [hx] at e; cases e
      · simp [e]
  | reportingFrequency =>
    rw [fresh_reportingFrequency]
    rcases h.rf with e | ⟨s, hs, e⟩ | ⟨s, n, hs, ht, hn, e⟩
    · -- empty slot: extraction, as on a fresh object
      simp only [step, e, falsyRF, if_true, Obj.extract, freshFreq]
      cases lastLabel o.db.dict with
      | none => simp
      | some s =>
        simp only
        split
        · cases extractTimestep o.db.time <;> rfl
        · rfl
    · -- the slot holds the label
      simp only [step, e, falsyRF, freshFreq, hs]
      by_cases hem : (s == "") = true
      · simp only [hem, if_true, Obj.extract, hs]
        split
        · cases extractTimestep o.db.time <;> rfl
        · rfl
      · simp only [hem, Bool.false_eq_true, if_false, e]
        split
        · cases extractTimestep o.db.time <;> rfl
        · rfl
    · -- the slot holds the steps per hour computed before
      simp only [step, e, falsyRF, freshFreq, hs, ht, if_true, hn]
      by_cases hz : (n == 0) = true
      · simp only [hz, if_true, Obj.extract, hs, ht, hn]
      · simp only [hz, Bool.false_eq_true, if_false, e]

/-- The object after a history satisfies the invariant and points to the same file. -/
theorem after_inv (conv : α → α) (o : Obj α) (ops : List Op) (h : Inv o) :
    Inv (after conv o ops) ∧ (after conv o ops).db = o.db := by
  induction ops generalizing o with
  | nil => exact ⟨h, rfl⟩
  | cons op ops ih =>
    have := ih (step conv o op).1 (step_inv conv o op h)
    simp only [after, run] at this ⊢
    exact ⟨this.1, this.2.trans (step_db conv o op)⟩

/-- The observations of a whole history, one by one, are those of fresh objects. -/
theorem run_obs (conv : α → α) (o : Obj α) (ops : List Op) (h : Inv o) :
    (run conv o ops).2 = ops.map fun op => (step conv (Obj.fresh o.db) op).2 := by
  induction ops generalizing o with
  | nil => rfl
  | cons op ops ih =>
    simp only [run, List.map_cons]
    rw [step_obs conv o op h, ih _ (step_inv conv o op h), step_db]

/-! ### Property reads -/

theorem mem_insertSorted (x y : Nat) (l : List Nat) : y ∈ insertSorted x l ↔ y = x ∨ y ∈ l := by
  induction l with
  | nil => simp [insertSorted]
  | cons a l ih =>
    simp only [insertSorted]
    split
    · simp
    · split
      · rename_i h2
        subst h2
        simp
      · simp only [List.mem_cons, ih]
        constructor
        · rintro (h | h | h)
          · exact Or.inr (Or.inl h)
          · exact Or.inl h
          · exact Or.inr (Or.inr h)
        · rintro (h | h | h)
          · exact Or.inr (Or.inl h)
          · exact Or.inl h
          · exact Or.inr (Or.inr h)

theorem insertSorted_sorted (x : Nat) (l : List Nat) (h : l.Pairwise (· < ·)) :
    (insertSorted x l).Pairwise (· < ·) := by
  induction l with
  | nil => simp [insertSorted]
  | cons a l ih =>
    have hp := List.pairwise_cons.mp h
    simp only [insertSorted]
    split
    · rename_i hxa
      refine List.pairwise_cons.mpr ⟨?_, h⟩
      intro b hb
      rcases List.mem_cons.mp hb with rfl | hb
      · exact hxa
      · exact Nat.lt_trans hxa (hp.1 b hb)
    · split
      · exact h
      · rename_i h1 h2
        refine List.pairwise_cons.mpr ⟨?_, ih hp.2⟩
        intro b hb
        rcases (mem_insertSorted x b l).mp hb with rfl | hb
        · omega
        · exact hp.1 b hb

theorem mem_runPeriodIndices (time : List TimeRow) (e : Nat) :
    e ∈ runPeriodIndices time ↔ ∃ r ∈ time, r.env = e := by
  induction time with
  | nil => simp [runPeriodIndices]
  | cons r rs ih =>
    have : runPeriodIndices (r :: rs) = insertSorted r.env (runPeriodIndices rs) := rfl
    rw [this, mem_insertSorted, ih]
    constructor
    · rintro (h | ⟨r', hr', h⟩)
      · exact ⟨r, by simp, h.symm⟩
      · exact ⟨r', by simp [hr'], h⟩
    · rintro ⟨r', hr', h⟩
      rcases List.mem_cons.mp hr' with rfl | hr'
      · exact Or.inl h.symm
      · exact Or.inr ⟨r', hr', h⟩

theorem runPeriodIndices_sorted (time : List TimeRow) : (runPeriodIndices time).Pairwise (· < ·) := by
  induction time with
  | nil => simp [runPeriodIndices]
  | cons r rs ih => exact insertSorted_sorted r.env _ ih

theorem mem_outputTuples (dict : List DictRow) (t : OutTuple) :
    t ∈ outputTuples dict ↔ ∃ r ∈ dict, t = (r.name, r.group, r.units, r.freq) := by
  unfold outputTuples
  rw [List.mem_eraseDups, List.mem_map]
  constructor
  · rintro ⟨r, hr, rfl⟩; exact ⟨r, hr, rfl⟩
  · rintro ⟨r, hr, rfl⟩; exact ⟨r, hr, rfl⟩

/-- A file with one frequency label: that label is what `_extract_available_outputs` leaves in the
    slot, whatever the iteration order of the set. -/
theorem lastLabel_uniform (dict : List DictRow) (f : String) (hne : dict ≠ [])
    (h : ∀ r ∈ dict, r.freq = f) : lastLabel dict = some f := by
  unfold lastLabel
  cases hl : (outputTuples dict).getLast? with
  | none =>
    rw [List.getLast?_eq_none_iff] at hl
    obtain ⟨r, rs, rfl⟩ := List.exists_cons_of_ne_nil hne
    have hm : (r.name, r.group, r.units, r.freq) ∈ outputTuples (r :: rs) :=
      (mem_outputTuples _ _).mpr ⟨r, by simp, rfl⟩
    rw [hl] at hm
    cases hm
  | some t =>
    obtain ⟨ys, hys⟩ := List.getLast?_eq_some_iff.mp hl
    have hm : t ∈ outputTuples dict := by rw [hys]; simp
    obtain ⟨r, hr, rfl⟩ := (mem_outputTuples _ _).mp hm
    simp [h r hr]

end Sql
