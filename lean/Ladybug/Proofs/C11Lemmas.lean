/-
  Helper lemmas for Props/C11.lean (integer part: cyclic windows, minutes of the day/year;
  real part: the sunrise hour angle).
-/
import Ladybug.Proofs.C05Lemmas
import Ladybug.Model.SunTimes

open Cal

namespace SunTimes

/-- `(x + n - st) % n` without the modulus, for `x, st < n`. -/
theorem cyc_mod (n st x : Nat) (hst : st < n) (hx : x < n) :
    (x + n - st) % n = if st ≤ x then x - st else x + n - st := by
  split
  · next h =>
    have : x + n - st = (x - st) + n := by omega
    rw [this, Nat.add_mod_right, Nat.mod_eq_of_lt (by omega)]
  · next h => exact Nat.mod_eq_of_lt (by omega)

/-- The two comparisons of `is_daylight_saving_hour` are membership in the cyclic interval. -/
theorem window_iff_cyclic (n st en m : Nat) (hst : st < n) (hen : en < n) (hm : m < n) :
    (if en < st then st ≤ m ∨ m < en else st ≤ m ∧ m < en) ↔ inCyclic n st en m := by
  unfold inCyclic
  rw [cyc_mod n st m hst hm, cyc_mod n st en hst hen]
  split <;> split <;> split <;> omega

/-- A period's start and end minutes have minute 0: the reversal test on hours is the test on
    minutes of the year. -/
theorem isReversed_iff (ap : AP) : ap.isReversed = true ↔ ap.endMoy < ap.stMoy := by
  unfold AP.isReversed AP.endMoy AP.stMoy DT.moy AP.endTime AP.stTime
  simp only [decide_eq_true_eq]
  omega

theorem mem_mapE {β γ ε : Type} (f : β → Except ε γ) (l : List β) (r : List γ)
    (h : mapE f l = .ok r) : ∀ c ∈ r, ∃ b ∈ l, f b = .ok c := by
  induction l generalizing r with
  | nil => simp [mapE] at h; subst h; simp
  | cons b bs ih =>
    unfold mapE at h
    split at h
    · cases h
    · next c hc =>
      split at h
      · cases h
      · next cs hcs =>
        cases h
        intro x hx
        rcases List.mem_cons.mp hx with rfl | hx
        · exact ⟨b, by simp, hc⟩
        · obtain ⟨b', hb', hf⟩ := ih cs hcs x hx
          exact ⟨b', by simp [hb'], hf⟩

theorem length_mapE {β γ ε : Type} (f : β → Except ε γ) (l : List β) (r : List γ)
    (h : mapE f l = .ok r) : r.length = l.length := by
  induction l generalizing r with
  | nil => simp [mapE] at h; subst h; rfl
  | cons b bs ih =>
    unfold mapE at h
    split at h
    · cases h
    · split at h
      · cases h
      · next cs hcs => cases h; simp [ih cs hcs]

/-- Membership in `range(1, dpm + 1, s)`. -/
theorem mem_dayRange (dpm s d : Nat) :
    d ∈ dayRange dpm s ↔ 1 ≤ d ∧ d ≤ dpm ∧ (d - 1) % s = 0 := by
  unfold dayRange
  simp only [List.mem_filterMap, List.mem_range]
  constructor
  · rintro ⟨k, hk, h⟩
    split at h
    · next hm => cases h; exact ⟨by omega, by omega, by simpa using hm⟩
    · cases h
  · rintro ⟨h1, h2, h3⟩
    exact ⟨d - 1, by omega, by simp [h3]; omega⟩

end SunTimes
