/-
  C01, round 4: helper definitions and lemmas for
  * the split of an EPW text into lines (`str.split('\n')` at character level: only the line feed cuts,
    whatever other characters the header text holds),
  * the per-hour independence of `to_wea` (the answer for a list of hours is the list of the answers),
  * the ground-temperature line read block by block in the file's own spelling.
  Core Lean only.
-/
import Ladybug.Proofs.C01Header

namespace Epw

/-! ### text -> lines -/

/-- `text.split('\n')` on the characters of the text: a new line starts after every line feed and nowhere
    else (no other character is looked at). -/
def splitLines : List Char → List (List Char)
  | [] => [[]]
  | c :: cs =>
    if c = '\n' then [] :: splitLines cs
    else match splitLines cs with
      | [] => [[c]]
      | l :: ls => (c :: l) :: ls

/-- `'\n'.join(lines)`. -/
def joinLines : List (List Char) → List Char
  | [] => []
  | [l] => l
  | l :: l' :: ls => l ++ '\n' :: joinLines (l' :: ls)

theorem splitLines_ne_nil : ∀ t : List Char, splitLines t ≠ []
  | [] => by simp [splitLines]
  | c :: cs => by
    unfold splitLines
    split
    · simp
    · split <;> simp

/-- A line without line feed in front of a text: it is prepended to the first line of the rest. -/
theorem splitLines_append_line : ∀ (l : List Char) (rest : List Char), (∀ c ∈ l, c ≠ '\n') →
    splitLines (l ++ rest) = (l ++ (splitLines rest).headD []) :: (splitLines rest).tail
  | [], rest, _ => by
    simp only [List.nil_append]
    cases h : splitLines rest with
    | nil => exact absurd h (splitLines_ne_nil rest)
    | cons a b => simp
  | c :: l, rest, h => by
    have hc : c ≠ '\n' := h c (by simp)
    have ih := splitLines_append_line l rest (fun x hx => h x (by simp [hx]))
    show splitLines (c :: (l ++ rest)) = _
    rw [splitLines, if_neg hc, ih]
    simp

/-- **split ∘ join = id** for lines that hold no line feed (any other character allowed). -/
theorem splitLines_joinLines : ∀ (ls : List (List Char)), ls ≠ [] → (∀ l ∈ ls, ∀ c ∈ l, c ≠ '\n') →
    splitLines (joinLines ls) = ls
  | [], h, _ => absurd rfl h
  | [l], _, h => by
    have := splitLines_append_line l [] (h l (by simp))
    simp only [List.append_nil] at this
    simp [joinLines, this, splitLines]
  | l :: l' :: ls, _, h => by
    have ih := splitLines_joinLines (l' :: ls) (by simp) (fun x hx => h x (by simp [hx]))
    have hs : splitLines ('\n' :: joinLines (l' :: ls)) = [] :: (l' :: ls) := by
      rw [splitLines, if_pos rfl, ih]
    show splitLines (l ++ '\n' :: joinLines (l' :: ls)) = _
    rw [splitLines_append_line l _ (h l (by simp))]
    simp [hs]

/-- The text of a file whose lines all end with a line feed. -/
def fileText (lines : List (List Char)) : List Char := joinLines (lines ++ [[]])

/-- The sections `from_file_string` cuts out of `text.split('\n')`: lines 0..7 and lines 8..-1. -/
def headerSection (text : List Char) : List (List Char) := (splitLines text).take 8
def bodySection (text : List Char) : List (List Char) := ((splitLines text).drop 8).dropLast

/-! ### to_wea: one line per requested hour -/

/-- `mapE` answers position by position: when it succeeds, output `j` is the answer for input `j`. -/
theorem mapE_ok_get {α β ε : Type} (f : α → Except ε β) : ∀ (l : List α) (bs : List β), mapE f l = .ok bs →
    ∀ (j : Nat) (a : α), l[j]? = some a → ∃ b, bs[j]? = some b ∧ f a = .ok b
  | [], _, _, j, a, hj => by simp at hj
  | x :: l, bs, h, j, a, hj => by
    unfold mapE at h
    cases hfx : f x with
    | error e => rw [hfx] at h; cases h
    | ok b0 =>
      rw [hfx] at h
      cases hm : mapE f l with
      | error e => rw [hm] at h; cases h
      | ok bs' =>
        rw [hm] at h
        injection h with h
        subst h
        cases j with
        | zero =>
          simp only [List.getElem?_cons_zero, Option.some.injEq] at hj
          subst hj
          exact ⟨b0, by simp, hfx⟩
        | succ j =>
          simp only [List.getElem?_cons_succ] at hj ⊢
          exact mapE_ok_get f l bs' hm j a hj

/-- ... and it succeeds exactly when every item does. -/
theorem mapE_ok_of_forall {α β ε : Type} (f : α → Except ε β) (g : α → β) : ∀ (l : List α),
    (∀ a ∈ l, f a = .ok (g a)) → mapE f l = .ok (l.map g)
  | [], _ => rfl
  | x :: l, h => by
    unfold mapE
    rw [h x (by simp), mapE_ok_of_forall f g l (fun a ha => h a (by simp [ha]))]
    rfl

/-! ### ground temperatures block by block -/

/-- The 16 tokens of one depth as the FILE spells them. -/
structure GBlock where
  d : String
  cond : String
  dens : String
  heat : String
  vals : List String

def GBlock.toks (b : GBlock) : List String := b.d :: b.cond :: b.dens :: b.heat :: b.vals

/-- What a block is read as: depth and the 12 values through `float`, the three soil properties as text. -/
def GBlock.Reads {F : Type} (nc : NumCodec F) (b : GBlock) (g : Ground F) : Prop :=
  nc.pf b.d = some g.depth ∧ g.cond = b.cond ∧ g.dens = b.dens ∧ g.heat = b.heat ∧ b.vals.length = 12 ∧
    mapO nc.pf b.vals = some g.vals

theorem mapO_length {α β : Type} (f : α → Option β) : ∀ (l : List α) (bs : List β), mapO f l = some bs → bs.length = l.length
  | [], bs, h => by simp [mapO] at h; subst h; rfl
  | a :: l, bs, h => by
    unfold mapO at h
    cases hfa : f a with
    | none => rw [hfa] at h; cases h
    | some b =>
      rw [hfa] at h
      cases hm : mapO f l with
      | none => rw [hm] at h; cases h
      | some bs' =>
        rw [hm] at h
        injection h with h
        subst h
        simp [mapO_length f l bs' hm]

theorem parseGroundList_blocks {F : Type} [DecidableEq F] (nc : NumCodec F) :
    ∀ (ps : List (GBlock × Ground F)) (rest : List String) (acc : List (Ground F)),
      (∀ p ∈ ps, GBlock.Reads nc p.1 p.2) →
      parseGroundList nc ps.length (((ps.map Prod.fst).map GBlock.toks).flatten ++ rest) acc
        = .ok ((ps.map Prod.snd).foldl groundSet acc)
  | [], _, _, _ => by simp [parseGroundList]
  | (b, g) :: ps, rest, acc, h => by
    obtain ⟨hd, hc, hde, hh, hl, hv⟩ := h (b, g) (by simp)
    simp only at hd hc hde hh hl hv
    have ih := parseGroundList_blocks nc ps rest (groundSet acc g) (fun p hp => h p (by simp [hp]))
    have e : ((((b, g) :: ps).map Prod.fst).map GBlock.toks).flatten ++ rest =
        b.d :: b.cond :: b.dens :: b.heat :: (b.vals ++ (((ps.map Prod.fst).map GBlock.toks).flatten ++ rest)) := by
      simp [GBlock.toks]
    obtain ⟨b1, b2⟩ := block16 b.d b.cond b.dens b.heat b.vals (((ps.map Prod.fst).map GBlock.toks).flatten ++ rest) hl
    have hgl : g.vals.length = 12 := by rw [mapO_length nc.pf b.vals g.vals hv, hl]
    have hg : (⟨g.depth, b.cond, b.dens, b.heat, g.vals⟩ : Ground F) = g := by
      cases g; simp_all
    rw [e]
    simp only [List.length_cons, List.map_cons, List.foldl_cons]
    unfold parseGroundList
    simp only [List.getElem?_cons_zero, List.getElem?_cons_succ, hd, b1, b2, hv, hgl, if_true, hg]
    exact ih

end Epw
