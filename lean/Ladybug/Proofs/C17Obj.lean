/-
  Lemmas about the object state machines of Model/PlotObj.lean (property C17, round 3).
  Core Lean only (no Mathlib needed).
-/
import Ladybug.Model.PlotObj

namespace PlotObj

open Plot

/-! ## WindRose -/

/-- What the observations of a wind rose are computed from. -/
def WObj.core (o : WObj) : WPub × List (List Rat) × Nat := (o.pub, o.hist, o.zeros)

theorem WObj.fresh_of_inv (o : WObj) (h : o.Inv) :
    WObj.fresh o.pub = .ok ⟨o.pub, o.hist, o.zeros, none⟩ := by
  obtain ⟨hw, hn, _⟩ := h
  simp [WObj.fresh, hn, hw]

theorem WObj.fresh_inv (p : WPub) (o : WObj) (h : WObj.fresh p = .ok o) : o.Inv ∧ o.pub = p := by
  unfold WObj.fresh at h
  split at h
  · cases h
  · rename_i hn
    split at h
    · cases h
    · rename_i hh z hw
      cases h
      exact ⟨⟨hw, hn, Or.inl rfl⟩, rfl⟩

/-- The `__init__` slots never change, and the public state moves exactly as `WPub.apply` says. -/
theorem WObj.step_core (o : WObj) (op : WOp) :
    (o.step op).1.pub = o.pub.apply op ∧ (o.step op).1.hist = o.hist ∧ (o.step op).1.zeros = o.zeros := by
  cases op <;> simp only [WObj.step, WPub.apply] <;>
    first
    | (split <;> simp)
    | simp
  all_goals (cases o.prevCache <;> simp)

/-- The data of the rose is not touched by any setter. -/
theorem WPub.apply_data (p : WPub) (op : WOp) :
    (p.apply op).n = p.n ∧ (p.apply op).isSpeed = p.isSpeed ∧ (p.apply op).samples = p.samples := by
  cases op <;> simp only [WPub.apply] <;> first | (split <;> simp) | simp

theorem WObj.step_cache (o : WObj) (op : WOp) :
    (o.step op).1.prevCache = o.prevCache ∨
    (o.step op).1.prevCache = some (prevailing (o.hist.map List.length)) := by
  cases op <;> simp only [WObj.step] <;>
    first
    | (split <;> simp)
    | simp
  all_goals (cases o.prevCache <;> simp)

theorem WObj.step_inv (o : WObj) (h : o.Inv) (op : WOp) : (o.step op).1.Inv := by
  obtain ⟨hw, hn, hc⟩ := h
  obtain ⟨hp, hh, hz⟩ := o.step_core op
  obtain ⟨dn, ds, dd⟩ := o.pub.apply_data op
  refine ⟨?_, ?_, ?_⟩
  · rw [hp, hh, hz, dn, ds, dd]; exact hw
  · rw [hp, dn]; exact hn
  · rw [hh]
    rcases o.step_cache op with e | e
    · rw [e]; exact hc
    · exact Or.inr e

theorem WObj.run_inv (o : WObj) (h : o.Inv) (ops : List WOp) : (o.run ops).1.Inv := by
  induction ops generalizing o with
  | nil => exact h
  | cons op ops ih => exact ih _ (o.step_inv h op)

/-- Under the invariant the answer of every operation is a function of the core alone: the lazy slot
    never shows. -/
theorem WObj.out_of_core (a b : WObj) (ha : a.Inv) (hb : b.Inv) (hc : a.core = b.core) (op : WOp) :
    (a.step op).2 = (b.step op).2 := by
  obtain ⟨pa, ha', za, ca⟩ := a
  obtain ⟨pb, hb', zb, cb⟩ := b
  simp only [WObj.core, Prod.mk.injEq] at hc
  obtain ⟨rfl, rfl, rfl⟩ := hc
  have hca := ha.2.2
  have hcb := hb.2.2
  simp only at hca hcb
  cases op
  case readPrev =>
    simp only [WObj.step]
    rcases hca with rfl | rfl <;> rcases hcb with rfl | rfl <;> simp
  all_goals (simp only [WObj.step, realMax, intervalsMesh] <;> first | rfl | (split <;> rfl))

/-- The public state after a history is the fold of the accepted setters. -/
theorem WObj.run_pub (o : WObj) (ops : List WOp) : (o.run ops).1.pub = ops.foldl WPub.apply o.pub := by
  induction ops generalizing o with
  | nil => rfl
  | cons op ops ih =>
    simp only [WObj.run, List.foldl_cons]
    rw [ih, (o.step_core op).1]

theorem WObj.run_core (o : WObj) (ops : List WOp) :
    (o.run ops).1.hist = o.hist ∧ (o.run ops).1.zeros = o.zeros := by
  induction ops generalizing o with
  | nil => exact ⟨rfl, rfl⟩
  | cons op ops ih =>
    simp only [WObj.run]
    obtain ⟨_, hh, hz⟩ := o.step_core op
    obtain ⟨h1, h2⟩ := ih (o.step op).1
    exact ⟨h1.trans hh, h2.trans hz⟩

/-! ## PsychrometricChart -/

def PObj.core (o : PObj) : PPub × List Nat := (o.pub, o.counts)

theorem PObj.fresh_inv (p : PPub) (o : PObj) (h : PObj.fresh p = .ok o) : o.Inv ∧ o.pub = p := by
  unfold PObj.fresh at h
  split at h
  · cases h
  · simp only at h
    split at h
    · cases h
    · cases h
      exact ⟨⟨rfl, Or.inl rfl⟩, rfl⟩

theorem PObj.step_core (o : PObj) (op : POp) : (o.step op).1.pub = o.pub ∧ (o.step op).1.counts = o.counts := by
  cases op <;> simp only [PObj.step]
  case readMesh => cases o.meshCache <;> simp
  case dataMesh v =>
    split
    · simp
    · cases o.meshCache <;> simp
  all_goals simp

theorem PObj.step_cache (o : PObj) (op : POp) :
    (o.step op).1.meshCache = o.meshCache ∨
    (o.step op).1.meshCache = some (facesOfCounts o.nT o.counts) := by
  cases op <;> simp only [PObj.step]
  case readMesh => split <;> simp_all
  case dataMesh v =>
    split
    · simp
    · split <;> simp_all
  all_goals simp

theorem PObj.step_inv (o : PObj) (h : o.Inv) (op : POp) : (o.step op).1.Inv := by
  obtain ⟨hc, hm⟩ := h
  obtain ⟨hp, hcn⟩ := o.step_core op
  refine ⟨?_, ?_⟩
  · rw [hcn, hp]; exact hc
  · have hnT : (o.step op).1.nT = o.nT := by simp [PObj.nT, hp]
    rw [hnT, hcn]
    rcases o.step_cache op with e | e
    · rw [e]; exact hm
    · exact Or.inr e

theorem PObj.run_inv (o : PObj) (h : o.Inv) (ops : List POp) : (o.run ops).1.Inv := by
  induction ops generalizing o with
  | nil => exact h
  | cons op ops ih => exact ih _ (o.step_inv h op)

theorem PObj.run_core (o : PObj) (ops : List POp) :
    (o.run ops).1.pub = o.pub ∧ (o.run ops).1.counts = o.counts := by
  induction ops generalizing o with
  | nil => exact ⟨rfl, rfl⟩
  | cons op ops ih =>
    simp only [PObj.run]
    obtain ⟨hp, hc⟩ := o.step_core op
    obtain ⟨h1, h2⟩ := ih (o.step op).1
    exact ⟨h1.trans hp, h2.trans hc⟩

theorem PObj.out_of_core (a b : PObj) (ha : a.Inv) (hb : b.Inv) (hc : a.core = b.core) (op : POp) :
    (a.step op).2 = (b.step op).2 := by
  obtain ⟨pa, ca, ma⟩ := a
  obtain ⟨pb, cb, mb⟩ := b
  simp only [PObj.core, Prod.mk.injEq] at hc
  obtain ⟨rfl, rfl⟩ := hc
  have hma := ha.2
  have hmb := hb.2
  simp only [PObj.nT] at hma hmb
  cases op <;> simp only [PObj.step]
  case readMesh =>
    rcases hma with rfl | rfl <;> rcases hmb with rfl | rfl <;> simp [PObj.nT]
  case dataMesh v =>
    split
    · rfl
    · rcases hma with rfl | rfl <;> rcases hmb with rfl | rfl <;> simp [PObj.nT]

end PlotObj
