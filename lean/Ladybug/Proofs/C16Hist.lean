/-
  Lemmas about the design-day object state machine (Model/DesignDayObj.lean): every accepted operation keeps
  what the constructors assert (`Inv`), `construct o = ok o` iff `Inv o`, histories by induction.  Mathlib-free.
-/
import Ladybug.Model.DesignDayObj
import Ladybug.Proofs.C16Idf

namespace DD
open Gen.DD Tok NumVal

set_option linter.unusedSectionVars false
variable {ν : Type} [NumVal ν]

theorem step_cases (o : Obj ν) (op : Op ν) :
    (∃ o', apply o op = .ok o' ∧ step o op = (o', .done)) ∨ (∃ e, step o op = (o, .refused e)) ∨
      step o op = (o, .outside) := by
  unfold step
  by_cases hm : inModel o op = true
  · rw [if_pos hm]
    cases h : apply o op with
    | ok o' => exact Or.inl ⟨o', rfl, rfl⟩
    | error e => exact Or.inr (Or.inl ⟨e, rfl⟩)
  · rw [if_neg hm]; exact Or.inr (Or.inr rfl)

theorem step_refused (o : Obj ν) (op : Op ν) (e : OErr) (h : (step o op).2 = .refused e) : (step o op).1 = o := by
  rcases step_cases o op with ⟨o', _, h2⟩ | ⟨e', h2⟩ | h2 <;> rw [h2] at h ⊢ <;> simp at h ⊢

theorem step_outside (o : Obj ν) (op : Op ν) (h : (step o op).2 = .outside) : (step o op).1 = o := by
  rcases step_cases o op with ⟨o', _, h2⟩ | ⟨e', h2⟩ | h2 <;> rw [h2] at h ⊢ <;> simp at h ⊢

theorem step_read (o : Obj ν) : step o .read = (o, .done) := rfl

theorem numArg_ok {a : Arg ν} {x : ν} (h : numArg a = .ok x) : a = .num x := by
  cases a <;> simp [numArg] at h; rw [h]

theorem guard_ok {b : Bool} {e : OErr} (h : guard' b e = .ok ()) : b = true := by
  unfold guard' at h; split at h <;> simp_all

theorem guard_true (e : OErr) : guard' true e = .ok () := rfl

theorem mkDate_valid {m d : Int} {l : Bool} {x : Cal.D} (h : mkDate m d l = .ok x) : x.valid := by
  unfold mkDate Cal.D.make at h
  by_cases h1 : 1 ≤ m ∧ 1 ≤ d
  · rw [if_pos h1] at h
    simp only [] at h
    by_cases hv : (⟨m.toNat, d.toNat, l⟩ : Cal.D).valid
    · rw [if_pos hv] at h; simp at h; rw [← h]; exact hv
    · rw [if_neg hv] at h; simp at h
  · rw [if_neg h1] at h; simp at h

theorem mkDate_of_valid (x : Cal.D) (hv : x.valid) : mkDate x.month x.day x.leap = .ok x := by
  unfold mkDate Cal.D.make
  have h1 : (1 : Int) ≤ x.month ∧ (1 : Int) ≤ x.day := by
    obtain ⟨a, _, c, _⟩ := hv; omega
  rw [if_pos h1]
  simp only [Int.toNat_natCast]
  rw [if_pos hv]

theorem ite_ok {b : Bool} {e : OErr} {v : Unit}
    (h : (if b = true then (Except.ok () : Except OErr Unit) else Except.error e) = Except.ok v) : b = true := by
  cases b <;> simp at h ⊢

macro "inv_keep " hi:ident : tactic =>
  `(tactic| (refine ⟨?_, ?_, ?_, ?_, ?_, ?_, ?_, ?_⟩ <;>
      first | exact ($hi).dayType | exact ($hi).range | exact ($hi).windDir | exact ($hi).date
            | exact ($hi).clear | exact ($hi).lat | exact ($hi).lon | exact ($hi).tz | skip))

macro "ex_simp " "at " h:ident : tactic =>
  `(tactic| simp only [apply, numArg, strArg, guard', bind, Except.bind, pure, Except.pure, throw, throwThe,
      MonadExceptOf.throw, Except.ok.injEq, reduceCtorEq, mkLoc, mkDryBulb, mkHumidity, mkWind] at $h:ident)

theorem mkKind_clear {k : SkyKind (Arg ν)} {k' : SkyKind ν} (h : mkKind k = .ok k') :
    ∀ c, k' = .clear c → between 0 c (6 / 5) = true := by
  intro c hc
  cases k with
  | base b f => simp [mkKind] at h; rw [← h] at hc; simp at hc
  | clear a =>
    cases a <;> simp [mkKind, numArg, bind, Except.bind] at h
    rename_i x
    by_cases hb : between 0 x (6 / 5) = true
    · simp [guard', hb, pure, Except.pure] at h
      rw [← h] at hc; injection hc with e; rw [← e]; exact hb
    · simp [guard', hb] at h
  | tau b t u =>
    cases b <;> cases t <;> simp [mkKind, numArg, bind, Except.bind, pure, Except.pure] at h
    rw [← h] at hc; simp at hc

theorem mkDryBulb_range {mx rng : Arg ν} {mt ms : String} {c : DryBulb ν}
    (h : mkDryBulb mx rng mt ms = .ok c) : 0 ≤ toRat c.range := by
  cases mx <;> cases rng <;> simp only [mkDryBulb, numArg, bind, Except.bind, pure, Except.pure, reduceCtorEq] at h
  rename_i x y
  by_cases hb : decide (0 ≤ toRat y) = true
  · simp [guard', hb] at h; subst h; exact of_decide_eq_true hb
  · simp [guard', hb] at h

theorem mkWind_dir {ws wd : Arg ν} {c : Wind ν} (h : mkWind ws wd = .ok c) : between 0 c.dir 360 = true := by
  cases ws <;> cases wd <;> simp only [mkWind, numArg, bind, Except.bind, pure, Except.pure, reduceCtorEq] at h
  rename_i x y
  by_cases hb : between 0 y 360 = true
  · simp [guard', hb] at h; subst h; exact hb
  · simp [guard', hb] at h

theorem mkLoc_ok {l l' : Loc ν} (h : mkLoc l = .ok l') :
    between (-90) l'.lat 90 = true ∧ between (-180) l'.lon 180 = true ∧ between (-12) l'.tz 14 = true := by
  unfold mkLoc at h
  simp only [bind, Except.bind, pure, Except.pure] at h
  by_cases h1 : between (-90) l.lat 90 = true <;> simp [guard', h1] at h
  by_cases h2 : between (-180) l.lon 180 = true <;> simp [h2] at h
  by_cases h3 : between (-12) l.tz 14 = true <;> simp [h3] at h
  subst h; exact ⟨h1, h2, h3⟩

theorem apply_inv (o o' : Obj ν) (op : Op ν) (hi : Inv o) (h : apply o op = .ok o') : Inv o' := by
  cases op with
  | read => ex_simp at h; subst h; exact hi
  | setName a => cases a <;> ex_simp at h; subst h; inv_keep hi
  | setDayType a =>
    cases a <;> ex_simp at h
    split at h <;> ex_simp at h
    rename_i hc
    subst h; inv_keep hi
    exact ite_ok hc
  | setDbMax a => cases a <;> ex_simp at h; subst h; inv_keep hi
  | setDbRange a =>
    cases a <;> ex_simp at h
    split at h <;> ex_simp at h
    rename_i hc
    subst h; inv_keep hi
    exact of_decide_eq_true (ite_ok hc)
  | setModType s => ex_simp at h; subst h; inv_keep hi
  | setModSched s => ex_simp at h; subst h; inv_keep hi
  | setHumType a =>
    cases a <;> ex_simp at h
    split at h <;> ex_simp at h
    subst h; inv_keep hi
  | setHumValue a => cases a <;> ex_simp at h; subst h; inv_keep hi
  | setPressure a => cases a <;> ex_simp at h; subst h; inv_keep hi
  | setRain b => ex_simp at h; subst h; inv_keep hi
  | setSnow b => ex_simp at h; subst h; inv_keep hi
  | setHumSched s => ex_simp at h; subst h; inv_keep hi
  | setWbr w => ex_simp at h; subst h; inv_keep hi
  | setWindSpeed a => cases a <;> ex_simp at h; subst h; inv_keep hi
  | setWindDir a =>
    cases a <;> ex_simp at h
    split at h <;> ex_simp at h
    rename_i hc
    subst h; inv_keep hi
    exact ite_ok hc
  | setDate md =>
    cases md with
    | none => ex_simp at h
    | some p =>
      obtain ⟨m, d⟩ := p
      ex_simp at h
      cases hd : mkDate m d false with
      | error e => rw [hd] at h; ex_simp at h
      | ok x =>
        rw [hd] at h; ex_simp at h
        subst h; inv_keep hi
        exact mkDate_valid hd
  | setDst b => ex_simp at h; subst h; inv_keep hi
  | setClearness a =>
    ex_simp at h
    split at h
    · cases a <;> ex_simp at h
      split at h <;> ex_simp at h
      rename_i hc
      subst h; inv_keep hi
      intro c hcc
      injection hcc with e; rw [← e]; exact ite_ok hc
    · ex_simp at h
  | setTauB a =>
    ex_simp at h
    split at h
    · cases a <;> ex_simp at h
      subst h; inv_keep hi
      intro c hcc; simp [Obj.withSky] at hcc
    · ex_simp at h
  | setTauD a =>
    ex_simp at h
    split at h
    · cases a <;> ex_simp at h
      subst h; inv_keep hi
      intro c hcc; simp [Obj.withSky] at hcc
    · ex_simp at h
  | setUse2017 b =>
    ex_simp at h
    split at h
    · ex_simp at h
      subst h; inv_keep hi
      intro c hcc; simp [Obj.withSky] at hcc
    · ex_simp at h
  | setBeam s =>
    ex_simp at h
    split at h
    · ex_simp at h
      subst h; inv_keep hi
      intro c hcc; simp [Obj.withSky] at hcc
    · ex_simp at h; subst h; exact hi
  | setDiff s =>
    ex_simp at h
    split at h
    · ex_simp at h
      subst h; inv_keep hi
      intro c hcc; simp [Obj.withSky] at hcc
    · ex_simp at h; subst h; exact hi
  | setLoc l =>
    cases l with
    | none => ex_simp at h
    | some l =>
      simp only [apply, bind, Except.bind, pure, Except.pure] at h
      cases hc : mkLoc l with
      | error e => rw [hc] at h; ex_simp at h
      | ok l' =>
        rw [hc] at h; ex_simp at h
        obtain ⟨a, b, c⟩ := mkLoc_ok hc
        subst h; inv_keep hi
        · exact a
        · exact b
        · exact c
  | newDb mx rng mt ms =>
    simp only [apply, bind, Except.bind, pure, Except.pure] at h
    cases hc : mkDryBulb mx rng mt ms with
    | error e => rw [hc] at h; ex_simp at h
    | ok c =>
      rw [hc] at h; ex_simp at h
      subst h; inv_keep hi
      exact mkDryBulb_range hc
  | newHum ty v p r sn sc w =>
    simp only [apply, bind, Except.bind, pure, Except.pure] at h
    cases hc : mkHumidity ty v p r sn sc w with
    | error e => rw [hc] at h; ex_simp at h
    | ok c =>
      rw [hc] at h; ex_simp at h
      subst h; inv_keep hi
  | newWind ws wd =>
    simp only [apply, bind, Except.bind, pure, Except.pure] at h
    cases hc : mkWind ws wd with
    | error e => rw [hc] at h; ex_simp at h
    | ok c =>
      rw [hc] at h; ex_simp at h
      subst h; inv_keep hi
      exact mkWind_dir hc
  | newSky s =>
    cases s with
    | none => ex_simp at h
    | some a =>
      ex_simp at h
      simp only [mkSky, bind, Except.bind, pure, Except.pure] at h
      cases hd : mkDate a.month a.day a.leap with
      | error e => rw [hd] at h; ex_simp at h
      | ok x =>
        rw [hd] at h; simp only [] at h
        cases hk : mkKind a.kind with
        | error e => rw [hk] at h; ex_simp at h
        | ok k =>
          rw [hk] at h; ex_simp at h
          subst h; inv_keep hi
          · exact mkDate_valid hd
          · exact mkKind_clear hk

theorem humType_name_roundtrip (t : Psychro.HumType) : humTypeOfName? (humTypeName t) = some t := by
  cases t <;> decide

theorem mkKind_kindArgs (k : SkyKind ν) (h : ∀ c, k = .clear c → between 0 c (6 / 5) = true) :
    mkKind (kindArgs k) = .ok k := by
  cases k with
  | base b f => rfl
  | clear c => simp [kindArgs, mkKind, numArg, bind, Except.bind, guard', h c rfl, pure, Except.pure]
  | tau b t u => rfl

theorem construct_of_inv (o : Obj ν) (hi : Inv o) : construct o = .ok o := by
  unfold construct
  simp only [mkLoc, mkDryBulb, mkHumidity, mkWind, mkSky, numArg, strArg, guard', bind, Except.bind, pure,
    Except.pure, hi.lat, hi.lon, hi.tz, if_true, decide_eq_true hi.range, hi.windDir, humType_name_roundtrip,
    mkDate_of_valid _ hi.date, mkKind_kindArgs _ hi.clear, hi.dayType]

theorem mkDryBulb_num {a b : ν} {mt ms : String} {c : DryBulb ν}
    (h : mkDryBulb (.num a) (.num b) mt ms = .ok c) : 0 ≤ toRat b := by
  simp only [mkDryBulb, numArg, bind, Except.bind, pure, Except.pure] at h
  by_cases hb : decide (0 ≤ toRat b) = true
  · exact of_decide_eq_true hb
  · simp [guard', hb] at h

theorem mkWind_num {a b : ν} {c : Wind ν} (h : mkWind (.num a) (.num b) = .ok c) : between 0 b 360 = true := by
  simp only [mkWind, numArg, bind, Except.bind, pure, Except.pure] at h
  by_cases hb : between 0 b 360 = true
  · exact hb
  · simp [guard', hb] at h

theorem mkLoc_self {l l' : Loc ν} (h : mkLoc l = .ok l') :
    between (-90) l.lat 90 = true ∧ between (-180) l.lon 180 = true ∧ between (-12) l.tz 14 = true := by
  unfold mkLoc at h
  simp only [bind, Except.bind, pure, Except.pure] at h
  by_cases h1 : between (-90) l.lat 90 = true <;> simp [guard', h1] at h
  by_cases h2 : between (-180) l.lon 180 = true <;> simp [h2] at h
  by_cases h3 : between (-12) l.tz 14 = true <;> simp [h3] at h
  exact ⟨h1, h2, h3⟩

theorem mkDate_nat {m d : Nat} {l : Bool} {x : Cal.D} (h : mkDate m d l = .ok x) : (⟨m, d, l⟩ : Cal.D).valid := by
  have hv := mkDate_valid h
  unfold mkDate Cal.D.make at h
  by_cases h1 : (1 : Int) ≤ m ∧ (1 : Int) ≤ d
  · rw [if_pos h1] at h
    simp only [Int.toNat_natCast] at h
    by_cases hv' : (⟨m, d, l⟩ : Cal.D).valid
    · exact hv'
    · rw [if_neg hv'] at h; simp at h
  · rw [if_neg h1] at h; simp at h

theorem mkKind_kindArgs_inv {k k' : SkyKind ν} (h : mkKind (kindArgs k) = .ok k') :
    ∀ c, k = .clear c → between 0 c (6 / 5) = true := by
  intro c hc
  subst hc
  simp only [kindArgs, mkKind, numArg, bind, Except.bind, pure, Except.pure] at h
  by_cases hb : between 0 c (6 / 5) = true
  · exact hb
  · simp [guard', hb] at h

theorem inv_of_construct (o o' : Obj ν) (h : construct o = .ok o') : Inv o := by
  unfold construct at h
  simp only [bind, Except.bind, pure, Except.pure] at h
  cases h1 : mkLoc o.loc with
  | error e => rw [h1] at h; simp at h
  | ok l =>
  rw [h1] at h; simp only [] at h
  cases h2 : mkDryBulb (.num o.dd.db.max) (.num o.dd.db.range) o.dd.db.modType o.dd.db.modSched with
  | error e => rw [h2] at h; simp at h
  | ok db =>
  rw [h2] at h; simp only [] at h
  cases h3 : mkHumidity (.str (humTypeName o.dd.hum.ty)) (.num o.dd.hum.value) (.num o.dd.hum.pressure)
      o.dd.hum.rain o.dd.hum.snow o.dd.hum.schedule o.dd.hum.wetBulbRange with
  | error e => rw [h3] at h; simp at h
  | ok hum =>
  rw [h3] at h; simp only [] at h
  cases h4 : mkWind (.num o.dd.wind.speed) (.num o.dd.wind.dir) with
  | error e => rw [h4] at h; simp at h
  | ok w =>
  rw [h4] at h; simp only [] at h
  cases h5 : mkSky ⟨o.dd.sky.date.month, o.dd.sky.date.day, o.dd.sky.date.leap, o.dd.sky.dst, kindArgs o.dd.sky.kind⟩ with
  | error e => rw [h5] at h; simp at h
  | ok sky =>
  rw [h5] at h; simp only [] at h
  cases h6 : dayTypes.contains o.dd.dayType with
  | false => simp only [guard', h6] at h; simp at h
  | true =>
    obtain ⟨a, b, c⟩ := mkLoc_self h1
    simp only [mkSky, bind, Except.bind, pure, Except.pure] at h5
    cases h7 : mkDate (o.dd.sky.date.month : Int) (o.dd.sky.date.day : Int) o.dd.sky.date.leap with
    | error e => rw [h7] at h5; simp at h5
    | ok x =>
      rw [h7] at h5; simp only [] at h5
      cases h8 : mkKind (kindArgs o.dd.sky.kind) with
      | error e => rw [h8] at h5; simp at h5
      | ok k =>
        exact ⟨h6, mkDryBulb_num h2, mkWind_num h4, mkDate_nat h7, mkKind_kindArgs_inv h8, a, b, c⟩

/-- Every history keeps the invariant. -/
theorem runOps_inv (o : Obj ν) (hi : Inv o) (ops : List (Op ν)) : Inv (runOps o ops) := by
  induction ops generalizing o with
  | nil => exact hi
  | cons op rest ih =>
    unfold runOps
    apply ih
    rcases step_cases o op with ⟨o', ha, h2⟩ | ⟨e, h2⟩ | h2 <;> rw [h2]
    · exact apply_inv o o' op hi ha
    · exact hi
    · exact hi

theorem runOps_append (o : Obj ν) (a b : List (Op ν)) : runOps o (a ++ b) = runOps (runOps o a) b := by
  induction a generalizing o with
  | nil => rfl
  | cons op rest ih => simp only [List.cons_append, runOps]; exact ih _

theorem runOps_reads (o : Obj ν) (rs : List (Op ν)) (h : ∀ r ∈ rs, r = Op.read) : runOps o rs = o := by
  induction rs with
  | nil => rfl
  | cons r rest ih =>
    have hr : r = Op.read := h r (List.mem_cons_self)
    subst hr
    unfold runOps
    rw [step_read]
    exact ih (fun r hr => h r (List.mem_cons_of_mem _ hr))

def Op.isRead : Op ν → Bool
  | .read => true
  | _ => false

theorem runOps_drop_reads (o : Obj ν) (ops : List (Op ν)) :
    runOps o (ops.filter fun op => !op.isRead) = runOps o ops := by
  induction ops generalizing o with
  | nil => rfl
  | cons op rest ih =>
    cases op
    case read => simp only [List.filter, Op.isRead, Bool.not_true, runOps, step_read]; exact ih o
    all_goals (simp only [List.filter, Op.isRead, Bool.not_false, runOps]; exact ih _)

theorem make_of_valid (x : Cal.D) (hv : x.valid) : Cal.D.make x.month x.day x.leap = .ok x := by
  unfold Cal.D.make
  have h1 : (1 : Int) ≤ x.month ∧ (1 : Int) ≤ x.day := by
    obtain ⟨a, _, c, _⟩ := hv; omega
  rw [if_pos h1]
  simp only [Int.toNat_natCast]
  rw [if_pos hv]

/-- A constructed object whose sky is one of the two ASHRAE models, without wet-bulb range, on a date of the
    non-leap year, is writable in the sense of the IDF round-trip theorem. -/
theorem writable_of_inv (o : Obj ν) (hi : Inv o) (hw : o.dd.hum.wetBulbRange = .blank)
    (hl : o.dd.sky.date.leap = false) (hs : o.dd.sky.kind.tag ≠ .base) : Writable o.dd := by
  refine ⟨hi.dayType, hi.range, hi.windDir, ?_, hw, hl, ?_⟩
  · have := make_of_valid _ hi.date
    rw [hl] at this; exact this
  · cases hk : o.dd.sky.kind with
    | base b f => rw [hk] at hs; exact absurd rfl hs
    | clear c => exact hi.clear c hk
    | tau b t u => trivial

end DD
