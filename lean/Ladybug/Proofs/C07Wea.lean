/-
  C07 — the Wea dictionary form as a composition of the Location law, the DateTime arrays and
  constructor idempotence of AnalysisPeriod (Model/Serial/Wea.lean).  No Mathlib.
-/
import Ladybug.Model.Serial.Wea
import Ladybug.Proofs.C07Loc
import Ladybug.Proofs.C07Basic

namespace Codec
open Cal

theorem annual_wf (ts : Nat) (leap : Bool) (h : ts ∈ validTimesteps) : (AP.annual ts leap).wf := by
  refine ⟨?_, ?_, h⟩
  · show (DT.mk 1 1 0 0 leap).valid
    cases leap <;> decide
  · show (DT.mk 12 31 23 0 leap).valid
    cases leap <;> decide

theorem annual?_eq (ts : Nat) (leap : Bool) (h : ts ∈ validTimesteps) :
    AP.annual? ts leap = some (AP.annual ts leap) := AP.make_of_wf _ (annual_wf ts leap h)

/-- An annual Wea (continuous collections over the whole year, any valid timestep, normal or
    leap year): location, both value lists, timestep and leap flag come back; no datetimes are
    written, the reader assumes the annual period and checks the value count against it. -/
theorem WeaC.law_annual : Law WeaC.enc WeaC.rd.dec WeaC.wfAnnual := by
  intro w h
  rcases w with ⟨loc, ap, dni, dhi, times, valid⟩
  obtain ⟨hl, ht, hv, hap, hts, h1, h2, s1, s2⟩ := h
  simp only at hl ht hv hap hts h1 h2 s1 s2
  subst ht hv
  have l1 := Loc.law loc hl
  have e1 := map_jsonRT_stable dni s1
  have e2 := map_jsonRT_stable dhi s2
  have ha := annual?_eq ap.ts ap.leap hts
  rw [← hap] at ha
  have hann : (WeaC.isAnnual ⟨loc, ap, dni, dhi, Option.none, true⟩) = true := by
    rw [hap]; simp [WeaC.isAnnual, AP.isAnnual, AP.annual]
  have h0 : ap.stH = 0 := by rw [hap]; rfl
  have h23 : ap.endH = 23 := by rw [hap]; rfl
  simp only [WeaC.enc, hann, if_true, List.append_nil, jsonRT_dict, kv, List.map_cons, List.map_nil,
    keyStr_str, jsonRT_str, jsonRT_bool, jsonRT_tuple, jsonRT_natV, e1, e2]
  rw [RecDec.dec_dict]
  simp only [WeaC.rd, WeaC.run]
  simp [WeaC.make, tagIs, PyVal.list?, dtListOf, WeaC.period, ha, l1, PyVal.truthy, h0, h23,
    ← h1, h2.trans h1.symm]

theorem head?_map {α β : Type} (f : α → β) (l : List α) : (l.map f).head? = l.head?.map f := by
  cases l <;> rfl

theorem decDts_roundtrip (l : List DT) (h : ∀ d ∈ l, d.valid) :
    decList dtOfArray (l.map (jsonRT ∘ dtArray)) = some l :=
  decList_map _ _ _ (fun a ha => dtOfArray_roundtrip a (h a ha))

/-- A Wea with discontinuous collections (e.g. filtered to part of the day): everything comes
    back *except* that the collections are rebuilt with `validated_a_period = False`. -/
theorem WeaC.read_disc (w : WeaC) (h : w.wfDisc) :
    WeaC.rd.dec (jsonRT w.enc) = some { w with validated := false } := by
  rcases w with ⟨loc, ap, dni, dhi, times, valid⟩
  obtain ⟨hl, hap, hhr, ⟨l, first, last, ht, hf, hla, hall, f1, f2, f3, g1, g2, g3, hlen, n1, n2⟩,
    s1, s2⟩ := h
  simp only at hl hap hhr ht hf hla hall f1 f2 f3 g1 g2 g3 hlen n1 n2 s1 s2
  subst ht
  have l1 := Loc.law loc hl
  have e1 := map_jsonRT_stable dni s1
  have e2 := map_jsonRT_stable dhi s2
  have hfm : first ∈ l := List.mem_of_mem_head? hf
  have hlm : last ∈ l := List.mem_of_getLast? hla
  have ef := dtOfArray_roundtrip first (hall first hfm).1
  have el := dtOfArray_roundtrip last (hall last hlm).1
  have hfl : first.leap = ap.leap := (hall first hfm).2
  have hll : last.leap = ap.leap := (hall last hlm).2
  have hmk := AP.make_of_wf ap hap
  have hds := decDts_roundtrip l (fun d hd => (hall d hd).1)
  have hne : l ≠ [] := by intro e; subst e; simp at hf
  have hnotann : (WeaC.isAnnual ⟨loc, ap, dni, dhi, some l, valid⟩) = false := by
    simp [WeaC.isAnnual]
  have hcont : (ap.stH == 0 && ap.endH == 23) = false := by
    rcases hhr with h | h <;> simp [h]
  simp only [WeaC.enc, hnotann, Bool.false_eq_true, if_false, jsonRT_dict, kv, List.map_cons,
    List.map_nil, List.map_append, keyStr_str, jsonRT_str, jsonRT_bool, jsonRT_tuple, jsonRT_list,
    jsonRT_natV, e1, e2, List.map_map]
  rw [RecDec.dec_dict]
  simp only [WeaC.rd, WeaC.run]
  simp [lookupKV, WeaC.make, tagIs, PyVal.list?, dtListOf, l1, PyVal.truthy]
  have hh : (l.map (jsonRT ∘ dtArray)).head? = some (jsonRT (dtArray first)) := by
    rw [head?_map, hf]; rfl
  have hg : (l.map (jsonRT ∘ dtArray)).getLast? = some (jsonRT (dtArray last)) := by
    rw [List.getLast?_map, hla]; rfl
  simp [WeaC.period, hh, hg, ef, el, withLeap, hfl, hll, f1, f2, f3, g1, g2, g3, hmk, hlen, n1, n2,
    hcont, hds, hne]

/-- Round 5.  A Wea over unflagged discontinuous collections whose steps do not fill the period spanned
    by the first and the last one: the reader falls back to the annual period and takes the datetimes AS
    LISTED - whatever their order.  Full law (the object comes back). -/
theorem WeaC.law_scattered : Law WeaC.enc WeaC.rd.dec WeaC.wfScattered := by
  intro w h
  rcases w with ⟨loc, ap, dni, dhi, times, valid⟩
  obtain ⟨hl, hap, hts, hv, ⟨l, first, last, ht, hf, hla, hall, ⟨sp, hsp, hlen⟩, n1, n2⟩, s1, s2⟩ := h
  simp only at hl hap hts hv ht hf hla hall hsp hlen n1 n2 s1 s2
  subst ht hv
  have l1 := Loc.law loc hl
  have e1 := map_jsonRT_stable dni s1
  have e2 := map_jsonRT_stable dhi s2
  have hfm : first ∈ l := List.mem_of_mem_head? hf
  have hlm : last ∈ l := List.mem_of_getLast? hla
  have ef := dtOfArray_roundtrip first (hall first hfm).1
  have el := dtOfArray_roundtrip last (hall last hlm).1
  have hfl : first.leap = ap.leap := (hall first hfm).2
  have hll : last.leap = ap.leap := (hall last hlm).2
  have ha := annual?_eq ap.ts ap.leap hts
  rw [← hap] at ha
  have hds := decDts_roundtrip l (fun d hd => (hall d hd).1)
  have hne : l ≠ [] := by intro e; subst e; simp at hf
  have hnotann : (WeaC.isAnnual ⟨loc, ap, dni, dhi, some l, false⟩) = false := by
    simp [WeaC.isAnnual]
  simp only [WeaC.enc, hnotann, Bool.false_eq_true, if_false, jsonRT_dict, kv, List.map_cons,
    List.map_nil, List.map_append, keyStr_str, jsonRT_str, jsonRT_bool, jsonRT_tuple, jsonRT_list,
    jsonRT_natV, e1, e2, List.map_map]
  rw [RecDec.dec_dict]
  simp only [WeaC.rd, WeaC.run]
  simp [lookupKV, WeaC.make, tagIs, PyVal.list?, dtListOf, l1, PyVal.truthy]
  have hh : (l.map (jsonRT ∘ dtArray)).head? = some (jsonRT (dtArray first)) := by
    rw [head?_map, hf]; rfl
  have hg : (l.map (jsonRT ∘ dtArray)).getLast? = some (jsonRT (dtArray last)) := by
    rw [List.getLast?_map, hla]; rfl
  simp [WeaC.period, hh, hg, ef, el, withLeap, hfl, hll, hsp, hlen, ha, n1, n2, hds, hne]

end Codec
