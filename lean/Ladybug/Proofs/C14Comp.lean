/-
  C14 helper lemmas, part 4: composite objects (Wea: a Location, two collections, a metadata dict).
  No Mathlib.
-/
import Ladybug.Proofs.C14Any

namespace LbHeap

theorem shareable_back {h0 h1 : Heap} (ext : Ext h0 h1) {r : Nat} (sh : Shareable h1 r) :
    h0.next ≤ r ∨ Shareable h0 r := by
  rcases Nat.lt_or_ge r h0.next with h1' | h1'
  · right
    have := ext.2 r h1'
    rcases sh with ⟨a, e⟩ | ⟨v, e⟩ | ⟨t, e⟩
    · exact Or.inl ⟨a, by rw [← this]; exact e⟩
    · exact Or.inr (Or.inl ⟨v, by rw [← this]; exact e⟩)
    · exact Or.inr (Or.inr ⟨t, by rw [← this]; exact e⟩)
  · exact Or.inl h1'

/-- A successful deriving operation of the fixed code builds a fresh collection. -/
theorem derive_fresh {h h' : Heap} {c r : Nat} {op : DOp} (wf : WF h)
    (e : derive .fixed h c op = .ok (h', r)) : Fresh collFP h h' r := by
  unfold derive at e
  split at e
  · cases e
  · rename_i sp hsp
    have e' : mkColl h sp = (h', r) := Except.ok.inj e
    cases hs : src h c with
    | error x => simp [specOf, hs, bind, Except.bind] at hsp
    | ok s =>
      have fr := mkColl_fresh wf (copying_of_shape hs (specOf_fixed_shape hs hsp))
      rw [e'] at fr
      exact fr

/-- Two collections built one after the other, each fresh when it was built, are separated and both
    made of cells that are new with respect to the first heap. -/
theorem two_fresh {h0 h1 h2 : Heap} {d f : Nat} (wf0 : WF h0)
    (f1 : Fresh collFP h0 h1 d) (f2 : Fresh collFP h1 h2 f) :
    Inv collFP h2 [d, f] ∧ Ext h0 h2 ∧
    (∀ mb ∈ [d, f], ∀ r ∈ owned h2 mb, h0.next ≤ r) ∧
    (∀ mb ∈ [d, f], ∀ r ∈ reads h2 mb, h0.next ≤ r ∨ Shareable h0 r) := by
  have inv1 : Inv collFP h1 [d] := by
    refine ⟨f1.wf, fun c hc => ?_, fun a ha b hb nab => ?_⟩
    · simp only [List.mem_cons, List.not_mem_nil, or_false] at hc; subst hc; exact f1.typed
    · simp only [List.mem_cons, List.not_mem_nil, or_false] at ha hb; exact absurd (ha.trans hb.symm) nab
  have dlt : ∀ b ∈ [d], b < h1.next := by
    intro b hb
    simp only [List.mem_cons, List.not_mem_nil, or_false] at hb; subst hb
    exact reads_lt f1.wf f1.typed b (self_mem_reads f1.typed)
  have inv2 := fresh_inv collFP inv1 dlt f2
  have dd := collFP.ext f1.wf f2.ext f1.typed
  have n01 : h0.next ≤ h1.next := f1.ext.1
  refine ⟨inv2.1, f1.ext.trans f2.ext, fun mb hmb r hr => ?_, fun mb hmb r hr => ?_⟩
  · simp only [List.mem_cons, List.not_mem_nil, or_false] at hmb
    rcases hmb with rfl | rfl
    · exact f1.owned_new r (by rw [← dd.2.2.1]; exact hr)
    · exact Nat.le_trans n01 (f2.owned_new r hr)
  · simp only [List.mem_cons, List.not_mem_nil, or_false] at hmb
    rcases hmb with rfl | rfl
    · exact f1.reads_new r (by rw [← dd.2.1]; exact hr)
    · rcases f2.reads_new r hr with h1' | h1'
      · exact Or.inl (Nat.le_trans n01 h1')
      · exact shareable_back f1.ext h1'

theorem owned_not_comp {h : Heap} {c r : Nat} (ty : Typed h c) (hr : r ∈ owned h c) (x : Comp) :
    h.cells r ≠ some (.comp x) := by
  obtain ⟨k, hd, m, a, v, t, e1, e2, e3, e4, e5, e6, e7⟩ := ty
  rcases (mem_owned e1 e2 e3).1 hr with rfl | rfl | rfl | h1 | ⟨_, rfl⟩
  · rw [e1]; simp
  · rw [e2]; simp
  · rw [e3]; simp
  · obtain ⟨l, hl⟩ := e7 r h1; rw [hl]; simp
  · rw [e5]; simp

theorem coll_ext {h h' : Heap} (wf : WF h) (ext : Ext h h') {c : Nat} (ty : Typed h c) :
    obs h' c = obs h c ∧ reads h' c = reads h c ∧ owned h' c = owned h c ∧ Typed h' c :=
  collFP.ext wf ext ty

/-- A composite assembled around fresh, separated collections is a fresh object. -/
theorem mkComp_fresh {h0 h2 : Heap} {members : List Nat} (ext02 : Ext h0 h2)
    (inv : Inv collFP h2 members)
    (own : ∀ mb ∈ members, ∀ r ∈ owned h2 mb, h0.next ≤ r)
    (rd : ∀ mb ∈ members, ∀ r ∈ reads h2 mb, h0.next ≤ r ∨ Shareable h0 r)
    (kind : Nat) (tags : List Nat) (md : List (Nat × OV)) (shared : List Nat)
    (hsh : ∀ s ∈ shared, (∃ t, h2.cells s = some (.loc t)) ∧ (h0.next ≤ s ∨ Shareable h0 s)) :
    Fresh anyFP h0 (mkComp h2 kind tags shared md members).1 (mkComp h2 kind tags shared md members).2 := by
  obtain ⟨wf2, ty2, sep2⟩ := inv
  simp only [mkComp]
  have M := allocMeta_new_spec wf2 md
  obtain ⟨Mext, Mwf, Mge, mm, Mget, Mn⟩ := M
  have C := alloc_ext (allocMeta h2 (.new md)).1
    (.comp ⟨kind, tags, (allocMeta h2 (.new md)).2, shared, members⟩)
  have Cwf := alloc_wf Mwf (.comp ⟨kind, tags, (allocMeta h2 (.new md)).2, shared, members⟩)
  have Cget := alloc_get (allocMeta h2 (.new md)).1
    (.comp ⟨kind, tags, (allocMeta h2 (.new md)).2, shared, members⟩)
  have e2f := Mext.trans C
  have n02 : h0.next ≤ h2.next := ext02.1
  have nlm : h2.next ≤ (allocMeta h2 (.new md)).1.next := Mext.1
  -- members in the final heap
  have mem := fun mb (hmb : mb ∈ members) => coll_ext wf2 e2f (ty2 mb hmb)
  have c_md := ext_cell Mwf C Mget
  have mra : mdRefsAt ((allocMeta h2 (.new md)).1.alloc
      (.comp ⟨kind, tags, (allocMeta h2 (.new md)).2, shared, members⟩)).1 (allocMeta h2 (.new md)).2
      = mdRefs mm := by simp [mdRefsAt, c_md]
  have rlt : ∀ mb ∈ members, ∀ r ∈ reads h2 mb, r < h2.next := fun mb hmb => reads_lt wf2 (ty2 mb hmb)
  have cty : CompTyped ((allocMeta h2 (.new md)).1.alloc
      (.comp ⟨kind, tags, (allocMeta h2 (.new md)).2, shared, members⟩)).1
      ⟨kind, tags, (allocMeta h2 (.new md)).2, shared, members⟩ := by
    refine ⟨⟨mm, c_md, fun r hr => ?_⟩, fun s hs => ?_, fun mb hmb => (mem mb hmb).2.2.2, ?_, fun mb hmb => ?_⟩
    · obtain ⟨_, l, hl⟩ := Mn r hr; exact ⟨l, ext_cell Mwf C hl⟩
    · obtain ⟨t, ht⟩ := (hsh s hs).1; exact ⟨t, ext_cell wf2 e2f ht⟩
    · intro a ha b hb nab r hr hr'
      change r ∈ owned _ a at hr
      change r ∈ reads _ b at hr'
      rw [(mem a ha).2.2.1] at hr
      rw [(mem b hb).2.1] at hr'
      exact sep2 a ha b hb nab r hr hr'
    · simp only
      rw [(mem mb hmb).2.1, mra]
      refine ⟨fun hr => ?_, fun r hr hr' => ?_⟩
      · have := rlt mb hmb _ hr; omega
      · have := rlt mb hmb _ hr'; have := (Mn r hr).1; omega
  refine ⟨(ext02.trans Mext).trans C, Cwf, ?_, ?_, ?_, ?_⟩
  · show TypedA _ _
    simp only [TypedA, Cget]; exact cty
  · rw [alloc_ref]; omega
  · intro r hr
    change r ∈ ownedA _ _ at hr
    simp only [ownedA, Cget] at hr
    rcases mem_compOwned.1 hr with h1 | h1 | h1 | ⟨mb, hmb, h1⟩
    · rw [h1, alloc_ref]; omega
    · rw [h1]; simp only; omega
    · simp only at h1; rw [mra] at h1; have := (Mn r h1).1; omega
    · simp only at hmb
      rw [(mem mb hmb).2.2.1] at h1
      exact own mb hmb r h1
  · intro r hr
    change r ∈ readsA _ _ at hr
    simp only [readsA, Cget] at hr
    rcases mem_compReads.1 hr with h1 | h1 | h1 | h1 | ⟨mb, hmb, h1⟩
    · left; rw [h1, alloc_ref]; omega
    · left; rw [h1]; simp only; omega
    · left; simp only at h1; rw [mra] at h1; have := (Mn r h1).1; omega
    · simp only at h1
      exact (hsh r h1).2
    · simp only at hmb
      rw [(mem mb hmb).2.1] at h1
      exact rd mb hmb r h1

theorem mkWeaAt_fresh {h0 h2 : Heap} {d f : Nat} (ext02 : Ext h0 h2)
    (inv : Inv collFP h2 [d, f])
    (own : ∀ mb ∈ [d, f], ∀ r ∈ owned h2 mb, h0.next ≤ r)
    (rd : ∀ mb ∈ [d, f], ∀ r ∈ reads h2 mb, h0.next ≤ r ∨ Shareable h0 r)
    (tags : List Nat) (md : List (Nat × OV)) (pl : Heap × Nat)
    (Lext : Ext h2 pl.1) (Lwf : WF pl.1) (lt : List MV) (Lget : pl.1.cells pl.2 = some (.loc lt))
    (Lnew : h0.next ≤ pl.2 ∨ Shareable h0 pl.2) :
    Fresh anyFP h0 (mkWeaAt pl tags md d f).1 (mkWeaAt pl tags md d f).2 := by
  have wf2 := inv.1
  have inv' : Inv collFP pl.1 [d, f] := (ext_inv collFP inv Lext Lwf).1
  have e := fun mb (hmb : mb ∈ [d, f]) => coll_ext wf2 Lext (inv.2.1 mb hmb)
  refine mkComp_fresh (ext02.trans Lext) inv' (fun mb hmb r hr => own mb hmb r (by rw [← (e mb hmb).2.2.1]; exact hr))
    (fun mb hmb r hr => rd mb hmb r (by rw [← (e mb hmb).2.1]; exact hr)) 0 tags md [pl.2] ?_
  intro s hs
  simp only [List.mem_cons, List.not_mem_nil, or_false] at hs
  subst hs
  exact ⟨⟨lt, Lget⟩, Lnew⟩

/-- Assembling a Wea around two fresh, separated collections gives a fresh object. -/
theorem mkWea_fresh {h0 h2 : Heap} {d f : Nat} (wf0 : WF h0) (ext02 : Ext h0 h2)
    (inv : Inv collFP h2 [d, f])
    (own : ∀ mb ∈ [d, f], ∀ r ∈ owned h2 mb, h0.next ≤ r)
    (rd : ∀ mb ∈ [d, f], ∀ r ∈ reads h2 mb, h0.next ≤ r ∨ Shareable h0 r)
    (tags : List Nat) (loc : Sum Ref (List MV))
    (hloc : ∀ r, loc = .inl r → ∃ t, h0.cells r = some (.loc t)) (md : List (Nat × OV)) :
    Fresh anyFP h0 (mkWea h2 tags loc md d f).1 (mkWea h2 tags loc md d f).2 := by
  have wf2 := inv.1
  cases loc with
  | inl r =>
    obtain ⟨t, ht⟩ := hloc r rfl
    simp only [mkWea]
    exact mkWeaAt_fresh ext02 inv own rd tags md (h2, r) (Ext.refl _) wf2 t (ext_cell wf0 ext02 ht)
      (Or.inr (Or.inr (Or.inr ⟨t, ht⟩)))
  | inr t =>
    simp only [mkWea]
    refine mkWeaAt_fresh ext02 inv own rd tags md (h2.alloc (.loc t)) (alloc_ext _ _) (alloc_wf wf2 _) t
      (alloc_get _ _) (Or.inl ?_)
    have : h0.next ≤ h2.next := ext02.1
    exact this

theorem ap_of_typed {h : Heap} {c : Nat} (ty : Typed h c) :
    ∃ ra a, (foot h c).map (·.ap) = some ra ∧ h.cells ra = some (.ap a) := by
  obtain ⟨k, hd, m, a, v, t, e1, e2, e3, e4, _⟩ := ty
  exact ⟨hd.ap, a, by simp [foot_of_typed e1 e2 e3], e4⟩

/-- `Wea.from_dict` & co. build a fresh Wea. -/
theorem weaNew_fresh {h h' : Heap} {w : Nat} (wf : WF h) {loc : List MV} {tags ap dts : List Nat}
    {dni dhi : List Rat} {cont : Bool}
    (e : weaNew h loc tags ap dts dni dhi cont = .ok (h', w)) : Fresh anyFP h h' w := by
  unfold weaNew at e
  simp only at e
  split at e
  · cases e
  have cp1 := build_spec_copying h (if cont then Cls.hc else Cls.hd) true cont 10 7 ap (weaMd loc) dts dni
  have f1 := mkColl_fresh wf cp1
  split at e
  · cases e
  rename_i ra hra
  obtain ⟨ra', a, hra', hcell⟩ := ap_of_typed f1.typed
  rw [hra] at hra'
  cases hra'
  have cp2 : NewSpec.Copying (mkColl h ⟨.new 10 7 (.new ap) (.new (weaMd loc)), newVals true dni, dts, true,
      (if cont then Cls.hc else Cls.hd), cont⟩).1
      ⟨.new 11 7 (.share ra) (.new (weaMd loc)), newVals true dhi, dts, true,
        (if cont then Cls.hc else Cls.hd), cont⟩ := by
    refine ⟨⟨_, _, _, _, rfl, fun r hr => ?_⟩, fun r hr => by simp [newVals] at hr, ?_⟩
    · simp only [ApSrc.share.injEq] at hr; subst hr; exact ⟨a, hcell⟩
    · intro v t hv hb
      simp only [newVals, ValSrc.new.injEq] at hv
      rw [← hv.2]; rfl
  have f2 := mkColl_fresh f1.wf cp2
  obtain ⟨inv, ext02, own, rd⟩ := two_fresh wf f1 f2
  have e' := Except.ok.inj e
  have fr := mkWea_fresh wf ext02 inv own rd tags (.inr loc) (fun r hr => by cases hr) (weaMd loc)
  rw [e'] at fr
  exact fr

/-- `Wea.duplicate()` builds a fresh Wea. -/
theorem weaDup_fresh {h h' : Heap} {w w' : Nat} (wf : WF h) (e : weaDup h w = .ok (h', w')) :
    Fresh anyFP h h' w' := by
  unfold weaDup at e
  repeat' (split at e)
  all_goals try (cases e; done)
  rename_i h1 d' e1 _ h2 f' e2
  have f1 := derive_fresh wf e1
  have f2 := derive_fresh f1.wf e2
  obtain ⟨inv, ext02, own, rd⟩ := two_fresh wf f1 f2
  have e' := Except.ok.inj e
  have h1' := congrArg Prod.fst e'
  have h2' := congrArg Prod.snd e'
  simp only at h1' h2'
  subst h1' h2'
  exact mkWea_fresh wf ext02 inv own rd _ _ (fun r hr => by cases hr) _

theorem copying_withAp {h : Heap} {sp : NewSpec} (cp : sp.Copying h) (o : Option Nat)
    (ho : ∀ ra, o = some ra → ∃ a, h.cells ra = some (.ap a)) : (sp.withAp o).Copying h := by
  cases o with
  | none => exact cp
  | some ra =>
    obtain ⟨⟨dt, u, ap, m, hh, _⟩, hv, hn⟩ := cp
    simp only [NewSpec.withAp, hh]
    refine ⟨⟨dt, u, .share ra, m, rfl, fun r hr => ?_⟩, hv, hn⟩
    simp only [ApSrc.share.injEq] at hr; subst hr; exact ho _ rfl

theorem getLoc_some {h : Heap} {l : Nat} {t : List MV} (e : getLoc h l = some t) :
    h.cells l = some (.loc t) := by
  unfold getLoc at e
  split at e
  · rename_i t' ht; cases e; exact ht
  · cases e

/-- `Wea.filter_by_*` builds a fresh Wea (which looks at the same Location object). -/
theorem weaFilter_fresh {h h' : Heap} {w w' : Nat} {op : DOp} (wf : WF h)
    (e : weaFilter h w op = .ok (h', w')) : Fresh anyFP h h' w' := by
  unfold weaFilter at e
  split at e
  · rename_i tags md l d f hcomp
    split at e
    · rename_i t hloc
      split at e
      · cases e
      · rename_i h1 d' e1
        simp only at e
        split at e
        · cases e
        · rename_i sp hsp
          have f1 := derive_fresh wf e1
          cases hs : src h1 f with
          | error x => simp [specOf, hs, bind, Except.bind] at hsp
          | ok s =>
            have cp := copying_of_shape hs (specOf_fixed_shape hs hsp)
            obtain ⟨ra', a, hra', hcell⟩ := ap_of_typed f1.typed
            have cp' := copying_withAp cp (filterApRef h1 d' op)
              (by
                intro ra hra
                cases op <;> simp only [filterApRef] at hra <;> try (cases hra; done)
                rw [hra'] at hra; cases hra; exact ⟨a, hcell⟩)
            have f2 := mkColl_fresh f1.wf cp'
            obtain ⟨inv, ext02, own, rd⟩ := two_fresh wf f1 f2
            have e' := Except.ok.inj e
            have fr := mkWea_fresh wf ext02 inv own rd [tags.getD 0 1, tags.getD 1 0, 0] (.inl l)
              (fun r hr => by cases hr; exact ⟨t, getLoc_some hloc⟩) (weaMd t)
            rw [e'] at fr
            exact fr
    · cases e
  · cases e

/-- A collection derived from a Wea is a fresh collection. -/
theorem weaDerived_fresh {h h' : Heap} {w r : Nat} {dt : Nat} {sh : Bool} {vals : List Rat} (wf : WF h)
    (e : weaDerived h w dt sh vals = .ok (h', r)) : Fresh collFP h h' r := by
  unfold weaDerived at e
  split at e
  · split at e
    · rename_i s m hs hm
      split at e
      · cases e
      · obtain ⟨_, _, _, e4, _, _⟩ := src_ok hs
        have cp : NewSpec.Copying h ⟨.new dt 7 (if sh then .share s.hd.ap else .new s.ap)
            (.new (obsMeta h.cells m)), newVals true vals, s.k.dts, true, s.k.cls, s.k.cls = .hc⟩ := by
          refine ⟨⟨_, _, _, _, rfl, fun r hr => ?_⟩, fun r hr => by simp [newVals] at hr, ?_⟩
          · cases sh
            · simp at hr
            · simp only [if_true, ApSrc.share.injEq] at hr; subst hr; exact ⟨_, e4⟩
          · intro v t hv _
            simp only [newVals, ValSrc.new.injEq] at hv
            rw [← hv.2]; rfl
        have fr := mkColl_fresh wf cp
        have e' := Except.ok.inj e
        rw [e'] at fr
        exact fr
    · cases e
  · cases e

theorem getComp_some {h : Heap} {w : Nat} {x : Comp} (e : getComp h w = some x) :
    h.cells w = some (.comp x) := by
  unfold getComp at e
  split at e
  · rename_i x' hx; cases e; exact hx
  · cases e

/-- A mutator applied to one member collection of a composite object is a local step on the composite:
    the sibling collections, the composite's own cell, metadata and Location and every other object are
    untouched. -/
theorem member_step {h h' : Heap} {w mb : Nat} {x : Comp} {m0 : Mode} {op : MOp} (wf : WF h)
    (hk : h.cells w = some (.comp x)) (cty : CompTyped h x) (hmb : mb ∈ x.members)
    (e : mutate m0 h mb op = .ok h') :
    Local anyFP h h' w ∧ h'.cells w = some (.comp x) ∧
    (∀ b ∈ x.members, b ≠ mb → obs h' b = obs h b) ∧ h'.cells x.md = h.cells x.md ∧
    (∀ r ∈ mdRefsAt h x.md, h'.cells r = h.cells r) ∧ (∀ s ∈ x.shared, h'.cells s = h.cells s) ∧
    Local collFP h h' mb ∧ CompTyped h' x := by
  obtain ⟨⟨m, hm, hn⟩, hsh, hmem, hsep, hmd⟩ := cty
  have L := mutate_local wf (hmem mb hmb) e
  have mra : mdRefsAt h x.md = mdRefs m := by simp [mdRefsAt, hm]
  -- what is outside the member's own cells is unchanged
  have keep : ∀ r, r < h.next → r ∉ owned h mb → h'.cells r = h.cells r := L.frame
  have k_w : h'.cells w = some (.comp x) := by
    rw [keep w (lt_next_of_some wf hk) (fun ho => owned_not_comp (hmem mb hmb) ho x hk)]; exact hk
  have k_md0 : h'.cells x.md = h.cells x.md :=
    keep x.md (lt_next_of_some wf hm) (fun ho => (hmd mb hmb).1 (owned_sub_reads _ ho))
  have k_md : h'.cells x.md = some (.md m) := by rw [k_md0]; exact hm
  have k_n : ∀ r ∈ mdRefs m, h'.cells r = h.cells r := by
    intro r hr
    obtain ⟨l, hl⟩ := hn r hr
    exact keep r (lt_next_of_some wf hl)
      (fun ho => (hmd mb hmb).2 r (by rw [mra]; exact hr) (owned_sub_reads _ ho))
  have k_s : ∀ s ∈ x.shared, h'.cells s = h.cells s := by
    intro s hs
    obtain ⟨t, ht⟩ := hsh s hs
    exact keep s (lt_next_of_some wf ht)
      (fun ho => owned_kind (hmem mb hmb) s ho (Or.inr (Or.inr ⟨t, ht⟩)))
  have mra' : mdRefsAt h' x.md = mdRefs m := by simp [mdRefsAt, k_md]
  -- the sibling collections
  have sib : ∀ b ∈ x.members, b ≠ mb → obs h' b = obs h b ∧ reads h' b = reads h b ∧
      owned h' b = owned h b ∧ Typed h' b := by
    intro b hb ne
    refine obs_congr (hmem b hb) fun r hr => ?_
    exact keep r (reads_lt wf (hmem b hb) r hr) (fun ho => hsep mb hmb b hb (Ne.symm ne) r ho hr)
  have invm := (local_inv collFP ⟨wf, hmem, hsep⟩ hmb L).1
  have cty' : CompTyped h' x := by
    refine ⟨⟨m, k_md, fun r hr => ?_⟩, fun s hs => ?_, invm.2.1, invm.2.2, fun b hb => ?_⟩
    · obtain ⟨l, hl⟩ := hn r hr; exact ⟨l, by rw [k_n r hr]; exact hl⟩
    · obtain ⟨t, ht⟩ := hsh s hs; exact ⟨t, by rw [k_s s hs]; exact ht⟩
    · rw [mra']
      by_cases eb : b = mb
      · subst eb
        refine ⟨fun hr => ?_, fun r hr hr' => ?_⟩
        · rcases L.reads_sub _ hr with h1 | h1
          · exact (hmd b hb).1 h1
          · have := lt_next_of_some wf hm; omega
        · rcases L.reads_sub _ hr' with h1 | h1
          · exact (hmd b hb).2 r (by rw [mra]; exact hr) h1
          · obtain ⟨l, hl⟩ := hn r hr
            have := lt_next_of_some wf hl; omega
      · rw [(sib b hb eb).2.1]
        have := hmd b hb
        rw [mra] at this
        exact this
  have A : readsA h w = compReads h w x ∧ ownedA h w = compOwned h w x := by
    simp [readsA, ownedA, hk]
  have A' : readsA h' w = compReads h' w x ∧ ownedA h' w = compOwned h' w x := by
    simp [readsA, ownedA, k_w]
  refine ⟨⟨L.wf, ?_, ?_, ?_, ?_⟩, k_w, fun b hb ne => (sib b hb ne).1, k_md0,
    fun r hr => k_n r (by rw [← mra]; exact hr), k_s, L, cty'⟩
  · intro r hr ho
    apply keep r hr
    intro ho'
    apply ho
    change r ∈ ownedA h w
    rw [A.2]
    exact mem_compOwned.2 (Or.inr (Or.inr (Or.inr ⟨mb, hmb, ho'⟩)))
  · show TypedA h' w
    simp only [TypedA, k_w]; exact cty'
  · intro r hr
    change r ∈ ownedA h' w at hr
    rw [A'.2] at hr
    show r ∈ ownedA h w ∨ h.next ≤ r
    rw [A.2]
    rcases mem_compOwned.1 hr with h1 | h1 | h1 | ⟨b, hb, h1⟩
    · exact Or.inl (mem_compOwned.2 (Or.inl h1))
    · exact Or.inl (mem_compOwned.2 (Or.inr (Or.inl h1)))
    · rw [mra'] at h1
      exact Or.inl (mem_compOwned.2 (Or.inr (Or.inr (Or.inl (by rw [mra]; exact h1)))))
    · by_cases eb : b = mb
      · subst eb
        rcases L.owned_sub r h1 with h2 | h2
        · exact Or.inl (mem_compOwned.2 (Or.inr (Or.inr (Or.inr ⟨b, hb, h2⟩))))
        · exact Or.inr h2
      · rw [(sib b hb eb).2.2.1] at h1
        exact Or.inl (mem_compOwned.2 (Or.inr (Or.inr (Or.inr ⟨b, hb, h1⟩))))
  · intro r hr
    change r ∈ readsA h' w at hr
    rw [A'.1] at hr
    show r ∈ readsA h w ∨ h.next ≤ r
    rw [A.1]
    rcases mem_compReads.1 hr with h1 | h1 | h1 | h1 | ⟨b, hb, h1⟩
    · exact Or.inl (mem_compReads.2 (Or.inl h1))
    · exact Or.inl (mem_compReads.2 (Or.inr (Or.inl h1)))
    · rw [mra'] at h1
      exact Or.inl (mem_compReads.2 (Or.inr (Or.inr (Or.inl (by rw [mra]; exact h1)))))
    · exact Or.inl (mem_compReads.2 (Or.inr (Or.inr (Or.inr (Or.inl h1)))))
    · by_cases eb : b = mb
      · subst eb
        rcases L.reads_sub r h1 with h2 | h2
        · exact Or.inl (mem_compReads.2 (Or.inr (Or.inr (Or.inr (Or.inr ⟨b, hb, h2⟩)))))
        · exact Or.inr h2
      · rw [(sib b hb eb).2.1] at h1
        exact Or.inl (mem_compReads.2 (Or.inr (Or.inr (Or.inr (Or.inr ⟨b, hb, h1⟩)))))

theorem compMember_local {h h' : Heap} {w i : Nat} {op : MOp} (wf : WF h) (ty : TypedA h w)
    (e : compMember h w i op = .ok h') : Local anyFP h h' w := by
  unfold compMember at e
  split at e
  · rename_i x hx
    have hk := getComp_some hx
    split at e
    · rename_i mb hmb'
      have cty : CompTyped h x := by simpa only [TypedA, hk] using ty
      exact (member_step wf hk cty (List.mem_of_getElem? hmb') e).1
    · cases e
  · cases e

/-- `wea.metadata[k] = v` is a local step on the Wea. -/
theorem compMetaSet_local {h h' : Heap} {w k : Nat} {v : MV} (wf : WF h) (ty : TypedA h w)
    (e : compMetaSet h w k v = .ok h') : Local anyFP h h' w := by
  unfold compMetaSet at e
  split at e
  · rename_i x hx
    have hk := getComp_some hx
    split at e
    · rename_i m hm
      have e' := (Except.ok.inj e).symm
      subst e'
      have cty : CompTyped h x := by simpa only [TypedA, hk] using ty
      obtain ⟨⟨m0, hm0, hn⟩, hsh, hmem, hsep, hmd⟩ := cty
      rw [hm] at hm0; cases hm0
      have mra : mdRefsAt h x.md = mdRefs m := by simp [mdRefsAt, hm]
      have nw : w ≠ x.md := ne_of_kind hk hm (by simp)
      have keep : ∀ r, r ≠ x.md → (h.write x.md (.md (metaSet m k (.tok v)))).cells r = h.cells r :=
        fun r hr => write_other h _ hr
      have k_w := (keep w nw).trans hk
      have k_md := write_same h x.md (.md (metaSet m k (.tok v)))
      have sub : ∀ r ∈ mdRefs (metaSet m k (MVal.tok v)), r ∈ mdRefs m := by
        intro r hr
        rcases mdRefs_metaSet_sub hr with h1 | h1
        · exact h1
        · cases h1
      have mra' : mdRefsAt (h.write x.md (.md (metaSet m k (.tok v)))) x.md
          = mdRefs (metaSet m k (MVal.tok v)) := by simp [mdRefsAt, k_md]
      have memb : ∀ b ∈ x.members, obs (h.write x.md (.md (metaSet m k (.tok v)))) b = obs h b ∧
          reads (h.write x.md (.md (metaSet m k (.tok v)))) b = reads h b ∧
          owned (h.write x.md (.md (metaSet m k (.tok v)))) b = owned h b ∧
          Typed (h.write x.md (.md (metaSet m k (.tok v)))) b := by
        intro b hb
        refine obs_congr (hmem b hb) fun r hr => keep r (fun e' => (hmd b hb).1 (e' ▸ hr))
      have A : readsA h w = compReads h w x ∧ ownedA h w = compOwned h w x := by
        simp [readsA, ownedA, hk]
      refine ⟨write_wf wf _ (lt_next_of_some wf hm), ?_, ?_, ?_, ?_⟩
      · intro r _ ho
        apply keep
        intro e'
        apply ho
        change r ∈ ownedA h w
        rw [A.2, e']
        exact mem_compOwned.2 (Or.inr (Or.inl rfl))
      · show TypedA _ w
        simp only [TypedA, k_w]
        refine ⟨⟨_, k_md, fun r hr => ?_⟩, fun s hs => ?_, fun b hb => (memb b hb).2.2.2, ?_, fun b hb => ?_⟩
        · obtain ⟨l, hl⟩ := hn r (sub r hr)
          have : r ≠ x.md := ne_of_kind hl hm (by simp)
          exact ⟨l, by rw [keep r this]; exact hl⟩
        · obtain ⟨t, ht⟩ := hsh s hs
          have : s ≠ x.md := ne_of_kind ht hm (by simp)
          exact ⟨t, by rw [keep s this]; exact ht⟩
        · intro a ha b hb nab r hr hr'
          change r ∈ owned _ a at hr
          change r ∈ reads _ b at hr'
          rw [(memb a ha).2.2.1] at hr
          rw [(memb b hb).2.1] at hr'
          exact hsep a ha b hb nab r hr hr'
        · rw [(memb b hb).2.1, mra']
          refine ⟨(hmd b hb).1, fun r hr => ?_⟩
          exact (hmd b hb).2 r (by rw [mra]; exact sub r hr)
      · intro r hr
        change r ∈ ownedA _ w at hr
        simp only [ownedA, k_w] at hr
        left
        change r ∈ ownedA h w
        rw [A.2]
        rcases mem_compOwned.1 hr with h1 | h1 | h1 | ⟨b, hb, h1⟩
        · exact mem_compOwned.2 (Or.inl h1)
        · exact mem_compOwned.2 (Or.inr (Or.inl h1))
        · rw [mra'] at h1
          exact mem_compOwned.2 (Or.inr (Or.inr (Or.inl (by rw [mra]; exact sub r h1))))
        · rw [(memb b hb).2.2.1] at h1
          exact mem_compOwned.2 (Or.inr (Or.inr (Or.inr ⟨b, hb, h1⟩)))
      · intro r hr
        change r ∈ readsA _ w at hr
        simp only [readsA, k_w] at hr
        left
        change r ∈ readsA h w
        rw [A.1]
        rcases mem_compReads.1 hr with h1 | h1 | h1 | h1 | ⟨b, hb, h1⟩
        · exact mem_compReads.2 (Or.inl h1)
        · exact mem_compReads.2 (Or.inr (Or.inl h1))
        · rw [mra'] at h1
          exact mem_compReads.2 (Or.inr (Or.inr (Or.inl (by rw [mra]; exact sub r h1))))
        · exact mem_compReads.2 (Or.inr (Or.inr (Or.inr (Or.inl h1))))
        · rw [(memb b hb).2.1] at h1
          exact mem_compReads.2 (Or.inr (Or.inr (Or.inr (Or.inr ⟨b, hb, h1⟩))))
    · cases e
  · cases e

end LbHeap
