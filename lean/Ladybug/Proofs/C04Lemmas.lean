/-
  Helper lemmas for C04 (analysis-period enumeration).  No Mathlib.
  Recipe: pure `Nat` facts about grids with a symbolic step, induction on the enumeration loop,
  then a case split over the 12 valid timesteps so that `omega` sees literal steps.
-/
import Ladybug.Model.AP
import Ladybug.Props.C08

open Cal

namespace AP

/-! ### Timesteps -/

theorem ts_cases {n : Nat} (h : n ∈ Gen.Ap.validTimesteps) :
    n = 1 ∨ n = 2 ∨ n = 3 ∨ n = 4 ∨ n = 5 ∨ n = 6 ∨ n = 10 ∨ n = 12 ∨ n = 15 ∨ n = 20 ∨ n = 30 ∨ n = 60 := by
  simpa [Gen.Ap.validTimesteps] using h

theorem step_pos (ap : AP) (h : ap.timestep ∈ Gen.Ap.validTimesteps) : 0 < ap.step := by
  rcases ts_cases h with h | h | h | h | h | h | h | h | h | h | h | h <;> simp [step, h]

/-! ### Grid facts with a symbolic step -/

theorem grid_step (S c m f : Nat) (hS : 0 < S) :
    (c + S ≤ m ∧ (m - (c + S)) % S = 0 ∧ (m - (c + S)) / S < f) ↔
      (c < m ∧ (m - c) % S = 0 ∧ (m - c) / S < f + 1) := by
  constructor
  · rintro ⟨h1, h2, h3⟩
    have e : m - c = (m - (c + S)) + S := by omega
    refine ⟨by omega, ?_, ?_⟩
    · rw [e, Nat.add_mod_right]; exact h2
    · rw [e, Nat.add_div_right _ hS]; omega
  · rintro ⟨h1, h2, h3⟩
    have hle : S ≤ m - c := Nat.le_of_dvd (by omega) (Nat.dvd_of_mod_eq_zero h2)
    have e : m - c = (m - (c + S)) + S := by omega
    refine ⟨by omega, ?_, ?_⟩
    · rw [e, Nat.add_mod_right] at h2; exact h2
    · rw [e, Nat.add_div_right _ hS] at h3; omega

theorem mem_trail (en S n m : Nat) (hS : 0 < S) :
    (∃ k, k < n ∧ en + (k + 1) * S = m) ↔ en < m ∧ (m - en) % S = 0 ∧ (m - en) / S ≤ n := by
  constructor
  · rintro ⟨k, hk, rfl⟩
    have e : en + (k + 1) * S - en = (k + 1) * S := by omega
    have hpos : 0 < (k + 1) * S := Nat.mul_pos (by omega) hS
    refine ⟨by omega, ?_, ?_⟩
    · rw [e, Nat.mul_mod_left]
    · rw [e, Nat.mul_div_cancel _ hS]; omega
  · rintro ⟨h1, h2, h3⟩
    have hd : S * ((m - en) / S) = m - en := Nat.mul_div_cancel' (Nat.dvd_of_mod_eq_zero h2)
    have hq : 0 < (m - en) / S := by
      rcases Nat.eq_zero_or_pos ((m - en) / S) with h0 | h0
      · rw [h0] at hd; omega
      · exact h0
    refine ⟨(m - en) / S - 1, by omega, ?_⟩
    have : (m - en) / S - 1 + 1 = (m - en) / S := by omega
    rw [this, Nat.mul_comm, hd]; omega

/-! ### The loop -/

theorem mem_loop (ap : AP) (en : Nat) (hS : 0 < ap.step) (fuel : Nat) : ∀ curr m,
    m ∈ ap.loop en fuel curr ↔
      curr ≤ m ∧ m ≤ en ∧ (m - curr) % ap.step = 0 ∧ (m - curr) / ap.step < fuel ∧
        ap.possibleMod (m % 1440) = true := by
  induction fuel with
  | zero => intro curr m; simp [loop]
  | succ f ih =>
    intro curr m
    unfold loop
    by_cases hc : curr ≤ en
    · have key := grid_step ap.step curr m f hS
      have h0 : (curr - curr) % ap.step = 0 ∧ (curr - curr) / ap.step < f + 1 := by simp
      by_cases hp : ap.possibleMod (curr % 1440) = true
      · simp only [hc, hp, if_true, List.mem_cons, ih]
        constructor
        · rintro (rfl | ⟨h1, h2, h3, h4, h5⟩)
          · exact ⟨Nat.le_refl _, hc, h0.1, h0.2, hp⟩
          · have := key.mp ⟨h1, h3, h4⟩
            exact ⟨by omega, h2, this.2.1, this.2.2, h5⟩
        · rintro ⟨h1, h2, h3, h4, h5⟩
          by_cases he : m = curr
          · exact Or.inl he
          · have := key.mpr ⟨by omega, h3, h4⟩
            exact Or.inr ⟨this.1, h2, this.2.1, this.2.2, h5⟩
      · simp only [hc, hp, if_true, Bool.false_eq_true, if_false, ih]
        constructor
        · rintro ⟨h1, h2, h3, h4, h5⟩
          have := key.mp ⟨h1, h3, h4⟩
          exact ⟨by omega, h2, this.2.1, this.2.2, h5⟩
        · rintro ⟨h1, h2, h3, h4, h5⟩
          have he : m ≠ curr := by
            intro he; rw [he] at h5; exact hp h5
          have := key.mpr ⟨by omega, h3, h4⟩
          exact ⟨this.1, h2, this.2.1, this.2.2, h5⟩
    · simp only [hc, if_false, List.not_mem_nil, false_iff]
      rintro ⟨h1, h2, _⟩
      omega

theorem loop_sorted (ap : AP) (en : Nat) (hS : 0 < ap.step) (fuel : Nat) : ∀ curr,
    (ap.loop en fuel curr).Pairwise (· < ·) := by
  induction fuel with
  | zero => intro curr; simp [loop]
  | succ f ih =>
    intro curr
    unfold loop
    by_cases hc : curr ≤ en
    · by_cases hp : ap.possibleMod (curr % 1440) = true
      · simp only [hc, hp, if_true, List.pairwise_cons]
        refine ⟨?_, ih _⟩
        intro m hm
        have := (mem_loop ap en hS f (curr + ap.step) m).mp hm
        omega
      · simp only [hc, hp, if_true, Bool.false_eq_true, if_false]
        exact ih _
    · simp [hc]

/-! ### The hour window -/

theorem possibleMod_iff (ap : AP) (hs : ap.st_hour ≤ 23) (he : ap.end_hour ≤ 23) (mod : Nat)
    (hm : mod < 1440) : ap.possibleMod mod = true ↔ ap.inWindow mod := by
  unfold possibleMod possible0 windowChk isOvernight inWindow
  by_cases hov : ap.end_hour < ap.st_hour
  · have h2 : ¬ ap.st_hour ≤ ap.end_hour := by omega
    simp only [hov, h2, decide_true, Bool.true_eq_false, if_false, decide_eq_true_eq]
    split <;> simp only [decide_eq_true_eq] <;> omega
  · have h2 : ap.st_hour ≤ ap.end_hour := by omega
    simp only [hov, h2, decide_false, if_true, decide_eq_true_eq]
    split <;> simp only [decide_eq_true_eq] <;> omega

theorem possible0_iff (ap : AP) (hs : ap.st_hour ≤ 23) (he : ap.end_hour ≤ 23) :
    ap.possible0 = true ↔ ap.inWindow 0 := by
  rw [← possibleMod_iff ap hs he 0 (by omega)]
  unfold possibleMod
  simp [possible0]

/-! ### One segment -/

theorem ts_facts (ap : AP) (hts : ap.timestep ∈ Gen.Ap.validTimesteps) (a b : Nat)
    (ha : a % 60 = 0) (hab : a ≤ b) :
    ((b - a) % ap.step = 0 ↔ b % ap.step = 0) ∧
    (b % 60 = 0 → a + ((b - a) / ap.step + 1) * ap.step = b + ap.step) ∧
    ((b - a) % ap.step = 0 → ((b - a) / ap.step ≤ ap.timestep - 1 ↔ b - a < 60)) ∧
    (ap.timestep ≠ 1 → ap.step < 60) ∧ (ap.timestep = 1 → ap.step = 60) ∧
    ap.timestep * ap.step = 60 := by
  obtain ⟨sm, sd, sh, em, ed, eh, ts, leap⟩ := ap
  simp only [step] at *
  rcases ts_cases hts with rfl | rfl | rfl | rfl | rfl | rfl | rfl | rfl | rfl | rfl | rfl | rfl <;>
    simp only [Nat.reduceDiv] <;> refine ⟨by omega, by omega, by omega, by decide, by decide, by decide⟩

theorem mem_trailing (ap : AP) (hs : ap.st_hour ≤ 23) (he : ap.end_hour ≤ 23) (hS : 0 < ap.step)
    (st en m : Nat) :
    m ∈ ap.trailing st en ↔
      (ap.timestep ≠ 1 ∧ ap.currAfter st en / 60 % 24 = 23 ∧ ap.inWindow 0 ∧ ap.inWindow 1380) ∧
        en < m ∧ (m - en) % ap.step = 0 ∧ (m - en) / ap.step ≤ ap.timestep - 1 := by
  have hp0 := possible0_iff ap hs he
  have hp23 := possibleMod_iff ap hs he (23 * 60) (by omega)
  unfold trailing
  split
  · rename_i hC
    simp only [List.mem_map, List.mem_range]
    rw [mem_trail _ _ _ _ hS]
    rw [hp0, hp23] at hC
    simp [hC]
  · rename_i hC
    simp only [List.not_mem_nil, false_iff]
    rintro ⟨⟨h1, h2, h3, h4⟩, _⟩
    exact hC ⟨h1, h2, hp0.mpr h3, hp23.mpr h4⟩

theorem win_trail (ap : AP) (_hs : ap.st_hour ≤ 23) (he : ap.end_hour ≤ 23) (g : Nat) (h0 : 0 < g)
    (h1 : g < 60) : ap.inWindow (23 * 60 + g) ↔ ap.inWindow 0 ∧ ap.inWindow 1380 := by
  unfold inWindow
  split <;> omega

theorem win_after_end (ap : AP) (_hs : ap.st_hour ≤ 23) (he : ap.end_hour ≤ 23) (g : Nat) (h0 : 0 < g)
    (h1 : g < 60) (h : ap.inWindow (ap.end_hour * 60 + g)) : ap.end_hour = 23 := by
  unfold inWindow at h
  split at h <;> omega

theorem mem_segment (ap : AP) (hwf : ap.WF) (st en : Nat) (hst : st % 60 = 0) (hen : en % 60 = 0)
    (hle : st ≤ en) (hh : en / 60 % 24 = 23 ∨ en / 60 % 24 = ap.end_hour) (m : Nat) :
    m ∈ ap.segment st en ↔
      st ≤ m ∧ m < en + 60 ∧ m % ap.step = 0 ∧ ap.inWindow (m % 1440) := by
  obtain ⟨hv1, hv2, hts⟩ := hwf
  have hs : ap.st_hour ≤ 23 := hv1.2.2.2.2.1
  have he : ap.end_hour ≤ 23 := hv2.2.2.2.2.1
  have hS := step_pos ap hts
  have hpm := possibleMod_iff ap hs he (m % 1440) (by omega)
  unfold segment
  rw [List.mem_append, mem_loop ap en hS, mem_trailing ap hs he hS, hpm]
  by_cases hm : m ≤ en
  · by_cases hsm : st ≤ m
    · have hdiv : (m - st) / ap.step ≤ m - st := Nat.div_le_self _ _
      have hg := (ts_facts ap hts st m hst hsm).1
      rw [hg]
      constructor
      · rintro (⟨_, _, h3, _, h5⟩ | ⟨_, h, _⟩)
        · exact ⟨hsm, by omega, h3, h5⟩
        · omega
      · rintro ⟨_, _, h3, h4⟩
        exact Or.inl ⟨hsm, hm, h3, by omega, h4⟩
    · constructor
      · rintro (⟨h, _⟩ | ⟨_, h, _⟩) <;> omega
      · rintro ⟨h, _⟩; omega
  · have hem : en ≤ m := by omega
    obtain ⟨f1, _, f3, f4, f5, _⟩ := ts_facts ap hts en m hen hem
    have f2 := (ts_facts ap hts st en hst hle).2.1 hen
    have hca : ap.currAfter st en = en + ap.step := by
      unfold currAfter; rw [if_pos hle]; exact f2
    rw [hca, f1]
    by_cases hts1 : ap.timestep = 1
    · have := f5 hts1
      constructor
      · rintro (⟨_, h, _⟩ | ⟨⟨h, _⟩, _⟩)
        · omega
        · exact absurd hts1 h
      · rintro ⟨_, h2, h3, _⟩
        rw [this] at h3; omega
    · have hlt := f4 hts1
      have hH : (en + ap.step) / 60 % 24 = en / 60 % 24 := by omega
      rw [hH]
      -- the time of day of `m` is `H:gg` with H the hour of `en`
      have hmod : m < en + 60 → m % 1440 = en / 60 % 24 * 60 + (m - en) := by omega
      constructor
      · rintro (⟨_, h, _⟩ | ⟨⟨_, h23, hw0, hw23⟩, h1, h2, h3⟩)
        · omega
        · have hlt60 : m - en < 60 := (f3 (f1.mpr h2)).mp h3
          refine ⟨by omega, by omega, h2, ?_⟩
          rw [hmod (by omega), h23]
          exact (win_trail ap hs he (m - en) (by omega) hlt60).mpr ⟨hw0, hw23⟩
      · rintro ⟨_, h2, h3, h4⟩
        rw [hmod h2] at h4
        have h23 : en / 60 % 24 = 23 := by
          rcases hh with hh | hh
          · exact hh
          · rw [hh] at h4
            have := win_after_end ap hs he (m - en) (by omega) (by omega) h4
            omega
        rw [h23] at h4
        have hw := (win_trail ap hs he (m - en) (by omega) (by omega)).mp h4
        exact Or.inr ⟨⟨hts1, h23, hw.1, hw.2⟩, by omega, h3, (f3 (f1.mpr h3)).mpr (by omega)⟩

/-! ### Facts about the start and end moments -/

theorem lastHour_facts (leap : Bool) :
    lastHourMoy leap % 60 = 0 ∧ lastHourMoy leap / 60 % 24 = 23 ∧
      lastHourMoy leap + 60 = minutesInYear leap ∧ firstHourMoy leap = 0 := by
  cases leap <;> decide

theorem minutesInYear_mod (leap : Bool) : minutesInYear leap % 1440 = 0 := by
  cases leap <;> decide

theorem moment_facts (ap : AP) (hwf : ap.WF) :
    ap.st_hour ≤ 23 ∧ ap.end_hour ≤ 23 ∧ ap.stMoy % 60 = 0 ∧ ap.endMoy % 60 = 0 ∧
      ap.endMoy / 60 % 24 = ap.end_hour ∧ ap.stMoy / 60 % 24 = ap.st_hour ∧
      ap.stMoy + 60 ≤ minutesInYear ap.leap ∧ ap.endMoy + 60 ≤ minutesInYear ap.leap ∧
      (ap.isReversed = false ↔ ap.stMoy ≤ ap.endMoy) := by
  obtain ⟨hv1, hv2, _⟩ := hwf
  have hs : ap.st_hour ≤ 23 := hv1.2.2.2.2.1
  have he : ap.end_hour ≤ 23 := hv2.2.2.2.2.1
  have l1 := C08_moy_lt ap.stTime hv1
  have l2 := C08_moy_lt ap.endTime hv2
  have hy := minutesInYear_mod ap.leap
  have e1 : ap.stMoy = ((ap.stTime.doy - 1) * 24 + ap.st_hour) * 60 := by
    simp [stMoy, DT.moy, DT.intHoy, stTime]
  have e2 : ap.endMoy = ((ap.endTime.doy - 1) * 24 + ap.end_hour) * 60 := by
    simp [endMoy, DT.moy, DT.intHoy, endTime]
  have hl1 : ap.stTime.leap = ap.leap := rfl
  have hl2 : ap.endTime.leap = ap.leap := rfl
  rw [hl1] at l1
  rw [hl2] at l2
  have hrev : ap.isReversed = false ↔ ap.stMoy ≤ ap.endMoy := by
    unfold isReversed
    rw [decide_eq_false_iff_not]
    have i1 : ap.stTime.intHoy = (ap.stTime.doy - 1) * 24 + ap.st_hour := rfl
    have i2 : ap.endTime.intHoy = (ap.endTime.doy - 1) * 24 + ap.end_hour := rfl
    omega
  change ap.stMoy < _ at l1
  change ap.endMoy < _ at l2
  refine ⟨hs, he, by omega, by omega, by omega, by omega, by omega, by omega, hrev⟩

theorem mem_moys (ap : AP) (hwf : ap.WF) (m : Nat) : m ∈ ap.moys ↔ ap.Pred m := by
  obtain ⟨hs, he, m1, m2, m3, m4, m5, m6, hrev⟩ := moment_facts ap hwf
  obtain ⟨l1, l2, l3, l4⟩ := lastHour_facts ap.leap
  unfold moys Pred
  by_cases hr : ap.isReversed = false
  · have hle := hrev.mp hr
    rw [if_pos hr, mem_segment ap hwf _ _ m1 m2 hle (Or.inr m3)]
    constructor
    · rintro ⟨h1, h2, h3, h4⟩
      exact ⟨by omega, h3, h4, Or.inl ⟨hle, h1, h2⟩⟩
    · rintro ⟨_, h3, h4, (⟨_, h1, h2⟩ | ⟨h, _⟩)⟩
      · exact ⟨h1, h2, h3, h4⟩
      · omega
  · have hlt : ap.endMoy < ap.stMoy := by
      have : ¬ ap.stMoy ≤ ap.endMoy := fun h => hr (hrev.mpr h)
      omega
    rw [if_neg hr, List.mem_append,
      mem_segment ap hwf _ _ m1 l1 (by omega) (Or.inl l2),
      mem_segment ap hwf _ _ (by rw [l4]) m2 (by rw [l4]; omega) (Or.inr m3), l4]
    constructor
    · rintro (⟨h1, h2, h3, h4⟩ | ⟨_, h2, h3, h4⟩)
      · exact ⟨by omega, h3, h4, Or.inr ⟨hlt, Or.inl h1⟩⟩
      · exact ⟨by omega, h3, h4, Or.inr ⟨hlt, Or.inr h2⟩⟩
    · rintro ⟨h0, h3, h4, (⟨h, _⟩ | ⟨_, (h1 | h2)⟩)⟩
      · omega
      · exact Or.inl ⟨h1, by omega, h3, h4⟩
      · exact Or.inr ⟨by omega, h2, h3, h4⟩

/-! ### Order -/

theorem trailing_sorted (ap : AP) (hS : 0 < ap.step) (st en : Nat) :
    (ap.trailing st en).Pairwise (· < ·) := by
  unfold trailing
  split
  · rw [List.pairwise_map]
    refine List.Pairwise.imp ?_ List.pairwise_lt_range
    intro a b hab
    have := Nat.mul_lt_mul_of_pos_right (show a + 1 < b + 1 by omega) hS
    omega
  · exact List.Pairwise.nil

theorem segment_sorted (ap : AP) (hwf : ap.WF) (st en : Nat) :
    (ap.segment st en).Pairwise (· < ·) := by
  obtain ⟨hv1, hv2, hts⟩ := hwf
  have hs : ap.st_hour ≤ 23 := hv1.2.2.2.2.1
  have he : ap.end_hour ≤ 23 := hv2.2.2.2.2.1
  have hS := step_pos ap hts
  unfold segment
  rw [List.pairwise_append]
  refine ⟨loop_sorted ap en hS _ _, trailing_sorted ap hS st en, ?_⟩
  intro a ha b hb
  have h1 := (mem_loop ap en hS _ _ _).mp ha
  have h2 := (mem_trailing ap hs he hS st en b).mp hb
  omega

theorem moys_sorted (ap : AP) (hwf : ap.WF) (hr : ap.isReversed = false) :
    ap.moys.Pairwise (· < ·) := by
  unfold moys
  rw [if_pos hr]
  exact segment_sorted ap hwf _ _

/-- Reversed periods: two increasing runs, every step of the second run is earlier in the year
    than every step of the first. -/
theorem moys_segments (ap : AP) (hwf : ap.WF) (hr : ap.isReversed = true) :
    ∃ l₁ l₂, ap.moys = l₁ ++ l₂ ∧ l₁.Pairwise (· < ·) ∧ l₂.Pairwise (· < ·) ∧
      (∀ a ∈ l₁, ap.stMoy ≤ a) ∧ (∀ b ∈ l₂, b < ap.endMoy + 60) ∧ ap.endMoy + 60 ≤ ap.stMoy := by
  obtain ⟨hs, he, m1, m2, m3, m4, m5, m6, hrev⟩ := moment_facts ap hwf
  obtain ⟨l1, l2, l3, l4⟩ := lastHour_facts ap.leap
  have hnr : ¬ ap.isReversed = false := by simp [hr]
  have hlt : ap.endMoy < ap.stMoy := by
    have : ¬ ap.stMoy ≤ ap.endMoy := fun h => hnr (hrev.mpr h)
    omega
  refine ⟨ap.segment ap.stMoy (lastHourMoy ap.leap), ap.segment (firstHourMoy ap.leap) ap.endMoy,
    ?_, segment_sorted ap hwf _ _, segment_sorted ap hwf _ _, ?_, ?_, by omega⟩
  · unfold moys; rw [if_neg hnr]
  · intro a ha
    exact ((mem_segment ap hwf _ _ m1 l1 (by omega) (Or.inl l2) a).mp ha).1
  · intro b hb
    exact ((mem_segment ap hwf _ _ (by rw [l4]) m2 (by rw [l4]; omega) (Or.inr m3) b).mp hb).2.1

theorem moys_nodup (ap : AP) (hwf : ap.WF) : ap.moys.Nodup := by
  by_cases hr : ap.isReversed = false
  · exact (moys_sorted ap hwf hr).imp (fun h => Nat.ne_of_lt h)
  · have hr' : ap.isReversed = true := by simpa using hr
    obtain ⟨l₁, l₂, e, s1, s2, b1, b2, hgap⟩ := moys_segments ap hwf hr'
    rw [e, List.nodup_append]
    refine ⟨s1.imp (fun h => Nat.ne_of_lt h), s2.imp (fun h => Nat.ne_of_lt h), ?_⟩
    intro a ha b hb
    have := b1 a ha
    have := b2 b hb
    omega

theorem moys_chrono (ap : AP) (hwf : ap.WF) : (ap.moys.map ap.chronoKey).Pairwise (· < ·) := by
  obtain ⟨hs, he, m1, m2, m3, m4, m5, m6, hrev⟩ := moment_facts ap hwf
  have hN : 0 < minutesInYear ap.leap := by omega
  have hin : ∀ m ∈ ap.moys, m < minutesInYear ap.leap := fun m hm => ((mem_moys ap hwf m).mp hm).1
  have key1 : ∀ m, ap.stMoy ≤ m → m < minutesInYear ap.leap → ap.chronoKey m = m - ap.stMoy := by
    intro m h1 h2
    unfold chronoKey
    have : m + minutesInYear ap.leap - ap.stMoy = (m - ap.stMoy) + minutesInYear ap.leap := by omega
    rw [this, Nat.add_mod_right, Nat.mod_eq_of_lt (by omega)]
  have key2 : ∀ m, m < ap.stMoy → ap.chronoKey m = m + minutesInYear ap.leap - ap.stMoy := by
    intro m h1
    unfold chronoKey
    rw [Nat.mod_eq_of_lt (by omega)]
  rw [List.pairwise_map]
  by_cases hr : ap.isReversed = false
  · refine List.Pairwise.imp_of_mem ?_ (moys_sorted ap hwf hr)
    intro a b ha hb hab
    have pa := (mem_moys ap hwf a).mp ha
    have pb := (mem_moys ap hwf b).mp hb
    have hle := hrev.mp hr
    have ha1 : ap.stMoy ≤ a := by
      rcases pa.2.2.2 with h | h <;> omega
    have hb1 : ap.stMoy ≤ b := by omega
    rw [key1 a ha1 pa.1, key1 b hb1 pb.1]
    omega
  · have hr' : ap.isReversed = true := by simpa using hr
    obtain ⟨l₁, l₂, e, s1, s2, b1, b2, hgap⟩ := moys_segments ap hwf hr'
    rw [e] at hin ⊢
    rw [List.pairwise_append]
    refine ⟨?_, ?_, ?_⟩
    · refine List.Pairwise.imp_of_mem ?_ s1
      intro a b ha hb hab
      have := b1 a ha
      have := b1 b hb
      rw [key1 a (by omega) (hin a (List.mem_append_left _ ha)),
        key1 b (by omega) (hin b (List.mem_append_left _ hb))]
      omega
    · refine List.Pairwise.imp_of_mem ?_ s2
      intro a b ha hb hab
      have := b2 a ha
      have := b2 b hb
      rw [key2 a (by omega), key2 b (by omega)]
      omega
    · intro a ha b hb
      have := b1 a ha
      have := b2 b hb
      have := hin a (List.mem_append_left _ ha)
      rw [key1 a (by omega) (by omega), key2 b (by omega)]
      omega

/-! ### Length -/

theorem wholeDay_possible (ap : AP) (h0 : ap.st_hour = 0) (h23 : ap.end_hour = 23) (mod : Nat)
    (hm : mod < 1440) : ap.possibleMod mod = true := by
  rw [possibleMod_iff ap (by omega) (by omega) mod hm]
  unfold inWindow
  split <;> omega

/-- `loop_length_all` with the hypothesis restricted to minutes of the day. -/
theorem loop_length_day (ap : AP) (en : Nat) (hS : 0 < ap.step)
    (hall : ∀ mod, mod < 1440 → ap.possibleMod mod = true) (fuel : Nat) : ∀ curr,
    (ap.loop en fuel curr).length = if curr ≤ en then min fuel ((en - curr) / ap.step + 1) else 0 := by
  induction fuel with
  | zero => intro curr; simp [loop]
  | succ f ih =>
    intro curr
    unfold loop
    by_cases hc : curr ≤ en
    · simp only [hc, hall (curr % 1440) (Nat.mod_lt _ (by decide)), if_true, List.length_cons, ih]
      by_cases hc2 : curr + ap.step ≤ en
      · have e : en - curr = (en - (curr + ap.step)) + ap.step := by omega
        rw [if_pos hc2, e, Nat.add_div_right _ hS]
        omega
      · have : (en - curr) / ap.step = 0 := Nat.div_eq_of_lt (by omega)
        rw [if_neg hc2, this]
        omega
    · simp [hc]

theorem ts_len_fact (ap : AP) (hts : ap.timestep ∈ Gen.Ap.validTimesteps) (d : Nat) :
    60 * d / ap.step + 1 + (ap.timestep - 1) = (d + 1) * ap.timestep := by
  obtain ⟨sm, sd, sh, em, ed, eh, ts, leap⟩ := ap
  simp only [step] at *
  rcases ts_cases hts with rfl | rfl | rfl | rfl | rfl | rfl | rfl | rfl | rfl | rfl | rfl | rfl <;>
    simp only [Nat.reduceDiv] <;> omega

/-- Whole-day window: a segment from hour-of-year `a` to hour-of-year `b` (whose hour of day is 23)
    has `(b + 1 - a) * timestep` steps. -/
theorem segment_length_wholeDay (ap : AP) (hwf : ap.WF) (h0 : ap.st_hour = 0) (h23 : ap.end_hour = 23)
    (a b : Nat) (hab : a ≤ b) (hb : b % 24 = 23) :
    (ap.segment (a * 60) (b * 60)).length = (b + 1 - a) * ap.timestep := by
  have hts := hwf.2.2
  have hS := step_pos ap hts
  have hall := wholeDay_possible ap h0 h23
  have hle : a * 60 ≤ b * 60 := by omega
  unfold segment
  rw [List.length_append, loop_length_day ap _ hS hall, if_pos hle]
  have hdiv : (b * 60 - a * 60) / ap.step ≤ b * 60 - a * 60 := Nat.div_le_self _ _
  rw [Nat.min_eq_right (by omega)]
  have f2 := (ts_facts ap hts (a * 60) (b * 60) (by omega) hle).2.1 (by omega)
  have f4 := (ts_facts ap hts (a * 60) (b * 60) (by omega) hle).2.2.2.1
  have htl : (ap.trailing (a * 60) (b * 60)).length = ap.timestep - 1 := by
    unfold trailing currAfter
    rw [if_pos hle, f2]
    by_cases h1 : ap.timestep = 1
    · have : ¬ (ap.timestep ≠ 1 ∧ (b * 60 + ap.step) / 60 % 24 = 23 ∧ ap.possible0 = true ∧
          ap.possibleMod (23 * 60) = true) := fun h => h.1 h1
      rw [if_neg this, h1]; rfl
    · have hlt := f4 h1
      have hp0 : ap.possible0 = true := by
        have := hall 0 (by omega)
        unfold possibleMod at this
        simpa [possible0] using this
      have : (ap.timestep ≠ 1 ∧ (b * 60 + ap.step) / 60 % 24 = 23 ∧ ap.possible0 = true ∧
          ap.possibleMod (23 * 60) = true) := ⟨h1, by omega, hp0, hall _ (by omega)⟩
      rw [if_pos this, List.length_map, List.length_range]
  rw [htl]
  have e : b * 60 - a * 60 = 60 * (b - a) := by omega
  rw [e, ts_len_fact ap hts (b - a)]
  congr 1
  omega

theorem len_eq_length (ap : AP) (hwf : ap.WF) : ap.len = ap.moys.length := by
  unfold len
  split
  · rename_i h
    obtain ⟨h0, h23⟩ := h
    obtain ⟨hs, he, m1, m2, m3, m4, m5, m6, hrev⟩ := moment_facts ap hwf
    have e1 : ap.stMoy = ap.stTime.intHoy * 60 := by simp [stMoy, DT.moy, stTime]
    have e2 : ap.endMoy = ap.endTime.intHoy * 60 := by simp [endMoy, DT.moy, endTime]
    have hb : ap.endTime.intHoy % 24 = 23 := by omega
    by_cases hr : ap.isReversed = false
    · have hle := hrev.mp hr
      rw [if_pos hr]
      unfold moys
      rw [if_pos hr, e1, e2, segment_length_wholeDay ap hwf h0 h23 _ _ (by omega) hb]
    · rw [if_neg hr]
      dsimp only
      unfold moys
      rw [if_neg hr, List.length_append, e1, e2]
      have l1 : lastHourMoy ap.leap = (⟨12, 31, 23, 0, ap.leap⟩ : DT).intHoy * 60 := by
        simp [lastHourMoy, DT.moy]
      have l2 : firstHourMoy ap.leap = (⟨1, 1, 0, 0, ap.leap⟩ : DT).intHoy * 60 := by
        simp [firstHourMoy, DT.moy]
      have l3 : (⟨12, 31, 23, 0, ap.leap⟩ : DT).intHoy % 24 = 23 ∧
          (⟨1, 1, 0, 0, ap.leap⟩ : DT).intHoy = 0 ∧
          (⟨12, 31, 23, 0, ap.leap⟩ : DT).intHoy * 60 + 60 = minutesInYear ap.leap := by
        cases ap.leap <;> decide
      rw [l1, l2, segment_length_wholeDay ap hwf h0 h23 _ _ (by omega) l3.1,
        segment_length_wholeDay ap hwf h0 h23 _ _ (by omega) hb, ← Nat.add_mul]
      congr 1
      omega
  · rfl

end AP
