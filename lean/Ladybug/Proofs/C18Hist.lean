/-
  C18 round 3 — lemmas about histories with refused operations (generic object and table machine).
-/
import Ladybug.Model.LazyHist
import Ladybug.Proofs.C18Lemmas

namespace Lazy

section
variable {Cfg Slot Val Field FVal : Type} [DecidableEq Slot]

/-- the final object of a history with refusals is the final object of the accepted history -/
theorem runH_obj (S : Spec Cfg Slot Val Field FVal) (valid : Field → FVal → Cfg → Bool) :
    ∀ (ops : List (HOp Slot Field FVal)) (o : Obj Cfg Slot Val),
      (runH S valid o ops).2 = (run S o (accepted S valid o.cfg ops)).2
  | [], _ => rfl
  | .read i :: ops, o => by
    have hc : (read S o i).2.cfg = o.cfg := by
      unfold read; split <;> rfl
    simp only [runH, step, accepted, run]
    rw [runH_obj S valid ops, hc]
  | .set k x :: ops, o => by
    by_cases h : valid k x o.cfg = true
    · simp only [runH, step, accepted, run, h, if_true]
      rw [runH_obj S valid ops]
      rfl
    · simp only [runH, step, accepted, h]
      rw [runH_obj S valid ops]
      simp

/-- the public state of a history is the final configuration of the accepted history -/
theorem publicCfg_eq (S : Spec Cfg Slot Val Field FVal) (valid : Field → FVal → Cfg → Bool) :
    ∀ (ops : List (HOp Slot Field FVal)) (c : Cfg),
      publicCfg S valid c ops = finalCfg S c (accepted S valid c ops)
  | [], _ => rfl
  | .read _ :: ops, c => by simp only [publicCfg, accepted, finalCfg]; exact publicCfg_eq S valid ops c
  | .set k x :: ops, c => by
    by_cases h : valid k x c = true
    · simp only [publicCfg, accepted, finalCfg, h, if_true]; exact publicCfg_eq S valid ops _
    · simp only [publicCfg, accepted, h]; simpa using publicCfg_eq S valid ops c

end

/-! table machine -/

theorem stepRefuse_safe (t : ClassTable) (s : Setter) (st : TState) (h : s.early.isEmpty = true) :
    stepRefuse t s st = st := by
  simp [stepRefuse, h]

theorem runX_eq_runT (t : ClassTable) (hr : t.refusalSafe = true) :
    ∀ (ops : List XOp) (st : TState), runX t st ops = runT t st (ops.filterMap XOp.toT)
  | [], _ => rfl
  | .get gi :: ops, st => by
    simp only [runX, List.filterMap_cons, XOp.toT, runT]
    cases t.getters[gi]? with
    | none => exact runX_eq_runT t hr ops st
    | some g => simp only; rw [runX_eq_runT t hr ops]
  | .put si :: ops, st => by
    simp only [runX, List.filterMap_cons, XOp.toT, runT]
    cases t.setters[si]? with
    | none => exact runX_eq_runT t hr ops st
    | some s => exact runX_eq_runT t hr ops _
  | .refuse si :: ops, st => by
    simp only [runX, List.filterMap_cons, XOp.toT]
    cases hs : t.setters[si]? with
    | none => exact runX_eq_runT t hr ops st
    | some s =>
      have hm : s ∈ t.setters := List.mem_of_getElem? hs
      have he : s.early.isEmpty = true := by
        have := List.all_eq_true.mp hr s hm
        simpa using this
      simp only [stepRefuse_safe t s st he]
      exact runX_eq_runT t hr ops st

end Lazy
