/-
  C18 round 3 — lemmas about histories with refused operations (generic object and table machine).
-/
import Ladybug.Model.LazyHist
import Ladybug.Proofs.C18Lemmas

namespace Lazy

section
variable {Cfg Slot Val Field FVal : Type} [DecidableEq Slot]

/-- the final object of a history with refusals is the final object of the accepted history -/
theorem runH_obj (S : Spec Cfg Slot Val Field FVal) (valid : Field → FVal → Cfg → Bool) :
    ∀ (ops : List (HOp Slot Field FVal)) (o : Obj Cfg Slot Val),
      (runH S valid o ops).2 = (run S o (accepted S valid o.cfg ops)).2
  | [], _ => rfl
  | .read i :: ops, o => by
    have hc : (read S o i).2.cfg = o.cfg := by
      unfold read; split <;> rfl
    simp only [runH, step, accepted, run]
    rw [runH_obj S valid ops, hc]
  | .set k x :: ops, o => by
    by_cases h : valid k x o.cfg = true
    · simp only [runH, step, accepted, run, h, if_true]
      rw [runH_obj S valid ops]
      rfl
    · simp only [runH, step, accepted, h]
      rw [runH_obj S valid ops]
      simp

/-- the public state of a history is the final configuration of the accepted history -/
theorem publicCfg_eq (S : Spec Cfg Slot Val Field FVal) (valid : Field → FVal → Cfg → Bool) :
    ∀ (ops : List (HOp Slot Field FVal)) (c : Cfg),
      publicCfg S valid c ops = finalCfg S c (accepted S valid c ops)
  | [], _ => rfl
  | .read _ :: ops, c => by simp only [publicCfg, accepted, finalCfg]; exact publicCfg_eq S valid ops c
  | .set k x :: ops, c => by
    by_cases h : valid k x c = true
    · simp only [publicCfg, accepted, finalCfg, h, if_true]; exact publicCfg_eq S valid ops _
    · simp only [publicCfg, accepted, h]; simpa using publicCfg_eq S valid ops c

end

/-! settings as independent fields (round 5) -/

namespace FieldSetters
variable {Field FVal : Type} [DecidableEq Field]

theorem upd_comm (F : FieldSetters Field FVal) (hL : F.Local) (hO : F.OwnOnly) {k k' : Field} (h : k ≠ k')
    (x x' : FVal) (c : Field → FVal) : F.upd k x (F.upd k' x' c) = F.upd k' x' (F.upd k x c) := by
  have e1 : F.put k x (F.upd k' x' c) = F.put k x c := by
    apply hL; intro j hj
    have : j = k := hO k j hj
    subst this
    simp [upd, h]
  have e2 : F.put k' x' (F.upd k x c) = F.put k' x' c := by
    apply hL; intro j hj
    have : j = k' := hO k' j hj
    subst this
    simp [upd, Ne.symm h]
  funext j
  by_cases a : j = k
  · subst a; simp [upd, h, e1]
  · by_cases b : j = k'
    · subst b; simp [upd, a, e2]
    · simp [upd, a, b]

theorem fst_ne_of_pairwise : ∀ (l : List (Field × FVal)), l.Pairwise (fun a b => a.1 ≠ b.1) →
    ∀ x ∈ l, ∀ y ∈ l, x ≠ y → x.1 ≠ y.1
  | [], _, x, hx, _, _, _ => by cases hx
  | a :: l, hp, x, hx, y, hy, hne => by
    rw [List.pairwise_cons] at hp
    rcases List.mem_cons.mp hx with rfl | hx'
    · rcases List.mem_cons.mp hy with rfl | hy'
      · exact absurd rfl hne
      · exact hp.1 y hy'
    · rcases List.mem_cons.mp hy with rfl | hy'
      · exact fun e => hp.1 x hx' e.symm
      · exact fst_ne_of_pairwise l hp.2 x hx' y hy' hne

theorem apply_perm (F : FieldSetters Field FVal) (hL : F.Local) (hO : F.OwnOnly)
    {l₁ l₂ : List (Field × FVal)} (p : l₁.Perm l₂) (nd : (l₁.map Prod.fst).Nodup) (c : Field → FVal) :
    F.apply c l₁ = F.apply c l₂ := by
  unfold apply
  apply List.Perm.foldl_eq' p
  intro x hx y hy z
  by_cases e : x = y
  · subst e; rfl
  · have hp : l₁.Pairwise (fun a b => a.1 ≠ b.1) := by
      have := nd
      unfold List.Nodup at this
      exact List.pairwise_map.mp this
    have hne : x.1 ≠ y.1 := fst_ne_of_pairwise l₁ hp x hx y hy e
    exact upd_comm F hL hO (Ne.symm hne) y.2 x.2 z

theorem finalCfg_setOps {Slot Val : Type} (F : FieldSetters Field FVal) (f : Slot → (Field → FVal) → Val)
    (resets : Field → List Slot) : ∀ (l : List (Field × FVal)) (c : Field → FVal),
    finalCfg (F.toSpec f resets) c (setOps l) = F.apply c l
  | [], _ => rfl
  | p :: l, c => by
    simp only [setOps, List.map_cons, finalCfg, apply, List.foldl_cons]
    exact finalCfg_setOps F f resets l _

end FieldSetters

/-! table machine -/

theorem stepRefuse_safe (t : ClassTable) (s : Setter) (st : TState) (h : s.early.isEmpty = true) :
    stepRefuse t s st = st := by
  simp [stepRefuse, h]

theorem runX_eq_runT (t : ClassTable) (hr : t.refusalSafe = true) :
    ∀ (ops : List XOp) (st : TState), runX t st ops = runT t st (ops.filterMap XOp.toT)
  | [], _ => rfl
  | .get gi :: ops, st => by
    simp only [runX, List.filterMap_cons, XOp.toT, runT]
    cases t.getters[gi]? with
    | none => exact runX_eq_runT t hr ops st
    | some g => simp only; rw [runX_eq_runT t hr ops]
  | .put si :: ops, st => by
    simp only [runX, List.filterMap_cons, XOp.toT, runT]
    cases t.setters[si]? with
    | none => exact runX_eq_runT t hr ops st
    | some s => exact runX_eq_runT t hr ops _
  | .refuse si :: ops, st => by
    simp only [runX, List.filterMap_cons, XOp.toT]
    cases hs : t.setters[si]? with
    | none => exact runX_eq_runT t hr ops st
    | some s =>
      have hm : s ∈ t.setters := List.mem_of_getElem? hs
      have he : s.early.isEmpty = true := by
        have := List.all_eq_true.mp hr s hm
        simpa using this
      simp only [stepRefuse_safe t s st he]
      exact runX_eq_runT t hr ops st

end Lazy
