/-
  Helper lemmas for the object state machine of C01 (Model/EpwObj.lean).  Core Lean only.
-/
import Ladybug.Model.EpwObj
import Ladybug.Proofs.C01Lemmas

namespace Epw

section
variable {Tok Val H : Type}

theorem convCols_comp' (f g : Nat → Val → Val) (cols : List (List Val)) :
    convCols f (convCols g cols) = convCols (fun k v => f k (g k v)) cols := by
  apply List.ext_getElem
  · simp [convCols]
  · intro i h1 h2
    simp [convCols]

theorem convCols_id' (f : Nat → Val → Val) (h : ∀ k v, f k v = v) (cols : List (List Val)) :
    convCols f cols = cols := by
  apply List.ext_getElem
  · simp [convCols]
  · intro i h1 h2
    have hf : f i = id := funext (h i)
    simp [convCols, hf]

/-- `to_file_string` gives the state back (round trip of the unit conversion assumed for an IP object). -/
theorem toFileString_snd (c : Codec Tok Val) (flag : Nat → Bool) (cv : Conv Val) (s : St Val)
    (hrt : ∀ k v, cv.toIp k (cv.toSi k v) = v) : (s.toFileString c flag cv).2 = s := by
  obtain ⟨hl, dl, ip, lp, nf, cols⟩ := s
  cases ip
  · simp [St.toFileString, St.toSi, writeBody, onFlagged_comp flag rot unrot rot_unrot]
  · simp [St.toFileString, St.toSi, St.toIp, writeBody, onFlagged_comp flag rot unrot rot_unrot,
      convCols_comp', convCols_id' _ hrt]

theorem toWea_snd (cv : Conv Val) (hoys : Option (List Nat)) (s : St Val)
    (hrt : ∀ k v, cv.toIp k (cv.toSi k v) = v) : (s.toWea cv hoys).2 = s := by
  obtain ⟨hl, dl, ip, lp, nf, cols⟩ := s
  cases ip
  · simp [St.toWea, St.toSi]
  · simp [St.toWea, St.toSi, St.toIp, convCols_comp', convCols_id' _ hrt]

theorem dropLast_append_getLast?_toList (l : List Val) : l.dropLast ++ l.getLast?.toList = l := by
  cases h : l.getLast? with
  | none => simp [List.getLast?_eq_none_iff] at h; simp [h]
  | some x =>
    obtain ⟨ys, rfl⟩ : ∃ ys, l = ys ++ [x] := by
      rw [List.getLast?_eq_some_iff] at h; exact h
    simp

theorem restoreAt_dropLastAt (k : Nat) (cols : List (List Val)) :
    restoreAt k cols (dropLastAt k cols) = cols := by
  apply List.ext_getElem
  · simp [restoreAt, dropLastAt]
  · intro i h1 h2
    have hi : i < cols.length := by simpa [restoreAt, dropLastAt] using h1
    simp only [restoreAt, dropLastAt, List.getElem_mapIdx]
    by_cases hik : i = k
    · simp [hik, List.getD_eq_getElem?_getD, List.getElem?_eq_getElem (hik ▸ hi),
        dropLast_append_getLast?_toList]
    · simp [hik]

/-! ### loading -/

variable (src : Src Val H)

theorem loadHeader_idem (o : Obj Val H) : (o.loadHeader src).loadHeader src = o.loadHeader src := by
  unfold Obj.loadHeader
  split <;> simp_all

theorem loadData_loaded (o : Obj Val H) (h : o.WF) : (o.loadData src).Loaded := by
  obtain ⟨⟨hl, dl, ip, lp, nf, cols⟩, sl⟩ := o
  cases dl <;> cases hl <;> simp_all [Obj.WF, Obj.Loaded, Obj.loadData, Obj.loadHeader]

theorem loadData_of_loaded (o : Obj Val H) (h : o.Loaded) : o.loadData src = o := by
  simp [Obj.loadData, h.2]

theorem loadHeader_of_loaded (o : Obj Val H) (h : o.Loaded) : o.loadHeader src = o := by
  simp [Obj.loadHeader, h.1]

theorem loadData_loadHeader (o : Obj Val H) (h : o.WF) :
    (o.loadHeader src).loadData src = o.loadData src := by
  obtain ⟨⟨hl, dl, ip, lp, nf, cols⟩, sl⟩ := o
  cases dl <;> cases hl <;> simp_all [Obj.WF, Obj.loadData, Obj.loadHeader]

theorem loadHeader_wf (o : Obj Val H) : (o.loadHeader src).WF := by
  obtain ⟨⟨hl, dl, ip, lp, nf, cols⟩, sl⟩ := o
  cases hl <;> simp [Obj.WF, Obj.loadHeader]

theorem loaded_wf (o : Obj Val H) (h : o.Loaded) : o.WF := fun _ => h.1

/-! ### steps on a loaded object -/

variable (c : Codec Tok Val) (flag : Nat → Bool) (cv : Conv Val)

theorem toIp_flags (s : St Val) : (s.toIp cv).hdrLoaded = s.hdrLoaded ∧ (s.toIp cv).dataLoaded = s.dataLoaded := by
  unfold St.toIp; split <;> simp

theorem toSi_flags (s : St Val) : (s.toSi cv).hdrLoaded = s.hdrLoaded ∧ (s.toSi cv).dataLoaded = s.dataLoaded := by
  unfold St.toSi; split <;> simp

/-- A step keeps a loaded object loaded. -/
theorem stepLoaded_loaded (hrt : ∀ k v, cv.toIp k (cv.toSi k v) = v) (o : Obj Val H) (h : o.Loaded)
    (op : Op Val H) : (stepLoaded c flag cv o op).1.Loaded := by
  cases op with
  | header => exact h
  | load => exact h
  | field k => simp only [stepLoaded]; split <;> exact h
  | toIp => simpa [stepLoaded, Obj.Loaded, toIp_flags] using h
  | toSi => simpa [stepLoaded, Obj.Loaded, toSi_flags] using h
  | write => simpa [stepLoaded, Obj.Loaded, toFileString_snd c flag cv _ hrt] using h
  | writeShort k => simpa [stepLoaded, Obj.Loaded, toFileString_snd c flag cv _ hrt] using h
  | wea hoys => simpa [stepLoaded, Obj.Loaded, toWea_snd cv hoys _ hrt] using h
  | mos => exact h
  | dict => exact h
  | set j v valid => simp only [stepLoaded]; split <;> exact h
  | setValues k vals => simp only [stepLoaded]; split <;> exact h

/-- **Reads, exports and refused operations leave a loaded object exactly as it was.** -/
theorem stepLoaded_pure (hrt : ∀ k v, cv.toIp k (cv.toSi k v) = v) (o : Obj Val H) (op : Op Val H)
    (hm : mutates o op = false) : (stepLoaded c flag cv o op).1 = o := by
  cases op with
  | header => rfl
  | load => rfl
  | field k => simp only [stepLoaded]; split <;> rfl
  | toIp => simp [mutates] at hm
  | toSi => simp [mutates] at hm
  | write => simp [stepLoaded, toFileString_snd c flag cv _ hrt]
  | writeShort k => simp [stepLoaded, toFileString_snd c flag cv _ hrt, restoreAt_dropLastAt]
  | wea hoys => simp [stepLoaded, toWea_snd cv hoys _ hrt]
  | mos => rfl
  | dict => rfl
  | set j v valid => simp only [mutates] at hm; simp [stepLoaded, hm]
  | setValues k vals => simp only [mutates] at hm; simp [stepLoaded, hm]

/-- The step of a loaded object is the loaded step. -/
theorem step_of_loaded (o : Obj Val H) (h : o.Loaded) (op : Op Val H) :
    step c flag cv src o op = stepLoaded c flag cv o op := by
  cases op <;> simp [step, loadData_of_loaded src o h, loadHeader_of_loaded src o h]

/-- Every step keeps the invariant. -/
theorem step_wf (hrt : ∀ k v, cv.toIp k (cv.toSi k v) = v) (o : Obj Val H) (h : o.WF) (op : Op Val H) :
    (step c flag cv src o op).1.WF := by
  have hd := loadData_loaded src o h
  cases op with
  | header => simpa [step, stepLoaded] using loadHeader_wf src o
  | set j v valid =>
    have := loadHeader_wf src o
    simp only [step, stepLoaded]; split <;> simpa [Obj.WF] using this
  | load => exact loaded_wf _ (by simpa [step] using stepLoaded_loaded c flag cv hrt _ hd .load)
  | field k => exact loaded_wf _ (by simpa [step] using stepLoaded_loaded c flag cv hrt _ hd (.field k))
  | toIp => exact loaded_wf _ (by simpa [step] using stepLoaded_loaded c flag cv hrt _ hd .toIp)
  | toSi => exact loaded_wf _ (by simpa [step] using stepLoaded_loaded c flag cv hrt _ hd .toSi)
  | write => exact loaded_wf _ (by simpa [step] using stepLoaded_loaded c flag cv hrt _ hd .write)
  | writeShort k => exact loaded_wf _ (by simpa [step] using stepLoaded_loaded c flag cv hrt _ hd (.writeShort k))
  | wea hoys => exact loaded_wf _ (by simpa [step] using stepLoaded_loaded c flag cv hrt _ hd (.wea hoys))
  | mos => exact loaded_wf _ (by simpa [step] using stepLoaded_loaded c flag cv hrt _ hd .mos)
  | dict => exact loaded_wf _ (by simpa [step] using stepLoaded_loaded c flag cv hrt _ hd .dict)
  | setValues k vals =>
    exact loaded_wf _ (by simpa [step] using stepLoaded_loaded c flag cv hrt _ hd (.setValues k vals))

/-- **Loading commutes with every step**: performing an operation on the lazy object and loading the rest
    afterwards gives the state that the operation gives on the loaded object. -/
theorem loadData_step (hrt : ∀ k v, cv.toIp k (cv.toSi k v) = v) (o : Obj Val H) (h : o.WF) (op : Op Val H) :
    (step c flag cv src o op).1.loadData src = (step c flag cv src (o.loadData src) op).1 := by
  have hd := loadData_loaded src o h
  rw [step_of_loaded src c flag cv _ hd]
  cases op with
  | header =>
    simp only [step, stepLoaded]
    exact loadData_loadHeader src o h
  | set j v valid =>
    obtain ⟨⟨hl, dl, ip, lp, nf, cols⟩, sl⟩ := o
    cases valid <;> cases dl <;> cases hl <;>
      simp_all [Obj.WF, step, stepLoaded, Obj.loadData, Obj.loadHeader]
  | load => simpa [step] using loadData_of_loaded src _ (stepLoaded_loaded c flag cv hrt _ hd .load)
  | field k => simpa [step] using loadData_of_loaded src _ (stepLoaded_loaded c flag cv hrt _ hd (.field k))
  | toIp => simpa [step] using loadData_of_loaded src _ (stepLoaded_loaded c flag cv hrt _ hd .toIp)
  | toSi => simpa [step] using loadData_of_loaded src _ (stepLoaded_loaded c flag cv hrt _ hd .toSi)
  | write => simpa [step] using loadData_of_loaded src _ (stepLoaded_loaded c flag cv hrt _ hd .write)
  | writeShort k =>
    simpa [step] using loadData_of_loaded src _ (stepLoaded_loaded c flag cv hrt _ hd (.writeShort k))
  | wea hoys => simpa [step] using loadData_of_loaded src _ (stepLoaded_loaded c flag cv hrt _ hd (.wea hoys))
  | mos => simpa [step] using loadData_of_loaded src _ (stepLoaded_loaded c flag cv hrt _ hd .mos)
  | dict => simpa [step] using loadData_of_loaded src _ (stepLoaded_loaded c flag cv hrt _ hd .dict)
  | setValues k vals =>
    simpa [step] using loadData_of_loaded src _ (stepLoaded_loaded c flag cv hrt _ hd (.setValues k vals))

/-- A history started on the lazy object and one started on the loaded object end in the same loaded state. -/
theorem run_loadData (hrt : ∀ k v, cv.toIp k (cv.toSi k v) = v) (ops : List (Op Val H)) :
    ∀ o : Obj Val H, o.WF →
      (run c flag cv src o ops).loadData src = (run c flag cv src (o.loadData src) ops).loadData src := by
  induction ops with
  | nil =>
    intro o h
    simp [run, loadData_of_loaded src _ (loadData_loaded src o h)]
  | cons op ops ih =>
    intro o h
    simp only [run]
    rw [ih _ (step_wf src c flag cv hrt o h op), loadData_step src c flag cv hrt o h op]

end

end Epw
