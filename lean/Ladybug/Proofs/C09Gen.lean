/-
  C09 — the translator tie.  `Gen/PsychroFormulas.lean` is regenerated from ladybug/psychrometrics.py
  (and two small pieces of psychchart.py / datatype/temperature.py) on every check run by
  tools/extract/psychro_formulas.py.  Each theorem below states that a generated definition IS the
  hand-written model definition the property theorems (Props/C09.lean) are about — for every numeric
  type `α` of the generic interface at once (so for `Float`, which the driver runs, and for `ℝ`).
  A change of the Python source therefore either regenerates a definition that is still equal to the
  model (harmless rewrite) or breaks the proof below (tie broken → failing-input search).  No Mathlib.

  Functions with loops / try (dew_point_from_db_rh, wet_bulb_from_db_rh, the two `_fast` functions) are
  hand-modelled and tied by correspondence; their straight-line pieces are tied here (`…_piece_…`).
  A proof about a function that calls other generated functions first rewrites those calls with their own
  `C09_gen_eq_*` lemma, so a changed source line breaks exactly the theorem of the function it is in.
-/
import Ladybug.Gen.PsychroFormulas
import Ladybug.Model.Psychro

set_option linter.unusedSectionVars false

namespace Psychro

variable {α : Type} [Add α] [Sub α] [Mul α] [Div α] [Neg α] [OfScientific α]
  [LT α] [LE α] [DecidableLT α] [DecidableLE α] [Transc α]

/-! ### whole functions -/

theorem C09_gen_eq_saturated_vapor_pressure (t : α) :
    Gen.Psychro.saturated_vapor_pressure t = satVapPres t := rfl

theorem C09_gen_eq_d_ln_p_ws (db : α) : Gen.Psychro.d_ln_p_ws db = dLnPws db := rfl

theorem C09_gen_eq_humid_ratio_from_db_rh (db rh p : α) :
    Gen.Psychro.humid_ratio_from_db_rh db rh p = humidRatioFromDbRh db rh p := by
  simp only [Gen.Psychro.humid_ratio_from_db_rh, C09_gen_eq_saturated_vapor_pressure] <;> rfl

theorem C09_gen_eq_enthalpy_from_db_hr (db hr ref : α) :
    Gen.Psychro.enthalpy_from_db_hr db hr ref = enthalpyFromDbHr db hr ref := rfl

theorem C09_gen_eq_rel_humid_from_db_hr (db hr p : α) :
    Gen.Psychro.rel_humid_from_db_hr db hr p = relHumidFromDbHr db hr p := by
  simp only [Gen.Psychro.rel_humid_from_db_hr, C09_gen_eq_saturated_vapor_pressure] <;> rfl

theorem C09_gen_eq_rel_humid_from_db_enth (db e p ref : α) :
    Gen.Psychro.rel_humid_from_db_enth db e p ref = relHumidFromDbEnth db e p ref := by
  simp only [Gen.Psychro.rel_humid_from_db_enth, C09_gen_eq_rel_humid_from_db_hr] <;> rfl

theorem C09_gen_eq_rel_humid_from_db_dpt (db dpt : α) :
    Gen.Psychro.rel_humid_from_db_dpt db dpt = relHumidFromDbDpt db dpt := by
  simp only [Gen.Psychro.rel_humid_from_db_dpt, C09_gen_eq_saturated_vapor_pressure] <;> rfl

theorem C09_gen_eq_rel_humid_from_db_wb (db wb p : α) :
    Gen.Psychro.rel_humid_from_db_wb db wb p = relHumidFromDbWb db wb p := by
  simp only [Gen.Psychro.rel_humid_from_db_wb, C09_gen_eq_saturated_vapor_pressure] <;> rfl

theorem C09_gen_eq_humid_ratio_from_db_wb (db wb p : α) :
    Gen.Psychro.humid_ratio_from_db_wb db wb p = humidRatioFromDbWb db wb p := by
  simp only [Gen.Psychro.humid_ratio_from_db_wb, C09_gen_eq_saturated_vapor_pressure] <;> rfl

theorem C09_gen_eq_db_temp_from_enth_hr (e hr ref : α) :
    Gen.Psychro.db_temp_from_enth_hr e hr ref = dbTempFromEnthHr e hr ref := rfl

theorem C09_gen_eq_db_temp_from_rh_hr (rh hr p : α) :
    Gen.Psychro.db_temp_from_rh_hr rh hr p = dbTempFromRhHr rh hr p := rfl

theorem C09_gen_eq_db_temp_and_hr_from_wb_rh (wb rh p : α) :
    Gen.Psychro.db_temp_and_hr_from_wb_rh wb rh p = dbTempAndHrFromWbRh wb rh p := by
  simp only [Gen.Psychro.db_temp_and_hr_from_wb_rh, C09_gen_eq_humid_ratio_from_db_rh] <;> rfl

/-! ### one-line compositions around the hand-modelled solvers -/

theorem C09_gen_eq_wet_bulb_from_db_hr (db hr p : α) :
    Gen.Psychro.wet_bulb_from_db_hr db hr p = wetBulbFromDbHr db hr p := by
  simp only [Gen.Psychro.wet_bulb_from_db_hr, C09_gen_eq_rel_humid_from_db_hr] <;> rfl

theorem C09_gen_eq_dew_point_from_db_hr (db hr p : α) :
    Gen.Psychro.dew_point_from_db_hr db hr p = dewPointFromDbHr db hr p := by
  simp only [Gen.Psychro.dew_point_from_db_hr, C09_gen_eq_rel_humid_from_db_hr] <;> rfl

theorem C09_gen_eq_dew_point_from_db_enth (db e p ref : α) :
    Gen.Psychro.dew_point_from_db_enth db e p ref = dewPointFromDbEnth db e p ref := by
  simp only [Gen.Psychro.dew_point_from_db_enth, C09_gen_eq_rel_humid_from_db_enth] <;> rfl

theorem C09_gen_eq_dew_point_from_db_wb (db wb p : α) :
    Gen.Psychro.dew_point_from_db_wb db wb p = dewPointFromDbWb db wb p := by
  simp only [Gen.Psychro.dew_point_from_db_wb, C09_gen_eq_rel_humid_from_db_wb] <;> rfl

/-! ### straight-line pieces of the hand-modelled solvers -/

theorem C09_gen_eq_piece_dew_pw (db rh : α) : Gen.Psychro.dew_pw db rh = dewPw db rh := by
  simp only [Gen.Psychro.dew_pw, C09_gen_eq_saturated_vapor_pressure] <;> rfl

theorem C09_gen_eq_piece_dew_newton_step (td lnVp : α) :
    Gen.Psychro.dew_newton_step td lnVp = newtonStep lnVp td := by
  simp only [Gen.Psychro.dew_newton_step, C09_gen_eq_saturated_vapor_pressure, C09_gen_eq_d_ln_p_ws] <;> rfl

theorem C09_gen_eq_piece_dew_newton_stop (td tdIter : α) :
    Gen.Psychro.dew_newton_stop td tdIter = newtonStop td tdIter := rfl

theorem C09_gen_eq_piece_dew_newton_max_index : Gen.Psychro.dew_newton_max_index = newtonMaxIndex := rfl

theorem C09_gen_eq_piece_dew_clamp (td db : α) : Gen.Psychro.dew_clamp td db = dewClamp td db := rfl

theorem C09_gen_eq_piece_wb_init (db rh p : α) :
    Gen.Psychro.wb_init db rh p =
      ((bisInit db rh p).1, (bisInit db rh p).2.sup, (bisInit db rh p).2.inf, (bisInit db rh p).2.wb) := by
  simp only [Gen.Psychro.wb_init, C09_gen_eq_humid_ratio_from_db_rh] <;> rfl

theorem C09_gen_eq_piece_wb_continue (sup inf : α) :
    Gen.Psychro.wb_continue sup inf = bisContinue sup inf := rfl

theorem C09_gen_eq_piece_wb_step (db hr p : α) (s : Bis α) :
    Gen.Psychro.wb_step db hr p s.sup s.inf s.wb =
      ((bisStep db hr p s).sup, (bisStep db hr p s).inf, (bisStep db hr p s).wb) := by
  unfold Gen.Psychro.wb_step bisStep
  simp only [C09_gen_eq_humid_ratio_from_db_wb]
  by_cases h : hr < humidRatioFromDbWb db s.wb p <;> simp [h]

theorem C09_gen_eq_piece_wb_max_index : Gen.Psychro.wb_max_index = bisMaxIndex := rfl

theorem C09_gen_eq_piece_fast_e (db rh : α) : Gen.Psychro.fast_e db rh = fastE db rh := rfl

theorem C09_gen_eq_piece_wb_fast_e (db rh : α) : Gen.Psychro.wb_fast_e db rh = fastE db rh := rfl

theorem C09_gen_eq_piece_dew_fast_value (e : α) : Gen.Psychro.dew_fast_value e = dewFastValue e := rfl

theorem C09_gen_eq_piece_wb_fast_continue (ed : α) :
    Gen.Psychro.wb_fast_continue ed = fastContinue ed := rfl

theorem C09_gen_eq_piece_wb_fast_ed (tw p db e : α) :
    Gen.Psychro.wb_fast_ed tw p db e = fastEd tw p db e := rfl

/-! ### users -/

theorem C09_gen_eq_chart_t_x_value (c : Chart α) (t : α) :
    Gen.Psychro.t_x_value c.baseX c.xDim c.minT t = c.tX t := rfl

theorem C09_gen_eq_chart_hr_y_value (c : Chart α) (hr : α) :
    Gen.Psychro.hr_y_value c.baseY c.yDim hr = c.hrY hr := rfl

theorem C09_gen_eq_temperature_C_to_F (v : α) : Gen.Psychro.temperature_C_to_F v = cToF v := rfl

theorem C09_gen_eq_temperature_F_to_C (v : α) : Gen.Psychro.temperature_F_to_C v = fToC v := rfl

end Psychro
