/-
  C03, round 4: culling a continuous collection to a timestep that DIVIDES its own is grid-faithful.

  `convert_to_culled_timestep(ts)` keeps the datetimes with `moy % (60 / ts) == 0`.  For a period at
  `timestep` and a valid `ts` with `ts ∣ timestep`, those are exactly the datetimes of the same period
  at `ts` – in the same (chronological) order.  This removes the `FaithfulHist` hypothesis of
  `C03_history_refines_fresh` for every history whose culling steps divide (Props/C03.lean:
  `C03_history_refines_fresh_cont`); a culling step that does NOT divide is C02's known finding
  (`C02-cont-cull-nondividing-timestep`), there the claim is false.

  Rests on C04: `C04_mem_moys` (the enumeration is the description `Pred`) and `C04_moys_chrono` (it is
  strictly increasing counted cyclically from the start), and on C08 through `C04_datetimes`.
-/
import Ladybug.Proofs.C03Obj

open Cal

namespace Grp

/-- Two lists that are strictly increasing under the same key and have the same members are equal. -/
theorem keyed_sorted_ext (f : Nat → Nat) : ∀ l₁ l₂ : List Nat, (l₁.map f).Pairwise (· < ·) →
    (l₂.map f).Pairwise (· < ·) → (∀ x, x ∈ l₁ ↔ x ∈ l₂) → l₁ = l₂
  | [], [], _, _, _ => rfl
  | [], b :: t, _, _, h => by have := (h b).mpr (by simp); simp at this
  | a :: t, [], _, _, h => by have := (h a).mp (by simp); simp at this
  | a :: t₁, b :: t₂, h1, h2, h => by
    simp only [List.map_cons, List.pairwise_cons, List.mem_map, forall_exists_index, and_imp,
      forall_apply_eq_imp_iff₂] at h1 h2
    obtain ⟨ha, p1⟩ := h1
    obtain ⟨hb, p2⟩ := h2
    have hab : a = b := by
      have h3 := (h a).mp (by simp)
      have h4 := (h b).mpr (by simp)
      rcases List.mem_cons.mp h3 with e | h3
      · exact e
      · rcases List.mem_cons.mp h4 with e | h4
        · exact e.symm
        · have := ha b h4
          have := hb a h3
          omega
    subst hab
    have ht : t₁ = t₂ := by
      apply keyed_sorted_ext f t₁ t₂ p1 p2
      intro x
      constructor
      · intro hx
        rcases List.mem_cons.mp ((h x).mp (List.mem_cons_of_mem _ hx)) with e | hx'
        · subst e
          have := ha x hx
          omega
        · exact hx'
      · intro hx
        rcases List.mem_cons.mp ((h x).mpr (List.mem_cons_of_mem _ hx)) with e | hx'
        · subst e
          have := hb x hx
          omega
        · exact hx'
    rw [ht]

/-- For valid timesteps, `b ∣ a` (steps per hour) gives `60 / a ∣ 60 / b` (minutes per step). -/
theorem step_dvd_of_timestep_dvd : ∀ a ∈ Gen.Ap.validTimesteps, ∀ b ∈ Gen.Ap.validTimesteps,
    b ∣ a → (60 / a) ∣ (60 / b) := by
  decide

/-- The period at another timestep: same dates, same hour window, same kind of year. -/
abbrev atTimestep (ap : AP) (ts : Nat) : AP := { ap with timestep := ts }

theorem atTimestep_wf (ap : AP) (hwf : ap.WF) (ts : Nat) (hts : ts ∈ Gen.Ap.validTimesteps) :
    (atTimestep ap ts).WF := ⟨hwf.1, hwf.2.1, hts⟩

/-- **The steps of the period that lie on the coarser grid are the steps of the period at the coarser
    timestep**, in the same order (any hour window, wrapping or not, leap or not). -/
theorem moys_cull (ap : AP) (hwf : ap.WF) (ts : Nat) (hts : ts ∈ Gen.Ap.validTimesteps)
    (hdiv : ap.step ∣ 60 / ts) :
    ap.moys.filter (fun m => decide (m % (60 / ts) = 0)) = (atTimestep ap ts).moys := by
  have hwf' := atTimestep_wf ap hwf ts hts
  apply keyed_sorted_ext ap.chronoKey
  · exact List.Pairwise.sublist ((List.filter_sublist).map _) (AP.C04_moys_chrono ap hwf)
  · exact AP.C04_moys_chrono (atTimestep ap ts) hwf'
  · intro x
    rw [List.mem_filter, AP.C04_mem_moys ap hwf x, AP.C04_mem_moys _ hwf' x]
    simp only [decide_eq_true_eq]
    constructor
    · rintro ⟨⟨h1, _, h3, h4⟩, h5⟩
      exact ⟨h1, h5, h3, h4⟩
    · rintro ⟨h1, h2, h3, h4⟩
      have h2' : x % (60 / ts) = 0 := h2
      refine ⟨⟨h1, ?_, h3, h4⟩, h2'⟩
      exact Nat.mod_eq_zero_of_dvd (Nat.dvd_trans hdiv (Nat.dvd_of_mod_eq_zero h2'))

/-- `filter` after `filterMap` = `filterMap` after `filter`, when the two tests agree on the images. -/
theorem filter_filterMap_comm {α β : Type} (g : α → Option β) (p : α → Bool) (q : β → Bool) :
    ∀ l : List α, (∀ a ∈ l, ∀ b, g a = some b → q b = p a) →
      (l.filterMap g).filter q = (l.filter p).filterMap g
  | [], _ => rfl
  | a :: t, h => by
    have ih := filter_filterMap_comm g p q t (fun a ha => h a (List.mem_cons_of_mem _ ha))
    cases hg : g a with
    | none =>
      by_cases hp : p a = true
      · simp [hg, hp, ih]
      · simp [hg, hp, ih]
    | some b =>
      have hq := h a (by simp) b hg
      by_cases hp : p a = true
      · have hq' : q b = true := by rw [hq, hp]
        simp [hg, hp, hq', ih]
      · have hq' : q b = false := by rw [hq]; simpa using hp
        simp [hg, hp, hq', ih]

/-- **Culling the datetimes of a period to a dividing timestep gives the datetimes of the period at
    that timestep.** -/
theorem cull_contDts (ap : AP) (hwf : ap.WF) (ts : Nat) (hts : ts ∈ Gen.Ap.validTimesteps)
    (hdiv : ap.step ∣ 60 / ts) :
    cullDts ts (contDts ap) = contDts (atTimestep ap ts) := by
  unfold cullDts contDts
  rw [filter_filterMap_comm _ (fun m => decide (m % (60 / ts) = 0)) (cullKeep ts)]
  · rw [moys_cull ap hwf ts hts hdiv]
  · intro m hm d hd
    obtain ⟨_, _, hdt⟩ := AP.C04_datetimes ap hwf
    obtain ⟨d', h1, _, h3, _⟩ := hdt m hm
    rw [h1] at hd
    simp [Except.toOption] at hd
    unfold cullKeep
    rw [← hd, h3]

/-- `analysis_period.datetimes` never fails on a well-formed period: it is `contDts`. -/
theorem datetimes_eq_contDts (ap : AP) (hwf : ap.WF) : ap.datetimes = (contDts ap).map .ok := by
  obtain ⟨_, _, hdt⟩ := AP.C04_datetimes ap hwf
  unfold AP.datetimes contDts
  generalize ap.moys = l at hdt
  induction l with
  | nil => rfl
  | cons m t ih =>
    obtain ⟨d, h1, _⟩ := hdt m (by simp)
    have ih' := ih (fun m' hm' => hdt m' (List.mem_cons_of_mem _ hm'))
    simp only [List.map_cons, List.filterMap_cons, h1, Except.toOption, ih']

end Grp
