/-
  C10 — the translator tie.  `Gen/SkyFormulas.lean` is regenerated on every check run from
  ladybug/skymodel.py, wea.py and designday.py by tools/extract/sky_formulas.py (statement-by-statement
  translation, tools/extract/pyexpr2lean.py).  Each theorem below states that a hand-written model
  function of Model/Sky.lean (what Props/C10.lean is about) IS the generated definition, or — for
  functions with loops / try / `None` / string dispatch — the hand-written glue around the generated
  pieces, for every numeric type `α` of the generic interface at once (`Float` run by the driver, `ℝ`
  of the theorems).  All proofs are `rfl` (definitional unfolding; no Mathlib).  A change of a formula,
  constant, threshold or branch test in the Python source regenerates a definition that is no longer
  the model and breaks exactly the theorem of that function/branch; a rewrite that keeps the expression
  tree (comments, renamed locals, re-wrapped lines) stays quiet.

  Hand-modelled glue (tied by correspondence only): loops over lists, `try/except OverflowError`,
  `None` handling, `model.lower()` dispatch, `dhi == 0` / `== -1` tests, look-ups in the tables of
  Gen/SkyTables, raised errors, ladybug_geometry's Vector3D.angle.
-/
import Ladybug.Gen.SkyFormulas
import Ladybug.Model.Sky

set_option linter.unusedSectionVars false

namespace Sky

variable {α : Type} [Add α] [Sub α] [Mul α] [Div α] [Neg α] [OfScientific α]
  [LT α] [LE α] [DecidableLT α] [DecidableLE α] [Transc α]

/- The generated branch tests are `@[reducible]` `Prop`-valued definitions, so `if <test> then … else …`
   below uses the Decidable instance of the comparison it abbreviates, i.e. the model's own `if`. -/

/-! ### whole functions -/

theorem C10_gen_eq_get_extra_radiation (doy sc : α) :
    Gen.Sky.get_extra_radiation doy sc = extraRadiation doy sc := rfl

theorem C10_gen_eq_clearness_index (ghi alt ex ms mk : α) :
    Gen.Sky.clearness_index ghi alt ex ms mk = clearnessIndex ghi alt ex ms mk := rfl

theorem C10_gen_eq_disc_kn (kt am mx : α) : Gen.Sky.disc_kn kt am mx = discKn kt am mx := rfl

theorem C10_gen_eq_zhang_huang_solar (alt cc rh t t3 ws irr0 : α) :
    Gen.Sky.zhang_huang_solar alt cc rh t t3 ws irr0 = zhangHuangSolar alt cc rh t t3 ws irr0 := rfl

/- `calc_horizontal_infrared`: the model is the generated value, guarded by `math.log`'s domain. -/
theorem C10_gen_eq_calc_horizontal_infrared (sc db dp : α) :
    horizontalInfrared sc db dp =
      if (dp + 273.15) / 273.15 ≤ 0.0 then .error .value
      else .ok (Gen.Sky.calc_horizontal_infrared sc db dp) := rfl

/- `calc_sky_temperature`: the generated value, guarded by the ZeroDivisionError. -/
theorem C10_gen_eq_calc_sky_temperature (h e : α) :
    skyTemperature h e =
      if IsZero (e * 5.6697e-8) then .error .zero else .ok (Gen.Sky.calc_sky_temperature h e) := rfl

/-! ### clear-sky models -/

/- `ashrae_clear_sky`, one altitude: branch test and body of the `if alt > 0` / `try` block. -/
theorem C10_gen_eq_ashrae_clear_sky (a b alt cl : α) :
    clearSkyAt a b alt cl =
      if Gen.Sky.clear_sky_is_day alt then Gen.Sky.clear_sky_day alt a b cl else (0.0, 0.0) := rfl

theorem C10_gen_eq_revised_coefficients (tb td : α) (u : Bool) :
    revisedAb tb td u = (if u then Gen.Sky.revised_ab_2017 tb td else Gen.Sky.revised_ab_2009 tb td) ∧
    revisedAd tb td u = (if u then Gen.Sky.revised_ad_2017 tb td else Gen.Sky.revised_ad_2009 tb td) :=
  ⟨rfl, rfl⟩

/- `ashrae_revised_clear_sky`, one altitude. -/
theorem C10_gen_eq_ashrae_revised_clear_sky (alt tb td : α) (u : Bool) :
    revisedClearSky1 alt tb td u =
      if Gen.Sky.revised_is_day alt then
        match relativeAirmass alt .kastenyoung1989 with
        | .ok (some am) =>
          .ok (Gen.Sky.revised_dir tb am (revisedAb tb td u), Gen.Sky.revised_dif td am (revisedAd tb td u))
        | .ok none => .error .type
        | .error e => .error e
      else .ok (0.0, 0.0) := rfl

/-! ### Zhang-Huang split -/

theorem C10_gen_eq_zh_split_disc_step (r : ZRow α) :
    zhDiscStep r =
      match disc (zhGlob r) r.alt r.doy (some r.p) 0.065 3.0 12.0 with
      | .error e => .error e
      | .ok d => .ok (d.1, Gen.Sky.zh_split_dhi_disc (zhGlob r) d.1 r.alt) := rfl

theorem C10_gen_eq_zh_split (rows : List (ZRow α)) (tempDew : List α) (useDisc : Bool) :
    zhSplit rows tempDew useDisc =
      (do
        if useDisc then
          rows.mapM zhDiscStep
        else
          let dni ← dirint (rows.map fun r => (zhGlob r, r.alt, r.doy, r.p)) true (some tempDew) 0.065 3.0
          pure ((rows.zip dni).map fun (x : ZRow α × α) =>
            (x.2, Gen.Sky.zh_split_dhi_dirint (zhGlob x.1) x.2 x.1.alt))) := rfl

/-! ### clearness indices, air mass -/

theorem C10_gen_eq_clearness_index_zenith_independent (kt : α) (am : Option α) (mk : α) :
    ktPrime kt am mk =
      match am with
      | none => .ok 0.0
      | some am => if IsZero am then .error .zero else .ok (Gen.Sky.kt_prime_value kt am mk) := rfl

theorem C10_gen_eq_get_absolute_airmass (am : Option α) (p : α) :
    absoluteAirmass am p =
      match am with
      | some a => some (Gen.Sky.absolute_airmass_value a p)
      | none => none := rfl

/- `get_relative_airmass`: `None` below the horizon, for every model. -/
theorem C10_gen_eq_airmass_none (altitude : α) (m : AmModel) (h : Gen.Sky.am_is_none altitude) :
    relativeAirmass altitude m = .ok none := by
  unfold relativeAirmass
  exact if_pos h

theorem C10_gen_eq_airmass_kastenyoung1989 (altitude : α) (h : ¬ Gen.Sky.am_is_none altitude) :
    relativeAirmass altitude .kastenyoung1989 =
      .ok (some (Gen.Sky.am_kastenyoung1989 (Gen.Sky.am_alt_rad altitude) altitude)) := by
  unfold relativeAirmass
  exact if_neg h

theorem C10_gen_eq_airmass_kasten1966 (altitude : α) (h : ¬ Gen.Sky.am_is_none altitude) :
    relativeAirmass altitude .kasten1966 =
      .ok (some (Gen.Sky.am_kasten1966 (Gen.Sky.am_alt_rad altitude) altitude)) := by
  unfold relativeAirmass
  exact if_neg h

/- `simple` (as repaired in /repo): 1/sin(alt_rad), ZeroDivisionError at sin = 0. -/
theorem C10_gen_eq_airmass_simple (altitude : α) (h : ¬ Gen.Sky.am_is_none altitude) :
    relativeAirmass altitude .simple =
      if IsZero (Transc.sin (Gen.Sky.am_alt_rad altitude)) then .error .zero
      else .ok (some (Gen.Sky.am_simple (Gen.Sky.am_alt_rad altitude))) := by
  unfold relativeAirmass
  exact if_neg h

theorem C10_gen_eq_airmass_pickering2002 (altitude : α) (h : ¬ Gen.Sky.am_is_none altitude) :
    relativeAirmass altitude .pickering2002 = .ok (some (Gen.Sky.am_pickering2002 altitude)) := by
  unfold relativeAirmass
  exact if_neg h

theorem C10_gen_eq_airmass_youngirvine1967 (altitude : α) (h : ¬ Gen.Sky.am_is_none altitude) :
    relativeAirmass altitude .youngirvine1967 =
      if IsZero (Transc.sin (Gen.Sky.am_alt_rad altitude)) then .error .zero
      else .ok (some (Gen.Sky.am_youngirvine1967 (Gen.Sky.am_alt_rad altitude))) := by
  unfold relativeAirmass
  exact if_neg h

theorem C10_gen_eq_airmass_young1994 (altitude : α) (h : ¬ Gen.Sky.am_is_none altitude) :
    relativeAirmass altitude .young1994 =
      .ok (some (Gen.Sky.am_young1994 (Gen.Sky.am_alt_rad altitude))) := by
  unfold relativeAirmass
  exact if_neg h

theorem C10_gen_eq_airmass_gueymard1993 (altitude : α) (h : ¬ Gen.Sky.am_is_none altitude) :
    relativeAirmass altitude .gueymard1993 =
      .ok (some (Gen.Sky.am_gueymard1993 (Gen.Sky.am_alt_rad altitude) altitude)) := by
  unfold relativeAirmass
  exact if_neg h

/-! ### DISC / DIRINT -/

/- The two call sites inside `disc` (shape of the calls only: the callees have their own theorems, so a
    change inside `get_extra_radiation` / `clearness_index` / `_disc_kn` does not cascade here). -/
theorem C10_gen_eq_disc_calls (ghi altitude doy minSin kt am maxAm : α) :
    Gen.Sky.disc_i0_kt ghi altitude doy minSin =
      (Gen.Sky.get_extra_radiation doy 1370.0,
       Gen.Sky.clearness_index ghi altitude (Gen.Sky.get_extra_radiation doy 1370.0) minSin 1.0) ∧
    Gen.Sky.disc_kn_call kt am maxAm = Gen.Sky.disc_kn kt am maxAm := ⟨rfl, rfl⟩

theorem C10_gen_eq_disc (ghi altitude doy : α) (pressure : Option α) (minSin minAlt maxAm : α) :
    disc ghi altitude doy pressure minSin minAlt maxAm =
      if Gen.Sky.disc_is_day altitude minAlt ghi then
        let i0 : α := extraRadiation doy 1370.0
        let kt : α := clearnessIndex ghi altitude i0 minSin 1.0
        match relativeAirmass altitude .kasten1966 with
        | .error e => .error e
        | .ok am0 =>
          let am1 : Option α := match pressure with
            | some p => absoluteAirmass am0 p
            | none => am0
          match am1 with
          | none => .error .type
          | some am =>
            let r := discKn kt am maxAm
            .ok (Gen.Sky.disc_dni r.1 i0, kt, some r.2)
      else .ok (0.0, 0.0, none) := rfl

theorem C10_gen_eq_dirint_delta (ks : List α) (i : Nat) :
    deltaKtPrime ks i =
      match ks[i]?, Py.getIdx? ks ((i : Int) - 1) with
      | some k, some prev =>
        let next : α := match ks[i + 1]? with
          | some x => x
          | none => ks.headD k
        some (Gen.Sky.dirint_delta k next prev)
      | _, _ => none := rfl

theorem C10_gen_eq_dirint_coefficient (step1 : List (α × α)) (useDelta : Bool) (tempDew : Option (List α))
    (i : Nat) (s : α × α) (r : DRow α) :
    dirintCoefAt step1 useDelta tempDew i s r =
      (do
        let dk : Option α := if useDelta then deltaKtPrime (step1.map (·.2)) i else none
        if useDelta ∧ dk.isNone then throw Err.index
        let w : Option α ← match tempDew with
          | none => pure none
          | some tds =>
            match tds[i]? with
            | some td => pure (some (Gen.Sky.dirint_w td))
            | none => throw Err.index
        dirintCoeff (α := α) (ktpBin s.2) (altBin r.2.1) (dktpBin dk) (wBin w)) := rfl

theorem C10_gen_eq_dirint_step (rows : List (DRow α)) (step1 : List (α × α)) (useDelta : Bool)
    (tempDew : Option (List α)) (i : Nat) :
    dirintStep2 rows step1 useDelta tempDew i =
      match step1[i]?, rows[i]? with
      | some s, some r =>
        match dirintCoefAt step1 useDelta tempDew i s r with
        | .ok c => .ok (Gen.Sky.dirint_dni s.1 c)
        | .error e => .error e
      | _, _ => .error .index := rfl

theorem C10_gen_eq_dirint_bins_ktp (k : α) :
    ktpBin k =
      if Gen.Sky.ktp_bin_0 k then 0 else if Gen.Sky.ktp_bin_1 k then 1
      else if Gen.Sky.ktp_bin_2 k then 2 else if Gen.Sky.ktp_bin_3 k then 3
      else if Gen.Sky.ktp_bin_4 k then 4 else if Gen.Sky.ktp_bin_5 k then 5 else -1 := rfl

theorem C10_gen_eq_dirint_bins_alt (a : α) :
    altBin a =
      if Gen.Sky.alt_bin_0 a then 0 else if Gen.Sky.alt_bin_1 a then 1
      else if Gen.Sky.alt_bin_2 a then 2 else if Gen.Sky.alt_bin_3 a then 3
      else if Gen.Sky.alt_bin_4 a then 4 else if Gen.Sky.alt_bin_5 a then 5 else -1 := rfl

theorem C10_gen_eq_dirint_bins_w (w : Option α) :
    wBin w =
      match w with
      | none => 4
      | some w =>
        if Gen.Sky.w_bin_0 w then 0 else if Gen.Sky.w_bin_1 w then 1
        else if Gen.Sky.w_bin_2 w then 2 else if Gen.Sky.w_bin_3 w then 3 else -1 := rfl

theorem C10_gen_eq_dirint_bins_dktp (d : Option α) :
    dktpBin d =
      match d with
      | none => 6
      | some d =>
        if Gen.Sky.dktp_bin_0 d then 0 else if Gen.Sky.dktp_bin_1 d then 1
        else if Gen.Sky.dktp_bin_2 d then 2 else if Gen.Sky.dktp_bin_3 d then 3
        else if Gen.Sky.dktp_bin_4 d then 4 else if Gen.Sky.dktp_bin_5 d then 5 else -1 := rfl

/-! ### luminous efficacy -/

theorem C10_gen_eq_illuminance_categories (eps : α) :
    epsCategory eps =
      if Gen.Sky.illum_cat_0 eps then some 0 else if Gen.Sky.illum_cat_1 eps then some 1
      else if Gen.Sky.illum_cat_2 eps then some 2 else if Gen.Sky.illum_cat_3 eps then some 3
      else if Gen.Sky.illum_cat_4 eps then some 4 else if Gen.Sky.illum_cat_5 eps then some 5
      else if Gen.Sky.illum_cat_6 eps then some 6 else if Gen.Sky.illum_cat_7 eps then some 7
      else none := rfl

theorem C10_gen_eq_estimate_illuminance_from_irradiance (altitude ghi dni dhi dew : α)
    (relAm : Option α) :
    illuminance altitude ghi dni dhi dew relAm =
      (do
        if Gen.Sky.illum_is_night altitude then return (0.0, 0.0, 0.0, 0.0)
        let am : α ← match relAm with
          | some a => pure a
          | none =>
            match relativeAirmass altitude .kastenyoung1989 with
            | .ok (some a) => pure a
            | .ok none => throw Err.type
            | .error e => throw e
        let zenith : α := Gen.Sky.illum_zenith altitude
        let dhi : α := if IsZero dhi then 0.1 else dhi
        let edw := Gen.Sky.illum_eps_delta_w zenith dhi dni am dew
        match epsCategory edw.1 with
        | none => throw Err.value
        | some cat =>
          if edw.2.1 ≤ 0.0 then throw Err.value
          let g ← row4 (Gen.Sky.lumGlob (α := α)) cat
          let d ← row4 (Gen.Sky.lumDir (α := α)) cat
          let f ← row4 (Gen.Sky.lumDiff (α := α)) cat
          let z ← row4 (Gen.Sky.lumZen (α := α)) cat
          return (Gen.Sky.illum_gh ghi g.1 g.2.1 g.2.2.1 g.2.2.2 edw.2.2 zenith edw.2.1,
                  Gen.Sky.illum_dn dni d.1 d.2.1 d.2.2.1 d.2.2.2 edw.2.2 zenith edw.2.1,
                  Gen.Sky.illum_dh dhi f.1 f.2.1 f.2.2.1 f.2.2.2 edw.2.2 zenith edw.2.1,
                  Gen.Sky.illum_z dhi z.1 z.2.1 z.2.2.1 z.2.2.2 zenith edw.2.1)) := rfl

/-! ### Wea / design day -/

theorem C10_gen_eq_wea_global_horizontal (sunAlt dnr dhr : α) :
    Gen.Sky.wea_global_horizontal dhr dnr sunAlt = globalHorizontal sunAlt dnr dhr := rfl

theorem C10_gen_eq_wea_direct_horizontal (sunAlt dnr : α) :
    Gen.Sky.wea_direct_horizontal dnr sunAlt = directHorizontal sunAlt dnr := rfl

theorem C10_gen_eq_pol2cart (phi theta : α) : Gen.Sky.pol2cart phi theta = pol2cart phi theta := rfl

/- `Wea.directional_irradiance`, one time step: the generated pieces around the hand-modelled
    `Vector3D.angle`. -/
theorem C10_gen_eq_wea_directional_irradiance (sunAlt sunAz dnr dhr altitude azimuth refl : α)
    (isotropic : Bool) :
    directional sunAlt sunAz dnr dhr altitude azimuth refl isotropic =
      (do
        let normal := Gen.Sky.pol2cart (radians azimuth) (radians altitude)
        let sunVec := Gen.Sky.pol2cart (radians sunAz) (radians sunAlt)
        let ang ← vecAngle sunVec normal
        let srfDir : α := Gen.Sky.dir_srf_dir sunAlt ang dnr
        let srfDif : α :=
          if isotropic then Gen.Sky.dir_srf_dif_iso dhr altitude
          else Gen.Sky.dir_srf_dif_aniso ang dhr altitude
        let srfRef : α := Gen.Sky.dir_srf_ref dhr dnr sunAlt refl altitude
        return (Gen.Sky.dir_total srfDir srfDif srfRef, srfDir, srfDif, srfRef)) := rfl

theorem C10_gen_eq_designday_clear (alt : α) (month : Int) (cl : α) :
    designDayClearSky1 alt month cl =
      match clearSky1 alt month cl with
      | .ok r => .ok (r.1, r.2, Gen.Sky.designday_glob_clear r.2 r.1 alt)
      | .error e => .error e := rfl

theorem C10_gen_eq_designday_tau (alt tb td : α) (u : Bool) :
    designDayTau1 alt tb td u =
      match revisedClearSky1 alt tb td u with
      | .ok r => .ok (r.1, r.2, Gen.Sky.designday_glob_tau r.2 r.1 alt)
      | .error e => .error e := rfl

end Sky
