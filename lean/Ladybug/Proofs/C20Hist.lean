/-
  Helper lemmas for the round-3 theorems of C20: invariance of the slot invariant under the steps of an
  object history, state-independence of observations, positivity of the row areas.
-/
import Mathlib.Tactic.Linarith
import Mathlib.Tactic.Ring
import Mathlib.Tactic.Positivity
import Mathlib.Algebra.Order.Field.Basic
import Ladybug.Model.DomeObj
import Ladybug.Proofs.C20Lemmas

namespace Dome

theorem lazy_writes_designated (p : LazyProp) : ∀ w ∈ p.writes, w.2 = w.1.designated := by
  cases p <;> decide

section History
variable {C E R : Type} (ans : C → Except E R)

/-- A getter read on an object whose slots are empty or correctly filled returns the documented content
and leaves the object in such a state. -/
theorem lazy_read_inv (st : LState) (h : LazyInv st) (p : LazyProp) :
    (st.read p).1 = some p.designated ∧ LazyInv (st.read p).2 := by
  unfold LState.read
  cases hp : st p.slot with
  | some c =>
    have : c = p.designated := by
      rcases h p.slot with h' | h'
      · rw [hp] at h'; cases h'
      · rw [hp] at h'; exact Option.some.inj h'
    exact ⟨by simp [this], h⟩
  | none =>
    exact ⟨lazy_assign_own st p, lazy_assign_inv st _ h (lazy_writes_designated p)⟩

theorem step_inv (st : Obj) (h : LazyInv st) (o : Op C) : LazyInv (step ans st o).1 := by
  cases o with
  | read p => exact (lazy_read_inv st h p).2
  | call c => simp only [step]; split <;> exact h
  | scribble => exact h
  | renew => exact fun _ => Or.inl rfl

theorem runState_inv (st : Obj) (h : LazyInv st) (ops : List (Op C)) : LazyInv (runState ans st ops) := by
  induction ops generalizing st with
  | nil => exact h
  | cons o rest ih => exact ih _ (step_inv ans st h o)

/-- What a step shows does not depend on the (well-formed) state it is made in. -/
theorem observe_of_inv (st : Obj) (h : LazyInv st) (o : Op C) :
    observe ans st o = observe ans LState.empty o := by
  cases o with
  | read p =>
    have h1 := (lazy_read_inv st h p).1
    have h2 := (lazy_read_inv LState.empty (fun _ => Or.inl rfl) p).1
    simp only [observe, step, h1, h2]
  | call c => simp only [observe, step]; split <;> rfl
  | scribble => rfl
  | renew => rfl

end History

section Pos
variable {α : Type} [Field α] [LinearOrder α] [IsStrictOrderedRing α]

theorem rowsAreas_pos (twoPi : α) (htp : 0 < twoPi) (s : Nat → α) (h0 : s 0 = 0)
    (hs : ∀ i, s i < s (i + 1)) (rows : List Nat) (hr : ∀ c ∈ rows, 0 < c) (i : Nat) :
    ∀ a ∈ rowsAreas twoPi s rows i, 0 < a := by
  induction rows generalizing i with
  | nil => intro a ha; simp [rowsAreas] at ha
  | cons c rest ih =>
    intro a ha
    simp only [rowsAreas, List.mem_append, List.mem_replicate] at ha
    rcases ha with ⟨_, rfl⟩ | ha
    · have hc : (0 : α) < (c : α) := by exact_mod_cast hr c (by simp)
      apply div_pos _ hc
      by_cases hi : i = 0
      · subst hi
        have := hs 0
        simp only [capAt, if_true, Nat.zero_add, one_ne_zero, if_false]
        rw [h0] at this
        nlinarith
      · have := hs i
        simp only [capAt, hi, if_false, Nat.add_eq_zero_iff, one_ne_zero, and_false]
        nlinarith
    · exact ih (fun c' hc' => hr c' (by simp [hc'])) (i + 1) a ha

end Pos

section Radial
variable {α : Type} [Field α]

/-- True solid angles of the cells of a radial dome: `k` rows (from row index `i` on) of `az` equal azimuth
sectors, `(2π / az)·(s (i+1) − s i)` each; no separate zenith patch. -/
def trueRadialAngles (twoPi : α) (s : Nat → α) (az : Nat) : Nat → Nat → List α
  | 0, _ => []
  | k + 1, i => List.replicate az (twoPi / (az : α) * (s (i + 1) - s i)) ++ trueRadialAngles twoPi s az k (i + 1)

theorem rowsAreas_replicate_eq (twoPi : α) (s : Nat → α) (h0 : s 0 = 0) (az k i : Nat) :
    rowsAreas twoPi s (List.replicate k az) i = trueRadialAngles twoPi s az k i := by
  induction k generalizing i with
  | zero => simp [rowsAreas, trueRadialAngles]
  | succ k ih =>
    have hrow : (capAt twoPi s i - capAt twoPi s (i + 1)) / (az : α) = twoPi / (az : α) * (s (i + 1) - s i) := by
      by_cases hi : i = 0
      · subst hi; simp [capAt, h0]; ring
      · simp [capAt, hi]; ring
    simp only [List.replicate_succ, rowsAreas, trueRadialAngles, hrow, ih]

end Radial

end Dome
