/-
  The real-number instance of the generic numeric interface (Transc.lean): what the theorems of the
  numeric properties (C05, C09, C10, C11) are about.  Imported only by Proofs/ and Props/ files.
  `simp` lemmas `Transc.real_*` turn the interface functions into the Mathlib functions.
-/
import Mathlib.Analysis.SpecialFunctions.Log.Base
import Mathlib.Analysis.SpecialFunctions.Trigonometric.Arctan
import Mathlib.Analysis.SpecialFunctions.Trigonometric.Inverse
import Mathlib.Analysis.SpecialFunctions.Complex.Arg
import Mathlib.Analysis.Real.Sqrt
import Ladybug.Transc

noncomputable instance : Transc ℝ where
  sin := Real.sin
  cos := Real.cos
  tan := Real.tan
  asin := Real.arcsin
  acos := Real.arccos
  atan := Real.arctan
  atan2 := fun y x => Complex.arg ⟨x, y⟩
  exp := Real.exp
  log := Real.log
  pow := fun x y => x ^ y
  sqrt := Real.sqrt
  floor := fun x => (⌊x⌋ : ℝ)
  log10 := Real.logb 10
  pi := Real.pi

namespace Transc

@[simp] theorem real_sin (x : ℝ) : Transc.sin x = Real.sin x := rfl
@[simp] theorem real_cos (x : ℝ) : Transc.cos x = Real.cos x := rfl
@[simp] theorem real_tan (x : ℝ) : Transc.tan x = Real.tan x := rfl
@[simp] theorem real_asin (x : ℝ) : Transc.asin x = Real.arcsin x := rfl
@[simp] theorem real_acos (x : ℝ) : Transc.acos x = Real.arccos x := rfl
@[simp] theorem real_atan (x : ℝ) : Transc.atan x = Real.arctan x := rfl
@[simp] theorem real_atan2 (y x : ℝ) : Transc.atan2 y x = Complex.arg ⟨x, y⟩ := rfl
@[simp] theorem real_exp (x : ℝ) : Transc.exp x = Real.exp x := rfl
@[simp] theorem real_log (x : ℝ) : Transc.log x = Real.log x := rfl
@[simp] theorem real_pow (x y : ℝ) : Transc.pow x y = x ^ y := rfl
@[simp] theorem real_sqrt (x : ℝ) : Transc.sqrt x = Real.sqrt x := rfl
@[simp] theorem real_floor (x : ℝ) : Transc.floor x = (⌊x⌋ : ℝ) := rfl
@[simp] theorem real_log10 (x : ℝ) : Transc.log10 x = Real.logb 10 x := rfl
@[simp] theorem real_pi : (Transc.pi : ℝ) = Real.pi := rfl

/-- `math.fabs` over ℝ is the absolute value. -/
theorem real_fabs (x : ℝ) : Transc.fabs x = |x| := by
  unfold Transc.fabs
  split_ifs with h
  · have h' : x < 0 := by norm_num at h; exact h
    exact (abs_of_neg h').symm
  · have h' : 0 ≤ x := by norm_num at h; exact h
    exact (abs_of_nonneg h').symm

/-- `math.pow(x, 2)`, `x ** 2` with a float literal exponent: an ordinary monomial over ℝ. -/
theorem real_pow_two (x : ℝ) : Transc.pow x 2.0 = x ^ 2 := by
  show x ^ (2.0 : ℝ) = x ^ 2
  rw [show (2.0 : ℝ) = ((2 : ℕ) : ℝ) by norm_num, Real.rpow_natCast]

theorem real_pow_three (x : ℝ) : Transc.pow x 3.0 = x ^ 3 := by
  show x ^ (3.0 : ℝ) = x ^ 3
  rw [show (3.0 : ℝ) = ((3 : ℕ) : ℝ) by norm_num, Real.rpow_natCast]

theorem real_pow_four (x : ℝ) : Transc.pow x 4.0 = x ^ 4 := by
  show x ^ (4.0 : ℝ) = x ^ 4
  rw [show (4.0 : ℝ) = ((4 : ℕ) : ℝ) by norm_num, Real.rpow_natCast]

end Transc
