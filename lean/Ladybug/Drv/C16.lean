/- Model driver for C16 (stub: no ops yet). -/
import Ladybug.DrvCore

namespace DrvC16
def handle (_toks : List String) : String := "bad-op"
end DrvC16

def main : IO Unit := Drv.run DrvC16.handle
