/-
  Model driver for C16 (designday.py / ddy.py / location.py).  Line protocol: see DrvCore.
  Strings travel hex-encoded (UTF-8) with prefix `x`; numbers of the IDF layer are their Python `str()`
  text (hex-encoded as well) – the model treats them as opaque tokens (`NumTok String`).
-/
import Ladybug.DrvCore
import Ladybug.Model.DesignDay
import Ladybug.Model.DesignDayObj
import Ladybug.Model.DDYShapes

open Drv DD

namespace DrvC16

/-! ### hex strings -/

def hexVal? (c : Char) : Option Nat := hexDigit? c

def bytesOfHex : List Char → Option (List UInt8)
  | [] => some []
  | [_] => none
  | a :: b :: rest => do
    let x ← hexVal? a
    let y ← hexVal? b
    let tl ← bytesOfHex rest
    pure (UInt8.ofNat (x * 16 + y) :: tl)

/-- token `x<hex>` -> string -/
def str? (t : String) : Option String :=
  match t.toList with
  | 'x' :: cs => do
    let bs ← bytesOfHex cs
    String.fromUTF8? (ByteArray.mk bs.toArray)
  | _ => none

def hexByte (b : UInt8) : String := hexOfNat b.toNat 2

def encStr (s : String) : String := "x" ++ String.join (s.toUTF8.toList.map hexByte)

/-! ### numbers as text tokens -/

def digitsVal (cs : List Char) : Nat := cs.foldl (fun acc c => acc * 10 + (c.toNat - '0'.toNat)) 0

/-- Exact value of a decimal / scientific literal (the subset of `float()` syntax that is generated). -/
def parseDec (s : String) : Option Rat :=
  let cs := (strip s).toList
  let (neg, cs) := match cs with
    | '-' :: r => (true, r)
    | '+' :: r => (false, r)
    | r => (false, r)
  let ip := cs.takeWhile Char.isDigit
  let r1 := cs.dropWhile Char.isDigit
  let (fp, r2) := match r1 with
    | '.' :: r => (r.takeWhile Char.isDigit, r.dropWhile Char.isDigit)
    | r => ([], r)
  if ip.isEmpty && fp.isEmpty then none
  else
    let expo : Option Int := match r2 with
      | [] => some 0
      | e :: r =>
        if e == 'e' || e == 'E' then
          match r with
          | '+' :: d => if d.isEmpty || !d.all Char.isDigit then none else some (digitsVal d : Int)
          | '-' :: d => if d.isEmpty || !d.all Char.isDigit then none else some (-(digitsVal d : Int))
          | d => if d.isEmpty || !d.all Char.isDigit then none else some (digitsVal d : Int)
        else none
    match expo with
    | none => none
    | some ex =>
      let mant : Rat := (digitsVal (ip ++ fp) : Nat)
      let e10 : Int := ex - fp.length
      let v := if 0 ≤ e10 then mant * ((10 ^ e10.toNat : Nat) : Rat) else mant / ((10 ^ (-e10).toNat : Nat) : Rat)
      some (if neg then -v else v)

/-- Python's `int(text)` on the generated subset: surrounding blanks, an optional sign, decimal digits
    (`int('07') == 7`, `int('+7') == 7`, `int('7.0')` raises). -/
def pyInt? (s : String) : Option Int :=
  let cs := (strip s).toList
  let (neg, ds) := match cs with
    | '-' :: r => (true, r)
    | '+' :: r => (false, r)
    | r => (false, r)
  if ds.isEmpty || !ds.all Char.isDigit then none
  else some (if neg then -((digitsVal ds : Nat) : Int) else ((digitsVal ds : Nat) : Int))

#guard pyInt? "07" == some 7
#guard pyInt? " +7 " == some 7
#guard pyInt? "-12" == some (-12)
#guard pyInt? "7.0" == none
#guard pyInt? "" == none

instance : Tok String String where
  ofStr := id
  ofNum := id
  ofNat := toString
  text := id
  num? := fun s => if (parseDec s).isSome then some (strip s) else none
  int? := pyInt?
  isYes := fun s => s.toLower == "yes"

instance : NumVal String where
  zero := "0"
  toRat := fun s => (parseDec s).getD 0

/-! ### float lists -/

def finite (x : Float) : Bool := !(x.isNaN || x.isInf)

def showFloats (l : List Float) : String :=
  if l.all finite then "ok " ++ joinSp (l.map showFloatBits) else "nonfinite"

def humType? (s : String) : Option Psychro.HumType :=
  if s = "Wetbulb" then some .wetbulb
  else if s = "Dewpoint" then some .dewpoint
  else if s = "HumidityRatio" then some .humidityRatio
  else if s = "Enthalpy" then some .enthalpy
  else none

/-! ### design days on the wire -/

def showErr : DD.Err → String
  | .value => "err:value"
  | .index => "err:index"
  | .assert => "err:assert"

def showCalErr : Cal.Err → String
  | .value => "err:value"
  | .index => "err:index"
  | .type => "err:type"

def num (s : String) : String := "n" ++ (encStr s).drop 1

def showDD (d : DesignDay String) : String :=
  let sky := match d.sky.kind with
    | .base b f => ["base", encStr b, encStr f]
    | .clear c => ["clear", num c]
    | .tau b t u => ["tau", num b, num t, showBool u]
  joinSp ([encStr d.name, encStr d.dayType, num d.db.max, num d.db.range, encStr d.db.modType,
    encStr d.db.modSched, humTypeName d.hum.ty, num d.hum.value, num d.hum.pressure, showBool d.hum.rain,
    showBool d.hum.snow, encStr d.hum.schedule,
    (match d.hum.wetBulbRange with | .blank => "-" | .num x => num x),
    num d.wind.speed, num d.wind.dir, toString d.sky.date.month, toString d.sky.date.day,
    showBool d.sky.date.leap, showBool d.sky.dst] ++ sky)

def showLoc (l : Loc String) : String :=
  joinSp [encStr l.city, num l.lat, num l.lon, num l.tz, num l.elev]

/-- 23 tokens -> design day -/
def dd? (t : List String) : Option (DesignDay String × List String) :=
  match t with
  | name :: dayType :: dbMax :: dbRange :: modType :: modSched :: hty :: hval :: press :: rain :: snow ::
      sched :: wbr :: ws :: wd :: mo :: da :: leap :: dst :: kind :: a1 :: a2 :: a3 :: rest => do
    let name ← str? name
    let dayType ← str? dayType
    let dbMax ← str? dbMax
    let dbRange ← str? dbRange
    let modType ← str? modType
    let modSched ← str? modSched
    let ty ← humType? hty
    let hval ← str? hval
    let press ← str? press
    let rain ← bool? rain
    let snow ← bool? snow
    let sched ← str? sched
    let wbr : WBR String ← if wbr = "-" then some .blank else (fun s => WBR.num s) <$> str? wbr
    let ws ← str? ws
    let wd ← str? wd
    let mo ← mo.toNat?
    let da ← da.toNat?
    let leap ← bool? leap
    let dst ← bool? dst
    let x1 ← str? a1
    let x2 ← str? a2
    let kind : SkyKind String ←
      if kind = "base" then some (.base x1 x2)
      else if kind = "clear" then some (.clear x1)
      else if kind = "tau" then (fun u => SkyKind.tau x1 x2 u) <$> bool? a3
      else none
    pure ({ name := name, dayType := dayType, db := ⟨dbMax, dbRange, modType, modSched⟩,
            hum := ⟨ty, hval, press, rain, snow, sched, wbr⟩, wind := ⟨ws, wd⟩,
            sky := ⟨⟨mo, da, leap⟩, dst, kind⟩ }, rest)
  | _ => none

def dds? : Nat → List String → Option (List (DesignDay String))
  | 0, [] => some []
  | 0, _ => none
  | n + 1, t => do
    let (d, rest) ← dd? t
    let tl ← dds? n rest
    pure (d :: tl)

def loc? (t : List String) : Option (Loc String × List String) :=
  match t with
  | c :: la :: lo :: tz :: el :: rest => do
    pure (⟨← str? c, ← str? la, ← str? lo, ← str? tz, ← str? el⟩, rest)
  | _ => none

def kv? (toks : List String) : Option (List (String × String)) :=
  toks.mapM fun t =>
    match t.splitOn "=" with
    | [k, v] => do pure (← str? k, ← str? v)
    | _ => none

def showDts (l : List (Except Cal.Err Cal.DT)) : String :=
  match collect l with
  | .error e => showCalErr e
  | .ok ds => "ok " ++ joinSp (ds.map fun d => toString d.moy)

def date? (leap mo da : String) : Option Cal.D := do
  pure ⟨← mo.toNat?, ← da.toNat?, ← bool? leap⟩

/-! ### histories on one object (round 3) -/

def hexStr? (cs : List Char) : Option String := do
  let bs ← bytesOfHex cs
  String.fromUTF8? (ByteArray.mk bs.toArray)

def arg? (t : String) : Option (Arg String) :=
  match t.toList with
  | ['O'] => some .other
  | 'N' :: cs => (fun s => Arg.num s) <$> hexStr? cs
  | 'S' :: cs => (fun s => Arg.str s) <$> hexStr? cs
  | _ => none

def flag? (t : String) : Option Bool :=
  if t = "B1" then some true else if t = "B0" then some false else none

def sArg? (t : String) : Option String :=
  match arg? t with
  | some (.str s) => some s
  | _ => none

def wbrArg? (t : String) : Option (WBR String) :=
  match arg? t with
  | some .other => some .blank
  | some (.num x) => some (.num x)
  | _ => none

def intArg? (t : String) : Option Int :=
  match arg? t with
  | some (.num x) => x.toInt?
  | _ => none

def op? (t : List String) : Option (Op String) :=
  match t with
  | ["read"] => some .read
  | ["name", a] => Op.setName <$> arg? a
  | ["day_type", a] => Op.setDayType <$> arg? a
  | ["db_max", a] => Op.setDbMax <$> arg? a
  | ["db_range", a] => Op.setDbRange <$> arg? a
  | ["mod_type", a] => Op.setModType <$> sArg? a
  | ["mod_sched", a] => Op.setModSched <$> sArg? a
  | ["h_type", a] => Op.setHumType <$> arg? a
  | ["h_value", a] => Op.setHumValue <$> arg? a
  | ["pressure", a] => Op.setPressure <$> arg? a
  | ["rain", b] => Op.setRain <$> flag? b
  | ["snow", b] => Op.setSnow <$> flag? b
  | ["sched", a] => Op.setHumSched <$> sArg? a
  | ["wbr", a] => Op.setWbr <$> wbrArg? a
  | ["ws", a] => Op.setWindSpeed <$> arg? a
  | ["wd", a] => Op.setWindDir <$> arg? a
  | ["date", a, b] =>
    if a = "O" then some (.setDate none) else do
      let m ← intArg? a
      let d ← intArg? b
      pure (.setDate (some (m, d)))
  | ["dst", b] => Op.setDst <$> flag? b
  | ["clearness", a] => Op.setClearness <$> arg? a
  | ["tau_b", a] => Op.setTauB <$> arg? a
  | ["tau_d", a] => Op.setTauD <$> arg? a
  | ["use_2017", b] => Op.setUse2017 <$> flag? b
  | ["beam", a] => Op.setBeam <$> sArg? a
  | ["diff", a] => Op.setDiff <$> sArg? a
  | ["loc", c, la, lo, tz, el] =>
    if c = "O" then some (.setLoc none) else do
      let c ← sArg? c
      match arg? la, arg? lo, arg? tz, arg? el with
      | some (.num a), some (.num b), some (.num z), some (.num e) => some (.setLoc (some ⟨c, a, b, z, e⟩))
      | _, _, _, _ => none
  | ["new_db", a, b, c, d] => do
    pure (.newDb (← arg? a) (← arg? b) (← sArg? c) (← sArg? d))
  | ["new_hum", ty, v, p, r, s, sc, w] => do
    pure (.newHum (← arg? ty) (← arg? v) (← arg? p) (← flag? r) (← flag? s) (← sArg? sc) (← wbrArg? w))
  | ["new_wind", a, b] => do
    pure (.newWind (← arg? a) (← arg? b))
  | ["new_sky", m, d, dst, kind, a1, a2, a3] =>
    if m = "O" then some (.newSky none) else do
      let mo ← intArg? m
      let da ← intArg? d
      let dst ← flag? dst
      let k : SkyKind (Arg String) ←
        if kind = "clear" then SkyKind.clear <$> arg? a1
        else if kind = "tau" then do pure (SkyKind.tau (← arg? a1) (← arg? a2) (← flag? a3))
        else if kind = "base" then do pure (SkyKind.base (← sArg? a1) (← sArg? a2))
        else none
      pure (.newSky (some ⟨mo, da, false, dst, k⟩))
  | ["new_sky", m, d, dst, kind, a1, a2, a3, lp] =>
    if m = "O" then some (.newSky none) else do
      let mo ← intArg? m
      let da ← intArg? d
      let dst ← flag? dst
      let k : SkyKind (Arg String) ←
        if kind = "clear" then SkyKind.clear <$> arg? a1
        else if kind = "tau" then do pure (SkyKind.tau (← arg? a1) (← arg? a2) (← flag? a3))
        else if kind = "base" then do pure (SkyKind.base (← sArg? a1) (← sArg? a2))
        else none
      let leap ← flag? lp
      pure (.newSky (some ⟨mo, da, leap, dst, k⟩))
  | _ => none

/-- split a token list at the `;` tokens -/
def splitOps (t : List String) : List (List String) :=
  let r := t.foldl (fun (acc : List (List String) × List String) x =>
    if x = ";" then (acc.2.reverse :: acc.1, []) else (acc.1, x :: acc.2)) ([], [])
  (r.2.reverse :: r.1).reverse

def showOut : Out → String
  | .done => "ok"
  | .refused .assert => "refused:assert"
  | .refused .value => "refused:value"
  | .refused .attr => "refused:attr"
  | .outside => "outside"

def histLine (toks : List String) : String :=
  match dd? toks with
  | some (d, rest) =>
    match loc? rest with
    | some (l, rest) =>
      match (splitOps rest).drop 1 |>.mapM op? with
      | some ops =>
        let tr := trace (⟨d, l⟩ : Obj String) ops
        "ok " ++ " | ".intercalate (tr.map fun p => showOut p.2 ++ " " ++ showDD p.1.dd ++ " " ++ showLoc p.1.loc)
      | none => "bad-op"
    | none => "bad-op"
  | none => "bad-op"

def handle (toks : List String) : String :=
  match toks with
  | "hist" :: rest => histLine rest
  | ["db", mx, rng] =>
    match floatBits? mx, floatBits? rng with
    | some a, some b => showFloats (hourlyDryBulb a b)
    | _, _ => "bad-op"
  | ["hum", ty, v, p, mx, rng] =>
    match humType? ty, floatBits? v, floatBits? p, floatBits? mx, floatBits? rng with
    | some ty, some v, some p, some mx, some rng =>
      let m := Psychro.ddDewPoint ty v p mx
      let dbs := hourlyDryBulb mx rng
      showFloats (Psychro.ddHourlyDewPoint m dbs ++ Psychro.ddHourlyRelHumid m dbs)
    | _, _, _, _, _ => "bad-op"
  | ["cover", c] =>
    match floatBits? c with
    | some c => showFloats (clearSkyCover c)
    | none => "bad-op"
  | ["cdts", leap, mo, da] =>
    -- date-times of the header of every hourly collection: minute of the year and leap flag of each
    match date? leap mo da with
    | some d => "ok " ++ joinSp ((collectionDatetimes d).map fun t => toString t.moy ++ (if t.leap then "L" else "C"))
    | none => "bad-op"
  | ["ddy_setter", kind, bits] =>
    -- the `DDY.design_days` setter on an argument of the given container kind; items: 1 = a design day
    let items := bits.toList.filter (fun c => c == '0' || c == '1') |>.map (fun c => c == '1')
    let arg? : Option (Shapes.Iterable Bool) :=
      if kind = "list" then some (.container true items)
      else if kind = "container" then some (.container false items)
      else if kind = "oneshot" then some (.oneShot items)
      else none
    match arg? with
    | none => "bad-op"
    | some arg =>
      match Shapes.setDays (fun b => b) arg with
      | .ok xs => "ok " ++ toString xs.length
      | .error _ => "err:assert"
  | "ddy_locs" :: which :: l :: ds =>
    -- the location-update loop of the `design_days` setter (which = days) / `location` setter (which = loc):
    -- locations are opaque tokens (equal tokens = equal Location objects); answer: the location of every day
    let days : List (String × Nat) := (List.range ds.length).zip ds |>.map fun p => (p.2, p.1)
    let out := if which = "loc" then Shapes.updateLocationsOnLocationSet l days else Shapes.updateLocations l days
    "ok " ++ joinSp (out.map (·.1))
  | ["hdts", leap, mo, da] =>
    match date? leap mo da with
    | some d => showDts (hourlyDatetimesOff Gen.DD.hourlyDayOffset d)
    | none => "bad-op"
  | ["sdts", leap, mo, da, dst, ts] =>
    match date? leap mo da, bool? dst, ts.toNat? with
    | some d, some dst, some ts => showDts (skyDatetimesFloat Gen.DD.skyDayOffset d dst ts)
    | _, _, _ => "bad-op"
  | ["sdts_exact", leap, mo, da, dst, ts] =>
    match date? leap mo da, bool? dst, ts.toNat? with
    | some d, some dst, some ts => showDts (skyDatetimesExact Gen.DD.skyDayOffset d dst ts)
    | _, _, _ => "bad-op"
  | ["sdts_int", leap, mo, da, dst, ts] =>
    match date? leap mo da, bool? dst, ts.toNat? with
    | some d, some dst, some ts => showDts (skyDatetimesInt Gen.DD.skyDayOffset d dst ts)
    | _, _, _ => "bad-op"
  | ["sky_float_in_day", ts] =>
    -- is every IEEE offset `i * (1 / ts) * 60` (added to any day start of the year) inside the day?
    match ts.toNat? with
    | some ts =>
      let ok := (List.range 366).all fun day =>
        (List.range (24 * ts)).all fun i =>
          match skyMoyFloat ((day : Int) * 1440) ts i with
          | some x => decide (((day : Int) * 1440 : Int) ≤ Py.truncRat x) && decide (Py.truncRat x < ((day : Int) + 1) * 1440)
          | none => false
      "ok " ++ showBool ok
    | none => "bad-op"
  | "to_idf" :: rest =>
    match dd? rest with
    | some (d, []) =>
      match toIdf String d with
      | some s => "ok " ++ encStr s
      | none => "err:index"
    | _ => "bad-op"
  | ["from_idf", text] =>
    match str? text with
    | some s =>
      match (fromIdf String s : Except DD.Err (DesignDay String)) with
      | .ok d => "ok " ++ showDD d
      | .error e => showErr e
    | none => "bad-op"
  | "roundtrip" :: rest =>
    -- field-level round trip of the model itself (what the theorem is about), tail = "!"
    match dd? rest with
    | some (d, []) =>
      match (fromIdfFields (writtenFields d "!") : Except DD.Err (DesignDay String)) with
      | .ok d' => "ok " ++ showBool (decide (d' = d)) ++ " " ++ showDD d'
      | .error e => showErr e
    | _ => "bad-op"
  | "loc_to_idf" :: rest =>
    match loc? rest with
    | some (l, []) => "ok " ++ encStr (locToIdf String l)
    | _ => "bad-op"
  | ["loc_from_idf", text] =>
    match str? text with
    | some s =>
      match (locFromIdf String s : Except DD.Err (Loc String)) with
      | .ok l => "ok " ++ showLoc l
      | .error e => showErr e
    | none => "bad-op"
  | "ddy_to_string" :: n :: rest =>
    match n.toNat?, loc? rest with
    | some n, some (l, rest) =>
      match dds? n rest with
      | some ds =>
        match ddyToString String (⟨l, ds⟩ : DDY String) with
        | some s => "ok " ++ encStr s
        | none => "err:index"
      | none => "bad-op"
    | _, _ => "bad-op"
  | ["ddy_from_string", text] =>
    match str? text with
    | some s =>
      match (ddyFromString String s : Except DD.Err (DDY String)) with
      | .ok y => "ok " ++ toString y.days.length ++ " " ++ showLoc y.loc ++ " " ++ joinSp (y.days.map showDD)
      | .error e => showErr e
    | none => "bad-op"
  | "ashrae_h" :: use990 :: city :: press :: kvs =>
    match bool? use990, str? city, str? press, kv? kvs with
    | some u, some c, some p, some kv =>
      match (fromAshraeHeating kv c u p : Except DD.Err (DesignDay String)) with
      | .ok d => "ok " ++ showDD d
      | .error e => showErr e
    | _, _, _, _ => "bad-op"
  | "ashrae_c" :: use010 :: city :: press :: tb :: td :: kvs =>
    match bool? use010, str? city, str? press, kv? kvs with
    | some u, some c, some p, some kv =>
      let tau : Option (Option (String × String)) :=
        if tb = "-" then some none else do pure (some (← str? tb, ← str? td))
      match tau with
      | some tau =>
        match (fromAshraeCooling kv c u p tau "1" : Except DD.Err (DesignDay String)) with
        | .ok d => "ok " ++ showDD d
        | .error e => showErr e
      | none => "bad-op"
    | _, _, _, _ => "bad-op"
  | _ => "bad-op"

end DrvC16

def main : IO Unit := Drv.run DrvC16.handle
