/- Model driver for C07 (stub: no ops yet). -/
import Ladybug.DrvCore

namespace DrvC07
def handle (_toks : List String) : String := "bad-op"
end DrvC07

def main : IO Unit := Drv.run DrvC07.handle
