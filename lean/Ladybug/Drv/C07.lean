/-
  Model driver for C07 (line protocol).  A Python value travels in prefix notation, one token
  per node:  N | T | F | i<int> | f<16 hex digits of the IEEE bits> | s<hex of the UTF-8 bytes> |
  L<n> v1..vn | U<n> v1..vn (tuple) | D<n> k1 v1 .. kn vn  (keys are `s…` or `i…` tokens).

  ops:
    rt <Class> <value>      -> `ok <value>` : to_dict of the object that from_dict builds from
                               <value> (model: enc (dec v)), or `err` when from_dict raises
    json <value>            -> `ok <value>` : json.loads(json.dumps(value))
    ap_str / ap_parse / ap_copy, loc_copy, spaced, titlekey : text forms and copies
    hist <Class> <value> <ops>  -> `ok <list>` : the object read from <value>, then the history <ops>
                               (a list of ["set", attr, v] | ["setitem", i, v] | ["read", kind]) run on
                               the object state machine; one entry [accepted, to_dict after the step
                               (, value of the read)] per step; `err` when <value> does not read
-/
import Ladybug.DrvCore
import Ladybug.Model.Serial.Coll
import Ladybug.Model.Serial.Legend
import Ladybug.Model.Serial.DesignDay
import Ladybug.Model.Serial.Wea
import Ladybug.Model.Serial.Csv
import Ladybug.Model.Serial.Hist

namespace DrvC07
open Codec Cal

/-- the token without its one-character tag -/
def tl (t : String) : String := String.ofList (t.toList.drop 1)

def hexByte (n : Nat) : String := Drv.hexOfNat n 2

def strToHex (s : String) : String :=
  s.toUTF8.foldl (fun acc b => acc ++ hexByte b.toNat) ""

def hexToStr? (h : String) : Option String :=
  let cs := h.toList
  let rec go : List Char → ByteArray → Option ByteArray
    | [], acc => some acc
    | a :: b :: r, acc => do
      let x ← Drv.hexDigit? a
      let y ← Drv.hexDigit? b
      go r (acc.push (UInt8.ofNat (x * 16 + y)))
    | _, _ => none
  match go cs ByteArray.empty with
  | some ba => String.fromUTF8? ba
  | none => none

def parseKey (t : String) : Option Key :=
  if t.startsWith "s" then (hexToStr? (tl t)).map Key.str
  else if t.startsWith "i" then (tl t).toInt?.map Key.int
  else none

mutual
partial def parseVal : List String → Option (PyVal × List String)
  | [] => none
  | t :: r =>
    if t = "N" then some (.none, r)
    else if t = "T" then some (.bool true, r)
    else if t = "F" then some (.bool false, r)
    else if t.startsWith "i" then (tl t).toInt?.map (fun i => (.int i, r))
    else if t.startsWith "f" then (Drv.hex? (tl t)).map (fun b => (.flt b, r))
    else if t.startsWith "s" then (hexToStr? (tl t)).map (fun s => (.str s, r))
    else if t.startsWith "L" then do
      let n ← (tl t).toNat?
      let (l, r') ← parseN n r
      pure (.list l, r')
    else if t.startsWith "U" then do
      let n ← (tl t).toNat?
      let (l, r') ← parseN n r
      pure (.tuple l, r')
    else if t.startsWith "D" then do
      let n ← (tl t).toNat?
      let (l, r') ← parseKV n r
      pure (.dict l, r')
    else none
partial def parseN : Nat → List String → Option (List PyVal × List String)
  | 0, r => some ([], r)
  | n + 1, r => do
    let (v, r1) ← parseVal r
    let (vs, r2) ← parseN n r1
    pure (v :: vs, r2)
partial def parseKV : Nat → List String → Option (List (Key × PyVal) × List String)
  | 0, r => some ([], r)
  | n + 1, r => do
    match r with
    | [] => none
    | kt :: r0 =>
      let k ← parseKey kt
      let (v, r1) ← parseVal r0
      let (vs, r2) ← parseKV n r1
      pure ((k, v) :: vs, r2)
end

def showKey : Key → String
  | .str s => "s" ++ strToHex s
  | .int i => "i" ++ toString i

mutual
partial def showVal : PyVal → String
  | .none => "N"
  | .bool true => "T"
  | .bool false => "F"
  | .int i => "i" ++ toString i
  | .flt b => "f" ++ Drv.hexOfNat b 16
  | .str s => "s" ++ strToHex s
  | .list l => Drv.joinSp (("L" ++ toString l.length) :: l.map showVal)
  | .tuple l => Drv.joinSp (("U" ++ toString l.length) :: l.map showVal)
  | .dict kv => Drv.joinSp (("D" ++ toString kv.length) ::
      kv.map (fun p => showKey p.1 ++ " " ++ showVal p.2))
end

def whole (toks : List String) : Option PyVal :=
  match parseVal toks with
  | some (v, []) => some v
  | _ => none

def okv (o : Option PyVal) : String :=
  match o with
  | some v => "ok " ++ showVal v
  | none => "err"

def rt (cls : String) (v : PyVal) : String :=
  match cls with
  | "DateTime" => okv ((DTc.rd.dec v).map DTc.enc)
  | "Date" => okv ((Dc.rd.dec v).map Dc.enc)
  | "Time" => okv ((Tc.rd.dec v).map Tc.enc)
  | "AnalysisPeriod" => okv ((AP.rd.dec v).map AP.enc)
  | "Location" => okv ((Loc.rd.dec v).map Loc.enc)
  | "Color" => okv ((Col.rd.dec v).map Col.enc)
  | "DataType" => okv ((DType.rd.dec v).map DType.enc)
  | "Header" => okv ((Hdr.rd.dec v).map Hdr.enc)
  | "ColorRange" => okv ((CRange.rd.dec v).map CRange.enc)
  | "LegendParameters" => okv ((LP.rd.dec v).map LP.enc)
  | "LegendParametersCategorized" => okv ((LPC.rd.dec v).map (LPC.enc fun _ => ["<generated>"]))
  | "Legend" => okv ((Leg.rd.dec v).map Leg.enc)
  | "DryBulbCondition" => okv ((DryBulb.rd.dec v).map DryBulb.enc)
  | "HumidityCondition" => okv ((Humidity.rd.dec v).map Humidity.enc)
  | "WindCondition" => okv ((Wind.rd.dec v).map Wind.enc)
  | "SkyCondition" => okv ((Sky.rd.dec v).map Sky.enc)
  | "DesignDay" => okv ((DDay.rd.dec v).map DDay.enc)
  | "DDY" => okv ((DDYc.rd.dec v).map DDYc.enc)
  | "Wea" => okv ((WeaC.rd.dec v).map WeaC.enc)
  | "HourlyDiscontinuous" => okv (((Coll.rd .hourlyDisc false).dec v).map Coll.enc)
  | "HourlyContinuous" => okv (((Coll.rd .hourlyCont false).dec v).map Coll.enc)
  | "Daily" => okv (((Coll.rd .daily false).dec v).map Coll.enc)
  | "Monthly" => okv (((Coll.rd .monthly false).dec v).map Coll.enc)
  | "MonthlyPerHour" => okv (((Coll.rd .mph false).dec v).map Coll.enc)
  | "HourlyDiscontinuous_imm" => okv (((Coll.rd .hourlyDisc true).dec v).map Coll.enc)
  | "HourlyContinuous_imm" => okv (((Coll.rd .hourlyCont true).dec v).map Coll.enc)
  | "Daily_imm" => okv (((Coll.rd .daily true).dec v).map Coll.enc)
  | "Monthly_imm" => okv (((Coll.rd .monthly true).dec v).map Coll.enc)
  | "MonthlyPerHour_imm" => okv (((Coll.rd .mph true).dec v).map Coll.enc)
  | _ => "bad-op"

open Hist in
def readKind? : String → Option Read
  | "dict" => some .dict
  | "roundtrip" => some .roundTrip
  | "copy" => some .copy
  | _ => none

open Hist in
def locOp? : PyVal → Option (Op LocSet Read)
  | .list [.str "set", .str a, v] =>
    match a with
    | "latitude" => some (.asg (.lat v))
    | "longitude" => some (.asg (.lon v))
    | "time_zone" => some (.asg (.tz v))
    | "elevation" => some (.asg (.elev v))
    | "city" => v.str?.map fun s => .asg (.city s)
    | "state" => v.str?.map fun s => .asg (.state s)
    | "country" => v.str?.map fun s => .asg (.country s)
    | "station_id" =>
      match v with
      | .none => some (.asg (.station none))
      | .str s => some (.asg (.station (some s)))
      | _ => none
    | "source" => some (.asg (.source v))
    | _ => none
  | .list [.str "read", .str k] => (readKind? k).map Op.read
  | _ => none

open Hist in
def collOp? : PyVal → Option (Op CollSet Read)
  | .list [.str "set", .str a, v] =>
    match a with
    | "values" => some (.asg (.values v))
    | "header.metadata" => some (.asg (.mdata v))
    | _ => none
  | .list [.str "setitem", .int i, v] => some (.asg (.item i v))
  | .list [.str "read", .str k] => (readKind? k).map Op.read
  | _ => none

open Hist in
def showTrace {σ : Type} (enc : σ → PyVal) (t : List (σ × Out)) : String :=
  "ok " ++ showVal (.list (t.map fun p =>
    match p.2 with
    | .done => .list [.bool true, enc p.1]
    | .refused => .list [.bool false, enc p.1]
    | .value v => .list [.bool true, enc p.1, v]))

def collKind? (tag : String) : Option (CollKind × Bool) :=
  match tag with
  | "HourlyDiscontinuous" => some (.hourlyDisc, false)
  | "HourlyContinuous" => some (.hourlyCont, false)
  | "Daily" => some (.daily, false)
  | "Monthly" => some (.monthly, false)
  | "MonthlyPerHour" => some (.mph, false)
  | "HourlyDiscontinuous_imm" => some (.hourlyDisc, true)
  | "HourlyContinuous_imm" => some (.hourlyCont, true)
  | "Daily_imm" => some (.daily, true)
  | "Monthly_imm" => some (.monthly, true)
  | "MonthlyPerHour_imm" => some (.mph, true)
  | _ => none

open Hist in
def hist (cls : String) (v ops : PyVal) : String :=
  match ops.list? with
  | none => "bad-op"
  | some ol =>
    if cls = "Location" then
      match ol.mapM locOp? with
      | none => "bad-op"
      | some os =>
        match Loc.rd.dec v with
        | none => "err"
        | some l => showTrace Loc.enc (locM.trace l os)
    else
      match collKind? cls, ol.mapM collOp? with
      | some (k, imm), some os =>
        match (Coll.rd k imm).dec v with
        | none => "err"
        | some c => showTrace Coll.enc (collM.trace c os)
      | _, _ => "bad-op"

/-- two values in sequence on one line -/
def two (toks : List String) : Option (PyVal × PyVal) :=
  match parseVal toks with
  | some (a, r) => (whole r).map fun b => (a, b)
  | none => none

def apOfNats : List Nat → Option Codec.AP
  | [a, b, c, d, e, f, g, l] => some ⟨a, b, c, d, e, f, g, l != 0⟩
  | _ => none

def showAP (a : Codec.AP) : String :=
  "ok " ++ Drv.showNats [a.stM, a.stD, a.stH, a.endM, a.endD, a.endH, a.ts, if a.leap then 1 else 0]

def handle (toks : List String) : String :=
  match toks with
  | "rt" :: cls :: rest =>
    match whole rest with
    | some v => rt cls v
    | none => "bad-op"
  | "hist" :: cls :: rest =>
    match two rest with
    | some (v, ops) => hist cls v ops
    | none => "bad-op"
  | "json" :: rest =>
    match whole rest with
    | some v => "ok " ++ showVal (jsonRT v)
    | none => "bad-op"
  | "ap_str" :: rest =>
    match (Drv.nats rest).bind apOfNats with
    | some a => "ok s" ++ strToHex a.str
    | none => "bad-op"
  | "ap_copy" :: rest =>
    match (Drv.nats rest).bind apOfNats with
    | some a => (match a.copy with | some b => showAP b | none => "err")
    | none => "bad-op"
  | ["ap_parse", h] =>
    match hexToStr? h with
    | some s => (match AP.parse s with | some b => showAP b | none => "err")
    | none => "bad-op"
  | "loc_copy" :: rest =>
    match whole rest with
    | some v => okv (((Loc.rd.dec v).bind Loc.copy).map Loc.enc)
    | none => "bad-op"
  | "hdr_csv" :: flag :: rest =>
    match Drv.bool? flag, whole rest with
    | some perRow, some v =>
      match Hdr.rd.dec v with
      | some h =>
        match Hdr.csvRoundTrip perRow h with
        | some r => okv (r.map Hdr.enc)
        | none => "skip"
      | none => "bad-op"
    | _, _ => "bad-op"
  | "csv_series" :: rest =>
    match whole rest with
    | some (.list vs) =>
      match vs.mapM Hdr.rd.dec with
      | some hs =>
        match Hdr.csvSeries hs with
        | some (perRow, l) =>
          okv (some (.list [.bool perRow, .list (l.map fun o => match o with
            | some h => Hdr.enc h
            | none => .none)]))
        | none => "skip"
      | none => "bad-op"
    | _ => "bad-op"
  | ["split", hs, ht] =>
    match hexToStr? hs, hexToStr? (if ht = "00" then "" else ht) with
    | some sep, some t =>
      if sep.isEmpty then "bad-op"
      else Drv.joinSp (("ok L" ++ toString (splitS sep t).length) :: (splitS sep t).map (fun x => "s" ++ strToHex x))
    | _, _ => "bad-op"
  | ["dt_text", h] =>
    match hexToStr? (if h = "00" then "" else h) with
    | some s => okv ((DType.ofText s).map DType.enc)
    | none => "bad-op"
  | ["spaced", h] =>
    match hexToStr? h with
    | some s => "ok s" ++ strToHex (spaced s)
    | none => "bad-op"
  | ["titlekey", h] =>
    match hexToStr? h with
    | some s => "ok s" ++ strToHex (titleKey s)
    | none => "bad-op"
  | _ => "bad-op"

end DrvC07

def main : IO Unit := Drv.run DrvC07.handle
