/- Model driver for C05 (stub: no ops yet). -/
import Ladybug.DrvCore

namespace DrvC05
def handle (_toks : List String) : String := "bad-op"
end DrvC05

def main : IO Unit := Drv.run DrvC05.handle
