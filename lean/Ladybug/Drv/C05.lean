/-
  Model driver for C05 (sunpath.py).  Line protocol: see DrvCore.  Imports only Mathlib-free files.
  Floats travel as 16-hex-digit IEEE bit patterns in both directions.
-/
import Ladybug.DrvCore
import Ladybug.Model.Sun
import Ladybug.Model.SunObj
import Ladybug.Model.SunExt

open Drv

namespace DrvC05

def showSErr : Sun.SErr → String
  | .assert => "err:assert"

def showCalErr : Cal.Err → String
  | .value => "err:value"
  | .index => "err:index"
  | .type => "err:type"

def fb (x : Float) : String := showFloatBits x

def show3 (v : Float × Float × Float) : String := s!"{fb v.1} {fb v.2.1} {fb v.2.2}"

def showSun (s : Sun.SunOut Float) : String :=
  s!"ok {s.dt.month} {s.dt.day} {s.dt.hour} {s.dt.minute} {showBool s.dt.leap} {fb s.altitude} {fb s.azimuth} {show3 s.vec} {show3 s.rev} {showBool s.duringDay} {fb s.azFromY}"

def showE (r : Except Sun.EErr (Sun.SunOut Float)) : String :=
  match r with
  | .ok s => showSun s
  | .error (.dt e) => showCalErr e
  | .error (.sun e) => showSErr e

def tz? (s : String) : Option (Option Float) :=
  if s = "none" then some none else (fun f => some f) <$> floatBits? s

/-- lat lon tz north spleap -/
def cfg? (lat lon tz north leap : String) : Option (Sun.Cfg Float) := do
  let la ← floatBits? lat
  let lo ← floatBits? lon
  let t ← tz? tz
  let n ← floatBits? north
  let l ← bool? leap
  pure ⟨la, lo, t, n, l⟩

def ofN (n : Nat) : Float := n.toFloat

/-- `int(f)` of a finite float, and the IEEE product `(f - int(f)) * 60`. -/
def splitHour (f : Float) : Option (Int × Rat) := do
  let q ← Py.ratOfFloatBits f.toBits
  let h := Py.truncRat q
  let p ← Py.ratOfFloatBits ((f - Float.ofInt h) * 60.0).toBits
  pure (h, p)

/-! ### Histories on one object (`hist vlat vlon vtz vnorth lat lon tz north ; op ; op …`; the first
    four tokens: does that setter check before it stores — read off the source by the harness) -/

def showOErr : Sun.OErr → String
  | .assert => "err:assert"
  | .value => "err:value"
  | .type => "err:type"

/-- A setter argument: float bits, `none`, `bad:value`, `bad:type`. -/
def arg? (s : String) : Option (Sun.Arg Float) :=
  if s = "none" then some .none
  else if s = "bad:value" then some (.bad .value)
  else if s = "bad:type" then some (.bad .type)
  else (fun f => Sun.Arg.num f) <$> floatBits? s

def op? (toks : List String) : Option (Sun.Op Float) :=
  match toks with
  | ["sl", a] => Sun.Op.setLat <$> arg? a
  | ["so", a] => Sun.Op.setLon <$> arg? a
  | ["st", a] => Sun.Op.setTz <$> arg? a
  | ["sn", a] => Sun.Op.setNorth <$> arg? a
  | ["sy", b] => Sun.Op.setLeap <$> bool? b
  | ["rm", m, s] => do
      let m ← m.toInt?
      let s ← bool? s
      pure (.read (.moy m s))
  | ["rh", h, s] => do
      let f ← floatBits? h
      let x ← Py.ratOfFloatBits (f * 60.0).toBits
      let s ← bool? s
      pure (.read (.hoy x s))
  | ["rd", mo, da, h, s] => do
      let mo ← mo.toNat?
      let da ← da.toNat?
      let f ← floatBits? h
      let hp ← splitHour f
      let s ← bool? s
      pure (.read (.mdh mo da hp.1 hp.2 s))
  | ["rt", mo, da, h, mi, dl, s] => do
      let mo ← mo.toNat?
      let da ← da.toNat?
      let h ← h.toNat?
      let mi ← mi.toNat?
      let dl ← bool? dl
      let s ← bool? s
      match Cal.DT.make mo da h mi dl with
      | .ok d => pure (.read (.dt d s))
      | .error _ => none
  | ["g"] => some .get
  | ["x"] => some .other
  | _ => none

/-- Split a token list at the `;` tokens. -/
def splitSemi (toks : List String) : List (List String) :=
  let r := toks.foldr (fun t (acc : List String × List (List String)) =>
    if t = ";" then ([], acc.1 :: acc.2) else (t :: acc.1, acc.2)) ([], [])
  r.1 :: r.2

def showOut : Sun.Out Float → String
  | .done => "ok"
  | .refused e => showOErr e
  | .sun r => showE r
  | .cfg la lo tz no lp => s!"ok {fb la} {fb lo} {fb tz} {fb no} {showBool lp}"

def handleHist (toks : List String) : String :=
  match splitSemi toks with
  | [vla, vlo, vtz, vno, lat, lon, tz, north] :: ops =>
    match bool? vla, bool? vlo, bool? vtz, bool? vno, cfg? lat lon tz north "0", ops.mapM op? with
    | some a, some b, some c', some d, some c, some ops =>
      if Sun.cfgOk c then
        " | ".intercalate ((Sun.run ⟨a, b, c', d⟩ ofN (Sun.Obj.ofCfg c) ops).2.map showOut)
      else "err:assert"
    | _, _, _, _, _, _ => "bad-op"
  | _ => "bad-op"

def handle (toks : List String) : String :=
  match toks with
  | "hist" :: rest => handleHist rest
  | ["days", y, m, d] =>
    match y.toNat?, m.toNat?, d.toNat? with
    | some y, some m, some d => s!"ok {Sun.daysFrom010119 y m d}"
    | _, _, _ => "bad-op"
  | ["frac", m] =>
    match m.toNat? with
    | some m => s!"ok {Sun.dayFracHundredths m}"
    | none => "bad-op"
  | ["hm", bits] =>
    match floatBits? bits with
    | some f =>
      match splitHour f with
      | some (h, p) => let r := Sun.hmOfFloatHour h p; s!"ok {r.1} {r.2}"
      | none => "err:value"
    | none => "bad-op"
  | ["geom", tz, leap, mo, da, h, mi] =>
    match floatBits? tz, bool? leap, mo.toNat?, da.toNat?, h.toNat?, mi.toNat? with
    | some tz, some leap, some mo, some da, some h, some mi =>
      let year := if leap then 2016 else 2017
      let jd := Sun.julianDay (ofN (Sun.daysFrom010119 year mo da))
        (ofN (Sun.dayFracHundredths (mi + h * 60)) / 100.0) tz
      let g := Sun.solarGeometry jd
      s!"ok {fb g.1} {fb g.2}"
    | _, _, _, _, _, _ => "bad-op"
  | ["soltime", hour, eot, lon, tz, solar] =>
    match floatBits? hour, floatBits? eot, floatBits? lon, floatBits? tz, bool? solar with
    | some hour, some eot, some lon, some tz, some solar =>
      "ok " ++ fb (Sun.solarTime hour eot (Sun.rad lon) tz solar)
    | _, _, _, _, _ => "bad-op"
  | ["sun", lat, lon, tz, north, spleap, solar, dtleap, mo, da, h, mi] =>
    match cfg? lat lon tz north spleap, bool? solar, bool? dtleap, mo.toNat?, da.toNat?, h.toNat?, mi.toNat? with
    | some c, some solar, some dl, some mo, some da, some h, some mi =>
      showE (Sun.withDT ofN c (Cal.DT.make mo da h mi dl) solar)
    | _, _, _, _, _, _, _ => "bad-op"
  | ["sun_mdh", lat, lon, tz, north, spleap, solar, mo, da, hour] =>
    match cfg? lat lon tz north spleap, bool? solar, mo.toNat?, da.toNat?, floatBits? hour with
    | some c, some solar, some mo, some da, some f =>
      match splitHour f with
      | some (h, p) => showE (Sun.calcSun ofN c mo da h p solar)
      | none => "err:value"
    | _, _, _, _, _ => "bad-op"
  | ["sun_hoy", lat, lon, tz, north, spleap, solar, hoy] =>
    match cfg? lat lon tz north spleap, bool? solar, floatBits? hoy with
    | some c, some solar, some f =>
      match Py.ratOfFloatBits (f * 60.0).toBits with
      | some x => showE (Sun.calcSunFromHoy ofN c x solar)
      | none => "err:value"
    | _, _, _ => "bad-op"
  | ["sun_moy", lat, lon, tz, north, spleap, solar, moy] =>
    match cfg? lat lon tz north spleap, bool? solar, moy.toInt? with
    | some c, some solar, some m => showE (Sun.calcSunFromMoy ofN c m solar)
    | _, _, _ => "bad-op"
  | ["sun_py", lat, lon, tz, north, spleap, solar, dst, y, mo, da, h, mi] =>
    -- a native datetime.datetime(y, mo, da, h, mi) (round 4); answer: the year the code computes with + the sun
    match cfg? lat lon tz north spleap, bool? solar, bool? dst, y.toNat?, mo.toNat?, da.toNat?, h.toNat?, mi.toNat? with
    | some c, some solar, some dst, some y, some mo, some da, some h, some mi =>
      match Sun.sunOfNative ofN c y mo da h mi solar dst with
      | .ok s => s!"{Sun.yearUsed c.leap y} " ++ showSun s
      | .error e => showSErr e
    | _, _, _, _, _, _, _, _ => "bad-op"
  | ["sun_dst", lat, lon, tz, north, spleap, solar, dst, dtleap, mo, da, h, mi] =>
    -- a ladybug DateTime in a daylight-saving hour (dst = 1) or not (round 4)
    match cfg? lat lon tz north spleap, bool? solar, bool? dst, bool? dtleap, mo.toNat?, da.toNat?, h.toNat?, mi.toNat? with
    | some c, some solar, some dst, some dl, some mo, some da, some h, some mi =>
      match Cal.DT.make mo da h mi dl with
      | .ok d => showE (Sun.liftSun (Sun.sunOfDTDst ofN c d solar dst))
      | .error e => showCalErr e
    | _, _, _, _, _, _, _, _ => "bad-op"
  | ["dsthour", st, en, moy] =>
    match st.toNat?, en.toNat?, moy.toNat? with
    | some st, some en, some moy => s!"ok {showBool (Sun.dstHour st en moy)}"
    | _, _, _ => "bad-op"
  | ["vec", alt, az, north] =>
    match floatBits? alt, floatBits? az, floatBits? north with
    | some alt, some az, some north =>
      match Sun.mkSun (⟨1, 1, 0, 0, false⟩ : Cal.DT) alt az north with
      | .ok s => showSun s
      | .error e => showSErr e
    | _, _, _ => "bad-op"
  | ["trig", x] =>
    -- libm probe: sin cos tan asin(sin) acos(cos) pow(x,2) of one float
    match floatBits? x with
    | some x => s!"ok {fb x.sin} {fb x.cos} {fb x.tan} {fb x.sin.asin} {fb x.cos.acos} {fb (x.pow 3.0)} {fb x.sqrt}"
    | none => "bad-op"
  | _ => "bad-op"

end DrvC05

def main : IO Unit := Drv.run DrvC05.handle
