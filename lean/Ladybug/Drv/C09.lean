/-
  Model driver for C09 (psychrometrics.py and its users).  Line protocol: see DrvCore.
  Every float travels as its 16-hex-digit IEEE bit pattern.  A result that is not finite is
  answered `nonfinite` (the Python side maps an exception or a non-finite value to the same token).
  Imports only Mathlib-free files.
-/
import Ladybug.DrvCore
import Ladybug.Model.Psychro
import Ladybug.Model.PsychroObj
import Ladybug.Model.PsychroChart

open Drv Psychro

namespace DrvC09

def floats (l : List String) : Option (List Float) := l.mapM floatBits?

def showFs (l : List Float) : String :=
  if l.all Float.isFinite then "ok " ++ joinSp (l.map showFloatBits) else "nonfinite"

def showF (x : Float) : String := showFs [x]

def humType? (s : String) : Option HumType :=
  if s = "Dewpoint" then some .dewpoint
  else if s = "Wetbulb" then some .wetbulb
  else if s = "HumidityRatio" then some .humidityRatio
  else if s = "Enthalpy" then some .enthalpy
  else none

def chart? (useIp : String) (fs : List Float) : Option (Chart Float × List Float) :=
  match bool? useIp, fs with
  | some ip, bx :: by' :: xd :: yd :: mt :: p :: rest => some (⟨bx, by', xd, yd, mt, p, ip⟩, rest)
  | _, _ => none

/-- optional float argument of a setter: `?` = something the setter's assert rejects -/
def optFloat? (s : String) : Option (Option Float) :=
  if s = "?" then some none else (floatBits? s).map some

/-- one token of a `ddhist` history: `T:<type|?>  V:<hex|?>  P:<hex|?>  M:<hex|?>  R:<hex|?>`
    (setters of type, value, pressure, dry-bulb max, dry-bulb range) and the reads
    `d` (day dew point)  `a:<hex>` (dew point at a dry bulb)  `b` (hourly dry bulb)  `h` (hourly dew point)
    `r` (hourly relative humidity)  `p` (hourly pressure). -/
def ddOp? (tok : String) : Option (DDOp Float) :=
  match tok.splitOn ":" with
  | ["T", "?"] => some (.setType none)
  | ["T", t] => (humType? t).map fun x => .setType (some x)
  | ["V", v] => (optFloat? v).map .setValue
  | ["P", v] => (optFloat? v).map .setPressure
  | ["M", v] => (optFloat? v).map .setDbMax
  | ["R", v] => (optFloat? v).map .setDbRange
  | ["d"] => some (.read .dayDew)
  | ["a", v] => (floatBits? v).map fun x => .read (.dewAt x)
  | ["b"] => some (.read .hourlyDb)
  | ["h"] => some (.read .hourlyDew)
  | ["r"] => some (.read .hourlyRh)
  | ["p"] => some (.read .hourlyPressure)
  | _ => none

def showOut : DDOut Float → String
  | .done => "set"
  | .refused => "refused"
  | .vals l => if l.all Float.isFinite then joinSp ("v" :: l.map showFloatBits) else "nonfinite"

def handle (toks : List String) : String :=
  match toks with
  | "ddhist" :: ty :: value :: p :: dbMax :: dbRange :: ops =>
    -- ddhist <type> <value> <pressure> <db_max> <db_range> <op>...  ->  the answers, separated by ` | `
    match humType? ty, floats [value, p, dbMax, dbRange], ops.mapM ddOp? with
    | some ty, some [value, p, dbMax, dbRange], some ops =>
      let o : DDObj Float := ⟨ty, value, p, dbMax, dbRange⟩
      "ok " ++ " | ".intercalate ((o.run ops).2.map showOut)
    | _, _, _ => "bad-op"
  | "dd_hourly" :: ty :: rest =>
    -- dd_hourly <type> <value> <pressure> <db_max> <hourly db ...>  ->  max dew point, 24 dew points, 24 rh
    match humType? ty, floats rest with
    | some ty, some (value :: p :: dbMax :: hourly) =>
      let maxDpt := ddDewPoint ty value p dbMax
      showFs (maxDpt :: (ddHourlyDewPoint maxDpt hourly ++ ddHourlyRelHumid maxDpt hourly))
    | _, _ => "bad-op"
  | ["dd_dew", ty, value, p, db] =>
    match humType? ty, floats [value, p, db] with
    | some ty, some [value, p, db] => showF (ddDewPoint ty value p db)
    | _, _ => "bad-op"
  | "plot" :: useIp :: rest =>
    match (floats rest).bind (chart? useIp) with
    | some (c, [t, rh]) => let r := c.plotPoint t rh; showFs [r.1, r.2]
    | _ => "bad-op"
  | "rhline" :: useIp :: rest =>
    -- rhline <ip> <bx> <by> <xd> <yd> <tmin> <p> <hrMax> <rh> <temps ...>  ->  x y of every vertex below the cut-off
    match (floats rest).bind (chart? useIp) with
    | some (c, hrMax :: rh :: temps) =>
      showFs ((c.rhVertices hrMax rh temps).flatMap fun q => [q.1, q.2])
    | _ => "bad-op"
  | "datapts" :: useIp :: rest =>
    -- datapts <ip> <bx> <by> <xd> <yd> <tmin> <p> <n temperatures (C)> <n humidities>  ->  x y of every entry
    match (floats rest).bind (chart? useIp) with
    | some (c, vals) =>
      let n := vals.length / 2
      showFs ((c.dataPoints (vals.take n) (vals.drop n)).flatMap fun q => [q.1, q.2])
    | _ => "bad-op"
  | "datapt" :: useIp :: rest =>
    match (floats rest).bind (chart? useIp) with
    | some (c, [t, rh]) => let r := c.dataPoint t rh; showFs [r.1, r.2]
    | _ => "bad-op"
  | op :: args =>
    match floats args with
    | none => "bad-op"
    | some fs =>
      match op, fs with
      | "svp", [t] => showF (satVapPres t)
      | "dlnpws", [db] => showF (dLnPws db)
      | "hr_db_rh", [db, rh, p] => showF (humidRatioFromDbRh db rh p)
      | "enth", [db, hr, ref] => showF (enthalpyFromDbHr db hr ref)
      | "rh_db_hr", [db, hr, p] => showF (relHumidFromDbHr db hr p)
      | "rh_db_enth", [db, e, p, ref] => showF (relHumidFromDbEnth db e p ref)
      | "rh_db_dpt", [db, dpt] => showF (relHumidFromDbDpt db dpt)
      | "rh_db_wb", [db, wb, p] => showF (relHumidFromDbWb db wb p)
      | "hr_db_wb", [db, wb, p] => showF (humidRatioFromDbWb db wb p)
      | "db_enth_hr", [e, hr, ref] => showF (dbTempFromEnthHr e hr ref)
      | "db_rh_hr", [rh, hr, p] => showF (dbTempFromRhHr rh hr p)
      | "db_hr_wb_rh", [wb, rh, p] => let r := dbTempAndHrFromWbRh wb rh p; showFs [r.1, r.2]
      | "dpt_db_rh", [db, rh] => showF (dewPointFromDbRh db rh)
      | "wb_db_rh", [db, rh, p] => showF (wetBulbFromDbRh db rh p)
      | "wb_db_hr", [db, hr, p] => showF (wetBulbFromDbHr db hr p)
      | "dpt_db_hr", [db, hr, p] => showF (dewPointFromDbHr db hr p)
      | "dpt_db_enth", [db, e, p, ref] => showF (dewPointFromDbEnth db e p ref)
      | "dpt_db_wb", [db, wb, p] => showF (dewPointFromDbWb db wb p)
      | "dpt_fast", [db, rh] => showF (dewPointFast db rh)
      | "wb_fast", [db, rh, p] =>
        match wetBulbFast db rh p with
        | some x => showF x
        | none => "nofuel"
      | _, _ => "bad-op"
  | _ => "bad-op"

end DrvC09

def main : IO Unit := Drv.run DrvC09.handle
