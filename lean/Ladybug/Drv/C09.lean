/- Model driver for C09 (stub: no ops yet). -/
import Ladybug.DrvCore

namespace DrvC09
def handle (_toks : List String) : String := "bad-op"
end DrvC09

def main : IO Unit := Drv.run DrvC09.handle
