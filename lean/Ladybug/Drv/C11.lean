/-
  Model driver for C11 (sunpath.py: daylight saving, sunrise/noon/sunset, analemmas, day arcs).
  Line protocol: see DrvCore.  Imports only Mathlib-free files.  Floats travel as 16-hex-digit IEEE
  bit patterns in both directions.

  Tokens shared by the ops:
    <cfg>    = lat lon tz|none north spleap              (as in Drv/C05)
    <period> = none | stM stD stH endM endD endH leap     (the daylight-saving AnalysisPeriod as stored)
    <dt>     = leap month day hour minute
-/
import Ladybug.DrvCore
import Ladybug.Model.SunTimes
import Ladybug.Model.SunpathObj

open Drv

namespace DrvC11

def fb (x : Float) : String := showFloatBits x

def showCalErr : Cal.Err → String
  | .value => "err:value"
  | .index => "err:index"
  | .type => "err:type"

def showAErr : SunTimes.AErr → String
  | .value => "err:value"
  | .zero => "err:zero"
  | .index => "err:index"

def showDErr : SunTimes.DErr → String
  | .dt e => showCalErr e
  | .sun _ => "err:assert"
  | .a e => showAErr e

def ofN (n : Nat) : Float := n.toFloat
def ofI (i : Int) : Float := Float.ofInt i
def toRat (f : Float) : Option Rat := Py.ratOfFloatBits f.toBits

def tz? (s : String) : Option (Option Float) :=
  if s = "none" then some none else (fun f => some f) <$> floatBits? s

def cfg? (lat lon tz north leap : String) : Option (Sun.Cfg Float) := do
  let la ← floatBits? lat
  let lo ← floatBits? lon
  let t ← tz? tz
  let n ← floatBits? north
  let l ← bool? leap
  pure ⟨la, lo, t, n, l⟩

/-- Parse `<period>` off the front of a token list. -/
def period? (toks : List String) : Option (Option AP × List String) :=
  match toks with
  | "none" :: rest => some (none, rest)
  | a :: b :: c :: d :: e :: f :: l :: rest =>
    match nats [a, b, c, d, e, f], bool? l with
    | some [a, b, c, d, e, f], some l => some (some ⟨a, b, c, d, e, f, 1, l⟩, rest)
    | _, _ => none
  | _ => none

def dt? (toks : List String) : Option (Except Cal.Err Cal.DT × List String) :=
  match toks with
  | l :: mo :: da :: h :: mi :: rest =>
    match bool? l, nats [mo, da, h, mi] with
    | some l, some [mo, da, h, mi] => some (Cal.DT.make mo da h mi l, rest)
    | _, _ => none
  | _ => none

def showDT (d : Cal.DT) : String := s!"{d.month}/{d.day}/{d.hour}/{d.minute}/{showBool d.leap}"

def showODT : Option Cal.DT → String
  | none => "-"
  | some d => showDT d

def showSunD (s : Sun.SunOut Float × Bool) : String :=
  s!"{showDT s.1.dt} {fb s.1.altitude} {fb s.1.azimuth} {fb s.1.rev.1} {fb s.1.rev.2.1} {fb s.1.rev.2.2} {showBool s.1.duringDay} {showBool s.2}"

def showOF : Option Float → String
  | none => "-"
  | some f => fb f

def handle (toks : List String) : String :=
  match toks with
  | "dst" :: rest =>
    match period? rest with
    | some (p, rest) =>
      match dt? rest with
      | some (.ok d, []) => s!"ok {showBool (SunTimes.isDst p d.moy)}"
      | some (.error e, []) => showCalErr e
      | _ => "bad-op"
    | none => "bad-op"
  | "hmq" :: [bits] =>
    match floatBits? bits with
    | some f =>
      match SunTimes.hmOf toRat ofI f with
      | some r => s!"ok {r.1} {r.2}"
      | none => "err:value"
    | none => "bad-op"
  | ["dayhour", leap, mo, da, h, mi] =>
    match bool? leap, mo.toNat?, da.toNat?, h.toInt?, mi.toInt? with
    | some leap, some mo, some da, some h, some mi =>
      match SunTimes.fromDayHour leap mo da (h, mi) with
      | .ok d => "ok " ++ showDT d
      | .error e => showCalErr e
    | _, _, _, _, _ => "bad-op"
  | "sun" :: lat :: lon :: tz :: north :: spleap :: rest =>
    match cfg? lat lon tz north spleap, period? rest with
    | some c, some (p, solar :: rest) =>
      match bool? solar, dt? rest with
      | some solar, some (.ok d, []) =>
        match SunTimes.sunOfDT ofN c p d solar with
        | .ok s => "ok " ++ showSunD s
        | .error _ => "err:assert"
      | some _, some (.error e, []) => showCalErr e
      | _, _ => "bad-op"
    | _, _ => "bad-op"
  | "riseset" :: lat :: lon :: tz :: north :: spleap :: rest =>
    match cfg? lat lon tz north spleap, period? rest with
    | some c, some (p, solar :: dep :: rest) =>
      match bool? solar, floatBits? dep, dt? rest with
      | some solar, some dep, some (.ok d, []) =>
        match SunTimes.riseSet ofN toRat ofI c p d dep solar with
        | .ok r => s!"ok {showODT r.sunrise} {showDT r.noon} {showODT r.sunset}"
        | .error e => showCalErr e
      | some _, some _, some (.error e, []) => showCalErr e
      | _, _, _ => "bad-op"
    | _, _ => "bad-op"
  | "risesetmd" :: lat :: lon :: tz :: north :: spleap :: rest =>
    match cfg? lat lon tz north spleap, period? rest with
    | some c, some (p, [solar, dep, mo, da]) =>
      match bool? solar, floatBits? dep, mo.toNat?, da.toNat? with
      | some solar, some dep, some mo, some da =>
        match SunTimes.riseSetMD ofN toRat ofI c p mo da dep solar with
        | .ok r => s!"ok {showODT r.sunrise} {showDT r.noon} {showODT r.sunset}"
        | .error e => showCalErr e
      | _, _, _, _ => "bad-op"
    | _, _ => "bad-op"
  | "risesetf" :: lat :: lon :: tz :: north :: spleap :: rest =>
    -- the float hours before rounding (used by the generator to aim at midnight boundaries)
    match cfg? lat lon tz north spleap, period? rest with
    | some c, some (p, [solar, dep, mo, da]) =>
      match bool? solar, floatBits? dep, mo.toNat?, da.toNat? with
      | some solar, some dep, some mo, some da =>
        match Cal.DT.make mo da 12 0 c.leap with
        | .ok d =>
          let f := SunTimes.riseSetFloat ofN c p d dep solar
          s!"ok {showOF f.1} {fb f.2.1} {showOF f.2.2}"
        | .error e => showCalErr e
      | _, _, _, _ => "bad-op"
    | _, _ => "bad-op"
  | "analemma" :: lat :: lon :: tz :: north :: spleap :: rest =>
    match cfg? lat lon tz north spleap, period? rest with
    | some c, some (p, [solar, daytime, sm, em, steps, h, mi]) =>
      match bool? solar, bool? daytime, sm.toNat?, em.toNat?, steps.toInt?, h.toNat?, mi.toNat? with
      | some solar, some daytime, some sm, some em, some steps, some h, some mi =>
        match SunTimes.analemmaSuns ofN c p h mi daytime solar sm em steps with
        | .ok l => s!"ok {l.length} " ++ joinSp (l.map showSunD)
        | .error e => showDErr e
      | _, _, _, _, _, _, _ => "bad-op"
    | _, _ => "bad-op"
  | "hourly" :: lat :: lon :: tz :: north :: spleap :: rest =>
    match cfg? lat lon tz north spleap, period? rest with
    | some c, some (p, [solar, daytime, sm, em, steps]) =>
      match bool? solar, bool? daytime, sm.toNat?, em.toNat?, steps.toInt? with
      | some solar, some daytime, some sm, some em, some steps =>
        match SunTimes.hourlyAnalemmaSuns ofN c p daytime solar sm em steps with
        | .ok ll => s!"ok {ll.length} " ++ joinSp (ll.map fun l => s!"{l.length} " ++ joinSp (l.map showSunD))
        | .error e => showDErr e
      | _, _, _, _, _ => "bad-op"
    | _, _ => "bad-op"
  | "dates" :: [sm, em, steps] =>
    match sm.toNat?, em.toNat?, steps.toInt? with
    | some sm, some em, some steps =>
      match SunTimes.analemmaDates sm em steps with
      | .ok l => s!"ok {l.length} " ++ joinSp (l.map fun x => s!"{x.1}/{x.2}")
      | .error e => showAErr e
    | _, _, _ => "bad-op"
  | "dayarc" :: lat :: lon :: tz :: north :: spleap :: rest =>
    match cfg? lat lon tz north spleap, period? rest with
    | some c, some (p, [dep, daytime, mo, da]) =>
      match floatBits? dep, bool? daytime, mo.toNat?, da.toNat? with
      | some dep, some daytime, some mo, some da =>
        match SunTimes.dayArcSuns ofN toRat ofI c p mo da dep daytime with
        | .ok none => "ok none"
        | .ok (some a) =>
          s!"ok {if a.polar then "polar" else "arc"} {showSunD (a.first, false)} {showSunD (a.mid, false)} {showSunD (a.last, false)}"
        | .error e => showDErr e
      | _, _, _, _ => "bad-op"
    | _, _ => "bad-op"
  | _ => "bad-op"

/-! ### Histories on one object (`hist`)

    hist <lat> <lon> <tz|none> <north> <spleap> <period> ; <op> ; <op> ; …
  The object is `Sunpath(lat, lon, tz, north, period)` followed by `is_leap_year = spleap`.
  Ops (answers joined by " ; " in the same order; `ok` for an accepted setter, `-` for a read the
  model does not describe, `err:<class>` for a refused operation):
    slat|slon|snorth <bits | bad:<class>>      stz <bits | none | bad:<class>>
    sleap <0|1>        sper <period> | sper bad
    dst <dt>           sun <solar> <dt>          csun <solar> <month> <day> <hourbits>
    smoy <solar> <int> shoy <solar> <int>
    riseset <solar> <dep> <dt>                   risesetmd <solar> <dep> <month> <day>
    analemma <solar> <daytime> <sm> <em> <steps> <h> <mi>   hourly <solar> <daytime> <sm> <em> <steps>
    dayarc <dep> <daytime> <month> <day>         nop
-/

open SunpathObj in
def showOErr : OErr → String
  | .value => "err:value"
  | .index => "err:index"
  | .type => "err:type"
  | .zero => "err:zero"
  | .assert => "err:assert"
  | .attr => "err:attr"

def oerr? (s : String) : Option SunpathObj.OErr :=
  if s = "bad:value" then some .value
  else if s = "bad:type" then some .type
  else if s = "bad:assert" then some .assert
  else if s = "bad:attr" then some .attr
  else if s = "bad:index" then some .index
  else if s = "bad:zero" then some .zero
  else none

def num? (s : String) : Option (Except SunpathObj.OErr Float) :=
  match oerr? s with
  | some e => some (.error e)
  | none => (fun f => .ok f) <$> floatBits? s

def showOut : SunpathObj.Out Float → String
  | .done => "ok"
  | .flag b => s!"ok {showBool b}"
  | .sun s => "ok " ++ showSunD s
  | .riseSet r => s!"ok {showODT r.sunrise} {showDT r.noon} {showODT r.sunset}"
  | .suns l => s!"ok {l.length} " ++ joinSp (l.map showSunD)
  | .sunss ll => s!"ok {ll.length} " ++ joinSp (ll.map fun l => s!"{l.length} " ++ joinSp (l.map showSunD))
  | .arc none => "ok none"
  | .arc (some a) =>
    s!"ok {if a.polar then "polar" else "arc"} {showSunD (a.first, false)} {showSunD (a.mid, false)} {showSunD (a.last, false)}"
  | .unmodelled => "-"
  | .err e => showOErr e

/-- Split a token list at the ";" tokens. -/
def splitSemi (toks : List String) : List (List String) :=
  let r := toks.foldl (fun (acc : List (List String) × List String) t =>
    if t = ";" then (acc.2.reverse :: acc.1, []) else (acc.1, t :: acc.2)) ([], [])
  (r.2.reverse :: r.1).reverse

def dtArg (toks : List String) (k : Cal.DT → SunpathObj.Query Float) : Option (SunpathObj.Op Float) :=
  match dt? toks with
  | some (.ok d, []) => some (.rd (k d))
  | some (.error e, []) => some (.argErr (SunpathObj.ofCal e))
  | _ => none

def op? (toks : List String) : Option (SunpathObj.Op Float) :=
  match toks with
  | ["slat", x] => (fun v => SunpathObj.Op.setLat v) <$> num? x
  | ["slon", x] => (fun v => SunpathObj.Op.setLon v) <$> num? x
  | ["snorth", x] => (fun v => SunpathObj.Op.setNorth v) <$> num? x
  | ["stz", x] =>
    if x = "none" then some (.setTz (.ok none))
    else match num? x with
      | some (.ok f) => some (.setTz (.ok (some f)))
      | some (.error e) => some (.setTz (.error e))
      | none => none
  | ["sleap", b] => (fun b => SunpathObj.Op.setLeap b) <$> bool? b
  | ["sper", "bad"] => some (.setPeriod (.error .assert))
  | "sper" :: rest =>
    match period? rest with
    | some (p, []) => some (.setPeriod (.ok p))
    | _ => none
  | "dst" :: rest => dtArg rest (fun d => .isDst d)
  | "sun" :: solar :: rest =>
    match bool? solar with
    | some solar => dtArg rest (fun d => .sun d solar)
    | none => none
  | ["csun", solar, mo, da, h] =>
    match bool? solar, mo.toNat?, da.toNat?, floatBits? h with
    | some solar, some mo, some da, some h => some (.rd (.sunMDH mo da h solar))
    | _, _, _, _ => none
  | ["smoy", solar, m] =>
    match bool? solar, m.toInt? with
    | some solar, some m => some (.rd (.sunMoy m solar))
    | _, _ => none
  | ["shoy", solar, h] =>
    match bool? solar, h.toInt? with
    | some solar, some h => some (.rd (.sunMoy (h * 60) solar))
    | _, _ => none
  | "riseset" :: solar :: dep :: rest =>
    match bool? solar, floatBits? dep with
    | some solar, some dep => dtArg rest (fun d => .riseSet d dep solar)
    | _, _ => none
  | ["risesetmd", solar, dep, mo, da] =>
    match bool? solar, floatBits? dep, mo.toNat?, da.toNat? with
    | some solar, some dep, some mo, some da => some (.rd (.riseSetMD mo da dep solar))
    | _, _, _, _ => none
  | ["analemma", solar, daytime, sm, em, steps, h, mi] =>
    match bool? solar, bool? daytime, sm.toNat?, em.toNat?, steps.toInt?, h.toNat?, mi.toNat? with
    | some solar, some daytime, some sm, some em, some steps, some h, some mi =>
      some (.rd (.analemma h mi daytime solar sm em steps))
    | _, _, _, _, _, _, _ => none
  | ["hourly", solar, daytime, sm, em, steps] =>
    match bool? solar, bool? daytime, sm.toNat?, em.toNat?, steps.toInt? with
    | some solar, some daytime, some sm, some em, some steps =>
      some (.rd (.hourly daytime solar sm em steps))
    | _, _, _, _, _ => none
  | ["dayarc", dep, daytime, mo, da] =>
    match floatBits? dep, bool? daytime, mo.toNat?, da.toNat? with
    | some dep, some daytime, some mo, some da => some (.rd (.dayArc mo da dep daytime))
    | _, _, _, _ => none
  | ["nop"] => some (.rd .unmodelled)
  | _ => none

def handleHist (toks : List String) : String :=
  match splitSemi toks with
  | [] => "bad-op"
  | head :: segs =>
    match head with
    | lat :: lon :: tz :: north :: spleap :: rest =>
      match floatBits? lat, floatBits? lon, tz? tz, floatBits? north, bool? spleap, period? rest with
      | some la, some lo, some t, some n, some l, some (p, []) =>
        match segs.mapM op? with
        | none => "bad-op"
        | some ops =>
          match SunpathObj.construct la lo t n p with
          | .error e => showOErr e
          | .ok o0 =>
            let o := (SunpathObj.step ofN toRat ofI o0 (.setLeap l)).1
            let r := SunpathObj.run ofN toRat ofI o ops
            " ; ".intercalate ("ok" :: r.2.map showOut)
      | _, _, _, _, _, _ => "bad-op"
    | _ => "bad-op"

def handleAll (toks : List String) : String :=
  match toks with
  | "hist" :: rest => handleHist rest
  | _ => handle toks

end DrvC11

def main : IO Unit := Drv.run DrvC11.handleAll
