/- Model driver for C11 (stub: no ops yet). -/
import Ladybug.DrvCore

namespace DrvC11
def handle (_toks : List String) : String := "bad-op"
end DrvC11

def main : IO Unit := Drv.run DrvC11.handle
