/-
  Model driver for C03 (calendar grouping and statistics).  Line protocol: see DrvCore.  Mathlib-free.

  A period is 8 tokens  st_month st_day st_hour end_month end_day end_hour timestep leap  (built with
  `AP.mkOpt?` like `AnalysisPeriod(...)`).  Grouped values are ids: the value at position `i` is `i`.

    cont_day|cont_month|cont_mph  <ap8>                    HourlyContinuousCollection(header(ap), range(len(ap)))
    disc_day|disc_month|disc_mph  <ap8> <dleap> <moys…>    HourlyDiscontinuousCollection with datetimes from_moy(m, dleap)
    daily_month <leap> <doys…>                             DailyCollection.group_by_month
    op <interval> <stat> <p> cont <ap8> <vals…>            average_/total_/percentile_ daily|monthly|monthlyperhour
    op <interval> <stat> <p> disc <ap8> <dleap> <n> <moys…> <vals…>
    daily_op <stat> <p> <ap8> <n> <doys…> <vals…>          DailyCollection._monthly_operation
    percentile <p> <vals…> | median | average | total | minmax <vals…>
    highest|lowest <count> <vals…>
    hist <kind> <imm> <ap8> <dleap> <n> <moys|doys…> <nv> <vals…> | <op> | <op> …
         one object, a history of operations (Model/GroupObj.lean); the answers of all steps joined by ` ;; `
         ops: group day|month|mph · stat <interval> <stat> <p> · pct <p> · median · minmax · avg · total ·
              highest <c> · lowest <c> · dts · twin day|month|mph · setvals N | setvals <k> <vals…> ·
              setitem <i> <v> · cull <ts>

  Groups are printed as runs `a-b` of consecutive ids; dictionaries as all keys (in order) followed by
  the non-empty groups.
-/
import Ladybug.DrvCore
import Ladybug.Model.Group
import Ladybug.Model.Stats
import Ladybug.Model.GroupObj

open Drv Cal

namespace DrvC03

def showErr : Grp.Err → String
  | .key => "err:key"
  | .value => "err:value"
  | .index => "err:index"
  | .assert => "err:assert"

def showCalErr : Cal.Err → String
  | .value => "err:value"
  | .index => "err:index"
  | .type => "err:type"

def optInt? (s : String) : Option (Option Int) :=
  if s = "N" then some none else s.toInt?.map some

def period? (toks : List String) : Option (Except Cal.Err AP) :=
  match toks with
  | [a, b, c, d, e, f, g, l] => do
    let a ← optInt? a
    let b ← optInt? b
    let c ← optInt? c
    let d ← optInt? d
    let e ← optInt? e
    let f ← optInt? f
    let g ← optInt? g
    let l ← bool? l
    pure (AP.mkOpt? a b c d e f g l)
  | _ => none

/-- Runs of consecutive ascending numbers: `[3,4,5,9,1,2]` ↦ `3-5,9,1-2`. -/
def runs (l : List Nat) : String :=
  let rec go : List Nat → Nat → Nat → List String → List String
    | [], a, b, acc => (if a = b then toString a else s!"{a}-{b}") :: acc
    | x :: xs, a, b, acc =>
      if x = b + 1 then go xs a x acc
      else go xs x x ((if a = b then toString a else s!"{a}-{b}") :: acc)
  match l with
  | [] => "-"
  | x :: xs => ",".intercalate (go xs x x []).reverse

def showDictNat (d : Grp.Dict Nat Nat) : String :=
  "ok keys " ++ runs (d.map (·.1)) ++ " groups" ++
    String.join ((d.filter (·.2 ≠ [])).map fun p => s!" {p.1}={runs p.2}")

def showKey3 (k : Nat × Nat × Nat) : String := s!"{k.1}.{k.2.1}.{k.2.2}"

def showDictMph (d : Grp.Dict (Nat × Nat × Nat) Nat) : String :=
  "ok keys " ++ ",".intercalate (d.map fun p => showKey3 p.1) ++ " groups" ++
    String.join ((d.filter (·.2 ≠ [])).map fun p => s!" {showKey3 p.1}={runs p.2}")

/-- `DateTime.from_moy(m, leap)` for the datetimes of a discontinuous collection (`none` = the
    harness sent a minute outside the year). -/
def dts? (leap : Bool) (ms : List Nat) : Option (List DT) :=
  ms.mapM fun (m : Nat) => match fromMoy leap (m : Int) with
    | .ok d => some d
    | .error _ => none

def withIds {τ : Type} (l : List τ) : List (τ × Nat) := l.zip (List.range l.length)

/-- The continuous constructor: asserts the whole-day window; values must have `len(ap)` entries. -/
def contOk (ap : AP) (n : Nat) : Bool := ap.st_hour = 0 ∧ ap.end_hour = 23 ∧ n = ap.len

/-- The datetimes of a continuous collection (`analysis_period.datetimes`). -/
def contDts (ap : AP) : List DT :=
  ap.moys.filterMap fun (m : Nat) => match fromMoy ap.leap (m : Int) with
    | .ok d => some d
    | .error _ => none

def showRes {β : Type} (f : β → String) : Except Grp.Err β → String
  | .ok b => f b
  | .error e => showErr e

def stat? (name p : String) : Option Stats.Op :=
  match name with
  | "average" => some .average
  | "total" => some .total
  | "percentile" => (rat? p).map .percentile
  | _ => none

def showRats (l : List Rat) : String := joinSp (l.map showRat)

/-- Result of `_time_interval_operation`: header timestep, keys, values. -/
def showOp {κ : Type} (ts : Nat) (sk : κ → String) (r : Except Grp.Err (List (κ × Rat))) : String :=
  match r.bind Grp.resultCollection with
  | .error e => showErr e
  | .ok l => s!"ok {ts} {l.length} " ++ joinSp (l.map fun p => sk p.1) ++ " | " ++ showRats (l.map (·.2))

/-- `_time_interval_operation(interval, op)` given the three group dictionaries. -/
def intervalResult (ap : AP) (iv : String) (op : Stats.Op)
    (gDay gMonth : Unit → Except Grp.Err (Grp.Dict Nat Rat))
    (gMph : Unit → Except Grp.Err (Grp.Dict (Nat × Nat × Nat) Rat)) : String :=
  if op.admissible = false then "err:assert"
  else match iv with
    | "daily" =>
      showOp (Grp.resultTimestep ap .daily) toString
        ((gDay ()).bind fun d => Grp.intervalOp d ap.doysInt op.apply)
    | "monthly" =>
      showOp (Grp.resultTimestep ap .monthly) toString
        ((gMonth ()).bind fun d => Grp.intervalOp d ap.monthsInt op.apply)
    | "monthlyperhour" =>
      showOp (Grp.resultTimestep ap .monthlyPerHour) showKey3
        ((gMph ()).bind fun d => Grp.intervalOp d ap.monthsPerHour op.apply)
    | _ => "bad-op"


/-! ### Histories on one object (Model/GroupObj.lean) -/

def splitBar (toks : List String) : List (List String) :=
  let rec go : List String → List String → List (List String) → List (List String)
    | [], cur, acc => (cur.reverse :: acc).reverse
    | t :: ts, cur, acc => if t = "|" then go ts [] (cur.reverse :: acc) else go ts (t :: cur) acc
  go toks [] []

def csvRats (l : List Rat) : String := ",".intercalate (l.map showRat)

def showGroupsNat (d : Grp.Dict Nat Rat) : String :=
  s!"ok nkeys {d.length} groups" ++ String.join ((d.filter (·.2 ≠ [])).map fun p => s!" {p.1}={csvRats p.2}")

def showGroupsMph (d : Grp.Dict (Nat × Nat × Nat) Rat) : String :=
  s!"ok nkeys {d.length} groups" ++
    String.join ((d.filter (·.2 ≠ [])).map fun p => s!" {showKey3 p.1}={csvRats p.2}")

def showRefusal : Grp.Refusal → String
  | .assert => "err:assert"
  | .index => "err:index"
  | .attr => "err:attr"

def showOut : Grp.Out → String
  | .dictNat r => showRes showGroupsNat r
  | .dictMph r => showRes showGroupsMph r
  | .statNat ts r => showOp ts toString r
  | .statMph ts r => showOp ts showKey3 r
  | .num r => showRes (fun x => "ok " ++ showRat x) r
  | .two r => showRes (fun x => s!"ok {showRat x.1} {showRat x.2}") r
  | .hl r => showRes (fun x => "ok " ++ showRats x.1 ++ " | " ++ showNats x.2) r
  | .stamps l =>
    let ms := l.map DT.moy
    s!"ok {ms.length} {ms.head?.getD 0} {ms.getLast?.getD 0} {ms.foldl (· + ·) 0}"
  | .days l => s!"ok {l.length} {l.head?.getD 0} {l.getLast?.getD 0} {l.foldl (· + ·) 0}"
  | .done => "ok"
  | .refused e => showRefusal e
  | .unsupported => "err:attr"

def byTok? : String → Option Grp.By
  | "day" => some .day
  | "month" => some .month
  | "mph" => some .mph
  | _ => none

def interval? : String → Option Grp.Interval
  | "daily" => some .daily
  | "monthly" => some .monthly
  | "monthlyperhour" => some .monthlyPerHour
  | _ => none

def histOp? : List String → Option Grp.Op
  | ["group", b] => (byTok? b).map fun b => .read (.group b)
  | ["stat", iv, st, p] => do
    let iv ← interval? iv
    let op ← stat? st p
    pure (.read (.stat iv op))
  | ["pct", p] => (rat? p).map fun p => .read (.pct p)
  | ["median"] => some (.read .median)
  | ["minmax"] => some (.read .minmax)
  | ["avg"] => some (.read .avg)
  | ["total"] => some (.read .total)
  | ["highest", c] => c.toInt?.map fun c => .read (.highest c)
  | ["lowest", c] => c.toInt?.map fun c => .read (.lowest c)
  | ["dts"] => some (.read .dts)
  | ["twin", b] => (byTok? b).map fun b => .read (.twin b)
  | ["setvals", "N"] => some (.mut (.setvals none))
  | "setvals" :: _ :: vs => (vs.mapM rat?).map fun v => .mut (.setvals (some v))
  | ["setitem", i, v] => do
    let i ← i.toInt?
    let v ← rat? v
    pure (.mut (.setitem i v))
  | ["cull", ts] => ts.toInt?.map fun ts => .mut (.cull ts)
  | _ => none

def histObj? (toks : List String) : Option (Except String Grp.Obj) :=
  match toks with
  | k :: im :: rest =>
    match period? (rest.take 8), (rest.drop 8).head?.bind bool?, (rest.drop 9).head?.bind String.toNat? with
    | some (.error e), _, _ => some (.error (showCalErr e))
    | some (.ok ap), some dl, some n =>
      let stampsT := (rest.drop 10).take n
      let afterS := (rest.drop 10).drop n
      match nats stampsT, afterS.head?.bind String.toNat?, bool? im with
      | some st, some nv, some imm =>
        match ((afterS.drop 1).take nv).mapM rat? with
        | none => none
        | some vals =>
          match k with
          | "cont" =>
            if ¬ contOk ap vals.length then some (.error "err:assert")
            else some (.ok (Grp.Pub.fresh { kind := .cont, imm := imm, ap := ap, vals := vals, stamps := [], doys := [] }))
          | "disc" =>
            match dts? dl st with
            | none => none
            | some ds =>
              if ds.length ≠ vals.length ∨ ds.isEmpty then some (.error "err:assert")
              else some (.ok (Grp.Pub.fresh { kind := .disc, imm := imm, ap := ap, vals := vals, stamps := ds, doys := [] }))
          | "daily" =>
            if st.length ≠ vals.length ∨ st.isEmpty then some (.error "err:assert")
            else some (.ok (Grp.Pub.fresh { kind := .daily, imm := imm, ap := ap, vals := vals, stamps := [], doys := st }))
          | _ => none
      | _, _, _ => none
    | _, _, _ => none
  | _ => none

def handleHist (toks : List String) : String :=
  match splitBar toks with
  | [] => "bad-op"
  | head :: ops =>
    match histObj? head, ops.mapM histOp? with
    | some (.error e), _ => e
    | some (.ok o), some ops => " ;; ".intercalate ((o.run ops).2.map showOut)
    | _, _ => "bad-op"

def handle (toks : List String) : String :=
  match toks with
  | "hist" :: rest => handleHist rest
  | "cont_day" :: rest | "cont_month" :: rest | "cont_mph" :: rest =>
    match period? rest with
    | none => "bad-op"
    | some (.error e) => showCalErr e
    | some (.ok ap) =>
      if ¬ (ap.st_hour = 0 ∧ ap.end_hour = 23) then "err:assert"
      else
        let vals := List.range ap.len
        match toks.head? with
        | some "cont_day" => showDictNat (Grp.contDay ap vals)
        | some "cont_month" => showRes showDictNat (Grp.contMonth ap vals)
        | _ => showRes showDictMph (Grp.discMph ap ((contDts ap).zip vals))
  | "disc_day" :: rest | "disc_month" :: rest | "disc_mph" :: rest =>
    match period? (rest.take 8), (rest.drop 8).head?.bind bool?, nats (rest.drop 9) with
    | some (.error e), _, _ => showCalErr e
    | some (.ok ap), some dl, some ms =>
      match dts? dl ms with
      | none => "bad-op"
      | some ds =>
        if ds.isEmpty then "err:assert"
        else
          let data := withIds ds
          match toks.head? with
          | some "disc_day" => showRes showDictNat (Grp.discDay ap data)
          | some "disc_month" => showRes showDictNat (Grp.discMonth data)
          | _ => showRes showDictMph (Grp.discMph ap data)
    | _, _, _ => "bad-op"
  | "daily_month" :: l :: rest =>
    match bool? l, nats rest with
    | some leap, some doys =>
      if doys.isEmpty then "err:assert" else showRes showDictNat (Grp.dailyMonth leap (withIds doys))
    | _, _ => "bad-op"
  | "op" :: iv :: st :: p :: "cont" :: rest =>
    match stat? st p, period? (rest.take 8), (rest.drop 8).mapM rat? with
    | some _, some (.error e), _ => showCalErr e
    | some op, some (.ok ap), some vals =>
      if ¬ contOk ap vals.length then "err:assert"
      else
        intervalResult ap iv op (fun _ => .ok (Grp.contDay ap vals)) (fun _ => Grp.contMonth ap vals)
          (fun _ => Grp.discMph ap ((contDts ap).zip vals))
    | _, _, _ => "bad-op"
  | "op" :: iv :: st :: p :: "disc" :: rest =>
    match stat? st p, period? (rest.take 8), (rest.drop 8).head?.bind bool?,
        (rest.drop 9).head?.bind String.toNat? with
    | some _, some (.error e), _, _ => showCalErr e
    | some op, some (.ok ap), some dl, some n =>
      match nats ((rest.drop 10).take n), ((rest.drop 10).drop n).mapM rat? with
      | some ms, some vals =>
        match dts? dl ms with
        | none => "bad-op"
        | some ds =>
          if ds.length ≠ vals.length ∨ ds.isEmpty then "err:assert"
          else
            let data := ds.zip vals
            intervalResult ap iv op (fun _ => Grp.discDay ap data) (fun _ => Grp.discMonth data)
              (fun _ => Grp.discMph ap data)
      | _, _ => "bad-op"
    | _, _, _, _ => "bad-op"
  | "daily_op" :: st :: p :: rest =>
    match stat? st p, period? (rest.take 8), (rest.drop 8).head?.bind String.toNat? with
    | some _, some (.error e), _ => showCalErr e
    | some op, some (.ok ap), some n =>
      match nats ((rest.drop 9).take n), ((rest.drop 9).drop n).mapM rat? with
      | some doys, some vals =>
        if doys.length ≠ vals.length ∨ doys.isEmpty then "err:assert"
        else if op.admissible = false then "err:assert"
        else
          showOp ap.timestep toString
            ((Grp.dailyMonth ap.leap (doys.zip vals)).bind fun d => Grp.intervalOp d ap.monthsInt op.apply)
      | _, _ => "bad-op"
    | _, _, _ => "bad-op"
  | "percentile" :: p :: rest =>
    match rat? p, rest.mapM rat? with
    | some p, some vals => showRes (fun r => "ok " ++ showRat r) (Stats.percentileChecked vals p)
    | _, _ => "bad-op"
  | "median" :: rest =>
    match rest.mapM rat? with
    | some vals => showRes (fun r => "ok " ++ showRat r) (Stats.median vals)
    | none => "bad-op"
  | "average" :: rest =>
    match rest.mapM rat? with
    | some vals => showRes (fun r => "ok " ++ showRat r) (Stats.average vals)
    | none => "bad-op"
  | "total" :: rest =>
    match rest.mapM rat? with
    | some vals => "ok " ++ showRat (Stats.total vals)
    | none => "bad-op"
  | "minmax" :: rest =>
    match rest.mapM rat? with
    | some vals =>
      match Stats.minV vals, Stats.maxV vals with
      | .ok a, .ok b => s!"ok {showRat a} {showRat b}"
      | _, _ => "err:value"
    | none => "bad-op"
  | "highest" :: c :: rest =>
    match c.toInt?, rest.mapM rat? with
    | some c, some vals =>
      showRes (fun r => "ok " ++ showRats r.1 ++ " | " ++ showNats r.2) (Stats.highestValues vals c)
    | _, _ => "bad-op"
  | "lowest" :: c :: rest =>
    match c.toInt?, rest.mapM rat? with
    | some c, some vals =>
      showRes (fun r => "ok " ++ showRats r.1 ++ " | " ++ showNats r.2) (Stats.lowestValues vals c)
    | _, _ => "bad-op"
  | _ => "bad-op"

end DrvC03

def main : IO Unit := Drv.run DrvC03.handle
