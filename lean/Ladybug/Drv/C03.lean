/- Model driver for C03 (stub: no ops yet). -/
import Ladybug.DrvCore

namespace DrvC03
def handle (_toks : List String) : String := "bad-op"
end DrvC03

def main : IO Unit := Drv.run DrvC03.handle
