/-
  Model driver for C08 (dt.py).  Line protocol: see DrvCore.  Imports only Mathlib-free files.
-/
import Ladybug.DrvCore
import Ladybug.Model.Cal
import Ladybug.Model.C08Hist
import Ladybug.Model.C08Frac

open Drv Cal

namespace DrvC08

def showErr : Err → String
  | .value => "err:value"
  | .index => "err:index"
  | .type => "err:type"

def showDT (r : Except Err DT) : String :=
  match r with
  | .error e => showErr e
  | .ok d => s!"ok {d.month} {d.day} {d.hour} {d.minute} {showBool d.leap} {d.doy} {d.intHoy} {d.moy}"

def showD (r : Except Err D) : String :=
  match r with
  | .error e => showErr e
  | .ok d => s!"ok {d.month} {d.day} {showBool d.leap} {d.doy}"

def showT (r : Except Err T) : String :=
  match r with
  | .error e => showErr e
  | .ok t => s!"ok {t.hour} {t.minute} {t.mod}"

def showKV (kv : List (String × Nat)) : String :=
  joinSp (kv.map fun p => p.1 ++ "=" ++ toString p.2)

def parseKV (toks : List String) : Option (List (String × Nat)) :=
  toks.mapM fun t =>
    match t.splitOn "=" with
    | [k, v] => (fun n => (k, n)) <$> v.toNat?
    | _ => none

/-- Build a DT from 4 tokens + leap (after validation by `make`). -/
def dtOf (leap mo da h mi : String) : Option (Except Err DT) := do
  let l ← bool? leap
  let mo ← mo.toNat?
  let da ← da.toNat?
  let h ← h.toNat?
  let mi ← mi.toNat?
  pure (DT.make mo da h mi l)

def onDT (r : Option (Except Err DT)) (f : DT → String) : String :=
  match r with
  | none => "bad-op"
  | some (.error e) => showErr e
  | some (.ok d) => f d

def handleBase (toks : List String) : String :=
  match toks with
  | ["from_moy", leap, moy] =>
    match bool? leap, moy.toInt? with
    | some l, some m => showDT (fromMoy l m)
    | _, _ => "bad-op"
  | ["from_hoy", leap, bits] =>
    -- from_hoy(hoy) = from_moy(round(hoy * 60)) with the IEEE product
    match bool? leap, floatBits? bits with
    | some l, some f =>
      match Py.ratOfFloatBits (f * 60.0).toBits with
      | some x => showDT (fromHoyTimes60 l x)
      | none => "err:value"
    | _, _ => "bad-op"
  | ["make", leap, mo, da, h, mi] =>
    match dtOf leap mo da h mi with
    | some r => showDT r
    | none => "bad-op"
  | ["hoy", leap, mo, da, h, mi] =>
    onDT (dtOf leap mo da h mi) fun d => "ok " ++ showRat d.hoy
  | ["add_minute", leap, mo, da, h, mi, k] =>
    match k.toInt? with
    | some k => onDT (dtOf leap mo da h mi) fun d => showDT (d.addMinute k)
    | none => "bad-op"
  | ["sub_minute", leap, mo, da, h, mi, k] =>
    match k.toInt? with
    | some k => onDT (dtOf leap mo da h mi) fun d => showDT (d.subMinute k)
    | none => "bad-op"
  | ["add_hour", leap, mo, da, h, mi, bits] =>
    match floatBits? bits with
    | some f =>
      match Py.ratOfFloatBits (f * 60.0).toBits with
      | some x => onDT (dtOf leap mo da h mi) fun d => showDT (d.addHourTimes60 x)
      | none => "err:value"
    | none => "bad-op"
  | ["sub_hour", leap, mo, da, h, mi, bits] =>
    match floatBits? bits with
    | some f =>
      match Py.ratOfFloatBits ((-f) * 60.0).toBits with
      | some x => onDT (dtOf leap mo da h mi) fun d => showDT (d.addHourTimes60 x)
      | none => "err:value"
    | none => "bad-op"
  | ["from_doy", leap, doy] =>
    match bool? leap, doy.toInt? with
    | some l, some n => showD (fromDoy l n)
    | _, _ => "bad-op"
  | ["date_make", leap, mo, da] =>
    match bool? leap, mo.toInt?, da.toInt? with
    | some l, some mo, some da => showD (D.make mo da l)
    | _, _, _ => "bad-op"
  | ["from_mod", m] =>
    match m.toNat? with
    | some m => showT (fromMod m)
    | none => "bad-op"
  | ["time_make", h, m] =>
    match h.toNat?, m.toNat? with
    | some h, some m => showT (T.make h m)
    | _, _ => "bad-op"
  | ["norm_hm", h, m] =>
    match h.toNat?, m.toNat? with
    | some h, some m => let r := normHM h m; s!"ok {r.1} {r.2}"
    | _, _ => "bad-op"
  | ["to_array", leap, mo, da, h, mi] =>
    onDT (dtOf leap mo da h mi) fun d => "ok " ++ showNats d.toArray
  | "from_array" :: rest =>
    match nats rest with
    | some a => showDT (DT.fromArray a)
    | none => "bad-op"
  | ["to_dict", leap, mo, da, h, mi] =>
    onDT (dtOf leap mo da h mi) fun d => "ok " ++ showKV d.toDict
  | "from_dict" :: rest =>
    match parseKV rest with
    | some kv => showDT (DT.fromDict kv)
    | none => "bad-op"
  | ["reduce", leap, mo, da, h, mi] =>
    onDT (dtOf leap mo da h mi) fun d => showDT (DT.rebuild d.reduceArgs)
  | ["date_to_array", leap, mo, da] =>
    match bool? leap, mo.toInt?, da.toInt? with
    | some l, some mo, some da =>
      match D.make mo da l with
      | .ok d => "ok " ++ showNats d.toArray
      | .error e => showErr e
    | _, _, _ => "bad-op"
  | "date_from_array" :: rest =>
    match nats rest with
    | some a => showD (D.fromArray a)
    | none => "bad-op"
  | ["date_to_dict", leap, mo, da] =>
    match bool? leap, mo.toInt?, da.toInt? with
    | some l, some mo, some da =>
      match D.make mo da l with
      | .ok d => "ok " ++ showKV d.toDict
      | .error e => showErr e
    | _, _, _ => "bad-op"
  | "date_from_dict" :: rest =>
    match parseKV rest with
    | some kv => showD (D.fromDict kv)
    | none => "bad-op"
  | ["date_reduce", leap, mo, da] =>
    match bool? leap, mo.toInt?, da.toInt? with
    | some l, some mo, some da =>
      match D.make mo da l with
      | .ok d => showD (D.rebuild d.reduceArgs)
      | .error e => showErr e
    | _, _, _ => "bad-op"
  | "time_from_dict" :: rest =>
    match parseKV rest with
    | some kv => showT (T.fromDict kv)
    | none => "bad-op"
  | "time_from_array" :: rest =>
    match nats rest with
    | some a => showT (T.fromArray a)
    | none => "bad-op"
  | ["str", leap, mo, da, h, mi] =>
    onDT (dtOf leap mo da h mi) fun d => "ok " ++ d.str
  | ["parse", leap, dd, mon, hm] =>
    match bool? leap with
    | some l => showDT (DT.parse (dd ++ " " ++ mon ++ " " ++ hm) l)
    | none => "bad-op"
  | ["py_round", x] =>
    match rat? x with
    | some q => "ok " ++ toString (Py.round q)
    | none => "bad-op"
  | ["py_trunc", x] =>
    match rat? x with
    | some q => "ok " ++ toString (Py.truncRat q)
    | none => "bad-op"
  | ["py_round_n", x, n] =>
    match rat? x, n.toNat? with
    | some q, some n => "ok " ++ showRat (Py.roundN q n)
    | _, _ => "bad-op"
  | ["py_floordiv", a, b] =>
    match a.toInt?, b.toInt? with
    | some a, some b => if b = 0 then "err:zero" else "ok " ++ toString (Py.floordiv a b)
    | _, _ => "bad-op"
  | ["py_mod", a, b] =>
    match a.toInt?, b.toInt? with
    | some a, some b => if b = 0 then "err:zero" else "ok " ++ toString (Py.mod a b)
    | _, _ => "bad-op"
  | ["py_float", bits] =>
    match hex? bits with
    | some n =>
      match Py.ratOfFloatBits (UInt64.ofNat n) with
      | some q => "ok " ++ showRat q
      | none => "err:value"
    | none => "bad-op"
  | _ => "bad-op"

/-! ### histories (round 3): `hist <op> <op> ...`, one token per op, fields separated by `:` -/

def productRat? (bits : String) (neg : Bool) : Option Rat :=
  match floatBits? bits with
  | some f => Py.ratOfFloatBits ((if neg then -f else f) * 60.0).toBits
  | none => none

def form? (s : String) : Option Hist.Form :=
  if s = "array" then some .array else if s = "dict" then some .dict
  else if s = "reduce" then some .reduce else if s = "text" then some .text
  else if s = "date_time" then some .dateAndTime else none

def histOp? (tok : String) : Option Hist.Op :=
  match tok.splitOn ":" with
  | ["fm", l, m] => do pure (.fromMoy (← bool? l) (← m.toInt?))
  | ["fh", l, bits] => do pure (.fromHoy (← bool? l) (← productRat? bits false))
  | ["fd", l, k] => do pure (.fromDoy (← bool? l) (← k.toInt?))
  | ["mk", l, mo, da, h, mi] => do
      pure (.make (← bool? l) (← mo.toNat?) (← da.toNat?) (← h.toNat?) (← mi.toNat?))
  | ["am", k] => do pure (.addMin (← k.toInt?))
  | ["sm", k] => do pure (.subMin (← k.toInt?))
  | ["ah", bits] => do pure (.addHour (← productRat? bits false))
  | ["sh", bits] => do pure (.addHour (← productRat? bits true))
  | ["sl", b] => do pure (.setLeap (← bool? b))
  | ["md", m] => do pure (.setMod (← m.toNat?))
  | ["via", f] => do pure (.via (← form? f))
  | ["rd"] => some .read
  | _ => none

def showOut : Hist.Out → String
  | .refused e => showErr e
  | .obs o => s!"ok {o.month} {o.day} {o.hour} {o.minute} {showBool o.leap} {o.doy} {o.intHoy} {o.moy} {showRat o.hoy}"

def handleHist (toks : List String) : String :=
  match toks.mapM histOp? with
  | none => "bad-op"
  | some ops => " | ".intercalate ((Hist.trace Hist.Obj.fresh ops).map showOut)

/-! ### round 4: fractional constructor arguments, fractional minute offsets, branch names -/

/-- `_calculate_hour_and_minute(f)` with the IEEE operations of the code: `hour = int(f)`,
    `(f - hour) * 60` formed in double arithmetic, then the exact model. -/
def calcOfFloat? (f : Float) : Option (Int × Int) :=
  match Py.ratOfFloatBits f.toBits with
  | none => none
  | some q =>
    let hour := Py.truncRat q
    match Py.ratOfFloatBits ((f - Float.ofInt hour) * 60.0).toBits with
    | none => none
    | some prod => some (calcHM hour prod)

def showBranch : DoyBranch → String
  | .negative => "negative"
  | .fallThrough => "fall-through"
  | .monthEnd => "month-end"
  | .plain => "plain"

def handleR4 (toks : List String) : Option String :=
  match toks with
  | ["calc_hm", bits] =>
    match floatBits? bits with
    | some f =>
      match calcOfFloat? f with
      | some hm => some s!"ok {hm.1} {hm.2}"
      | none => some "err:value"
    | none => some "bad-op"
  | ["make_f", leap, mo, da, hbits, mbits] =>
    match bool? leap, mo.toNat?, da.toNat?, floatBits? hbits, floatBits? mbits with
    | some l, some mo, some da, some h, some m =>
      match calcOfFloat? (h + m / 60.0) with
      | some hm => some (showDT (DT.makeHM mo da hm l))
      | none => some "err:value"
    | _, _, _, _, _ => some "bad-op"
  | ["time_make_f", hbits, mbits] =>
    match floatBits? hbits, floatBits? mbits with
    | some h, some m =>
      match calcOfFloat? (h + m / 60.0) with
      | some hm => some (showT (T.makeHM hm))
      | none => some "err:value"
    | _, _ => some "bad-op"
  | ["add_minute_f", leap, mo, da, h, mi, bits] =>
    match floatBits? bits with
    | some f =>
      match Py.ratOfFloatBits f.toBits with
      | some x => some (onDT (dtOf leap mo da h mi) fun d => showDT (d.addMinuteQ x))
      | none => some "err:value"
    | none => some "bad-op"
  | ["sub_minute_f", leap, mo, da, h, mi, bits] =>
    match floatBits? bits with
    | some f =>
      match Py.ratOfFloatBits f.toBits with
      | some x => some (onDT (dtOf leap mo da h mi) fun d => showDT (d.subMinuteQ x))
      | none => some "err:value"
    | none => some "bad-op"
  | ["doy_branch", leap, k] =>
    match bool? leap, k.toInt? with
    | some l, some k => some ("ok " ++ showBranch (doyBranch l k))
    | _, _ => some "bad-op"
  | ["moy_branch", leap, m] =>
    match bool? leap, m.toInt? with
    | some l, some m =>
      match moyBranch l m with
      | some k => some s!"ok {k}"
      | none => some "ok fall-through"
    | _, _ => some "bad-op"
  | _ => none

def handle (toks : List String) : String :=
  match handleR4 toks with
  | some r => r
  | none =>
  match toks with
  | "hist" :: rest => handleHist rest
  | ["from_moy_f", leap, bits] =>
    -- from_moy(x) for a float x: `int(moy)` truncates toward zero
    match bool? leap, hex? bits with
    | some l, some n =>
      match Py.ratOfFloatBits (UInt64.ofNat n) with
      | some x => showDT (fromMoy l (Py.truncRat x))
      | none => "err:value"
    | _, _ => "bad-op"
  | _ => handleBase toks

end DrvC08

def main : IO Unit := Drv.run DrvC08.handle
