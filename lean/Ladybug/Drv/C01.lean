/-
  Model driver for C01 (epw.py).  Line protocol: see DrvCore.  Imports only Mathlib-free files.
  Text that may contain blanks is sent with every blank replaced by U+001F; a body line is its
  comma-joined tokens (`~` = blank line); header lines are prefixed with `|`.
-/
import Ladybug.DrvCore
import Ladybug.Model.Epw
import Ladybug.Model.EpwObj

open Drv Epw

namespace DrvC01

def showErr : Err → String
  | .value => "err:value"
  | .index => "err:index"
  | .assert => "err:assert"
  | .key => "err:key"

def us : Char := Char.ofNat 31
def rs : String := String.singleton (Char.ofNat 30)

def dec (s : String) : String := s.map fun c => if c == us then ' ' else c
def enc (s : String) : String := s.map fun c => if c == ' ' then us else c

def leapTok? (s : String) : Option (Option Bool) :=
  if s = "Y" then some (some true) else if s = "N" then some (some false) else if s = "X" then some none else none

def parseLine (s : String) : Option (List String) :=
  if s = "~" then none else some ((dec s).splitOn ",")

def showLeap (b : Option Bool) : String :=
  match b with
  | some true => "Y"
  | some false => "N"
  | none => "X"

def hashStep (h x : Nat) : Nat := (h * 31 + x + 1) % 1000000007
def hashList (l : List Nat) : Nat := l.foldl hashStep 7

/-- ids of a synthetic file: cell (r, k) of an `nc`-column file carries `r * nc + k + 1`. -/
def synthLines (nlines nc : Nat) (blank : Option Nat) : List (Option (List Nat)) :=
  let rows := (List.range nlines).map fun r => some ((List.range nc).map fun k => r * nc + k + 1)
  match blank with
  | none => rows
  | some p => rows.take p ++ [none] ++ rows.drop p

def idCodec : Codec Nat Nat := ⟨fun _ t => some t, id⟩
def idConv : Conv Nat := ⟨fun _ v => v, fun _ v => v⟩

/-- light fingerprint of a column: length, sum, first and last value -/
def colFp (c : List Nat) : Nat := hashList [c.length, c.sum, c.head?.getD 0, c.getLast?.getD 0]

def fp (s : St Nat) : String :=
  s!"h{showBool s.hdrLoaded}d{showBool s.dataLoaded}i{showBool s.isIp}l{showLeap s.leap}n{s.nf}c{hashList (s.cols.map colFp)}"

/-- Run a history; answers one item per op: `<result>@<state fingerprint>`; stops after an error of
    the loading step (the real object is then half-built). -/
def runHist (f : File Nat) (ops : List String) : List String :=
  let ensure (s : St Nat) : Except Err (St Nat) := s.loadData idCodec pit f
  let rec go (fuel : Nat) (s : St Nat) (ops : List String) (acc : List String) : List String :=
    match fuel, ops with
    | 0, _ => acc
    | _, [] => acc
    | fuel + 1, op :: rest =>
      let fail (e : Err) := acc ++ [showErr e ++ "@stop"]
      if op = "H" then
        let s' := s.loadHeader f
        go fuel s' rest (acc ++ ["ok@" ++ fp s'])
      else
        match ensure s with
        | .error e => fail e
        | .ok s1 =>
          if op = "L" then go fuel s1 rest (acc ++ ["ok@" ++ fp s1])
          else if op = "I" then let s2 := s1.toIp idConv; go fuel s2 rest (acc ++ ["ok@" ++ fp s2])
          else if op = "S" then let s2 := s1.toSi idConv; go fuel s2 rest (acc ++ ["ok@" ++ fp s2])
          else if op = "W" then
            let (r, s2) := s1.toFileString idCodec pit idConv
            let out := match r with
              | .ok rows => s!"ok{rows.length}:{hashList (rows.map hashList)}"
              | .error e => showErr e
            go fuel s2 rest (acc ++ [out ++ "@" ++ fp s2])
          else if op.startsWith "F" then
            -- failing write: field k loses its last stored value for the duration of the call
            match (op.drop 1).toNat? with
            | none => acc ++ ["bad-op"]
            | some k =>
              let st := { s1 with cols := s1.cols.mapIdx fun j (c : List Nat) => if j = k then c.dropLast else c }
              let (r, s2) := st.toFileString idCodec pit idConv
              let out := match r with
                | .ok rows => s!"ok{rows.length}:{hashList (rows.map hashList)}"
                | .error e => showErr e
              let same := decide (s2.cols = st.cols) && s2.isIp == st.isIp
              go fuel s1 rest (acc ++ [out ++ "@" ++ fp s2 ++ (if same then "=" else "#")])
          else if op = "E" || op = "B" then
            let n := hoursInYear (s1.leap.getD false)
            let hoys := if op = "B" then some [5, n] else none
            let (r, s2) := s1.toWea idConv hoys
            let out := match r with
              | .ok ls => s!"ok{ls.length}:{hashList (ls.map fun (m, d, h, a, b) => hashList [m, d, h, a, b])}"
              | .error e => showErr e
            go fuel s2 rest (acc ++ [out ++ "@" ++ fp s2])
          else if op = "M" then
            let ls := (mosTable s1.cols).mapIdx fun i l => hashList (mosTime i :: l)
            go fuel s1 rest (acc ++ [s!"ok{ls.length}:{hashList ls}@" ++ fp s1])
          else if op = "D" then
            -- to_dict -> from_dict: a fully loaded object with the same data
            match s1.toDict.fromDict with
            | .ok s2 => go fuel s1 rest (acc ++ ["ok@" ++ fp s2])
            | .error e => go fuel s1 rest (acc ++ [showErr e ++ "@" ++ fp s1])
          else acc ++ ["bad-op"]
  go (ops.length + 1) ⟨false, false, false, none, 35, []⟩ ops []

/-! ### histories on the object state machine (Model/EpwObj.lean): header slots hold ids -/

def fpObj (o : Obj Nat Nat) : String :=
  fp o.st ++ "s" ++ "-".intercalate (o.slots.map toString)

/-- One op token of the `obj` protocol. -/
def parseObjOp (t : String) : Option (Op Nat Nat) :=
  let parts := t.splitOn ":"
  match parts with
  | ["H"] => some .header
  | ["L"] => some .load
  | ["I"] => some .toIp
  | ["S"] => some .toSi
  | ["W"] => some .write
  | ["M"] => some .mos
  | ["D"] => some .dict
  | ["E"] => some (.wea none)
  | ["E", hs] => (if hs = "" then some [] else (hs.splitOn ",").mapM String.toNat?).map fun l => .wea (some l)
  | ["G", k] => k.toNat?.map .field
  | ["F", k] => k.toNat?.map .writeShort
  | ["T", j, v, ok] =>
    match j.toNat?, v.toNat?, bool? ok with
    | some j, some v, some ok => some (.set j v ok)
    | _, _, _ => none
  | ["V", k, tag, len] =>
    match k.toNat?, tag.toNat?, len.toNat? with
    | some k, some tag, some len => some (.setValues k ((List.range len).map fun i => tag * 1000000 + i + 1))
    | _, _, _ => none
  | _ => none

def showOut (o : Out Nat Nat Nat) : String :=
  match o with
  | .none => "ok"
  | .err e => showErr e
  | .hdr _ _ => "ok"
  | .col c => s!"ok{colFp c}"
  | .text _ lp rows => s!"ok{rows.length}:{hashList (rows.map hashList)}{showLeap lp}"   -- + the leap field written above the rows
  | .wea ls => s!"ok{ls.length}:{hashList (ls.map fun (m, d, h, a, b) => hashList [m, d, h, a, b])}"
  | .mos _ t => s!"ok{t.length}:{hashList (t.mapIdx fun i l => hashList (mosTime i :: l))}"
  | .dict _ d =>
    match d.fromDict with
    | .ok s2 => "ok:" ++ fp s2
    | .error e => showErr e

/-- Run a history on the state machine; one item per op: `<output>@<state fingerprint>`. -/
def runObj (src : Src Nat Nat) (o : Obj Nat Nat) (ops : List String) : List String :=
  let rec go (o : Obj Nat Nat) (ops : List String) (acc : List String) : List String :=
    match ops with
    | [] => acc
    | t :: rest =>
      match parseObjOp t with
      | none => acc ++ ["bad-op"]
      | some op =>
        let r := step idCodec pit idConv src o op
        go r.1 rest (acc ++ [showOut r.2 ++ "@" ++ fpObj r.1])
  go o ops []

def showCols (cols : List (List Cell)) : String :=
  ";".intercalate (cols.map fun c => ",".intercalate (c.map showCell))

def showStamp (r : Except Cal.Err (Nat × Nat × Nat)) : String :=
  match r with
  | .ok (m, d, h) => s!"{m}/{d}/{h}"
  | .error _ => "err"

def showWeeks (l : List (String × Week)) : String :=
  ",".intercalate (l.map fun p => s!"{p.1}={p.2.stM}/{p.2.stD}-{p.2.endM}/{p.2.endD}")

def showDict (l : List (String × String)) : String := ",".intercalate (l.map fun p => p.1 ++ "=" ++ p.2)

def showNum (v : Option (Bool × Nat × Int)) : String :=
  match v with
  | none => "0"
  | some x => decNum.sf x

def describe (h : Hdr (Bool × Nat × Int)) : List String :=
  [h.loc.city, h.loc.state, h.loc.country, h.loc.source, h.loc.station, showNum h.loc.lat, showNum h.loc.lon,
   decNum.sf h.loc.tz, decNum.sf h.loc.elev, showBool h.des.is2009, showDict h.des.heating,
   showDict h.des.cooling, showDict h.des.extremes,
   showWeeks h.weeks.hot, showWeeks h.weeks.cold, showWeeks h.weeks.typical,
   ";".intercalate (h.ground.map fun g =>
     ":".intercalate ([decNum.sf g.depth, g.cond, g.dens, g.heat] ++ g.vals.map decNum.sf)),
   showLeap h.leap, h.dstStart, h.dstEnd, ",".intercalate h.comments1, ",".intercalate h.comments2]

def hdrLines (toks : List String) : Option (List (List String)) :=
  toks.mapM fun t => if t.startsWith "|" then some ((dec (t.drop 1).toString).splitOn ",") else none

def handle (toks : List String) : String :=
  match toks with
  | ["flags"] =>
    let o (l : List (Option String)) := ",".intercalate (l.map fun x => x.getD "-")
    s!"ok {Gen.EpwFields.count} {",".intercalate (Gen.EpwFields.valueType.map toString)} " ++
      s!"{",".intercalate (Gen.EpwFields.pointInTime.map showBool)} {enc (o Gen.EpwFields.unit)} " ++
      s!"{o Gen.EpwFields.missing} {",".intercalate Gen.EpwFields.dataType}"
  | "brw" :: lp :: lines =>
    -- import (columns after rotation), then write (rows; are the columns restored?)
    match leapTok? lp with
    | none => "bad-op"
    | some l =>
      match importBody decCodec pit l (lines.map parseLine) with
      | .error e => showErr e
      | .ok b =>
        let (r, cols2) := writeBody decCodec pit b.leap b.cols
        let w := match r with
          | .error e => showErr e
          | .ok rows => s!"ok {showBool (decide (cols2 = b.cols))} {";".intercalate (rows.map fun r => ",".intercalate r)}"
        enc s!"ok {b.nf} {showBool b.leap} {showCols b.cols} | {w}"
  | "hdr" :: ls =>
    match hdrLines ls with
    | none => "bad-op"
    | some lines =>
      match parseHeader decNum lines with
      | .error e => showErr e
      | .ok h =>
        let r := match renderHeader decNum decLt h with
          | .error e => showErr e
          | .ok out => rs.intercalate (out.map fun l => ",".intercalate l)
        enc ("ok " ++ rs.intercalate (describe h) ++ rs ++ rs ++ r)
  | ["stamps", lp] =>
    match bool? lp with
    | none => "bad-op"
    | some l => "ok " ++ joinSp ((List.range (hoursInYear l)).map fun i => showStamp (missingStamp l i))
  | ["dts", lp] =>
    match bool? lp with
    | none => "bad-op"
    | some l => "ok " ++ joinSp ((List.range (hoursInYear l)).map fun i =>
        match datetimeOfIndex l i with
        | .ok d => s!"{d.month}/{d.day}/{d.hour}/{d.minute}"
        | .error _ => "err")
  | ["rowmin", lp] =>
    match bool? lp with
    | none => "bad-op"
    | some l => "ok " ++ joinSp ((List.range (hoursInYear l)).map fun r =>
        s!"{(stampOfRow r).1}/{(stampOfRow r).2}/{minuteOfStamp l (stampOfRow r)}/{indexOfRow pit (hoursInYear l) 6 r}/{indexOfRow pit (hoursInYear l) 14 r}")
  | "hist" :: lp :: nl :: nc :: bl :: ops =>
    match leapTok? lp, nl.toNat?, nc.toNat?, bl.toInt? with
    | some l, some nl, some nc, some bl =>
      let blank := if bl < 0 then none else some bl.toNat
      joinSp (runHist ⟨l, synthLines nl nc blank⟩ ops)
    | _, _, _, _ => "bad-op"
  | "obj" :: lp :: nl :: nc :: bl :: ctor :: ops =>
    match leapTok? lp, nl.toNat?, nc.toNat?, bl.toInt? with
    | some l, some nl, some nc, some bl =>
      let blank := if bl < 0 then none else some bl.toNat
      match importBody idCodec pit l (synthLines nl nc blank) with
      | .error e => showErr e
      | .ok b =>
        let src : Src Nat Nat := ⟨l, b, List.replicate 11 0⟩
        let o0 : Obj Nat Nat := Obj.lazy (List.replicate 11 999)
        let o := if ctor = "P" then o0 else o0.loadData src
        joinSp (runObj src o ops)
    | _, _, _, _ => "bad-op"
  | _ => "bad-op"

end DrvC01

def main : IO Unit := Drv.run DrvC01.handle
