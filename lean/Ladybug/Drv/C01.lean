/- Model driver for C01 (stub: no ops yet). -/
import Ladybug.DrvCore

namespace DrvC01
def handle (_toks : List String) : String := "bad-op"
end DrvC01

def main : IO Unit := Drv.run DrvC01.handle
