/- Model driver for C18 (stub: no ops yet). -/
import Ladybug.DrvCore

namespace DrvC18
def handle (_toks : List String) : String := "bad-op"
end DrvC18

def main : IO Unit := Drv.run DrvC18.handle
