/-
  Model driver for C18.  Ops:
    wind T MT MHBITS LL N (kind arg)*N M (vbits hbits)*M
        -> ok <statuses> <terrain> <metTerrain> <logLaw> <7 float bits> <powDen> <logDen> | <results>
    tm <Class> (g<i> | s<i> | x<i>)*   (x: a REFUSED call of setter i)     -> verdict per read (ok | stale | alias:<expr> | none | unset)
    check <Class>                 -> the five table checks
  Imports only Mathlib-free files.
-/
import Ladybug.DrvCore
import Ladybug.Model.Lazy
import Ladybug.Model.LazyHist
import Ladybug.Model.WindProfile
import Ladybug.Gen.LazyDeps

open Drv

namespace DrvC18

def ratToFloat (r : Rat) : Float := Float.ofInt r.num / Float.ofNat r.den

def tpFloat (i : Nat) : Option (Float × Float × Float) :=
  Gen.Wind.terrainParams[i]?.map fun p => (ratToFloat p.2.1, ratToFloat p.2.2.1, ratToFloat p.2.2.2)

def fpow (x y : Float) : Float := Float.pow x y
def flog (x : Float) : Float := Float.log x

def terr? (s : String) : Option (Option Nat) :=
  if s = "x" then some none else s.toNat?.map some

def kindOf (n : Nat) : Option Wind.Kind := Wind.Kind.all[n]?

def parseCalls : Nat → List String → Option (List (Wind.Call Float) × List String)
  | 0, rest => some ([], rest)
  | n + 1, k :: a :: rest => do
    let kind ← k.toNat? >>= kindOf
    let call ← match kind with
      | .terrain | .metTerrain => (fun t => (⟨kind, 0, t, false⟩ : Wind.Call Float)) <$> terr? a
      | .logLaw => (fun b => (⟨kind, 0, none, b⟩ : Wind.Call Float)) <$> bool? a
      | _ => (fun f => (⟨kind, f, none, false⟩ : Wind.Call Float)) <$> floatBits? a
    let (cs, rest') ← parseCalls n rest
    pure (call :: cs, rest')
  | _, _ => none

def parseQueries : Nat → List String → Option (List (Float × Float))
  | 0, [] => some []
  | n + 1, v :: h :: rest => do
    let v ← floatBits? v
    let h ← floatBits? h
    let qs ← parseQueries n rest
    pure ((v, h) :: qs)
  | _, _ => none

def showErr : Wind.Err → String
  | .value => "err:value" | .assert => "err:assert" | .zero => "err:zero"

/-- run the calls, recording which were rejected -/
def runCalls (s : Wind.St Float) : List (Wind.Call Float) → String × Wind.St Float
  | [] => ("", s)
  | x :: xs =>
    match s.set fpow flog tpFloat Wind.genTable x with
    | .ok s' => let r := runCalls s' xs; ("0" ++ r.1, r.2)
    | .error .assert => let r := runCalls s xs; ("a" ++ r.1, r.2)
    | .error _ => let r := runCalls s xs; ("v" ++ r.1, r.2)

def wind (toks : List String) : String :=
  match toks with
  | t :: mt :: mh :: ll :: n :: rest =>
    match terr? t, terr? mt, floatBits? mh, bool? ll, n.toNat? with
    | some t, some mt, some mh, some ll, some n =>
      match parseCalls n rest with
      | some (calls, m :: rest') =>
        match m.toNat? >>= fun m => parseQueries m rest' with
        | some qs =>
          match Wind.init fpow flog tpFloat Wind.genTable 10.0 t mt mh ll with
          | .error e => showErr e
          | .ok s0 =>
            let (status, s) := runCalls s0 calls
            let c := s.cfg
            let nums := [c.metH, c.blh, c.exp, c.z0, c.metBlh, c.metExp, c.metZ0, s.powDen, s.logDen]
            let res := qs.map fun q =>
              match Wind.calculateWind fpow flog s q.1 q.2 with
              | .ok x => showFloatBits x
              | .error e => showErr e
            s!"ok [{status}] {c.terrain} {c.metTerrain} {showBool c.logLaw} " ++
              joinSp (nums.map showFloatBits) ++ " | " ++ joinSp res
        | none => "bad-op"
      | _ => "bad-op"
    | _, _, _, _, _ => "bad-op"
  | _ => "bad-op"

def findTable (name : String) : Option Lazy.ClassTable := Gen.LazyDeps.all.find? (·.name == name)

def parseTOp (s : String) : Option Lazy.XOp :=
  if s.startsWith "g" then Lazy.XOp.get <$> (s.drop 1).toNat?
  else if s.startsWith "s" then Lazy.XOp.put <$> (s.drop 1).toNat?
  else if s.startsWith "x" then Lazy.XOp.refuse <$> (s.drop 1).toNat?
  else none

def showVerdict : Lazy.Verdict → String
  | .ok => "ok" | .stale => "stale" | .alias e => s!"alias:{e}" | .none => "none" | .unset => "unset"

def handle (toks : List String) : String :=
  match toks with
  | "wind" :: rest => wind rest
  | "tm" :: cls :: ops =>
    match findTable cls, ops.mapM parseTOp with
    | some t, some ops => joinSp ((Lazy.runX t Lazy.TState.empty ops).map showVerdict)
    | _, _ => "bad-op"
  | ["check", cls] =>
    match findTable cls with
    | some t => joinSp ([t.oneExpr, t.selfFill, t.guardOwn, t.resetsOk, t.initOk, t.allGuarded, t.groupClosed, t.putWhole, t.getClearsWhole].map showBool)
    | none => "bad-op"
  | ["windcheck"] => joinSp ([Wind.writesMatch Gen.Wind.setterTable, Wind.needsMatch, Wind.TableOk Wind.genTable].map showBool)
  | _ => "bad-op"

end DrvC18

def main : IO Unit := Drv.run DrvC18.handle
