/- Model driver for C04 (stub: no ops yet). -/
import Ladybug.DrvCore

namespace DrvC04
def handle (_toks : List String) : String := "bad-op"
end DrvC04

def main : IO Unit := Drv.run DrvC04.handle
