/-
  Model driver for C04 (analysisperiod.py).  Line protocol: see DrvCore.  Mathlib-free.

  A period is given by 8 tokens  st_month st_day st_hour end_month end_day end_hour timestep leap
  (the first seven integers or `N` for Python `None`, leap `0|1`); it is built with `AP.mkOpt?`
  exactly as `AnalysisPeriod(...)` would, so every op answers `err:<class>` for rejected arguments.
-/
import Ladybug.DrvCore
import Ladybug.Model.AP
import Ladybug.Model.APObj
import Ladybug.Model.APForms

open Drv Cal

namespace DrvC04

def showErr : Err → String
  | .value => "err:value"
  | .index => "err:index"
  | .type => "err:type"

def optInt? (s : String) : Option (Option Int) :=
  if s = "N" then some none else s.toInt?.map some

def period? (toks : List String) : Option (Except Err AP) :=
  match toks with
  | [a, b, c, d, e, f, g, l] => do
    let a ← optInt? a
    let b ← optInt? b
    let c ← optInt? c
    let d ← optInt? d
    let e ← optInt? e
    let f ← optInt? f
    let g ← optInt? g
    let l ← bool? l
    pure (AP.mkOpt? a b c d e f g l)
  | _ => none

def showAP (r : Except Err AP) : String :=
  match r with
  | .error e => showErr e
  | .ok ap =>
    s!"ok {ap.st_month} {ap.st_day} {ap.st_hour} {ap.end_month} {ap.end_day} {ap.end_hour} {ap.timestep} " ++
    s!"{showBool ap.leap} {showBool ap.isReversed} {showBool ap.isOvernight} {showBool ap.isAnnual} " ++
    s!"{ap.stMoy} {ap.endMoy} {ap.step}"

def onAP (r : Option (Except Err AP)) (f : AP → String) : String :=
  match r with
  | none => "bad-op"
  | some (.error e) => showErr e
  | some (.ok ap) => f ap

def showList (l : List Nat) : String := s!"ok {l.length} " ++ showNats l

def showDTs (l : List (Except Err DT)) : String :=
  "ok " ++ joinSp (l.map fun r =>
    match r with
    | .ok d => s!"{d.month}-{d.day}-{d.hour}-{d.minute}-{showBool d.leap}"
    | .error e => showErr e)

def bits (l : List Bool) : String := String.ofList (l.map fun b => if b then '1' else '0')

/-- `k=v` tokens; a token with value `N` (None) is dropped: `from_dict` treats a `None` value like
    a missing key (`None or d`, and `end_hour is None`). -/
def parseKV : List String → Option (List (String × Int))
  | [] => some []
  | t :: ts =>
    match t.splitOn "=" with
    | [k, v] =>
      if v = "N" then parseKV ts
      else match v.toInt?, parseKV ts with
        | some n, some rest => some ((k, n) :: rest)
        | _, _ => none
    | _ => none


/-! ### Histories (round 3): `hist <8 period tokens> ; <wop> ; <wop> …` answers the outputs of
`World.outs` step by step, joined by ` | `. -/

def showOut : AP.Out → String
  | .nats l => showList l
  | .dts l => showDTs l
  | .nat n => s!"ok {n}"
  | .bool b => "ok " ++ showBool b
  | .triples l => "ok " ++ joinSp (l.map fun t => s!"{t.1}-{t.2.1}-{t.2.2}")
  | .str s => "ok " ++ s
  | .kv l => "ok " ++ joinSp (l.map fun p => p.1 ++ "=" ++ toString p.2)
  | .flds ap rev ovn ann st en step =>
    s!"ok {ap.st_month} {ap.st_day} {ap.st_hour} {ap.end_month} {ap.end_day} {ap.end_hour} {ap.timestep} " ++
    s!"{showBool ap.leap} {showBool rev} {showBool ovn} {showBool ann} {st} {en} {step}"
  | .made r => showAP r
  | .refused cls => "err:" ++ cls
  | .unit => "ok"

def op? : List String → Option AP.Op
  | ["moys"] => some .moys
  | ["hoys"] => some .hoys
  | ["hoys_int"] => some .hoysInt
  | ["datetimes"] => some .datetimes
  | ["len"] => some .len
  | ["doys"] => some .doys
  | ["months"] => some .months
  | ["mph"] => some .mph
  | ["included", m] => m.toNat?.map .included
  | ["possible", m] => m.toNat?.map .possible
  | ["repr"] => some .repr
  | ["to_dict"] => some .toDict
  | ["fields"] => some .fields
  | ["duplicate"] => some .duplicate
  | ["set_attr"] => some .setAttr
  | ["included_bad"] => some .includedBad
  | ["possible_bad"] => some .possibleBad
  | ["mutate_result"] => some .mutateResult
  | _ => none

def wop? : List String → Option AP.WOp
  | "on" :: i :: rest => do
    let i ← i.toNat?
    let op ← op? rest
    pure (.on i op)
  | ["new", a, b, c, d, e, f, g, l] => do
    let a ← optInt? a
    let b ← optInt? b
    let c ← optInt? c
    let d ← optInt? d
    let e ← optInt? e
    let f ← optInt? f
    let g ← optInt? g
    let l ← bool? l
    pure (.new a b c d e f g l)
  | ["dup", i] => i.toNat?.map .dup
  | ["via_string", i] => i.toNat?.map .viaString
  | ["via_dict", i] => i.toNat?.map .viaDict
  | ["via_start_end", i] => i.toNat?.map .viaStartEnd
  | ["eq", i, j] => do
    let i ← i.toNat?
    let j ← j.toNat?
    pure (.eq i j)
  | _ => none

/-- Split a token list at the `;` tokens. -/
def splitSemi (toks : List String) : List (List String) :=
  let r := toks.foldl (fun (acc : List (List String) × List String) t =>
    if t = ";" then (acc.2.reverse :: acc.1, []) else (acc.1, t :: acc.2)) ([], [])
  (r.2.reverse :: r.1).reverse

def hist (toks : List String) : String :=
  match splitSemi toks with
  | [] => "bad-op"
  | first :: rest =>
    match period? first, rest.mapM wop? with
    | some (.ok ap), some ops => " | ".intercalate ((AP.World.outs [AP.fresh ap] ops).map showOut)
    | some (.error e), some _ => showErr e
    | _, _ => "bad-op"

/-- `k=v` tokens with `N` kept as an explicit `None` value (round 4: `from_dictv`). -/
def parseKVOpt : List String → Option AP.DictV
  | [] => some []
  | t :: ts =>
    match t.splitOn "=" with
    | [k, v] =>
      match optInt? v, parseKVOpt ts with
      | some n, some rest => some ((k, n) :: rest)
      | _, _ => none
    | _ => none

def showDictV (d : AP.DictV) : String :=
  joinSp (d.map fun p => p.1 ++ "=" ++ (match p.2 with | none => "N" | some v => toString v))

def int7? (toks : List String) : Option (List Int × Bool) :=
  match toks with
  | [a, b, c, d, e, f, g, l] => do
    let xs ← [a, b, c, d, e, f, g].mapM String.toInt?
    let l ← bool? l
    pure (xs, l)
  | _ => none

def handle (toks : List String) : String :=
  match toks with
  | "hist" :: rest => hist rest
  | "from_dictv" :: rest =>
    match parseKVOpt rest with
    | some d => showAP (AP.fromDictV d) ++ " ; " ++ showDictV (AP.fillNone d)
    | none => "bad-op"
  | "mk_text" :: rest =>
    match int7? rest with
    | some ([a, b, c, d, e, f, g], l) => showAP (AP.mkText? a b c d e f g l)
    | _ => "bad-op"
  | "sparse" :: rest =>
    onAP (period? rest) fun ap =>
      showAP (AP.fromDict (AP.sparseDict ap)) ++ " ; " ++
        joinSp ((AP.sparseDict ap).map fun p => p.1 ++ "=" ++ toString p.2)
  | "from_string" :: rest => showAP (AP.fromString (" ".intercalate rest))
  | "from_dict" :: rest =>
    match parseKV rest with
    | some kv => showAP (AP.fromDict kv)
    | none => "bad-op"
  | "included" :: rest =>
    match period? (rest.take 8), nats (rest.drop 8) with
    | some r, some ms => onAP (some r) fun ap => "ok " ++ bits (ms.map ap.includesMoy)
    | _, _ => "bad-op"
  | "possible" :: rest =>
    match period? (rest.take 8), nats (rest.drop 8) with
    | some r, some ms => onAP (some r) fun ap => "ok " ++ bits (ms.map ap.possibleMod)
    | _, _ => "bad-op"
  | op :: rest =>
    if rest.length ≠ 8 then "bad-op"
    else
      let r := period? rest
      match op with
      | "mk" => match r with | some x => showAP x | none => "bad-op"
      | "duplicate" => onAP r fun ap => showAP ap.duplicate
      | "moys" => onAP r fun ap => showList ap.moys
      | "hoys_int" => onAP r fun ap => showList ap.hoysInt
      | "datetimes" => onAP r fun ap => showDTs ap.datetimes
      | "len" => onAP r fun ap => s!"ok {ap.len}"
      | "doys" => onAP r fun ap => showList ap.doysInt
      | "months" => onAP r fun ap => showList ap.monthsInt
      | "mph" => onAP r fun ap =>
          "ok " ++ joinSp (ap.monthsPerHour.map fun t => s!"{t.1}-{t.2.1}-{t.2.2}")
      | "repr" => onAP r fun ap => "ok " ++ ap.repr
      | "to_dict" => onAP r fun ap =>
          "ok " ++ joinSp (ap.toDict.map fun p => p.1 ++ "=" ++ toString p.2)
      | _ => "bad-op"
  | _ => "bad-op"

end DrvC04

def main : IO Unit := Drv.run DrvC04.handle
