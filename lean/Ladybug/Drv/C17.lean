/-
  Model driver for C17 (plots).  Line protocol: see DrvCore.  Imports only Mathlib-free files.
  Requests are token streams read by a small state parser; lists are length-prefixed.
-/
import Ladybug.DrvCore
import Ladybug.Model.Plot
import Ladybug.Model.PlotObj

open Drv Plot PlotObj

namespace DrvC17

abbrev P := StateT (List String) Option

def tok : P String := fun s => match s with | [] => none | t :: r => some (t, r)
def pNat : P Nat := do let t ← tok; (t.toNat? : Option Nat)
def pInt : P Int := do let t ← tok; (t.toInt? : Option Int)
def pRat : P Rat := do let t ← tok; (rat? t : Option Rat)
def pBool : P Bool := do let t ← tok; (bool? t : Option Bool)

def pMany {α : Type} (p : P α) : Nat → P (List α)
  | 0 => pure []
  | n + 1 => do let x ← p; let xs ← pMany p n; pure (x :: xs)

def pList {α : Type} (p : P α) : P (List α) := do let n ← pNat; pMany p n

def pEnd : P Unit := fun s => match s with | [] => some ((), []) | _ => none

def showPErr : PErr → String
  | .assert => "err:assert"
  | .value => "err:value"
  | .index => "err:index"
  | .zero => "err:zero"

def pAP : P AP := do
  let a ← pNat; let b ← pNat; let c ← pNat; let d ← pNat; let e ← pNat; let f ← pNat
  let ts ← pNat; let l ← pBool
  pure ⟨a, b, c, d, e, f, ts, l⟩

def showLists (ls : List (List String)) : String :=
  joinSp (ls.map fun l => "| " ++ joinSp l)

def showBar (b : Bar) : String := joinSp [showRat b.x, showRat b.y0, showRat b.w, showRat b.y1]

abbrev Group := BGroup

def pGroup : P Group := do
  let cum ← pBool; let mn ← pRat; let mx ← pRat
  let datas ← pList (pList pRat)
  pure ⟨cum, mn, mx, datas⟩

def opHp : P String := do
  let cont ← pBool; let rev ← pBool; let ap ← pAP
  let moys ← pList pNat
  pEnd
  let data := if cont then ap.moys.zipIdx else moys.zipIdx
  match hourlyFaces ap cont rev data with
  | .error e => pure (showPErr e)
  | .ok fs =>
    pure (s!"ok {numX ap} {numY ap} {fs.length} " ++
      joinSp (fs.map fun f => s!"{f.1} {f.2.1} {f.2.2}"))

def opHist : P String := do
  let bins ← pList pRat
  let keys ← pList pRat
  pEnd
  match histogram (fun p : Rat × Nat => p.1) keys.zipIdx bins with
  | .error e => pure (showPErr e)
  | .ok h => pure ("ok " ++ showLists (h.map (·.map fun p => toString p.2)))

def opCirc : P String := do
  let hasR ← pBool
  let rng ← if hasR then (do let lo ← pRat; let hi ← pRat; pure (some (lo, hi))) else pure none
  let bins ← pList pRat
  let keys ← pList pRat
  pEnd
  match histogramCircular (fun p : Rat × Nat => p.1) keys.zipIdx bins rng with
  | .error e => pure (showPErr e)
  | .ok h => pure ("ok " ++ showLists (h.map (·.map fun p => toString p.2)))

def opWrose : P String := do
  let n ← pNat; let isSpeed ← pBool
  let samples ← pList (do let d ← pRat; let v ← pRat; pure (d, v))
  pEnd
  match windroseData n isSpeed samples with
  | .error e => pure (showPErr e)
  | .ok (h, z) =>
    pure ("ok " ++ showLists (h.map (·.map showRat)) ++ s!" # {z} # " ++
      joinSp ((prevailing (h.map (·.length))).map showRat))

def pCfgHead : P (Rat × Rat × Rat × Rat × Bool) := do
  let bx ← pRat; let by' ← pRat; let xd ← pRat; let yd ← pRat; let st ← pBool
  pure (bx, by', xd, yd, st)

def opMbars : P String := do
  let (bx, by', xd, yd, st) ← pCfgHead
  let nBars ← pNat
  let groups ← pList pGroup
  pEnd
  let f := fun (g : Group) (bc : Nat) =>
    let c : BarCfg := ⟨bx, by', xd, yd, st, g.cum, g.minV, g.maxV⟩
    monthlyGroup c nBars bc g.datas (initLines c g.datas)
  pure ("ok " ++ showLists ((runGroups f 0 groups).map (·.map showBar)))

def opDbars : P String := do
  let (bx, by', xd, yd, st) ← pCfgHead
  let nBig ← pNat; let stDay ← pNat
  let dpm ← pList pNat
  let groups ← pList pGroup
  pEnd
  if nBig = 0 then pure "err:zero" else
  let f := fun (g : Group) (bc : Nat) =>
    let c : BarCfg := ⟨bx, by', xd, yd, st, g.cum, g.minV, g.maxV⟩
    dailyGroup c nBig dpm stDay bc g.datas (initLines c g.datas)
  pure ("ok " ++ showLists ((runGroups f 0 groups).map (·.map showBar)))

def opPsych : P String := do
  let minT ← pInt; let maxT ← pInt
  let hours ← pList (do let t ← pRat; let rh ← pRat; pure (t, rh))
  pEnd
  let fs := psyFaces minT maxT hours
  pure (s!"ok {fs.length} " ++ joinSp (fs.map fun f => s!"{f.1} {f.2.1} {f.2.2}"))

def pPForm : P PForm := do
  let t ← tok
  match t with
  | "const" => pure .const
  | "daily" => pure .daily
  | "hourly" => do let ts ← pNat; pure (.hourly ts)
  | _ => failure

/-- Round 6: cells and HOURS per cell for the two input forms (number / hourly at a timestep / daily). -/
def opPforms : P String := do
  let tf ← pPForm; let rf ← pPForm
  let minT ← pInt; let maxT ← pInt
  let hours ← pList (do let t ← pRat; let rh ← pRat; pure (t, rh))
  pEnd
  let counts := psyCounts minT maxT hours
  -- `__init__` refuses a range below 10 degrees and a chart without any value on it (as `PObj.fresh`)
  if maxT - minT < 10 ∨ hourValues counts = [] then pure "err:assert" else
  let fs := facesOfCounts (tCats minT maxT).length counts
  let hv := cellHours tf rf counts
  pure (s!"ok {fs.length} " ++ joinSp ((fs.zip hv).map fun f => s!"{f.1.1} {f.1.2} {showRat f.2}"))

/-! ### Object histories (round 3): one response token group per step, separated by `;` -/

def showOErr : OErr → String
  | .assert => "err:assert"
  | .type => "err:type"
  | .zero => "err:zero"
  | .value => "err:value"
  | .index => "err:index"

def pWOp : P WOp := do
  let t ← tok
  match t with
  | "fh" => do let v ← pInt; pure (.setFreqHours v)
  | "fic" => do let v ← pInt; pure (.setIntervals v)
  | "zeros" => do let b ← pBool; pure (.setShowZeros b)
  | "freq" => do let b ← pBool; pure (.setShowFreq b)
  | "other" => do let b ← pBool; pure (.setOther b)
  | "badtype" => pure .setBadType
  | "rhist" => pure .readHist
  | "rzero" => pure .readZero
  | "rprev" => pure .readPrev
  | "rmax" => pure .readRealMax
  | "rmesh" => pure .readIntervalsMesh
  | "rfmax" => pure .readFreqMax
  | "rstatic" => pure .readStaticPrev
  | _ => failure

def showWOut : WOut → String
  | .unit => "ok"
  | .err e => showOErr e
  | .hist h => "hist " ++ showLists (h.map (·.map showRat))
  | .nat k => s!"nat {k}"
  | .dirs d => "dirs " ++ joinSp (d.map showRat)

def opWhist : P String := do
  let n ← pNat; let isSpeed ← pBool
  let samples ← pList (do let d ← pRat; let v ← pRat; pure (d, v))
  let ops ← pList pWOp
  pEnd
  match WObj.fresh { n := n, isSpeed := isSpeed, samples := samples } with
  | .error e => pure (showOErr e)
  | .ok o => pure ("ok ; " ++ " ; ".intercalate ((o.run ops).2.map showWOut))

def pMOp : P MOp := do
  let t ← tok
  match t with
  | "min" => do let v ← pRat; let i ← pInt; pure (.setMin v i)
  | "max" => do let v ← pRat; let i ← pInt; pure (.setMax v i)
  | "read" => pure .readMeshes
  | _ => failure

def showMOut : MOut → String
  | .unit => "ok"
  | .err e => showOErr e
  | .bars b => "bars " ++ showLists (b.map (·.map showBar))

def opBhist : P String := do
  let (bx, by', xd, yd, st) ← pCfgHead
  let nBars ← pNat
  let isDaily ← pBool
  let daily ← if isDaily then (do let sd ← pNat; let dpm ← pList pNat; pure (some (⟨sd, dpm⟩ : DailyCfg)))
    else pure none
  let groups ← pList pGroup
  let ops ← pList pMOp
  pEnd
  let o : MObj := ⟨bx, by', xd, yd, st, nBars, daily, groups⟩
  pure ("ok ; " ++ " ; ".intercalate ((o.run ops).2.map showMOut))

def pPOp : P POp := do
  let t ← tok
  match t with
  | "matrix" => pure .readMatrix
  | "hours" => pure .readHourValues
  | "mesh" => pure .readMesh
  | "legend" => pure .setLegend
  | "data" => do let v ← pList pRat; pure (.dataMesh v)
  | _ => failure

def showFaces (f : List (Nat × Nat)) : String := joinSp (f.map fun c => s!"{c.1} {c.2}")

def showPOut : POut → String
  | .unit => "ok"
  | .err e => showOErr e
  | .nats l => "nats " ++ showNats l
  | .faces f => "faces " ++ showFaces f
  | .means f m => "means " ++ showFaces f ++ " # " ++ joinSp (m.map showRat)

def opPhist : P String := do
  let minT ← pInt; let maxT ← pInt
  let hours ← pList (do let t ← pRat; let rh ← pRat; pure (t, rh))
  let ops ← pList pPOp
  pEnd
  match PObj.fresh ⟨minT, maxT, hours⟩ with
  | .error e => pure (showOErr e)
  | .ok o => pure ("ok ; " ++ " ; ".intercalate ((o.run ops).2.map showPOut))

def run (p : P String) (toks : List String) : String :=
  match p toks with
  | some (s, _) => s
  | none => "bad-op"

def handle (toks : List String) : String :=
  match toks with
  | "hp" :: r => run opHp r
  | "hist" :: r => run opHist r
  | "circ" :: r => run opCirc r
  | "angles" :: r => run (do let n ← pNat; pEnd; pure ("ok " ++ joinSp ((angles n).map showRat))) r
  | "wrose" :: r => run opWrose r
  | "mbars" :: r => run opMbars r
  | "dbars" :: r => run opDbars r
  | "psych" :: r => run opPsych r
  | "pforms" :: r => run opPforms r
  | "whist" :: r => run opWhist r
  | "bhist" :: r => run opBhist r
  | "phist" :: r => run opPhist r
  | _ => "bad-op"

end DrvC17

def main : IO Unit := Drv.run DrvC17.handle
