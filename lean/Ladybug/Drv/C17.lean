/- Model driver for C17 (stub: no ops yet). -/
import Ladybug.DrvCore

namespace DrvC17
def handle (_toks : List String) : String := "bad-op"
end DrvC17

def main : IO Unit := Drv.run DrvC17.handle
