/-
  Model driver for C12 (wea.py).  Line protocol: see DrvCore.  Mathlib-free.

  Requests (all numbers integers unless said otherwise; `leap`, `onhour` are 0|1):
    getdt ts leap i…                          entries i of `_get_datetimes(ts, leap)`
    axis ts leap onhour i…                    public datetimes i of an annual Wea (from_annual_values)
    annual ts leap n1 n2                      from_annual_values with n1 / n2 values: accepted?
    header latbits lonbits tzbits elevbits    header numbers of a location (IEEE bit patterns)
    parsehdr lat100 lon100 tzdeg elev10       `_parse_wea_header` on the header numbers
    write cont ts leap onhour mode stM stD endM endD        lines of to_file_string (whole-day period)
    write disc ts leap onhour mode n moy…                   … of a discontinuous Wea at the given minutes
    read ts leap n (mo da milli v1 v2)…       from_file on data lines
    dict ts|N leap|N n (arr)… ndni ndhi       from_dict; arr = m-d-h-mi or m-d-h-mi-l, n = N: no key
    todict cont|disc …(as write, no onhour/mode)            to_dict: datetimes key
    daysim ts leap n i…                       from_daysim_file on n lines with ids 0…n-1: ids at i…
    const v (tok… |)…                         to_constant_value on tokenised body lines
    hoymoy hoybits…                           minute of the year filter_by_hoys looks up for each hour
    count n                                   count_timesteps for a file of n lines
    hist mode onhour la lo tz el SRC I idx… O op…      one object, a history (Model/WeaObj.lean):
         SRC = c ts leap stM stD endM endD | d ts leap m moy…;  la… = IEEE bit patterns of the location numbers;
         op  = oh b | loc la lo tz el | locbad | rd | setval i a b (rationals p/q)
             | dni|dhi isColl typeOk k nvals SRC
         answer: the observation after the construction and after every op, separated by `|`
    epwwea leap off n dni…(n) dhi…(n) hoy…    lines of EPW.to_wea on integer cells of the hours off…off+n-1 (no hoy = all)
    hoyidx ts hoybits…                        index `int(hoy * ts)` get_irradiance_value_for_hoy uses on an annual Wea
    cliap ts leap c…                          epw_to_wea with a period TEXT (character codes c…) on a Wea of (ts, leap):
                                              `ok stM stD stH endM endD endH ts leap overnight reversed n moy…` | err
-/
import Ladybug.DrvCore
import Ladybug.Model.Wea
import Ladybug.Model.WeaObj
import Ladybug.Model.WeaCli

open Drv Cal Wea

namespace DrvC12

def showE : E → String
  | .value => "err:value"
  | .index => "err:index"
  | .type => "err:type"
  | .assert => "err:assert"

def showDT (d : DT) : String := s!"{d.month}-{d.day}-{d.hour}-{d.minute}-{showBool d.leap}"

def showDTr (r : Except Cal.Err DT) : String :=
  match r with
  | .ok d => showDT d
  | .error e => showE (E.ofCal e)

def showAP (ap : AP) : String :=
  s!"{ap.st_month} {ap.st_day} {ap.st_hour} {ap.end_month} {ap.end_day} {ap.end_hour} {ap.timestep} {showBool ap.leap}"

/-- Value formulas shared with the harness: mode 0 = distinct ids, mode 1 = halves/quarters with
    negative entries (pins `%d` truncation against rounding). -/
def valDni (mode _n i : Nat) : Rat :=
  if mode = 0 then (i : Rat) else (2 * (i : Rat) - 13) / 2
def valDhi (mode n i : Nat) : Rat :=
  if mode = 0 then ((n + i : Nat) : Rat) else (37 - 3 * (i : Rat)) / 4

def withVals (mode : Nat) (cont : Bool) (ap : AP) (dts : List DT) (onHour : Bool) : W Rat :=
  let n := dts.length
  ⟨cont, ap, dts, (List.range n).map (valDni mode n), (List.range n).map (valDhi mode n), onHour⟩

/-- IEEE product `float(tok) * 60` of a `%.3f` token given in thousandths. -/
def prod60Float (milli : Nat) : Rat :=
  match Py.ratOfFloatBits ((Float.ofNat milli / 1000.0) * 60.0).toBits with
  | some x => x
  | none => 0

def showLines (r : Except E (List Line)) : String :=
  match r with
  | .error e => showE e
  | .ok ls => s!"ok {ls.length} " ++ joinSp (ls.map fun l => s!"{l.month} {l.day} {l.milli} {l.v1} {l.v2}")

def showW (r : Except E (W Int)) : String :=
  match r with
  | .error e => showE e
  | .ok w =>
    let rows := List.zip w.dts (List.zip w.dni w.dhi)
    let body := joinSp (rows.map fun p => s!"{showDT p.1} {p.2.1} {p.2.2}")
    if w.cont then s!"ok cont {showAP w.ap} {rows.length} {body}"
    else s!"ok disc {rows.length} {body}"

def parseLines : List Int → Option (List Line)
  | [] => some []
  | mo :: da :: mi :: v1 :: v2 :: rest =>
    if 0 ≤ mo ∧ 0 ≤ da ∧ 0 ≤ mi then
      (parseLines rest).map fun t => ⟨mo.toNat, da.toNat, mi.toNat, v1, v2⟩ :: t
    else none
  | _ => none

def parseArr (s : String) : Option (List Nat) := (s.splitOn "-").mapM String.toNat?

def optInt? (s : String) : Option (Option Int) :=
  if s = "N" then some none else s.toInt?.map some

def optBool? (s : String) : Option (Option Bool) :=
  if s = "N" then some none else (bool? s).map some

/-- Dates of a discontinuous test Wea from minutes of the year. -/
def dtsOfMoys (leap : Bool) (ms : List Nat) : Option (List DT) :=
  ms.mapM fun (m : Nat) => (fromMoy leap (m : Int)).toOption

def wholeDayAP (ts : Nat) (leap : Bool) (stM stD endM endD : Nat) : AP := ⟨stM, stD, 0, endM, endD, 23, ts, leap⟩

def atIdx {β : Type} (l : List β) (idx : List Nat) (sh : β → String) : String :=
  joinSp (idx.map fun i => match l[i]? with | some x => sh x | none => "err:index")

def splitBar (toks : List String) : List (List String) :=
  let r := toks.foldl (fun (acc : List (List String) × List String) t =>
    if t = "|" then (acc.2.reverse :: acc.1, []) else (acc.1, t :: acc.2)) ([], [])
  r.1.reverse


/-! ### Histories on one object -/

inductive HOp where
  | op (o : Op)
  | setval (i : Nat) (a b : Rat)

def candVals (which : String) (k n : Nat) : List Rat :=
  (List.range n).map fun i =>
    if which = "dni" then (((i * 7 + k) % 1013 : Nat) : Rat) + (if k % 2 = 1 then (1 : Rat) / 2 else 0)
    else (((i * 3 + k) % 409 + 2000 : Nat) : Rat) - (if k % 3 = 1 then (1 : Rat) / 4 else 0)

def locOfBits (la lo tz el : String) : Option Loc :=
  match floatBits? la, floatBits? lo, floatBits? tz, floatBits? el with
  | some la, some lo, some tz, some el =>
    match Py.ratOfFloatBits la.toBits, Py.ratOfFloatBits lo.toBits, Py.ratOfFloatBits tz.toBits,
          Py.ratOfFloatBits el.toBits with
    | some la, some lo, some tz, some el => some ⟨[], la, lo, tz, el⟩
    | _, _, _, _ => none
  | _, _, _, _ => none

/-- Source description `c ts leap stM stD endM endD` | `d ts leap m moy…` -> (collection without values, rest). -/
def parseSrc (toks : List String) : Option ((List Rat → Coll1) × Nat × List String) :=
  match toks with
  | "c" :: ts :: leap :: stM :: stD :: endM :: endD :: rest =>
    match nats [ts, stM, stD, endM, endD], bool? leap with
    | some [ts, stM, stD, endM, endD], some l =>
      let ap := wholeDayAP ts l stM stD endM endD
      let dts := contDts ap
      some (fun v => ⟨true, ap, dts, v⟩, dts.length, rest)
    | _, _ => none
  | "d" :: ts :: leap :: m :: rest =>
    match ts.toNat?, bool? leap, m.toNat? with
    | some ts, some l, some m =>
      match nats (rest.take m) with
      | some ms =>
        match dtsOfMoys l ms with
        | some dts => if ms.length = m then some (fun v => ⟨false, AP.annual l ts, dts, v⟩, m, rest.drop m) else none
        | none => none
      | none => none
    | _, _, _ => none
  | _ => none

partial def parseOps (toks : List String) : Option (List HOp) :=
  match toks with
  | [] => some []
  | "oh" :: b :: rest => do
    let b ← bool? b
    let t ← parseOps rest
    pure (.op (.setOnHour b) :: t)
  | "loc" :: la :: lo :: tz :: el :: rest => do
    let l ← locOfBits la lo tz el
    let t ← parseOps rest
    pure (.op (.setLoc (some l)) :: t)
  | "locbad" :: rest => do
    let t ← parseOps rest
    pure (.op (.setLoc none) :: t)
  | "rd" :: rest => do
    let t ← parseOps rest
    pure (.op .read :: t)
  | "setval" :: i :: a :: b :: rest => do
    let i ← i.toNat?
    let a ← rat? a
    let b ← rat? b
    let t ← parseOps rest
    pure (.setval i a b :: t)
  | which :: isColl :: typeOk :: k :: nvals :: rest =>
    if which = "dni" ∨ which = "dhi" then do
      let ic ← bool? isColl
      let tk ← bool? typeOk
      let k ← k.toNat?
      let nv ← nvals.toNat?
      let (mk, _, rest') ← parseSrc rest
      let t ← parseOps rest'
      let c : Cand := ⟨ic, tk, mk (candVals which k nv)⟩
      pure (.op (if which = "dni" then .setDni c else .setDhi c) :: t)
    else none
  | _ => none

def showObs (status : String) (o : Obj) (idx : List Nat) : String :=
  let ob := o.observe
  let h := ob.header
  let lines := match ob.lines with
    | .error e => showE e
    | .ok ls => atIdx ls idx fun l => s!"{l.month} {l.day} {l.milli} {l.v1} {l.v2}"
  s!"{status} {o.dni.vals.length} {ob.timestep} {showBool ob.leap} {showBool ob.cont} {showBool ob.onHour} " ++
    s!"{h.lat100} {h.lon100} {h.tzDeg} {h.elev10} D {atIdx ob.publicDts idx showDTr} L {lines} A {showBool (ob.dhiDts == o.dni.dts)}"

def hstep (o : Obj) : HOp → Obj × String
  | .op op =>
    let r := step o op
    (r.1, match r.2 with | .done => "done" | .refused _ => "refused" | .obs _ => "obs")
  | .setval i a b =>
    let o1 := (step o (.setDni ⟨true, true, { o.dni with vals := o.dni.vals.set i a }⟩)).1
    let o2 := (step o1 (.setDhi ⟨true, true, { o1.dhi with vals := o1.dhi.vals.set i b }⟩)).1
    (o2, "done")

def runHist (o : Obj) (idx : List Nat) : List HOp → List String
  | [] => []
  | op :: rest =>
    let r := hstep o op
    showObs r.2 r.1 idx :: runHist r.1 idx rest

def splitAt (sep : String) (toks : List String) : List String × List String :=
  (toks.takeWhile (· ≠ sep), (toks.dropWhile (· ≠ sep)).drop 1)

def handleHist (toks : List String) : String :=
  match toks with
  | mode :: onh :: la :: lo :: tz :: el :: rest =>
    match mode.toNat?, bool? onh, locOfBits la lo tz el with
    | some mode, some oh, some loc =>
      let (src, rest1) := splitAt "I" rest
      let (idxT, opsT) := splitAt "O" rest1
      match parseSrc src, nats idxT, parseOps opsT with
      | some (mk, n, []), some idx, some ops =>
        let dni := mk ((List.range n).map (valDni mode n))
        let dhi := mk ((List.range n).map (valDhi mode n))
        match Obj.mk? loc dni dhi with
        | .error e => showE e
        | .ok o0 =>
          let o := (step o0 (.setOnHour oh)).1
          "ok " ++ " | ".intercalate (showObs "built" o idx :: runHist o idx ops)
      | _, _, _ => "bad-op"
    | _, _, _ => "bad-op"
  | _ => "bad-op"

def handle (toks : List String) : String :=
  match toks with
  | "hist" :: rest => handleHist rest
  | "epwwea" :: leap :: off :: n :: rest =>
    -- cells of the hours off … off+n-1 (n direct cells, then n diffuse cells), zeros before; then the listed hours
    match bool? leap, off.toNat?, n.toNat?, ints rest with
    | some l, some off, some n, some xs =>
      let pad : List Rat := List.replicate off 0
      let dni := pad ++ (xs.take n).map fun (x : Int) => (x : Rat)
      let dhi := pad ++ ((xs.drop n).take n).map fun (x : Int) => (x : Rat)
      let hoys := (xs.drop (2 * n)).map Int.toNat
      showLines (epwToWea l dni dhi hoys)
    | _, _, _, _ => "bad-op"
  | "apsub" :: rest =>
    match nats rest with
    | some [a, b, c, d, e, f, ts, l, a2, b2, c2, d2, e2, f2, ts2, l2] =>
      let src : AP := ⟨a, b, c, d, e, f, ts, l == 1⟩
      let req : AP := ⟨a2, b2, c2, d2, e2, f2, ts2, l2 == 1⟩
      s!"ok {showAP (subsetAP src req)}"
    | _ => "bad-op"
  | "zhlag" :: ts :: n :: rest =>
    match ts.toNat?, n.toNat?, nats rest with
    | some ts, some n, some idx =>
      "ok " ++ joinSp (idx.map fun i => match zhLagIndex ts n i with | some k => toString k | none => "err:index")
    | _, _, _ => "bad-op"
  | "cliap" :: ts :: leap :: rest =>
    match ts.toNat?, bool? leap, nats rest with
    | some ts, some l, some cs =>
      let text := String.ofList (cs.map Char.ofNat)
      match cliPeriod text with
      | .error e => showE (E.ofCal e)
      | .ok ap =>
        match cliMoys text ts l with
        | .error e => s!"{showE e} {showAP ap}"
        | .ok ms => s!"ok {showAP ap} {showBool ap.isOvernight} {showBool ap.isReversed} {ms.length} " ++ joinSp (ms.map toString)
    | _, _, _ => "bad-op"
  | "hoyidx" :: ts :: rest =>
    match ts.toNat?, rest.mapM floatBits? with
    | some ts, some fs =>
      "ok " ++ joinSp (fs.map fun f =>
        match Py.ratOfFloatBits (f * ts.toFloat).toBits with
        | some x => toString (getForHoyIndex x)
        | none => "err:value")
    | _, _ => "bad-op"
  | "getdt" :: ts :: leap :: rest =>
    match ts.toNat?, bool? leap, nats rest with
    | some ts, some l, some idx =>
      if ts = 0 then "err:zero" else "ok " ++ atIdx (getDatetimes ts l) idx showDTr
    | _, _, _ => "bad-op"
  | "axis" :: ts :: leap :: onh :: rest =>
    match ts.toInt?, bool? leap, bool? onh, nats rest with
    | some ts, some l, some oh, some idx =>
      match annualAP ts l with
      | .error e => showE e
      | .ok ap =>
        let w : W Unit := ⟨true, ap, contDts ap, [], [], oh⟩
        s!"ok {w.dts.length} " ++ atIdx w.datetimes idx showDTr
    | _, _, _, _ => "bad-op"
  | ["annual", ts, leap, n1, n2] =>
    match ts.toInt?, bool? leap, n1.toNat?, n2.toNat? with
    | some ts, some l, some n1, some n2 =>
      match fromAnnualValues (List.replicate n1 ()) (List.replicate n2 ()) ts l with
      | .error e => showE e
      | .ok w => s!"ok {w.dts.length} {showBool w.isAnnual}"
    | _, _, _, _ => "bad-op"
  | ["header", la, lo, tz, el] =>
    match floatBits? la, floatBits? lo, floatBits? tz, floatBits? el with
    | some la, some lo, some tz, some el =>
      match Py.ratOfFloatBits la.toBits, Py.ratOfFloatBits lo.toBits, Py.ratOfFloatBits tz.toBits,
            Py.ratOfFloatBits el.toBits, Py.ratOfFloatBits ((-tz) * 15.0).toBits with
      | some la, some lo, some tz, some el, some p =>
        let h := fmtHeader ⟨[], la, lo, tz, el⟩ p
        s!"ok {h.lat100} {h.lon100} {h.tzDeg} {h.elev10}"
      | _, _, _, _, _ => "err:value"
    | _, _, _, _ => "bad-op"
  | ["parsehdr", la, lo, tz, el] =>
    match la.toInt?, lo.toInt?, tz.toInt?, el.toInt? with
    | some la, some lo, some tz, some el =>
      match parseHeader ⟨[], la, lo, tz, el⟩ with
      | .error e => showE e
      | .ok l => s!"ok {showRat l.lat} {showRat l.lon} {showRat l.tz} {showRat l.elev}"
    | _, _, _, _ => "bad-op"
  | ["write", "cont", ts, leap, onh, mode, stM, stD, endM, endD] =>
    match nats [ts, mode, stM, stD, endM, endD], bool? leap, bool? onh with
    | some [ts, mode, stM, stD, endM, endD], some l, some oh =>
      let ap := wholeDayAP ts l stM stD endM endD
      showLines (toLines (withVals mode true ap (contDts ap) oh))
    | _, _, _ => "bad-op"
  | "write" :: "disc" :: ts :: leap :: onh :: mode :: _n :: rest =>
    match nats [ts, mode], bool? leap, bool? onh, nats rest with
    | some [ts, mode], some l, some oh, some ms =>
      match dtsOfMoys l ms with
      | some dts => showLines (toLines (withVals mode false (AP.annual l ts) dts oh))
      | none => "err:value"
    | _, _, _, _ => "bad-op"
  | "read" :: ts :: leap :: _n :: rest =>
    match ts.toInt?, bool? leap, ints rest with
    | some ts, some l, some xs =>
      match parseLines xs with
      | some ls => showW (fromFile prod60Float ts l ls)
      | none => "bad-op"
    | _, _, _ => "bad-op"
  | "dict" :: ts :: leap :: n :: rest =>
    match optInt? ts, optBool? leap with
    | some ts, some l =>
      let go (arrs : Option (List (List Nat))) (tail : List String) : String :=
        match nats tail with
        | some [ndni, ndhi] =>
          let d : Dict Int := ⟨ts, l, arrs, (List.range ndni).map (fun (i : Nat) => (i : Int)),
            (List.range ndhi).map (fun (i : Nat) => ((1000000 + i : Nat) : Int))⟩
          showW (fromDict d)
        | _ => "bad-op"
      if n = "N" then go none rest
      else match n.toNat? with
        | some k =>
          match (rest.take k).mapM parseArr with
          | some arrs => go (some arrs) (rest.drop k)
          | none => "bad-op"
        | none => "bad-op"
    | _, _ => "bad-op"
  | ["todict", "cont", ts, leap, stM, stD, endM, endD] =>
    match nats [ts, stM, stD, endM, endD], bool? leap with
    | some [ts, stM, stD, endM, endD], some l =>
      let ap := wholeDayAP ts l stM stD endM endD
      let d := toDict (withVals 0 true ap (contDts ap) false)
      match d.datetimes with
      | none => "ok N"
      | some arrs => s!"ok {arrs.length} " ++ joinSp (arrs.map fun a => "-".intercalate (a.map toString))
    | _, _ => "bad-op"
  | "todict" :: "disc" :: ts :: leap :: _n :: rest =>
    match ts.toNat?, bool? leap, nats rest with
    | some ts, some l, some ms =>
      match dtsOfMoys l ms with
      | some dts =>
        let d := toDict (withVals 0 false (AP.annual l ts) dts false)
        match d.datetimes with
        | none => "ok N"
        | some arrs => s!"ok {arrs.length} " ++ joinSp (arrs.map fun a => "-".intercalate (a.map toString))
      | none => "err:value"
    | _, _, _ => "bad-op"
  | "daysim" :: ts :: leap :: n :: rest =>
    match ts.toInt?, bool? leap, n.toNat?, nats rest with
    | some ts, some l, some n, some idx =>
      let ids := (List.range n).map fun (i : Nat) => (i : Int)
      match fromDaysim ids ids ts l with
      | .error e => showE e
      | .ok w => "ok " ++ atIdx w.dni idx toString
    | _, _, _, _ => "bad-op"
  | "const" :: v :: rest =>
    match v.toInt? with
    | some v =>
      match toConstant (splitBar rest) v with
      | .error e => showE e
      | .ok ls => "ok " ++ joinSp (ls.map fun l => joinSp l ++ " |")
    | none => "bad-op"
  | "hoymoy" :: rest =>
    match rest.mapM floatBits? with
    | some fs =>
      "ok " ++ joinSp (fs.map fun f =>
        match Py.ratOfFloatBits (f * 60.0).toBits with
        | some x => toString (hoyMoy x)
        | none => "err:value")
    | none => "bad-op"
  | ["count", n] =>
    match n.toNat? with
    | some n => s!"ok {countTimesteps n}"
    | none => "bad-op"
  | _ => "bad-op"

end DrvC12

def main : IO Unit := Drv.run DrvC12.handle
