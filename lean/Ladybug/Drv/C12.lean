/- Model driver for C12 (stub: no ops yet). -/
import Ladybug.DrvCore

namespace DrvC12
def handle (_toks : List String) : String := "bad-op"
end DrvC12

def main : IO Unit := Drv.run DrvC12.handle
