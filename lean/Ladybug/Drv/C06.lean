/-
  Model driver for C06 (units).  Line protocol: see DrvCore.  Imports only Mathlib-free files.

  Tokens: type names plain; unit strings as `u:<unit>` with blanks written `^` (`u:fl^oz`), Python's
  `None` as `none`; numbers in requests are IEEE bit patterns (16 hex digits), decoded *exactly* to
  rationals; numbers in answers are exact rationals `p/q`.

    fn T i d x             -> ok r          d=0: toBase[i] (unit i -> base), d=1: fromBase[i]
    to_unit T u:to u:from n x1..xn   -> ok r1..rn | err:value
    to_ip / to_si T u:from n x1..xn  -> ok u:unit r1..rn | err:value
    in_range T (u:unit|none) n x1..xn -> ok 0|1 | err:value
    header T u:unit        -> ok | err:value
    coll imm T u:unit n x1..xn op*   imm = 0|1 (immutable class); op = cu u:x | ci | cs | tu u:x | ti | ts
        -> per op ` | <res> # I:<imm> T:<type> u:<unit> r1..rn`  where res = ok | err:value | err:attr |
           new I:<imm> T:<type> u:<unit> r1..rn  (state after `#` is the collection the op was called on)
    norm|agg imm T u:unit n x1..xn area u:areaunit  -> ok <state> | err:assert | err:zero | err:value
    tagg|trate imm T u:unit n x1..xn timestep       -> ok <state> | err:assert | err:value
    generic ...            -> see `handleGeneric`
    tables T               -> units / si / ip / targets / limits as the model holds them
    hist imm T u:unit n x1..xn op*   HISTORY on a heap of collections (reference-level machine `Hist.rstep`);
        object 0 is the collection described; op = cu i u:x | ci i | cs i | tu i u:x | ti i | ts i | dup i | imm i |
        mut i | set i k x | vals i n x1..xn | norm i area u:au | agg i area u:au | tagg i step | trate i step | rng i
        -> `ok` then per op ` | <out> # <state> ; <state> ; ...` (the WHOLE heap after the op), out = ok | new k |
           flag 0|1|~ (`~` = a value within 1e-9 of a limit: exact model and IEEE code may differ) | err:<e>
-/
import Ladybug.DrvCore
import Ladybug.Model.Units
import Ladybug.Model.UnitsHist
import Ladybug.Gen.Units

open Drv Units

namespace DrvC06

/-- `math.pi` as the exact rational value of the double 0x400921FB54442D18. -/
def piRat : Rat := (Py.ratOfFloatBits 0x400921FB54442D18).getD 0

def table : List UType := Gen.Units.allTypes piRat

def findT (name : String) : Option UType := table.find? (·.name = name)

def reg : Reg := Gen.Units.reg piRat

def showErr2 : Err2 → String
  | .assert => "err:assert"
  | .zero => "err:zero"
  | .value => "err:value"
  | .attr => "err:attr"

def unitTok? (s : String) : Option String :=
  if s.startsWith "u:" then some ((s.drop 2).toString.replace "^" " ") else none

def showUnit (u : String) : String := "u:" ++ u.replace " " "^"

def showErr : Err → String
  | .value => "err:value"
  | .attr => "err:attr"

def rats? (l : List String) : Option (List Rat) :=
  l.mapM fun s => (floatBits? s).bind fun f => Py.ratOfFloatBits f.toBits

/-- `n x1..xn rest` -/
def takeVals (l : List String) : Option (List Rat × List String) :=
  match l with
  | [] => none
  | n :: rest =>
    match n.toNat? with
    | none => none
    | some k =>
      if rest.length < k then none
      else (rats? (rest.take k)).map fun v => (v, rest.drop k)

def showRats (l : List Rat) : String := joinSp (l.map showRat)

def showBound : Bound → String
  | .negInf => "-inf"
  | .posInf => "inf"
  | .nan => "nan"
  | .fin r => showRat r

def showState (c : Coll) : String :=
  joinSp (["I:" ++ showBool c.immutable, "T:" ++ c.T.name, showUnit c.unit] ++ c.values.map showRat)

/-- Run the op tokens of a `coll` request on the model collection. -/
def runOps (fuel : Nat) (c : Coll) (ops : List String) (acc : String) : String :=
  match fuel with
  | 0 => acc
  | fuel + 1 =>
    let conv (r : Except Err Coll) (rest : List String) : String :=
      match r with
      | .ok c' => runOps fuel c' rest (acc ++ " | ok # " ++ showState c')
      | .error e => runOps fuel c rest (acc ++ " | " ++ showErr e ++ " # " ++ showState c)
    let dup (r : Except Err Coll) (rest : List String) : String :=
      match r with
      | .ok c' => runOps fuel c rest (acc ++ " | new " ++ showState c' ++ " # " ++ showState c)
      | .error e => runOps fuel c rest (acc ++ " | " ++ showErr e ++ " # " ++ showState c)
    match ops with
    | [] => acc
    | "cu" :: u :: rest =>
      match unitTok? u with
      | some u => conv (c.convertToUnit u) rest
      | none => "bad-op"
    | "tu" :: u :: rest =>
      match unitTok? u with
      | some u => dup (c.toUnitCopy u) rest
      | none => "bad-op"
    | "ci" :: rest => conv c.convertToIp rest
    | "cs" :: rest => conv c.convertToSi rest
    | "ti" :: rest => dup c.toIpCopy rest
    | "ts" :: rest => dup c.toSiCopy rest
    | _ => "bad-op"


/-! ### histories -/

open Units.Hist in
def showHErr : HErr → String
  | .value => "err:value"
  | .attr => "err:attr"
  | .assert => "err:assert"
  | .zero => "err:zero"
  | .index => "err:index"

/-- A value within 1e-9 (relative to max 1 |limit|) of a converted finite limit. -/
def nearLimit (c : Coll) : Bool :=
  let f : Rat → Rat :=
    if c.unit = c.T.units.getD 0 "" then id
    else match c.T.idx? c.unit with
      | some j => c.T.fromBase.getD j id
      | none => id
  let lims := [c.T.min, c.T.max].filterMap fun b => match b with | .fin r => some (f r) | _ => none
  c.values.any fun v => lims.any fun l =>
    decide (rabs (v - l) ≤ (1 / 1000000000 : Rat) * (if rabs l < 1 then 1 else rabs l))

open Units.Hist in
/-- Parse the op tokens of a `hist` request. -/
def parseOps (fuel : Nat) (toks : List String) : Option (List Op) :=
  match fuel with
  | 0 => none
  | fuel + 1 =>
    match toks with
    | [] => some []
    | "cu" :: i :: u :: rest => do
      let i ← i.toNat?; let u ← unitTok? u; let r ← parseOps fuel rest; pure (Op.cu i u :: r)
    | "tu" :: i :: u :: rest => do
      let i ← i.toNat?; let u ← unitTok? u; let r ← parseOps fuel rest; pure (Op.tu i u :: r)
    | "ci" :: i :: rest => do let i ← i.toNat?; let r ← parseOps fuel rest; pure (Op.ci i :: r)
    | "cs" :: i :: rest => do let i ← i.toNat?; let r ← parseOps fuel rest; pure (Op.cs i :: r)
    | "ti" :: i :: rest => do let i ← i.toNat?; let r ← parseOps fuel rest; pure (Op.ti i :: r)
    | "ts" :: i :: rest => do let i ← i.toNat?; let r ← parseOps fuel rest; pure (Op.ts i :: r)
    | "dup" :: i :: rest => do let i ← i.toNat?; let r ← parseOps fuel rest; pure (Op.dup i :: r)
    | "imm" :: i :: rest => do let i ← i.toNat?; let r ← parseOps fuel rest; pure (Op.imm i :: r)
    | "mut" :: i :: rest => do let i ← i.toNat?; let r ← parseOps fuel rest; pure (Op.mut i :: r)
    | "rng" :: i :: rest => do let i ← i.toNat?; let r ← parseOps fuel rest; pure (Op.rng i :: r)
    | "set" :: i :: k :: x :: rest => do
      let i ← i.toNat?; let k ← k.toNat?; let xs ← rats? [x]; let x ← xs.head?
      let r ← parseOps fuel rest; pure (Op.set i k x :: r)
    | "vals" :: i :: rest => do
      let i ← i.toNat?; let (xs, rest) ← takeVals rest; let r ← parseOps fuel rest; pure (Op.vals i xs :: r)
    | "norm" :: i :: a :: au :: rest => do
      let i ← i.toNat?; let xs ← rats? [a]; let a ← xs.head?; let au ← unitTok? au
      let r ← parseOps fuel rest; pure (Op.norm i a au :: r)
    | "agg" :: i :: a :: au :: rest => do
      let i ← i.toNat?; let xs ← rats? [a]; let a ← xs.head?; let au ← unitTok? au
      let r ← parseOps fuel rest; pure (Op.agg i a au :: r)
    | "tagg" :: i :: s :: rest => do
      let i ← i.toNat?; let xs ← rats? [s]; let s ← xs.head?; let r ← parseOps fuel rest; pure (Op.tagg i s :: r)
    | "trate" :: i :: s :: rest => do
      let i ← i.toNat?; let xs ← rats? [s]; let s ← xs.head?; let r ← parseOps fuel rest; pure (Op.trate i s :: r)
    | _ => none

open Units.Hist in
def showHeap (h : RHeap) : String := " ; ".intercalate (h.abs.map showState)

open Units.Hist in
def runHist (h : RHeap) (ops : List Op) (acc : String) : String :=
  match ops with
  | [] => acc
  | op :: rest =>
    let r := rstep reg h op
    let o : String :=
      match r.2 with
      | .done => "ok"
      | .made k => "new " ++ toString k
      | .flag b =>
        match h.abs[op.target]? with
        | some c => if nearLimit c then "flag ~" else "flag " ++ showBool b
        | none => "flag " ++ showBool b
      | .err e => showHErr e
    runHist r.1 rest (acc ++ " | " ++ o ++ " # " ++ showHeap r.1)

def handle (toks : List String) : String :=
  match toks with
  | ["fn", t, i, d, x] =>
    match findT t, i.toNat?, d.toNat?, rats? [x] with
    | some T, some i, some d, some [x] =>
      match (if d = 0 then T.toBase else T.fromBase)[i]? with
      | some f => "ok " ++ showRat (f x)
      | none => "err:index"
    | _, _, _, _ => "bad-op"
  | "to_unit" :: t :: u :: f :: rest =>
    match findT t, unitTok? u, unitTok? f, takeVals rest with
    | some T, some u, some f, some (vals, []) =>
      match T.toUnit vals u f with
      | .ok r => joinSp ("ok" :: r.map showRat)
      | .error e => showErr e
    | _, _, _, _ => "bad-op"
  | "to_ip" :: t :: f :: rest =>
    match findT t, unitTok? f, takeVals rest with
    | some T, some f, some (vals, []) =>
      match T.toIp vals f with
      | .ok (r, u) => joinSp ("ok" :: showUnit u :: r.map showRat)
      | .error e => showErr e
    | _, _, _ => "bad-op"
  | "to_si" :: t :: f :: rest =>
    match findT t, unitTok? f, takeVals rest with
    | some T, some f, some (vals, []) =>
      match T.toSi vals f with
      | .ok (r, u) => joinSp ("ok" :: showUnit u :: r.map showRat)
      | .error e => showErr e
    | _, _, _ => "bad-op"
  | "in_range" :: t :: u :: rest =>
    let unit : Option (Option String) := if u = "none" then some none else (unitTok? u).map some
    match findT t, unit, takeVals rest with
    | some T, some unit, some (vals, []) =>
      match T.isInRange vals unit with
      | .ok b => "ok " ++ showBool b
      | .error e => showErr e
    | _, _, _ => "bad-op"
  | ["header", t, u] =>
    match findT t, unitTok? u with
    | some T, some u => if Coll.headerOk T u then "ok" else "err:value"
    | _, _ => "bad-op"
  | "coll" :: imm :: t :: u :: rest =>
    match bool? imm, findT t, unitTok? u, takeVals rest with
    | some imm, some T, some u, some (vals, ops) =>
      if Coll.headerOk T u then runOps (ops.length + 1) ⟨T, u, vals, imm⟩ ops "ok"
      else "err:value"
    | _, _, _, _ => "bad-op"
  | "hist" :: imm :: t :: u :: rest =>
    match bool? imm, findT t, unitTok? u, takeVals rest with
    | some imm, some T, some u, some (vals, ops) =>
      if Coll.headerOk T u then
        match parseOps (ops.length + 1) ops with
        | some ops => runHist (Hist.RHeap.fresh [⟨T, u, vals, imm⟩]) ops "ok"
        | none => "bad-op"
      else "err:value"
    | _, _, _, _ => "bad-op"
  | "raw" :: t :: u :: f :: n :: rest =>
    -- values: 16-hex-digit floats or `str` (a non-number)
    let vs : Option (List (Option Rat)) := rest.mapM fun s =>
      if s = "str" then some none else (rats? [s]).bind fun l => l.head?.map some
    match findT t, unitTok? u, unitTok? f, n.toNat?, vs with
    | some T, some u, some f, some n, some vs =>
      if vs.length ≠ n then "bad-op" else
      match T.toUnitRaw vs u f with
      | .ok r => joinSp ("ok" :: r.map fun o => match o with | some q => showRat q | none => "str")
      | .error .assert => "err:assert"
      | .error .value => "err:value"
      | .error .attr => "err:attr"
      | .error .type => "err:type"
    | _, _, _, _, _ => "bad-op"
  | "g_to_unit" :: _g :: _u :: _f :: _rest => "err:other:NotImplementedError"
  | "g_to_sys" :: _g :: f :: rest =>
    match unitTok? f, takeVals rest with
    | some f, some (vals, []) => joinSp ("ok" :: showUnit f :: vals.map showRat)
    | _, _ => "bad-op"
  | ["g_header", g, u] =>
    match unitTok? g, unitTok? u with
    | some g, some u => if (Generic.acceptable ⟨g, .negInf, .posInf⟩ u) then "ok" else "err:value"
    | _, _ => "bad-op"
  | "g_in_range" :: g :: lo :: hi :: u :: rest =>
    let bnd (s : String) : Option Bound :=
      if s = "-inf" then some .negInf else if s = "inf" then some .posInf
      else (rats? [s]).bind fun l => l.head?.map Bound.fin
    let unit : Option (Option String) := if u = "none" then some none else (unitTok? u).map some
    match unitTok? g, bnd lo, bnd hi, unit, takeVals rest with
    | some g, some lo, some hi, some unit, some (vals, []) =>
      match Generic.isInRange ⟨g, lo, hi⟩ vals unit with
      | .ok b => "ok " ++ showBool b
      | .error _ => "err:value"
    | _, _, _, _, _ => "bad-op"
  | op :: imm :: t :: u :: rest =>
    if op = "norm" ∨ op = "agg" ∨ op = "tagg" ∨ op = "trate" then
      match bool? imm, findT t, unitTok? u, takeVals rest with
      | some imm, some T, some u, some (vals, tail) =>
        if !Coll.headerOk T u then "err:value" else
        let c : Coll := ⟨T, u, vals, imm⟩
        let res : Option (Except Err2 Coll) :=
          match tail with
          | [a, au] =>
            match rats? [a], unitTok? au with
            | some [a], some au =>
              if op = "norm" then some (reg.normalizeByArea c a au)
              else if op = "agg" then some (reg.aggregateByArea c a au) else none
            | _, _ => none
          | [ts] =>
            match rats? [ts] with
            | some [ts] =>
              if op = "tagg" then some (reg.timeAggregated c ts)
              else if op = "trate" then some (reg.timeRateOfChange c ts) else none
            | _ => none
          | _ => none
        match res with
        | some (.ok c') => "ok " ++ showState c'
        | some (.error e) => showErr2 e
        | none => "bad-op"
      | _, _, _, _ => "bad-op"
    else "bad-op"
  | ["tables", t] =>
    match findT t with
    | some T =>
      joinSp (["ok", "P:" ++ T.parent, "units"] ++ T.units.map showUnit ++ ["si"] ++ T.siUnits.map showUnit
        ++ ["ip"] ++ T.ipUnits.map showUnit ++ ["base", toString T.baseIdx, "toip"] ++ T.ipTarget.map toString
        ++ ["tosi"] ++ T.siTarget.map toString ++ ["min", showBound T.min, "max", showBound T.max,
        "strict", showBool T.strictIp, showBool T.strictSi])
    | none => "err:key"
  | ["names"] => joinSp (table.map (·.name))
  | _ => "bad-op"

end DrvC06

def main : IO Unit := Drv.run DrvC06.handle
