/- Model driver for C06 (stub: no ops yet). -/
import Ladybug.DrvCore

namespace DrvC06
def handle (_toks : List String) : String := "bad-op"
end DrvC06

def main : IO Unit := Drv.run DrvC06.handle
