/-
  Model driver for C13 (validation / hole filling / resampling).  Line protocol: see DrvCore.
  A period is 8 tokens  st_month st_day st_hour end_month end_day end_hour timestep leap  built with
  `AP.mk?` exactly as `AnalysisPeriod(...)`.

    vh  <ap> <dl> <n> (moy id)*n                  -> ok <ap'> n (moy id)*      hourly validation
    vd  <ap> <n> (doy id)*n                       -> ok <ap'> n (doy id)*      daily validation
    vm  <ap> <n> (month id)*n                     -> ok <ap'> n (month id)*    monthly validation
    vp  <ap> <n> (month hour minute id)*n         -> ok <ap'> n (mo-h-mi id)*  monthly-per-hour
    cull <ap> <ts> <n> (moy id)*n                 -> ok <ap'> n (moy id)*
    holes <ap> <validated> <n> (moy rat)*n        -> ok n rat*
    interp <ap> <ts> <cum N|0|1> <nativeCum> <pit> <n> rat*n -> ok <ap'> n rat*
    agg|rate <factor rat> <ts rat> <v rat>        -> ok rat
    hist <cont> <imm> <ap> <flag> <nativeCum> <pit> <n> (moy rat)*n <op>*   -> ok <step> | <step> ...
         one history on one object (Model/ResampleObj.lean); for a continuous collection the moys of
         the items are ignored.  <op>: read 0|1 · validate <adopt> · cull <ts> <adopt> · convcull <ts> ·
         holes <adopt> · interp <ts> <N|0|1|X> <adopt> · setvalues S | setvalues <k> rat*k ·
         setitem <i> <rat> · to_immutable · to_mutable · duplicate · to_discontinuous · dict
         <step> = <out> ; <obs>     <out> = done | err:<class> | res <obs>
         <obs> = <cont> <imm> <ap> <validated> <n> rat*n <k> moy*k
-/
import Ladybug.DrvCore
import Ladybug.Model.Resample
import Ladybug.Model.ResampleObj

open Drv Cal Resample

namespace DrvC13

def showErr : VErr → String
  | .value => "err:value"
  | .assert => "err:assert"
  | .index => "err:index"
  | .type => "err:type"
  | .zero => "err:zero"

def period? (toks : List String) : Option (Except VErr AP) :=
  match toks with
  | [a, b, c, d, e, f, g, l] => do
    let a ← a.toInt?
    let b ← b.toInt?
    let c ← c.toInt?
    let d ← d.toInt?
    let e ← e.toInt?
    let f ← f.toInt?
    let g ← g.toInt?
    let l ← bool? l
    pure (liftAP (AP.mk? a b c d e f g l))
  | _ => none

def showAP (ap : AP) : String :=
  s!"{ap.st_month} {ap.st_day} {ap.st_hour} {ap.end_month} {ap.end_day} {ap.end_hour} {ap.timestep} {showBool ap.leap}"

/-- `k` natural numbers per item. -/
def chunks (k : Nat) : List Nat → Option (List (List Nat))
  | [] => some []
  | l => if l.length < k ∨ k = 0 then none else
      match chunks k (l.drop k) with
      | some r => some (l.take k :: r)
      | none => none
termination_by l => l.length
decreasing_by simp; omega

def pairs? (toks : List String) : Option (List (Nat × Nat)) := do
  let ns ← nats toks
  let cs ← chunks 2 ns
  cs.mapM fun c => match c with | [a, b] => some (a, b) | _ => none

def showPairs (l : List (Nat × Nat)) : String :=
  joinSp (toString l.length :: l.map fun p => s!"{p.1} {p.2}")

def showValidated (r : Except VErr (Validated (Nat × Nat))) : String :=
  match r with
  | .error e => showErr e
  | .ok v => s!"ok {showAP v.ap} " ++ showPairs v.data

def ratPairs? (toks : List String) : Option (List (Nat × Rat)) :=
  let rec go : List String → Option (List (Nat × Rat))
    | [] => some []
    | [_] => none
    | a :: b :: rest => do
      let m ← a.toNat?
      let v ← rat? b
      let r ← go rest
      pure ((m, v) :: r)
  go toks

def showRats (l : List Rat) : String := joinSp (toString l.length :: l.map showRat)

def withAP (toks : List String) (f : AP → List String → String) : String :=
  match period? (toks.take 8) with
  | none => "bad-op"
  | some (.error e) => showErr e
  | some (.ok ap) => f ap (toks.drop 8)


def showOErr : OErr → String
  | .value => "err:value"
  | .assert => "err:assert"
  | .index => "err:index"
  | .type => "err:type"
  | .zero => "err:zero"
  | .attr => "err:attr"

def showPub (p : Pub) : String :=
  s!"{showBool p.cont} {showBool p.imm} {showAP p.ap} {showBool p.validated} {showRats p.vals} " ++
    joinSp (toString p.moys.length :: p.moys.map toString)

def showOut : Out → String
  | .done => "done"
  | .refused e => showOErr e
  | .result p => "res " ++ showPub p

/-- Parse the op tokens of a history. -/
def ops? : Nat → List String → Option (List Op)
  | _, [] => some []
  | 0, _ => none
  | fuel + 1, toks =>
    match toks with
    | "read" :: f :: rest => do
      let f ← bool? f
      let r ← ops? fuel rest
      pure (.read f :: r)
    | "validate" :: a :: rest => do
      let a ← bool? a
      let r ← ops? fuel rest
      pure (.validate a :: r)
    | "cull" :: ts :: a :: rest => do
      let ts ← ts.toNat?
      let a ← bool? a
      let r ← ops? fuel rest
      pure (.cull ts a :: r)
    | "convcull" :: ts :: rest => do
      let ts ← ts.toNat?
      let r ← ops? fuel rest
      pure (.convCull ts :: r)
    | "holes" :: a :: rest => do
      let a ← bool? a
      let r ← ops? fuel rest
      pure (.holes a :: r)
    | "interp" :: ts :: cum :: a :: rest => do
      let ts ← ts.toNat?
      let cum ← (if cum = "N" then some (some none) else if cum = "X" then some none
                 else (bool? cum).map fun b => some (some b))
      let a ← bool? a
      let r ← ops? fuel rest
      pure (.interp ts cum a :: r)
    | "setvalues" :: "S" :: rest => do
      let r ← ops? fuel rest
      pure (.setValues none :: r)
    | "setvalues" :: k :: rest => do
      let k ← k.toNat?
      if rest.length < k then none else
      let vs ← (rest.take k).mapM rat?
      let r ← ops? fuel (rest.drop k)
      pure (.setValues (some vs) :: r)
    | "setitem" :: i :: v :: rest => do
      let i ← i.toInt?
      let v ← rat? v
      let r ← ops? fuel rest
      pure (.setItem i v :: r)
    | "to_immutable" :: rest => (ops? fuel rest).map (Op.toImmutable :: ·)
    | "to_mutable" :: rest => (ops? fuel rest).map (Op.toMutable :: ·)
    | "duplicate" :: rest => (ops? fuel rest).map (Op.duplicate :: ·)
    | "to_discontinuous" :: rest => (ops? fuel rest).map (Op.toDiscontinuous :: ·)
    | "dict" :: rest => (ops? fuel rest).map (Op.dictRoundTrip :: ·)
    | _ => none

/-- Run a history and print every step: answer and public state of the current object. -/
def showHistory (o : Obj) (ops : List Op) : String :=
  let rec go (o : Obj) : List Op → List String
    | [] => []
    | op :: rest =>
      let r := step o op
      (showOut r.2 ++ " ; " ++ showPub r.1.pub) :: go r.1 rest
  "ok " ++ " | ".intercalate (go o ops)

def handleHist (cont imm : Bool) (ap : AP) (r : List String) : String :=
  match r with
  | flag :: nc :: pit :: n :: rest =>
    match bool? flag, bool? nc, bool? pit, n.toNat? with
    | some flag, some nc, some pit, some n =>
      if rest.length < 2 * n then "bad-op" else
      match ratPairs? (rest.take (2 * n)), ops? (rest.length + 1) (rest.drop (2 * n)) with
      | some ps, some ops =>
          let p0 : Pub := ⟨cont, imm, ap, ps.map (·.2), ps.map (·.1), flag, nc, pit⟩
          let init : Except OErr Obj :=
            if cont then mkCont p0 imm ap p0.vals else mkDisc p0 imm ap p0.vals p0.moys flag
          match init with
          | .error e => showOErr e
          | .ok o => showHistory o ops
      | _, _ => "bad-op"
    | _, _, _, _ => "bad-op"
  | _ => "bad-op"

def handle (toks : List String) : String :=
  match toks with
  | "hist" :: c :: i :: rest =>
    match bool? c, bool? i with
    | some c, some i => withAP rest fun ap r => handleHist c i ap r
    | _, _ => "bad-op"
  | "vh" :: rest => withAP rest fun ap r =>
      match r with
      | dl :: n :: items =>
        match bool? dl, n.toNat?, pairs? items with
        | some dl, some n, some ps => if ps.length ≠ n then "bad-op" else showValidated (validateHourly ap dl ps)
        | _, _, _ => "bad-op"
      | _ => "bad-op"
  | "vd" :: rest => withAP rest fun ap r =>
      match r with
      | n :: items =>
        match n.toNat?, pairs? items with
        | some n, some ps => if ps.length ≠ n then "bad-op" else showValidated (validateDaily ap ps)
        | _, _ => "bad-op"
      | _ => "bad-op"
  | "vm" :: rest => withAP rest fun ap r =>
      match r with
      | n :: items =>
        match n.toNat?, pairs? items with
        | some n, some ps => if ps.length ≠ n then "bad-op" else showValidated (validateMonthly ap ps)
        | _, _ => "bad-op"
      | _ => "bad-op"
  | "vp" :: rest => withAP rest fun ap r =>
      match r with
      | n :: items =>
        match n.toNat?, (nats items).bind (chunks 4) with
        | some n, some cs =>
          match cs.mapM (fun c => match c with
              | [a, b, c, d] => some (((a, b, c) : MPH), d) | _ => none) with
          | some ps =>
            if ps.length ≠ n then "bad-op" else
            match validateMPH ap ps with
            | .error e => showErr e
            | .ok v => s!"ok {showAP v.ap} " ++
                joinSp (toString v.data.length :: v.data.map fun p => s!"{p.1.1}-{p.1.2.1}-{p.1.2.2} {p.2}")
          | none => "bad-op"
        | _, _ => "bad-op"
      | _ => "bad-op"
  | "cull" :: rest => withAP rest fun ap r =>
      match r with
      | ts :: n :: items =>
        match ts.toNat?, n.toNat?, pairs? items with
        | some ts, some n, some ps => if ps.length ≠ n then "bad-op" else showValidated (cull ap ts ps)
        | _, _, _ => "bad-op"
      | _ => "bad-op"
  | "holes" :: rest => withAP rest fun ap r =>
      match r with
      | v :: n :: items =>
        match bool? v, n.toNat?, ratPairs? items with
        | some v, some n, some ps =>
          if ps.length ≠ n then "bad-op" else
          match interpolateHoles ap v ps with
          | .error e => showErr e
          | .ok vals => "ok " ++ showRats vals
        | _, _, _ => "bad-op"
      | _ => "bad-op"
  | "interp" :: rest => withAP rest fun ap r =>
      match r with
      | ts :: cum :: nc :: pit :: n :: items =>
        let cum? : Option (Option Bool) := if cum = "N" then some none else (bool? cum).map some
        match ts.toNat?, cum?, bool? nc, bool? pit, n.toNat?, items.mapM rat? with
        | some ts, some cum, some nc, some pit, some n, some vs =>
          if vs.length ≠ n then "bad-op" else
          match interpolateToTimestep ap vs ts cum nc pit with
          | .error e => showErr e
          | .ok (nap, out) => s!"ok {showAP nap} " ++ showRats out
        | _, _, _, _, _, _ => "bad-op"
      | _ => "bad-op"
  | [op, f, ts, v] =>
    match rat? f, rat? ts, rat? v with
    | some f, some ts, some v =>
      if op = "agg" then "ok " ++ showRat (timeAggregated f ts v)
      else if op = "rate" then "ok " ++ showRat (timeRate f ts v)
      else "bad-op"
    | _, _, _ => "bad-op"
  | _ => "bad-op"

end DrvC13

def main : IO Unit := Drv.run DrvC13.handle
