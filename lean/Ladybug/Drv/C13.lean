/- Model driver for C13 (stub: no ops yet). -/
import Ladybug.DrvCore

namespace DrvC13
def handle (_toks : List String) : String := "bad-op"
end DrvC13

def main : IO Unit := Drv.run DrvC13.handle
