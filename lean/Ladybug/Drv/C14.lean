/-
  Model driver for C14 (heap model of data collections).  One request line = one history:
    H <mode> ; <cmd> ; <cmd> ...
  cmd:  new <cls> <isMut> <validated> <dtype> <unit> <ap list> <md list> <dts list> <vals list>
        d <idx> <derive-op> args     m <idx> <mutator> args     w <idx> <idx>
  Lists are length-prefixed.  Answer: per command `<status> # <obs of live 0> # <obs of live 1> ...`,
  commands joined by ` | `.
-/
import Ladybug.DrvCore
import Ladybug.Model.Heap

open Drv LbHeap

namespace DrvC14

def showErr : Err → String
  | .attr => "err:attr" | .assert => "err:assert" | .value => "err:value"
  | .index => "err:index" | .zero => "err:zero" | .type => "err:type" | .key => "err:key"

def showCls : Cls → String
  | .hd => "hd" | .hc => "hc" | .daily => "daily" | .monthly => "monthly" | .mph => "mph"

def cls? : String → Option Cls
  | "hd" => some .hd | "hc" => some .hc | "daily" => some .daily
  | "monthly" => some .monthly | "mph" => some .mph | _ => none

def commaJoin (l : List String) : String := ",".intercalate l

def showOV : OV → String
  | .tok s => s
  | .lst l => "[" ++ ";".intercalate l ++ "]"
  | .bad => "?"

def showObs (o : Obs) : String :=
  let md := o.md.mergeSort (fun a b => a.1 ≤ b.1)
  s!"{showCls o.cls} {showBool o.isMut} {showBool o.validated} {o.dtype} {o.unit} " ++
  "A:" ++ commaJoin (o.ap.map toString) ++ " M:" ++
  commaJoin (md.map fun p => toString p.1 ++ "=" ++ showOV p.2) ++
  " D:" ++ commaJoin (o.dts.map toString) ++ " V:" ++ commaJoin (o.vals.map showRat)

def showOperand (live : List Ref) : Operand → String
  | .scalar q => "s:" ++ showRat q
  | .coll r => "c:" ++ (match live.idxOf? r with | some i => toString i | none => "?")

def showMd (m : List (Nat × OV)) : String :=
  commaJoin ((m.mergeSort (fun a b => a.1 ≤ b.1)).map fun p => toString p.1 ++ "=" ++ showOV p.2)

def showAny (h : Heap) (live : List Ref) (c : Ref) : String :=
  match obsA h c with
  | .coll (some o) => showObs o
  | .list v => "list V:" ++ commaJoin (v.map showRat)
  | .args l => "args " ++ commaJoin (l.map (showOperand live))
  | .comp o =>
    s!"comp{o.kind} T:" ++ commaJoin (o.tags.map toString) ++ " M:" ++ showMd o.md ++ " L:" ++
      commaJoin (o.shared.map fun t => match t with | some l => ";".intercalate l | none => "?") ++
      " " ++ " ".intercalate (o.members.map fun m =>
        match m with | some ob => "{ " ++ showObs ob ++ " }" | none => "{ ? }")
  | _ => "?"

def showLive (h : Heap) (live : List Ref) : String :=
  " # ".intercalate (live.map (showAny h live))

/-- Parser over the token list. -/
abbrev P := StateT (List String) Option

def tok : P String := do
  let s ← get
  match s with
  | [] => failure
  | t :: r => set r; pure t

def pNat : P Nat := do let t ← tok; match t.toNat? with | some n => pure n | none => failure
def pInt : P Int := do let t ← tok; match t.toInt? with | some n => pure n | none => failure
def pRat : P Rat := do let t ← tok; match rat? t with | some n => pure n | none => failure
def pBool : P Bool := do let t ← tok; match bool? t with | some n => pure n | none => failure

def pList {α : Type} (p : P α) : P (List α) := do
  let n ← pNat
  let rec go : Nat → P (List α)
    | 0 => pure []
    | k + 1 => do let x ← p; let r ← go k; pure (x :: r)
  go n

def pOV : P OV := do
  let t ← tok
  if t = "T" then do let v ← tok; pure (.tok v)
  else if t = "L" then do let l ← pList tok; pure (.lst l)
  else failure

def pMeta : P (List (Nat × OV)) := pList (do let k ← pNat; let v ← pOV; pure (k, v))

def pOptNat : P (Option Nat) := do
  let t ← tok
  if t = "-" then pure none else match t.toNat? with | some n => pure (some n) | none => failure

def pOptBool : P (Option Bool) := do
  let t ← tok
  if t = "-" then pure none else match bool? t with | some n => pure (some n) | none => failure

def pOperand (live : List Ref) : P Operand := do
  let t ← tok
  if t = "s" then do let q ← pRat; pure (.scalar q)
  else if t = "c" then do
    let i ← pNat
    match live[i]? with | some r => pure (.coll r) | none => failure
  else failure

def pDOp (live : List Ref) : P DOp := do
  let name ← tok
  match name with
  | "add" => do let x ← pOperand live; pure (.arith .add x)
  | "sub" => do let x ← pOperand live; pure (.arith .sub x)
  | "mul" => do let x ← pOperand live; pure (.arith .mul x)
  | "div" => do let x ← pOperand live; pure (.arith .div x)
  | "neg" => pure .neg
  | "dup" => pure .dup
  | "to_mutable" => pure .toMutable
  | "to_immutable" => pure .toImmutable
  | "to_disc" => pure .toDisc
  | "to_unit" => do let u ← pNat; pure (.toUnit u)
  | "to_ip" => pure .toIp
  | "to_si" => pure .toSi
  | "aligned" => do
      let t ← tok
      let v ← if t = "s" then (do let q ← pRat; pure (AlignVal.scalar q))
              else if t = "l" then (do let l ← pList pRat; pure (AlignVal.list l))
              else if t = "r" then (do
                let i ← pNat
                match live[i]? with | some r => pure (AlignVal.listRef r) | none => failure)
              else failure
      let u ← pOptNat
      let mt ← pOptBool
      pure (.aligned v u mt)
  | "filter_pattern" => do let m ← pList pBool; pure (.filterPattern m)
  | "filter_range" => do let a ← pRat; let b ← pRat; pure (.filterRange a b)
  | "filter_keys" => do let k ← pList pNat; pure (.filterKeys k)
  | "filter_ap" => do
      let ap ← pList pNat; let k ← pList pNat; let c ← pBool; pure (.filterAp ap k c)
  | "cull" => do let ts ← pNat; pure (.cull ts)
  | "agg" => do
      let iv ← tok
      let iv ← match iv with
        | "daily" => pure Interval.daily | "monthly" => pure Interval.monthly
        | "mph" => pure Interval.mph | _ => failure
      let nm ← tok; let d ← pList pNat; let v ← pList pRat
      pure (.agg iv nm d v)
  | "validate" => do
      let ap ← pList pNat; let d ← pList pNat; let v ← pList pRat; pure (.validate ap d v)
  | "interp_holes" => do let d ← pList pNat; let v ← pList pRat; pure (.interpHoles d v)
  | "interp_ts" => do
      let ts ← pNat; let d ← pList pNat; let v ← pList pRat; pure (.interpTs ts d v)
  | "cfa" => do let x ← pOperand live; let u ← pNat; pure (.cfa x u)
  | "cfa_ref" => do
      let i ← pNat; let u ← pNat
      match live[i]? with | some r => pure (.cfaRef r u) | none => failure
  | "normalize" => do let a ← pRat; let t ← tok; pure (.normalize a t)
  | "aggregate_area" => do let a ← pRat; let t ← tok; pure (.aggregateArea a t)
  | "time_agg" => pure .timeAgg
  | "time_rate" => pure .timeRate
  | _ => failure

def pMOp (live : List Ref) : P MOp := do
  let name ← tok
  match name with
  | "conv_unit" => do let u ← pNat; pure (.convUnit u)
  | "conv_ip" => pure .convIp
  | "conv_si" => pure .convSi
  | "set_values" => do let v ← pList pRat; pure (.setValues v)
  | "set_item" => do let i ← pInt; let x ← pRat; pure (.setItem i x)
  | "meta_set" => do let k ← pNat; let v ← pOV; pure (.metaSet k v)
  | "meta_append" => do let k ← pNat; let x ← tok; pure (.metaAppend k x)
  | "truncate" => do let n ← pNat; pure (.truncate n)
  | "set_values_ref" => do
      let i ← pNat
      match live[i]? with | some r => pure (.setValuesRef r) | none => failure
  | "meta_replace" => do let m ← pMeta; pure (.metaReplace m)
  | "cull_inplace" => do let ts ← pNat; pure (.cullInplace ts)
  | _ => failure

def onlySeps (s : String) : Bool := s.all fun c => c = '|' || c = '/'

def shareStrComp (h : Heap) (live : List Ref) (c : Ref) : String :=
  let parts := live.zipIdx.filterMap fun p =>
    let s := shareComp h c p.1
    if onlySeps s then none else some (toString p.2 ++ ":" ++ s)
  "share=" ++ commaJoin parts ++ " int=" ++ shareInner h c

def shareStr (h : Heap) (live : List Ref) (r : Ref) : String :=
  let parts := live.zipIdx.filterMap fun p =>
    let s := shareSig h r p.1
    if onlySeps s then none else some (toString p.2 ++ ":" ++ s)
  "share=" ++ commaJoin parts

/-- Run one command; returns the new state and the status text. -/
def runCmd (mode : Mode) (h : Heap) (live : List Ref) (toks : List String) :
    Option (Heap × List Ref × String) :=
  match toks with
  | "new" :: rest =>
    let p : P (Except Err (Heap × Ref)) := do
      let c ← tok
      let c ← match cls? c with | some c => pure c | none => failure
      let mt ← pBool; let vd ← pBool; let dt ← pNat; let u ← pNat
      let ap ← pList pNat; let md ← pMeta; let d ← pList pNat
      let t ← tok
      if t = "V" then do
        let v ← pList pRat
        pure (Except.ok (build h c mt vd dt u ap md d v))
      else if t = "VR" then do
        let i ← pNat
        match live[i]? with
        | some l => pure (buildFrom h c mt vd dt u ap md d l)
        | none => failure
      else failure
    match p.run rest with
    | some (.ok (h', r), []) => some (h', live ++ [r], s!"ok {live.length} " ++ shareStr h' live r)
    | some (.error e, []) => some (h, live, showErr e)
    | _ => none
  | "nl" :: rest =>
    match (pList pRat).run rest with
    | some (v, []) => let p := newList h v; some (p.1, live ++ [p.2], s!"ok {live.length}")
    | _ => none
  | "na" :: rest =>
    match (pList (pOperand live)).run rest with
    | some (l, []) => let p := newArgs h l; some (p.1, live ++ [p.2], s!"ok {live.length}")
    | _ => none
  | "wn" :: rest =>
    let p : P (Except Err (Heap × Ref)) := do
      let loc ← pList tok; let tags ← pList pNat; let ap ← pList pNat; let d ← pList pNat
      let dni ← pList pRat; let dhi ← pList pRat; let cont ← pBool
      pure (weaNew h loc tags ap d dni dhi cont)
    match p.run rest with
    | some (.ok (h', r), []) => some (h', live ++ [r], s!"ok {live.length} " ++ shareStrComp h' live r)
    | some (.error e, []) => some (h, live, showErr e)
    | _ => none
  | ["wd", i] =>
    match i.toNat? >>= (live[·]?) with
    | none => none
    | some w =>
      match weaDup h w with
      | .ok (h', r) => some (h', live ++ [r], s!"ok {live.length} " ++ shareStrComp h' live r)
      | .error e => some (h, live, showErr e)
  | "wf" :: i :: rest =>
    match i.toNat? >>= (live[·]?) with
    | none => none
    | some w =>
      match (pDOp live).run rest with
      | some (op, []) =>
        match weaFilter h w op with
        | .ok (h', r) => some (h', live ++ [r], s!"ok {live.length} " ++ shareStrComp h' live r)
        | .error e => some (h, live, showErr e)
      | _ => none
  | "wr" :: i :: rest =>
    match i.toNat? >>= (live[·]?) with
    | none => none
    | some w =>
      let p : P (Nat × Bool × List Rat) := do
        let dt ← pNat; let sh ← pBool; let v ← pList pRat; pure (dt, sh, v)
      match p.run rest with
      | some ((dt, sh, v), []) =>
        match weaDerived h w dt sh v with
        | .ok (h', r) => some (h', live ++ [r], s!"ok {live.length} " ++ shareStr h' live r)
        | .error e => some (h, live, showErr e)
      | _ => none
  | "wi" :: rest =>
    let p : P (Except Err (Heap × Ref)) := do
      let loc ← pList tok; let i ← pNat; let j ← pNat
      match live[i]?, live[j]? with
      | some d, some f => pure (weaInit h loc d f)
      | _, _ => failure
    match p.run rest with
    | some (.ok (h', r), []) => some (h', live ++ [r], s!"ok {live.length} " ++ shareStrComp h' live r)
    | some (.error e, []) => some (h, live, showErr e)
    | _ => none
  | "wm" :: i :: k :: rest =>
    match i.toNat? >>= (live[·]?), k.toNat? with
    | some w, some k =>
      match (pMOp live).run rest with
      | some (op, []) =>
        match compMember h w k op with
        | .error e => some (h, live, showErr e)
        | .ok h' => some (h', live, "ok")
      | _ => none
    | _, _ => none
  | ["ws", i, k, v] =>
    match i.toNat? >>= (live[·]?), k.toNat? with
    | some w, some k =>
      match compMetaSet h w k v with
      | .error e => some (h, live, showErr e)
      | .ok h' => some (h', live, "ok")
    | _, _ => none
  | "en" :: rest =>
    let p : P (Except Err (Heap × Ref)) := do
      let ap ← pList pNat; let d ← pList pNat; let db ← pList pRat; let dp ← pList pRat
      pure (epwNew h ap d db dp)
    match p.run rest with
    | some (.ok (h', r), []) => some (h', live ++ [r], s!"ok {live.length} " ++ shareStrComp h' live r)
    | some (.error e, []) => some (h, live, showErr e)
    | _ => none
  | ["ec", i, t] =>
    match i.toNat? >>= (live[·]?), bool? t with
    | some e, some t =>
      match epwConvert h e t with
      | .ok h' => some (h', live, "ok")
      | .error er => some (h, live, showErr er)
    | _, _ => none
  | ["ef", i] =>
    match i.toNat? >>= (live[·]?) with
    | some e =>
      match epwToFileString h e with
      | .ok (true, h') => some (h', live, "ok")
      | .ok (false, h') => some (h', live, "err:value")
      | .error er => some (h, live, showErr er)
    | none => none
  | "ew" :: i :: rest =>
    match i.toNat? >>= (live[·]?), (pList pNat).run rest with
    | some e, some (hoys, []) =>
      match epwToWea h e hoys with
      | .ok (true, h') => some (h', live, "ok")
      | .ok (false, h') => some (h', live, "err:index")
      | .error er => some (h, live, showErr er)
    | _, _ => none
  | "es" :: i :: rest =>
    match i.toNat? >>= (live[·]?) with
    | none => none
    | some e =>
      let p : P (List Nat × List Nat × List Rat) := do
        let ap ← pList pNat; let d ← pList pNat; let v ← pList pRat; pure (ap, d, v)
      match p.run rest with
      | some ((ap, d, v), []) =>
        match epwSky h e ap d v with
        | .ok (h', r) => some (h', live ++ [r], s!"ok {live.length} " ++ shareStr h' live r)
        | .error er => some (h, live, showErr er)
      | _ => none
  | "lm" :: i :: rest =>
    match i.toNat? >>= (live[·]?) with
    | none => none
    | some c =>
      let p : P LOp := do
        let t ← tok
        if t = "set" then do let k ← pInt; let x ← pRat; pure (.set k x)
        else if t = "append" then do let x ← pRat; pure (.append x)
        else failure
      match p.run rest with
      | some (op, []) =>
        match mutList h c op with
        | .error e => some (h, live, showErr e)
        | .ok h' => some (h', live, "ok")
      | _ => none
  | "d" :: i :: rest =>
    match i.toNat? >>= (live[·]?) with
    | none => none
    | some c =>
      match (pDOp live).run rest with
      | some (op, []) =>
        match derive mode h c op with
        | .error e => some (h, live, showErr e)
        | .ok (h', r) => some (h', live ++ [r], s!"ok {live.length} " ++ shareStr h' live r)
      | _ => none
  | "m" :: i :: rest =>
    match i.toNat? >>= (live[·]?) with
    | none => none
    | some c =>
      match (pMOp live).run rest with
      | some (op, []) =>
        match mutate mode h c op with
        | .error e => some (h, live, showErr e)
        | .ok h' => some (h', live, "ok")
      | _ => none
  | ["w", i, j] =>
    match i.toNat? >>= (live[·]?), j.toNat? >>= (live[·]?) with
    | some d, some a =>
      match windrose mode h d a with
      | .error e => some (h, live, showErr e)
      | .ok (h', rd, ra) =>
        some (h', live ++ [rd, ra],
          s!"ok {live.length} " ++ shareStr h' live rd ++ " " ++ shareStr h' (live ++ [rd]) ra)
    | _, _ => none
  | _ => none

def splitOnSemi (toks : List String) : List (List String) :=
  let rec go : List String → List String → List (List String) → List (List String)
    | [], cur, acc => (cur.reverse :: acc).reverse
    | t :: r, cur, acc => if t = ";" then go r [] (cur.reverse :: acc) else go r (t :: cur) acc
  go toks [] []

def runHist (mode : Mode) (cmds : List (List String)) : String :=
  let rec go : List (List String) → Heap → List Ref → List String → String
    | [], _, _, acc => " | ".intercalate acc.reverse
    | c :: rest, h, live, acc =>
      match runCmd mode h live c with
      | none => "bad-op"
      | some (h', live', st) => go rest h' live' ((st ++ " # " ++ showLive h' live') :: acc)
  go cmds Heap.empty [] []

def handle (toks : List String) : String :=
  match toks with
  | "H" :: mode :: ";" :: rest =>
    match mode with
    | "fixed" => runHist .fixed (splitOnSemi rest)
    | "pinned" => runHist .pinned (splitOnSemi rest)
    | _ => "bad-op"
  | _ => "bad-op"

end DrvC14

def main : IO Unit := Drv.run DrvC14.handle
