/- Model driver for C14 (stub: no ops yet). -/
import Ladybug.DrvCore

namespace DrvC14
def handle (_toks : List String) : String := "bad-op"
end DrvC14

def main : IO Unit := Drv.run DrvC14.handle
