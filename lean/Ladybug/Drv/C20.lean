/- Model driver for C20 (stub: no ops yet). -/
import Ladybug.DrvCore

namespace DrvC20
def handle (_toks : List String) : String := "bad-op"
end DrvC20

def main : IO Unit := Drv.run DrvC20.handle
