/-
  Model driver for C20 (viewsphere.py, compass.py projections, Sun.position_2d).
  Line protocol: see DrvCore.  Imports only Mathlib-free files.
  Floats travel as 16-hex-digit IEEE bit patterns; the harness compares them with a stated tolerance.
-/
import Ladybug.DrvCore
import Ladybug.Model.Dome
import Ladybug.Model.Proj
import Ladybug.Model.DomeObj
import Ladybug.Gen.CompassSetters

open Drv

namespace DrvC20

instance : NatCast Float := ⟨Float.ofNat⟩

def showErr : Dome.Err → String
  | .index => "err:index"
  | .zero => "err:zero"
  | .assert => "err:assert"
  | .value => "err:value"

/-- `math.pi` -/
def pi : Float := Float.ofBits 0x400921FB54442D18
def twoPi : Float := 2.0 * pi

def showFloats (l : List Float) : String := joinSp (l.map showFloatBits)

def showFace (f : List Int) : String := ",".intercalate (f.map toString)

def showShape (r : Except Dome.Err Dome.MeshShape) : String :=
  match r with
  | .error e => showErr e
  | .ok m => s!"ok {m.vertexCount} {m.faces.length} {m.vectorCount} " ++ joinSp (m.faces.map showFace)

/-- Sine of the accumulated vertical angle: `current = va; repeat: sin(current); current += va`.
`s 0` is never used by the code (cap 0 is the constant `2π`). -/
def sinSeq (va : Float) (count : Nat) : Nat → Float :=
  let accs : Array Float := Id.run do
    let mut a : Array Float := #[0.0]
    let mut cur := va
    for _ in [0:count] do
      a := a.push cur
      cur := cur + va
    return a
  fun i => Float.sin (accs.getD i 0.0)

/-- The patch areas of `_dome_patch_areas(n, in_place)` in floats; `none` = ZeroDivisionError. -/
def areasF (n : Int) (ip : Bool) : Option (List Float × List Nat) :=
  let rows := Dome.rowCounts n
  let den := Dome.areaAngleDen rows.length n ip
  if den = 0 then none
  else if rows.any (· == 0) then none
  else
    let va := pi / Float.ofInt den
    some (Dome.patchAreas twoPi (sinSeq va rows.length) rows, rows)

/-- Exact rational of the float quotient `radians(offset) / vert_angle`. -/
def offsetQuot (offset : Float) (rowsLen : Nat) (n : Int) (ip : Bool) : Except Dome.Err Rat :=
  let den := Dome.offsetAngleDen rowsLen n ip
  if den = 0 then .error .zero
  else
    let rad := offset * (pi / 180.0)
    let vert := pi / Float.ofInt den
    match Py.ratOfFloatBits (rad / vert).toBits with
    | some q => .ok q
    | none => .error .value

def offsetCount (offset : Float) (n : Int) (ip : Bool) : Except Dome.Err Nat :=
  let rows := Dome.rowCounts n
  (offsetQuot offset rows.length n ip).map (Dome.offsetPatchCountQ rows)

/-- run-length encoding of a table of rationals -/
def rle : List Rat → List (Rat × Nat)
  | [] => []
  | x :: rest =>
    match rle rest with
    | (y, k) :: more => if x = y then (y, k + 1) :: more else (x, 1) :: (y, k) :: more
    | [] => [(x, 1)]

def showTable (t : List Rat) : String :=
  toString t.length ++ ":" ++ ";".intercalate ((rle t).map fun p => showRat p.1 ++ "*" ++ toString p.2)

def lazyProp? (s : String) : Option Dome.LazyProp :=
  match s with
  | "tregenza_dome_vectors" => some .tDomeVec
  | "tregenza_sphere_vectors" => some .tSphereVec
  | "tregenza_dome_mesh" => some .tDomeMesh
  | "tregenza_dome_mesh_high_res" => some .tDomeMeshHi
  | "tregenza_sphere_mesh" => some .tSphereMesh
  | "tregenza_solid_angles" => some .tSolid
  | "reinhart_dome_vectors" => some .rDomeVec
  | "reinhart_sphere_vectors" => some .rSphereVec
  | "reinhart_dome_mesh" => some .rDomeMesh
  | "reinhart_sphere_mesh" => some .rSphereMesh
  | "reinhart_solid_angles" => some .rSolid
  | _ => none

def showCount (c : Dome.Content) : String :=
  match c.count with
  | .ok k => toString k
  | .error e => showErr e

/-- `<kind>:<n>:<in_place>:<count>`; `none` when the getter returns `None`. -/
def showContent : Option Dome.Content → String
  | none => "none"
  | some c =>
    (match c with
     | .domeVec n ip => s!"dome_vectors:{n}:{showBool ip}"
     | .domeMesh n ip => s!"dome_mesh:{n}:{showBool ip}"
     | .sphereVec n => s!"sphere_vectors:{n}:0"
     | .sphereMesh n => s!"sphere_mesh:{n}:0"
     | .solid b => s!"solid_angles:{if b then 2 else 1}:0") ++ ":" ++ showCount c


/-! ### Histories on one object (round 3) -/

/-- Calls of the plain methods as they appear in a history. `badType fn` = an argument of a type the
method cannot use (float / Fraction / str / None / list division count …): the code raises TypeError. -/
inductive Call where
  | rows (n : Int)
  | dome (n : Int) (ip : Bool)
  | sphere (n : Int) (ip : Bool)
  | weights (n : Int) (ip : Bool)
  | sweights (n : Int) (ip : Bool)
  | offset (x : Float) (n : Int) (ip : Bool)
  | offsetw (x : Float) (n : Int) (ip : Bool)
  | radial (az alt : Nat)
  | radialw (az alt : Nat)
  | badType

def errName : Dome.Err → String
  | .index => "index"
  | .zero => "zero"
  | .assert => "assert"
  | .value => "value"

def shapeAns (r : Except Dome.Err Dome.MeshShape) : Except String String :=
  match r with
  | .error e => .error (errName e)
  | .ok m => .ok s!"shape:{m.vertexCount}:{m.faces.length}:{m.vectorCount}"

def weightsLen (n : Int) (ip : Bool) (twice : Bool) : Except String String :=
  let rows := Dome.rowCounts n
  let den := Dome.areaAngleDen rows.length n ip
  if den = 0 then .error "zero" else
  let w := Dome.domeWeights twoPi (sinSeq (pi / Float.ofInt den) rows.length) rows
  .ok s!"len:{if twice then 2 * w.length else w.length}"

/-- The pure answers of the plain methods (summaries: sizes and error classes; the numbers themselves are
compared by the single-call ops above and, inside histories, with the answer of a fresh object). -/
def ans : Call → Except String String
  | .rows n => let r := Dome.rowCounts n; .ok s!"rows:{r.length}:{r.sum}"
  | .dome n ip => shapeAns (Dome.shapeAns (.dome n ip))
  | .sphere n ip => shapeAns (Dome.shapeAns (.sphere n ip))
  | .weights n ip => weightsLen n ip false
  | .sweights n ip => weightsLen n ip true
  | .offset x n ip =>
    match offsetCount x n ip, Dome.domeShape n ip with
    | .error e, _ => .error (errName e)
    | _, .error e => .error (errName e)
    | .ok k, .ok _ => if k = 0 then .error "assert" else .ok s!"band:{2 * k}:{2 * k}"
  | .offsetw x n ip =>
    match areasF n ip with
    | none => .error "zero"
    | some (_, rows) =>
      match offsetCount x n ip with
      | .error e => .error (errName e)
      | .ok k =>
        let den := Dome.areaAngleDen rows.length n ip
        let rel := (Dome.patchAreas twoPi (sinSeq (pi / Float.ofInt den) rows.length) rows).take k
        if rel.length = 0 then .error "zero" else .ok s!"len:{2 * rel.length}"
  | .radial az alt => shapeAns (Dome.shapeAns (.radial az alt))
  | .radialw az alt => if alt = 0 ∨ az = 0 then .error "zero" else .ok s!"len:{az * alt}"
  | .badType => .error "type"

def histOp? (tok : String) : Option (Dome.Op Call) :=
  match tok.splitOn ":" with
  | ["read", p] => (lazyProp? p).map .read
  | ["scribble"] => some .scribble
  | ["renew"] => some .renew
  | ["bad", _] => some (.call .badType)
  | ["rows", n] => n.toInt?.map fun n => .call (.rows n)
  | ["dome", n, ip] => do some (.call (.dome (← n.toInt?) (← bool? ip)))
  | ["sphere", n, ip] => do some (.call (.sphere (← n.toInt?) (← bool? ip)))
  | ["weights", n, ip] => do some (.call (.weights (← n.toInt?) (← bool? ip)))
  | ["sweights", n, ip] => do some (.call (.sweights (← n.toInt?) (← bool? ip)))
  | ["offset", x, n, ip] => do some (.call (.offset (← floatBits? x) (← n.toInt?) (← bool? ip)))
  | ["offsetw", x, n, ip] => do some (.call (.offsetw (← floatBits? x) (← n.toInt?) (← bool? ip)))
  | ["radial", az, alt] => do some (.call (.radial (← az.toNat?) (← alt.toNat?)))
  | ["radialw", az, alt] => do some (.call (.radialw (← az.toNat?) (← alt.toNat?)))
  | _ => none

def showOut : Dome.Out String String → String
  | .content c => showContent c
  | .result r => r
  | .refused e => "err:" ++ e
  | .unit => "unit"

/-- `math.radians(a)` = `a * (pi / 180)`; the tabulated `Compass.ALTITUDES`. -/
def compassAlts : List (Float × Float) :=
  Gen.Compass.altitudes.map fun a =>
    let r := Float.ofNat a * (pi / 180.0); (Float.cos r, Float.sin r)

/-- The Compass step with the setter order the translator found in compass.py. -/
def compassStep : CompassObj.St Float → CompassObj.Op Float → CompassObj.St Float × CompassObj.Out Float :=
  CompassObj.stepCfg Gen.Compass.radiusValidatesFirst Gen.Compass.spacingValidatesFirst compassAlts

def compassOp? (tok : String) : Option (CompassObj.Op Float) :=
  match tok.splitOn ":" with
  | ["setr", v] => (floatBits? v).map .setRadius
  | ["setr_text"] => some .setRadiusText
  | ["sets", v] => (floatBits? v).map .setSpacing
  | ["setc", x, y] => do some (.setCenter (← floatBits? x) (← floatBits? y))
  | ["setc_other"] => some .setCenterOther
  | ["reads"] => some .readStereo
  | ["reado"] => some .readOrtho
  | ["dup"] => some .duplicate
  | _ => none

def showCompassOut : CompassObj.Out Float → String
  | .done => "done"
  | .refused .assert => "err:assert"
  | .refused .value => "err:value"
  | .circles cx cy radii =>
    s!"circles:{showFloatBits cx}:{showFloatBits cy}:" ++ ",".intercalate (radii.map showFloatBits)

def floats? (l : List String) : Option (List Float) := l.mapM floatBits?

def handle (toks : List String) : String :=
  match toks with
  | ["rows", n] =>
    match n.toInt? with
    | some n => "ok " ++ showNats (Dome.rowCounts n)
    | none => "bad-op"
  | ["layout", n, ip] =>
    match n.toInt?, bool? ip with
    | some n, some ip =>
      let rows := Dome.rowCounts n
      s!"ok {rows.length} {Dome.meshAngleDen rows.length n ip} " ++ showNats rows
    | _, _ => "bad-op"
  | ["dome", n, ip] =>
    match n.toInt?, bool? ip with
    | some n, some ip => showShape (Dome.domeShape n ip)
    | _, _ => "bad-op"
  | ["sphere", n, ip] =>
    match n.toInt?, bool? ip with
    | some n, some ip => showShape (Dome.sphereShape n ip)
    | _, _ => "bad-op"
  | ["radial", az, alt] =>
    match az.toNat?, alt.toNat? with
    | some az, some alt => showShape (Dome.radialShape az alt)
    | _, _ => "bad-op"
  | ["areas", n, ip] =>
    match n.toInt?, bool? ip with
    | some n, some ip =>
      match areasF n ip with
      | some (a, _) => "ok " ++ showFloats a
      | none => "err:zero"
    | _, _ => "bad-op"
  | ["weights", n, ip] =>
    match n.toInt?, bool? ip with
    | some n, some ip =>
      let rows := Dome.rowCounts n
      let den := Dome.areaAngleDen rows.length n ip
      if den = 0 then "err:zero" else
      "ok " ++ showFloats (Dome.domeWeights twoPi (sinSeq (pi / Float.ofInt den) rows.length) rows)
    | _, _ => "bad-op"
  | ["sphere_weights", n, ip] =>
    match n.toInt?, bool? ip with
    | some n, some ip =>
      let rows := Dome.rowCounts n
      let den := Dome.areaAngleDen rows.length n ip
      if den = 0 then "err:zero" else
      "ok " ++ showFloats (Dome.sphereWeights twoPi (sinSeq (pi / Float.ofInt den) rows.length) rows)
    | _, _ => "bad-op"
  | ["radial_weights", az, alt] =>
    match az.toNat?, alt.toNat? with
    | some az, some alt =>
      if alt = 0 ∨ az = 0 then "err:zero" else
      "ok " ++ showFloats (Dome.radialWeights twoPi (sinSeq (pi / Float.ofNat (2 * alt)) alt) az alt)
    | _, _ => "bad-op"
  | ["offset_count", bits, n, ip] =>
    match floatBits? bits, n.toInt?, bool? ip with
    | some x, some n, some ip =>
      match offsetCount x n ip with
      | .ok k => s!"ok {k}"
      | .error e => showErr e
    | _, _, _ => "bad-op"
  | ["offset_patches", bits, n, ip] =>
    -- horizontal_radial_patches: (len(vectors), len(mesh.faces)); an empty band fails in Mesh3D
    match floatBits? bits, n.toInt?, bool? ip with
    | some x, some n, some ip =>
      match offsetCount x n ip, Dome.domeShape n ip with
      | .error e, _ => showErr e
      | _, .error e => showErr e
      | .ok k, .ok _ => if k = 0 then "err:assert" else s!"ok {2 * k} {2 * k}"
    | _, _, _ => "bad-op"
  | ["offset_weights", bits, n, ip] =>
    match floatBits? bits, n.toInt?, bool? ip with
    | some x, some n, some ip =>
      match areasF n ip with
      | none => "err:zero"
      | some (_, rows) =>
        match offsetCount x n ip with
        | .error e => showErr e
        | .ok k =>
          let den := Dome.areaAngleDen rows.length n ip
          let rel := (Dome.patchAreas twoPi (sinSeq (pi / Float.ofInt den) rows.length) rows).take k
          if rel.length = 0 then "err:zero" else
          "ok " ++ showFloats (Dome.offsetWeights twoPi (sinSeq (pi / Float.ofInt den) rows.length) rows k)
    | _, _, _ => "bad-op"
  | "lazy_reads" :: seq =>
    match seq.mapM lazyProp? with
    | some ps => "ok " ++ joinSp ((Dome.lazyReadSeq Dome.LState.empty ps).map showContent)
    | none => "bad-op"
  | "sa_reads" :: seq =>
    match seq.mapM bool? with
    | some bs => "ok " ++ joinSp ((Dome.readSeq {} bs).map showTable)
    | none => "bad-op"
  | "hist" :: toks =>
    match toks.mapM histOp? with
    | some ops => "ok " ++ joinSp ((Dome.runOuts ans Dome.LState.empty ops).map showOut)
    | none => "bad-op"
  | "chist" :: r0 :: cx0 :: cy0 :: toks =>
    match floatBits? r0, floatBits? cx0, floatBits? cy0, toks.mapM compassOp? with
    | some r, some cx, some cy, some ops =>
      let st : CompassObj.St Float := ⟨r, cx, cy, 0.0, 0.15⟩
      "ok " ++ joinSp ((CompassObj.runOuts compassStep st ops).map showCompassOut)
    | _, _, _, _ => "bad-op"
  | "ortho" :: rest =>
    match floats? rest with
    | some [x, y, z] => let p := Proj.ortho x y z; "ok " ++ showFloats [p.1, p.2]
    | _ => "bad-op"
  | "stereo" :: rest =>
    match floats? rest with
    | some [x, y, z, r, ox, oy, oz] =>
      if r + (z - oz) == 0.0 then "err:zero" else      -- Python float division raises
      let p := Proj.stereo x y z r ox oy oz; "ok " ++ showFloats [p.1, p.2]
    | _ => "bad-op"
  | "pos3d" :: rest =>
    match floats? rest with
    | some [vx, vy, vz, r, ox, oy, oz] =>
      let p := Proj.position3d vx vy vz r ox oy oz; "ok " ++ showFloats [p.1, p.2.1, p.2.2]
    | _ => "bad-op"
  | "pos2d_ortho" :: rest =>
    match floats? rest with
    | some [vx, vy, vz, r, ox, oy] =>
      let p := Proj.position2dOrtho vx vy vz r ox oy; "ok " ++ showFloats [p.1, p.2]
    | _ => "bad-op"
  | "pos2d_stereo" :: rest =>
    match floats? rest with
    | some [vx, vy, vz, r, ox, oy] =>
      if r + ((vz * r + 0.0) - 0.0) == 0.0 then "err:zero" else
      let p := Proj.position2dStereo vx vy vz r ox oy; "ok " ++ showFloats [p.1, p.2]
    | _ => "bad-op"
  | _ => "bad-op"

end DrvC20

def main : IO Unit := Drv.run DrvC20.handle
