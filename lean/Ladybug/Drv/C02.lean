/-
  Model driver for C02 (filters of datacollection.py / _datacollectionbase.py).  Line protocol: see
  DrvCore.  Mathlib-free.

  A period is 8 tokens  st_month st_day st_hour end_month end_day end_hour timestep leap  (the fields
  as stored by a constructed `AnalysisPeriod`; a period that is not well-formed answers `bad-op`).
  Continuous sources carry the values 0, 1, 2, … (position ids) unless the op sends values;
  keyed sources carry position ids unless the op sends (key, value) pairs.
  Keyed ops take the `validated_a_period` flag (0|1) of the source right after its period.
  Answers:  `ok D <period> <validated> <n> k1 v1 k2 v2 …`  (keyed / discontinuous result),
            `ok C <period> <n> v1 v2 …`         (continuous result),  `err:<class>`.

  Histories on one object (Model/FilterObj.lean):
    hists … = hist on a tree whose continuous class refuses an in-place cull to a non-dividing timestep
    hist <kind c|d|y|m> <mutable 0|1> <period> <validated 0|1> <n keys…> <n values…> <nops> <op>…
  with ops   read <R> | chain <R> | setv <n values…> | setbad <k> | seti <i> <v> | cull <ts> | dup | toimm |
             tomut | todisc
  and reads  keys <n ints…> | hoys <n floatbits…> | period <period> | pattern <n 0|1…> | range <lo|N> <hi|N> |
             stmt <code> <x> <y> <z> | all
  (keys of a continuous object are ignored: send 0).  Answer: one item per op joined by ` | `: a result as
  above (`ok A <kind> <period> <validated> <n> k v …` for `all`), `done`, or `err:<class>`; `bad-op` when
  the initial object cannot be constructed.
-/
import Ladybug.DrvCore
import Ladybug.Model.Filter
import Ladybug.Model.FilterObj

open Drv Cal Filter

namespace DrvC02

abbrev P := StateT (List String) Option

def tok : P String := do
  match (← get) with
  | [] => failure
  | t :: ts => set ts; pure t

def pInt : P Int := do
  match (← tok).toInt? with
  | some v => pure v
  | none => failure
def pNat : P Nat := do
  match (← tok).toNat? with
  | some v => pure v
  | none => failure

def pOptInt : P (Option Int) := do
  let t ← tok
  if t = "N" then pure none else
    match t.toInt? with
    | some v => pure (some v)
    | none => failure

def pList {β : Type} (p : P β) : P (List β) := do
  let n ← pNat
  let rec go : Nat → List β → P (List β)
    | 0, acc => pure acc.reverse
    | k + 1, acc => do
      let x ← p
      go k (x :: acc)
  go n []

def pAP : P AP := do
  let a ← pNat; let b ← pNat; let c ← pNat; let d ← pNat; let e ← pNat; let f ← pNat; let g ← pNat
  let l ← pNat
  let ap : AP := ⟨a, b, c, d, e, f, g, l != 0⟩
  if ap.WF then pure ap else failure

def pBool : P Bool := do
  let n ← pNat
  pure (n != 0)

def pTriple : P (Nat × Nat × Nat) := do
  let a ← pNat; let b ← pNat; let c ← pNat
  pure (a, b, c)

def pFloat : P Float := do
  match floatBits? (← tok) with
  | some f => pure f
  | none => failure

def pEnd : P Unit := do
  match (← get) with
  | [] => pure ()
  | _ => failure

def showErr : FErr → String
  | .assert => "err:assert"
  | .index => "err:index"
  | .zero => "err:zero"

def showAP (ap : AP) : String :=
  s!"{ap.st_month} {ap.st_day} {ap.st_hour} {ap.end_month} {ap.end_day} {ap.end_hour} {ap.timestep} {showBool ap.leap}"

def showKeyed {κ α : Type} (sk : κ → String) (sv : α → String) (r : Except FErr (Keyed κ α)) : String :=
  match r with
  | .error e => showErr e
  | .ok d => s!"ok D {showAP d.ap} {showBool d.validated} {d.pairs.length} " ++ joinSp (d.pairs.map fun p => sk p.1 ++ " " ++ sv p.2)

def showTriple (t : Nat × Nat × Nat) : String := s!"{t.1} {t.2.1} {t.2.2}"

def showRes {α : Type} (sv : α → String) (r : Except FErr (Res α)) : String :=
  match r with
  | .error e => showErr e
  | .ok (.disc d) => showKeyed (toString : Nat → String) sv (.ok d)
  | .ok (.cont c) => s!"ok C {showAP c.ap} {c.vals.length} " ++ joinSp (c.vals.map sv)

/-- Continuous source with position ids as values. -/
def idCont (ap : AP) : Except FErr (Cont Nat) := Cont.mk? ap (List.range ap.len)

/-- Keyed source with position ids as values. -/
def idKeyed {κ : Type} (ap : AP) (v : Bool) (keys : List κ) : Keyed κ Nat :=
  ⟨ap, keys.zip (List.range keys.length), v⟩

def ratOfFloat (f : Float) : Option Rat := Py.ratOfFloatBits f.toBits

/-- Exact value of the float `m / 60.0` (an entry of `AnalysisPeriod.hoys`). -/
def hoyOf (m : Nat) : Rat := (ratOfFloat (Float.ofNat m / 60.0)).getD 0

/-- (exact hour, exact IEEE product hour * 60) of a requested float hour. -/
def hourPair (h : Float) : Option (Rat × Rat) := do
  let a ← ratOfFloat h
  let b ← ratOfFloat (h * 60.0)
  pure (a, b)

/-- The statements the harness uses, by code:
    0 `a > x`   1 `a % y == z`   2 `a > x and a % y == z`   3 `a < x or a > y`. -/
def stmt (code : Nat) (x y z : Int) (a : Int) : Bool :=
  match code with
  | 0 => decide (x < a)
  | 1 => Py.mod a y == z
  | 2 => decide (x < a) && Py.mod a y == z
  | _ => decide (a < x) || decide (y < a)

def pPairs : P (List (Nat × Int)) := pList (do let k ← pNat; let v ← pInt; pure (k, v))

def showN : Nat → String := toString
def showI : Int → String := toString

def run (op : String) : P String := do
  match op with
  | "cont_moys" =>
    let ap ← pAP; let req ← pList pInt; pEnd
    pure (showKeyed showN showN ((idCont ap).bind (Cont.filterByMoys req)))
  | "cont_ap" =>
    let ap ← pAP; let f ← pAP; pEnd
    pure (showRes showN ((idCont ap).bind (Cont.filterByAP f)))
  | "cont_hoys" =>
    let ap ← pAP; let hs ← pList pFloat; pEnd
    match hs.mapM hourPair with
    | none => failure
    | some hp => pure (showKeyed showN showN ((idCont ap).bind (Cont.filterByHoys hoyOf hp)))
  | "cont_pattern" =>
    let ap ← pAP; let pat ← pList pBool; pEnd
    pure (showKeyed showN showN ((idCont ap).bind (Cont.filterByPattern pat)))
  | "cont_range" =>
    let ap ← pAP; let lo ← pOptInt; let hi ← pOptInt; let vals ← pList pInt; pEnd
    pure (showKeyed showN showI ((Cont.mk? ap vals).bind (Cont.filterByRange lo hi)))
  | "cont_stmt" =>
    let ap ← pAP; let code ← pNat; let x ← pInt; let y ← pInt; let z ← pInt; let vals ← pList pInt; pEnd
    if y = 0 then failure
    pure (showKeyed showN showI ((Cont.mk? ap vals).bind (Cont.filterByPred (stmt code x y z))))
  | "disc_moys" =>
    let ap ← pAP; let v ← pBool; let keys ← pList pNat; let req ← pList pInt; pEnd
    pure (showKeyed showN showN (Disc.filterByMoys req (idKeyed ap v keys)))
  | "disc_ap" =>
    let ap ← pAP; let v ← pBool; let keys ← pList pNat; let f ← pAP; pEnd
    pure (showKeyed showN showN (Disc.filterByAP f (idKeyed ap v keys)))
  | "disc_hoys" =>
    let ap ← pAP; let v ← pBool; let keys ← pList pNat; let hs ← pList pFloat; pEnd
    match hs.mapM hourPair with
    | none => failure
    | some hp => pure (showKeyed showN showN (Disc.filterByHoys (hp.map (·.2)) (idKeyed ap v keys)))
  | "keyed_pattern" =>
    let ap ← pAP; let v ← pBool; let keys ← pList pNat; let pat ← pList pBool; pEnd
    pure (showKeyed showN showN (Keyed.filterByPattern pat (idKeyed ap v keys)))
  | "keyed_range" =>
    let ap ← pAP; let v ← pBool; let lo ← pOptInt; let hi ← pOptInt; let ps ← pPairs; pEnd
    pure (showKeyed showN showI (Keyed.filterByRange lo hi ⟨ap, ps, v⟩))
  | "keyed_stmt" =>
    let ap ← pAP; let v ← pBool; let code ← pNat; let x ← pInt; let y ← pInt; let z ← pInt; let ps ← pPairs; pEnd
    if y = 0 then failure
    pure (showKeyed showN showI (Keyed.filterByPred (stmt code x y z) ⟨ap, ps, v⟩))
  | "keys" =>
    let ap ← pAP; let v ← pBool; let keys ← pList pNat; let req ← pList pNat; pEnd
    pure (showKeyed showN showN (Keyed.filterByKeys req (idKeyed ap v keys)))
  | "daily_ap" =>
    let ap ← pAP; let v ← pBool; let keys ← pList pNat; let f ← pAP; pEnd
    pure (showKeyed showN showN (dailyFilterByAP f (idKeyed ap v keys)))
  | "monthly_ap" =>
    let ap ← pAP; let v ← pBool; let keys ← pList pNat; let f ← pAP; pEnd
    pure (showKeyed showN showN (monthlyFilterByAP f (idKeyed ap v keys)))
  | "mph_keys" =>
    let ap ← pAP; let v ← pBool; let keys ← pList pTriple; let req ← pList pTriple; pEnd
    pure (showKeyed showTriple showN (Keyed.filterByKeys req (idKeyed ap v keys)))
  | "mph_ap" =>
    let ap ← pAP; let v ← pBool; let keys ← pList pTriple; let f ← pAP; pEnd
    pure (showKeyed showTriple showN (mphFilterByAP f (idKeyed ap v keys)))
  | "ap_subset" =>
    let ap ← pAP; let f ← pAP; pEnd
    pure ("ok " ++ showAP (apSubset ap f))
  | _ => failure

/-! ### Histories on one object -/

def pKind : P Kind := do
  match (← tok) with
  | "c" => pure .cont
  | "d" => pure .disc
  | "y" => pure .daily
  | "m" => pure .monthly
  | _ => failure

def showKind : Kind → String
  | .cont => "c" | .disc => "d" | .daily => "y" | .monthly => "m"

def pRead : P Read := do
  match (← tok) with
  | "keys" => let req ← pList pInt; pure (.keys req)
  | "hoys" =>
    let hs ← pList pFloat
    match hs.mapM hourPair with
    | none => failure
    | some hp => pure (.hoys hp)
  | "period" => let f ← pAP; pure (.period f)
  | "pattern" => let pat ← pList pBool; pure (.pattern pat)
  | "range" => let lo ← pOptInt; let hi ← pOptInt; pure (.range lo hi)
  | "stmt" =>
    let code ← pNat; let x ← pInt; let y ← pInt; let z ← pInt
    if y = 0 then failure
    pure (.pred (stmt code x y z))
  | "all" => pure .all
  | _ => failure

def pOp : P Op := do
  match (← tok) with
  | "read" => let r ← pRead; pure (.read r)
  | "chain" => let r ← pRead; pure (.chain r)
  | "setv" => let vs ← pList pInt; pure (.setValues vs)
  | "setbad" => let k ← pNat; pure (.setBad k)
  | "seti" => let i ← pInt; let v ← pInt; pure (.setItem i v)
  | "cull" => let ts ← pNat; pure (.cull ts)
  | "dup" => pure .dup
  | "toimm" => pure .toImmutable
  | "tomut" => pure .toMutable
  | "todisc" => pure .toDisc
  | _ => failure

def showOErr : OErr → String
  | .assert => "err:assert" | .index => "err:index" | .zero => "err:zero"
  | .attr => "err:attr" | .type => "err:type" | .value => "err:value"

def showOut (isAll : Bool) : Out → String
  | .keyed k ap v ps =>
    (if isAll then s!"ok A {showKind k} " else "ok D ") ++
      s!"{showAP ap} {showBool v} {ps.length} " ++ joinSp (ps.map fun p => showN p.1 ++ " " ++ showI p.2)
  | .cont ap vs => s!"ok C {showAP ap} {vs.length} " ++ joinSp (vs.map showI)
  | .err e => showOErr e
  | .done => "done"

def opIsAll : Op → Bool
  | .read .all => true
  | .chain .all => true
  | _ => false

def runHist (strict : Bool) : P String := do
  let kind ← pKind; let mutable ← pBool; let ap ← pAP; let v ← pBool
  let keys ← pList pNat; let vals ← pList pInt
  let ops ← pList pOp; pEnd
  match Obj.mk? kind mutable ap keys vals v with
  | none => failure
  | some o =>
    let outs := (Filter.runS strict hoyOf o ops).2
    pure (" | ".intercalate ((ops.zip outs).map fun x => showOut (opIsAll x.1) x.2))

def handle (toks : List String) : String :=
  match toks with
  | [] => "bad-op"
  | op :: rest =>
    match (if op = "hist" then runHist false else if op = "hists" then runHist true else run op).run rest with
    | some (s, _) => s
    | none => "bad-op"

end DrvC02

def main : IO Unit := Drv.run DrvC02.handle
