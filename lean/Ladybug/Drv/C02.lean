/- Model driver for C02 (stub: no ops yet). -/
import Ladybug.DrvCore

namespace DrvC02
def handle (_toks : List String) : String := "bad-op"
end DrvC02

def main : IO Unit := Drv.run DrvC02.handle
