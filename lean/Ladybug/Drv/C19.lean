/- Model driver for C19 (stub: no ops yet). -/
import Ladybug.DrvCore

namespace DrvC19
def handle (_toks : List String) : String := "bad-op"
end DrvC19

def main : IO Unit := Drv.run DrvC19.handle
