/-
  Model driver for C19 (sql.py).  Line protocol: see DrvCore.  Imports only Mathlib-free files.

  Strings travel as single tokens: `^` is the empty string, `~` stands for a blank.
  A request history on one object:  hist <k> <op>*k <database>  with ops  `qa <query>` (all periods),
  `qr <name> <env>` (one run period), `qv <query>` (values), `ao` / `ai` / `rf` / `ri` (property reads:
  available_outputs, available_outputs_info, reporting_frequency, run_period_indices), `bad` (a request
  the code refuses); it is executed by the object state machine `Sql.step` (Model/SqlObj.lean) and
  answers the observations of all steps, separated by `;;`.
  A database is written as   D <n> (idx group key name freq units)*  T <n> (idx year month day
  interval itype env)*  R <n> (timeIndex dictIndex value)*   with integer values (distinct ids).
-/
import Ladybug.DrvCore
import Ladybug.Model.Sql
import Ladybug.Model.SqlObj

open Drv Sql

namespace DrvC19

def dec (s : String) : String := if s = "^" then "" else s.replace "~" " "
def enc (s : String) : String := if s = "" then "^" else s.replace " " "~"

def showErr : Err → String
  | .value => "err:value"
  | .index => "err:index"
  | .type => "err:type"
  | .attr => "err:attr"
  | .assert => "err:assert"
  | .zero => "err:zero"
  | .unmodelled => "unmodelled"

def showVals (l : List Rat) : String := joinSp (l.map fun v => "v" ++ showRat v)

def showCols (r : Except Err (List (List Rat))) : String :=
  match r with
  | .error e => showErr e
  | .ok cols => joinSp ("ok" :: cols.map fun c => "| " ++ toString c.length ++ " " ++ showVals c)

def showDType : DType → String
  | .base n => "base " ++ enc n
  | .generic n => "generic " ++ enc n

def showPeriod (p : Period) : String :=
  s!"{p.stMonth} {p.stDay} {p.stHour} {p.endMonth} {p.endDay} {p.endHour} {p.timestep} {showBool p.leap}"

def showKind : Kind → String
  | .hourly => "HourlyContinuous"
  | .daily => "Daily"
  | .monthly => "Monthly"

def showColl (c : Coll Rat) : String :=
  joinSp ["C", showKind c.kind, showDType c.dtype, enc c.unit, "P", showPeriod c.period,
    "M", enc c.metaType, enc c.objType, enc c.key,
    "V", toString c.values.length, showVals c.values,
    "T", toString c.datetimes.length, showNats c.datetimes]

def showResult (r : Except Err (Result Rat)) : String :=
  match r with
  | .error e => showErr e
  | .ok (.colls cs) => joinSp ("ok colls" :: toString cs.length :: cs.map showColl)
  | .ok (.annual vs) => joinSp ["ok annual", toString vs.length, showVals vs]

/-- Take `k` tokens (tail recursive). -/
def takeToks (k : Nat) (ts : List String) : Option (Array String × List String) :=
  let rec go (k : Nat) (ts : List String) (acc : Array String) : Option (Array String × List String) :=
    match k, ts with
    | 0, ts => some (acc, ts)
    | k + 1, t :: ts => go k ts (acc.push t)
    | _ + 1, [] => none
  go k ts #[]

def parseDictRows (a : Array String) : Option (List DictRow) :=
  (List.range (a.size / 6)).mapM fun i => do
    let idx ← (a[6 * i]?).bind String.toNat?
    let g ← a[6 * i + 1]?
    let k ← a[6 * i + 2]?
    let nm ← a[6 * i + 3]?
    let f ← a[6 * i + 4]?
    let u ← a[6 * i + 5]?
    pure ⟨idx, dec g, dec k, dec nm, dec f, dec u⟩

def parseTimeRows (a : Array String) : Option (List TimeRow) :=
  (List.range (a.size / 7)).mapM fun i => do
    let idx ← (a[7 * i]?).bind String.toNat?
    let y ← (a[7 * i + 1]?).bind String.toNat?
    let m ← (a[7 * i + 2]?).bind String.toNat?
    let d ← (a[7 * i + 3]?).bind String.toNat?
    let iv ← (a[7 * i + 4]?).bind String.toNat?
    let it ← (a[7 * i + 5]?).bind String.toInt?
    let e ← (a[7 * i + 6]?).bind String.toNat?
    pure ⟨idx, y, m, d, iv, it, e⟩

def parseDataRows (a : Array String) : Option (List (DataRow Rat)) :=
  (List.range (a.size / 3)).mapM fun i => do
    let t ← (a[3 * i]?).bind String.toNat?
    let d ← (a[3 * i + 1]?).bind String.toNat?
    let v ← (a[3 * i + 2]?).bind String.toInt?
    pure ⟨t, d, (v : Rat)⟩

/-- Parse `D n … T n … R n …`. -/
def parseDB (ts : List String) : Option (DB Rat) :=
  match ts with
  | "D" :: n :: ts => do
    let n ← n.toNat?
    let (da, ts) ← takeToks (6 * n) ts
    match ts with
    | "T" :: m :: ts => do
      let m ← m.toNat?
      let (ta, ts) ← takeToks (7 * m) ts
      match ts with
      | "R" :: k :: ts => do
        let k ← k.toNat?
        let (ra, ts) ← takeToks (3 * k) ts
        if !ts.isEmpty then none else
        let d ← parseDictRows da
        let t ← parseTimeRows ta
        let r ← parseDataRows ra
        pure ⟨d, t, r⟩
      | _ => none
    | _ => none
  | _ => none

/-- Parse `<s|l> <count> names…` and return the rest. -/
def parseQuery (ts : List String) : Option (NameQuery × List String) :=
  match ts with
  | "s" :: n :: rest => some (.single (dec n), rest)
  | "l" :: k :: rest => do
    let k ← k.toNat?
    let (ns, rest) ← takeToks k rest
    pure (.many (ns.toList.map dec), rest)
  | _ => none

def ratsOf (ts : List String) : Option (List Rat) := ts.mapM fun t => (fun (i : Int) => (i : Rat)) <$> t.toInt?

def showInfo (i : OutInfo) : String :=
  enc i.name ++ "|" ++ enc i.objectType ++ "|" ++ enc i.units ++ "|" ++
    (match i.dtype with
     | .base n => "base:" ++ enc n
     | .generic n => "generic:" ++ enc n)

def showOut (uniform : Bool) : Out Rat → String
  | .result r => showResult (.ok r)
  | .values l => joinSp ["ok", showVals l]
  | .names l => joinSp ("ok names" :: toString l.length :: l.map enc)
  | .infos l => joinSp ("ok infos" :: toString l.length :: l.map showInfo)
  | .freq f =>
    let body := match f with
      | none => "ok rf none"
      | some (.label s) => "ok rf label " ++ enc s
      | some (.steps n) => "ok rf steps " ++ toString n
    if uniform then body else body ++ " ambiguous"
  | .indices l => joinSp ["ok ri", toString l.length, showNats l]
  | .error e => showErr e

/-- Parse `k` history ops; the rest is the database. -/
def parseOps : Nat → List String → Option (List Op × List String)
  | 0, ts => some ([], ts)
  | k + 1, "qa" :: ts => do
    let (q, rest) ← parseQuery ts
    let (ops, rest) ← parseOps k rest
    pure (.queryAll q :: ops, rest)
  | k + 1, "qv" :: ts => do
    let (q, rest) ← parseQuery ts
    let (ops, rest) ← parseOps k rest
    pure (.values q :: ops, rest)
  | k + 1, "qr" :: name :: env :: ts => do
    let env ← env.toNat?
    let (ops, rest) ← parseOps k ts
    pure (.queryRunPeriod (dec name) env :: ops, rest)
  | k + 1, "ao" :: ts => do
    let (ops, rest) ← parseOps k ts
    pure (.availableOutputs :: ops, rest)
  | k + 1, "ai" :: ts => do
    let (ops, rest) ← parseOps k ts
    pure (.availableOutputsInfo :: ops, rest)
  | k + 1, "rf" :: ts => do
    let (ops, rest) ← parseOps k ts
    pure (.reportingFrequency :: ops, rest)
  | k + 1, "ri" :: ts => do
    let (ops, rest) ← parseOps k ts
    pure (.runPeriodIndices :: ops, rest)
  | k + 1, "bad" :: ts => do
    let (ops, rest) ← parseOps k ts
    pure (.malformed :: ops, rest)
  | _, _ => none

def handle (toks : List String) : String :=
  match toks with
  | "part" :: n :: vals =>
    match n.toNat?, ratsOf vals with
    | some n, some vs => showCols (partition vs n)
    | _, _ => "bad-op"
  | "partconv" :: n :: vals =>
    match n.toNat?, ratsOf vals with
    | some n, some vs => showCols (partition (vs.map jToKWh) n)
    | _, _ => "bad-op"
  | "partc" :: m :: rest =>
    match m.toNat? with
    | some m =>
      match takeToks m rest with
      | some (cs, vals) =>
        match nats cs.toList, ratsOf vals with
        | some cs, some vs => showCols (partitionChunks vs cs)
        | _, _ => "bad-op"
      | none => "bad-op"
    | none => "bad-op"
  | "partcconv" :: m :: rest =>
    match m.toNat? with
    | some m =>
      match takeToks m rest with
      | some (cs, vals) =>
        match nats cs.toList, ratsOf vals with
        | some cs, some vs => showCols (partitionChunks (vs.map jToKWh) cs)
        | _, _ => "bad-op"
      | none => "bad-op"
    | none => "bad-op"
  | "accum" :: cs =>
    match nats cs with
    | some cs => "ok " ++ showNats (accumulate cs)
    | none => "bad-op"
  | ["dtype", unit, name] =>
    let r := dataTypeFromUnit (dec unit) (dec name)
    "ok " ++ showDType r.1 ++ " " ++ enc r.2
  | ["period", y1, m1, d1, iv, it, e1, y2, m2, d2, e2] =>
    match y1.toNat?, m1.toNat?, d1.toNat?, iv.toNat?, it.toInt?, e1.toNat?, y2.toNat?, m2.toNat?,
        d2.toNat?, e2.toNat? with
    | some y1, some m1, some d1, some iv, some it, some e1, some y2, some m2, some d2, some e2 =>
      match extractRunPeriodRows (some ⟨1, y1, m1, d1, iv, it, e1⟩) (some ⟨2, y2, m2, d2, iv, it, e2⟩) with
      | .error e => showErr e
      | .ok (p, f, mult) =>
        let fs := match f with
          | .steps n => toString n
          | .daily => "Daily"
          | .monthly => "Monthly"
          | .annual => "Annual"
        let ps := match p with
          | none => "none"
          | some p => showPeriod p ++ " len " ++ toString p.len ++ " doys " ++ toString p.doys.length
              ++ " months " ++ toString p.months.length
        "ok " ++ fs ++ " " ++ showBool mult ++ " " ++ ps
    | _, _, _, _, _, _, _, _, _, _ => "bad-op"
  | "qall" :: rest =>
    match parseQuery rest with
    | some (q, rest) =>
      match parseDB rest with
      | some db => showResult (queryAll jToKWh db q)
      | none => "bad-op"
    | none => "bad-op"
  | "vals" :: rest =>
    match parseQuery rest with
    | some (q, rest) =>
      match parseDB rest with
      | some db => joinSp ["ok", showVals (valuesByName db q)]
      | none => "bad-op"
    | none => "bad-op"
  | "hist" :: k :: rest =>
    match k.toNat? with
    | some k =>
      match parseOps k rest with
      | some (ops, rest) =>
        match parseDB rest with
        | some db =>
          let outs := (run jToKWh (Obj.fresh db) ops).2
          String.intercalate " ;; " (outs.map (showOut (uniformLabel db.dict)))
        | none => "bad-op"
      | none => "bad-op"
    | none => "bad-op"
  | "qrp" :: name :: env :: rest =>
    match env.toNat?, parseDB rest with
    | some env, some db => showResult (queryRunPeriod jToKWh db (dec name) env)
    | _, _ => "bad-op"
  | _ => "bad-op"

end DrvC19

def main : IO Unit := Drv.run DrvC19.handle
