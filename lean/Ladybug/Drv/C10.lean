/- Model driver for C10 (stub: no ops yet). -/
import Ladybug.DrvCore

namespace DrvC10
def handle (_toks : List String) : String := "bad-op"
end DrvC10

def main : IO Unit := Drv.run DrvC10.handle
