/-
  Model driver for C10 (skymodel.py, Wea / design-day irradiance formulas).
  Line protocol: see DrvCore.  Floats travel as 16-hex-digit IEEE bit patterns; an optional float is
  a bit pattern or the token `none`.  Imports only Mathlib-free files.
-/
import Ladybug.DrvCore
import Ladybug.Model.Sky

open Drv Sky

namespace DrvC10

def showErr : Err → String
  | .value => "err:value"
  | .zero => "err:zero"
  | .index => "err:index"
  | .type => "err:type"

def fl (s : String) : Option Float := floatBits? s

def fls (l : List String) : Option (List Float) := l.mapM fl

/-- optional float: `none` or bits -/
def ofl (s : String) : Option (Option Float) :=
  if s = "none" then some none else (fun x => some x) <$> fl s

def sf (x : Float) : String := showFloatBits x

def sof (x : Option Float) : String :=
  match x with
  | some v => sf v
  | none => "none"

def ok2 (r : Except Err (Float × Float)) : String :=
  match r with
  | .ok p => s!"ok {sf p.1} {sf p.2}"
  | .error e => showErr e

def ok3 (r : Except Err (Float × Float × Float)) : String :=
  match r with
  | .ok p => s!"ok {sf p.1} {sf p.2.1} {sf p.2.2}"
  | .error e => showErr e

def ok4 (r : Except Err (Float × Float × Float × Float)) : String :=
  match r with
  | .ok p => s!"ok {sf p.1} {sf p.2.1} {sf p.2.2.1} {sf p.2.2.2}"
  | .error e => showErr e

def ok1 (r : Except Err Float) : String :=
  match r with
  | .ok p => "ok " ++ sf p
  | .error e => showErr e

/-- Split a list into consecutive chunks of length `k`. -/
def chunks (k : Nat) (l : List Float) : List (List Float) :=
  if k = 0 then [] else
  let rec go (fuel : Nat) (l : List Float) (acc : List (List Float)) : List (List Float) :=
    match fuel with
    | 0 => acc.reverse
    | fuel + 1 => if l.isEmpty then acc.reverse else go fuel (l.drop k) (l.take k :: acc)
  go (l.length + 1) l []

def handle (toks : List String) : String :=
  match toks with
  | ["relam", model, alt] =>
    match fl alt with
    | some a =>
      match AmModel.ofString? model.toLower with
      | some m =>
        match relativeAirmass a m with
        | .ok r => "ok " ++ sof r
        | .error e => showErr e
      | none => if a < 0.0 then "ok none" else "err:value"
    | none => "bad-op"
  | ["absam", am, p] =>
    match ofl am, fl p with
    | some am, some p => "ok " ++ sof (absoluteAirmass am p)
    | _, _ => "bad-op"
  | ["extra", doy, sc] =>
    match fl doy, fl sc with
    | some d, some s => "ok " ++ sf (extraRadiation d s)
    | _, _ => "bad-op"
  | ["kt", ghi, alt, ex, ms, mk] =>
    match fls [ghi, alt, ex, ms, mk] with
    | some [ghi, alt, ex, ms, mk] => "ok " ++ sf (clearnessIndex ghi alt ex ms mk)
    | _ => "bad-op"
  | ["ktp", kt, am, mk] =>
    match fl kt, ofl am, fl mk with
    | some kt, some am, some mk => ok1 (ktPrime kt am mk)
    | _, _, _ => "bad-op"
  | ["disckn", kt, am, mx] =>
    match fls [kt, am, mx] with
    | some [kt, am, mx] => let r := discKn kt am mx; s!"ok {sf r.1} {sf r.2}"
    | _ => "bad-op"
  | ["disc", ghi, alt, doy, p, ms, ma, mx] =>
    match fls [ghi, alt, doy, ms, ma, mx], ofl p with
    | some [ghi, alt, doy, ms, ma, mx], some p =>
      match disc ghi alt doy p ms ma mx with
      | .ok r => s!"ok {sf r.1} {sf r.2.1} {sof r.2.2}"
      | .error e => showErr e
    | _, _ => "bad-op"
  | "dirint" :: ud :: hd :: ms :: ma :: n :: rest =>
    match bool? ud, bool? hd, fl ms, fl ma, n.toNat?, fls rest with
    | some ud, some hd, some ms, some ma, some n, some xs =>
      if xs.length ≠ (if hd then 5 else 4) * n then "bad-op" else
      let ghi := xs.take n
      let alt := (xs.drop n).take n
      let doy := (xs.drop (2 * n)).take n
      let p := (xs.drop (3 * n)).take n
      let dew : Option (List Float) := if hd then some ((xs.drop (4 * n)).take n) else none
      let rows : List (DRow Float) :=
        (ghi.zip (alt.zip (doy.zip p))).map fun x => (x.1, x.2.1, x.2.2.1, x.2.2.2)
      match dirint rows ud dew ms ma with
      | .ok r => "ok " ++ joinSp (r.map sf)
      | .error e => showErr e
    | _, _, _, _, _, _ => "bad-op"
  | ["cs", month, alt, cl] =>
    match month.toInt?, fl alt, fl cl with
    | some m, some a, some c => ok2 (clearSky1 a m c)
    | _, _, _ => "bad-op"
  | ["rcs", alt, tb, td, u] =>
    match fls [alt, tb, td], bool? u with
    | some [alt, tb, td], some u => ok2 (revisedClearSky1 alt tb td u)
    | _, _ => "bad-op"
  | ["zh", alt, cc, rh, t, t3, ws, irr] =>
    match fls [alt, cc, rh, t, t3, ws, irr] with
    | some [alt, cc, rh, t, t3, ws, irr] => "ok " ++ sf (zhangHuangSolar alt cc rh t t3 ws irr)
    | _ => "bad-op"
  | "zhsplit" :: ud :: n :: rest =>
    match bool? ud, n.toNat?, fls rest with
    | some ud, some n, some xs =>
      if xs.length ≠ 9 * n then "bad-op" else
      let rows := chunks 9 xs
      let zr : List (ZRow Float) := rows.filterMap fun r =>
        match r with
        | [alt, doy, cc, rh, t, t3, ws, p, _] => some ⟨alt, doy, cc, rh, t, t3, ws, p⟩
        | _ => none
      let dews : List Float := rows.filterMap fun r => r[8]?
      match zhSplit zr dews ud with
      | .ok r => "ok " ++ joinSp (r.map fun x => sf x.1 ++ " " ++ sf x.2)
      | .error e => showErr e
    | _, _, _ => "bad-op"
  | ["illum", alt, ghi, dni, dhi, dew, am] =>
    match fls [alt, ghi, dni, dhi, dew], ofl am with
    | some [alt, ghi, dni, dhi, dew], some am => ok4 (illuminance alt ghi dni dhi dew am)
    | _, _ => "bad-op"
  | ["hir", sc, db, dp] =>
    match fls [sc, db, dp] with
    | some [sc, db, dp] => ok1 (horizontalInfrared sc db dp)
    | _ => "bad-op"
  | ["skyt", hir, em] =>
    match fls [hir, em] with
    | some [hir, em] => ok1 (skyTemperature hir em)
    | _ => "bad-op"
  | ["ghi", sa, dnr, dhr] =>
    match fls [sa, dnr, dhr] with
    | some [sa, dnr, dhr] => "ok " ++ sf (globalHorizontal sa dnr dhr)
    | _ => "bad-op"
  | ["dirh", sa, dnr] =>
    match fls [sa, dnr] with
    | some [sa, dnr] => "ok " ++ sf (directHorizontal sa dnr)
    | _ => "bad-op"
  | ["dirirr", sa, sz, dnr, dhr, alt, az, refl, iso] =>
    match fls [sa, sz, dnr, dhr, alt, az, refl], bool? iso with
    | some [sa, sz, dnr, dhr, alt, az, refl], some iso =>
      ok4 (directional sa sz dnr dhr alt az refl iso)
    | _, _ => "bad-op"
  | ["ddcs", month, alt, cl] =>
    match month.toInt?, fl alt, fl cl with
    | some m, some a, some c => ok3 (designDayClearSky1 a m c)
    | _, _, _ => "bad-op"
  | ["ddtau", alt, tb, td, u] =>
    match fls [alt, tb, td], bool? u with
    | some [alt, tb, td], some u => ok3 (designDayTau1 alt tb td u)
    | _, _ => "bad-op"
  | _ => "bad-op"

end DrvC10

def main : IO Unit := Drv.run DrvC10.handle
