/-
  Model driver for C10 (skymodel.py, Wea / design-day irradiance formulas).
  Line protocol: see DrvCore.  Floats travel as 16-hex-digit IEEE bit patterns; an optional float is
  a bit pattern or the token `none`.  Imports only Mathlib-free files.
-/
import Ladybug.DrvCore
import Ladybug.Model.Sky
import Ladybug.Model.SkyObj
import Ladybug.Model.SkyList

open Drv Sky

namespace DrvC10

def showErr : Err → String
  | .value => "err:value"
  | .zero => "err:zero"
  | .index => "err:index"
  | .type => "err:type"

def fl (s : String) : Option Float := floatBits? s

def fls (l : List String) : Option (List Float) := l.mapM fl

/-- optional float: `none` or bits -/
def ofl (s : String) : Option (Option Float) :=
  if s = "none" then some none else (fun x => some x) <$> fl s

def sf (x : Float) : String := showFloatBits x

def sof (x : Option Float) : String :=
  match x with
  | some v => sf v
  | none => "none"

def ok2 (r : Except Err (Float × Float)) : String :=
  match r with
  | .ok p => s!"ok {sf p.1} {sf p.2}"
  | .error e => showErr e

def ok3 (r : Except Err (Float × Float × Float)) : String :=
  match r with
  | .ok p => s!"ok {sf p.1} {sf p.2.1} {sf p.2.2}"
  | .error e => showErr e

def ok4 (r : Except Err (Float × Float × Float × Float)) : String :=
  match r with
  | .ok p => s!"ok {sf p.1} {sf p.2.1} {sf p.2.2.1} {sf p.2.2.2}"
  | .error e => showErr e

def ok1 (r : Except Err Float) : String :=
  match r with
  | .ok p => "ok " ++ sf p
  | .error e => showErr e

/-- Split a list into consecutive chunks of length `k`. -/
def chunks (k : Nat) (l : List Float) : List (List Float) :=
  if k = 0 then [] else
  let rec go (fuel : Nat) (l : List Float) (acc : List (List Float)) : List (List Float) :=
    match fuel with
    | 0 => acc.reverse
    | fuel + 1 => if l.isEmpty then acc.reverse else go fuel (l.drop k) (l.take k :: acc)
  go (l.length + 1) l []

/-! ### histories on one object (round 3): `hwea`, `hsky` -/

def showOut (o : Out Float) : String :=
  match o with
  | .unit => "ok"
  | .vals l => if l.isEmpty then "ok" else "ok " ++ joinSp (l.map sf)
  | .err .assert => "err:assert"
  | .err .index => "err:index"
  | .err .refused => "err:refused"
  | .err (.sky e) => showErr e

def takeFloats (n : Nat) (toks : List String) : Option (List Float × List String) :=
  if toks.length < n then none else (fls (toks.take n)).map fun l => (l, toks.drop n)

def pairs : List Float → List (Float × Float)
  | a :: b :: r => (a, b) :: pairs r
  | _ => []

def parseWeaOps : Nat → List String → Option (List (WeaOp Float))
  | 0, _ => none
  | fuel + 1, toks =>
    match toks with
    | [] => some []
    | "G" :: r => (parseWeaOps fuel r).map (WeaOp.readGhi :: ·)
    | "H" :: r => (parseWeaOps fuel r).map (WeaOp.readDirH :: ·)
    | "D" :: a :: z :: rf :: iso :: r =>
      match fl a, fl z, fl rf, bool? iso with
      | some a, some z, some rf, some iso =>
        (parseWeaOps fuel r).map (WeaOp.readDirectional a z rf iso :: ·)
      | _, _, _, _ => none
    | "I" :: d :: r =>
      match fl d with
      | some d => (parseWeaOps fuel r).map (WeaOp.readIllum d :: ·)
      | none => none
    | "U" :: m :: r =>
      match fl m with
      | some m => (parseWeaOps fuel r).map (WeaOp.readSunUp m :: ·)
      | none => none
    | "L" :: k :: r =>
      match k.toNat? with
      | some k => (parseWeaOps fuel r).map (WeaOp.setLocation k :: ·)
      | none => none
    | "E" :: b :: r =>
      match bool? b with
      | some b => (parseWeaOps fuel r).map (WeaOp.setEnforce b :: ·)
      | none => none
    | "N" :: m :: r =>
      match m.toNat? with
      | some m =>
        match takeFloats m r with
        | some (vs, r') => (parseWeaOps fuel r').map (WeaOp.setDnr vs :: ·)
        | none => none
      | none => none
    | "F" :: m :: r =>
      match m.toNat? with
      | some m =>
        match takeFloats m r with
        | some (vs, r') => (parseWeaOps fuel r').map (WeaOp.setDhr vs :: ·)
        | none => none
      | none => none
    | "S" :: i :: v :: r =>
      match i.toNat?, fl v with
      | some i, some v => (parseWeaOps fuel r).map (WeaOp.setDnrAt i v :: ·)
      | _, _ => none
    | "T" :: i :: v :: r =>
      match i.toNat?, fl v with
      | some i, some v => (parseWeaOps fuel r).map (WeaOp.setDhrAt i v :: ·)
      | _, _ => none
    | "X" :: r => (parseWeaOps fuel r).map (WeaOp.refused :: ·)
    | _ => none

/-- `hwea <timestep> <n> <nloc> <sun tables: nloc x (on the hour, half hour) x n x (alt az)>
    <dnr x n> <dhr x n> <ops>`; the object starts at location 0 with enforce_on_hour = False. -/
def handleWea (ts n nloc : Nat) (rest : List String) : String :=
  match takeFloats (nloc * 2 * n * 2) rest with
  | none => "bad-op"
  | some (sunf, r1) =>
    match takeFloats n r1 with
    | none => "bad-op"
    | some (dnr, r2) =>
      match takeFloats n r2 with
      | none => "bad-op"
      | some (dhr, r3) =>
        match parseWeaOps (r3.length + 1) r3 with
        | none => "bad-op"
        | some ops =>
          let tables : List (List (Float × Float)) := (chunks (2 * n) sunf).map pairs
          let env : WeaEnv Float :=
            { nloc := nloc, suns := fun k h => (tables[k * 2 + (if h then 1 else 0)]?).getD [] }
          let o : WeaObj Float := WeaObj.fresh 0 false ts dnr dhr
          " | ".intercalate ((o.run env ops).2.map showOut)

def parseSkyOps : Nat → List String → Option (List (SkyOp Float))
  | 0, _ => none
  | fuel + 1, toks =>
    match toks with
    | [] => some []
    | "R" :: k :: r =>
      match k.toNat? with
      | some k => (parseSkyOps fuel r).map (SkyOp.readRadiation k :: ·)
      | none => none
    | "Q" :: r => (parseSkyOps fuel r).map (SkyOp.readDesignDay :: ·)
    | "C" :: v :: r =>
      match fl v with
      | some v => (parseSkyOps fuel r).map (SkyOp.setClearness v :: ·)
      | none => none
    | "B" :: v :: r =>
      match fl v with
      | some v => (parseSkyOps fuel r).map (SkyOp.setTauB v :: ·)
      | none => none
    | "W" :: v :: r =>
      match fl v with
      | some v => (parseSkyOps fuel r).map (SkyOp.setTauD v :: ·)
      | none => none
    | "V" :: b :: r =>
      match bool? b with
      | some b => (parseSkyOps fuel r).map (SkyOp.setUse2017 b :: ·)
      | none => none
    | "A" :: i :: r =>
      match i.toNat? with
      | some i => (parseSkyOps fuel r).map (SkyOp.setDate i :: ·)
      | none => none
    | "Y" :: b :: r =>
      match bool? b with
      | some b => (parseSkyOps fuel r).map (SkyOp.setDls b :: ·)
      | none => none
    | "P" :: k :: r =>
      match k.toNat? with
      | some k => (parseSkyOps fuel r).map (SkyOp.setDdLocation k :: ·)
      | none => none
    | "X" :: r => (parseSkyOps fuel r).map (SkyOp.refused :: ·)
    | _ => none

/-- `hsky <clear|tau> <ndate> <nloc> <month x ndate> <design-day period ok x ndate> <altitudes: ndate x (dls 0,1) x nloc x 24>
    <date> <dls> <clearness> <tau_b> <tau_d> <use_2017> <dd location> <ops>` -/
def handleSky (kind : SkyKind) (ndate nloc : Nat) (rest : List String) : String :=
  if rest.length < 2 * ndate then "bad-op" else
  match (rest.take ndate).mapM String.toInt?, ((rest.drop ndate).take ndate).mapM bool?,
        takeFloats (ndate * 2 * nloc * 24) (rest.drop (2 * ndate)) with
  | some months, some oks, some (altf, r1) =>
    match r1 with
    | d :: dls :: cl :: tb :: td :: u :: k :: r2 =>
      match d.toNat?, bool? dls, fls [cl, tb, td], bool? u, k.toNat?, parseSkyOps (r2.length + 1) r2 with
      | some d, some dls, some [cl, tb, td], some u, some k, some ops =>
        let tables : List (List Float) := chunks 24 altf
        let env : SkyEnv Float :=
          { nloc := nloc, ndate := ndate, month := fun i => (months[i]?).getD 0,
            ddPeriodOk := fun i => (oks[i]?).getD false,
            alts := fun i s j => (tables[(i * 2 + (if s then 1 else 0)) * nloc + j]?).getD [] }
        let o : SkyObj Float :=
          { kind := kind, date := d, dls := dls, clearness := cl, tb := tb, td := td, use2017 := u,
            ddLoc := k }
        " | ".intercalate ((o.run env ops).2.map showOut)
      | _, _, _, _, _, _ => "bad-op"
    | _ => "bad-op"
  | _, _, _ => "bad-op"

def handle (toks : List String) : String :=
  match toks with
  | ["relam", model, alt] =>
    match fl alt with
    | some a =>
      match AmModel.ofString? model.toLower with
      | some m =>
        match relativeAirmass a m with
        | .ok r => "ok " ++ sof r
        | .error e => showErr e
      | none => if a < 0.0 then "ok none" else "err:value"
    | none => "bad-op"
  | ["absam", am, p] =>
    match ofl am, fl p with
    | some am, some p => "ok " ++ sof (absoluteAirmass am p)
    | _, _ => "bad-op"
  | ["extra", doy, sc] =>
    match fl doy, fl sc with
    | some d, some s => "ok " ++ sf (extraRadiation d s)
    | _, _ => "bad-op"
  | ["kt", ghi, alt, ex, ms, mk] =>
    match fls [ghi, alt, ex, ms, mk] with
    | some [ghi, alt, ex, ms, mk] => "ok " ++ sf (clearnessIndex ghi alt ex ms mk)
    | _ => "bad-op"
  | ["ktp", kt, am, mk] =>
    match fl kt, ofl am, fl mk with
    | some kt, some am, some mk => ok1 (ktPrime kt am mk)
    | _, _, _ => "bad-op"
  | ["disckn", kt, am, mx] =>
    match fls [kt, am, mx] with
    | some [kt, am, mx] => let r := discKn kt am mx; s!"ok {sf r.1} {sf r.2}"
    | _ => "bad-op"
  | ["disc", ghi, alt, doy, p, ms, ma, mx] =>
    match fls [ghi, alt, doy, ms, ma, mx], ofl p with
    | some [ghi, alt, doy, ms, ma, mx], some p =>
      match disc ghi alt doy p ms ma mx with
      | .ok r => s!"ok {sf r.1} {sf r.2.1} {sof r.2.2}"
      | .error e => showErr e
    | _, _ => "bad-op"
  | "dirint" :: ud :: hd :: ms :: ma :: n :: rest =>
    match bool? ud, bool? hd, fl ms, fl ma, n.toNat?, fls rest with
    | some ud, some hd, some ms, some ma, some n, some xs =>
      if xs.length ≠ (if hd then 5 else 4) * n then "bad-op" else
      let ghi := xs.take n
      let alt := (xs.drop n).take n
      let doy := (xs.drop (2 * n)).take n
      let p := (xs.drop (3 * n)).take n
      let dew : Option (List Float) := if hd then some ((xs.drop (4 * n)).take n) else none
      let rows : List (DRow Float) :=
        (ghi.zip (alt.zip (doy.zip p))).map fun x => (x.1, x.2.1, x.2.2.1, x.2.2.2)
      match dirint rows ud dew ms ma with
      | .ok r => "ok " ++ joinSp (r.map sf)
      | .error e => showErr e
    | _, _, _, _, _, _ => "bad-op"
  | "csl" :: month :: cl :: rest =>
    match month.toInt?, fl cl, fls rest with
    | some m, some c, some alts =>
      match clearSkyList alts m c with
      | .ok (dn, dh) => "ok " ++ " ".intercalate ((dn ++ dh).map sf)
      | .error e => showErr e
    | _, _, _ => "bad-op"
  | "rcsl" :: tb :: td :: u :: rest =>
    match fl tb, fl td, bool? u, fls rest with
    | some tb, some td, some u, some alts =>
      match revisedClearSkyList alts tb td u with
      | .ok (dn, dh) => "ok " ++ " ".intercalate ((dn ++ dh).map sf)
      | .error e => showErr e
    | _, _, _, _ => "bad-op"
  | ["cs", month, alt, cl] =>
    match month.toInt?, fl alt, fl cl with
    | some m, some a, some c => ok2 (clearSky1 a m c)
    | _, _, _ => "bad-op"
  | ["rcs", alt, tb, td, u] =>
    match fls [alt, tb, td], bool? u with
    | some [alt, tb, td], some u => ok2 (revisedClearSky1 alt tb td u)
    | _, _ => "bad-op"
  | ["zh", alt, cc, rh, t, t3, ws, irr] =>
    match fls [alt, cc, rh, t, t3, ws, irr] with
    | some [alt, cc, rh, t, t3, ws, irr] => "ok " ++ sf (zhangHuangSolar alt cc rh t t3 ws irr)
    | _ => "bad-op"
  | "zhsplit" :: ud :: n :: rest =>
    match bool? ud, n.toNat?, fls rest with
    | some ud, some n, some xs =>
      if xs.length ≠ 9 * n then "bad-op" else
      let rows := chunks 9 xs
      let zr : List (ZRow Float) := rows.filterMap fun r =>
        match r with
        | [alt, doy, cc, rh, t, t3, ws, p, _] => some ⟨alt, doy, cc, rh, t, t3, ws, p⟩
        | _ => none
      let dews : List Float := rows.filterMap fun r => r[8]?
      match zhSplit zr dews ud with
      | .ok r => "ok " ++ joinSp (r.map fun x => sf x.1 ++ " " ++ sf x.2)
      | .error e => showErr e
    | _, _, _ => "bad-op"
  | ["illum", alt, ghi, dni, dhi, dew, am] =>
    match fls [alt, ghi, dni, dhi, dew], ofl am with
    | some [alt, ghi, dni, dhi, dew], some am => ok4 (illuminance alt ghi dni dhi dew am)
    | _, _ => "bad-op"
  | ["hir", sc, db, dp] =>
    match fls [sc, db, dp] with
    | some [sc, db, dp] => ok1 (horizontalInfrared sc db dp)
    | _ => "bad-op"
  | ["skyt", hir, em] =>
    match fls [hir, em] with
    | some [hir, em] => ok1 (skyTemperature hir em)
    | _ => "bad-op"
  | ["ghi", sa, dnr, dhr] =>
    match fls [sa, dnr, dhr] with
    | some [sa, dnr, dhr] => "ok " ++ sf (globalHorizontal sa dnr dhr)
    | _ => "bad-op"
  | ["dirh", sa, dnr] =>
    match fls [sa, dnr] with
    | some [sa, dnr] => "ok " ++ sf (directHorizontal sa dnr)
    | _ => "bad-op"
  | ["dirirr", sa, sz, dnr, dhr, alt, az, refl, iso] =>
    match fls [sa, sz, dnr, dhr, alt, az, refl], bool? iso with
    | some [sa, sz, dnr, dhr, alt, az, refl], some iso =>
      ok4 (directional sa sz dnr dhr alt az refl iso)
    | _, _ => "bad-op"
  | ["ddcs", month, alt, cl] =>
    match month.toInt?, fl alt, fl cl with
    | some m, some a, some c => ok3 (designDayClearSky1 a m c)
    | _, _, _ => "bad-op"
  | ["ddtau", alt, tb, td, u] =>
    match fls [alt, tb, td], bool? u with
    | some [alt, tb, td], some u => ok3 (designDayTau1 alt tb td u)
    | _, _ => "bad-op"
  | "hwea" :: ts :: n :: nloc :: rest =>
    match ts.toNat?, n.toNat?, nloc.toNat? with
    | some ts, some n, some nloc => handleWea ts n nloc rest
    | _, _, _ => "bad-op"
  | "hsky" :: kind :: ndate :: nloc :: rest =>
    match ndate.toNat?, nloc.toNat? with
    | some ndate, some nloc =>
      if kind = "clear" then handleSky .clear ndate nloc rest
      else if kind = "tau" then handleSky .tau ndate nloc rest else "bad-op"
    | _, _ => "bad-op"
  | _ => "bad-op"

end DrvC10

def main : IO Unit := Drv.run DrvC10.handle
