/-
  Model driver for C15 (color.py ColorRange, legend.py Legend).  Line protocol: see DrvCore.
  Imports only Mathlib-free files.

  Requests (lists are length-prefixed, numbers are rationals `p/q`, options are `none` or a value):
    domain  <cont> <ncolors> <k> d*k
    color   <cont> <nc> (r g b)*nc <k> d*k <m> v*m        -> per value `r g b` or `E:<err>`
    colorx  (same)                                         -> per value the pre-rounding channels
    legend  plain <V> v*V <min?> <max?> <count?> <cols?: none | nc (r g b)*nc> <contLegend> <vertical>
                  <decimals> <ils> <ord?: none | k (key text)*k> <segH?> <segW?> <textH?>
    legend  cat   <V> v*V <k> d*k <nc> (r g b)*nc <names?: none | k name*k> <contColors?> <contLegend>
                  <vertical> <decimals> <ils?> <segH?> <segW?> <textH?>
    graphic <minx> <miny> <maxx> <maxy> plain|cat <legend arguments as above>
    fmt <x> <n>                                            -> `'%.nf' % x`
-/
import Ladybug.DrvCore
import Ladybug.Model.Legend

open Drv Col Leg

namespace DrvC15

abbrev P := StateT (List String) Option

def tok : P String := fun s =>
  match s with
  | [] => none
  | t :: ts => some (t, ts)

def lift {α : Type} (o : Option α) : P α := fun s => o.map (·, s)

def pNat : P Nat := do lift (← tok).toNat?
def pInt : P Int := do lift (← tok).toInt?
def pRat : P Rat := do lift (rat? (← tok))
def pBool : P Bool := do lift (bool? (← tok))

def pOpt {α : Type} (p : P α) : P (Option α) := fun s =>
  match s with
  | "none" :: ts => some (none, ts)
  | _ => (p s).map fun (a, ts) => (some a, ts)

def pMany {α : Type} (p : P α) : Nat → P (List α)
  | 0 => pure []
  | n + 1 => do
    let a ← p
    let as ← pMany p n
    pure (a :: as)

def pList {α : Type} (p : P α) : P (List α) := do
  let n ← pNat
  pMany p n

def pRGB : P RGB := do
  let r ← pInt
  let g ← pInt
  let b ← pInt
  pure ⟨r, g, b⟩

def pEnd : P Unit := fun s => if s.isEmpty then some ((), []) else none

def showErr : Err → String
  | .assert => "err:assert"
  | .index => "err:index"
  | .zero => "err:zero"
  | .value => "err:value"

def showRGB (c : RGB) : String := s!"{c.r} {c.g} {c.b}"

def showRats (l : List Rat) : String := joinSp (l.map showRat)

def showColors (l : List RGB) : String := " ; ".intercalate (l.map showRGB)

def showE {α : Type} (f : α → String) : Except Err α → String
  | .ok a => f a
  | .error e => showErr e

/-- Per-value result (an error of one value does not hide the others). -/
def showColorOf (cr : ColorRange) (v : Rat) : String :=
  match cr.color v with
  | .ok c => showRGB c
  | .error e => "E:" ++ (showErr e).drop 4

def showExactOf (cr : ColorRange) (v : Rat) : String :=
  match cr.colorExact v with
  | some (x, y, z) => s!"{showRat x} {showRat y} {showRat z}"
  | none => "-"

def pColorReq : P (Bool × List RGB × List Rat × List Rat) := do
  let cont ← pBool
  let cols ← pList pRGB
  let dom ← pList pRat
  let vals ← pList pRat
  pEnd
  pure (cont, cols, dom, vals)

def pPlain : P (List Rat × Except Err Par) := do
  let vals ← pList pRat
  let mn ← pOpt pRat
  let mx ← pOpt pRat
  let sc ← pOpt pNat
  let cols ← pOpt (pList pRGB)
  let cl ← pBool
  let vert ← pBool
  let dc ← pNat
  let ils ← pBool
  let ord ← pOpt (pList (do let k ← pInt; let t ← tok; pure (k, t)))
  let sh ← pOpt pRat
  let sw ← pOpt pRat
  let th ← pOpt pRat
  pEnd
  pure (vals, Par.mkPlain mn mx sc cols cl vert dc ils ord sh sw th)

def pCat : P (List Rat × Except Err Par) := do
  let vals ← pList pRat
  let dom ← pList pRat
  let cols ← pList pRGB
  let names ← pOpt (pList tok)
  let cc ← pOpt pBool
  let cl ← pBool
  let vert ← pBool
  let dc ← pNat
  let ils ← pOpt pBool
  let sh ← pOpt pRat
  let sw ← pOpt pRat
  let th ← pOpt pRat
  pEnd
  pure (vals, Par.mkCat dom cols names cc cl vert dc ils sh sw th)

def showMesh (m : Nat × Nat × List RGB) : String :=
  s!"{m.1} {m.2.1} : {showColors m.2.2}"

def showLegend (l : Legend) : String :=
  " | ".intercalate [
    s!"ok {showRat l.min} {showRat l.max} {l.segCount} {showBool l.isMinDefault} {showBool l.isMaxDefault}",
    showRats l.segmentNumbers,
    showE showColors l.segmentColors,
    showE showColors l.valueColors,
    ";".intercalate l.segmentText,
    joinSp (l.textPoints.map fun p => showRat p.1 ++ "," ++ showRat p.2),
    toString l.segmentLength,
    showE showMesh l.mesh,
    showE (fun cr => showRats cr.domain ++ " : " ++ showColors cr.colors ++ " : " ++ showBool cr.continuous)
      l.colorRange]

def runLegend (r : Option ((List Rat × Except Err Par) × List String)) : String :=
  match r with
  | none => "bad-op"
  | some ((_, .error e), _) => showErr e
  | some ((vals, .ok p), _) =>
    match Legend.make vals p with
    | .error e => showErr e
    | .ok l => showLegend l

/-- `graphic <minx> <miny> <maxx> <maxy> plain|cat <legend arguments>` -/
def runGraphic (box : Option (Rat × Rat × Rat × Rat))
    (r : Option ((List Rat × Except Err Par) × List String)) : String :=
  match box, r with
  | some (x0, y0, x1, y1), some ((vals, .ok p), _) =>
    match Graphic.make vals p x0 y0 x1 y1 with
    | .error e => showErr e
    | .ok g =>
      " | ".intercalate [
        "ok " ++ showE showColors g.valueColors,
        showE showColors g.legend.segmentColors,
        s!"{showRat g.legend.segH} {showRat g.legend.segW} {showRat g.legend.textH}",
        toString g.legend.textPoints.length]
  | some _, some ((_, .error e), _) => showErr e
  | _, _ => "bad-op"

def box? (a b c d : String) : Option (Rat × Rat × Rat × Rat) := do
  let a ← rat? a
  let b ← rat? b
  let c ← rat? c
  let d ← rat? d
  pure (a, b, c, d)

def handle (toks : List String) : String :=
  match toks with
  | "domain" :: rest =>
    let p : P (Bool × Nat × List Rat) := do
      let cont ← pBool
      let n ← pNat
      let dom ← pList pRat
      pEnd
      pure (cont, n, dom)
    match p rest with
    | some ((cont, n, dom), _) => showE (fun d => "ok " ++ showRats d) (mkDomain n dom cont)
    | none => "bad-op"
  | "color" :: rest =>
    match pColorReq rest with
    | some ((cont, cols, dom, vals), _) =>
      match ColorRange.make cols dom cont with
      | .error e => showErr e
      | .ok cr => "ok " ++ showRats cr.domain ++ " | " ++ " ; ".intercalate (vals.map (showColorOf cr))
    | none => "bad-op"
  | "colorx" :: rest =>
    match pColorReq rest with
    | some ((cont, cols, dom, vals), _) =>
      match ColorRange.make cols dom cont with
      | .error e => showErr e
      | .ok cr => "ok " ++ " ; ".intercalate (vals.map (showExactOf cr))
    | none => "bad-op"
  | "graphic" :: a :: b :: c :: d :: "plain" :: rest => runGraphic (box? a b c d) (pPlain rest)
  | "graphic" :: a :: b :: c :: d :: "cat" :: rest => runGraphic (box? a b c d) (pCat rest)
  | "legend" :: "plain" :: rest => runLegend (pPlain rest)
  | "legend" :: "cat" :: rest => runLegend (pCat rest)
  | ["fmt", x, n] =>
    match rat? x, n.toNat? with
    | some x, some n => "ok " ++ fmtFixed x n
    | _, _ => "bad-op"
  | _ => "bad-op"

end DrvC15

def main : IO Unit := Drv.run DrvC15.handle
