/-
  Model driver for C15 (color.py ColorRange, legend.py Legend).  Line protocol: see DrvCore.
  Imports only Mathlib-free files.

  Requests (lists are length-prefixed, numbers are rationals `p/q`, options are `none` or a value):
    domain  <cont> <ncolors> <k> d*k
    color   <cont> <nc> (r g b)*nc <k> d*k <m> v*m        -> per value `r g b` or `E:<err>`
    colorx  (same)                                         -> per value the pre-rounding channels
    legend  plain <V> v*V <min?> <max?> <count?> <cols?: none | nc (r g b)*nc> <contLegend> <vertical>
                  <decimals> <ils> <ord?: none | k (key text)*k> <segH?> <segW?> <textH?>
    legend  cat   <V> v*V <k> d*k <nc> (r g b)*nc <names?: none | k name*k> <contColors?> <contLegend>
                  <vertical> <decimals> <ils?> <segH?> <segW?> <textH?>
    graphic <minx> <miny> <maxx> <maxy> plain|cat <legend arguments as above>
    gtype   <minx> <miny> <maxx> <maxy> <unit_descr?: none | k (key text)*k> plain|cat <legend arguments>
            (round 4: GraphicContainer with a data type; answer laid out as for `legend`)
    fmt <x> <n>                                            -> `'%.nf' % x`
    crhist <cont> <nc> (r g b)*nc <k> d*k <nops> op*       -> `ok || out || out ...` (one per op)
        op: c <cols> | d <dom> | r <v> | s | u
    lhist plain <min?> ... <textH?> <nops> op*  |  lhist cat <k> d*k ... <textH?> <nops> op*
        (parameter arguments as for `legend`, without the values)
        op: sp <field> | sl <field> | b <vals> | g <x0> <y0> <x1> <y1> <vals> | ol | op | dp | dl | tp | tl
        field: min|max|sh|sw|th <rat?> | count|dc <nat?> | cols <none | list> | cl|vert|ils|cc <bool?>
               | ord <none | k (key text)*k> | dom <list> | names <none | list> | bad <attribute>
-/
import Ladybug.DrvCore
import Ladybug.Model.Legend
import Ladybug.Model.C15Obj
import Ladybug.Model.C15Graphic

open Drv Col Leg

namespace DrvC15

abbrev P := StateT (List String) Option

def tok : P String := fun s =>
  match s with
  | [] => none
  | t :: ts => some (t, ts)

def lift {α : Type} (o : Option α) : P α := fun s => o.map (·, s)

def pNat : P Nat := do lift (← tok).toNat?
def pInt : P Int := do lift (← tok).toInt?
def pRat : P Rat := do lift (rat? (← tok))
def pBool : P Bool := do lift (bool? (← tok))

def pOpt {α : Type} (p : P α) : P (Option α) := fun s =>
  match s with
  | "none" :: ts => some (none, ts)
  | _ => (p s).map fun (a, ts) => (some a, ts)

def pMany {α : Type} (p : P α) : Nat → P (List α)
  | 0 => pure []
  | n + 1 => do
    let a ← p
    let as ← pMany p n
    pure (a :: as)

def pList {α : Type} (p : P α) : P (List α) := do
  let n ← pNat
  pMany p n

def pRGB : P RGB := do
  let r ← pInt
  let g ← pInt
  let b ← pInt
  pure ⟨r, g, b⟩

def pEnd : P Unit := fun s => if s.isEmpty then some ((), []) else none

def showErr : Err → String
  | .assert => "err:assert"
  | .index => "err:index"
  | .zero => "err:zero"
  | .value => "err:value"

def showRGB (c : RGB) : String := s!"{c.r} {c.g} {c.b}"

def showRats (l : List Rat) : String := joinSp (l.map showRat)

def showColors (l : List RGB) : String := " ; ".intercalate (l.map showRGB)

def showE {α : Type} (f : α → String) : Except Err α → String
  | .ok a => f a
  | .error e => showErr e

/-- Per-value result (an error of one value does not hide the others). -/
def showColorOf (cr : ColorRange) (v : Rat) : String :=
  match cr.color v with
  | .ok c => showRGB c
  | .error e => "E:" ++ (showErr e).drop 4

def showExactOf (cr : ColorRange) (v : Rat) : String :=
  match cr.colorExact v with
  | some (x, y, z) => s!"{showRat x} {showRat y} {showRat z}"
  | none => "-"

def pColorReq : P (Bool × List RGB × List Rat × List Rat) := do
  let cont ← pBool
  let cols ← pList pRGB
  let dom ← pList pRat
  let vals ← pList pRat
  pEnd
  pure (cont, cols, dom, vals)

def pPlain : P (List Rat × Except Err Par) := do
  let vals ← pList pRat
  let mn ← pOpt pRat
  let mx ← pOpt pRat
  let sc ← pOpt pNat
  let cols ← pOpt (pList pRGB)
  let cl ← pBool
  let vert ← pBool
  let dc ← pNat
  let ils ← pBool
  let ord ← pOpt (pList (do let k ← pInt; let t ← tok; pure (k, t)))
  let sh ← pOpt pRat
  let sw ← pOpt pRat
  let th ← pOpt pRat
  pEnd
  pure (vals, Par.mkPlain mn mx sc cols cl vert dc ils ord sh sw th)

def pCat : P (List Rat × Except Err Par) := do
  let vals ← pList pRat
  let dom ← pList pRat
  let cols ← pList pRGB
  let names ← pOpt (pList tok)
  let cc ← pOpt pBool
  let cl ← pBool
  let vert ← pBool
  let dc ← pNat
  let ils ← pOpt pBool
  let sh ← pOpt pRat
  let sw ← pOpt pRat
  let th ← pOpt pRat
  pEnd
  pure (vals, Par.mkCat dom cols names cc cl vert dc ils sh sw th)

def showMesh (m : Nat × Nat × List RGB) : String :=
  s!"{m.1} {m.2.1} : {showColors m.2.2}"

def showLegend (l : Legend) : String :=
  " | ".intercalate [
    s!"ok {showRat l.min} {showRat l.max} {l.segCount} {showBool l.isMinDefault} {showBool l.isMaxDefault}",
    showRats l.segmentNumbers,
    showE showColors l.segmentColors,
    showE showColors l.valueColors,
    ";".intercalate l.segmentText,
    joinSp (l.textPoints.map fun p => showRat p.1 ++ "," ++ showRat p.2),
    toString l.segmentLength,
    showE showMesh l.mesh,
    showE (fun cr => showRats cr.domain ++ " : " ++ showColors cr.colors ++ " : " ++ showBool cr.continuous)
      l.colorRange]

def runLegend (r : Option ((List Rat × Except Err Par) × List String)) : String :=
  match r with
  | none => "bad-op"
  | some ((_, .error e), _) => showErr e
  | some ((vals, .ok p), _) =>
    match Legend.make vals p with
    | .error e => showErr e
    | .ok l => showLegend l

/-- `graphic <minx> <miny> <maxx> <maxy> plain|cat <legend arguments>` -/
def runGraphic (box : Option (Rat × Rat × Rat × Rat))
    (r : Option ((List Rat × Except Err Par) × List String)) : String :=
  match box, r with
  | some (x0, y0, x1, y1), some ((vals, .ok p), _) =>
    match Graphic.make vals p x0 y0 x1 y1 with
    | .error e => showErr e
    | .ok g =>
      " | ".intercalate [
        "ok " ++ showE showColors g.valueColors,
        showE showColors g.legend.segmentColors,
        s!"{showRat g.legend.segH} {showRat g.legend.segW} {showRat g.legend.textH}",
        toString g.legend.textPoints.length]
  | some _, some ((_, .error e), _) => showErr e
  | _, _ => "bad-op"

/-- `gtype <box> <unit_descr?> plain|cat <legend arguments>`: the legend of a typed container. -/
def runGType (box : Option (Rat × Rat × Rat × Rat)) (ud : Option (List (Int × String)))
    (r : Option ((List Rat × Except Err Par) × List String)) : String :=
  match box, r with
  | some (x0, y0, x1, y1), some ((vals, .ok p), _) =>
    match Graphic.makeTyped vals p ud x0 y0 x1 y1 with
    | .error e => showErr e
    | .ok g => showLegend g.legend
  | some _, some ((_, .error e), _) => showErr e
  | _, _ => "bad-op"

def box? (a b c d : String) : Option (Rat × Rat × Rat × Rat) := do
  let a ← rat? a
  let b ← rat? b
  let c ← rat? c
  let d ← rat? d
  pure (a, b, c, d)

/-! ### histories on one object (round 3) -/

open Obj15

def showRej : Rej → String
  | .assert => "X:assert" | .attr => "X:attr" | .zero => "X:zero" | .index => "X:index"
  | .value => "X:value" | .type => "X:type"

def pCROp : P CROp := do
  match (← tok) with
  | "c" => pure (.setColors (← pList pRGB))
  | "d" => pure (.setDomain (← pList pRat))
  | "r" => pure (.readColor (← pRat))
  | "s" => pure .readState
  | "u" => pure .duplicate
  | _ => lift none

def showCROut : CROut → String
  | .done => "ok"
  | .refused e => showRej e
  | .color (.ok c) => showRGB c
  | .color (.error e) => "E:" ++ (showErr e).drop 4
  | .state cols dom cont => s!"S {showColors cols} : {showRats dom} : {showBool cont}"

def pOrd : P (Option (List (Int × String))) :=
  pOpt (pList (do let k ← pInt; let t ← tok; pure (k, t)))

def pField : P Field := do
  match (← tok) with
  | "min" => pure (.min (← pOpt pRat))
  | "max" => pure (.max (← pOpt pRat))
  | "count" => pure (.count (← pOpt pNat))
  | "cols" => pure (.colors (← pOpt (pList pRGB)))
  | "cl" => pure (.contLegend (← pOpt pBool))
  | "vert" => pure (.vertical (← pOpt pBool))
  | "dc" => pure (.decimals (← pOpt pNat))
  | "ils" => pure (.ils (← pOpt pBool))
  | "ord" => pure (.ordinal (← pOrd))
  | "sh" => pure (.segH (← pOpt pRat))
  | "sw" => pure (.segW (← pOpt pRat))
  | "th" => pure (.textH (← pOpt pRat))
  | "dom" => pure (.catDomain (← pList pRat))
  | "names" => pure (.catNames (← pOpt (pList tok)))
  | "cc" => pure (.catCC (← pOpt pBool))
  | "bad" => pure (.bad (← tok))
  | _ => lift none

def pLOp : P LOp := do
  match (← tok) with
  | "sp" => pure (.setP (← pField))
  | "sl" => pure (.setL (← pField))
  | "b" => pure (.build (← pList pRat))
  | "g" => do
    let x0 ← pRat
    let y0 ← pRat
    let x1 ← pRat
    let y1 ← pRat
    pure (.buildG x0 y0 x1 y1 (← pList pRat))
  | "ol" => pure .obsL
  | "op" => pure .obsP
  | "dp" => pure .dupP
  | "dl" => pure .dupL
  | "tp" => pure .dictP
  | "tl" => pure .dictL
  | _ => lift none

def pPlainArgs : P (Except Err Par) := do
  let mn ← pOpt pRat
  let mx ← pOpt pRat
  let sc ← pOpt pNat
  let cols ← pOpt (pList pRGB)
  let cl ← pBool
  let vert ← pBool
  let dc ← pNat
  let ils ← pBool
  let ord ← pOrd
  let sh ← pOpt pRat
  let sw ← pOpt pRat
  let th ← pOpt pRat
  pure (Par.mkPlain mn mx sc cols cl vert dc ils ord sh sw th)

def pCatArgs : P (Except Err Par) := do
  let dom ← pList pRat
  let cols ← pList pRGB
  let names ← pOpt (pList tok)
  let cc ← pOpt pBool
  let cl ← pBool
  let vert ← pBool
  let dc ← pNat
  let ils ← pOpt pBool
  let sh ← pOpt pRat
  let sw ← pOpt pRat
  let th ← pOpt pRat
  pure (Par.mkCat dom cols names cc cl vert dc ils sh sw th)

def showObs (o : Live) : String :=
  match o.legend? with
  | none => "unreadable"
  | some l =>
    " | ".intercalate [
      s!"L {showRat l.min} {showRat l.max} {l.segCount} {showBool l.isMinDefault} {showBool l.isMaxDefault}",
      showRats l.segmentNumbers,
      showE showColors l.segmentColors,
      showE showColors l.valueColors,
      ";".intercalate l.segmentText,
      toString l.textPoints.length,
      toString l.segmentLength,
      showE showMesh l.mesh,
      showE (fun cr => showRats cr.domain ++ " : " ++ showColors cr.colors ++ " : " ++ showBool cr.continuous)
        l.colorRange]

def showOptRat (x : Option Rat) : String :=
  match x with
  | none => "none"
  | some r => showRat r

def showPar (p : Par) : String :=
  let ord := match p.ordinal with
    | none => "none"
    | some d => "{" ++ ",".intercalate (d.map fun kv => toString kv.1 ++ ":" ++ kv.2) ++ "}"
  let cat := match p.cat with
    | none => "none"
    | some c =>
      let names := match c.names with
        | some ns => ns
        | none => catNames c.domain p.decimalCount p.includeLS
      showRats c.domain ++ " : " ++ ";".intercalate names ++ " : " ++ showBool c.continuousColors
  " | ".intercalate [
    s!"P {showOptRat p.min} {showOptRat p.max} {p.segCount} {showBool p.segCountDefault}",
    showColors p.colors,
    s!"{showBool p.continuousLegend} {showBool p.vertical} {p.decimalCount} {showBool p.includeLS}",
    ord,
    s!"{showOptRat p.segHeight} {showOptRat p.segWidth} {showOptRat p.textHeight}",
    cat]

def showLOut (s : Sess) : LOut → String
  | .done => "ok"
  | .refused e => showRej e
  | .nolegend => "nolegend"
  | .params p => showPar p
  | .legend _ =>
    match s.live with
    | some o => showObs o
    | none => "nolegend"

/-- Run a session, showing each output against the state it was produced in. -/
def showLRun (s : Sess) : List LOp → List String
  | [] => []
  | op :: ops =>
    let r := lStep s op
    showLOut r.1 r.2 :: showLRun r.1 ops

def runLHist (r : Option (Except Err Par × List String)) : String :=
  match r with
  | none => "bad-op"
  | some (.error e, _) => showErr e
  | some (.ok p, rest) =>
    let q : P (List LOp) := do
      let ops ← pList pLOp
      pEnd
      pure ops
    match q rest with
    | none => "bad-op"
    | some (ops, _) => " || ".intercalate ("ok" :: showLRun ⟨p, none⟩ ops)

def runCRHist (rest : List String) : String :=
  let q : P (Bool × List RGB × List Rat × List CROp) := do
    let cont ← pBool
    let cols ← pList pRGB
    let dom ← pList pRat
    let ops ← pList pCROp
    pEnd
    pure (cont, cols, dom, ops)
  match q rest with
  | none => "bad-op"
  | some ((cont, cols, dom, ops), _) =>
    match ColorRange.make cols dom cont with
    | .error e => showErr e
    | .ok cr => " || ".intercalate ("ok" :: (crRun cr ops).2.map showCROut)

def handle (toks : List String) : String :=
  match toks with
  | "crhist" :: rest => runCRHist rest
  | "lhist" :: "plain" :: rest => runLHist (pPlainArgs rest)
  | "lhist" :: "cat" :: rest => runLHist (pCatArgs rest)
  | "domain" :: rest =>
    let p : P (Bool × Nat × List Rat) := do
      let cont ← pBool
      let n ← pNat
      let dom ← pList pRat
      pEnd
      pure (cont, n, dom)
    match p rest with
    | some ((cont, n, dom), _) => showE (fun d => "ok " ++ showRats d) (mkDomain n dom cont)
    | none => "bad-op"
  | "color" :: rest =>
    match pColorReq rest with
    | some ((cont, cols, dom, vals), _) =>
      match ColorRange.make cols dom cont with
      | .error e => showErr e
      | .ok cr => "ok " ++ showRats cr.domain ++ " | " ++ " ; ".intercalate (vals.map (showColorOf cr))
    | none => "bad-op"
  | "colorx" :: rest =>
    match pColorReq rest with
    | some ((cont, cols, dom, vals), _) =>
      match ColorRange.make cols dom cont with
      | .error e => showErr e
      | .ok cr => "ok " ++ " ; ".intercalate (vals.map (showExactOf cr))
    | none => "bad-op"
  | "gtype" :: a :: b :: c :: d :: rest =>
    match (pOpt (pList (do let k ← pInt; let t ← tok; pure (k, t)))) rest with
    | some (ud, "plain" :: r2) => runGType (box? a b c d) ud (pPlain r2)
    | some (ud, "cat" :: r2) => runGType (box? a b c d) ud (pCat r2)
    | _ => "bad-op"
  | "graphic" :: a :: b :: c :: d :: "plain" :: rest => runGraphic (box? a b c d) (pPlain rest)
  | "graphic" :: a :: b :: c :: d :: "cat" :: rest => runGraphic (box? a b c d) (pCat rest)
  | "legend" :: "plain" :: rest => runLegend (pPlain rest)
  | "legend" :: "cat" :: rest => runLegend (pCat rest)
  | ["fmt", x, n] =>
    match rat? x, n.toNat? with
    | some x, some n => "ok " ++ fmtFixed x n
    | _, _ => "bad-op"
  | _ => "bad-op"

end DrvC15

def main : IO Unit := Drv.run DrvC15.handle
