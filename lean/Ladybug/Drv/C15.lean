/- Model driver for C15 (stub: no ops yet). -/
import Ladybug.DrvCore

namespace DrvC15
def handle (_toks : List String) : String := "bad-op"
end DrvC15

def main : IO Unit := Drv.run DrvC15.handle
