/-
  Object state machines of the plot classes of property C17 (round 3).  No Mathlib.

  The pure placement functions live in Model/Plot.lean.  This file models the plot *objects* as the
  code has them – with the slots that are filled lazily or edited in place – so that whole
  operation histories on one object (reads in any order, setters, refused calls) can be compared
  step by step with the real classes (driver ops `whist`, `bhist`, `phist`) and so that
  Props/C17.lean can prove that no history makes an observation differ from that of a fresh object
  built from the public state the user has established.

    * `WObj`  windrose.py `WindRose`: `_histogram_data`, `_zero_count` (computed in `__init__`),
              `_prevailing_direction` (lazy slot, never reset), the settings `frequency_hours`,
              `frequency_intervals_compass`, `show_zeros`, `show_freq` (setters with assertions) and
              the settings that do not enter the C17 observables (`north`, `base_point`,
              `frequency_spacing_distance`, `legend_parameters`: only accepted / refused matters);
              observables `histogram_data` (cut to `frequency_maximum`), `zero_count`,
              `prevailing_direction`, `real_freq_max`, `frequency_intervals_mesh`,
              `frequency_maximum`, `prevailing_direction_from_data`.
    * `MObj`  monthlychart.py `MonthlyChart`: `_minimums` / `_maximums` edited by
              `set_minimum_by_index` / `set_maximum_by_index` (a bad index is ignored), observable
              `data_meshes` (monthly or daily bars).
    * `PObj`  psychchart.py `PsychrometricChart` (SI): `_time_matrix`, `_hour_values`,
              `_remove_pattern` (computed in `__init__`), `_colored_mesh` (lazy slot), observables
              `time_matrix`, `hour_values`, faces of `colored_mesh`, `data_mesh(collection)`
              (refused when the collection has another length).
  `HourlyPlot` has no setter and no slot that enters `values` / `colors` / `colored_mesh2d` (all three
  are recomputed on every read): it is stateless for C17 and stays with `Plot.hourlyFaces`.
-/
import Ladybug.Model.Plot

namespace PlotObj

open Plot

/-- Error classes of refused operations (the harness' `err_name`). -/
inductive OErr where
  | assert | type | zero | value | index
deriving DecidableEq, Repr

def OErr.ofP : PErr → OErr
  | .assert => .assert
  | .value => .value
  | .index => .index
  | .zero => .zero

/-! ## WindRose -/

/-- The public state a user establishes: constructor arguments and accepted setter values. -/
structure WPub where
  n : Nat
  isSpeed : Bool
  samples : List (Rat × Rat)        -- (direction already reduced `% 360`, analysis value)
  freqHours : Option Nat := none    -- assigned `frequency_hours` (after `int()`); none: default 200.0
  intervals : Option Nat := none    -- assigned `frequency_intervals_compass`
  showZeros : Bool := false
  showFreq : Bool := true
deriving Repr

/-- The object: public state + the slots computed in `__init__` + the lazy slot. -/
structure WObj where
  pub : WPub
  hist : List (List Rat)            -- `_histogram_data`
  zeros : Nat                       -- `_zero_count`
  prevCache : Option (List Rat)     -- `_prevailing_direction`
deriving Repr

/-- `WindRose(direction, analysis, n)`; `direction_count > 0` is asserted. -/
def WObj.fresh (p : WPub) : Except OErr WObj :=
  if p.n = 0 then .error .assert else
  match windroseData p.n p.isSpeed p.samples with
  | .error e => .error (OErr.ofP e)
  | .ok (h, z) => .ok ⟨p, h, z, none⟩

def maxLen (h : List (List Rat)) : Nat := (h.map List.length).foldl max 0

/-- `int(math.ceil(a / b))` for naturals, `b > 0`. -/
def ceilDiv (a b : Nat) : Nat := (a + b - 1) / b

/-- `histogram_data`: the sector lists, cut to `frequency_maximum` values when the assigned number
    of compass intervals is below the number the data needs.  The bound of the cut is
    `int(frequency_maximum)` (fixes/C17_windrose_default_hours_cut.patch): with the default
    `frequency_hours` (the float 200.0) the sectors are cut to `intervals * 200` values like with any
    assigned number of hours (before the repair that slice had a float bound and raised TypeError).
    `frequency_hours = 0` cannot be assigned (asserted > 0; a value in (0, 1), which `int()` would turn
    into 0, is outside the modelled histories).  The result type stays `Except` (the reads built on it
    keep their shape); `cutHist_ok` in Props/C17.lean shows that it never is an error. -/
def cutHist (h : List (List Rat)) (fh ic : Option Nat) : Except OErr (List (List Rat)) :=
  match ic with
  | none => .ok h
  | some k =>
    if k < ceilDiv (maxLen h) (fh.getD 200) then .ok (h.map (·.take (k * fh.getD 200)))
    else .ok h

/-- Everything C17 speaks about, as a function of the slots computed in `__init__` and the settings. -/
structure WView where
  histogram : Except OErr (List (List Rat))
  zeroCount : Nat
  prevailing : List Rat
  staticPrevailing : Except OErr (List Rat)
deriving Repr

def staticPrev (p : WPub) : Except OErr (List Rat) :=
  match histogramCircular (fun d : Rat => d) (p.samples.map (·.1)) (angles p.n) (some (0, 360)) with
  | .error e => .error (OErr.ofP e)
  | .ok h => .ok (prevailing (h.map List.length))

/-- The specification: the view of a user who knows only the public state. -/
def WPub.view (p : WPub) : Except OErr WView :=
  match WObj.fresh p with
  | .error e => .error e
  | .ok o => .ok ⟨cutHist o.hist p.freqHours p.intervals, o.zeros, prevailing (o.hist.map List.length),
      staticPrev p⟩

inductive WOp where
  | setFreqHours (v : Int)          -- `frequency_hours = v` (assert v > 0; stored `int(v)`)
  | setIntervals (v : Int)          -- `frequency_intervals_compass = v` (assert v >= 1)
  | setShowZeros (b : Bool)         -- refused for `True` unless the analysis data is a speed
  | setShowFreq (b : Bool)
  | setOther (accepted : Bool)      -- north / base_point / spacing / legend_parameters (valid | invalid value)
  | setBadType                      -- frequency_hours = 'a' etc.: the comparison itself raises TypeError
  | readHist | readZero | readPrev | readRealMax | readIntervalsMesh | readFreqMax | readStaticPrev
deriving Repr, DecidableEq

inductive WOut where
  | unit
  | err (e : OErr)
  | hist (h : List (List Rat))
  | nat (k : Nat)
  | dirs (d : List Rat)
deriving Repr, DecidableEq

def outOfHist : Except OErr (List (List Rat)) → WOut
  | .ok h => .hist h
  | .error e => .err e

/-- `real_freq_max` = `max(len(d) for d in histogram_data)`. -/
def realMax (o : WObj) : Except OErr Nat :=
  match cutHist o.hist o.pub.freqHours o.pub.intervals with
  | .ok h => .ok (maxLen h)
  | .error e => .error e

/-- `frequency_intervals_mesh` = `int(ceil(real_freq_max / frequency_hours))`. -/
def intervalsMesh (o : WObj) : Except OErr Nat :=
  match realMax o with
  | .error e => .error e
  | .ok m => .ok (ceilDiv m (o.pub.freqHours.getD 200))

def outOfNat : Except OErr Nat → WOut
  | .ok k => .nat k
  | .error e => .err e

/-- One operation on a WindRose: new object and what the caller sees. -/
def WObj.step (o : WObj) : WOp → WObj × WOut
  | .setFreqHours v =>
    if 0 < v then ({ o with pub := { o.pub with freqHours := some v.toNat } }, .unit) else (o, .err .assert)
  | .setIntervals v =>
    if 1 ≤ v then ({ o with pub := { o.pub with intervals := some v.toNat } }, .unit) else (o, .err .assert)
  | .setShowZeros b =>
    if o.pub.isSpeed ∨ b = false then ({ o with pub := { o.pub with showZeros := b } }, .unit)
    else (o, .err .assert)
  | .setShowFreq b => ({ o with pub := { o.pub with showFreq := b } }, .unit)
  | .setOther ok => if ok then (o, .unit) else (o, .err .assert)
  | .setBadType => (o, .err .type)
  | .readHist => (o, outOfHist (cutHist o.hist o.pub.freqHours o.pub.intervals))
  | .readZero => (o, .nat o.zeros)
  | .readPrev =>
    match o.prevCache with
    | some d => (o, .dirs d)
    | none =>
      let d := prevailing (o.hist.map List.length)
      ({ o with prevCache := some d }, .dirs d)
  | .readRealMax => (o, outOfNat (realMax o))
  | .readIntervalsMesh => (o, outOfNat (intervalsMesh o))
  | .readFreqMax =>
    -- `frequency_intervals_compass * frequency_hours`, reported in whole hours (200.0 shown as 200)
    match o.pub.intervals with
    | some k => (o, .nat (k * o.pub.freqHours.getD 200))
    | none => (o, match intervalsMesh o with
        | .ok k => .nat (k * o.pub.freqHours.getD 200)
        | .error e => .err e)
  | .readStaticPrev =>
    (o, match staticPrev o.pub with | .ok d => .dirs d | .error e => .err e)

/-- A whole history: the outputs in order and the final object. -/
def WObj.run (o : WObj) : List WOp → WObj × List WOut
  | [] => (o, [])
  | op :: ops =>
    let r := o.step op
    let rs := r.1.run ops
    (rs.1, r.2 :: rs.2)

/-- The public state after a history, computed from the operations alone (accepted setters). -/
def WPub.apply (p : WPub) : WOp → WPub
  | .setFreqHours v => if 0 < v then { p with freqHours := some v.toNat } else p
  | .setIntervals v => if 1 ≤ v then { p with intervals := some v.toNat } else p
  | .setShowZeros b => if p.isSpeed ∨ b = false then { p with showZeros := b } else p
  | .setShowFreq b => { p with showFreq := b }
  | _ => p

/-- Is the operation a read (no setter)? -/
def WOp.isRead : WOp → Bool
  | .readHist | .readZero | .readPrev | .readRealMax | .readIntervalsMesh | .readFreqMax
  | .readStaticPrev => true
  | _ => false

/-- The invariant every reachable object satisfies: the `__init__` slots are those of the public
    state, and the lazy slot is empty or holds the value a fresh computation gives. -/
def WObj.Inv (o : WObj) : Prop :=
  windroseData o.pub.n o.pub.isSpeed o.pub.samples = .ok (o.hist, o.zeros) ∧ o.pub.n ≠ 0 ∧
  (o.prevCache = none ∨ o.prevCache = some (prevailing (o.hist.map List.length)))

/-! ## MonthlyChart (bars) -/

/-- One data-type group: `_is_cumulative(t)`, `_minimums[j]`, `_maximums[j]`, its collections. -/
structure BGroup where
  cum : Bool
  minV : Rat
  maxV : Rat
  datas : List (List Rat)
deriving Repr, DecidableEq

/-- Daily charts: first day of the period and days of each month of the period. -/
structure DailyCfg where
  stDay : Nat
  dpm : List Nat
deriving Repr, DecidableEq

structure MObj where
  baseX : Rat
  baseY : Rat
  xDim : Rat
  yDim : Rat
  stack : Bool
  nBars : Nat                       -- `_horizontal_bar_count()`
  daily : Option DailyCfg           -- none: monthly collections
  groups : List BGroup
deriving Repr, DecidableEq

/-- Thread `bar_count` through the data-type groups. -/
def runGroups (f : BGroup → Nat → List (List Bar) × Nat) : Nat → List BGroup → List (List Bar)
  | _, [] => []
  | bc, g :: gs => let r := f g bc; r.1 ++ runGroups f r.2 gs

/-- `data_meshes`: one bar list per collection, group by group. -/
def MObj.meshes (o : MObj) : Except OErr (List (List Bar)) :=
  match o.daily with
  | none =>
    .ok (runGroups (fun g bc =>
      let c : BarCfg := ⟨o.baseX, o.baseY, o.xDim, o.yDim, o.stack, g.cum, g.minV, g.maxV⟩
      monthlyGroup c o.nBars bc g.datas (initLines c g.datas)) 0 o.groups)
  | some d =>
    if o.nBars = 0 then .error .zero else
    .ok (runGroups (fun g bc =>
      let c : BarCfg := ⟨o.baseX, o.baseY, o.xDim, o.yDim, o.stack, g.cum, g.minV, g.maxV⟩
      dailyGroup c o.nBars d.dpm d.stDay bc g.datas (initLines c g.datas)) 0 o.groups)

/-- Python list index: `-len ≤ i < len`, negative counts from the end; otherwise IndexError. -/
def pyIndex (i : Int) (len : Nat) : Option Nat :=
  if 0 ≤ i then (if i.toNat < len then some i.toNat else none)
  else if (-i).toNat ≤ len then some (len - (-i).toNat) else none

inductive MOp where
  | setMin (v : Rat) (idx : Int)    -- `set_minimum_by_index`
  | setMax (v : Rat) (idx : Int)    -- `set_maximum_by_index`
  | readMeshes
deriving Repr, DecidableEq

inductive MOut where
  | unit
  | err (e : OErr)
  | bars (b : List (List Bar))
deriving Repr, DecidableEq

def setAt {α : Type} (l : List α) (i : Nat) (f : α → α) : List α := l.modify i f

/-- One operation on a MonthlyChart.  A bad index is swallowed by the code (`except IndexError:
    pass`): the call returns normally and changes nothing. -/
def MObj.step (o : MObj) : MOp → MObj × MOut
  | .setMin v idx =>
    match pyIndex idx o.groups.length with
    | some i => ({ o with groups := setAt o.groups i fun g => { g with minV := v } }, .unit)
    | none => (o, .unit)
  | .setMax v idx =>
    match pyIndex idx o.groups.length with
    | some i => ({ o with groups := setAt o.groups i fun g => { g with maxV := v } }, .unit)
    | none => (o, .unit)
  | .readMeshes => (o, match o.meshes with | .ok b => .bars b | .error e => .err e)

def MObj.run (o : MObj) : List MOp → MObj × List MOut
  | [] => (o, [])
  | op :: ops =>
    let r := o.step op
    let rs := r.1.run ops
    (rs.1, r.2 :: rs.2)

def MOp.isRead : MOp → Bool
  | .readMeshes => true
  | _ => false

/-- Is the setter ignored (index outside the data types of the chart)? -/
def MOp.ignoredOn (o : MObj) : MOp → Bool
  | .setMin _ idx => (pyIndex idx o.groups.length).isNone
  | .setMax _ idx => (pyIndex idx o.groups.length).isNone
  | .readMeshes => false

/-! ## PsychrometricChart (SI) -/

structure PPub where
  minT : Int
  maxT : Int
  hours : List (Rat × Rat)          -- (temperature, relative humidity) per datum
deriving Repr, DecidableEq

structure PObj where
  pub : PPub
  counts : List Nat                 -- `_time_matrix` flattened row by row
  meshCache : Option (List (Nat × Nat))   -- faces (rh row, temperature column) of `_colored_mesh`
deriving Repr, DecidableEq

/-- Faces of `_generate_mesh` after `remove_faces_only(_remove_pattern)`. -/
def facesOfCounts (nT : Nat) (counts : List Nat) : List (Nat × Nat) :=
  (counts.zipIdx.filter fun p => p.1 ≠ 0).map fun p => (p.2 / nT, p.2 % nT)

/-- `_hour_values`: the non-zero counts in matrix order. -/
def hourValues (counts : List Nat) : List Nat := counts.filter (· ≠ 0)

/-- `PsychrometricChart(t, rh, …, min_temperature, max_temperature)`: the range must span 10 degrees
    and some hour must lie on the chart. -/
def PObj.fresh (p : PPub) : Except OErr PObj :=
  if p.maxT - p.minT < 10 then .error .assert else
  let c := psyCounts p.minT p.maxT p.hours
  if hourValues c = [] then .error .assert else .ok ⟨p, c, none⟩

def sumRat (l : List Rat) : Rat := l.foldl (· + ·) 0

/-- `data_mesh(collection)`: mean of the collection's values over the hours of every non-empty
    cell, in matrix order (the values that colour the faces of the mesh). -/
def cellMeans (p : PPub) (vals : List Rat) : List Rat :=
  let nT := (tCats p.minT p.maxT).length
  let cells := ((p.hours.zip vals).filter fun q => onChart p.minT p.maxT q.1.1).map fun q =>
    ((psyCell p.minT p.maxT q.1.1 q.1.2).1 * nT + (psyCell p.minT p.maxT q.1.1 q.1.2).2, q.2)
  (List.range (20 * nT)).filterMap fun i =>
    let vs := (cells.filter fun c => c.1 == i).map (·.2)
    if vs = [] then none else some (sumRat vs / (vs.length : Rat))

inductive POp where
  | readMatrix | readHourValues | readMesh
  | dataMesh (vals : List Rat)      -- refused unless `len(vals) == len(chart)`
  | setLegend                       -- edits of `legend_parameters`: no effect on what C17 speaks about
deriving Repr, DecidableEq

inductive POut where
  | unit
  | err (e : OErr)
  | nats (l : List Nat)
  | faces (f : List (Nat × Nat))
  | means (f : List (Nat × Nat)) (m : List Rat)
deriving Repr, DecidableEq

def PObj.nT (o : PObj) : Nat := (tCats o.pub.minT o.pub.maxT).length

def PObj.step (o : PObj) : POp → PObj × POut
  | .readMatrix => (o, .nats o.counts)
  | .readHourValues => (o, .nats (hourValues o.counts))
  | .readMesh =>
    match o.meshCache with
    | some f => (o, .faces f)
    | none => let f := facesOfCounts o.nT o.counts; ({ o with meshCache := some f }, .faces f)
  | .dataMesh vals =>
    if vals.length ≠ o.pub.hours.length then (o, .err .assert) else
    match o.meshCache with
    | some f => (o, .means f (cellMeans o.pub vals))
    | none =>
      let f := facesOfCounts o.nT o.counts
      ({ o with meshCache := some f }, .means f (cellMeans o.pub vals))
  | .setLegend => (o, .unit)

def PObj.run (o : PObj) : List POp → PObj × List POut
  | [] => (o, [])
  | op :: ops =>
    let r := o.step op
    let rs := r.1.run ops
    (rs.1, r.2 :: rs.2)

def PObj.Inv (o : PObj) : Prop :=
  o.counts = psyCounts o.pub.minT o.pub.maxT o.pub.hours ∧
  (o.meshCache = none ∨ o.meshCache = some (facesOfCounts o.nT o.counts))

/-! ## Hours per value of a psychrometric chart (round 6)

`PsychrometricChart.__init__` accepts each of temperature and relative humidity either as ONE number or
as a data collection.  `_check_input` is run on the temperature first and on the humidity second;
`_check_datacoll` (reached only for a collection) stores the hours that one value stands for
(`_time_multiplier`: 24 for a `DailyCollection`, `1 / timestep` for an hourly one) and the number of
values (`_calc_length`).  So the LATER collection decides, a number leaves both untouched, and two numbers
leave the initial 1.  `_compute_hour_values` multiplies every cell count by the multiplier. -/

/-- The form in which one of the two inputs is handed over. -/
inductive PForm where
  | const                 -- a number (or text of a number)
  | hourly (ts : Nat)     -- Hourly(Dis)ContinuousCollection of that timestep
  | daily                 -- DailyCollection
deriving Repr, DecidableEq

/-- What `_check_datacoll` stores for a collection; `none`: a number, `_check_datacoll` is not reached. -/
def PForm.hoursPer? : PForm → Option Rat
  | .const => none
  | .hourly ts => some (1 / (ts : Rat))
  | .daily => some 24

/-- `_time_multiplier` after `__init__` checked the temperature and then the humidity. -/
def hoursPerValue (t rh : PForm) : Rat :=
  match rh.hoursPer? with
  | some h => h
  | none => match t.hoursPer? with
    | some h => h
    | none => 1

/-- `_hour_values` of a chart whose inputs have the forms `t` and `rh`: the non-zero counts in matrix
    order, each times the hours one value stands for. -/
def cellHours (t rh : PForm) (counts : List Nat) : List Rat :=
  (hourValues counts).map fun (c : Nat) => ((c : Nat) : Rat) * hoursPerValue t rh

/-- `_calc_length`: the number of values of the later collection (a number is repeated that often). -/
def calcLength (t rh : PForm) (nT nRh : Nat) : Nat :=
  match rh with
  | .const => (match t with | .const => 1 | _ => nT)
  | _ => nRh

/-! ## Unit tests -/

private def wp : WPub := { n := 4, isSpeed := true, samples := [(0, 1), (359, 2), (45, 3), (44, 0), (180, 5), (1, 1)] }

#guard (WObj.fresh wp).toOption.map (fun o => (o.hist.map List.length, o.zeros)) = some ([3, 1, 1, 0], 1)
#guard (WObj.fresh wp).toOption.map (fun o =>
    (o.run [.setFreqHours 1, .setIntervals 2, .readHist, .readPrev, .setFreqHours 0, .readRealMax, .setIntervals 9,
            .readHist]).2)
  = some [.unit, .unit, .hist [[1, 1], [3], [5], []], .dirs [0], .err .assert, .nat 2, .unit,
          .hist [[1, 1, 2], [3], [5], []]]
#guard pyIndex (-1) 2 = some 1
#guard pyIndex (-3) 2 = none
#guard pyIndex 2 2 = none
#guard cellMeans ⟨0, 10, [(1/2, 3), (1/2, 4), (5, 50), (11, 50)]⟩ [2, 4, 7, 100] = [3, 7]
#guard cellHours .const (.hourly 4) [0, 3, 0, 8] = [3/4, 2]
#guard cellHours (.hourly 4) .const [0, 3, 0, 8] = [3/4, 2]
#guard cellHours .const .daily [2, 0] = [48]
#guard cellHours .const .const [1] = [1]

end PlotObj
