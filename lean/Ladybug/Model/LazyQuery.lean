/-
  C18 round 4 — READ-ONLY QUERY METHODS as operations of a history (no Mathlib).

  A public method that is not a setter (`AnalysisPeriod.is_time_included`, the `filter_by_*` / `group_by_*`
  methods of a collection, `Compass.ticks_from_angles`, ...) may LOAD cached attributes, filling them on the way
  exactly like a property read does, and answers with a function of the configuration and of the values it
  loaded.  `QOp` adds `use q` to the read / validated-set operations of `LazyHist.step`.
-/
import Ladybug.Model.LazyHist

namespace Lazy

/-- A read-only query method: the slots it loads (in this order, each filled on a miss like a read) and its
answer as a function of the configuration and the loaded values. -/
structure Query (Cfg Slot Val Ans : Type) where
  loads : List Slot
  ans : Cfg → List Val → Ans

inductive QOp (Slot Field FVal Q : Type) where
  | read (i : Slot)
  | set (k : Field) (x : FVal)
  | use (q : Q)

inductive QOut (Val Ans : Type) where
  | val (v : Val)
  | done
  | refused
  | ans (a : Ans)
  deriving Repr, DecidableEq

section
variable {Cfg Slot Val Field FVal Q Ans : Type} [DecidableEq Slot]

/-- One step of the object.  `use q` loads the slots of `q` through the cache and answers; it changes
nothing but the cache. -/
def stepQ (S : Spec Cfg Slot Val Field FVal) (valid : Field → FVal → Cfg → Bool)
    (Qs : Q → Query Cfg Slot Val Ans) (o : Obj Cfg Slot Val) :
    QOp Slot Field FVal Q → Obj Cfg Slot Val × QOut Val Ans
  | .read i => let r := read S o i; (r.2, .val r.1)
  | .set k x => if valid k x o.cfg then (set S o k x, .done) else (o, .refused)
  | .use q => let r := run S o ((Qs q).loads.map Op.read); (r.2, .ans ((Qs q).ans o.cfg r.1))

def runQ (S : Spec Cfg Slot Val Field FVal) (valid : Field → FVal → Cfg → Bool)
    (Qs : Q → Query Cfg Slot Val Ans) (o : Obj Cfg Slot Val) :
    List (QOp Slot Field FVal Q) → List (QOut Val Ans) × Obj Cfg Slot Val
  | [] => ([], o)
  | op :: ops =>
    let r := stepQ S valid Qs o op
    let rest := runQ S valid Qs r.1 ops
    (r.2 :: rest.1, rest.2)

/-- The public state: the accepted setter calls, in order; reads, query methods and refused calls do not
count. -/
def publicCfgQ (S : Spec Cfg Slot Val Field FVal) (valid : Field → FVal → Cfg → Bool) (c : Cfg) :
    List (QOp Slot Field FVal Q) → Cfg
  | [] => c
  | .read _ :: ops => publicCfgQ S valid c ops
  | .use _ :: ops => publicCfgQ S valid c ops
  | .set k x :: ops =>
    if valid k x c then publicCfgQ S valid (S.upd k x c) ops else publicCfgQ S valid c ops

/-- What a query method answers on an object with nothing cached wrongly: its answer function on the
configuration and on the defining expressions of the slots it loads. -/
def Query.spec (S : Spec Cfg Slot Val Field FVal) (q : Query Cfg Slot Val Ans) (c : Cfg) : Ans :=
  q.ans c (q.loads.map fun i => S.f i c)

/-- The specification of a whole history: what every step must output. -/
def expectedQ (S : Spec Cfg Slot Val Field FVal) (valid : Field → FVal → Cfg → Bool)
    (Qs : Q → Query Cfg Slot Val Ans) (c : Cfg) :
    List (QOp Slot Field FVal Q) → List (QOut Val Ans)
  | [] => []
  | .read i :: ops => .val (S.f i c) :: expectedQ S valid Qs c ops
  | .use q :: ops => .ans ((Qs q).spec S c) :: expectedQ S valid Qs c ops
  | .set k x :: ops =>
    if valid k x c then .done :: expectedQ S valid Qs (S.upd k x c) ops
    else .refused :: expectedQ S valid Qs c ops

/-- The history without its query-method calls. -/
def dropUse : List (QOp Slot Field FVal Q) → List (QOp Slot Field FVal Q)
  | [] => []
  | .use _ :: ops => dropUse ops
  | op :: ops => op :: dropUse ops

/-- The outputs of the reads and setter calls only (the answers of query methods removed). -/
def QOut.isAns : QOut Val Ans → Bool
  | .ans _ => true
  | _ => false

end

end Lazy

namespace Lazy

/-! ## several objects in one process (round 4, `isolated` histories)

The specification has no state outside the objects: a world is a family of objects, an operation is addressed to
one of them. -/

section
variable {Cfg Slot Val Field FVal Q Ans : Type} [DecidableEq Slot]

/-- one operation on object `j` of a world of objects -/
def stepW (S : Spec Cfg Slot Val Field FVal) (valid : Field → FVal → Cfg → Bool)
    (Qs : Q → Query Cfg Slot Val Ans) (w : Nat → Obj Cfg Slot Val) (j : Nat)
    (op : QOp Slot Field FVal Q) : Nat → Obj Cfg Slot Val :=
  fun k => if k = j then (stepQ S valid Qs (w j) op).1 else w k

/-- a history of addressed operations -/
def runW (S : Spec Cfg Slot Val Field FVal) (valid : Field → FVal → Cfg → Bool)
    (Qs : Q → Query Cfg Slot Val Ans) (w : Nat → Obj Cfg Slot Val) :
    List (Nat × QOp Slot Field FVal Q) → Nat → Obj Cfg Slot Val
  | [] => w
  | (j, op) :: ops => runW S valid Qs (stepW S valid Qs w j op) ops

end

end Lazy
