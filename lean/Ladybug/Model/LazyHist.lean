/-
  C18 round 3 — object state machines WITH REFUSED OPERATIONS (no Mathlib).

  (a) generic memo object: `step` = read | validated set; a set whose arguments the class rejects
      returns the unchanged object and the output `refused`.
  (b) table machine: `XOp` adds `refuse s` (a call of setter `s` that is rejected): the machine performs
      exactly the assignments the translator found BEFORE the last statement that can refuse
      (`Setter.early`), clears nothing, and marks every cached entry that read one of them stale.
-/
import Ladybug.Model.Lazy

namespace Lazy

/-! ## (a) generic object state machine -/

inductive HOp (Slot Field FVal : Type) where
  | read (i : Slot)
  | set (k : Field) (x : FVal)

inductive Out (Val : Type) where
  | val (v : Val)
  | done
  | refused
  deriving Repr, DecidableEq

section
variable {Cfg Slot Val Field FVal : Type} [DecidableEq Slot]

/-- One step of the object: a read answers with a value (filling the slot on a miss); a setter call
whose argument is valid for the current public state updates the state (`done`); an invalid one is
refused and returns the object UNCHANGED. -/
def step (S : Spec Cfg Slot Val Field FVal) (valid : Field → FVal → Cfg → Bool) (o : Obj Cfg Slot Val) :
    HOp Slot Field FVal → Obj Cfg Slot Val × Out Val
  | .read i => let r := read S o i; (r.2, .val r.1)
  | .set k x => if valid k x o.cfg then (set S o k x, .done) else (o, .refused)

/-- Run a history; outputs of all steps and the final object. -/
def runH (S : Spec Cfg Slot Val Field FVal) (valid : Field → FVal → Cfg → Bool) (o : Obj Cfg Slot Val) :
    List (HOp Slot Field FVal) → List (Out Val) × Obj Cfg Slot Val
  | [] => ([], o)
  | op :: ops =>
    let r := step S valid o op
    let rest := runH S valid r.1 ops
    (r.2 :: rest.1, rest.2)

/-- The public state the user has established: the accepted setter calls, in order (reads and refused
calls do not count). -/
def publicCfg (S : Spec Cfg Slot Val Field FVal) (valid : Field → FVal → Cfg → Bool) (c : Cfg) :
    List (HOp Slot Field FVal) → Cfg
  | [] => c
  | .read _ :: ops => publicCfg S valid c ops
  | .set k x :: ops => if valid k x c then publicCfg S valid (S.upd k x c) ops else publicCfg S valid c ops

/-- The same history without the refused calls, as a history of the plain machine. -/
def accepted (S : Spec Cfg Slot Val Field FVal) (valid : Field → FVal → Cfg → Bool) (c : Cfg) :
    List (HOp Slot Field FVal) → List (Op Slot Field FVal)
  | [] => []
  | .read i :: ops => .read i :: accepted S valid c ops
  | .set k x :: ops =>
    if valid k x c then .set k x :: accepted S valid (S.upd k x c) ops else accepted S valid c ops

end

/-! ## (b) table machine with refused setter calls -/

inductive XOp where
  | get (g : Nat)
  | put (s : Nat)
  | refuse (s : Nat)
  deriving Repr, DecidableEq

/-- A refused call of setter `s`: it has assigned `s.early` (and nothing else), cleared nothing. -/
def stepRefuse (t : ClassTable) (s : Setter) (st : TState) : TState :=
  if s.early.isEmpty then st else stepPut t { s with writes := s.early, clears := [] } st

def runX (t : ClassTable) : TState → List XOp → List Verdict
  | _, [] => []
  | st, .get gi :: ops =>
    match t.getters[gi]? with
    | some g => let r := stepGet t g st; r.1 :: runX t r.2 ops
    | Option.none => runX t st ops
  | st, .put si :: ops =>
    match t.setters[si]? with
    | some s => runX t (stepPut t s st) ops
    | Option.none => runX t st ops
  | st, .refuse si :: ops =>
    match t.setters[si]? with
    | some s => runX t (stepRefuse t s st) ops
    | Option.none => runX t st ops

def XOp.toT : XOp → Option TOp
  | .get g => some (.get g)
  | .put s => some (.put s)
  | .refuse _ => Option.none

namespace ClassTable

/-- No setter / in-place method has assigned anything when it can still refuse the call. -/
def refusalSafe (t : ClassTable) : Bool := t.setters.all fun s => s.early.isEmpty

end ClassTable

/-! ## (c) settings as independent fields (round 5)

The public state of a chart / rose / compass / profile is a record of settings, one per setter.  A setter call
`k := x` on configuration `c` leaves field `k` holding `put k x c` - the argument, a converted argument, or (a
silent skip / a clamp) something that depends on the current configuration - and no other field changed. -/

structure FieldSetters (Field FVal : Type) where
  /-- the fields the code of setter `k` looks at -/
  reads : Field → List Field
  put : Field → FVal → (Field → FVal) → FVal

namespace FieldSetters
variable {Field FVal : Type} [DecidableEq Field]

def upd (F : FieldSetters Field FVal) (k : Field) (x : FVal) (c : Field → FVal) : Field → FVal :=
  fun j => if j = k then F.put k x c else c j

/-- a sequence of setter calls, first call first -/
def apply (F : FieldSetters Field FVal) (c : Field → FVal) (calls : List (Field × FVal)) : Field → FVal :=
  calls.foldl (fun c p => F.upd p.1 p.2 c) c

/-- `reads` is honest: the setter's code sees nothing but the fields listed there -/
def Local (F : FieldSetters Field FVal) : Prop :=
  ∀ k x c c', (∀ j ∈ F.reads k, c j = c' j) → F.put k x c = F.put k x c'

/-- setter frame (the semantic content of `ClassTable.setterFrame`): a setter looks at its own field only -/
def OwnOnly (F : FieldSetters Field FVal) : Prop := ∀ k, ∀ j ∈ F.reads k, j = k

/-- the memo object over such a record of settings -/
def toSpec {Slot Val : Type} (F : FieldSetters Field FVal) (f : Slot → (Field → FVal) → Val)
    (resets : Field → List Slot) : Spec (Field → FVal) Slot Val Field FVal := ⟨f, F.upd, resets⟩

def setOps {Slot : Type} (calls : List (Field × FVal)) : List (Op Slot Field FVal) :=
  calls.map fun p => Op.set p.1 p.2

end FieldSetters

/-- The two Y-axis limits of one data type of a monthly chart AS THE CODE IS: `set_minimum_by_index` /
`set_maximum_by_index` store the argument unconditionally (field `false` = minimum, `true` = maximum). -/
def chartLimits : FieldSetters Bool Int := ⟨fun k => [k], fun _ x _ => x⟩

/-- Defect shape "cross-field check with a silent skip": a minimum at or above the current maximum and a
maximum at or below the current minimum are ignored. -/
def chartLimitsSkip : FieldSetters Bool Int :=
  ⟨fun k => [k, !k], fun k x c =>
    if k = false then (if x ≥ c true then c false else x) else (if x ≤ c false then c true else x)⟩

end Lazy
