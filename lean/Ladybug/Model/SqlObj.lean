/-
  Object state machine of `SQLiteResult` (ladybug/sql.py) for request histories.  No Mathlib.

  A `SQLiteResult` has no setters; its only state are the slots that are filled the first time a
  property is read (`_available_outputs`, `_available_outputs_info`, `_reporting_frequency`,
  `_run_period_indices`), each guarded by Python truthiness (`if not self._x:`), plus the file it
  points to (never written).  `step` executes one public request on such an object exactly as the
  code does – the three timeseries queries never touch a slot, the property reads fill them – and
  returns the new object and the observation.  The specification is that the slots are invisible:
  every observation after every history equals the observation of a fresh object of the same file
  (`C19_history_refines_fresh` in Props/C19.lean).

  Public state the user establishes = the file (`DB`).  Observations = the `Out` of each `Op`.
  The lists of `available_outputs(_info)` are Python `set` iterations: their order is not defined by
  the code; the model lists them in dictionary order and the harness compares them as multisets.
  `reporting_frequency` of a file with several frequency labels is the label of the *last* tuple of
  that set iteration: the model answers the last one in dictionary order and the driver says so
  (`ambiguous`), the harness then only checks membership and stability.
-/
import Ladybug.Model.Sql

namespace Sql

/-- `reporting_frequency`: a text label of the dictionary, or the steps per hour. -/
inductive RFreq where
  | label (s : String)
  | steps (n : Nat)
deriving DecidableEq, Repr

/-- One dictionary of `available_outputs_info`. -/
structure OutInfo where
  name : String
  objectType : String
  units : String
  dtype : DType
deriving DecidableEq, Repr

/-- `(Name, IndexGroup, Units, ReportingFrequency)` as `_extract_available_outputs` selects it. -/
abbrev OutTuple := String × String × String × String

/-- `set(outputs)`: the distinct tuples (listed in dictionary order). -/
def outputTuples (dict : List DictRow) : List OutTuple :=
  (dict.map fun r => (r.name, r.group, r.units, r.freq)).eraseDups

/-- `available_outputs`: one name per distinct tuple. -/
def outputNames (dict : List DictRow) : List String := (outputTuples dict).map (·.1)

/-- One `available_outputs_info` entry: `J` relabelled `kWh`, then `_data_type_from_unit`. -/
def infoOf (t : OutTuple) : OutInfo :=
  ⟨t.1, t.2.1, (dataTypeFromUnit (relabel t.2.2.1) t.1).2, (dataTypeFromUnit (relabel t.2.2.1) t.1).1⟩

def outputInfos (dict : List DictRow) : List OutInfo := (outputTuples dict).map infoOf

/-- The frequency label `_extract_available_outputs` leaves in `_reporting_frequency`: that of the
    last tuple it iterates over (`none` for an empty dictionary: the slot keeps its value). -/
def lastLabel (dict : List DictRow) : Option String := (outputTuples dict).getLast?.map (·.2.2.2)

/-- The file has one frequency label only (then `lastLabel` does not depend on the set order). -/
def uniformLabel (dict : List DictRow) : Bool :=
  match dict with
  | [] => true
  | r :: rs => rs.all (·.freq == r.freq)

/-- Python `'Timestep' in s`. -/
def hasTimestep (s : String) : Bool := (s.splitOn "Timestep").length > 1

/-- `_extract_timestep`: `int(60 / Interval)` of the first `Time` row (`fetchone()`; no row gives
    `None[0]` = TypeError, interval 0 ZeroDivisionError). -/
def extractTimestep (time : List TimeRow) : Except Err Nat :=
  match time.head? with
  | none => .error .type
  | some r => if r.interval = 0 then .error .zero else .ok (60 / r.interval)

/-- Insert into a strictly increasing list. -/
def insertSorted (x : Nat) : List Nat → List Nat
  | [] => [x]
  | y :: ys => if x < y then x :: y :: ys else if x = y then y :: ys else y :: insertSorted x ys

/-- `SELECT EnvironmentPeriodIndex FROM Time GROUP BY EnvironmentPeriodIndex`: the distinct indices,
    ascending. -/
def runPeriodIndices (time : List TimeRow) : List Nat := (time.map (·.env)).foldr insertSorted []

/-- A `SQLiteResult`: the file and the lazily filled slots (`none` = Python `None`). -/
structure Obj (α : Type) where
  db : DB α
  rf : Option RFreq            -- _reporting_frequency
  ao : Option (List String)    -- _available_outputs
  ai : Option (List OutInfo)   -- _available_outputs_info
  ri : Option (List Nat)       -- _run_period_indices

/-- `SQLiteResult(file_path)`. -/
def Obj.fresh {α : Type} (db : DB α) : Obj α := ⟨db, none, none, none, none⟩

/-- A public request. -/
inductive Op where
  | queryAll (q : NameQuery)                       -- data_collections_by_output_name
  | queryRunPeriod (name : String) (env : Nat)     -- data_collections_by_output_name_run_period
  | values (q : NameQuery)                         -- values_by_output_name
  | availableOutputs
  | availableOutputsInfo
  | reportingFrequency
  | runPeriodIndices
  | malformed   -- a request the code rejects before it stores anything (argument of the wrong type,
                -- text that breaks the SQL statement, a summary table the file does not have)
deriving Repr

/-- What a request returns (or the error class it raises). -/
inductive Out (α : Type) where
  | result (r : Result α)
  | values (l : List α)
  | names (l : List String)
  | infos (l : List OutInfo)
  | freq (f : Option RFreq)
  | indices (l : List Nat)
  | error (e : Err)

def Out.ofResult {α : Type} : Except Err (Result α) → Out α
  | .ok r => .result r
  | .error e => .error e

/-- Python `not x` for a slot holding a list/tuple. -/
def falsyList {β : Type} : Option (List β) → Bool
  | none => true
  | some [] => true
  | some (_ :: _) => false

/-- Python `not x` for the `_reporting_frequency` slot. -/
def falsyRF : Option RFreq → Bool
  | none => true
  | some (.label s) => s == ""
  | some (.steps n) => n == 0

/-- `_extract_available_outputs`: fills three slots (the frequency slot only when the dictionary has a
    row). -/
def Obj.extract {α : Type} (o : Obj α) : Obj α :=
  { o with
    ao := some (outputNames o.db.dict)
    ai := some (outputInfos o.db.dict)
    rf := match lastLabel o.db.dict with
      | some s => some (.label s)
      | none => o.rf }

/-- One request on one object: new object and observation.  A request that raises leaves the object
    as the code leaves it (slots that were filled before the failure stay filled – with the values a
    fresh object would compute, see `Inv`). -/
def step {α : Type} (conv : α → α) (o : Obj α) : Op → Obj α × Out α
  | .queryAll q => (o, .ofResult (queryAll conv o.db q))
  | .queryRunPeriod name env => (o, .ofResult (queryRunPeriod conv o.db name env))
  | .values q => (o, .values (valuesByName o.db q))
  | .availableOutputs =>
    let o1 := if falsyList o.ao then o.extract else o
    (o1, .names (o1.ao.getD []))
  | .availableOutputsInfo =>
    let o1 := if falsyList o.ai then o.extract else o
    (o1, .infos (o1.ai.getD []))
  | .reportingFrequency =>
    let o1 := if falsyRF o.rf then o.extract else o
    match o1.rf with
    | some (.label s) =>
      if hasTimestep s then
        match extractTimestep o1.db.time with
        | .ok n => ({ o1 with rf := some (.steps n) }, .freq (some (.steps n)))
        | .error e => (o1, .error e)
      else (o1, .freq (some (.label s)))
    | r => (o1, .freq r)
  | .runPeriodIndices =>
    let o1 := if falsyList o.ri then { o with ri := some (runPeriodIndices o.db.time) } else o
    (o1, .indices (o1.ri.getD []))
  | .malformed => (o, .error .type)

/-- Run a history; the observations in order. -/
def run {α : Type} (conv : α → α) (o : Obj α) : List Op → Obj α × List (Out α)
  | [] => (o, [])
  | op :: ops =>
    let r := step conv o op
    let rs := run conv r.1 ops
    (rs.1, r.2 :: rs.2)

/-- The object after a history. -/
def after {α : Type} (conv : α → α) (o : Obj α) (ops : List Op) : Obj α := (run conv o ops).1

#guard outputNames [⟨1, "Zone", "Z1", "E", "Hourly", "J"⟩, ⟨2, "Zone", "Z2", "E", "Hourly", "J"⟩,
  ⟨3, "Zone", "Z1", "T", "Hourly", "C"⟩] = ["E", "T"]
#guard runPeriodIndices [⟨1, 0, 1, 1, 60, 1, 3⟩, ⟨2, 0, 1, 1, 60, 1, 1⟩, ⟨3, 0, 1, 1, 60, 1, 3⟩] = [1, 3]
#guard hasTimestep "Zone Timestep" && !hasTimestep "Hourly"
#guard extractTimestep [⟨1, 0, 1, 1, 10, -1, 1⟩] = .ok 6

end Sql
