/-
  Object state machine of `ladybug.sunpath.Sunpath` for property C11 (round 3).

  A `Sunpath` has six public, settable attributes (latitude, longitude, time_zone, north_angle,
  is_leap_year, daylight_saving_period) and NO other state: `__slots__` holds exactly these six.
  Every method the property speaks about (`is_daylight_saving_hour`, `calculate_sun*`,
  `calculate_sunrise_sunset*`, `analemma_suns`, `hourly_analemma_suns`, `day_arc3d`) is a read.
  The model therefore is: a record of the six attributes, `observe` = the pure functions of
  Model/SunTimes.lean evaluated on that record, `step` = setters that either store a checked value
  or refuse and leave the record alone.  That the real object behaves like this for arbitrary
  histories (no memo survives a setter, no refused call leaves a trace, no read changes anything)
  is what the `hist` op of drv_c11 is compared against, step by step, on one real object.

  Setters (sunpath.py 89-175):
    latitude / longitude / north_angle : `float(value)` (TypeError / ValueError for non-numbers),
        range assert on the radians; time_zone: `longitude / 15` when None, assert -12..14;
        is_leap_year: `bool(value)`; daylight_saving_period: None or an AnalysisPeriod (assert).
  The model describes the setters WITH fixes/C11_setters_validate_first.patch applied: a value that
  fails the range assert is not stored (the pinned code stored it first and asserted afterwards, so
  a refused `sp.latitude = 100` left the object at latitude 100).

  The stored time zone is a number: `time_zone = None` is resolved with the longitude the object
  has AT THAT MOMENT; a later change of the longitude does not move it (as documented in the
  longitude property).  No Mathlib.
-/
import Ladybug.Model.SunTimes

namespace SunpathObj

open Cal SunTimes

/-- Error classes of the line protocol (`harness.core.err_name`). -/
inductive OErr where
  | value | index | type | zero | assert | attr
deriving DecidableEq, Repr

def ofCal : Cal.Err → OErr
  | .value => .value
  | .index => .index
  | .type => .type

def ofA : AErr → OErr
  | .value => .value
  | .zero => .zero
  | .index => .index

def ofD : DErr → OErr
  | .dt e => ofCal e
  | .sun _ => .assert
  | .a e => ofA e

/-- The public state of a Sunpath: the six attributes (latitude, longitude, north in degrees as
    given to the setter; the time zone as stored). -/
structure Obj (α : Type) where
  lat : α
  lon : α
  tz : α
  north : α
  leap : Bool
  period : Option AP

/-- A question asked of the object (every argument already a value; arguments that cannot be
    built – a date that does not exist – never reach the object, see `Op.argErr`). -/
inductive Query (α : Type) where
  | isDst (d : DT)
  | sun (d : DT) (solar : Bool)
  | sunMDH (month day : Nat) (hour : α) (solar : Bool)
  | sunMoy (moy : Int) (solar : Bool)
  | riseSet (d : DT) (dep : α) (solar : Bool)
  | riseSetMD (month day : Nat) (dep : α) (solar : Bool)
  | analemma (hour minute : Nat) (daytime solar : Bool) (sm em : Nat) (steps : Int)
  | hourly (daytime solar : Bool) (sm em : Nat) (steps : Int)
  | dayArc (month day : Nat) (dep : α) (daytime : Bool)
  | unmodelled

/-- One operation of a history: a setter (with the outcome of converting its argument), a call
    whose argument could not be built, or a read. -/
inductive Op (α : Type) where
  | setLat (v : Except OErr α)
  | setLon (v : Except OErr α)
  | setNorth (v : Except OErr α)
  | setTz (v : Except OErr (Option α))
  | setLeap (b : Bool)
  | setPeriod (p : Except OErr (Option AP))
  | argErr (e : OErr)
  | rd (q : Query α)

/-- What one operation answers. -/
inductive Out (α : Type) where
  | done
  | flag (b : Bool)
  | sun (s : Sun.SunOut α × Bool)
  | riseSet (r : RiseSet)
  | suns (l : List (Sun.SunOut α × Bool))
  | sunss (l : List (List (Sun.SunOut α × Bool)))
  | arc (a : Option (ArcSuns α))
  | unmodelled
  | err (e : OErr)

def Out.isErr {α : Type} : Out α → Bool
  | .err _ => true
  | _ => false

section Generic

variable {α : Type} [Add α] [Sub α] [Mul α] [Div α] [Neg α] [OfScientific α] [LT α] [LE α]
  [DecidableLT α] [DecidableLE α] [Transc α]

/-! ### The range asserts of the setters -/

def latOk (v : α) : Bool :=
  decide (-((Sun.pi : α) / 2.0) ≤ Sun.rad v ∧ Sun.rad v ≤ (Sun.pi : α) / 2.0)

def lonOk (v : α) : Bool := decide (-(Sun.pi : α) ≤ Sun.rad v ∧ Sun.rad v ≤ (Sun.pi : α))

def tzOk (t : α) : Bool := decide (-(12.0 : α) ≤ t ∧ t ≤ 14.0)

def northOk (v : α) : Bool :=
  decide (-((Sun.pi : α) * 2.0) ≤ Sun.rad v ∧ Sun.rad v ≤ (Sun.pi : α) * 2.0)

/-- Every stored attribute passes the assert of its own setter. -/
def Obj.Valid (o : Obj α) : Prop :=
  latOk o.lat = true ∧ lonOk o.lon = true ∧ tzOk o.tz = true ∧ northOk o.north = true

/-- The configuration record of the pure functions. -/
def Obj.cfg (o : Obj α) : Sun.Cfg α := ⟨o.lat, o.lon, some o.tz, o.north, o.leap⟩

/-- `Sunpath(latitude, longitude, time_zone, north_angle, daylight_saving_period)`: the five setters
    in the order of `__init__`, `_is_leap_year = False`.  Any failing setter: no object. -/
def construct (lat lon : α) (tz : Option α) (north : α) (period : Option AP) : Except OErr (Obj α) :=
  if latOk lat = false then .error .assert
  else if lonOk lon = false then .error .assert
  else
    let t := Sun.timeZoneOf (Sun.rad lon) tz
    if tzOk t = false then .error .assert
    else if northOk north = false then .error .assert
    else .ok ⟨lat, lon, t, north, false, period⟩

variable (ofN : Nat → α) (toRat : α → Option Rat) (ofI : Int → α)

/-- The answer to a question: a pure function of the six attributes. -/
def observe (o : Obj α) : Query α → Out α
  | .isDst d => .flag (isDst o.period d.moy)
  | .sun d solar =>
    match sunOfDT ofN o.cfg o.period d solar with
    | .ok s => .sun s
    | .error _ => .err .assert
  | .sunMDH month day hour solar =>
    match hmOf toRat ofI hour with
    | none => .err .value
    | some hm =>
      match dtOfHM o.leap month day hm with
      | .error e => .err (ofCal e)
      | .ok d =>
        match sunOfDT ofN o.cfg o.period d solar with
        | .ok s => .sun s
        | .error _ => .err .assert
  | .sunMoy moy solar =>
    match fromMoy o.leap moy with
    | .error e => .err (ofCal e)
    | .ok d =>
      match sunOfDT ofN o.cfg o.period d solar with
      | .ok s => .sun s
      | .error _ => .err .assert
  | .riseSet d dep solar =>
    match riseSet ofN toRat ofI o.cfg o.period d dep solar with
    | .ok r => .riseSet r
    | .error e => .err (ofCal e)
  | .riseSetMD month day dep solar =>
    match riseSetMD ofN toRat ofI o.cfg o.period month day dep solar with
    | .ok r => .riseSet r
    | .error e => .err (ofCal e)
  | .analemma hour minute daytime solar sm em steps =>
    match analemmaSuns ofN o.cfg o.period hour minute daytime solar sm em steps with
    | .ok l => .suns l
    | .error e => .err (ofD e)
  | .hourly daytime solar sm em steps =>
    match hourlyAnalemmaSuns ofN o.cfg o.period daytime solar sm em steps with
    | .ok l => .sunss l
    | .error e => .err (ofD e)
  | .dayArc month day dep daytime =>
    match dayArcSuns ofN toRat ofI o.cfg o.period month day dep daytime with
    | .ok a => .arc a
    | .error e => .err (ofD e)
  | .unmodelled => .unmodelled

/-- One operation on the object: the new state and the answer.  A refused operation (an answer
    `err _`) returns the state it was given. -/
def step (o : Obj α) : Op α → Obj α × Out α
  | .setLat (.error e) => (o, .err e)
  | .setLat (.ok v) => if latOk v then ({ o with lat := v }, .done) else (o, .err .assert)
  | .setLon (.error e) => (o, .err e)
  | .setLon (.ok v) => if lonOk v then ({ o with lon := v }, .done) else (o, .err .assert)
  | .setNorth (.error e) => (o, .err e)
  | .setNorth (.ok v) => if northOk v then ({ o with north := v }, .done) else (o, .err .assert)
  | .setTz (.error e) => (o, .err e)
  | .setTz (.ok v) =>
    let t := Sun.timeZoneOf (Sun.rad o.lon) v
    if tzOk t then ({ o with tz := t }, .done) else (o, .err .assert)
  | .setLeap b => ({ o with leap := b }, .done)
  | .setPeriod (.error e) => (o, .err e)
  | .setPeriod (.ok p) => ({ o with period := p }, .done)
  | .argErr e => (o, .err e)
  | .rd q => (o, observe ofN toRat ofI o q)

/-- A history on one object: the final state and the answers in order. -/
def run (o : Obj α) : List (Op α) → Obj α × List (Out α)
  | [] => (o, [])
  | op :: ops =>
    let r := step ofN toRat ofI o op
    let rr := run r.1 ops
    (rr.1, r.2 :: rr.2)

/-- A fresh object built from the public state of `o`: the constructor on the five attributes it
    takes, then `is_leap_year = o.leap`. -/
def fresh (o : Obj α) : Except OErr (Obj α) :=
  match construct o.lat o.lon (some o.tz) o.north o.period with
  | .error e => .error e
  | .ok f => .ok (step ofN toRat ofI f (.setLeap o.leap)).1

end Generic

end SunpathObj
