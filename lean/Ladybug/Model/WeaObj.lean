/-
  Object state machine of `ladybug.wea.Wea` (round 3): ONE object, a history of setters, refused
  assignments and reads.  Built on the pure functions of `Model/Wea.lean`.  No Mathlib.

  The real object has two slots that are filled once in `__init__` and never again: `_timestep` and
  `_is_leap_year` (taken from the header of the direct-normal collection).  `datetimes`, `to_dict`,
  `get_irradiance_value` and every sun-path consumer read the SLOTS, not the header.  The setters of
  the two collections, of `location` and of `enforce_on_hour` are modelled as the code is:

    * `direct_normal_irradiance = c` : `isinstance` check, `c.is_collection_aligned(dhi)`, data-type
      check – all BEFORE the assignment; a refused assignment leaves the object as it was;
    * `is_collection_aligned` : same collection class and number of values; continuous collections compare
      the header periods, discontinuous ones compare the DATETIMES ONLY (not the header);
    * `location = v` : `isinstance(v, Location)` asserted before the assignment;
    * `enforce_on_hour = v` : `bool(v)`.

  Observations (`Obj.observe`) are what C12 speaks about: public datetimes, the lines of the file form, the
  header numbers, the `datetimes` key of the dictionary form, the values of both collections and
  the datetimes of the second collection (alignment).
-/
import Ladybug.Model.Wea

open Cal

namespace Wea

/-- One hourly collection as the Wea sees it (`cont` = `HourlyContinuousCollection`). -/
structure Coll1 where
  cont : Bool
  ap : AP
  dts : List DT
  vals : List Rat
deriving DecidableEq, Repr

/-- `a.is_collection_aligned(b)` (datacollection.py: the continuous class compares header periods,
    the base class used by discontinuous collections compares datetimes). -/
def alignedC (a b : Coll1) : Bool :=
  a.cont == b.cont && a.vals.length == b.vals.length &&
    (if a.cont then a.ap == b.ap else a.dts == b.dts)

/-- What is handed to a collection setter. -/
structure Cand where
  isColl : Bool        -- an hourly data collection at all
  typeOk : Bool        -- header data type is the one of the slot
  c : Coll1
deriving DecidableEq, Repr

/-- The object: public state (`loc`, `dni`, `dhi`, `onHour`) plus the two slots filled in `__init__`. -/
structure Obj where
  loc : Loc
  dni : Coll1
  dhi : Coll1
  onHour : Bool
  tsSlot : Nat          -- `_timestep`
  leapSlot : Bool       -- `_is_leap_year`
deriving DecidableEq, Repr

/-- `Wea(location, dni, dhi)`: the alignment is asserted, the slots are read from the first header. -/
def Obj.mk? (loc : Loc) (dni dhi : Coll1) : Except E Obj :=
  if alignedC dni dhi then .ok ⟨loc, dni, dhi, false, dni.ap.timestep, dni.ap.leap⟩ else .error .assert

/-- The public state of an object: everything but the slots. -/
structure Pub where
  loc : Loc
  dni : Coll1
  dhi : Coll1
  onHour : Bool
deriving DecidableEq, Repr

def Obj.pub (o : Obj) : Pub := ⟨o.loc, o.dni, o.dhi, o.onHour⟩

/-- A fresh object built from a public state: constructor, then `enforce_on_hour = onHour`. -/
def Pub.fresh (p : Pub) : Except E Obj :=
  match Obj.mk? p.loc p.dni p.dhi with
  | .ok o => .ok { o with onHour := p.onHour }
  | .error e => .error e

inductive Op where
  | setOnHour (b : Bool)
  | setLoc (l : Option Loc)        -- `none`: not a `Location`
  | setDni (c : Cand)
  | setDhi (c : Cand)
  | read
deriving DecidableEq, Repr

/-- The `W` the pure functions of `Model/Wea.lean` see: the collections, with the period carrying the
    SLOT values of timestep and leap flag (that is what `self.timestep` / `self.is_leap_year` return). -/
def Obj.asW (o : Obj) : W Rat :=
  ⟨o.dni.cont, { o.dni.ap with timestep := o.tsSlot, leap := o.leapSlot }, o.dni.dts, o.dni.vals, o.dhi.vals, o.onHour⟩

/-- Everything C12 speaks about, read off one object. -/
structure Obs where
  publicDts : List (Except Cal.Err DT)
  lines : Except E (List Line)
  header : Hdr
  dictDts : Option (List (List Nat))
  timestep : Nat
  leap : Bool
  cont : Bool
  dhiDts : List DT
  onHour : Bool
deriving Repr

def Obj.observe (o : Obj) : Obs :=
  let w := o.asW
  ⟨w.datetimes, toLines w, headerOf o.loc, (toDict w).datetimes, o.tsSlot, o.leapSlot, o.dni.cont, o.dhi.dts, o.onHour⟩

inductive Out where
  | done
  | refused (e : E)
  | obs (o : Obs)

/-- One operation on the object.  Refused operations return the unchanged object. -/
def step (o : Obj) : Op → Obj × Out
  | .setOnHour b => ({ o with onHour := b }, .done)
  | .setLoc (some l) => ({ o with loc := l }, .done)
  | .setLoc none => (o, .refused .assert)
  | .setDni c =>
    if c.isColl && alignedC c.c o.dhi && c.typeOk then ({ o with dni := c.c }, .done) else (o, .refused .assert)
  | .setDhi c =>
    if c.isColl && alignedC c.c o.dni && c.typeOk then ({ o with dhi := c.c }, .done) else (o, .refused .assert)
  | .read => (o, .obs o.observe)

def run (o : Obj) : List Op → Obj
  | [] => o
  | op :: rest => run (step o op).1 rest

/-- The specification side: what the USER has established, with no slots at all. -/
def Pub.apply (p : Pub) : Op → Pub
  | .setOnHour b => { p with onHour := b }
  | .setLoc (some l) => { p with loc := l }
  | .setLoc none => p
  | .setDni c => if c.isColl && alignedC c.c p.dhi && c.typeOk then { p with dni := c.c } else p
  | .setDhi c => if c.isColl && alignedC c.c p.dni && c.typeOk then { p with dhi := c.c } else p
  | .read => p

def Pub.applyAll (p : Pub) : List Op → Pub
  | [] => p
  | op :: rest => Pub.applyAll (p.apply op) rest

/-- A discontinuous candidate whose header carries the timestep and leap flag the Wea was built with
    (a continuous candidate needs no such condition: its header period is compared by the setter). -/
def Cand.headerFits (c : Cand) (o : Obj) : Prop :=
  c.c.cont = false → c.c.ap.timestep = o.tsSlot ∧ c.c.ap.leap = o.leapSlot

def Op.headerFits (op : Op) (o : Obj) : Prop :=
  match op with
  | .setDni c => c.headerFits o
  | _ => True

/-- The slots agree with the header they were read from, and the pair is aligned. -/
def Obj.Inv (o : Obj) : Prop :=
  o.tsSlot = o.dni.ap.timestep ∧ o.leapSlot = o.dni.ap.leap ∧ alignedC o.dni o.dhi = true

/-! ### Unit tests -/

def tDts : List DT := [⟨3, 1, 8, 0, false⟩, ⟨3, 1, 9, 0, false⟩]
def tDni : Coll1 := ⟨false, AP.annual false 1, tDts, [1, 2]⟩
def tDhi : Coll1 := ⟨false, AP.annual false 1, tDts, [3, 4]⟩
def tLoc : Loc := ⟨["X"], 0, 0, 0, 0⟩
/-- same datetimes, header says two steps per hour -/
def tDni2 : Coll1 := ⟨false, AP.annual false 2, tDts, [5, 6]⟩

#guard (Obj.mk? tLoc tDni tDhi).toOption.isSome
#guard (Obj.mk? tLoc tDni { tDhi with vals := [3] }).toOption.isNone
#guard ((Obj.mk? tLoc tDni tDhi).toOption.map fun o => (o.observe.publicDts)) =
  some [.ok ⟨3, 1, 8, 30, false⟩, .ok ⟨3, 1, 9, 30, false⟩]
#guard ((Obj.mk? tLoc tDni tDhi).toOption.map fun o => ((run o [.setDni ⟨true, true, tDni2⟩]).observe.publicDts)) =
  some [.ok ⟨3, 1, 8, 30, false⟩, .ok ⟨3, 1, 9, 30, false⟩]
#guard ((Obj.mk? tLoc tDni2 tDhi).toOption.map fun o => (o.observe.publicDts)) =
  some [.ok ⟨3, 1, 8, 0, false⟩, .ok ⟨3, 1, 9, 0, false⟩]

/-! ### `EPW.to_wea` (epw.py) -/

/-- One line of `EPW.to_wea`: month and day of the EPW datetime, `hour + 0.5` with `%.3f`, `%d` of both cells. -/
def epwLine (d : DT) (a b : Rat) : Line := ⟨d.month, d.day, d.hour * 1000 + 500, Py.truncRat a, Py.truncRat b⟩

/-- `EPW.to_wea(path, hoys)` on the (SI) cells of the two irradiance columns: `hoys or range(len)`, one line per
    listed hour of the year; an hour outside the year is an `IndexError` (non-negative indices only). -/
def epwAt (dts : List DT) (dni dhi : List Rat) (h : Nat) : Except E Line :=
  match dts[h]?, dni[h]?, dhi[h]? with
  | some d, some a, some b => .ok (epwLine d a b)
  | _, _, _ => .error .index

def epwToWea (leap : Bool) (dni dhi : List Rat) (hoys : List Nat) : Except E (List Line) :=
  (if hoys.isEmpty then List.range (contDts (AP.annual leap 1)).length else hoys).mapM
    (epwAt (contDts (AP.annual leap 1)) dni dhi)

#guard (epwToWea false [1, 2, 3] [4, 5, 6] [2, 0]) = .ok [⟨1, 1, 2500, 3, 6⟩, ⟨1, 1, 500, 1, 4⟩]
#guard (epwToWea false [1, 2, 3] [4, 5, 6] [3]) = .error .index

end Wea
