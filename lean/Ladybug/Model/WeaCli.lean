/-
  Round 4 (C12): the step selection of `ladybug translate epw-to-wea … --analysis-period TEXT`
  (cli/translate.py:epw_to_wea → cli/_helper.py:_load_analysis_period_str → AnalysisPeriod.from_string →
  Wea.filter_by_analysis_period) on top of the analysis-period model `AP` (C04), whose `fromString` /
  `fromTokens` model the text form as the code reads it: the seven fields reach the constructor as
  STRINGS, every one goes through `int()`, and `is_overnight` / `is_reversed` are derived from the
  DateTimes built from those integers – not from the strings.  No Mathlib.

  Correspondence op: `cliap` (Drv/C12.lean, harness/props/c12.py).  Theorems: Props/C12.lean.
-/
import Ladybug.Model.Wea

open Cal

namespace Wea

/-- The selection `filter_by_analysis_period` makes on a time axis: the steps of the period, in the
    order of the period, that the axis holds (the position of the first datetime at that minute). -/
def periodSel (ap : AP) : Sel := fun dts =>
  some (ap.moys.filterMap fun (m : Nat) => dts.findIdx? (fun (d : DT) => d.moy == m))

/-- `_load_analysis_period_str`: `None`, the empty text and the word `None` mean "no filter". -/
def cliNoPeriod (text : Option String) : Bool :=
  match text with
  | none => true
  | some s => s == "" || s == "None"

/-- The analysis period `epw_to_wea` filters with, character level (executable; tied by correspondence). -/
def cliPeriod (text : String) : Except Cal.Err AP := AP.fromString text

/-- The same after tokenisation: the seven number tokens in the order of the text. -/
def cliPeriodTokens (toks : List (Option Int)) (leap : Bool) : Except Cal.Err AP := AP.fromTokens toks leap

/-- The selection of time steps `epw_to_wea` applies for a period text (token level); an error = the call is refused. -/
def cliSelTokens (toks : List (Option Int)) (leap : Bool) : Except Cal.Err Sel :=
  (cliPeriodTokens toks leap).map periodSel

/-- Minutes of the year the translator writes for a text, given the Wea's (timestep, leap):
    a period of another timestep or year kind is refused by the collections (`_check_analysis_period`). -/
def cliMoys (text : String) (ts : Nat) (leap : Bool) : Except E (List Nat) :=
  match cliPeriod text with
  | .error e => .error (E.ofCal e)
  | .ok ap => if ap.timestep = ts ∧ ap.leap = leap then .ok ap.moys else .error .assert

#guard cliMoys "1/1 to 1/1 between 8 and 10 @1" 1 false = .ok [480, 540, 600]
#guard cliMoys "01/01TO01/01BETWEEN08AND10@1" 1 false = .ok [480, 540, 600]
#guard cliMoys "1/1 to 1/2 between 22 and 1 @1" 1 false = .ok [1320, 1380, 1440, 1500]
#guard (cliMoys "6/21 to 9/21 between 8 and 16 @1" 1 false).toOption.map List.length = some 837
#guard (cliMoys "3/1 to 3/10 between 22 and 6 @1" 1 false).toOption.map List.length = some 81
#guard cliMoys "1/1 to 1/1 between 8 and 10 @1*" 1 false = .error .assert
#guard cliMoys "1/1 to 1/1 between 8 and 24 @1" 1 false = .error .value
#guard (periodSel ⟨1, 1, 1, 1, 1, 2, 1, false⟩ [⟨1, 1, 0, 0, false⟩, ⟨1, 1, 1, 0, false⟩, ⟨1, 1, 2, 0, false⟩, ⟨1, 1, 3, 0, false⟩])
    = some [1, 2]

/-! ### `get_irradiance_value_for_hoy` on an annual Wea -/

/-- `count = int(hoy * self.timestep)`: the argument is the product as the code forms it (the driver
    forms the IEEE product; theorems take any rational). -/
def getForHoyIndex (prod : Rat) : Int := Py.truncRat prod

/-- The hour of the year `Wea.hoys` reports for step `k` of an annual Wea on its own grid, exact. -/
def stepHoy (ts k : Nat) : Rat := ((60 * k / ts : Nat) : Rat) / 60

#guard getForHoyIndex (stepHoy 15 131069 * 15) = 131069
#guard getForHoyIndex (9006993096310783 / 68719476736) = 131068

/-! ### Round 6: the sub-period a continuous source is filtered with, and the three-hour lag of the Zhang-Huang input -/

/-- A day of the year lies on the days a whole-day source holds: between its first and its last day, BOTH included; for a
    source that wraps the year end, from its first day to 31 Dec or from 1 Jan to its last day. -/
def dayInside (src : AP) (doy : Nat) : Bool :=
  if src.isReversed then decide (src.stTime.doy ≤ doy) || decide (doy ≤ src.endTime.doy)
  else decide (src.stTime.doy ≤ doy) && decide (doy ≤ src.endTime.doy)

/-- `a_per.st_time.doy < src_st and (not wraps or a_per.st_time.doy > src_end)`. -/
def stOutside (src : AP) (doy : Nat) : Bool :=
  decide (doy < src.stTime.doy) && (!src.isReversed || decide (src.endTime.doy < doy))

/-- `a_per.end_time.doy > src_end and (not wraps or a_per.end_time.doy < src_st)`. -/
def endOutside (src : AP) (doy : Nat) : Bool :=
  decide (src.endTime.doy < doy) && (!src.isReversed || decide (doy < src.stTime.doy))

/-- `HourlyContinuousCollection._get_analysis_period_subset(a_per)` for a source with header period `src`: the period the
    collection is really filtered with.  An annual source takes the request as it is; otherwise hours are clipped to the source's
    window and a first / last day that lies outside the source's days is replaced by the source's own first / last day. -/
def subsetAP (src req : AP) : AP :=
  if src.isAnnual then req else
    let so := stOutside src req.stTime.doy
    let eo := endOutside src req.endTime.doy
    ⟨if so then src.st_month else req.st_month, if so then src.st_day else req.st_day,
     if req.st_hour < src.st_hour then src.st_hour else req.st_hour,
     if eo then src.end_month else req.end_month, if eo then src.end_day else req.end_day,
     if src.end_hour < req.end_hour then src.end_hour else req.end_hour, req.timestep, req.leap⟩

-- winter slice 21 Dec - 21 Mar: its last day, its first day, the days around the year end are taken as asked for
#guard subsetAP ⟨12, 21, 0, 3, 21, 23, 1, false⟩ ⟨3, 21, 0, 3, 21, 23, 1, false⟩ = ⟨3, 21, 0, 3, 21, 23, 1, false⟩
#guard subsetAP ⟨12, 21, 0, 3, 21, 23, 1, false⟩ ⟨12, 21, 0, 12, 21, 23, 1, false⟩ = ⟨12, 21, 0, 12, 21, 23, 1, false⟩
#guard subsetAP ⟨12, 21, 0, 3, 21, 23, 1, false⟩ ⟨12, 30, 0, 1, 2, 23, 1, false⟩ = ⟨12, 30, 0, 1, 2, 23, 1, false⟩
-- one day outside on either side: clipped to the slice
#guard subsetAP ⟨12, 21, 0, 3, 21, 23, 1, false⟩ ⟨3, 22, 0, 3, 22, 23, 1, false⟩ = ⟨12, 21, 0, 3, 21, 23, 1, false⟩
#guard subsetAP ⟨12, 21, 0, 3, 21, 23, 1, false⟩ ⟨12, 20, 5, 1, 1, 23, 1, false⟩ = ⟨12, 21, 5, 1, 1, 23, 1, false⟩
#guard subsetAP ⟨6, 1, 8, 6, 14, 17, 2, true⟩ ⟨5, 31, 0, 6, 15, 23, 2, true⟩ = ⟨6, 1, 8, 6, 14, 17, 2, true⟩
#guard subsetAP ⟨6, 1, 0, 6, 14, 23, 2, true⟩ ⟨6, 14, 0, 6, 14, 23, 2, true⟩ = ⟨6, 14, 0, 6, 14, 23, 2, true⟩

/-- `dry_bulb_temperature[count - (3 * a_per.timestep)]` of `Wea.from_zhang_huang_solar`: the position, in a series of `n` values
    with `ts` steps per hour, of the value of THREE HOURS before step `count` (a negative Python index counts from the end; outside
    `-n .. n-1` it is an IndexError = `none`). -/
def zhLagIndex (ts n count : Nat) : Option Nat :=
  if 3 * ts ≤ count then (if count - 3 * ts < n then some (count - 3 * ts) else none)
  else if 3 * ts - count ≤ n then some (n - (3 * ts - count)) else none

#guard zhLagIndex 1 48 5 = some 2
#guard zhLagIndex 4 192 12 = some 0
#guard zhLagIndex 4 192 11 = some 191
#guard zhLagIndex 2 48 0 = some 42
#guard zhLagIndex 12 24 0 = none

end Wea
