/-
  C14 — object-graph (heap) model of ladybug data collections.

  A heap of cells: `Hdr{data type, unit, analysis-period ref, metadata ref}`, `Meta` (dict), `Vals`
  (a Python list, or a tuple when `tuple = true`), `AP` (an AnalysisPeriod object; it has no setters),
  `Coll{header ref, values ref, datetimes, mutable flag, class, validated flag}`.
  Every deriving API operation allocates or ALIASES cells as the code of
  `_datacollectionbase.py` / `datacollection.py` / `datacollectionimmutable.py` / `windrose.py` does;
  mutators update cells.  `Mode.pinned` describes the tree as pinned (commit e9e4c14: shared headers,
  shared metadata dict in `_check_aligned_header`, mutable "immutable" collections, WindRose editing its
  argument); `Mode.fixed` describes the tree with the patches `fixes/C14_*.patch` applied.  The
  correspondence check runs `Mode.fixed` (harness/props/c14.py); theorems: Props/C14.lean.

  Value level: values are `Rat`; the only data type whose unit conversion is modelled is Temperature
  (units C/F/K; formulas as in datatype/temperature.py).  Values/datetimes of aggregations, validation and
  interpolation are *payload* (taken from the implementation): C03/C13 own those computations, C14 only
  models which cells the result is made of.  No Mathlib.

  Round 2: metadata values are tokens or references to nested list cells (`deepcopy` allocates new ones);
  plain Python lists that a caller passes as arguments are heap objects of their own (`Cell.vals _ false`
  as a live object, `Cell.args` for the list handed to `compute_function_aligned`); the area / time
  normalisations are deriving operations; Wea and EPW are composite objects (see the end of the file).
-/
import Ladybug.Py

namespace LbHeap

abbrev Ref := Nat

inductive Cls | hd | hc | daily | monthly | mph
deriving DecidableEq, Repr, Inhabited

inductive Err | attr | assert | value | index | zero | type | key
deriving DecidableEq, Repr, Inhabited

inductive Mode | pinned | fixed
deriving DecidableEq, Repr, Inhabited

/-- Metadata values are opaque tokens (the harness renders ints / strings / nested lists as text). -/
abbrev MV := String

/-- A metadata value: an opaque token, or a reference to a nested Python list (`Cell.mlist`). -/
inductive MVal | tok (s : MV) | lst (r : Ref)
deriving DecidableEq, Repr, Inhabited

/-- A metadata value as the API reports it. -/
inductive OV | tok (s : MV) | lst (l : List MV) | bad
deriving DecidableEq, Repr, Inhabited

inductive Operand | scalar (x : Rat) | coll (r : Ref)
deriving DecidableEq, Repr

structure Hdr where
  dtype : Nat
  unit : Nat
  ap : Ref
  md : Ref
deriving DecidableEq, Repr, Inhabited

structure Coll where
  hdr : Ref
  vals : Ref
  dts : List Nat
  isMut : Bool
  cls : Cls
  validated : Bool
  /-- `convert_to_culled_timestep` leaves a *list* in `_datetimes`; a list never equals a tuple, so
      such a collection is "not aligned" with an otherwise equal one (quirk of the code, kept). -/
  dtsList : Bool := false
deriving DecidableEq, Repr, Inhabited

/-- A composite object (Wea, EPW): some tags, an own metadata dict, cells it only reads (the Location
    of a Wea) and member collections. -/
structure Comp where
  kind : Nat
  tags : List Nat
  md : Ref
  shared : List Ref
  members : List Ref
deriving DecidableEq, Repr, Inhabited

inductive Cell
  | hdr (x : Hdr)
  | md (m : List (Nat × MVal))
  | mlist (l : List MV)
  | vals (v : List Rat) (tuple : Bool)
  | ap (a : List Nat)
  | coll (c : Coll)
  | args (l : List Operand)
  | loc (t : List MV)
  | comp (c : Comp)
deriving DecidableEq, Repr, Inhabited

/-- The heap: `cells r = none` for every `r ≥ next` (see `WF`). -/
structure Heap where
  cells : Ref → Option Cell
  next : Nat

def Heap.empty : Heap := ⟨fun _ => none, 0⟩

/-- Allocate a new cell; its reference is the old `next`. -/
def Heap.alloc (h : Heap) (c : Cell) : Heap × Ref :=
  (⟨fun r => if r = h.next then some c else h.cells r, h.next + 1⟩, h.next)

/-- Overwrite a cell in place (Python: attribute assignment / `list.__setitem__` / `dict.__setitem__`). -/
def Heap.write (h : Heap) (r : Ref) (c : Cell) : Heap :=
  ⟨fun r' => if r' = r then some c else h.cells r', h.next⟩

/-! ### Observation -/

/-- What the public API reports about a collection (the snapshot of the property). -/
structure Obs where
  cls : Cls
  isMut : Bool
  validated : Bool
  dtype : Nat
  unit : Nat
  ap : List Nat
  md : List (Nat × OV)
  dts : List Nat
  vals : List Rat
deriving DecidableEq, Repr, Inhabited

/-- The cells a collection is made of (`nested`: the list cells its metadata dict refers to). -/
structure Foot where
  coll : Ref
  hdr : Ref
  md : Ref
  ap : Ref
  vals : Ref
  isMut : Bool
  nested : List Ref
deriving DecidableEq, Repr, Inhabited

/-- The nested list cells of a metadata dict. -/
def mdRefs (m : List (Nat × MVal)) : List Ref :=
  m.filterMap fun p => match p.2 with | .lst r => some r | .tok _ => none

/-- The metadata as the API reports it (nested lists read through). -/
def obsMeta (cells : Ref → Option Cell) (m : List (Nat × MVal)) : List (Nat × OV) :=
  m.map fun p => (p.1, match p.2 with
    | .tok s => OV.tok s
    | .lst r => match cells r with | some (.mlist l) => OV.lst l | _ => OV.bad)

def getColl (h : Heap) (c : Ref) : Option Coll :=
  match h.cells c with | some (.coll k) => some k | _ => none
def getHdr (h : Heap) (r : Ref) : Option Hdr :=
  match h.cells r with | some (.hdr x) => some x | _ => none
def getMeta (h : Heap) (r : Ref) : Option (List (Nat × MVal)) :=
  match h.cells r with | some (.md m) => some m | _ => none
def getAP (h : Heap) (r : Ref) : Option (List Nat) :=
  match h.cells r with | some (.ap a) => some a | _ => none
def getVals (h : Heap) (r : Ref) : Option (List Rat × Bool) :=
  match h.cells r with | some (.vals v t) => some (v, t) | _ => none

def foot (h : Heap) (c : Ref) : Option Foot :=
  match getColl h c with
  | none => none
  | some k =>
    match getHdr h k.hdr with
    | none => none
    | some hd =>
      match getMeta h hd.md with
      | none => none
      | some m => some ⟨c, k.hdr, hd.md, hd.ap, k.vals, k.isMut, mdRefs m⟩

def obs (h : Heap) (c : Ref) : Option Obs :=
  match getColl h c with
  | none => none
  | some k =>
    match getHdr h k.hdr with
    | none => none
    | some hd =>
      match getMeta h hd.md, getAP h hd.ap, getVals h k.vals with
      | some m, some a, some (v, _) =>
        some ⟨k.cls, k.isMut, k.validated, hd.dtype, hd.unit, a, obsMeta h.cells m, k.dts, v⟩
      | _, _, _ => none

/-! ### Value level (Temperature only) -/

/-- Data types: 0 Temperature, 1 Energy, 2 EnergyIntensity, 3 Power, 4 EnergyFlux; the irradiance types
    of a Wea in W/m2: 10 DirectNormal, 11 DiffuseHorizontal, 12 GlobalHorizontal, 13 DirectHorizontal,
    14 Irradiance.
    Units: 0 C, 1 F, 2 K (Temperature); 4 kWh, 5 kWh/m2, 6 W, 7 W/m2 (the base units of the other four).
    Anything else is not acceptable (`ValueError`).  Unit *conversion* is modelled for Temperature only. -/
def unitOk (dtype u : Nat) : Bool :=
  (dtype = 0 && u ≤ 2) || (dtype = 1 && u = 4) || (dtype = 2 && u = 5) || (dtype = 3 && u = 6) ||
  (dtype = 4 && u = 7) || (10 ≤ dtype && dtype ≤ 14 && u = 7)

/-- Can the model convert between units of this data type? -/
def convOk (dtype : Nat) : Bool := dtype = 0

def toC (u : Nat) (v : Rat) : Rat :=
  if u = 1 then (v - 32) * 5 / 9 else if u = 2 then v - (273.15 : Rat) else v
def fromC (u : Nat) (v : Rat) : Rat :=
  if u = 1 then v * 9 / 5 + 32 else if u = 2 then v + (273.15 : Rat) else v

/-- `DataTypeBase._to_unit_base('C', values, unit, from_unit)`. -/
def convVals (frm to : Nat) (vs : List Rat) : List Rat := vs.map fun v => fromC to (toC frm v)

/-- Target unit of `Temperature.to_ip` / `to_si`. -/
def ipUnit (u : Nat) : Nat := if u = 1 then 1 else 1
def siUnit (u : Nat) : Nat := if u = 1 then 0 else u

def isHourly : Cls → Bool
  | .hd | .hc => true
  | _ => false

/-- `dict[k] = v` keeping insertion order. -/
def metaSet {α : Type} (m : List (Nat × α)) (k : Nat) (v : α) : List (Nat × α) :=
  if m.any (·.1 = k) then m.map fun p => if p.1 = k then (k, v) else p else m ++ [(k, v)]

/-! ### Allocation of a derived collection -/

inductive ApSrc | share (r : Ref) | new (a : List Nat)
deriving Repr
/-- The metadata dict of a new header: the source's dict itself, a deep copy of observed content (every
    nested list is a new cell), or a shallow copy (new dict, the same nested lists). -/
inductive MetaSrc | share (r : Ref) | new (m : List (Nat × OV)) | shallow (m : List (Nat × MVal))
deriving Repr
inductive ValSrc | share (r : Ref) | new (v : List Rat) (tuple : Bool)
deriving Repr
/-- Either the source's `Header` object itself (aliasing) or a new `Header`. -/
inductive HdrSrc
  | share (r : Ref)
  | new (dtype unit : Nat) (ap : ApSrc) (md : MetaSrc)
deriving Repr

structure NewSpec where
  hdr : HdrSrc
  vals : ValSrc
  dts : List Nat
  isMut : Bool
  cls : Cls
  validated : Bool
deriving Repr

def allocAp (h : Heap) : ApSrc → Heap × Ref
  | .share r => (h, r)
  | .new a => h.alloc (.ap a)
/-- `deepcopy(metadata)`: a new list cell for every nested list. -/
def allocMd (h : Heap) : List (Nat × OV) → Heap × List (Nat × MVal)
  | [] => (h, [])
  | (k, .lst l) :: rest =>
    let p := allocMd (h.alloc (.mlist l)).1 rest
    (p.1, (k, .lst (h.alloc (.mlist l)).2) :: p.2)
  | (k, .tok s) :: rest =>
    let p := allocMd h rest
    (p.1, (k, .tok s) :: p.2)
  | (k, .bad) :: rest =>
    let p := allocMd h rest
    (p.1, (k, .tok "?") :: p.2)

def allocMeta (h : Heap) : MetaSrc → Heap × Ref
  | .share r => (h, r)
  | .new m =>
    let p := allocMd h m
    p.1.alloc (.md p.2)
  | .shallow m => h.alloc (.md m)
def allocVals (h : Heap) : ValSrc → Heap × Ref
  | .share r => (h, r)
  | .new v t => h.alloc (.vals v t)
def allocHdr (h : Heap) : HdrSrc → Heap × Ref
  | .share r => (h, r)
  | .new dt u ap m =>
    let pa := allocAp h ap
    let pm := allocMeta pa.1 m
    pm.1.alloc (.hdr ⟨dt, u, pa.2, pm.2⟩)

/-- Build the object graph of a new collection. -/
def mkColl (h : Heap) (s : NewSpec) : Heap × Ref :=
  let ph := allocHdr h s.hdr
  let pv := allocVals ph.1 s.vals
  pv.1.alloc (.coll ⟨ph.2, pv.2, s.dts, s.isMut, s.cls, s.validated, false⟩)

/-- A spec that copies: new header, new metadata dict, and values that are a new list/tuple or an
    existing *tuple* cell (tuples cannot be edited).  The analysis period may be shared (no setters). -/
def NewSpec.Copying (h : Heap) (s : NewSpec) : Prop :=
  (∃ dt u ap m, s.hdr = .new dt u ap (.new m) ∧
      (∀ r, ap = .share r → ∃ a, h.cells r = some (.ap a))) ∧
  (∀ r, s.vals = .share r → (∃ v, h.cells r = some (.vals v true)) ∧ s.isMut = false) ∧
  (∀ v t, s.vals = .new v t → (s.isMut = true → t = false))

/-! ### Reading a source collection -/

structure Src where
  k : Coll
  hd : Hdr
  /-- the metadata dict as stored (values are tokens or references) -/
  rmd : List (Nat × MVal)
  /-- the metadata as observed (nested lists read through) -/
  md : List (Nat × OV)
  ap : List Nat
  vals : List Rat
  tuple : Bool
deriving Repr

def src (h : Heap) (c : Ref) : Except Err Src :=
  match getColl h c with
  | none => .error .type
  | some k =>
    match getHdr h k.hdr with
    | none => .error .type
    | some hd =>
      match getMeta h hd.md, getAP h hd.ap, getVals h k.vals with
      | some m, some a, some (v, t) => .ok ⟨k, hd, m, obsMeta h.cells m, a, v, t⟩
      | _, _, _ => .error .type

/-- `Header.duplicate()`: new Header, `analysis_period.duplicate()`, `deepcopy(metadata)`;
    optionally with another unit / period / an extra metadata key (edits the code applies to the copy). -/
def dupHdr (s : Src) (unit : Option Nat := none) (ap : Option (List Nat) := none)
    (extra : Option (Nat × MV) := none) (dtype : Option Nat := none) : HdrSrc :=
  .new (dtype.getD s.hd.dtype) (unit.getD s.hd.unit) (.new (ap.getD s.ap))
    (.new (match extra with | none => s.md | some (k, v) => metaSet s.md k (.tok v)))

/-- Header of an operator result / `to_immutable` / `to_mutable`: pinned code passes `self.header`. -/
def hdrOrShare (m : Mode) (pinnedShares : Bool) (s : Src) : HdrSrc :=
  if m = .pinned ∧ pinnedShares then .share s.k.hdr else dupHdr s

/-- Values cell of a result of class mutability `isMut`: `list(values)` / `tuple(values)`. -/
def newVals (isMut : Bool) (v : List Rat) : ValSrc := .new v (!isMut)

/-- AnalysisPeriod with another timestep (index 6 of the 8 fields). -/
def apWithTs (a : List Nat) (ts : Nat) : List Nat := a.set 6 ts

def apTs (a : List Nat) : Nat := a.getD 6 1

def validTs (ts : Nat) : Bool := [1, 2, 3, 4, 5, 6, 10, 12, 15, 20, 30, 60].contains ts

/-- Continuous collections check `len(values) == len(analysis_period)`; the others
    `len(values) == len(datetimes)` and `len(values) > 0`.  The harness only builds continuous
    collections whose period length equals the number of datetimes, so both read `dts`. -/
def checkVals (cls : Cls) (dts : List Nat) (n : Nat) : Bool :=
  if cls = .hc then n = dts.length else n = dts.length && n > 0

/-! ### Deriving operations -/

inductive BinOp | add | sub | mul | div
deriving DecidableEq, Repr

def BinOp.ap : BinOp → Rat → Rat → Rat
  | .add, a, b => a + b
  | .sub, a, b => a - b
  | .mul, a, b => a * b
  | .div, a, b => a / b

def zipW (f : Rat → Rat → Rat) : List Rat → List Rat → List Rat
  | a :: as, b :: bs => f a b :: zipW f as bs
  | _, _ => []

/-- `value` of `get_aligned_collection`: a number, a list literal, or a list object the caller holds. -/
inductive AlignVal | scalar (x : Rat) | list (v : List Rat) | listRef (r : Ref)
deriving Repr

/-- Interval of an aggregation (`_time_interval_operation` / `_monthly_operation`). -/
inductive Interval | daily | monthly | mph
deriving DecidableEq, Repr

def Interval.cls : Interval → Cls
  | .daily => .daily | .monthly => .monthly | .mph => .mph

inductive DOp
  | arith (op : BinOp) (x : Operand)
  | neg
  | dup
  | toMutable
  | toImmutable
  | toDisc
  | toUnit (u : Nat)
  | toIp
  | toSi
  | aligned (v : AlignVal) (unit : Option Nat) (mutable : Option Bool)
  | filterPattern (mask : List Bool)
  | filterRange (gt lt : Rat)
  | filterKeys (keys : List Nat)
  | filterAp (ap : List Nat) (keys : List Nat) (continuous : Bool)
  | cull (ts : Nat)
  | agg (iv : Interval) (opname : MV) (dts : List Nat) (vals : List Rat)
  | validate (ap : List Nat) (dts : List Nat) (vals : List Rat)
  | interpHoles (dts : List Nat) (vals : List Rat)
  | interpTs (ts : Nat) (dts : List Nat) (vals : List Rat)
  | cfa (x : Operand) (unit : Nat)
  /-- `compute_function_aligned` with the caller's own list object `[self, x]` (a `Cell.args`) -/
  | cfaRef (args : Ref) (unit : Nat)
  | normalize (area : Rat) (newType : MV)
  | aggregateArea (area : Rat) (newType : MV)
  | timeAgg
  | timeRate
deriving Repr

def keep {α : Type} (l : List α) (sel : Nat → Bool) : List α :=
  (l.zipIdx.filter fun p => sel p.2).map (·.1)

def maskAt (mask : List Bool) (i : Nat) : Bool := mask.getD (i % mask.length) false

/-- `_timestep_cull`: keep the datetimes whose minute of year is a multiple of the step length. -/
def cullSel (dts : List Nat) (ts : Nat) (i : Nat) : Bool :=
  match dts[i]? with | some d => d % (60 / ts) = 0 | none => false

/-- Result class of the value filters (`_enumeration['mutable'][type]`; continuous → discontinuous). -/
def filterCls : Cls → Cls
  | .hc => .hd
  | c => c

/-- validated flag of a filter result: base filters copy it; continuous set True;
    `filter_by_doys/months/months_per_hour` build a new collection (False). -/
def filterValidated (keysFilter : Bool) (s : Src) : Bool :=
  if s.k.cls = .hc then true
  else if keysFilter ∧ s.k.cls ≠ .hd then false else s.k.validated

/-- `sorted(zip(datetimes, values), key=position of the datetime in the period)` (stable). -/
def sortByKeys (order : List Nat) (d : List Nat) (v : List Rat) : List Nat × List Rat :=
  let pairs := (d.zip v).mergeSort fun a b => order.idxOf a.1 ≤ order.idxOf b.1
  (pairs.map (·.1), pairs.map (·.2))

def filtered (s : Src) (sel : Nat → Bool) (keysFilter : Bool) (ap : Option (List Nat) := none)
    (order : Option (List Nat) := none) : Except Err NewSpec :=
  let v := keep s.vals sel
  let d := keep s.k.dts sel
  if v.isEmpty then .error .assert
  else
    let dv := match order with | some o => sortByKeys o d v | none => (d, v)
    .ok ⟨dupHdr s none ap, newVals true dv.2, dv.1, true, filterCls s.k.cls, filterValidated keysFilter s⟩

/-- The key used by the model for the metadata entry `'operation'`. -/
def opKey : Nat := 0

/-- The key used by the model for the metadata entry `'type'`. -/
def typeKey : Nat := 4

/-- The `timestep` of `to_time_aggregated` / `to_time_rate_of_change`: steps per hour of an hourly
    collection, 1/24 for a daily one; the other classes do not have these methods. -/
def stepsPerHour (s : Src) : Option Rat :=
  if isHourly s.k.cls then some (apTs s.ap : Rat)
  else if s.k.cls = .daily then some ((1 : Rat) / 24) else none

/-- compute_function_aligned(lambda a, b: a + b, [self, x], Temperature(), unit) -/
def cfaSpec (m : Mode) (h : Heap) (s : Src) (x : Operand) (unit : Nat) : Except Err NewSpec :=
  if ¬ unitOk 0 unit then .error .value
  else do
    let vals ← match x with
      | .scalar q => pure (s.vals.map fun v => v + q)
      | .coll r => do
        let o ← src h r
        if s.k.cls ≠ o.k.cls ∨ s.vals.length ≠ o.vals.length ∨
            (if s.k.cls = .hc then s.ap ≠ o.ap else (s.k.dts ≠ o.k.dts ∨ s.k.dtsList ≠ o.k.dtsList)) then
          .error .value
        else pure (zipW (· + ·) s.vals o.vals)
    let vd := if s.k.cls = .hc then true else s.k.validated
    if s.k.isMut then
      let md : MetaSrc :=
        if m = .pinned ∧ ¬ s.md.isEmpty then .share s.hd.md else .new s.md
      pure ⟨.new 0 unit (.share s.hd.ap) md, newVals true vals, s.k.dts, true, s.k.cls, vd⟩
    else
      -- aligned collection is immutable -> `.to_mutable()`: pinned shares that new header (whose
      -- metadata is the source's dict), fixed duplicates it (new period object as well)
      if m = .pinned then
        let md : MetaSrc := if ¬ s.md.isEmpty then .share s.hd.md else .new s.md
        pure ⟨.new 0 unit (.share s.hd.ap) md, newVals true vals, s.k.dts, true, s.k.cls, vd⟩
      else
        pure ⟨.new 0 unit (.new s.ap) (.new s.md), newVals true vals, s.k.dts, true, s.k.cls, vd⟩

/-- The spec (what is allocated, what is aliased) of each deriving operation on collection `c`. -/
def specOf (m : Mode) (h : Heap) (c : Ref) (op : DOp) : Except Err NewSpec := do
  let s ← src h c
  match op with
  | .arith bop x =>
    let vals ← match x with
      | .scalar q =>
        if bop = .div ∧ q = 0 then .error .zero else pure (s.vals.map fun v => bop.ap v q)
      | .coll r => do
        let o ← src h r
        if s.k.cls ≠ o.k.cls then .error .assert
        else if s.vals.length ≠ o.vals.length then .error .assert
        else if bop = .div ∧ o.vals.any (· = 0) then .error .zero
        else pure (zipW bop.ap s.vals o.vals)
    pure ⟨hdrOrShare m (s.k.cls = .hc) s, newVals s.k.isMut vals, s.k.dts, s.k.isMut, s.k.cls,
          if s.k.cls = .hc then true else s.k.validated⟩
  | .neg =>
    pure ⟨hdrOrShare m (s.k.cls = .hc) s, newVals s.k.isMut (s.vals.map fun v => -v), s.k.dts, s.k.isMut,
          s.k.cls, if s.k.cls = .hc then true else s.k.validated⟩
  | .dup =>
    -- mutable: `list(self._values)`; immutable: `self._values` (the same tuple; on the pinned tree an
    -- "immutable" collection can hold a list after convert_to_unit, then `tuple(list)` is new)
    pure ⟨dupHdr s, if s.k.isMut ∨ ¬ s.tuple then newVals s.k.isMut s.vals else .share s.k.vals,
          s.k.dts, s.k.isMut, s.k.cls, if s.k.cls = .hc then true else s.k.validated⟩
  | .toMutable =>
    if s.k.isMut then
      pure ⟨dupHdr s, newVals true s.vals, s.k.dts, true, s.k.cls,
            if s.k.cls = .hc then true else s.k.validated⟩
    else
      pure ⟨hdrOrShare m true s, newVals true s.vals, s.k.dts, true, s.k.cls,
            if s.k.cls = .hc then true else s.k.validated⟩
  | .toImmutable =>
    if s.k.isMut then
      pure ⟨hdrOrShare m true s, newVals false s.vals, s.k.dts, false, s.k.cls,
            if s.k.cls = .hc then true else s.k.validated⟩
    else
      pure ⟨dupHdr s, if s.tuple then .share s.k.vals else newVals false s.vals, s.k.dts, false, s.k.cls,
            if s.k.cls = .hc then true else s.k.validated⟩
  | .toDisc =>
    if s.k.cls ≠ .hc then .error .attr
    else pure ⟨dupHdr s, newVals true s.vals, s.k.dts, true, .hd, true⟩
  | .toUnit u =>
    if ¬ convOk s.hd.dtype then .error .type
    else if ¬ unitOk s.hd.dtype u ∨ ¬ unitOk s.hd.dtype s.hd.unit then .error .value
    else pure ⟨dupHdr s (some u), newVals s.k.isMut (convVals s.hd.unit u s.vals), s.k.dts, s.k.isMut, s.k.cls,
               if s.k.cls = .hc then true else s.k.validated⟩
  | .toIp =>
    if ¬ convOk s.hd.dtype then .error .type
    else if ¬ unitOk s.hd.dtype s.hd.unit then .error .value
    else pure ⟨dupHdr s (some (ipUnit s.hd.unit)),
               newVals s.k.isMut (convVals s.hd.unit (ipUnit s.hd.unit) s.vals), s.k.dts, s.k.isMut, s.k.cls,
               if s.k.cls = .hc then true else s.k.validated⟩
  | .toSi =>
    if ¬ convOk s.hd.dtype then .error .type
    else if ¬ unitOk s.hd.dtype s.hd.unit then .error .value
    else pure ⟨dupHdr s (some (siUnit s.hd.unit)),
               newVals s.k.isMut (convVals s.hd.unit (siUnit s.hd.unit) s.vals), s.k.dts, s.k.isMut, s.k.cls,
               if s.k.cls = .hc then true else s.k.validated⟩
  | .aligned v unit mutable =>
    -- `_check_aligned_header`: Header(data_type, unit or self.unit, self.header.analysis_period, metadata)
    let u := unit.getD s.hd.unit
    if ¬ unitOk s.hd.dtype u then .error .value
    else
      let vals ← match v with
        | .scalar q => pure (List.replicate s.vals.length q)
        | .list l => if l.length ≠ s.vals.length then .error .assert else pure l
        | .listRef r =>
          match getVals h r with
          | some (l, _) => if l.length ≠ s.vals.length then .error .assert else pure l
          | none => .error .type
      let mt := mutable.getD s.k.isMut
      -- pinned: the source's metadata dict itself unless it is empty (`value or {}`)
      let md : MetaSrc :=
        if m = .pinned ∧ ¬ s.md.isEmpty then .share s.hd.md else .new s.md
      if ¬ checkVals s.k.cls s.k.dts vals.length then .error .assert
      else pure ⟨.new s.hd.dtype u (.share s.hd.ap) md, newVals mt vals, s.k.dts, mt, s.k.cls,
                 if s.k.cls = .hc then true else s.k.validated⟩
  | .filterPattern mask =>
    if mask.isEmpty then .error .zero else filtered s (maskAt mask) false
  | .filterRange gt lt =>
    filtered s (fun i => match s.vals[i]? with | some a => gt < a ∧ a < lt | none => false) false
  | .filterKeys keys =>
    filtered s (fun i => match s.k.dts[i]? with | some d => keys.contains d | none => false) true
  | .filterAp ap keys continuous =>
    if s.k.cls = .hc ∧ continuous then
      let sel := fun i => match s.k.dts[i]? with | some d => keys.contains d | none => false
      pure ⟨dupHdr s none (some ap), newVals true (keep s.vals sel), keep s.k.dts sel, true, .hc, true⟩
    else
      -- a discontinuous hourly collection returns its data in the time order of the period (41bd364)
      filtered s (fun i => match s.k.dts[i]? with | some d => keys.contains d | none => false) true
        (some ap) (if s.k.cls = .hd then some keys else none)
  | .cull ts =>
    if ¬ isHourly s.k.cls then .error .attr
    else if ¬ validTs ts then .error .assert
    else
      let sel := cullSel s.k.dts ts
      let v := keep s.vals sel
      if v.isEmpty then .error .assert
      else pure ⟨dupHdr s none (some (apWithTs s.ap ts)), newVals true v, keep s.k.dts sel, true, .hd, true⟩
  | .agg iv opname dts vals =>
    if iv ≠ .monthly ∧ ¬ isHourly s.k.cls then .error .attr
    else if iv = .monthly ∧ ¬ (isHourly s.k.cls ∨ s.k.cls = .daily) then .error .attr
    else if vals.isEmpty ∨ vals.length ≠ dts.length then .error .assert
    else
      let ap := if isHourly s.k.cls ∧ apTs s.ap ≠ 1 ∧ iv ≠ .mph then some (apWithTs s.ap 1) else none
      pure ⟨dupHdr s none ap (some (opKey, opname)), newVals true vals, dts, true, iv.cls, true⟩
  | .validate ap dts vals =>
    if s.k.cls = .hc then
      pure ⟨dupHdr s, if s.k.isMut ∨ ¬ s.tuple then newVals s.k.isMut s.vals else .share s.k.vals,
            s.k.dts, s.k.isMut, s.k.cls, true⟩
    else if vals.length ≠ dts.length ∨ vals.isEmpty then .error .assert
    else pure ⟨dupHdr s none (some ap), newVals true vals, dts, true, s.k.cls, true⟩
  | .interpHoles dts vals =>
    if s.k.cls = .hc then
      pure ⟨dupHdr s, if s.k.isMut ∨ ¬ s.tuple then newVals s.k.isMut s.vals else .share s.k.vals,
            s.k.dts, s.k.isMut, s.k.cls, true⟩
    else if s.k.cls ≠ .hd then .error .attr
    else if ¬ s.k.validated then .error .assert
    else pure ⟨dupHdr s, newVals true vals, dts, true, .hc, true⟩
  | .interpTs ts dts vals =>
    if s.k.cls ≠ .hc then .error .attr
    else if ts % apTs s.ap ≠ 0 then .error .assert
    else pure ⟨dupHdr s none (some (apWithTs s.ap ts)), newVals true vals, dts, true, .hc, true⟩
  | .cfa x unit => cfaSpec m h s x unit
  | .cfaRef args unit =>
    -- the caller's list is only read (fixes/C14_compute_function_aligned_list.patch)
    match h.cells args with
    | some (.args [.coll r, x]) => if r = c then cfaSpec m h s x unit else .error .type
    | _ => .error .type
  | .normalize area newType =>
    -- normalize_by_area: Energy -> EnergyIntensity, Power -> EnergyFlux
    match (if s.hd.dtype = 1 then some (2, 5) else if s.hd.dtype = 3 then some (4, 7) else none) with
    | none => .error .assert
    | some (dt, u) =>
      if area = 0 then .error .zero
      else pure ⟨dupHdr s (some u) none (if s.md.any (·.1 = typeKey) then some (typeKey, newType) else none)
                   (some dt),
                 newVals s.k.isMut (s.vals.map fun v => v / area), s.k.dts, s.k.isMut, s.k.cls,
                 if s.k.cls = .hc then true else s.k.validated⟩
  | .aggregateArea area newType =>
    match (if s.hd.dtype = 2 then some (1, 4) else if s.hd.dtype = 4 then some (3, 6) else none) with
    | none => .error .value
    | some (dt, u) =>
      pure ⟨dupHdr s (some u) none (if s.md.any (·.1 = typeKey) then some (typeKey, newType) else none)
              (some dt),
            newVals s.k.isMut (s.vals.map fun v => v * area), s.k.dts, s.k.isMut, s.k.cls,
            if s.k.cls = .hc then true else s.k.validated⟩
  | .timeAgg =>
    -- to_time_aggregated: Power -> Energy, EnergyFlux -> EnergyIntensity (factor 0.001 / timestep)
    match stepsPerHour s with
    | none => .error .attr
    | some ts =>
      match (if s.hd.dtype = 3 then some (1, 4) else if s.hd.dtype = 4 then some (2, 5) else none) with
      | none => .error .assert
      | some (dt, u) =>
        pure ⟨dupHdr s (some u) none none (some dt),
              newVals s.k.isMut (s.vals.map fun v => v * ((1 : Rat) / 1000 / ts)), s.k.dts, s.k.isMut,
              s.k.cls, if s.k.cls = .hc then true else s.k.validated⟩
  | .timeRate =>
    match stepsPerHour s with
    | none => .error .attr
    | some ts =>
      match (if s.hd.dtype = 1 then some (3, 6) else if s.hd.dtype = 2 then some (4, 7) else none) with
      | none => .error .value
      | some (dt, u) =>
        pure ⟨dupHdr s (some u) none none (some dt),
              newVals s.k.isMut (s.vals.map fun v => v / ((1 : Rat) / 1000 / ts)), s.k.dts, s.k.isMut,
              s.k.cls, if s.k.cls = .hc then true else s.k.validated⟩

/-- Run a deriving operation: the source cells are only read. -/
def derive (m : Mode) (h : Heap) (c : Ref) (op : DOp) : Except Err (Heap × Ref) :=
  match specOf m h c op with
  | .error e => .error e
  | .ok s => .ok (mkColl h s)

/-! ### Mutators -/

inductive MOp
  | convUnit (u : Nat)
  | convIp
  | convSi
  | setValues (v : List Rat)
  | setItem (i : Int) (x : Rat)
  | metaSet (k : Nat) (v : OV)
  | metaReplace (m : List (Nat × OV))
  | cullInplace (ts : Nat)
  /-- `coll.header.metadata[k].append(x)`: a nested list edited in place -/
  | metaAppend (k : Nat) (x : MV)
  /-- `coll.values = lst` with a list object the caller holds -/
  | setValuesRef (r : Ref)
  /-- internal to `EPW.to_file_string`: `v.append(v.pop(0))` / `v.insert(0, v.pop())` on `_values` -/
  | rotate (left : Bool)
  /-- harness only (`del coll._values[n:]`, to reach the failing path of the EPW export) -/
  | truncate (n : Nat)
deriving Repr

/-- Replace the values of `c` by a new list cell and set the header's unit in place. -/
def convertTo (h : Heap) (c : Ref) (s : Src) (u : Nat) : Heap :=
  let (h1, rv) := h.alloc (.vals (convVals s.hd.unit u s.vals) false)
  let h2 := h1.write c (.coll { s.k with vals := rv })
  h2.write s.k.hdr (.hdr { s.hd with unit := u })

/-- `v.append(v.pop(0))` -/
def rotL (v : List Rat) : List Rat := v.drop 1 ++ v.take 1
/-- `v.insert(0, v.pop())` -/
def rotR (v : List Rat) : List Rat := v.getLast?.toList ++ v.dropLast

/-- `values = v`: checks, then `self._values = list(v)`. -/
def setVals (h : Heap) (c : Ref) (s : Src) (v : List Rat) : Except Err Heap :=
  if ¬ s.k.isMut then .error .attr
  else if ¬ checkVals s.k.cls s.k.dts v.length then .error .assert
  else
    let p := h.alloc (.vals v false)
    pure (p.1.write c (.coll { s.k with vals := p.2 }))

def mutate (m : Mode) (h : Heap) (c : Ref) (op : MOp) : Except Err Heap := do
  let s ← src h c
  match op with
  | .convUnit u =>
    if ¬ s.k.isMut ∧ m = .fixed then .error .attr
    else if ¬ convOk s.hd.dtype then .error .type
    else if ¬ unitOk s.hd.dtype u ∨ ¬ unitOk s.hd.dtype s.hd.unit then .error .value
    else pure (convertTo h c s u)
  | .convIp =>
    if ¬ s.k.isMut ∧ m = .fixed then .error .attr
    else if ¬ convOk s.hd.dtype then .error .type
    else if ¬ unitOk s.hd.dtype s.hd.unit then .error .value
    else pure (convertTo h c s (ipUnit s.hd.unit))
  | .convSi =>
    if ¬ s.k.isMut ∧ m = .fixed then .error .attr
    else if ¬ convOk s.hd.dtype then .error .type
    else if ¬ unitOk s.hd.dtype s.hd.unit then .error .value
    else pure (convertTo h c s (siUnit s.hd.unit))
  | .setValues v => setVals h c s v
  | .setValuesRef r =>
    if ¬ s.k.isMut then .error .attr
    else match getVals h r with
      | some (v, _) => setVals h c s v
      | none => .error .type
  | .setItem i x =>
    if ¬ s.k.isMut then .error .attr
    else
      let n : Int := s.vals.length
      let j := if i < 0 then i + n else i
      if j < 0 ∨ j ≥ n then .error .index
      else pure (h.write s.k.vals (.vals (s.vals.set j.toNat x) s.tuple))
  | .metaSet k v =>
    -- `coll.header.metadata[k] = v` — the dict is edited in place, also for immutable collections
    match v with
    | .lst l =>
      let p := h.alloc (.mlist l)
      pure (p.1.write s.hd.md (.md (LbHeap.metaSet s.rmd k (.lst p.2))))
    | .tok t => pure (h.write s.hd.md (.md (LbHeap.metaSet s.rmd k (.tok t))))
    | .bad => .error .type
  | .metaReplace nm =>
    -- `coll.header.metadata = {...}` (the new dict and its nested lists are new objects)
    let p := allocMd h nm
    let pm := p.1.alloc (.md p.2)
    pure (pm.1.write s.k.hdr (.hdr { s.hd with md := pm.2 }))
  | .rotate left =>
    if ¬ s.k.isMut then .error .attr
    else pure (h.write s.k.vals (.vals (if left then rotL s.vals else rotR s.vals) s.tuple))
  | .truncate n =>
    if ¬ s.k.isMut then .error .attr
    else pure (h.write s.k.vals (.vals (s.vals.take n) s.tuple))
  | .metaAppend k x =>
    match s.rmd.find? (·.1 = k) with
    | none => .error .key
    | some (_, .tok _) => .error .attr
    | some (_, .lst r) =>
      match h.cells r with
      | some (.mlist l) => pure (h.write r (.mlist (l ++ [x])))
      | _ => .error .type
  | .cullInplace ts =>
    if ¬ isHourly s.k.cls then .error .attr
    else if ¬ s.k.isMut then .error .attr
    else if ¬ validTs ts then .error .assert
    else
      let sel := cullSel s.k.dts ts
      let (h1, ra) := h.alloc (.ap (apWithTs s.ap ts))
      let (h2, rv) := h1.alloc (.vals (keep s.vals sel) false)
      let h3 := h2.write c (.coll { s.k with vals := rv, dts := keep s.k.dts sel, dtsList := true })
      pure (h3.write s.k.hdr (.hdr { s.hd with ap := ra }))

/-! ### WindRose.__init__ (two aligned hourly collections in, two immutable collections out) -/

def ratMod360 (v : Rat) : Rat := v - 360 * ((v / 360).floor : Rat)

def alignedColl (a b : Src) : Bool :=
  a.k.cls = b.k.cls ∧ a.vals.length = b.vals.length ∧
    (if a.k.cls = .hc then a.ap = b.ap else (a.k.dts = b.k.dts ∧ a.k.dtsList = b.k.dtsList))

/-- Returns the heap and the two collections the chart keeps.  Only validated inputs are modelled
    (non-validated ones go through `validate_analysis_period` first, see `DOp.validate`).
    pinned: assigns `direction.values` in place (raises on an immutable argument) and shares headers. -/
def windrose (m : Mode) (h : Heap) (d a : Ref) : Except Err (Heap × Ref × Ref) := do
  let sd ← src h d
  let sa ← src h a
  if ¬ isHourly sd.k.cls ∨ ¬ isHourly sa.k.cls then .error .assert
  else if ¬ alignedColl sd sa then .error .assert
  else if ¬ sd.k.validated ∨ ¬ sa.k.validated then .error .type
  else
    let dv := sd.vals.map ratMod360
    match m with
    | .fixed =>
      let (h1, rd) := mkColl h ⟨dupHdr sd, newVals false dv, sd.k.dts, false, sd.k.cls,
                               if sd.k.cls = .hc then true else sd.k.validated⟩
      match derive .fixed h1 a .toImmutable with
      | .error e => .error e
      | .ok (h2, ra) => pure (h2, rd, ra)
    | .pinned =>
      if ¬ sd.k.isMut then .error .attr
      else
        let (h0, rv) := h.alloc (.vals dv false)
        let h0 := h0.write d (.coll { sd.k with vals := rv })
        match derive .pinned h0 d .toImmutable with
        | .error e => .error e
        | .ok (h1, rd) =>
          match derive .pinned h1 a .toImmutable with
          | .error e => .error e
          | .ok (h2, ra) => pure (h2, rd, ra)

/-! ### Building a source collection (every cell new) -/

def build (h : Heap) (cls : Cls) (isMut validated : Bool) (dtype unit : Nat) (ap : List Nat)
    (md : List (Nat × OV)) (dts : List Nat) (vals : List Rat) : Heap × Ref :=
  mkColl h ⟨.new dtype unit (.new ap) (.new md), newVals isMut vals, dts, isMut, cls, validated⟩

/-! ### Plain Python lists held by the caller -/

/-- A list object the caller holds (`lst = [..]`), to be passed as an argument later. -/
def newList (h : Heap) (v : List Rat) : Heap × Ref := h.alloc (.vals v false)

/-- The caller's list `[coll, x]` for `compute_function_aligned`. -/
def newArgs (h : Heap) (l : List Operand) : Heap × Ref := h.alloc (.args l)

/-- A constructor call `Collection(header, lst, datetimes)` with a list object: `list(values)`. -/
def buildFrom (h : Heap) (cls : Cls) (isMut validated : Bool) (dtype unit : Nat) (ap : List Nat)
    (md : List (Nat × OV)) (dts : List Nat) (lst : Ref) : Except Err (Heap × Ref) :=
  match getVals h lst with
  | some (v, _) =>
    if ¬ checkVals cls dts v.length then .error .assert
    else .ok (build h cls isMut validated dtype unit ap md dts v)
  | none => .error .type

inductive LOp | set (i : Int) (x : Rat) | append (x : Rat)
deriving Repr

/-- The caller edits his own list in place. -/
def mutList (h : Heap) (c : Ref) (op : LOp) : Except Err Heap :=
  match h.cells c with
  | some (.vals v false) =>
    match op with
    | .append x => .ok (h.write c (.vals (v ++ [x]) false))
    | .set i x =>
      let n : Int := v.length
      let j := if i < 0 then i + n else i
      if j < 0 ∨ j ≥ n then .error .index else .ok (h.write c (.vals (v.set j.toNat x) false))
  | _ => .error .type

/-! ### Observation of any live object -/

/-- What is observed of a live object of any kind: a collection's snapshot, the content of a plain list
    the caller holds, the items of an argument list. -/
structure CompObs where
  kind : Nat
  tags : List Nat
  md : List (Nat × OV)
  shared : List (Option (List MV))
  members : List (Option Obs)
deriving DecidableEq, Repr

inductive ObsAny
  | coll (o : Option Obs)
  | list (v : List Rat)
  | args (l : List Operand)
  | comp (o : CompObs)
  | none
deriving DecidableEq, Repr

/-- The nested list cells of the metadata dict stored at `r`. -/
def mdRefsAt (h : Heap) (r : Ref) : List Ref :=
  match h.cells r with | some (.md m) => mdRefs m | _ => []

def getLoc (h : Heap) (r : Ref) : Option (List MV) :=
  match h.cells r with | some (.loc t) => some t | _ => none

/-- What is observed of a composite object (a Wea, an EPW): its tags, its own metadata, its Location
    and the snapshots of its collections. -/
def obsComp (h : Heap) (x : Comp) : CompObs :=
  ⟨x.kind, x.tags, (match h.cells x.md with | some (.md m) => obsMeta h.cells m | _ => []),
   x.shared.map (getLoc h), x.members.map (obs h)⟩

def obsA (h : Heap) (c : Ref) : ObsAny :=
  match h.cells c with
  | some (.coll _) => .coll (obs h c)
  | some (.vals v false) => .list v
  | some (.args l) => .args l
  | some (.comp x) => .comp (obsComp h x)
  | _ => .none

/-! ### Wea: a Location, two irradiance collections, a metadata dict -/

def getComp (h : Heap) (c : Ref) : Option Comp :=
  match h.cells c with | some (.comp x) => some x | _ => none

/-- `{'source': .., 'country': .., 'city': ..}` from the Location tokens `[source, country, city]`. -/
def weaMd (loc : List MV) : List (Nat × OV) :=
  [(5, .tok (loc.getD 0 "?")), (7, .tok (loc.getD 1 "?")), (6, .tok (loc.getD 2 "?"))]

/-- A composite object around existing member collections: its own (new) metadata dict and cell. -/
def mkComp (h : Heap) (kind : Nat) (tags : List Nat) (shared : List Ref) (md : List (Nat × OV))
    (members : List Ref) : Heap × Ref :=
  let pm := allocMeta h (.new md)
  pm.1.alloc (.comp ⟨kind, tags, pm.2, shared, members⟩)

/-- Assemble a Wea around two member collections: its own metadata dict (built from the Location) and
    the Location (a new object or an existing one). -/
def mkWeaAt (pl : Heap × Ref) (tags : List Nat) (md : List (Nat × OV)) (d f : Ref) : Heap × Ref :=
  mkComp pl.1 0 tags [pl.2] md [d, f]

def mkWea (h : Heap) (tags : List Nat) (loc : Sum Ref (List MV))
    (md : List (Nat × OV)) (d f : Ref) : Heap × Ref :=
  match loc with
  | .inl r => mkWeaAt (h, r) tags md d f
  | .inr t => mkWeaAt (h.alloc (.loc t)) tags md d f

/-- `Wea.from_dict` (the constructors that build their own collections): two new collections that
    share one AnalysisPeriod object, each with its own metadata dict (a395d2d). -/
def weaNew (h : Heap) (loc : List MV) (tags : List Nat) (ap : List Nat) (dts : List Nat)
    (dni dhi : List Rat) (cont : Bool) : Except Err (Heap × Ref) :=
  let cls : Cls := if cont then .hc else .hd
  if dni.length ≠ dts.length ∨ dhi.length ≠ dts.length ∨ dts.isEmpty then .error .assert
  else
    let p1 := mkColl h ⟨.new 10 7 (.new ap) (.new (weaMd loc)), newVals true dni, dts, true, cls, cont⟩
    match (foot p1.1 p1.2).map (·.ap) with
    | none => .error .type
    | some ra =>
      let p2 := mkColl p1.1 ⟨.new 11 7 (.share ra) (.new (weaMd loc)), newVals true dhi, dts, true, cls, cont⟩
      .ok (mkWea p2.1 tags (.inr loc) (weaMd loc) p1.2 p2.2)

/-- `Wea.duplicate()`: Location, both collections and the metadata dict are copies. -/
def weaDup (h : Heap) (w : Ref) : Except Err (Heap × Ref) :=
  match getComp h w with
  | some ⟨0, tags, md, [l], [d, f]⟩ =>
    match getLoc h l, h.cells md with
    | some t, some (.md m) =>
      match derive .fixed h d .dup with
      | .error e => .error e
      | .ok (h1, d') =>
        match derive .fixed h1 f .dup with
        | .error e => .error e
        | .ok (h2, f') => .ok (mkWea h2 tags (.inr t) (obsMeta h.cells m) d' f')
    | _, _ => .error .type
  | _ => .error .type

/-- The same spec with the header's period being an existing AnalysisPeriod object. -/
def NewSpec.withAp (sp : NewSpec) : Option Ref → NewSpec
  | none => sp
  | some ra =>
    match sp.hdr with
    | .new dt u _ md => { sp with hdr := .new dt u (.share ra) md }
    | .share _ => sp

/-- The AnalysisPeriod object that `filter_by_analysis_period` hands to the second collection too. -/
def filterApRef (h1 : Heap) (d' : Ref) : DOp → Option Ref
  | .filterAp _ _ _ => (foot h1 d').map (·.ap)
  | _ => none

/-- `Wea.filter_by_*`: `Wea(self.location, dni.filter(..), dhi.filter(..))` – the Location object is the
    same, the collections are derived, the metadata dict is built anew from the Location. -/
def weaFilter (h : Heap) (w : Ref) (op : DOp) : Except Err (Heap × Ref) :=
  match getComp h w with
  | some ⟨0, tags, _, [l], [d, f]⟩ =>
    match getLoc h l with
    | some t =>
      match derive .fixed h d op with
      | .error e => .error e
      | .ok (h1, d') =>
        -- `filter_by_analysis_period` hands the same AnalysisPeriod object to both collections
        match specOf .fixed h1 f op with
        | .error e => .error e
        | .ok sp =>
          let p2 := mkColl h1 (sp.withAp (filterApRef h1 d' op))
          .ok (mkWea p2.1 [tags.getD 0 1, tags.getD 1 0, 0] (.inl l) (weaMd t) d' p2.2)
    | none => .error .type
  | _ => .error .type

/-- A collection derived from a Wea (`global_horizontal_irradiance`, `direct_horizontal_irradiance`, one
    result of `directional_irradiance`, …): new header with the period object of the direct-normal
    collection (or a copy of it: three of the four results of `directional_irradiance` come from
    `header.duplicate()`, 69061a8) and a deep copy of the Wea's metadata; the values are payload. -/
def weaDerived (h : Heap) (w : Ref) (dt : Nat) (shareAp : Bool) (vals : List Rat) :
    Except Err (Heap × Ref) :=
  match getComp h w with
  | some ⟨0, _, md, _, [d, _]⟩ =>
    match src h d, h.cells md with
    | .ok s, some (.md m) =>
      if vals.length ≠ s.vals.length then .error .assert
      else .ok (mkColl h ⟨.new dt 7 (if shareAp then .share s.hd.ap else .new s.ap)
                            (.new (obsMeta h.cells m)), newVals true vals, s.k.dts,
                          true, s.k.cls, s.k.cls = .hc⟩)
    | _, _ => .error .type
  | _ => .error .type

/-- `Wea(location, dni, dhi)` with collections the caller holds: the Wea KEEPS these two objects
    (container semantics; not a copying operation – see `C14_wea_init_keeps_references_counterexample`). -/
def weaInit (h : Heap) (loc : List MV) (d f : Ref) : Except Err (Heap × Ref) :=
  match src h d, src h f with
  | .ok sd, .ok sf =>
    if ¬ isHourly sd.k.cls ∨ ¬ isHourly sf.k.cls then .error .assert
    else if ¬ alignedColl sd sf then .error .assert
    else .ok (mkWea h [apTs sd.ap, sd.ap.getD 7 0, 0] (.inr loc) (weaMd loc) d f)
  | _, _ => .error .type

/-- A mutator applied to one of the collections of a composite object (`wea.direct_normal_irradiance…`). -/
def compMember (h : Heap) (w : Ref) (i : Nat) (op : MOp) : Except Err Heap :=
  match getComp h w with
  | some x =>
    match x.members[i]? with
    | some mb => mutate .fixed h mb op
    | none => .error .index
  | none => .error .type

/-! ### EPW: an IP flag, a metadata dict and its field collections (modelled: the two temperature fields) -/

def foldMembers (f : Heap → Ref → Except Err Heap) : Heap → List Ref → Except Err Heap
  | h, [] => .ok h
  | h, mb :: rest =>
    match f h mb with
    | .ok h1 => foldMembers f h1 rest
    | .error e => .error e

/-- A sequence of in-place steps on one collection. -/
def mutSeq (h : Heap) (mb : Ref) : List MOp → Except Err Heap
  | [] => .ok h
  | op :: rest =>
    match mutate .fixed h mb op with
    | .ok h1 => mutSeq h1 mb rest
    | .error e => .error e

def compSetTags (h : Heap) (w : Ref) (tags : List Nat) : Except Err Heap :=
  match getComp h w with
  | some x => .ok (h.write w (.comp { x with tags := tags }))
  | none => .error .type

/-- `EPW.from_missing_values()` with the two temperature fields filled in: every field has its own
    header and metadata dict, all share one AnalysisPeriod object. -/
def epwNew (h : Heap) (ap dts : List Nat) (db dp : List Rat) : Except Err (Heap × Ref) :=
  if db.length ≠ dts.length ∨ dp.length ≠ dts.length then .error .assert
  else
    let p1 := mkColl h ⟨.new 0 0 (.new ap) (.new []), newVals true db, dts, true, .hc, true⟩
    match (foot p1.1 p1.2).map (·.ap) with
    | none => .error .type
    | some ra =>
      let p2 := mkColl p1.1 ⟨.new 0 0 (.share ra) (.new []), newVals true dp, dts, true, .hc, true⟩
      .ok (mkComp p2.1 1 [0] [] [] [p1.2, p2.2])

def epwIsIp (x : Comp) : Bool := x.tags.getD 0 0 = 1

/-- `EPW.convert_to_ip()` / `convert_to_si()`: every field collection is converted in place. -/
def epwConvert (h : Heap) (e : Ref) (toIp : Bool) : Except Err Heap :=
  match getComp h e with
  | some x =>
    if epwIsIp x = toIp then .ok h
    else
      match foldMembers (fun h mb => mutSeq h mb [if toIp then .convIp else .convSi]) h x.members with
      | .ok h1 => compSetTags h1 e [if toIp then 1 else 0]
      | .error er => .error er
  | none => .error .type

/-- What `EPW.to_file_string` does to one (point-in-time) field: to SI if the object is IP, rotate the
    list, (write), rotate it back, back to IP – the last two in a `finally` block (f030132). -/
def exportOps (ip : Bool) : List MOp :=
  (if ip then [.convSi] else []) ++ [.rotate true, .rotate false] ++ (if ip then [.convIp] else [])

def exportCycle (ip : Bool) (h : Heap) (mb : Ref) : Except Err Heap := mutSeq h mb (exportOps ip)

/-- `EPW.to_file_string()`: `(exported, heap)`; `exported = false` is the `ValueError` of data that is
    not a full year – the object is restored in both cases. -/
def epwToFileString (h : Heap) (e : Ref) : Except Err (Bool × Heap) :=
  match getComp h e with
  | some x =>
    match foldMembers (exportCycle (epwIsIp x)) h x.members with
    | .ok h' =>
      .ok (x.members.all (fun mb => match src h mb with | .ok s => decide (8760 ≤ s.vals.length) | _ => false), h')
    | .error er => .error er
  | none => .error .type

/-- What `EPW.to_wea` does to a field: to SI and back (try/finally, 77cbf95). -/
def weaOps (ip : Bool) : List MOp := if ip then [.convSi, .convIp] else []

def weaCycle (ip : Bool) (h : Heap) (mb : Ref) : Except Err Heap := mutSeq h mb (weaOps ip)

/-- `EPW.to_wea(path, hoys)`: `exported = false` is the IndexError of an hour that is not in the data. -/
def epwToWea (h : Heap) (e : Ref) (hoys : List Nat) : Except Err (Bool × Heap) :=
  match getComp h e with
  | some x =>
    match foldMembers (weaCycle (epwIsIp x)) h x.members with
    | .ok h' => .ok (hoys.all (· < 8760), h')
    | .error er => .error er
  | none => .error .type

/-- `EPW.sky_temperature`: a new collection with a new annual period and (repaired) its own copy of the
    EPW's metadata dict; values are payload. -/
def epwSky (h : Heap) (e : Ref) (ap dts : List Nat) (vals : List Rat) : Except Err (Heap × Ref) :=
  match getComp h e with
  | some x =>
    match h.cells x.md with
    | some (.md m) =>
      .ok (mkColl h ⟨.new 0 0 (.new ap) (.new (obsMeta h.cells m)), newVals true vals, dts, true, .hc, true⟩)
    | _ => .error .type
  | none => .error .type

/-- `wea.metadata[k] = v`. -/
def compMetaSet (h : Heap) (w : Ref) (k : Nat) (v : MV) : Except Err Heap :=
  match getComp h w with
  | some x =>
    match h.cells x.md with
    | some (.md m) => .ok (h.write x.md (.md (metaSet m k (.tok v))))
    | _ => .error .type
  | none => .error .type

/-! ### Sharing signature -/

/-- Which of `_header`, `_header._metadata`, `_header._analysis_period`, `_values` (lists only: the
    identity of tuples is not state) of `r` are the same objects as those of `o`. -/
def shareColl (h : Heap) (r o : Ref) : String :=
  match foot h r, foot h o with
  | some fr, some fo =>
    let listCell := match getVals h fr.vals with | some (_, t) => !t | none => false
    (if fr.hdr = fo.hdr then "h" else "") ++ (if fr.md = fo.md then "m" else "") ++
    (if fr.ap = fo.ap then "a" else "") ++ (if fr.vals = fo.vals ∧ listCell = true then "v" else "") ++
    (if fr.nested.any (fo.nested.contains ·) then "l" else "")
  | _, _ => ""

/-- Sharing between collection `r` and live object `o` (a collection, a caller's list, a composite). -/
def shareSig (h : Heap) (r o : Ref) : String :=
  match h.cells o with
  | some (.coll _) => shareColl h r o
  | some (.vals _ false) =>
    match foot h r with | some fr => if fr.vals = o then "v" else "" | none => ""
  | some (.comp x) =>
    -- vs each member, and `M` when the header's metadata dict is the composite's own dict
    "/".intercalate (x.members.map (shareColl h r)) ++
      (match foot h r with | some fr => if fr.md = x.md then "M" else "" | none => "")
  | _ => ""

/-- Sharing signature of a new composite `c` against live object `o`: per member, `L` when they hold
    the same Location object, `D` when they hold the same metadata dict. -/
def shareComp (h : Heap) (c o : Ref) : String :=
  match getComp h c with
  | some x =>
    let own := "|".intercalate (x.members.map fun mb => shareSig h mb o)
    -- `L`: the same Location object; `D` (round 5): the composite's own metadata dict is `o`'s dict
    let loc := match getComp h o with
      | some y => (if x.shared.any (y.shared.contains ·) then "L" else "") ++ (if x.md = y.md then "D" else "")
      | none => ""
    own ++ loc
  | none => "?"

/-- Sharing between the members of one composite (e.g. the period object of a Wea's two collections). -/
def shareInner (h : Heap) (c : Ref) : String :=
  match getComp h c with
  | some ⟨_, _, _, _, [d, f]⟩ => shareColl h d f
  | _ => ""

end LbHeap
