/-
  Model of ladybug/sql.py (SQLiteResult: timeseries queries).  Hand-written from the code as it
  exists, quirks included.  No Mathlib.

  Layers
    1. list layer  (polymorphic in the value type `α`: values are only moved):
         `chunksOf`, `zipStar` (Python `zip(*rows)`), `partition` (= `_partition_timeseries`),
         `partitionChunks` (= `_partition_timeseries_chunks`), `accumulate`.
       The `_partition_and_convert_*` twins are the same functions after `List.map conv`.
    2. time-table layer: `mkPeriod` (the `AnalysisPeriod` constructor as sql.py calls it),
       `Period.len/doys/months`, `extractRunPeriod`, `allRunPeriods`.
    3. query layer: a database is three row lists (`DB`); `queryAll`
       (= `data_collections_by_output_name`), `queryRunPeriod`
       (= `data_collections_by_output_name_run_period`), `valuesByName`, `dataTypeFromUnit`.

  What is modelled rather than verified (trusted, exercised by the correspondence):
    * sqlite3: `SELECT … WHERE` = `List.filter` in rowid order, `ORDER BY TimeIndex` = a stable
      sort, `INNER JOIN Time` = lookup by primary key, scan order = rowid order;
    * `DateTime` / `AnalysisPeriod` constructors as far as sql.py reaches them (start hour 0,
      end hour 23).
  Correspondence ops: Drv/C19.lean.  Theorems: Props/C19.lean.
-/
import Ladybug.Py
import Ladybug.Model.Cal

namespace Sql

inductive Err where
  | value | index | type | attr | assert | zero
  | unmodelled    -- outside the modelled domain (Time.Interval > 60 for interval types <= 1)
deriving DecidableEq, Repr

/-! ## 1. List layer -/

section Lists
variable {α : Type}

/-- `[data[i:i + n] for i in range(0, len(data), n)]` for `n > 0`. -/
def chunksOf (n : Nat) (l : List α) : List (List α) :=
  (List.range ((l.length + n - 1) / n)).map fun i => (l.drop (i * n)).take n

/-- Length of the shortest row (`0` for no rows): the number of tuples `zip(*rows)` yields. -/
def minLen : List (List α) → Nat
  | [] => 0
  | r :: rs => rs.foldl (fun m r' => min m r'.length) r.length

/-- Column `k` of a list of rows (rows that are too short are skipped; never happens below
    `minLen`). -/
def column (rows : List (List α)) (k : Nat) : List α := rows.filterMap (·[k]?)

/-- Python `zip(*rows)`: one tuple per position, truncated to the shortest row. -/
def zipStar (rows : List (List α)) : List (List α) :=
  (List.range (minLen rows)).map (column rows)

/-- `SQLiteResult._partition_timeseries(data, n_lists)` on the value column, `n_lists > 0`.
    (`n_lists = 0` makes Python's `range` raise `ValueError`.) -/
def partition (data : List α) (n : Nat) : Except Err (List (List α)) :=
  if n = 0 then .error .value else .ok (zipStar (chunksOf n data))

/-- `SQLiteResult._accumulate`. -/
def accumulate (cs : List Nat) : List Nat :=
  (List.range cs.length).map fun j => (cs.take (j + 1)).sum

/-- `zero_cum_chunks[j]`. -/
def cumBefore (cs : List Nat) (j : Nat) : Nat := (cs.take j).sum

/-- `[data[start + i : start + i + n] for i in range(0, chunk * n, n)]` for `n > 0`. -/
def chunkRows (data : List α) (n start chunk : Nat) : List (List α) :=
  (List.range chunk).map fun i => (data.drop (start + i * n)).take n

/-- `SQLiteResult._partition_timeseries_chunks(data, chunks)` on the value column.
    `n_lists = int(len(data) / sum(chunks))`; an empty/zero chunk list divides by zero, and
    `n_lists = 0` makes `range(0, 0, 0)` raise `ValueError`. -/
def partitionChunks (data : List α) (cs : List Nat) : Except Err (List (List α)) :=
  if cs.sum = 0 then .error .zero
  else
    let n := data.length / cs.sum
    if n = 0 then .error .value
    else .ok ((List.range cs.length).flatMap fun j =>
      zipStar (chunkRows data n (cumBefore cs j * n) (cs.getD j 0)))

/-- The time-major stream EnergyPlus writes for rectangular columns `cols` (one list per key):
    at every time step one value per key, keys in dictionary order. -/
def interleave (cols : List (List α)) : List α := (zipStar cols).flatten

end Lists

/-! ## 2. Time table -/

/-- One row of the `Time` table (the columns sql.py reads). -/
structure TimeRow where
  idx : Nat
  year : Nat
  month : Nat
  day : Nat
  interval : Nat
  itype : Int
  env : Nat
deriving DecidableEq, Repr, Inhabited

/-- A ladybug `AnalysisPeriod` as observed through its public attributes. -/
structure Period where
  stMonth : Nat
  stDay : Nat
  stHour : Nat
  endMonth : Nat
  endDay : Nat
  endHour : Nat
  timestep : Nat
  leap : Bool
deriving DecidableEq, Repr, Inhabited

def validTimesteps : List Nat := [1, 2, 3, 4, 5, 6, 10, 12, 15, 20, 30, 60]

/-- `DateTime(month, day, 0)` / `DateTime(month, day, hour, leap_year=leap)`: ValueError if invalid. -/
def dtMake (month day hour : Nat) (leap : Bool) : Except Err Cal.DT :=
  match Cal.DT.make month day hour 0 leap with
  | .ok d => .ok d
  | .error _ => .error .value

/-- `AnalysisPeriod(st_month, st_day, st_hour, end_month, end_day, end_hour, timestep, leap)` for
    the integer arguments sql.py passes (`x or default` for zeros, end-day clamp, timestep check). -/
def mkPeriod (sm sd sh em ed eh ts : Nat) (leap : Bool) : Except Err Period := do
  let sm := if sm = 0 then 1 else sm
  let sd := if sd = 0 then 1 else sd
  let em := if em = 0 then 12 else em
  let ed := if ed = 0 then 31 else ed
  let ts := if ts = 0 then 1 else ts
  let st ← dtMake sm sd sh leap
  if em < 1 ∨ 12 < em then .error .index else
  let ed := if ed > Cal.monthLen leap em then Cal.monthLen leap em else ed
  let en ← dtMake em ed eh leap
  if ts ∈ validTimesteps then
    pure ⟨st.month, st.day, st.hour, en.month, en.day, en.hour, ts, leap⟩
  else .error .value

namespace Period

def stDoy (p : Period) : Nat := Cal.daysBefore p.leap p.stMonth + p.stDay
def endDoy (p : Period) : Nat := Cal.daysBefore p.leap p.endMonth + p.endDay

/-- `_is_reversed` (`st_time.hoy > end_time.hoy`). -/
def reversed (p : Period) : Bool :=
  decide ((p.endDoy - 1) * 24 + p.endHour < (p.stDoy - 1) * 24 + p.stHour)

/-- `len(period)` through the fast path (`st_hour == 0 and end_hour == 23`, the only periods sql.py
    builds). -/
def len (p : Period) : Nat :=
  if p.reversed then
    (((Cal.daysInYear p.leap - 1) * 24 + 23 - ((p.stDoy - 1) * 24 + p.stHour)) +
      ((p.endDoy - 1) * 24 + p.endHour) + 2) * p.timestep
  else ((p.endDoy - 1) * 24 + p.endHour + 1 - ((p.stDoy - 1) * 24 + p.stHour)) * p.timestep

/-- `doys_int`. -/
def doys (p : Period) : List Nat :=
  if p.reversed then
    List.range' p.stDoy (Cal.daysInYear p.leap + 1 - p.stDoy) ++ List.range' 1 p.endDoy
  else List.range' p.stDoy (p.endDoy + 1 - p.stDoy)

/-- `months_int`. -/
def months (p : Period) : List Nat :=
  if p.reversed then List.range' p.stMonth (13 - p.stMonth) ++ List.range' 1 p.endMonth
  else List.range' p.stMonth (p.endMonth + 1 - p.stMonth)

end Period

/-- `reporting_frequency` as `_extract_run_period` returns it: an `int` (steps per hour) for interval
    types `<= 1`, else one of the strings `'Daily'`, `'Monthly'`, `'Annual'`. -/
inductive Freq where
  | steps (n : Nat)
  | daily
  | monthly
  | annual
deriving DecidableEq, Repr

/-- The leap-year rule of `_extract_run_period`: `end[0] != 0 and end[0] % 4 == 0`. -/
def leapOfYear (year : Nat) : Bool := year != 0 && year % 4 == 0

/-- Frequency, analysis-period timestep and minutes per step from the first `Time` row. -/
def freqOf (s : TimeRow) : Except Err (Freq × Nat × Nat) :=
  if s.itype ≤ 1 then
    if s.interval = 0 then .error .zero
    else if 60 < s.interval then .error .unmodelled
    else .ok (.steps (60 / s.interval), 60 / s.interval, s.interval)
  else if s.itype = 2 then .ok (.daily, 1, 60)
  else if s.itype = 3 then .ok (.monthly, 1, 60)
  else if s.itype = 4 ∨ s.itype = 5 then .ok (.annual, 1, 60)
  else .error .index

/-- End hour after `DateTime(m, d, 0).add_minute(1440 - min_per_step)` (same day; `min_per_step <= 60`
    gives 23). -/
def endHourOf (mps : Nat) : Nat := (1440 - mps) / 60

/-- `_extract_run_period(st_time, end_time)` given the two `Time` rows (`fetchone()`; a missing row is
    `None` and subscripting it raises `TypeError`). -/
def extractRunPeriodRows (s e : Option TimeRow) : Except Err (Option Period × Freq × Bool) :=
  match s, e with
  | some s, some e => do
    let mult := s.env != e.env
    let (freq, ts, mps) ← freqOf s
    let leap := leapOfYear e.year
    if freq = .annual then pure (none, freq, mult) else
    let st ← dtMake s.month (if freq = .monthly then 1 else s.day) 0 leap
    let en ← dtMake e.month e.day 0 leap
    let p ← mkPeriod st.month st.day st.hour en.month en.day (endHourOf mps) ts leap
    pure (some p, freq, mult)
  | _, _ => .error .type

def findTime (time : List TimeRow) (i : Nat) : Option TimeRow := time.find? (·.idx == i)

def extractRunPeriod (time : List TimeRow) (st en : Nat) : Except Err (Option Period × Freq × Bool) :=
  extractRunPeriodRows (findTime time st) (findTime time en)

/-- The start `(month, day)` of a run period in `_extract_all_run_period`. -/
def mkStart (monthly : Bool) (leap : Bool) (r : TimeRow) : Except Err (Nat × Nat) := do
  let d ← dtMake r.month (if monthly then 1 else r.day) 0 leap
  pure (d.month, d.day)

/-- Close a run period at `Time` row `e`. -/
def closePeriod (st : Nat × Nat) (e : TimeRow) (ts : Nat) (leap : Bool) : Except Err Period := do
  let d ← dtMake e.month e.day 0 leap
  mkPeriod st.1 st.2 0 d.month d.day (endHourOf (60 / ts)) ts leap

/-- The loop of `_extract_all_run_period` over the remaining `Time` rows. -/
def allGo (monthly : Bool) (ts : Nat) (leap : Bool) :
    (Nat × Nat) → Nat → TimeRow → List TimeRow → Except Err (List Period)
  | st, _, prev, [] => do
    let p ← closePeriod st prev ts leap
    pure [p]
  | st, env, prev, r :: rs =>
    if r.env != env then do
      let p ← closePeriod st prev ts leap
      let st' ← mkStart monthly leap r
      let ps ← allGo monthly ts leap st' r.env r rs
      pure (p :: ps)
    else allGo monthly ts leap st env r rs

/-- `_extract_all_run_period(reporting_frequency, timestep, leap_year)` over the rows `time` it selects
    from the `Time` table, in rowid order (the caller `periodsOf` passes the rows of the data's own
    interval type: `ownIntervalType`). -/
def allRunPeriods (time : List TimeRow) (monthly : Bool) (ts : Nat) (leap : Bool) :
    Except Err (List Period) :=
  match time with
  | [] => .error .index
  | r0 :: rest =>
    if ts = 0 then .error .zero else do
    let st ← mkStart monthly leap r0
    allGo monthly ts leap st r0.env r0 rest

/-! ## 3. Queries -/

/-- One row of `ReportDataDictionary` (the columns sql.py reads). -/
structure DictRow where
  idx : Nat
  group : String
  key : String
  name : String
  freq : String
  units : String
deriving DecidableEq, Repr, Inhabited

/-- One row of `ReportData`. -/
structure DataRow (α : Type) where
  time : Nat
  dict : Nat
  value : α
deriving Repr

/-- The three tables, each in rowid order. -/
structure DB (α : Type) where
  dict : List DictRow
  time : List TimeRow
  data : List (DataRow α)

/-- `ladybug.datatype.UNITS` (base type -> unit abbreviations).  Copied by hand; the op `dtype` compares
    every entry (and unknown units) with the real table on every run. -/
def unitsTable : List (String × List String) := [
  ("VolumetricHeatCapacity", ["J/m3-K", "Btu/ft3-F", "kWh/m3-K", "kBtu/ft3-F", "kJ/m3-K", "MJ/m3-K"]),
  ("Time", ["hr", "min", "sec", "day"]),
  ("Conductivity", ["W/m-K", "Btu/h-ft-F", "cal/s-cm-C"]),
  ("Fraction", ["fraction", "%", "tenths", "thousandths", "okta"]),
  ("SpecificHeatCapacity", ["J/kg-K", "Btu/lb-F", "kWh/kg-K", "kBtu/lb-F", "kJ/kg-K"]),
  ("TemperatureTime", ["degC-days", "degF-days", "degC-hours", "degF-hours"]),
  ("TemperatureDelta", ["dC", "dF", "dK"]),
  ("EnergyIntensity", ["kWh/m2", "kBtu/ft2", "Wh/m2", "Btu/ft2", "kWh/ft2", "kBtu/m2"]),
  ("Energy", ["kWh", "kBtu", "Wh", "Btu", "MMBtu", "J", "kJ", "MJ", "GJ", "therm", "cal", "kcal"]),
  ("Conductance", ["W/K", "Btu/h-F"]),
  ("Temperature", ["C", "F", "K"]),
  ("Luminance", ["cd/m2", "cd/ft2"]),
  ("Density", ["kg/m3", "lb/ft3", "g/cm3", "oz/in3"]),
  ("Distance", ["m", "ft", "mm", "in", "km", "mi", "cm"]),
  ("Speed", ["m/s", "mph", "km/h", "knot", "ft/s", "ft/min"]),
  ("SpecificEnergy", ["kWh/kg", "kBtu/lb", "Wh/kg", "Btu/lb", "J/kg", "kJ/kg"]),
  ("UValue", ["W/m2-K", "Btu/h-ft2-F"]),
  ("Mass", ["kg", "lb", "g", "tonne", "ton", "oz"]),
  ("MassFlowRate", ["kg/s", "lb/s", "g/s", "oz/s"]),
  ("Volume", ["m3", "ft3", "mm3", "in3", "km3", "mi3", "L", "mL", "gal", "fl oz"]),
  ("ThermalCondition", ["condition", "PMV"]),
  ("EnergyFlux", ["W/m2", "Btu/h-ft2", "kW/m2", "kBtu/h-ft2", "W/ft2", "met"]),
  ("Power", ["W", "Btu/h", "kW", "kBtu/h", "TR", "hp"]),
  ("VolumeFlowRateIntensity", ["m3/s-m2", "ft3/s-ft2", "L/s-m2", "cfm/ft2", "L/h-m2", "gph/ft2"]),
  ("Resistance", ["K/W", "F-h/Btu"]),
  ("Current", ["A", "mA"]),
  ("Pressure", ["Pa", "inHg", "atm", "bar", "Torr", "psi", "inH2O"]),
  ("Illuminance", ["lux", "fc"]),
  ("Resistivity", ["K-m/W", "F-ft-h/Btu"]),
  ("VolumeFlowRate", ["m3/s", "ft3/s", "L/s", "cfm", "gpm", "mL/s", "fl oz/s", "L/h", "gph"]),
  ("Voltage", ["V", "kV"]),
  ("RValue", ["K-m2/W", "F-ft2-h/Btu", "clo", "m2-K/W", "h-ft2-F/Btu"]),
  ("Angle", ["degrees", "radians"]),
  ("Area", ["m2", "ft2", "mm2", "in2", "km2", "mi2", "cm2", "ha", "acre"])]

/-- The data type of a header: a base type of the table, or `GenericType(data_name, unit)`. -/
inductive DType where
  | base (name : String)
  | generic (dataName : String)
deriving DecidableEq, Repr

/-- `SQLiteResult._data_type_from_unit(from_unit, data_name)` -> (data type, unit). -/
def dataTypeFromUnit (unit name : String) : DType × String :=
  if unit = "" then (.base "Fraction", "fraction")
  else match unitsTable.find? (fun p => p.2.contains unit) with
    | some p => (.base p.1, unit)
    | none => (.generic name, unit)

/-- The unit a header gets: `'J'` is relabelled `'kWh'`. -/
def relabel (units : String) : String := if units = "J" then "kWh" else units

/-- `output_name` as the caller passes it: one string, or a list/tuple of strings. -/
inductive NameQuery where
  | single (name : String)
  | many (names : List String)
deriving Repr

/-- Python `'Surface' in s` for a string `s`. -/
def hasSurface (s : String) : Bool := (s.splitOn "Surface").length > 1

def NameQuery.selects (q : NameQuery) (r : DictRow) : Bool :=
  match q with
  | .single n => r.name == n
  | .many [n] => r.name == n
  | .many ns => ns.contains r.name

/-- `'Surface' in output_name` (substring test on a string, membership test on a list). -/
def NameQuery.surface (q : NameQuery) : Bool :=
  match q with
  | .single n => hasSurface n
  | .many ns => ns.contains "Surface"

/-- The header rows of a query: all dictionary rows with the name(s), then only those that have the
    reporting frequency of the first one. -/
def headerRows (dict : List DictRow) (q : NameQuery) : List DictRow :=
  let rows := dict.filter q.selects
  match rows with
  | [] => []
  | r0 :: _ => rows.filter (·.freq == r0.freq)

/-- Stable insertion of a row into a list sorted by time index. -/
def insertByTime {α : Type} (x : DataRow α) : List (DataRow α) → List (DataRow α)
  | [] => [x]
  | y :: ys => if x.time ≤ y.time then x :: y :: ys else y :: insertByTime x ys

/-- `ORDER BY TimeIndex` (modelled as a stable sort of the rowid order). -/
def sortByTime {α : Type} (l : List (DataRow α)) : List (DataRow α) := l.foldr insertByTime []

/-- `SELECT Value, TimeIndex FROM ReportData WHERE ReportDataDictionaryIndex IN rel ORDER BY TimeIndex`. -/
def selectData {α : Type} (data : List (DataRow α)) (rel : List Nat) : List (DataRow α) :=
  sortByTime (data.filter fun r => rel.contains r.dict)

inductive Kind where
  | hourly | daily | monthly
deriving DecidableEq, Repr

/-- A returned data collection as observed through the public API. -/
structure Coll (α : Type) where
  kind : Kind
  dtype : DType
  unit : String
  period : Period
  metaType : String     -- metadata['type']
  objType : String      -- the second metadata key
  key : String          -- its value (the reporting key)
  values : List α
  datetimes : List Nat  -- doys (daily) / months (monthly) / [] (hourly continuous)
deriving Repr

inductive Result (α : Type) where
  | colls (l : List (Coll α))
  | annual (l : List α)               -- `[val[0] for val in all_values]`
deriving Repr

/-- Metadata triple of a header row. -/
def metaOf (surface : Bool) (r : DictRow) : String × String × String :=
  (r.name, if surface then "Surface" else r.group, r.key)

/-- What a `Header` is built from: run period, data type, unit, metadata triple. -/
structure Hdr where
  period : Period
  dtype : DType
  unit : String
  labels : String × String × String

/-- One collection from a header and its values: the class follows the frequency, and the
    constructor checks of that class are applied. -/
def buildOne {α : Type} (freq : Freq) (h : Hdr) (v : List α) : Except Err (Coll α) :=
  let p := h.period
  let m := h.labels
  match freq with
  | .steps _ =>
    -- HourlyContinuousCollection: start hour 0, end hour 23, len(values) == len(period)
    if p.stHour ≠ 0 ∨ p.endHour ≠ 23 then .error .assert
    else if v.length ≠ p.len then .error .assert
    else .ok ⟨.hourly, h.dtype, h.unit, p, m.1, m.2.1, m.2.2, v, []⟩
  | .daily =>
    if v.length ≠ p.doys.length ∨ v.length = 0 then .error .assert
    else .ok ⟨.daily, h.dtype, h.unit, p, m.1, m.2.1, m.2.2, v, p.doys⟩
  | .monthly =>
    if v.length ≠ p.months.length ∨ v.length = 0 then .error .assert
    else .ok ⟨.monthly, h.dtype, h.unit, p, m.1, m.2.1, m.2.2, v, p.months⟩
  | .annual => .error .assert   -- not reached: annual data returns before

/-- Build the collections from headers and value lists (`zip` truncates). -/
def buildColls {α : Type} (freq : Freq) (headers : List Hdr) (vals : List (List α)) :
    Except Err (List (Coll α)) :=
  (headers.zip vals).mapM fun hv => buildOne freq hv.1 hv.2

/-- Number of values per key of one run period, by frequency (`chunks`). -/
def chunkOf (freq : Freq) (p : Period) : Nat :=
  match freq with
  | .monthly => p.months.length
  | .daily => p.doys.length
  | _ => p.len

/-- Data type and unit of one header row (`J` is relabelled `kWh`). -/
def typeUnitOf (r : DictRow) : DType × String := dataTypeFromUnit (relabel r.units) r.name

/-- `[tuple(v / 3600000. …) if kwh else values for kwh, values in zip(to_kwh, all_values)]`. -/
def convCols {α : Type} (conv : α → α) (flags : List Bool) (cols : List (List α)) : List (List α) :=
  (flags.zip cols).map fun (f, c) => if f then c.map conv else c

/-- `to_kwh` flags of the header rows, repeated once per run period. -/
def kwhFlags (hdr : List DictRow) (nPeriods : Nat) : List Bool :=
  (List.replicate nPeriods (hdr.map fun r => (typeUnitOf r).2 == "kWh")).flatten

/-- `st_time, end_time = data[0][1], data[-1][1]` (IndexError on no rows). -/
def timeSpan {α : Type} (data : List (DataRow α)) : Except Err (Nat × Nat) :=
  match data.head?, data.getLast? with
  | some a, some b => .ok (a.time, b.time)
  | _, _ => .error .index

/-- The `WHERE IntervalType …` clause of `_extract_all_run_period` (fixes/C19_all_run_periods_own_
    interval_type.patch): only the `Time` rows of the data's own interval type are scanned – type 3 for
    monthly data, type 2 for daily data, types `<= 1` for hourly and sub-hourly data. -/
def ownIntervalType (freq : Freq) (r : TimeRow) : Bool :=
  match freq with
  | .monthly => r.itype == 3
  | .daily => r.itype == 2
  | _ => decide (r.itype ≤ 1)

/-- The time-table stage of `data_collections_by_output_name`: frequency and either the single run
    period (`inr`; `none` for annual data) or, when first and last row lie in different environments
    and the data is not annual, all run periods rebuilt from the `Time` rows of the data's own interval
    type (`inl`). -/
def periodsOf (time : List TimeRow) (stT enT : Nat) :
    Except Err (Freq × (List Period ⊕ Option Period)) := do
  let (rp, freq, mult) ← extractRunPeriod time stT enT
  match mult, rp with
  | true, some p => do
    let ps ← allRunPeriods (time.filter (ownIntervalType freq)) (freq == .monthly) p.timestep p.leap
    pure (freq, .inl ps)
  | _, _ => pure (freq, .inr rp)

/-- The headers of one run period: one per header row, with that row's own data type and unit. -/
def hdrOf (hdr : List DictRow) (surface : Bool) (p : Period) : List Hdr :=
  hdr.map fun r => ⟨p, (typeUnitOf r).1, (typeUnitOf r).2, metaOf surface r⟩

/-- The assembly stage of `data_collections_by_output_name`: headers, (chunked) partition of the
    time-ordered values, conversion of the `kWh` columns, collections by frequency. -/
def assemble {α : Type} (conv : α → α) (hdr : List DictRow) (surface : Bool) (freq : Freq)
    (periods : List Period ⊕ Option Period) (vals : List α) : Except Err (Result α) := do
  let headers : List Hdr :=
    if freq = .annual then []
    else match periods with
      | .inl ps => ps.flatMap (hdrOf hdr surface)
      | .inr (some p) => hdrOf hdr surface p
      | .inr none => []
  let (raw, flags) ← match periods with
    | .inl ps => do
      let c ← partitionChunks vals (ps.map (chunkOf freq))
      pure (c, kwhFlags hdr ps.length)
    | .inr _ => do
      let c ← partition vals hdr.length
      pure (c, kwhFlags hdr 1)
  let allValues := convCols conv flags raw
  if freq = .annual then
    pure (.annual (interleave allValues))
  else do
    let cs ← buildColls freq headers allValues
    pure (.colls cs)

/-- `data_collections_by_output_name(output_name)`; `conv` is the J -> kWh conversion of a value.
    Every header row keeps its own data type and unit; only the columns whose unit became `kWh` are
    converted; annual data of several environments gives one value per run period and key. -/
def queryAll {α : Type} (conv : α → α) (db : DB α) (q : NameQuery) : Except Err (Result α) :=
  let hdr := headerRows db.dict q
  match hdr with
  | [] => .ok (.colls [])
  | _ :: _ => do
    let data := selectData db.data (hdr.map (·.idx))
    let (stT, enT) ← timeSpan data
    let (freq, periods) ← periodsOf db.time stT enT
    assemble conv hdr q.surface freq periods (data.map (·.value))

/-- The rows of the JOIN query of the run-period method (no ORDER BY: scan order of `ReportData`). -/
def selectDataEnv {α : Type} (db : DB α) (rel : List Nat) (env : Nat) : List (DataRow α) :=
  db.data.filter fun r => rel.contains r.dict &&
    (match findTime db.time r.time with
     | some t => t.env == env
     | none => false)

/-- The assembly stage of the run-period method (one output name: unit and data type of the first
    header row; annual data gives one value per key). -/
def assembleRP {α : Type} (conv : α → α) (hdr : List DictRow) (h0 : DictRow) (surface : Bool)
    (freq : Freq) (rp : Option Period) (vals0 : List α) : Except Err (Result α) := do
  let (dtype, units) := typeUnitOf h0
  let headers : List Hdr := match rp with
    | some p => hdr.map fun r => ⟨p, dtype, units, metaOf surface r⟩
    | none => []
  let vals := if units = "kWh" then vals0.map conv else vals0
  let allValues ← partition vals hdr.length
  if freq = .annual then
    pure (.annual (allValues.filterMap (·.head?)))
  else do
    let cs ← buildColls freq headers allValues
    pure (.colls cs)

/-- `data_collections_by_output_name_run_period(output_name, run_period_index)`. -/
def queryRunPeriod {α : Type} (conv : α → α) (db : DB α) (name : String) (env : Nat) :
    Except Err (Result α) :=
  let q := NameQuery.single name
  let hdr := headerRows db.dict q
  match hdr with
  | [] => .ok (.colls [])
  | h0 :: _ => do
    let data := selectDataEnv db (hdr.map (·.idx)) env
    let (stT, enT) ← timeSpan data
    let (rp, freq, _) ← extractRunPeriod db.time stT enT
    assembleRP conv hdr h0 q.surface freq rp (data.map (·.value))

/-- `values_by_output_name(output_name)`: the flat value list in time order, unconverted. -/
def valuesByName {α : Type} (db : DB α) (q : NameQuery) : List α :=
  (selectData db.data ((headerRows db.dict q).map (·.idx))).map (·.value)

/-- The J -> kWh conversion on exact numbers. -/
def jToKWh (x : Rat) : Rat := x / 3600000

#guard (partition [1, 2, 3, 4, 5, 6] 2) = .ok [[1, 3, 5], [2, 4, 6]]
#guard (partition [1, 2, 3, 4, 5] 2) = .ok [[1, 3, 5]]
#guard (partition ([] : List Nat) 3) = .ok []
#guard (partitionChunks [1, 2, 3, 4, 5, 6, 7, 8, 9, 10] [2, 3]) = .ok [[1, 3], [2, 4], [5, 7, 9], [6, 8, 10]]
#guard interleave [[1, 3, 5], [2, 4, 6]] = [1, 2, 3, 4, 5, 6]
#guard accumulate [24, 24, 8760] = [24, 48, 8808]
#guard dataTypeFromUnit "kWh" "x" = (.base "Energy", "kWh")
#guard dataTypeFromUnit "" "x" = (.base "Fraction", "fraction")
#guard dataTypeFromUnit "ach" "x" = (.generic "x", "ach")
#guard hasSurface "Surface Inside Face Temperature"
#guard !hasSurface "Zone Air Temperature"

end Sql
