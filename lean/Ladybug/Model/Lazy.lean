/-
  C18 — cached / lazily computed attributes (DESIGN.md section 6, C18).

  Part (a): a generic memo object `Obj`: configuration + cache; `read` fills a slot on a miss,
  `set` updates one configuration field and clears the slots listed for that field.
  Part (b): the *table machine*: an executable symbolic model of a class described by a
  dependency table (`ClassTable`, regenerated from the Python source into `Gen/LazyDeps.lean`).
  It runs a sequence of getter reads / setter calls and says, for every read, whether the cache
  attributes the getter looks at hold their own defining expression evaluated on the current
  settings (`ok`), an older evaluation (`stale`), another getter's expression (`alias`), nothing
  (`none`), or do not exist (`unset`).  The Boolean checks `ClassTable.wellFormed` are the
  hypotheses under which every read is `ok`.
  No Mathlib.
-/
namespace Lazy

/-! ## (a) generic memo objects -/

structure Obj (Cfg Slot Val : Type) where
  cfg : Cfg
  cache : Slot → Option Val

/-- What a class is, semantically: the defining expression of every slot, what a setter does
to the configuration, and which slots a setter clears. -/
structure Spec (Cfg Slot Val Field FVal : Type) where
  f : Slot → Cfg → Val
  upd : Field → FVal → Cfg → Cfg
  resets : Field → List Slot

inductive Op (Slot Field FVal : Type) where
  | read (i : Slot)
  | set (k : Field) (x : FVal)

section
variable {Cfg Slot Val Field FVal : Type} [DecidableEq Slot]

def fresh (c : Cfg) : Obj Cfg Slot Val := ⟨c, fun _ => none⟩

def read (S : Spec Cfg Slot Val Field FVal) (o : Obj Cfg Slot Val) (i : Slot) : Val × Obj Cfg Slot Val :=
  match o.cache i with
  | some v => (v, o)
  | none =>
    let v := S.f i o.cfg
    (v, { o with cache := fun j => if j = i then some v else o.cache j })

def set (S : Spec Cfg Slot Val Field FVal) (o : Obj Cfg Slot Val) (k : Field) (x : FVal) : Obj Cfg Slot Val :=
  ⟨S.upd k x o.cfg, fun j => if j ∈ S.resets k then none else o.cache j⟩

/-- Run a history; returns the values of the reads (in order) and the final object. -/
def run (S : Spec Cfg Slot Val Field FVal) (o : Obj Cfg Slot Val) :
    List (Op Slot Field FVal) → List Val × Obj Cfg Slot Val
  | [] => ([], o)
  | .read i :: ops =>
    let r := read S o i
    let rest := run S r.2 ops
    (r.1 :: rest.1, rest.2)
  | .set k x :: ops => run S (set S o k x) ops

/-- The configuration after a history (reads do not change it). -/
def finalCfg (S : Spec Cfg Slot Val Field FVal) (c : Cfg) : List (Op Slot Field FVal) → Cfg
  | [] => c
  | .read _ :: ops => finalCfg S c ops
  | .set k x :: ops => finalCfg S (S.upd k x c) ops

/-- What a history of reads must return when nothing is cached wrongly: each read gives the
defining expression on the configuration current at that moment. -/
def expected (S : Spec Cfg Slot Val Field FVal) (c : Cfg) : List (Op Slot Field FVal) → List Val
  | [] => []
  | .read i :: ops => S.f i c :: expected S c ops
  | .set k x :: ops => expected S (S.upd k x c) ops

/-- Coherence: whatever is cached equals the defining expression on the current configuration. -/
def Coh (S : Spec Cfg Slot Val Field FVal) (o : Obj Cfg Slot Val) : Prop :=
  ∀ i v, o.cache i = some v → v = S.f i o.cfg

end

/-! ## (b) dependency tables and the table machine -/

/-- A block of a getter that assigns cache attributes. -/
structure Site where
  guarded : Bool        -- runs only when a guard attribute is empty (else: on every call)
  guard : List Nat      -- attributes tested by the guard
  slots : List Nat      -- attributes it fills
  expr : Nat            -- id of its defining code
  reads : List Nat      -- every attribute its code reads (transitively)
  clears : List Nat     -- attributes it sets to None
  deriving Repr, DecidableEq

structure Getter where
  name : String
  sites : List Site
  direct : List Nat     -- attributes the getter's own code loads
  clears : List Nat     -- attributes the getter sets to None on every call
  deriving Repr, DecidableEq

structure Setter where
  name : String
  writes : List Nat
  clears : List Nat
  deriving Repr, DecidableEq

structure ClassTable where
  name : String
  attrs : List String
  init : List Nat
  getters : List Getter
  setters : List Setter
  deriving Repr

namespace ClassTable

def slots (t : ClassTable) : List Nat :=
  (t.getters.flatMap fun g => g.sites.flatMap (·.slots)).eraseDups

def isSlot (t : ClassTable) (a : Nat) : Bool := t.slots.contains a

end ClassTable

namespace Getter

def ownSlots (g : Getter) : List Nat := g.sites.flatMap (·.slots)

/-- The expression the getter itself last puts into slot `a` (none: it never fills it). -/
def defOf (g : Getter) (a : Nat) : Option Nat :=
  (g.sites.reverse.find? (·.slots.contains a)).map (·.expr)

/-- Every expression the getter itself may put into slot `a` (a getter may refine a slot in a
second, value-dependent step, e.g. `SQLiteResult.reporting_frequency`). -/
def ownExprs (g : Getter) (a : Nat) : List Nat :=
  (g.sites.filter (·.slots.contains a)).map (·.expr)

/-- Slots the getter looks at directly, with the expression it defines them by. -/
def defs (t : ClassTable) (g : Getter) : List (Nat × Nat) :=
  g.direct.filterMap fun a => if t.isSlot a then (g.defOf a).map (a, ·) else none

end Getter

namespace ClassTable

/-- T1 one slot – one defining expression: two getters that look at the same slot define it
by the same code. -/
def oneExpr (t : ClassTable) : Bool :=
  t.getters.all fun g1 => t.getters.all fun g2 =>
    (g1.defs t).all fun p1 => (g2.defs t).all fun p2 => p1.1 != p2.1 || p1.2 == p2.2

/-- T2 a getter fills every slot it looks at itself (no result that exists only as a side
effect of another getter). -/
def selfFill (t : ClassTable) : Bool :=
  t.getters.all fun g => g.direct.all fun a => !t.isSlot a || g.ownSlots.contains a

/-- T3 a guard tests a slot that the guarded block fills. -/
def guardOwn (t : ClassTable) : Bool :=
  t.getters.all fun g => g.sites.all fun s => s.guard.all fun a => s.slots.contains a

/-- T4 a setter that writes an attribute read by a cached (guarded) block clears or rewrites every
slot of that block. -/
def resetsOk (t : ClassTable) : Bool :=
  t.setters.all fun s => t.getters.all fun g => g.sites.all fun st =>
    !st.guarded || !(st.reads.any fun a => s.writes.contains a) ||
      st.slots.all fun a => s.clears.contains a || s.writes.contains a

/-- T5 every attribute a getter tests or loads exists after `__init__`. -/
def initOk (t : ClassTable) : Bool :=
  t.getters.all fun g =>
    (g.direct.all fun a => t.init.contains a) &&
    (g.sites.all fun s => s.guard.all fun a => t.init.contains a)

def wellFormed (t : ClassTable) : Bool :=
  t.oneExpr && t.selfFill && t.guardOwn && t.resetsOk && t.initOk

end ClassTable

/-! ### the table machine -/

/-- A cache entry: which expression was evaluated, and which setter calls (by index) it has
*missed* since (a setter that wrote an attribute the expression reads without clearing the slot). -/
structure Entry where
  expr : Nat
  reads : List Nat
  stale : Bool
  user : Bool := false      -- the attribute was assigned by a setter (a setting, not a cached result)
  deriving Repr, DecidableEq

structure TState where
  cache : List (Nat × Entry)     -- association list, at most one entry per attribute
  deriving Repr

inductive Verdict where
  | ok | stale | alias (expr : Nat) | none | unset
  deriving Repr, DecidableEq

inductive TOp where
  | get (g : Nat)
  | put (s : Nat)
  deriving Repr, DecidableEq

namespace TState

def empty : TState := ⟨[]⟩

def lookup (st : TState) (a : Nat) : Option Entry := (st.cache.find? (·.1 == a)).map (·.2)

def erase (st : TState) (as : List Nat) : TState := ⟨st.cache.filter fun p => !as.contains p.1⟩

def fill (st : TState) (as : List Nat) (e : Entry) : TState :=
  ⟨as.map (·, e) ++ (st.erase as).cache⟩

end TState

def runSite (st : TState) (s : Site) : TState :=
  let fire := !s.guarded || s.guard.any fun a => (st.lookup a).isNone
  if fire then
    -- an evaluation that reads a stale slot is itself stale
    let dirty := s.reads.any fun a => !s.slots.contains a && ((st.lookup a).map (·.stale)).getD false
    (st.erase s.clears).fill s.slots ⟨s.expr, s.reads, dirty, false⟩
  else st

def verdictOf (t : ClassTable) (g : Getter) (st : TState) : Verdict :=
  let vs := g.direct.filterMap fun a =>
    if !t.isSlot a then Option.none
    else some <|
      match st.lookup a with
      | Option.none => if t.init.contains a then Verdict.none else Verdict.unset
      | some e =>
        if e.user then Verdict.ok
        else if !(g.ownExprs a).contains e.expr then Verdict.alias e.expr
        else if e.stale then Verdict.stale else Verdict.ok
  match vs.find? (· != Verdict.ok) with
  | some v => v
  | Option.none => Verdict.ok

def stepGet (t : ClassTable) (g : Getter) (st : TState) : Verdict × TState :=
  let st1 := g.sites.foldl runSite (st.erase g.clears)
  (verdictOf t g st1, st1)

def stepPut (t : ClassTable) (s : Setter) (st : TState) : TState :=
  let st1 := st.erase (s.clears ++ s.writes)
  let marked : TState := ⟨st1.cache.map fun p =>
    if p.2.reads.any fun a => s.writes.contains a then (p.1, { p.2 with stale := true }) else p⟩
  -- a written attribute that getters treat as a slot now holds the user's value
  marked.fill (s.writes.filter t.isSlot) ⟨0, [], false, true⟩

def runT (t : ClassTable) : TState → List TOp → List Verdict
  | _, [] => []
  | st, .get gi :: ops =>
    match t.getters[gi]? with
    | some g => let r := stepGet t g st; r.1 :: runT t r.2 ops
    | Option.none => runT t st ops
  | st, .put si :: ops =>
    match t.setters[si]? with
    | some s => runT t (stepPut t s st) ops
    | Option.none => runT t st ops

end Lazy
