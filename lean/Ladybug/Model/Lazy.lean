/-
  C18 — cached / lazily computed attributes (DESIGN.md section 6, C18).

  Part (a): a generic memo object `Obj`: configuration + cache; `read` fills a slot on a miss,
  `set` updates one configuration field and clears the slots listed for that field.
  Part (b): the *table machine*: an executable symbolic model of a class described by a
  dependency table (`ClassTable`, regenerated from the Python source into `Gen/LazyDeps.lean`).
  It runs a sequence of getter reads / setter calls and says, for every read, whether the cache
  attributes the getter looks at hold their own defining expression evaluated on the current
  settings (`ok`), an older evaluation (`stale`), another getter's expression (`alias`), nothing
  (`none`), or do not exist (`unset`).  The Boolean checks `ClassTable.wellFormed` are the
  hypotheses under which every read is `ok`.
  No Mathlib.
-/
namespace Lazy

/-! ## (a) generic memo objects -/

structure Obj (Cfg Slot Val : Type) where
  cfg : Cfg
  cache : Slot → Option Val

/-- What a class is, semantically: the defining expression of every slot, what a setter does
to the configuration, and which slots a setter clears. -/
structure Spec (Cfg Slot Val Field FVal : Type) where
  f : Slot → Cfg → Val
  upd : Field → FVal → Cfg → Cfg
  resets : Field → List Slot

inductive Op (Slot Field FVal : Type) where
  | read (i : Slot)
  | set (k : Field) (x : FVal)

section
variable {Cfg Slot Val Field FVal : Type} [DecidableEq Slot]

def fresh (c : Cfg) : Obj Cfg Slot Val := ⟨c, fun _ => none⟩

def read (S : Spec Cfg Slot Val Field FVal) (o : Obj Cfg Slot Val) (i : Slot) : Val × Obj Cfg Slot Val :=
  match o.cache i with
  | some v => (v, o)
  | none =>
    let v := S.f i o.cfg
    (v, { o with cache := fun j => if j = i then some v else o.cache j })

def set (S : Spec Cfg Slot Val Field FVal) (o : Obj Cfg Slot Val) (k : Field) (x : FVal) : Obj Cfg Slot Val :=
  ⟨S.upd k x o.cfg, fun j => if j ∈ S.resets k then none else o.cache j⟩

/-- Run a history; returns the values of the reads (in order) and the final object. -/
def run (S : Spec Cfg Slot Val Field FVal) (o : Obj Cfg Slot Val) :
    List (Op Slot Field FVal) → List Val × Obj Cfg Slot Val
  | [] => ([], o)
  | .read i :: ops =>
    let r := read S o i
    let rest := run S r.2 ops
    (r.1 :: rest.1, rest.2)
  | .set k x :: ops => run S (set S o k x) ops

/-- The configuration after a history (reads do not change it). -/
def finalCfg (S : Spec Cfg Slot Val Field FVal) (c : Cfg) : List (Op Slot Field FVal) → Cfg
  | [] => c
  | .read _ :: ops => finalCfg S c ops
  | .set k x :: ops => finalCfg S (S.upd k x c) ops

/-- What a history of reads must return when nothing is cached wrongly: each read gives the
defining expression on the configuration current at that moment. -/
def expected (S : Spec Cfg Slot Val Field FVal) (c : Cfg) : List (Op Slot Field FVal) → List Val
  | [] => []
  | .read i :: ops => S.f i c :: expected S c ops
  | .set k x :: ops => expected S (S.upd k x c) ops

/-- Coherence: whatever is cached equals the defining expression on the current configuration. -/
def Coh (S : Spec Cfg Slot Val Field FVal) (o : Obj Cfg Slot Val) : Prop :=
  ∀ i v, o.cache i = some v → v = S.f i o.cfg

end

/-! ## (b) dependency tables and the table machine -/

/-- A block of a getter that assigns cache attributes. -/
structure Site where
  guarded : Bool        -- runs only when a guard attribute is empty (else: on every call)
  guard : List Nat      -- attributes tested by the guard (`self._x is None` / `not self._x`)
  slots : List Nat      -- attributes it fills
  expr : Nat            -- id of its defining code
  reads : List Nat      -- every attribute its code reads (transitively)
  clears : List Nat     -- attributes it sets to None
  deriving Repr, DecidableEq

structure Getter where
  name : String
  sites : List Site
  direct : List Nat     -- attributes the getter's own code loads
  clears : List Nat     -- attributes the getter sets to None on every call
  /-- (slot, expression): value-dependent rewrites of a slot by the getter itself
  (e.g. `SQLiteResult.reporting_frequency` turning the cached text into the number of steps). -/
  refines : List (Nat × Nat) := []
  deriving Repr, DecidableEq

structure Setter where
  name : String
  writes : List Nat
  clears : List Nat
  /-- attributes that already hold the newly assigned value when a later statement of the setter can
  still refuse the call (assert / raise / conversion): what a REFUSED call leaves behind (round 3) -/
  early : List Nat := []
  /-- every attribute the setter's own code LOADS (tests, validation, conditional stores, the container it
  stores into): what its effect may depend on (round 5) -/
  reads : List Nat := []
  deriving Repr, DecidableEq

structure ClassTable where
  name : String
  attrs : List String
  init : List Nat
  shared : List Nat := []   -- class-level attributes (one object shared by all instances)
  getters : List Getter
  setters : List Setter
  deriving Repr

namespace Getter

def ownSlots (g : Getter) : List Nat := g.sites.flatMap (·.slots)

/-- The expression the getter itself last puts into slot `a` (none: it never fills it). -/
def defOf (g : Getter) (a : Nat) : Option Nat :=
  (g.sites.reverse.find? (·.slots.contains a)).map (·.expr)

/-- Every expression the getter itself may put into slot `a`. -/
def ownExprs (g : Getter) (a : Nat) : List Nat :=
  (g.sites.filter (·.slots.contains a)).map (·.expr) ++ (g.refines.filter (·.1 == a)).map (·.2)

end Getter

namespace ClassTable

def allSites (t : ClassTable) : List Site := t.getters.flatMap (·.sites)

def allRefines (t : ClassTable) : List (Nat × Nat) := t.getters.flatMap (·.refines)

/-- An attribute is a cache slot when some getter block fills it. -/
def isSlot (t : ClassTable) (a : Nat) : Bool :=
  t.allSites.any (·.slots.contains a) || t.allRefines.any (·.1 == a)

/-- T1 one slot – one defining expression: whatever any getter block may put into a slot is an
expression that every getter looking at that slot defines it by itself. -/
def oneExpr (t : ClassTable) : Bool :=
  decide (∀ g ∈ t.getters, ∀ a ∈ g.direct, t.isSlot a = true →
    (∀ s ∈ t.allSites, a ∈ s.slots → s.expr ∈ g.ownExprs a) ∧
    (∀ r ∈ t.allRefines, r.1 = a → r.2 ∈ g.ownExprs a))

/-- T2 a getter fills every slot it looks at itself (no result that exists only as a side
effect of another getter). -/
def selfFill (t : ClassTable) : Bool :=
  decide (∀ g ∈ t.getters, ∀ a ∈ g.direct, t.isSlot a = true → a ∈ g.ownSlots)

/-- T3 a guard is not empty and tests slots that the guarded block fills. -/
def guardOwn (t : ClassTable) : Bool :=
  decide (∀ s ∈ t.allSites, s.guard ≠ [] ∧ ∀ b ∈ s.guard, b ∈ s.slots)

/-- T4 a setter that writes an attribute read by a cached block clears or rewrites every
slot of that block. -/
def resetsOk (t : ClassTable) : Bool :=
  decide (∀ st ∈ t.setters, ∀ s ∈ t.allSites, (∃ r ∈ s.reads, r ∈ st.writes) →
    ∀ a ∈ s.slots, a ∈ st.clears ∨ a ∈ st.writes)

/-- T5 every attribute a getter tests or loads exists after `__init__` (or at class level), and no
cache slot is a class-level attribute (that would be shared between instances). -/
def initOk (t : ClassTable) : Bool :=
  (t.getters.all fun g =>
    (g.direct.all fun a => t.init.contains a || t.shared.contains a) &&
    (g.sites.all fun s => s.guard.all fun a => t.init.contains a)) &&
  (t.allSites.all fun s => s.slots.all fun a => !t.shared.contains a)

/-- T6 every cache-filling block is guarded by an emptiness test, and does not set other
attributes to None. -/
def allGuarded (t : ClassTable) : Bool :=
  decide (∀ s ∈ t.allSites, s.guarded = true ∧ s.clears = [])

/-- T7 blocks that share a guard attribute fill the same group of slots: if a guard attribute of
block `s'` is filled by block `s`, then `s` fills everything `s'` fills. -/
def groupClosed (t : ClassTable) : Bool :=
  decide (∀ s ∈ t.allSites, ∀ s' ∈ t.allSites, (∃ b ∈ s'.guard, b ∈ s.slots) → ∀ a ∈ s'.slots, a ∈ s.slots)

/-- T8 a setter that clears or rewrites a slot of a block either clears one of the block's guard
attributes (so the block runs again) or rewrites all of the block's slots. -/
def putWhole (t : ClassTable) : Bool :=
  decide (∀ st ∈ t.setters, ∀ s ∈ t.allSites,
    (∀ a ∈ s.slots, a ∉ st.clears ∧ a ∉ st.writes) ∨
    (∃ b ∈ s.guard, b ∈ st.clears ∧ b ∉ st.writes) ∨
    (∀ a ∈ s.slots, a ∈ st.writes))

/-- T9 a getter that sets a slot of a block to None on every call also clears one of the block's
guard attributes. -/
def getClearsWhole (t : ClassTable) : Bool :=
  decide (∀ g ∈ t.getters, ∀ s ∈ t.allSites, (∃ a ∈ s.slots, a ∈ g.clears) → ∃ b ∈ s.guard, b ∈ g.clears)

/-- T10 (round 5) SETTER FRAME: what a setter looks at is either an attribute it assigns itself or an attribute
that no setter ever assigns (fixed by the constructor).  Then whether / what a setter stores cannot depend on
the calls of the OTHER setters made before it: the settings are independent fields and setter calls on
different settings commute (`C18_settings_commute`).  A cross-field check in a setter (silently skipping, or
clamping, a minimum against the current maximum) breaks it.  Not part of `wellFormed`: in-place operations
(e.g. `values` after `convert_to_culled_timestep`) legitimately depend on the state. -/
def setterFrame (t : ClassTable) : Bool :=
  decide (∀ s ∈ t.setters, ∀ a ∈ s.reads, a ∈ s.writes ∨ ∀ s' ∈ t.setters, a ∉ s'.writes)

def wellFormed (t : ClassTable) : Bool :=
  t.oneExpr && t.selfFill && t.guardOwn && t.resetsOk && t.initOk && t.allGuarded && t.groupClosed &&
    t.putWhole && t.getClearsWhole

end ClassTable

/-! ### the table machine -/

/-- A cache entry: which expression was evaluated, what it read, whether a setter has since
written something it read without clearing it (`stale`), or the value was assigned by a setter. -/
structure Entry where
  expr : Nat
  reads : List Nat
  stale : Bool
  user : Bool := false      -- the attribute was assigned by a setter (a setting, not a cached result)
  deriving Repr, DecidableEq

structure TState where
  cache : List (Nat × Entry)     -- association list
  deriving Repr

inductive Verdict where
  | ok | stale | alias (expr : Nat) | none | unset
  deriving Repr, DecidableEq

inductive TOp where
  | get (g : Nat)
  | put (s : Nat)
  deriving Repr, DecidableEq

namespace TState

def empty : TState := ⟨[]⟩

def lookup (st : TState) (a : Nat) : Option Entry := (st.cache.find? (·.1 == a)).map (·.2)

def erase (st : TState) (as : List Nat) : TState := ⟨st.cache.filter fun p => !as.contains p.1⟩

def fill (st : TState) (as : List Nat) (e : Entry) : TState :=
  ⟨as.map (·, e) ++ (st.erase as).cache⟩

end TState

def runSite (st : TState) (s : Site) : TState :=
  let fire := !s.guarded || s.guard.any fun a => (st.lookup a).isNone
  if fire then
    -- an evaluation that reads a stale slot is itself stale
    let dirty := s.reads.any fun a => !s.slots.contains a && ((st.lookup a).map (·.stale)).getD false
    (st.erase s.clears).fill s.slots ⟨s.expr, s.reads, dirty, false⟩
  else st

def verdictAt (t : ClassTable) (g : Getter) (st : TState) (a : Nat) : Verdict :=
  match st.lookup a with
  | Option.none => if t.init.contains a then Verdict.none else Verdict.unset
  | some e =>
    if e.user then Verdict.ok
    else if !(g.ownExprs a).contains e.expr then Verdict.alias e.expr
    else if e.stale then Verdict.stale else Verdict.ok

def verdictOf (t : ClassTable) (g : Getter) (st : TState) : Verdict :=
  let vs := (g.direct.filter t.isSlot).map (verdictAt t g st)
  match vs.find? (· != Verdict.ok) with
  | some v => v
  | Option.none => Verdict.ok

def stepGet (t : ClassTable) (g : Getter) (st : TState) : Verdict × TState :=
  let st1 := g.sites.foldl runSite (st.erase g.clears)
  (verdictOf t g st1, st1)

def markStale (s : Setter) (p : Nat × Entry) : Nat × Entry :=
  if p.2.reads.any fun a => s.writes.contains a then (p.1, { p.2 with stale := true }) else p

def stepPut (t : ClassTable) (s : Setter) (st : TState) : TState :=
  let st1 := st.erase (s.clears ++ s.writes)
  let marked : TState := ⟨st1.cache.map (markStale s)⟩
  -- a written attribute that getters treat as a slot now holds the user's value
  marked.fill (s.writes.filter t.isSlot) ⟨0, [], false, true⟩

def runT (t : ClassTable) : TState → List TOp → List Verdict
  | _, [] => []
  | st, .get gi :: ops =>
    match t.getters[gi]? with
    | some g => let r := stepGet t g st; r.1 :: runT t r.2 ops
    | Option.none => runT t st ops
  | st, .put si :: ops =>
    match t.setters[si]? with
    | some s => runT t (stepPut t s st) ops
    | Option.none => runT t st ops

/-! ### the memo object denoted by a table

Configuration = a version counter per attribute (a setter call bumps the attributes it writes);
the value of slot `a` = (defining expression of the block that fills `a`, the versions of everything
that block reads); a setter clears what it clears or rewrites.  This connects the tables with the
generic theorems of part (a). -/

namespace ClassTable

/-- The table restricted to reads (no setter is ever called). -/
def readOnly (t : ClassTable) : ClassTable := { t with setters := [] }

def siteOf (t : ClassTable) (a : Nat) : Option Site := t.allSites.find? (·.slots.contains a)

def denote (t : ClassTable) : Spec (Nat → Nat) Nat (Nat × List (Nat × Nat)) Nat Unit where
  f a c := match t.siteOf a with
    | some s => (s.expr, s.reads.map fun r => (r, c r))
    | Option.none => (0, [])
  upd k _ c := match t.setters[k]? with
    | some st => fun r => if st.writes.contains r then c r + 1 else c r
    | Option.none => c
  resets k := match t.setters[k]? with
    | some st => st.clears ++ st.writes
    | Option.none => []

end ClassTable

end Lazy
