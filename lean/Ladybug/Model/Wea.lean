/-
  Model of ladybug/wea.py (class Wea) on top of the calendar model `Cal` (C08) and the
  analysis-period model `AP` (C04).  Hand-written from the code as it exists.  No Mathlib.

  Correspondence ops: Drv/C12.lean (harness/props/c12.py).  Theorems: Props/C12.lean
  (helper lemmas: Proofs/C12Lemmas.lean).

  The model describes the code WITH three repairs applied (fixes/C12_*.patch):
    * `C12_from_file_leap_year`   – `Wea.from_file(..., is_leap_year=True)` builds leap-year
      `DateTime`s (the pinned code passed the flag in the `minute` position);
    * `C12_sparse_minute_round`   – the sparse path of `from_file` reads the minute as
      `int(round(float_hour * 60))` (the pinned code truncated: 20-minute data came back at :19);
    * `C12_from_dict_leap_flag`   – same positional mistake in the flag-mismatch branch of `from_dict`.
  The pinned behaviour is kept as `minuteOfDayTrunc` for the counterexample theorem.

  What is NOT modelled here (other properties): the collection filters (C02) – `filter_by_*`
  is modelled as "apply one value-independent index selection to both collections"; the repair of
  the header period by `validate_analysis_period` (C13) – only its effect on the (datetime, value)
  pairs is used: sorted by datetime, duplicates rejected; `interpolate_to_timestep` (C13).
-/
import Ladybug.Py
import Ladybug.Model.Cal
import Ladybug.Model.AP

open Cal

namespace Wea

/-- Exception classes the Wea code paths can raise (line-protocol enum). -/
inductive E where
  | value | index | type | assert
deriving DecidableEq, Repr

def E.ofCal : Cal.Err → E
  | .value => .value
  | .index => .index
  | .type => .type

def liftCal {α : Type} (r : Except Cal.Err α) : Except E α :=
  match r with
  | .ok a => .ok a
  | .error e => .error (E.ofCal e)

/-! ### Time axis -/

/-- Hours of the reference year: `8760 + 24 if is_leap_year else 8760`. -/
def hoursInYear (leap : Bool) : Nat := if leap then 8760 + 24 else 8760

/-- `adjust_time = 30 if timestep == 1 else 0` of `_get_datetimes`. -/
def adjust (ts : Nat) : Nat := if ts = 1 then 30 else 0

/-- Minute of the year of entry `count` of `_get_datetimes(timestep, leap)`:
    `60.0 * count / timestep + adjust_time` (then `int()` inside `from_moy`). -/
def getMoy (ts count : Nat) : Nat := 60 * count / ts + adjust ts

/-- `_get_datetimes(timestep, is_leap_year)`. -/
def getDatetimes (ts : Nat) (leap : Bool) : List (Except Cal.Err DT) :=
  (List.range (hoursInYear leap * ts)).map fun i => fromMoy leap (getMoy ts i)

/-- Minutes added by the public `Wea.datetimes`: 30 when `timestep == 1 and not enforce_on_hour`. -/
def shift (ts : Nat) (onHour : Bool) : Nat := if ts = 1 ∧ onHour = false then 30 else 0

/-- Datetimes of a continuous collection: `header.analysis_period.datetimes`.  Every minute of a
    well-formed period converts (lemma `contDts_length`), so `filterMap` drops nothing. -/
def contDts (ap : AP) : List DT :=
  ap.moys.filterMap fun (m : Nat) => (fromMoy ap.leap (m : Int)).toOption

/-- A `Wea`: two aligned collections over one time axis.  `dts` are the datetimes of the
    *collections* (`direct_normal_irradiance.datetimes`); the public `Wea.datetimes` adds `shift`. -/
structure W (α : Type) where
  cont : Bool          -- `is_continuous`
  ap : AP              -- `analysis_period` of the header
  dts : List DT
  dni : List α
  dhi : List α
  onHour : Bool        -- `enforce_on_hour`
deriving Repr

namespace W
variable {α : Type}

def timestep (w : W α) : Nat := w.ap.timestep
def isLeap (w : W α) : Bool := w.ap.leap
/-- `is_annual`. -/
def isAnnual (w : W α) : Bool := w.cont && w.ap.isAnnual
/-- Minutes of the year of the public `Wea.datetimes` (`dt.add_minute(30)` when shifted). -/
def publicMoys (w : W α) : List Nat := w.dts.map fun d => d.moy + shift w.ap.timestep w.onHour
/-- The public `Wea.datetimes` (`add_minute` = `from_moy(moy + 30)`). -/
def datetimes (w : W α) : List (Except Cal.Err DT) :=
  w.dts.map fun d => fromMoy d.leap ((d.moy + shift w.ap.timestep w.onHour : Nat) : Int)
/-- Both collections have one value per datetime (what `Wea.__init__` asserts). -/
def Aligned (w : W α) : Prop := w.dni.length = w.dts.length ∧ w.dhi.length = w.dts.length
end W

/-- A continuous Wea over period `ap` (`HourlyContinuousCollection(header, values)` asserts the
    length, whole-day window is asserted by the constructor). -/
def mkCont {α : Type} (ap : AP) (dni dhi : List α) : Except E (W α) :=
  if ap.st_hour ≠ 0 ∨ ap.end_hour ≠ 23 then .error .assert
  else if dni.length ≠ ap.len ∨ dhi.length ≠ ap.len then .error .assert
  else .ok ⟨true, ap, contDts ap, dni, dhi, false⟩

/-- `AnalysisPeriod(timestep=timestep, is_leap_year=is_leap_year)`. -/
def annualAP (ts : Int) (leap : Bool) : Except E AP :=
  liftCal (AP.mkOpt? none none none none none none (some ts) leap)

/-- `Wea.from_annual_values(location, dni, dhi, timestep, is_leap_year)`. -/
def fromAnnualValues {α : Type} (dni dhi : List α) (ts : Int) (leap : Bool) : Except E (W α) := do
  let ap ← annualAP ts leap
  mkCont ap dni dhi

/-! ### The .wea header -/

/-- The numeric part of a `Location` (city as whitespace-free words). -/
structure Loc where
  city : List String
  lat : Rat
  lon : Rat
  tz : Rat
  elev : Rat
deriving DecidableEq, Repr

/-- The header at token level: `place <words>`, `latitude %.2f` (hundredths), `longitude %.2f` of
    `-longitude` (hundredths), `time_zone %d` of `-time_zone * 15` (whole degrees),
    `site_elevation %.1f` (tenths). -/
structure Hdr where
  city : List String
  lat100 : Int
  lon100 : Int
  tzDeg : Int
  elev10 : Int
deriving DecidableEq, Repr

/-- `Wea.header`.  `negTz15` is the product `-time_zone * 15` (the driver forms the IEEE product;
    theorems use the exact one, `headerOf`).  `%.2f` rounds the exact value half-to-even,
    `%d` truncates toward zero. -/
def fmtHeader (l : Loc) (negTz15 : Rat) : Hdr :=
  ⟨l.city, Py.round (l.lat * 100), Py.round (-l.lon * 100), Py.truncRat negTz15, Py.round (l.elev * 10)⟩

def headerOf (l : Loc) : Hdr := fmtHeader l (-l.tz * 15)

/-- `_parse_wea_header`: `latitude = float(tok)`, `longitude = -float(tok)`,
    `time_zone = -int(tok) / 15`, `elevation = float(tok)`; the `Location` setters assert the ranges. -/
def parseHeader (h : Hdr) : Except E Loc :=
  let lat : Rat := (h.lat100 : Rat) / 100
  let lon : Rat := -((h.lon100 : Rat) / 100)
  let tz : Rat := ((-h.tzDeg : Int) : Rat) / 15
  if lat < -90 ∨ 90 < lat then .error .assert
  else if lon < -180 ∨ 180 < lon then .error .assert
  else if tz < -12 ∨ 14 < tz then .error .assert
  else .ok ⟨h.city, lat, lon, tz, (h.elev10 : Rat) / 10⟩

/-! ### Data lines -/

/-- One data line at token level: `"%d %d %.3f %d %d"`; `milli` is the `%.3f` text read as
    thousandths of an hour. -/
structure Line where
  month : Nat
  day : Nat
  milli : Nat
  v1 : Int
  v2 : Int
deriving DecidableEq, Repr

/-- `'%.3f' % (hour + minute / 60.0)` in thousandths (round half to even of the exact value; for
    whole minutes there are no ties and the float error is far below the distance to a tie). -/
def milliOf (hour minute : Nat) : Nat :=
  (Py.round ((((hour : Nat) : Rat) + ((minute : Nat) : Rat) / 60) * 1000)).toNat

/-- `to_file_string`: one line per step, from the public datetime and `%d` (truncation) of both
    values. -/
def fmtLine (d : DT) (a b : Rat) : Line := ⟨d.month, d.day, milliOf d.hour d.minute, Py.truncRat a, Py.truncRat b⟩

/-- Lines of `to_file_string()` (header apart); a public datetime outside the year is the
    `ValueError` of `add_minute`. -/
def toLines (w : W Rat) : Except E (List Line) :=
  (List.zip w.datetimes (List.zip w.dni w.dhi)).mapM fun p =>
    match p.1 with
    | .ok d => .ok (fmtLine d p.2.1 p.2.2)
    | .error e => .error (E.ofCal e)

/-- Exact value of `float(tok) * 60` for the `%.3f` token `milli` (the driver uses the IEEE product). -/
def prod60Exact (milli : Nat) : Rat := ((milli : Nat) : Rat) * 3 / 50

/-- Repaired sparse path: minute of the day `int(round(float_hour * 60))`. -/
def minuteOfDay (x60 : Rat) : Nat := (Py.round x60).toNat
/-- Pinned sparse path: `int(float_hour * 60)` (truncation) – kept for the counterexample. -/
def minuteOfDayTrunc (x60 : Rat) : Nat := (Py.truncRat x60).toNat

/-- Datetime of one line on the sparse path of `from_file` (repaired: leap flag passed by keyword). -/
def lineDT (prod60 : Nat → Rat) (ts : Int) (leap : Bool) (l : Line) : Except E DT :=
  if ts = 1 then liftCal (DT.make l.month l.day (l.milli / 1000) 0 leap)
  else do
    let t ← liftCal (fromMod (minuteOfDay (prod60 l.milli)))
    liftCal (DT.make l.month l.day t.hour t.minute leap)

/-- `AnalysisPeriod.from_start_end_datetime(st, end, timestep)`. -/
def deriveAP (st en : DT) (ts : Int) (leap : Bool) : Except E AP :=
  liftCal (AP.mk? st.month st.day st.hour en.month en.day en.hour ts leap)

/-- Insert into a list sorted by minute of the year (`sorted(zip(datetimes, values))`: the datetimes
    of one file share the leap flag, so the order is the order of `moy`). -/
def insertRow {β : Type} (r : DT × β) : List (DT × β) → List (DT × β)
  | [] => [r]
  | x :: xs => if r.1.moy < x.1.moy then r :: x :: xs else x :: insertRow r xs

def sortRows {β : Type} (l : List (DT × β)) : List (DT × β) := l.foldr insertRow []

def hasDupMoy {β : Type} : List (DT × β) → Bool
  | [] => false
  | [_] => false
  | x :: y :: rest => x.1.moy == y.1.moy || hasDupMoy (y :: rest)

/-- Effect of `validate_analysis_period` on the pairs of the two collections (the repair of the
    header period is C13's): chronological, duplicates are an `AssertionError`.
    (For a period that wraps the year end the code rotates the sorted list; results are compared
    as sets of rows, see the check module.) -/
def validateRows {β : Type} (l : List (DT × β)) : Except E (List (DT × β)) :=
  let s := sortRows l
  if hasDupMoy s then .error .assert else .ok s

/-- `Wea.from_file(path, timestep, is_leap_year)` on the data lines (repaired behaviour). -/
def fromFile (prod60 : Nat → Rat) (ts : Int) (leap : Bool) (lines : List Line) : Except E (W Int) :=
  match lines.head?, lines.getLast? with
  | some first, some last => do
    let st ← liftCal (DT.make first.month first.day (first.milli / 1000) 0 leap)
    let en ← liftCal (DT.make last.month last.day (last.milli / 1000) 0 leap)
    let ap0 ← deriveAP st en ts leap
    let window := ap0.st_hour ≠ 0 ∨ ap0.end_hour ≠ 23
    if ap0.len = lines.length ∧ ¬ window then
      .ok ⟨true, ap0, contDts ap0, lines.map (·.v1), lines.map (·.v2), false⟩
    else do
      let ap ← if ap0.len = lines.length then pure ap0 else annualAP ts leap
      let dts ← lines.mapM (lineDT prod60 ts leap)
      let rows ← validateRows (List.zip dts (lines.map fun l => (l.v1, l.v2)))
      .ok ⟨false, ap, rows.map (·.1), rows.map (·.2.1), rows.map (·.2.2), false⟩
  | _, _ => .error .index

/-- `from_daysim_file`: the last `int(timestep / 2)` values move to the front
    (`l[shift:] + l[:shift]` with `shift = -int(timestep / 2)`; for `timestep == 1` nothing moves). -/
def daysimShift {α : Type} (ts : Nat) (l : List α) : List α :=
  if ts = 1 then l
  else
    let s : Int := -((ts / 2 : Nat) : Int)
    Py.slice l s (l.length : Int) ++ Py.slice l 0 s

/-- `Wea.from_daysim_file` on the two value columns. -/
def fromDaysim (v1 v2 : List Int) (ts : Int) (leap : Bool) : Except E (W Int) :=
  if ts < 0 then .error .value
  else fromAnnualValues (daysimShift ts.toNat v1) (daysimShift ts.toNat v2) ts leap

/-! ### Dictionary form -/

/-- The keys of `Wea.to_dict()` that matter here (location apart). -/
structure Dict (α : Type) where
  ts : Option Int
  leap : Option Bool
  datetimes : Option (List (List Nat))
  dni : List α
  dhi : List α
deriving Repr

/-- `to_dict()`: `datetimes` only when the Wea is not annual. -/
def toDict {α : Type} (w : W α) : Dict α :=
  ⟨some w.ap.timestep, some w.ap.leap,
   if w.isAnnual then none else some (w.dts.map DT.toArray), w.dni, w.dhi⟩

/-- `DateTime.from_array(arr)` = `DateTime(*arr)`: missing trailing entries take the constructor
    defaults (month 1, day 1, hour 0, minute 0, not leap); more than five entries is a `TypeError`. -/
def arrDT (a : List Nat) : Except E DT :=
  match a with
  | [] => liftCal (DT.make 1 1 0 0 false)
  | [mo] => liftCal (DT.make mo 1 0 0 false)
  | [mo, da] => liftCal (DT.make mo da 0 0 false)
  | [mo, da, h] => liftCal (DT.make mo da h 0 false)
  | [mo, da, h, mi] => liftCal (DT.make mo da h mi false)
  | [mo, da, h, mi, l] => liftCal (DT.make mo da h mi (l != 0))
  | _ => .error .type

/-- `Wea.from_dict(data)` (repaired flag-mismatch branch: `leap_year=is_leap_year` by keyword). -/
def fromDict {α : Type} (d : Dict α) : Except E (W α) := do
  let ts := d.ts.getD 1
  let leap := d.leap.getD false
  match d.datetimes with
  | none =>
    let ap ← annualAP ts leap
    mkCont ap d.dni d.dhi
  | some arrs =>
    match arrs.head?, arrs.getLast? with
    | some a0, some a1 => do
      let st0 ← arrDT a0
      let en0 ← arrDT a1
      let (st, en) ←
        if st0.leap ≠ leap then do
          let s ← liftCal (DT.make st0.month st0.day st0.hour 0 leap)
          let e ← liftCal (DT.make en0.month en0.day en0.hour 0 leap)
          pure (s, e)
        else pure (st0, en0)
      if st.leap ≠ en.leap then .error .assert
      else do
        let ap0 ← liftCal (AP.mk? st.month st.day st.hour en.month en.day en.hour ts st.leap)
        let window := ap0.st_hour ≠ 0 ∨ ap0.end_hour ≠ 23
        if ap0.len = d.dni.length ∧ ¬ window then mkCont ap0 d.dni d.dhi
        else do
          let ap ← if ap0.len = d.dni.length then pure ap0 else annualAP ts leap
          let dts ← arrs.mapM arrDT
          if d.dni.length ≠ dts.length ∨ d.dhi.length ≠ dts.length then .error .assert
          else .ok ⟨false, ap, dts, d.dni, d.dhi, false⟩
    | _, _ => .error .index

/-! ### Static helpers on files -/

/-- `to_constant_value`: a data line is split on white space, its last two tokens are replaced and
    the tokens are joined by single blanks; fewer than two tokens is an `IndexError`. -/
def constLine (toks : List String) (v : String) : Except E (List String) :=
  if toks.length < 2 then .error .index else .ok (toks.dropLast.dropLast ++ [v, v])

def toConstant (body : List (List String)) (v : Int) : Except E (List (List String)) :=
  body.mapM fun t => constLine t (toString v)

/-- `count_timesteps`: number of lines minus the six header lines (an `int` – negative for a
    truncated file). -/
def countTimesteps (nLines : Nat) : Int := (nLines : Int) - 6

/-! ### Filters -/

/-- `filter_by_hoys`: both collections convert an hour of the year to a minute of the year with
    `int(round(hour * 60))` (the argument is the product `hour * 60`; the driver forms the IEEE one). -/
def hoyMoy (x60 : Rat) : Int := Py.round x60
/-- The truncating conversion `int(hour * 60)` – NOT what the code does; kept for the counterexample
    (seeded change C12-2). -/
def hoyMoyTrunc (x60 : Rat) : Int := Py.truncRat x60

/-- A collection filter as seen from the Wea: a value-independent selection of positions
    (C02 says which positions; here it is a parameter).  `none` = the filter raises. -/
abbrev Sel := List DT → Option (List Nat)

/-- Apply a selection of positions to a list (positions outside the list are dropped; the
    alignment theorem assumes they are inside). -/
def pick {β : Type} (idx : List Nat) (l : List β) : List β := idx.filterMap (l[·]?)

/-- One collection: its datetimes and its values. -/
structure Coll (α : Type) where
  dts : List DT
  vals : List α
deriving DecidableEq, Repr

/-- A collection filter induced by a selection. -/
def Coll.filter {α : Type} (sel : Sel) (c : Coll α) : Option (Coll α) :=
  (sel c.dts).map fun idx => ⟨pick idx c.dts, pick idx c.vals⟩

/-- `Wea.filter_by_*`: the same collection filter is applied to both collections and the results go
    through `Wea.__init__` (which asserts that they are aligned). -/
def filterWea {α : Type} (sel : Sel) (dni dhi : Coll α) : Option (Coll α × Coll α) :=
  match dni.filter sel, dhi.filter sel with
  | some a, some b => if a.dts = b.dts ∧ a.vals.length = b.vals.length then some (a, b) else none
  | _, _ => none

/-! ### Unit tests of the model -/

#guard getMoy 1 0 = 30
#guard getMoy 1 8759 = 525570
#guard getMoy 4 7 = 105
#guard getMoy 60 61 = 61
#guard milliOf 8 20 = 8333
#guard milliOf 0 10 = 167
#guard milliOf 23 59 = 23983
#guard minuteOfDay (prod60Exact 8333) = 500
#guard minuteOfDayTrunc (prod60Exact 8333) = 499
#guard daysimShift 6 [0, 1, 2, 3, 4, 5, 6, 7] = [5, 6, 7, 0, 1, 2, 3, 4]
#guard daysimShift 1 [0, 1, 2] = [0, 1, 2]
#guard (headerOf ⟨["X"], 41.98, -87.92, -6, 201⟩) = ⟨["X"], 4198, 8792, 90, 2010⟩
#guard (headerOf ⟨["X"], 0, 0, 11 / 2, 0⟩).tzDeg = -82
#guard parseHeader ⟨["X"], 4198, 8792, 90, 2010⟩ = .ok ⟨["X"], 41.98, -87.92, -6, 201⟩
#guard (contDts (AP.annual true 2)).length = 8784 * 2
#guard ((fromFile prod60Exact 3 false
    [⟨3, 1, 8000, 1, 2⟩, ⟨3, 1, 8333, 3, 4⟩, ⟨3, 1, 8667, 5, 6⟩]).toOption.map (·.dts.map (·.moy)))
    = some [85440, 85460, 85480]

end Wea
