/-
  Model of ladybug/viewsphere.py for property C20 (sky-dome subdivisions).  No Mathlib.

  What is modelled (as the code is, after the two proposed repairs fixes/C20_*.patch):
    * `_patch_row_count_array`                      -> `rowCountsOf`, `rowCounts`
    * `dome_patches` index structure                -> `domeVertexCount`, `domeFaces`, `domeVectorCount`,
                                                       vertical angle `π / meshAngleDen`
    * `_generate_bottom_from_top` / `sphere_patches`-> `sphereFaces`, `sphereVectorCount`
    * `dome_radial_patches` index structure         -> `radialFaces`, `radialVectorCount`
    * `_dome_patch_areas`, `dome_patch_weights`, `sphere_patch_weights`
                                                    -> `patchAreas`, `domeWeights`, `sphereWeights`
    * `_dome_radial_patch_areas`, `dome_radial_patch_weights` -> `radialAreas`, `radialWeights`
    * `_patch_count_in_radial_offset`, `horizontal_radial_patches` (counts),
      `horizontal_radial_patch_weights`             -> `offsetRowCount`, `offsetPatchCount`, `offsetWeights`
    * `tregenza_solid_angles`, `reinhart_solid_angles` (incl. their cache slots) -> `solidAngles`, `SAState`
    * all eleven lazily built `tregenza_*` / `reinhart_*` properties and their cache slots -> `LazyProp`, `LState`

  Numbers: the area/weight functions are generic in the number type `α` and take the sequence
  `s i = sin(i-th accumulated vertical angle)` as a parameter, so that they run on `Float` in the
  driver (with `s` computed by libm) and are reasoned about over any field in `Props/C20.lean`.
-/
import Ladybug.Py
import Ladybug.Gen.DomeTables

namespace Dome

inductive Err where
  | index | zero | assert | value
  deriving DecidableEq, Repr

/-! ### Row layout -/

/-- `_patch_row_count_array(division_count)` for a base table (the class constant). `range(n)` is empty
for `n ≤ 0`, hence `toNat`. -/
def rowCountsOf (base : List Nat) (n : Int) : List Nat :=
  if n = 1 then base else base.flatMap fun c => List.replicate n.toNat (c * n.toNat)

def rowCounts (n : Int) : List Nat := rowCountsOf Gen.Dome.tregenzaRows n

/-- Number of patches (= number of patch vectors) of a dome: one per row cell plus the zenith patch. -/
def patchCount (n : Int) : Nat := (rowCounts n).sum + 1

/-- `dome_patches`: the mesh rows are `π / d` apart with `d = 2·rows + n` when subdividing in place,
else `2·rows + 1`. -/
def meshAngleDen (rowsLen : Nat) (n : Int) (inPlace : Bool) : Int :=
  if inPlace then 2 * (rowsLen : Int) + n else 2 * (rowsLen : Int) + 1

/-- `_dome_patch_areas(division_count, subdivide_in_place)` (after fixes/C20_patch_area_angle.patch;
the pinned code used `2·rows + n` unconditionally). -/
def areaAngleDen (rowsLen : Nat) (n : Int) (inPlace : Bool) : Int :=
  if inPlace then 2 * (rowsLen : Int) + n else 2 * (rowsLen : Int) + 1

/-- `_patch_count_in_radial_offset(…, subdivide_in_place)`. -/
def offsetAngleDen (rowsLen : Nat) (n : Int) (inPlace : Bool) : Int :=
  if inPlace then 2 * (rowsLen : Int) + n else 2 * (rowsLen : Int) + 1

/-! ### Mesh index structure of `dome_patches` -/

/-- Quad faces of one row whose first vertex has index `start`: `(p, p+1, p+3, p+2)`, `p` advancing by 2. -/
def rowFaces (start c : Nat) : List (List Nat) :=
  (List.range c).map fun j => [start + 2 * j, start + 2 * j + 1, start + 2 * j + 3, start + 2 * j + 2]

/-- Quad faces of all rows; a row with `c` patches owns `2 (c + 1)` vertices. -/
def quadFaces : List Nat → Nat → List (List Nat)
  | [], _ => []
  | c :: rest, start => rowFaces start c ++ quadFaces rest (start + 2 * (c + 1))

/-- Vertices of the quad rows. -/
def quadVertexCount (rows : List Nat) : Nat := (rows.map fun c => 2 * (c + 1)).sum

/-- Triangles closing the dome: `(start + t, apex, start + t + 2)` for `t = 0, 2, …, 2·last − 2`
with `start = apex − 2·last − 1` (integers: the code can produce negative indices). -/
def capFaces (apex last : Nat) : List (List Int) :=
  (List.range last).map fun (k : Nat) =>
    let st : Int := (apex : Int) - 2 * (last : Int) - 1
    [st + 2 * (k : Int), (apex : Int), st + 2 * (k : Int) + 2]

structure MeshShape where
  vertexCount : Nat
  faces : List (List Int)
  vectorCount : Nat
  deriving DecidableEq, Repr

/-- `dome_patches(division_count, subdivide_in_place)`: shape of the returned mesh and vector list.
Empty row array: `patch_row_count[-1]` raises IndexError. -/
def domeShape (n : Int) (inPlace : Bool := false) : Except Err MeshShape :=
  let rows := rowCounts n
  if meshAngleDen rows.length n inPlace = 0 then .error .zero else     -- `math.pi / (2 * len + n)`
  match rows.getLast? with
  | none => .error .index
  | some last =>
    if rows.any (· == 0) then .error .zero else       -- `-2 * math.pi / row_count`
    let v := quadVertexCount rows
    let faces := (quadFaces rows 0).map (·.map Int.ofNat) ++ capFaces v last
    -- `face_normals[:-last] + (zenith,)`
    .ok ⟨v + 1, faces, (faces.length - last) + 1⟩

/-- `_generate_bottom_from_top`: mirrored vertices, reversed faces, joined after the top mesh. -/
def mirrorShape (m : MeshShape) : MeshShape :=
  ⟨2 * m.vertexCount,
   m.faces ++ m.faces.map (fun f => f.reverse.map (· + (m.vertexCount : Int))),
   2 * m.vectorCount⟩

/-- `_generate_bottom_from_top` on the vector list: the top vectors followed by their mirror images. -/
def sphereVectors {β : Type} [Neg β] (top : List (β × β × β)) : List (β × β × β) :=
  top ++ top.map fun v => (v.1, v.2.1, -v.2.2)

def sphereShape (n : Int) (inPlace : Bool := false) : Except Err MeshShape :=
  (domeShape n inPlace).map mirrorShape

/-- `dome_radial_patches(azimuth_count, altitude_count)`. With one altitude row the cap triangles index
vertices that do not exist (IndexError in `Mesh3D`). -/
def radialShape (az alt : Nat) : Except Err MeshShape :=
  if az = 0 then .error .zero
  else if alt = 0 then .error .zero
  else
    let rows := List.replicate (alt - 1) az
    let v := quadVertexCount rows
    if alt = 1 then .error .index
    else
      let faces := (quadFaces rows 0).map (·.map Int.ofNat) ++ capFaces v az
      .ok ⟨v + 1, faces, faces.length⟩

/-! ### Patch areas and weights (generic numbers) -/

section Areas
variable {α : Type} [Add α] [Sub α] [Mul α] [Div α] [OfNat α 0] [OfNat α 1] [NatCast α]

/-- `cap_areas[i]`: `2π` for `i = 0`, else `2π (1 − s i)`. -/
def capAt (twoPi : α) (s : Nat → α) (i : Nat) : α :=
  if i = 0 then twoPi else twoPi * (1 - s i)

/-- Areas of the quad rows from row index `i` on: each of the `c` patches of a row gets
`(cap i − cap (i+1)) / c`. -/
def rowsAreas (twoPi : α) (s : Nat → α) : List Nat → Nat → List α
  | [], _ => []
  | c :: rest, i =>
    List.replicate c ((capAt twoPi s i - capAt twoPi s (i + 1)) / (c : α)) ++ rowsAreas twoPi s rest (i + 1)

/-- `_dome_patch_areas`: the row patches followed by the zenith cap `cap_areas[-1]`. -/
def patchAreas (twoPi : α) (s : Nat → α) (rows : List Nat) : List α :=
  rowsAreas twoPi s rows 0 ++ [capAt twoPi s rows.length]

/-- Python `sum(l)` (left fold from 0). -/
def sumL (l : List α) : α := l.foldl (· + ·) 0

/-- `dome_patch_weights`: `area / (2π / len(areas))`. -/
def domeWeights (twoPi : α) (s : Nat → α) (rows : List Nat) : List α :=
  let a := patchAreas twoPi s rows
  a.map fun p => p / (twoPi / (a.length : α))

/-- `sphere_patch_weights`: the dome weights twice. -/
def sphereWeights (twoPi : α) (s : Nat → α) (rows : List Nat) : List α :=
  domeWeights twoPi s rows ++ domeWeights twoPi s rows

/-- `_dome_radial_patch_areas`: `alt` rows of `az` patches, no separate zenith patch. -/
def radialAreas (twoPi : α) (s : Nat → α) (az alt : Nat) : List α :=
  rowsAreas twoPi s (List.replicate alt az) 0

/-- `dome_radial_patch_weights`: `area / (2π)` (the weights *sum* to one). -/
def radialWeights (twoPi : α) (s : Nat → α) (az alt : Nat) : List α :=
  (radialAreas twoPi s az alt).map (· / twoPi)

/-- `horizontal_radial_patch_weights` given the number of patches in the offset band:
the first `k` areas divided by their mean, twice. -/
def offsetWeights (twoPi : α) (s : Nat → α) (rows : List Nat) (k : Nat) : List α :=
  let rel := (patchAreas twoPi s rows).take k
  let avg := sumL rel / (rel.length : α)
  rel.map (· / avg) ++ rel.map (· / avg)

end Areas

/-! ### `_patch_count_in_radial_offset` -/

/-- `int(round(q))` rows of the band, then `sum(patch_row_count[:row_count])` (Python slice semantics:
a negative count drops rows from the end). `q` is the exact value of the float quotient
`radians(offset) / vert_angle`. -/
def offsetPatchCountQ (rows : List Nat) (q : Rat) : Nat :=
  (Py.slice rows 0 (Py.round q)).sum

/-! ### Tabulated solid angles and their cache slots -/

/-- `[ang] * p_count` over `zip(coefficients, rows + (1,))`. -/
def solidAngles (coeffs : List Rat) (rows : List Nat) : List Rat :=
  (List.zipWith (fun a c => List.replicate c a) coeffs (rows ++ [1])).flatten

def tregenzaSolidAngles : List Rat := solidAngles Gen.Dome.tregenzaCoefficients Gen.Dome.tregenzaRows
def reinhartSolidAngles : List Rat := solidAngles Gen.Dome.reinhartCoefficients Gen.Dome.reinhartRows

/-- The two cache slots of a `ViewSphere` (after fixes/C20_solid_angle_slot.patch each getter has its own). -/
structure SAState where
  treg : Option (List Rat) := none
  rein : Option (List Rat) := none

/-- One property read: `false` = `tregenza_solid_angles`, `true` = `reinhart_solid_angles`. -/
def SAState.read (st : SAState) (reinhart : Bool) : List Rat × SAState :=
  if reinhart then
    match st.rein with
    | some t => (t, st)
    | none => (reinhartSolidAngles, { st with rein := some reinhartSolidAngles })
  else
    match st.treg with
    | some t => (t, st)
    | none => (tregenzaSolidAngles, { st with treg := some tregenzaSolidAngles })

/-- Results of a sequence of reads on a fresh object. -/
def readSeq : SAState → List Bool → List (List Rat)
  | _, [] => []
  | st, b :: rest => let r := st.read b; r.1 :: readSeq r.2 rest

/-! ### The lazily built properties of `ViewSphere` (slot table) -/

/-- The eleven lazy properties; each has a cache slot of the same name (`_<name>`). -/
inductive LazyProp where
  | tDomeVec | tSphereVec | tDomeMesh | tDomeMeshHi | tSphereMesh | tSolid
  | rDomeVec | rSphereVec | rDomeMesh | rSphereMesh | rSolid
  deriving DecidableEq, Repr

def LazyProp.all : List LazyProp :=
  [.tDomeVec, .tSphereVec, .tDomeMesh, .tDomeMeshHi, .tSphereMesh, .tSolid,
   .rDomeVec, .rSphereVec, .rDomeMesh, .rSphereMesh, .rSolid]

/-- What a slot can hold: the vectors / the mesh of `dome_patches(n, in_place)` or of
`sphere_patches(n)`, or one of the two solid-angle tables. -/
inductive Content where
  | domeVec (n : Nat) (inPlace : Bool)
  | domeMesh (n : Nat) (inPlace : Bool)
  | sphereVec (n : Nat)
  | sphereMesh (n : Nat)
  | solid (reinhart : Bool)
  deriving DecidableEq, Repr

/-- What the property is documented to return (the statement's "one vector per patch", Tregenza = 1,
Reinhart = 2; the high-resolution display mesh is the 3× in-place subdivision). -/
def LazyProp.designated : LazyProp → Content
  | .tDomeVec => .domeVec 1 false
  | .tSphereVec => .sphereVec 1
  | .tDomeMesh => .domeMesh 1 false
  | .tDomeMeshHi => .domeMesh 3 true
  | .tSphereMesh => .sphereMesh 1
  | .tSolid => .solid false
  | .rDomeVec => .domeVec 2 false
  | .rSphereVec => .sphereVec 2
  | .rDomeMesh => .domeMesh 2 false
  | .rSphereMesh => .sphereMesh 2
  | .rSolid => .solid true

/-- The slot a getter tests for `None` and returns (as the code is: its own). -/
def LazyProp.slot (p : LazyProp) : LazyProp := p

/-- The assignments a getter performs when its slot is empty, transcribed getter by getter
(`self._a, self._b = self.dome_patches(...)`, `…, _ = self.dome_patches(3, True)`, …). -/
def LazyProp.writes : LazyProp → List (LazyProp × Content)
  | .tDomeVec => [(.tDomeMesh, .domeMesh 1 false), (.tDomeVec, .domeVec 1 false)]
  | .tSphereVec => [(.tSphereMesh, .sphereMesh 1), (.tSphereVec, .sphereVec 1)]
  | .tDomeMesh => [(.tDomeMesh, .domeMesh 1 false), (.tDomeVec, .domeVec 1 false)]
  | .tDomeMeshHi => [(.tDomeMeshHi, .domeMesh 3 true)]
  | .tSphereMesh => [(.tSphereMesh, .sphereMesh 1), (.tSphereVec, .sphereVec 1)]
  | .tSolid => [(.tSolid, .solid false)]
  | .rDomeVec => [(.rDomeMesh, .domeMesh 2 false), (.rDomeVec, .domeVec 2 false)]
  | .rSphereVec => [(.rSphereMesh, .sphereMesh 2), (.rSphereVec, .sphereVec 2)]
  | .rDomeMesh => [(.rDomeMesh, .domeMesh 2 false), (.rDomeVec, .domeVec 2 false)]
  | .rSphereMesh => [(.rSphereMesh, .sphereMesh 2), (.rSphereVec, .sphereVec 2)]
  | .rSolid => [(.rSolid, .solid true)]

/-- Slot contents of one `ViewSphere` object (`none` = the initial `None`). -/
abbrev LState := LazyProp → Option Content

def LState.empty : LState := fun _ => none

def LState.assign (st : LState) (ws : List (LazyProp × Content)) : LState :=
  ws.foldl (fun s w => fun q => if q = w.1 then some w.2 else s q) st

/-- One property read: fill the slots when the tested slot is empty, return the getter's slot
(`none` = the getter hands out `None`). -/
def LState.read (st : LState) (p : LazyProp) : Option Content × LState :=
  match st p.slot with
  | some _ => (st p.slot, st)
  | none => let st' := st.assign p.writes; (st' p.slot, st')

/-- Results of a sequence of property reads, starting from a given object state. -/
def lazyReadSeq : LState → List LazyProp → List (Option Content)
  | _, [] => []
  | st, p :: rest => let r := st.read p; r.1 :: lazyReadSeq r.2 rest

/-- Number of entries of a content (vectors, table entries; faces for a mesh). -/
def Content.count : Content → Except Err Nat
  | .domeVec n ip => (domeShape n ip).map (·.vectorCount)
  | .domeMesh n ip => (domeShape n ip).map (·.faces.length)
  | .sphereVec n => (sphereShape n).map (·.vectorCount)
  | .sphereMesh n => (sphereShape n).map (·.faces.length)
  | .solid b => .ok (if b then reinhartSolidAngles else tregenzaSolidAngles).length

-- unit tests that do not depend on the regenerated tables (those are theorems in Props/C20.lean)
#guard rowCountsOf [3, 2] 1 = [3, 2]
#guard rowCountsOf [3, 2] 2 = [6, 6, 4, 4]
#guard rowCountsOf [3, 2] 0 = []
#guard rowCountsOf [3, 2] (-1) = []
#guard quadFaces [2, 1] 0 = [[0, 1, 3, 2], [2, 3, 5, 4], [6, 7, 9, 8]]
#guard capFaces 10 1 = [[7, 10, 9]]
#guard (radialShape 3 2).map (fun m => (m.vertexCount, m.faces.length, m.vectorCount)) = .ok (9, 6, 6)
#guard solidAngles [1 / 2, 1 / 3] [2] = [1 / 2, 1 / 2, 1 / 3]
#guard offsetPatchCountQ [30, 30, 24] (5 / 2) = 60
#guard offsetPatchCountQ [30, 30, 24] (7 / 2) = 84
#guard offsetPatchCountQ [30, 30, 24] (-1) = 60

end Dome
