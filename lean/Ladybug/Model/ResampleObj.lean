/-
  Object state machine of the hourly data collections of ladybug/datacollection.py
  (HourlyDiscontinuousCollection, HourlyContinuousCollection and their immutable twins of
  datacollectionimmutable.py), built on the pure functions of Model/Resample.lean.  No Mathlib.

  An object `Obj` is what the Python object stores, including the one lazily filled slot the
  classes have: `_datetimes` of a continuous collection (`None` until `datetimes` is read the
  first time; `convert_to_culled_timestep` writes it).  `Pub` is the PUBLIC state a user can see
  or establish: class, mutability, header period, values, datetimes, validated flag, the two
  time flags of the data type.  Every operation is a function of the public state (`…P`), the
  machine `step` only decides what happens to the slot – so the slot cannot be observed
  (Props/C13.lean: `C13_history_refines_fresh`, `C13_read_pure`, `C13_refused_preserves`).

  Operations (a history is a list of them, run on ONE object; a derived collection may be adopted
  as the current object):
    read            values / period / flag (fill = false) or `datetimes` (fill = true: fills the slot)
    validate        validate_analysis_period()
    cull ts         cull_to_timestep(ts)
    convCull ts     convert_to_culled_timestep(ts)            (in place)
    holes           interpolate_holes()
    interp ts cum   interpolate_to_timestep(ts, cum)          (cum = none: not a bool)
    setValues vs    `coll.values = vs`                        (in place; none: a string)
    setItem i v     `coll[i] = v`                             (in place)
    toImmutable / toMutable / duplicate / toDiscontinuous / dictRoundTrip (`from_dict(to_dict())`)
  A refused operation (the code raises) leaves the object as it was and answers `refused e`.

  Correspondence op: `hist` of Drv/C13.lean (harness/props/c13.py, history correspondence).
-/
import Ladybug.Model.Resample
import Ladybug.Gen.ResampleSrc

open Cal

namespace Resample

/-- Error classes of the object operations (`VErr` plus AttributeError). -/
inductive OErr where
  | value | assert | index | type | zero | attr
deriving DecidableEq, Repr

def OErr.ofV : VErr → OErr
  | .value => .value
  | .assert => .assert
  | .index => .index
  | .type => .type
  | .zero => .zero

/-- The stored object.  `dts = none`: a continuous collection whose `_datetimes` slot is empty. -/
structure Obj where
  cont : Bool
  imm : Bool
  ap : AP
  vals : List Rat
  dts : Option (List Nat)
  validated : Bool
  nativeCum : Bool
  pit : Bool
deriving DecidableEq, Repr

/-- The public state: what the properties `header.analysis_period`, `values`, `datetimes`,
    `validated_a_period`, `is_continuous`, `is_mutable` show. -/
structure Pub where
  cont : Bool
  imm : Bool
  ap : AP
  vals : List Rat
  moys : List Nat
  validated : Bool
  nativeCum : Bool
  pit : Bool
deriving DecidableEq, Repr

/-- `datetimes` (as minutes of the year): the slot, or the steps of the header period. -/
def Obj.moys (o : Obj) : List Nat := o.dts.getD o.ap.moys

def Obj.pub (o : Obj) : Pub := ⟨o.cont, o.imm, o.ap, o.vals, o.moys, o.validated, o.nativeCum, o.pit⟩

/-- A fresh object that shows the public state `p` (slot written explicitly). -/
def Pub.fresh (p : Pub) : Obj := ⟨p.cont, p.imm, p.ap, p.vals, some p.moys, p.validated, p.nativeCum, p.pit⟩

/-- `zip(datetimes, values)`. -/
def Pub.pairs (p : Pub) : List (Nat × Rat) := p.moys.zip p.vals

/-! ### Constructors -/

/-- `HourlyContinuousCollection(header, values)` (or its immutable twin): hour window 0..23 and
    one value per step of the period; the slot starts empty, the flag is True. -/
def mkCont (p : Pub) (imm : Bool) (ap : AP) (vals : List Rat) : Except OErr Obj :=
  if ap.st_hour ≠ 0 ∨ ap.end_hour ≠ 23 then .error .assert
  else if vals.length ≠ ap.len then .error .assert
  else .ok ⟨true, imm, ap, vals, none, true, p.nativeCum, p.pit⟩

/-- `HourlyDiscontinuousCollection(header, values, datetimes)` followed by the assignment of the
    flag: as many values as datetimes, at least one. -/
def mkDisc (p : Pub) (imm : Bool) (ap : AP) (vals : List Rat) (moys : List Nat) (validated : Bool) :
    Except OErr Obj :=
  if vals.length ≠ moys.length then .error .assert
  else if vals = [] then .error .assert
  else .ok ⟨false, imm, ap, vals, some moys, validated, p.nativeCum, p.pit⟩

/-! ### Operations as functions of the public state -/

/-- `duplicate()`, `to_mutable()`, `to_immutable()`, `from_dict(to_dict())`: the constructor of
    the class is run again on header copy, values (and datetimes, flag). -/
def copyP (p : Pub) (imm : Bool) : Except OErr Obj :=
  if p.cont then mkCont p imm p.ap p.vals else mkDisc p imm p.ap p.vals p.moys p.validated

/-- `validate_analysis_period()`: a continuous collection answers a copy; a discontinuous one is
    sorted and its period repaired WHATEVER its validated flag says; the result is a mutable
    discontinuous collection flagged as validated. -/
def validateP (p : Pub) : Except OErr Obj :=
  if p.cont then copyP p p.imm
  else if p.pairs = [] then .error .value          -- `zip(*sorted(zip((), ())))` cannot be unpacked
  else
    match validateHourly p.ap p.ap.leap p.pairs with
    | .error e => .error (.ofV e)
    | .ok v => mkDisc p false v.ap (v.data.map (·.2)) (v.data.map (·.1)) true

/-- `cull_to_timestep(ts)`: a new mutable discontinuous collection, flagged as validated. -/
def cullP (p : Pub) (ts : Nat) : Except OErr Obj :=
  match cull p.ap ts p.pairs with
  | .error e => .error (.ofV e)
  | .ok v => mkDisc p false v.ap (v.data.map (·.2)) (v.data.map (·.1)) true

/-- The in-place cull of a continuous collection is refused: the class has its own
    `convert_to_culled_timestep` that asserts `current timestep % ts = 0`
    (`Gen.ResampleSrc.contCullStrict`, read off datacollection.py on every run; true with
    fixes/C13_continuous_cull_in_place_divisor.patch) and `ts` does not divide the current timestep. -/
def contCullRefused (strict : Bool) (p : Pub) (ts : Nat) : Bool :=
  strict && p.cont && decide (p.ap.timestep % ts ≠ 0)

/-- `convert_to_culled_timestep(ts)`: the new period and the kept pairs.  The kept list may be
    empty.  Without the divisibility assertion of the continuous class (`strict = false`, the code
    as it was) a continuous collection may end up with fewer values than its period has steps. -/
def convCullWith (strict : Bool) (p : Pub) (ts : Nat) : Except OErr (AP × List (Nat × Rat)) :=
  if p.imm then .error .attr
  else if ts ∈ Gen.Ap.validTimesteps then
    if contCullRefused strict p ts then .error .assert else
    match liftAP (AP.mk? p.ap.st_month p.ap.st_day p.ap.st_hour p.ap.end_month p.ap.end_day p.ap.end_hour
        ts p.ap.leap) with
    | .error e => .error (.ofV e)
    | .ok nap => .ok (nap, p.pairs.filter fun q => q.1 % (60 / ts) = 0)
  else .error .assert

/-- The in-place cull of the code under test (strictness as read off the source). -/
def convCullP (p : Pub) (ts : Nat) : Except OErr (AP × List (Nat × Rat)) :=
  convCullWith Gen.ResampleSrc.contCullStrict p ts

/-- `interpolate_holes()`: a continuous collection answers a copy. -/
def holesP (p : Pub) : Except OErr Obj :=
  if p.cont then copyP p p.imm
  else
    match interpolateHoles p.ap p.validated p.pairs with
    | .error e => .error (.ofV e)
    | .ok vals => mkCont p false p.ap vals

/-- `interpolate_to_timestep(ts, cum)`: only continuous collections have it. -/
def interpP (p : Pub) (ts : Nat) (cum : Option (Option Bool)) : Except OErr Obj :=
  if p.cont = false then .error .attr
  else if ts % p.ap.timestep ≠ 0 then .error .assert
  else
    match cum with
    | none => .error .assert
    | some c =>
      match interpolateToTimestep p.ap p.vals ts c p.nativeCum p.pit with
      | .error e => .error (.ofV e)
      | .ok r => mkCont p false r.1 r.2

/-- `coll.values = vs` (`_check_values` of the class). -/
def setValuesP (p : Pub) (vs : Option (List Rat)) : Except OErr (List Rat) :=
  if p.imm then .error .attr
  else
    match vs with
    | none => .error .assert
    | some vs =>
      if p.cont then (if vs.length ≠ p.ap.len then .error .assert else .ok vs)
      else if vs.length ≠ p.moys.length then .error .assert
      else if vs = [] then .error .assert
      else .ok vs

/-- `coll[i] = v` with Python's index rule. -/
def setItemP (p : Pub) (i : Int) (v : Rat) : Except OErr (List Rat) :=
  if p.imm then .error .attr
  else
    let n : Int := p.vals.length
    let j := if i < 0 then i + n else i
    if j < 0 ∨ j ≥ n then .error .index else .ok (p.vals.set j.toNat v)

/-- `to_discontinuous()`: only continuous collections have it. -/
def toDiscP (p : Pub) : Except OErr Obj :=
  if p.cont = false then .error .attr else mkDisc p false p.ap p.vals p.moys true

/-! ### The machine -/

inductive Op where
  | read (fill : Bool)
  | validate (adopt : Bool)
  | cull (ts : Nat) (adopt : Bool)
  | convCull (ts : Nat)
  | holes (adopt : Bool)
  | interp (ts : Nat) (cum : Option (Option Bool)) (adopt : Bool)
  | setValues (vs : Option (List Rat))
  | setItem (i : Int) (v : Rat)
  | toImmutable
  | toMutable
  | duplicate
  | toDiscontinuous
  | dictRoundTrip
deriving Repr

inductive Out where
  | done
  | result (p : Pub)
  | refused (e : OErr)
deriving DecidableEq, Repr

/-- A derived collection: refused → nothing happens; else it is answered and, when `adopt`, becomes
    the current object. -/
def derive (o : Obj) (adopt : Bool) (r : Except OErr Obj) : Obj × Out :=
  match r with
  | .error e => (o, .refused e)
  | .ok n => (if adopt then n else o, .result n.pub)

/-- Reading `datetimes` of a continuous collection fills the slot. -/
def Obj.fill (o : Obj) : Obj := { o with dts := some o.moys }

def step (o : Obj) (op : Op) : Obj × Out :=
  match op with
  | .read fill => (if fill then o.fill else o, .done)
  | .validate adopt => derive o adopt (validateP o.pub)
  | .cull ts adopt => derive o adopt (cullP o.pub ts)
  | .convCull ts =>
    match convCullP o.pub ts with
    | .error e => (o, .refused e)
    | .ok r => ({ o with ap := r.1, vals := r.2.map (·.2), dts := some (r.2.map (·.1)) }, .done)
  | .holes adopt => derive o adopt (holesP o.pub)
  | .interp ts cum adopt => derive o adopt (interpP o.pub ts cum)
  | .setValues vs =>
    match setValuesP o.pub vs with
    | .error e => (o, .refused e)
    | .ok vs => ({ o with vals := vs }, .done)
  | .setItem i v =>
    match setItemP o.pub i v with
    | .error e => (o, .refused e)
    | .ok vs => ({ o with vals := vs }, .done)
  | .toImmutable => derive o true (copyP o.pub true)
  | .toMutable => derive o true (copyP o.pub false)
  | .duplicate => derive o true (copyP o.pub o.imm)
  | .toDiscontinuous => derive o true (toDiscP o.pub)
  | .dictRoundTrip => derive o true (copyP o.pub o.imm)

/-- A history on one object: the final object and the answers, step by step. -/
def run (o : Obj) : List Op → Obj × List Out
  | [] => (o, [])
  | op :: rest =>
    let r := step o op
    let t := run r.1 rest
    (t.1, r.2 :: t.2)

/-- The same machine without the slot: a state is the public state (the specification). -/
def stepPub (p : Pub) (op : Op) : Pub × Out := ((step p.fresh op).1.pub, (step p.fresh op).2)

def runPub (p : Pub) : List Op → Pub × List Out
  | [] => (p, [])
  | op :: rest =>
    let r := stepPub p op
    let t := runPub r.1 rest
    (t.1, r.2 :: t.2)

/-! ### Unit tests -/

private def day1 : AP := ⟨6, 21, 0, 6, 21, 23, 1, false⟩
private def disc0 : Obj := ⟨false, false, day1, [3, 1, 2], some [247560, 246960, 248040], false, false, true⟩

-- cull sets the flag without sorting; validation afterwards still sorts
#guard ((step (step disc0 (.cull 1 true)).1 (.validate true)).1.moys) = [246960, 247560, 248040]
#guard ((step (step disc0 (.cull 1 true)).1 (.validate true)).1.vals) = [1, 3, 2]
#guard (step disc0 (.setValues (some [1, 2]))).2 = .refused .assert
#guard (step disc0 (.interp 2 (some none) false)).2 = .refused .attr
#guard (step disc0 (.holes false)).2 = .refused .assert
#guard (step disc0 (.convCull 7)).2 = .refused .assert
#guard (step disc0 .toImmutable).1.imm = true
#guard (step (step disc0 .toImmutable).1 (.setItem 0 5)).2 = .refused .attr

end Resample
