/-
  Object state machine of `AnalysisPeriod` (round 3): the eight public fields plus the two lazily
  filled private slots `_timestamps_data` / `_datetimes`, the public operations as `Op`, one
  transition function `Obj.step`.  The class has no public setter: the public state a user can
  establish is exactly the constructor's result, every attribute assignment is refused
  (properties without setter, `__slots__`), so the *specification* of every observation is the pure
  function `AP.observe ap op` of the fields — it has no hidden slot.  The state machine describes
  the code as it is: `moys`/`hoys`/`hoys_int`/`datetimes`/`is_time_included`/slow `__len__` fill the
  slots on first use and afterwards answer FROM THE SLOTS.

  Theorems (Props/C04.lean): `C04_history_refines_fresh`, `C04_refused_preserves`, `C04_read_pure`,
  `C04_history_enumeration`, `C04_world_frame`.  No Mathlib.  Driver op `hist` (Drv/C04.lean) runs
  `World.run` so that the harness compares histories step by step.
-/
import Ladybug.Model.AP

open Cal

namespace AP

/-- One `AnalysisPeriod` object: public fields and the two private lazily filled slots. -/
structure Obj where
  ap : AP
  /-- `_timestamps_data` (`None` until first needed) -/
  ts : Option (List Nat)
  /-- `_datetimes` (`None` until first needed) -/
  dts : Option (List (Except Err DT))

/-- A freshly constructed object: both slots `None`. -/
def fresh (ap : AP) : Obj := ⟨ap, none, none⟩

/-- `if self._timestamps_data is None: self._calculate_timestamps()` – only the first slot is
    tested; `_calculate_timestamps` assigns both. -/
def Obj.fill (o : Obj) : Obj :=
  match o.ts with
  | none => ⟨o.ap, some o.ap.moys, some o.ap.datetimes⟩
  | some _ => o

/-- The list in `_timestamps_data` (empty when the slot is `None`; never read in that state). -/
def Obj.tsList (o : Obj) : List Nat := o.ts.getD []
/-- The list in `_datetimes`. -/
def Obj.dtList (o : Obj) : List (Except Err DT) := o.dts.getD []

/-- The closed form of `__len__` (whole-day window). -/
def lenFast (ap : AP) : Nat :=
  if ap.isReversed = false then (ap.endTime.intHoy + 1 - ap.stTime.intHoy) * ap.timestep
  else
    let first := (⟨12, 31, 23, 0, ap.leap⟩ : DT).intHoy - ap.stTime.intHoy
    let second := ap.endTime.intHoy - (⟨1, 1, 0, 0, ap.leap⟩ : DT).intHoy
    (first + second + 2) * ap.timestep

/-- Public operations on one object.  The last four are the ways a caller can *try* to change an
    existing period; the code refuses the first three, and the fourth (mutating a value a read
    returned) never reaches the object because every read returns a fresh tuple / list / dict. -/
inductive Op where
  | moys | hoys | hoysInt | datetimes | len | doys | months | mph
  | included (m : Nat)
  | possible (mod : Nat)
  | repr | toDict | fields | duplicate
  /-- `obj.<attr> = v`: `AttributeError` (read-only property, or no such slot) -/
  | setAttr
  /-- `obj.is_time_included(None)`: `AttributeError` before anything is looked up …
      but AFTER the slots were filled (the fill comes first in the code). -/
  | includedBad
  /-- `obj.is_possible_hour('x')`: `TypeError` -/
  | possibleBad
  /-- the caller edits the value returned by a read in place (lists) / finds it immutable (tuples) -/
  | mutateResult
deriving DecidableEq, Repr

/-- Results of operations. -/
inductive Out where
  | nats (l : List Nat)
  | dts (l : List (Except Err DT))
  | nat (n : Nat)
  | bool (b : Bool)
  | triples (l : List (Nat × Nat × Nat))
  | str (s : String)
  | kv (l : List (String × Int))
  | flds (ap : AP) (rev ovn ann : Bool) (st en step : Nat)
  | made (r : Except Err AP)
  | refused (cls : String)
  | unit
deriving DecidableEq

/-- Operations the code refuses (raises). -/
def Op.isRefused : Op → Bool
  | .setAttr | .includedBad | .possibleBad => true
  | _ => false

/-- The `fields` observation. -/
def fieldsOut (ap : AP) : Out :=
  .flds ap ap.isReversed ap.isOvernight ap.isAnnual ap.stMoy ap.endMoy ap.step

/-- **Specification**: what an operation answers, as a pure function of the public fields. -/
def observe (ap : AP) : Op → Out
  | .moys => .nats ap.moys
  | .hoys => .nats ap.moys            -- `moy / 60.0` of each (float division done by the harness)
  | .hoysInt => .nats ap.hoysInt
  | .datetimes => .dts ap.datetimes
  | .len => .nat ap.len
  | .doys => .nats ap.doysInt
  | .months => .nats ap.monthsInt
  | .mph => .triples ap.monthsPerHour
  | .included m => .bool (ap.includesMoy m)
  | .possible mod => .bool (ap.possibleMod mod)
  | .repr => .str ap.repr
  | .toDict => .kv ap.toDict
  | .fields => fieldsOut ap
  | .duplicate => .made ap.duplicate
  | .setAttr => .refused "attr"
  | .includedBad => .refused "attr"
  | .possibleBad => .refused "type"
  | .mutateResult => .unit

/-- **The code**: one operation on an object with its slots. -/
def Obj.step (o : Obj) : Op → Obj × Out
  | .moys => (o.fill, .nats o.fill.tsList)
  | .hoys => (o.fill, .nats o.fill.tsList)
  | .hoysInt => (o.fill, .nats (o.fill.tsList.map (· / 60)))
  | .datetimes => (o.fill, .dts o.fill.dtList)
  | .len =>
    if o.ap.st_hour = 0 ∧ o.ap.end_hour = 23 then (o, .nat (lenFast o.ap))
    else (o.fill, .nat o.fill.tsList.length)
  | .doys => (o, .nats o.ap.doysInt)
  | .months => (o, .nats o.ap.monthsInt)
  | .mph => (o, .triples o.ap.monthsPerHour)
  | .included m => (o.fill, .bool (o.fill.tsList.contains m))
  | .possible mod => (o, .bool (o.ap.possibleMod mod))
  | .repr => (o, .str o.ap.repr)
  | .toDict => (o, .kv o.ap.toDict)
  | .fields => (o, fieldsOut o.ap)
  | .duplicate => (o, .made o.ap.duplicate)
  | .setAttr => (o, .refused "attr")
  | .includedBad => (o.fill, .refused "attr")
  | .possibleBad => (o, .refused "type")
  | .mutateResult => (o, .unit)

/-- State after a history. -/
def Obj.run (o : Obj) : List Op → Obj
  | [] => o
  | op :: ops => ((o.step op).1).run ops

/-- Outputs of a history, step by step. -/
def Obj.outs (o : Obj) : List Op → List Out
  | [] => []
  | op :: ops => (o.step op).2 :: ((o.step op).1).outs ops

/-- The slots are either both empty or hold exactly the enumeration of the fields. -/
def Obj.Inv (o : Obj) : Prop :=
  (o.ts = none ∧ o.dts = none) ∨ (o.ts = some o.ap.moys ∧ o.dts = some o.ap.datetimes)

/-! ### Several objects in one process (driver level)

The code has no class-level or module-level mutable state: an operation on one object, a refused
constructor call, or the construction of another period does not touch any other object. -/

/-- Operations of a process holding several periods. -/
inductive WOp where
  /-- operation on object `i` -/
  | on (i : Nat) (op : Op)
  /-- `AnalysisPeriod(...)`: appended when accepted, refused otherwise -/
  | new (stM stD stH endM endD endH ts : Option Int) (leap : Bool)
  /-- `objs[i].duplicate()` appended -/
  | dup (i : Nat)
  /-- `AnalysisPeriod.from_string(repr(objs[i]))` appended -/
  | viaString (i : Nat)
  /-- `AnalysisPeriod.from_dict(objs[i].to_dict())` appended -/
  | viaDict (i : Nat)
  /-- `AnalysisPeriod.from_start_end_datetime(st_time, end_time, timestep)` of object `i` appended -/
  | viaStartEnd (i : Nat)
  /-- `objs[i] == objs[j]` (and equal hashes) -/
  | eq (i j : Nat)

abbrev World := List Obj

def World.push (w : World) (r : Except Err AP) : World × Out :=
  match r with
  | .ok ap => (w ++ [fresh ap], .made (.ok ap))
  | .error e => (w, .made (.error e))

/-- `from_start_end_datetime`: the constructor on the fields of the two `DateTime`s. -/
def viaStartEnd (ap : AP) : Except Err AP :=
  mk? ap.st_month ap.st_day ap.st_hour ap.end_month ap.end_day ap.end_hour ap.timestep ap.leap

/-- `__key`/`__eq__`: start, end (DateTimes compare without the leap flag … the flag is a key
    component of its own), timestep, leap flag. -/
def sameKey (a b : AP) : Bool := decide (a = b)

def World.step (w : World) : WOp → World × Out
  | .on i op =>
    match w[i]? with
    | none => (w, .refused "index")
    | some o => (w.set i (o.step op).1, (o.step op).2)
  | .new a b c d e f g l => w.push (mkOpt? a b c d e f g l)
  | .dup i => match w[i]? with | none => (w, .refused "index") | some o => w.push o.ap.duplicate
  | .viaString i =>
    match w[i]? with | none => (w, .refused "index") | some o => w.push (fromString o.ap.repr)
  | .viaDict i =>
    match w[i]? with | none => (w, .refused "index") | some o => w.push (fromDict o.ap.toDict)
  | .viaStartEnd i =>
    match w[i]? with | none => (w, .refused "index") | some o => w.push (viaStartEnd o.ap)
  | .eq i j =>
    match w[i]?, w[j]? with
    | some a, some b => (w, .bool (sameKey a.ap b.ap))
    | _, _ => (w, .refused "index")

def World.outs (w : World) : List WOp → List Out
  | [] => []
  | op :: ops => (w.step op).2 :: ((w.step op).1).outs ops

def World.run (w : World) : List WOp → World
  | [] => w
  | op :: ops => ((w.step op).1).run ops

/-! ### Unit tests -/

#guard ((fresh ⟨12, 30, 0, 1, 2, 23, 1, false⟩).outs [.included 0, .moys]).getLast? =
  some (.nats (⟨12, 30, 0, 1, 2, 23, 1, false⟩ : AP).moys)
#guard ((fresh ⟨1, 1, 9, 1, 1, 10, 2, false⟩).outs [.len, .setAttr, .moys, .len]) =
  [.nat 3, .refused "attr", .nats [540, 570, 600], .nat 3]

end AP
