/-
  C10 — executable model of ladybug/skymodel.py and of the per-timestep formulas of
  Wea.global_horizontal_irradiance / direct_horizontal_irradiance / directional_irradiance and
  the design-day sky conditions (wea.py, designday.py).

  One polymorphic definition per Python function over the generic numeric interface of
  DESIGN.md section 4 (unbundled arithmetic classes + `Transc α`): the `Float` instance is run by
  `drv_c10` and compared with the real functions, the `ℝ` instance is what Props/C10 proves about.
  Transcribed from the code AS IT IS (operation order, Python `max`/`min` tie behaviour, negative
  list indices, `None` results, the exceptions that can be raised), with one exception: the
  `'simple'` air-mass model is modelled as REPAIRED by fixes/C10_simple_airmass_radians.patch
  (`1/sin(alt_rad)`; the pinned tree passes degrees to `sin`).

  Constant tables come from Gen/SkyTables.lean (regenerated from skymodel.py on every run).
  No Mathlib.
-/
import Ladybug.Py
import Ladybug.Transc
import Ladybug.Gen.SkyTables

namespace Sky

/-- Exceptions the modelled functions can raise (protocol names `err:<name>`). -/
inductive Err
  | value | zero | index | type
  deriving DecidableEq, Repr

/-- The seven relative air-mass formulas of `get_relative_airmass`. -/
inductive AmModel
  | kastenyoung1989 | kasten1966 | simple | pickering2002 | youngirvine1967 | young1994 | gueymard1993
  deriving DecidableEq, Repr

def AmModel.ofString? (s : String) : Option AmModel :=
  match s with
  | "kastenyoung1989" => some .kastenyoung1989
  | "kasten1966" => some .kasten1966
  | "simple" => some .simple
  | "pickering2002" => some .pickering2002
  | "youngirvine1967" => some .youngirvine1967
  | "young1994" => some .young1994
  | "gueymard1993" => some .gueymard1993
  | _ => none

section Generic

variable {α : Type} [Add α] [Sub α] [Mul α] [Div α] [Neg α] [OfScientific α]
  [LT α] [LE α] [DecidableLT α] [DecidableLE α] [Transc α]

open Transc

/-- `math.radians(x)` (CPython: `x * (pi / 180)`). -/
def radians (x : α) : α := x * (Transc.pi / 180.0)

/-- Python `max(a, b)`: the first argument unless the second is strictly greater. -/
def pmax (a b : α) : α := if b > a then b else a

/-- Python `min(a, b)`: the first argument unless the second is strictly smaller. -/
def pmin (a b : α) : α := if b < a then b else a

/-- Python `abs(x)` on a float. -/
def pabs (x : α) : α := if x < 0.0 then -x else x

/-- `x == 0` on numbers (both zeros of IEEE compare equal to 0). -/
def IsZero (x : α) : Prop := x ≤ 0.0 ∧ 0.0 ≤ x

instance (x : α) : Decidable (IsZero x) := by unfold IsZero; exact inferInstance

/-! ### air mass and extraterrestrial radiation -/

/-- `get_relative_airmass(altitude, model)`; `none` = Python `None` (altitude < 0).
    `1.0 / sin(..)` with a zero divisor raises ZeroDivisionError (`simple`, `youngirvine1967` at 0°). -/
def relativeAirmass (altitude : α) (m : AmModel) : Except Err (Option α) :=
  if altitude < 0.0 then .ok none
  else
    let altRad : α := radians altitude
    match m with
    | .kastenyoung1989 =>
      .ok (some (1.0 / (sin altRad + 0.50572 * pow (6.07995 + altitude) (-1.6364))))
    | .kasten1966 =>
      .ok (some (1.0 / (sin altRad + 0.15 * pow (3.885 + altitude) (-1.253))))
    | .simple =>
      -- REPAIRED behaviour (fixes/C10_simple_airmass_radians.patch); pinned tree: `sin altitude`
      if IsZero (sin altRad) then .error .zero else .ok (some (1.0 / sin altRad))
    | .pickering2002 =>
      .ok (some (1.0 / sin (radians (altitude + 244.0 / (165.0 + 47.0 * pow altitude 1.1)))))
    | .youngirvine1967 =>
      if IsZero (sin altRad) then .error .zero
      else
        let secZen : α := 1.0 / sin altRad
        .ok (some (secZen * (1.0 - 0.0012 * (secZen * secZen - 1.0))))
    | .young1994 =>
      .ok (some ((1.002432 * pow (sin altRad) 2.0 + 0.148386 * sin altRad + 0.0096467) /
        (pow (sin altRad) 3.0 + 0.149864 * pow (sin altRad) 2.0 + 0.0102963 * sin altRad
          + 0.000303978)))
    | .gueymard1993 =>
      .ok (some (1.0 / (sin altRad + 0.00176759 * (90.0 - altitude) *
        pow (94.37515 - (90.0 - altitude)) (-1.21563))))

/-- `get_absolute_airmass(airmass_relative, pressure)`. -/
def absoluteAirmass (am : Option α) (pressure : α) : Option α :=
  match am with
  | some a => some (a * pressure / 101325.0)
  | none => none

/-- `get_extra_radiation(doy, solar_constant)` (Spencer). -/
def extraRadiation (doy sc : α) : α :=
  let b : α := (2.0 * Transc.pi / 365.0) * (doy - 1.0)
  let r : α := 1.00011 + 0.034221 * cos b + 0.00128 * sin b + 0.000719 * cos (2.0 * b)
    + 7.7e-05 * sin (2.0 * b)
  sc * r

/-- `clearness_index(ghi, altitude, extra_radiation, min_sin_altitude, max_clearness_index)`. -/
def clearnessIndex (ghi altitude extra minSin maxKt : α) : α :=
  let s : α := sin (radians altitude)
  let i0h : α := extra * pmax s minSin
  let kt : α := ghi / i0h
  pmin (pmax kt 0.0) maxKt

/-- `clearness_index_zenith_independent(kt, airmass, max_clearness_index)`. -/
def ktPrime (kt : α) (am : Option α) (maxKt : α) : Except Err α :=
  match am with
  | none => .ok 0.0
  | some am =>
    if IsZero am then .error .zero
    else
      let k : α := kt / (1.031 * exp ((-1.4) / (0.9 + 9.4 / am)) + 0.1)
      .ok (pmin (pmax k 0.0) maxKt)

/-- `_disc_kn(clearness_index, airmass, max_airmass)` -> (Kn, am).  (The statements after the
    `if kt <= 0.6` are written out in both branches, as the formula translator does.) -/
def discKn (kt am maxAm : α) : α × α :=
  let am : α := pmin am maxAm
  let kt2 : α := kt * kt
  let kt3 : α := kt2 * kt
  if kt ≤ 0.6 then
    let a : α := 0.512 - 1.56 * kt + 2.286 * kt2 - 2.222 * kt3
    let b : α := 0.37 + 0.962 * kt
    let c : α := (-0.28) + 0.932 * kt - 2.048 * kt2
    let deltaKn : α := a + b * exp (c * am)
    let knc : α := 0.866 - 0.122 * am + 0.0121 * pow am 2.0 - 0.000653 * pow am 3.0
      + 1.4e-05 * pow am 4.0
    (knc - deltaKn, am)
  else
    let a : α := (-5.743) + 21.77 * kt - 27.49 * kt2 + 11.56 * kt3
    let b : α := 41.4 - 118.5 * kt + 66.05 * kt2 + 31.9 * kt3
    let c : α := (-47.01) + 184.2 * kt - 222.0 * kt2 + 73.81 * kt3
    let deltaKn : α := a + b * exp (c * am)
    let knc : α := 0.866 - 0.122 * am + 0.0121 * pow am 2.0 - 0.000653 * pow am 3.0
      + 1.4e-05 * pow am 4.0
    (knc - deltaKn, am)

/-- `disc(ghi, altitude, doy, pressure, min_sin_altitude, min_altitude, max_airmass)`
    -> (dni, kt, am);  `pressure = none` is Python `None`.  `min(None, 12)` is a TypeError. -/
def disc (ghi altitude doy : α) (pressure : Option α) (minSin minAlt maxAm : α) :
    Except Err (α × α × Option α) :=
  if altitude > minAlt ∧ ghi > 0.0 then
    let i0 : α := extraRadiation doy 1370.0
    let kt : α := clearnessIndex ghi altitude i0 minSin 1.0
    match relativeAirmass altitude .kasten1966 with
    | .error e => .error e
    | .ok am0 =>
      let am1 : Option α := match pressure with
        | some p => absoluteAirmass am0 p
        | none => am0
      match am1 with
      | none => .error .type
      | some am =>
        let r := discKn kt am maxAm
        .ok (pmax (r.1 * i0) 0.0, kt, some r.2)
  else .ok (0.0, 0.0, none)

/-! ### DIRINT -/

def ktpBin (k : α) : Int :=
  if k ≥ 0.0 ∧ k < 0.24 then 0 else if k ≥ 0.24 ∧ k < 0.4 then 1
  else if k ≥ 0.4 ∧ k < 0.56 then 2 else if k ≥ 0.56 ∧ k < 0.7 then 3
  else if k ≥ 0.7 ∧ k < 0.8 then 4 else if k ≥ 0.8 ∧ k ≤ 1.0 then 5 else -1

def altBin (a : α) : Int :=
  if a ≤ 90.0 ∧ a > 65.0 then 0 else if a ≤ 65.0 ∧ a > 50.0 then 1
  else if a ≤ 50.0 ∧ a > 35.0 then 2 else if a ≤ 35.0 ∧ a > 20.0 then 3
  else if a ≤ 20.0 ∧ a > 10.0 then 4 else if a ≤ 10.0 then 5 else -1

/-- `none` stands for the marker `-1` (no dew point given). -/
def wBin (w : Option α) : Int :=
  match w with
  | none => 4
  | some w =>
    if w ≥ 0.0 ∧ w < 1.0 then 0 else if w ≥ 1.0 ∧ w < 2.0 then 1
    else if w ≥ 2.0 ∧ w < 3.0 then 2 else if w ≥ 3.0 then 3 else -1

/-- `none` stands for the marker `-1` (`use_delta_kt_prime=False`). -/
def dktpBin (d : Option α) : Int :=
  match d with
  | none => 6
  | some d =>
    if d ≥ 0.0 ∧ d < 0.015 then 0 else if d ≥ 0.015 ∧ d < 0.035 then 1
    else if d ≥ 0.035 ∧ d < 0.07 then 2 else if d ≥ 0.07 ∧ d < 0.15 then 3
    else if d ≥ 0.15 ∧ d < 0.3 then 4 else if d ≥ 0.3 ∧ d ≤ 1.0 then 5 else -1

/-- `coeffs[ktp_bin][alt_bin][dktp_bin][w_bin]` with Python index semantics. -/
def dirintCoeff (kb ab db wb : Int) : Except Err α :=
  match Py.getIdx? (Gen.Sky.dirintCoeffs (α := α)) kb with
  | none => .error .index
  | some l1 =>
    match Py.getIdx? l1 ab with
    | none => .error .index
    | some l2 =>
      match Py.getIdx? l2 db with
      | none => .error .index
      | some l3 =>
        match Py.getIdx? l3 wb with
        | none => .error .index
        | some c => .ok c

/-- Stability index of step `i`: `0.5*(|k_i - k_{i+1}| + |k_i - k_{i-1}|)`; the successor of the
    last step is the first one (`except IndexError`), the predecessor of the first is the last
    (`kt_primes[-1]`). -/
def deltaKtPrime (ks : List α) (i : Nat) : Option α :=
  match ks[i]?, Py.getIdx? ks ((i : Int) - 1) with
  | some k, some prev =>
    let next : α := match ks[i + 1]? with
      | some x => x
      | none => ks.headD k
    some (0.5 * (pabs (k - next) + pabs (k - prev)))
  | _, _ => none

/-- One input row of `dirint`: (ghi, altitude, doy, pressure). -/
abbrev DRow (α : Type) := α × α × α × α

/-- First loop of `dirint`, one row: `disc` then `clearness_index_zenith_independent`
    -> (disc dni, kt'). -/
def dirintStep1 (minSin minAlt : α) (r : DRow α) : Except Err (α × α) :=
  match disc r.1 r.2.1 r.2.2.1 (some r.2.2.2) minSin minAlt 12.0 with
  | .error e => .error e
  | .ok d =>
    match ktPrime d.2.1 d.2.2 1.0 with
    | .error e => .error e
    | .ok kp => .ok (d.1, kp)

/-- The DIRINT coefficient of time step `i` (row `r`, first-loop result `s`): stability index,
    precipitable water, bins, matrix lookup. -/
def dirintCoefAt (step1 : List (α × α)) (useDelta : Bool) (tempDew : Option (List α)) (i : Nat)
    (s : α × α) (r : DRow α) : Except Err α := do
  let dk : Option α := if useDelta then deltaKtPrime (step1.map (·.2)) i else none
  if useDelta ∧ dk.isNone then throw Err.index
  let w : Option α ← match tempDew with
    | none => pure none
    | some tds =>
      match tds[i]? with
      | some td => pure (some (exp (0.07 * td - 0.075)))
      | none => throw Err.index
  dirintCoeff (α := α) (ktpBin s.2) (altBin r.2.1) (dktpBin dk) (wBin w)

/-- Remaining steps of `dirint` for time step `i`: `dni = disc_dni * coefficient` (Perez eqn 5). -/
def dirintStep2 (rows : List (DRow α)) (step1 : List (α × α)) (useDelta : Bool)
    (tempDew : Option (List α)) (i : Nat) : Except Err α :=
  match step1[i]?, rows[i]? with
  | some s, some r =>
    match dirintCoefAt step1 useDelta tempDew i s r with
    | .ok c => .ok (s.1 * c)
    | .error e => .error e
  | _, _ => .error .index

/-- `dirint(ghi, altitudes, doys, pressures, use_delta_kt_prime, temp_dew, min_sin_altitude,
    min_altitude)`; all lists have the length of `rows`. -/
def dirint (rows : List (DRow α)) (useDelta : Bool) (tempDew : Option (List α))
    (minSin minAlt : α) : Except Err (List α) := do
  let step1 ← rows.mapM (dirintStep1 minSin minAlt)
  (List.range rows.length).mapM (dirintStep2 rows step1 useDelta tempDew)

/-! ### clear-sky models -/

/-- Body of the `if alt > 0` branch of `ashrae_clear_sky` for given table entries `a`, `b`.
    (`OverflowError` branch: for altitudes so small that `exp` overflows the code appends 0; the
    float instance reaches the same 0 through `a / inf`, the real instance has no overflow.) -/
def clearSkyAt (a b alt clearness : α) : α × α :=
  if alt > 0.0 then
    let dirNorm : α := a / exp (b / sin (radians alt))
    let diffHoriz : α := 0.17 * dirNorm * sin (radians alt)
    (dirNorm * clearness, diffHoriz * clearness)
  else (0.0, 0.0)

/-- One altitude of `ashrae_clear_sky(altitudes, month, sky_clearness)` -> (dni, dhi).
    `MONTHLY_A[month - 1]` is only evaluated for `alt > 0` (IndexError for month > 12; month 0
    and negative months wrap, Python indexing). -/
def clearSky1 (alt : α) (month : Int) (clearness : α) : Except Err (α × α) :=
  if alt > 0.0 then
    match Py.getIdx? (Gen.Sky.monthlyA (α := α)) (month - 1),
          Py.getIdx? (Gen.Sky.monthlyB (α := α)) (month - 1) with
    | some a, some b => .ok (clearSkyAt a b alt clearness)
    | _, _ => .error .index
  else .ok (0.0, 0.0)

def revisedAb (tb td : α) (use2017 : Bool) : α :=
  if use2017 then 1.454 - (0.406 * tb) - (0.268 * td) - (0.021 * tb * td)
  else 1.219 - (0.043 * tb) - (0.151 * td) - (0.204 * tb * td)

def revisedAd (tb td : α) (use2017 : Bool) : α :=
  if use2017 then 0.507 + (0.205 * tb) - (0.080 * td) - (0.190 * tb * td)
  else 0.202 + (0.852 * tb) - (0.007 * td) - (0.357 * tb * td)

/-- One altitude of `ashrae_revised_clear_sky(altitudes, tb, td, use_2017_model)`. -/
def revisedClearSky1 (alt tb td : α) (use2017 : Bool) : Except Err (α × α) :=
  if alt > 0.0 then
    match relativeAirmass alt .kastenyoung1989 with
    | .ok (some am) =>
      .ok (1415.0 * exp ((-tb) * pow am (revisedAb tb td use2017)),
           1415.0 * exp ((-td) * pow am (revisedAd tb td use2017)))
    | .ok none => .error .type
    | .error e => .error e
  else .ok (0.0, 0.0)

/-! ### Zhang-Huang -/

/-- `zhang_huang_solar(alt, cloud_cover, relative_humidity, dry_bulb_present, dry_bulb_t3_hrs,
    wind_speed, irr_0)`. -/
def zhangHuangSolar (alt cloudCover rh t t3 ws irr0 : α) : α :=
  if alt > 0.0 then
    let sinAlt : α := sin (radians alt)
    let cc : α := cloudCover / 10.0
    let g : α := ((irr0 * sinAlt *
      (Gen.Sky.zhC0 + (Gen.Sky.zhC1 * cc) + (Gen.Sky.zhC2 * pow cc 2.0) +
       (Gen.Sky.zhC3 * (t - t3)) + (Gen.Sky.zhC4 * rh) + (Gen.Sky.zhC5 * ws))) + Gen.Sky.zhD)
      / Gen.Sky.zhK
    if g < 0.0 then 0.0 else g
  else 0.0

/-- One row of `zhang_huang_solar_split`: altitude, doy, cloud cover, rh, T, T(-3h), wind, pressure. -/
structure ZRow (α : Type) where
  alt : α
  doy : α
  cc : α
  rh : α
  t : α
  t3 : α
  ws : α
  p : α

/-- Global horizontal irradiance of one row (`zhang_huang_solar` with the default `irr_0`). -/
def zhGlob (r : ZRow α) : α := zhangHuangSolar r.alt r.cc r.rh r.t r.t3 r.ws Gen.Sky.zhIrr0

/-- One row of the `use_disc=True` branch: `disc`, then `dhi = ghi - dni * sin(alt)`. -/
def zhDiscStep (r : ZRow α) : Except Err (α × α) :=
  match disc (zhGlob r) r.alt r.doy (some r.p) 0.065 3.0 12.0 with
  | .error e => .error e
  | .ok d => .ok (d.1, zhGlob r - (d.1 * sin (radians r.alt)))

/-- `zhang_huang_solar_split(...)` -> list of (dni, dhi).  The dew points the code obtains from
    `psychrometrics.dew_point_from_db_rh` (property C09) are an input of the model. -/
def zhSplit (rows : List (ZRow α)) (tempDew : List α) (useDisc : Bool) :
    Except Err (List (α × α)) := do
  if useDisc then
    rows.mapM zhDiscStep
  else
    let dni ← dirint (rows.map fun r => (zhGlob r, r.alt, r.doy, r.p)) true (some tempDew) 0.065 3.0
    pure ((rows.zip dni).map fun (x : ZRow α × α) =>
      (x.2, zhGlob x.1 - (x.2 * sin (radians x.1.alt))))

/-! ### luminous efficacy (Perez 1990) -/

def epsCategory (eps : α) : Option Nat :=
  if eps ≥ 1.0 ∧ eps < 1.065 then some 0
  else if eps ≥ 1.065 ∧ eps < 1.23 then some 1
  else if eps ≥ 1.23 ∧ eps < 1.5 then some 2
  else if eps ≥ 1.5 ∧ eps < 1.95 then some 3
  else if eps ≥ 1.95 ∧ eps < 2.8 then some 4
  else if eps ≥ 2.8 ∧ eps < 4.5 then some 5
  else if eps ≥ 4.5 ∧ eps < 6.2 then some 6
  else if eps ≥ 6.2 then some 7
  else none

def row4 (t : List (List α)) (i : Nat) : Except Err (α × α × α × α) :=
  match t[i]? with
  | some [a, b, c, d] => .ok (a, b, c, d)
  | _ => .error .index

/-- `estimate_illuminance_from_irradiance(altitude, ghi, dni, dhi, dew_point, rel_airmass)`
    -> (gh_ill, dn_ill, dh_ill, z_lum).  ValueError: no sky-clearness category (eps < 1) or
    `math.log` of a non-positive `delta`. -/
def illuminance (altitude ghi dni dhi dew : α) (relAm : Option α) :
    Except Err (α × α × α × α) := do
  if altitude ≤ 0.0 then return (0.0, 0.0, 0.0, 0.0)
  let am : α ← match relAm with
    | some a => pure a
    | none =>
      match relativeAirmass altitude .kastenyoung1989 with
      | .ok (some a) => pure a
      | .ok none => throw Err.type
      | .error e => throw e
  let zenith : α := radians (90.0 - altitude)
  let dhi : α := if IsZero dhi then 0.1 else dhi
  let z3 : α := pow zenith 3.0
  let eps : α := ((dhi + dni) / dhi + Gen.Sky.perezKai * z3) / (1.0 + Gen.Sky.perezKai * z3)
  let delta : α := dhi * am / 1360.0
  let w : α := exp (0.08 * dew - 0.075)
  match epsCategory eps with
  | none => throw Err.value
  | some cat =>
    if delta ≤ 0.0 then throw Err.value
    let g ← row4 (Gen.Sky.lumGlob (α := α)) cat
    let ghIll : α := ghi * (g.1 + g.2.1 * w + g.2.2.1 * cos zenith + g.2.2.2 * log delta)
    let d ← row4 (Gen.Sky.lumDir (α := α)) cat
    let dnIll : α := pmax 0.0
      (dni * (d.1 + d.2.1 * w + d.2.2.1 * exp (5.73 * zenith - 5.0) + d.2.2.2 * delta))
    let f ← row4 (Gen.Sky.lumDiff (α := α)) cat
    let dhIll : α := dhi * (f.1 + f.2.1 * w + f.2.2.1 * cos zenith + f.2.2.2 * log delta)
    let z ← row4 (Gen.Sky.lumZen (α := α)) cat
    let zLum : α := dhi * (z.1 + z.2.1 * cos zenith + z.2.2.1 * exp ((-3.0) * zenith)
      + z.2.2.2 * delta)
    return (ghIll, dnIll, dhIll, zLum)

/-! ### horizontal infrared and sky temperature -/

/-- Clark & Allen sky emissivity as computed inside `calc_horizontal_infrared`
    (argument `r = dp_k / 273.15`). -/
def skyEmissivity (skyCover dewPoint : α) : α :=
  (0.787 + (0.764 * log ((dewPoint + 273.15) / 273.15))) *
    (1.0 + (0.022 * skyCover) - (0.0035 * pow skyCover 2.0) + (0.00028 * pow skyCover 3.0))

/-- `calc_horizontal_infrared(sky_cover, dry_bulb, dew_point)`; `math.log` of a non-positive
    number is a ValueError. -/
def horizontalInfrared (skyCover dryBulb dewPoint : α) : Except Err α :=
  if (dewPoint + 273.15) / 273.15 ≤ 0.0 then .error .value
  else .ok (skyEmissivity skyCover dewPoint * 5.6697e-8 * pow (dryBulb + 273.15) 4.0)

/-- `calc_sky_temperature(horiz_ir, source_emissivity)`. -/
def skyTemperature (horizIr emiss : α) : Except Err α :=
  if IsZero (emiss * 5.6697e-8) then .error .zero
  else .ok (pow (horizIr / (emiss * 5.6697e-8)) 0.25 - 273.15)

/-! ### Wea / design day: per-timestep formulas -/

/-- `Wea.global_horizontal_irradiance`, one timestep (sun altitude in degrees). -/
def globalHorizontal (sunAlt dnr dhr : α) : α := dhr + dnr * sin (radians sunAlt)

/-- `Wea.direct_horizontal_irradiance`, one timestep. -/
def directHorizontal (sunAlt dnr : α) : α := dnr * sin (radians sunAlt)

/-- `pol2cart(phi, theta)` of `directional_irradiance`. -/
def pol2cart (phi theta : α) : α × α × α :=
  let mult : α := cos theta
  (sin phi * mult, cos phi * mult, sin theta)

def dot3 (a b : α × α × α) : α := a.1 * b.1 + a.2.1 * b.2.1 + a.2.2 * b.2.2

/-- `Vector3D.magnitude`. -/
def mag3 (a : α × α × α) : α := sqrt (pow a.1 2.0 + pow a.2.1 2.0 + pow a.2.2 2.0)

/-- `Vector3D.angle`: `acos(dot / (|a| |b|))`; a quotient outside [-1, 1] (round-off) makes
    `math.acos` raise ValueError and the code answers `acos(-1)` / `acos(1)` by the sign of the dot. -/
def vecAngle (a b : α × α × α) : Except Err α :=
  let mm : α := mag3 a * mag3 b
  if IsZero mm then .error .zero
  else
    let q : α := dot3 a b / mm
    if q > 1.0 ∨ q < (-1.0) then
      .ok (if dot3 a b < 0.0 then acos (-1.0) else acos 1.0)
    else .ok (acos q)

/-- One timestep of `Wea.directional_irradiance(altitude, azimuth, ground_reflectance, isotropic)`
    for sun position (`sunAlt`, `sunAz`, degrees) -> (total, direct, diffuse, reflected). -/
def directional (sunAlt sunAz dnr dhr altitude azimuth refl : α) (isotropic : Bool) :
    Except Err (α × α × α × α) := do
  let normal := pol2cart (radians azimuth) (radians altitude)
  let sunVec := pol2cart (radians sunAz) (radians sunAlt)
  let ang ← vecAngle sunVec normal
  let srfDir : α := if sunAlt > 0.0 ∧ ang < Transc.pi / 2.0 then dnr * cos ang else 0.0
  let srfDif : α :=
    if isotropic then dhr * ((sin (radians altitude) / 2.0) + 0.5)
    else
      let y : α := pmax 0.45 (0.55 + (0.437 * cos ang) + 0.313 * cos ang * 0.313 * cos ang)
      dhr * (y * (sin (radians (pabs (90.0 - altitude)))) + cos (radians (pabs (90.0 - altitude))))
  let eGlob : α := dhr + dnr * cos (radians (90.0 - sunAlt))
  let srfRef : α := eGlob * refl * (0.5 - (sin (radians altitude) / 2.0))
  return (srfDir + srfDif + srfRef, srfDir, srfDif, srfRef)

/-- One timestep of `ASHRAEClearSky.radiation_values` -> (dni, dhi, ghi). -/
def designDayClearSky1 (alt : α) (month : Int) (clearness : α) : Except Err (α × α × α) :=
  match clearSky1 alt month clearness with
  | .ok r => .ok (r.1, r.2, r.2 + r.1 * sin (radians alt))
  | .error e => .error e

/-- One timestep of `ASHRAETau.radiation_values` -> (dni, dhi, ghi). -/
def designDayTau1 (alt tb td : α) (use2017 : Bool) : Except Err (α × α × α) :=
  match revisedClearSky1 alt tb td use2017 with
  | .ok r => .ok (r.1, r.2, r.2 + r.1 * sin (radians alt))
  | .error e => .error e

end Generic

/-! ### unit checks of the Float instance (robust against a change of the regenerated tables) -/

#guard (match clearSky1 (30.0 : Float) 6 1.0,
      (Gen.Sky.monthlyA (α := Float))[5]?, (Gen.Sky.monthlyB (α := Float))[5]? with
  | .ok r, some a, some b =>
    (r.1 - a / Float.exp (b / Float.sin (30.0 * (3.141592653589793 / 180.0)))).abs < 1e-9 && r.1 > 0.0
  | _, _, _ => false)
#guard (match clearSky1 (-1.0 : Float) 6 1.0 with | .ok r => r.1 == 0.0 && r.2 == 0.0 | _ => false)
#guard (match clearSky1 (10.0 : Float) 13 1.0 with | .error .index => true | _ => false)
#guard (match clearSky1 (10.0 : Float) 0 1.0, clearSky1 (10.0 : Float) 12 1.0 with
  | .ok r, .ok q => r.1 == q.1     -- month 0 wraps to December (Python negative index)
  | _, _ => false)
#guard (match relativeAirmass (90.0 : Float) .simple with
  | .ok (some a) => (a - 1.0).abs < 1e-12 | _ => false)
#guard (match relativeAirmass (-1.0 : Float) .simple with | .ok none => true | _ => false)
#guard (match relativeAirmass (0.0 : Float) .youngirvine1967 with | .error .zero => true | _ => false)

end Sky
