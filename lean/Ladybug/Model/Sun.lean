/-
  Model of ladybug/sunpath.py: solar position (NOAA series), solar time, hour angle, refraction,
  azimuth quadrant, the `Sun` object's vector.  Hand-written from the code as it exists, in the
  evaluation order of the Python expressions.  No Mathlib.

  One polymorphic definition per function over the unbundled arithmetic classes + `Transc α`
  (DESIGN.md section 4; class in Ladybug/Transc.lean): the `Float` instance is executed by Drv/C05.lean and
  compared with the real functions; the `ℝ` instance (Ladybug/RealInst.lean) is what the theorems of
  Props/C05.lean are about.

  REUSABLE DEFINITIONS (imported by the C11 model).  All generic in `α`; angles in degrees unless
  the name says `Rad`; `T` is the Julian century, `jd` the Julian day.

    integer part (Nat, no floats)
      `isLeapYear y`, `daysFrom010119 year month day` (as coded, with the 2016/2017 fast path),
      `daysFrom010119General` (the loop only), `dayFracHundredths m` (= 100·round(m/1440.0, 2))
      `hmOfFloatHour h p` (`Sunpath._calculate_hour_and_minute`; `p` = the product (fh − int fh)·60)
    constants / helpers
      `pi`, `rad x`, `deg x` (math.radians / math.degrees), `pyMod x y` (Python float `%`, y > 0)
    NOAA series (`_calculate_solar_geometry`)
      `julianDay days frac tz`, `julianCentury jd`, `geomMeanLongSun T`, `geomMeanAnomSun T`,
      `eccentOrbit T`, `sunEqOfCtr T`, `sunTrueLong T`, `sunAppLong T`, `meanObliqEcliptic T`,
      `obliqueCorr T`, `solDec T` (declination, RADIANS), `varY T`, `eqOfTime T` (minutes),
      `solarGeometry jd = (solDec, eqOfTime)`
    solar time and position (`_calculate_solar_time`, `calculate_sun_from_date_time`)
      `solarTime hour eot lonRad tz isSolar` (hours), `hourAngle solTimeMinutes` (degrees),
      `cosZenith latRad dec haDeg`, `refraction alt` (arc seconds), `azInit latRad dec zenith`,
      `azimuthOf ha azInit` (= guard around `azimuthTry`), `clampUnit`, `azimuthAt latRad dec zenith ha`,
      `sunriseHourAngleRaw latRad dec depRad` (expression of `_calculate_sunrise_hour_angle`),
      `position latRad lonRad tz hour jd isSolar` = (altitude, azimuth)
    Sunpath setters
      `latitudeRad latDeg` (pole nudge 1e-9), `timeZoneOf lonRad tz?`
    Sun object
      `rotate3`, `rotateXY`, `sunVectorReversed alt az north`, `sunVector`, `isDuringDay`,
      `azimuthFromYAxis`
    entry points
      `sunOfDT`, `calcSun` (month/day/hour), `calcSunFromHoy`, `calcSunFromMoy`
-/
import Ladybug.Py
import Ladybug.Model.Cal
import Ladybug.Transc

namespace Sun


/-! ### Integer part -/

/-- The local `is_leap_year` of `_days_from_010119` (Gregorian rule). -/
def isLeapYear (y : Nat) : Bool := y % 4 == 0 && (y % 100 != 0 || y % 400 == 0)

/-- The loop of `_days_from_010119`: one entry 365/366 per year of `range(1900, year)`, summed. -/
def daysInPrecedingYearsGeneral (year : Nat) : Nat :=
  ((List.range' 1900 (year - 1900)).map fun y => if isLeapYear y then 366 else 365).sum

/-- `days_in_preceding_years` as coded: literal fast paths for 2017 and 2016, else the loop. -/
def daysInPrecedingYears (year : Nat) : Nat :=
  if year = 2017 then 42734 else if year = 2016 then 42368 else daysInPrecedingYearsGeneral year

/-- `days_in_preceding_months`: sum of the first `month - 1` month lengths. -/
def daysInPrecedingMonths (year month : Nat) : Nat := Cal.daysBefore (isLeapYear year) month

/-- `Sunpath._days_from_010119(year, month, day)`. -/
def daysFrom010119 (year month day : Nat) : Nat :=
  daysInPrecedingYears year + daysInPrecedingMonths year month + day + 1

/-- The same without the literal fast paths (the "general formula"). -/
def daysFrom010119General (year month day : Nat) : Nat :=
  daysInPrecedingYearsGeneral year + daysInPrecedingMonths year month + day + 1

/-- Minutes of the day `m` (a tie of `100·m/1440` at one half) for which CPython's
    `round(m / 1440.0, 2)` rounds up: the double `m / 1440.0` lies above the exact quotient.
    A fact about IEEE division + `round`, not about ladybug; compared for all 1440 minutes of the
    day on every run (op `frac`). -/
def dayFracTiesUp : List Nat := [36, 324, 396, 468, 540, 756, 972, 1116, 1260, 1332]

/-- `100 * round((minute + hour * 60) / 1440.0, 2)` as an integer number of hundredths of a day. -/
def dayFracHundredths (m : Nat) : Nat :=
  let q := 100 * m / 1440
  let r := 100 * m % 1440
  if r < 720 then q else if 720 < r then q + 1 else if dayFracTiesUp.contains m then q + 1 else q

/-- `Sunpath._calculate_hour_and_minute(float_hour)`: `hourInt = int(float_hour)`, `prod` is the
    value of `(float_hour - int(float_hour)) * 60` (the driver forms the IEEE product; theorems use
    the exact product). -/
def hmOfFloatHour (hourInt : Int) (prod : Rat) : Int × Int :=
  let minute := Py.round prod
  if 60 ≤ minute then (hourInt + 1, minute - 60) else (hourInt, minute)

/-! ### Generic numeric part -/

section Generic

variable {α : Type} [Add α] [Sub α] [Mul α] [Div α] [Neg α] [OfScientific α] [LT α] [LE α]
  [DecidableLT α] [DecidableLE α] [Transc α]

/-- `math.pi`. -/
def pi : α := Transc.pi
/-- `math.radians(x) = x * (pi / 180)`. -/
def rad (x : α) : α := x * ((pi : α) / 180.0)
/-- `math.degrees(x) = x * (180 / pi)`. -/
def deg (x : α) : α := x * (180.0 / (pi : α))

/-- Python's float `x % y` for `y > 0`: `fmod` moved into `[0, y)`.  Written as
    `x - floor(x / y) * y` with one correction step for a quotient that rounded up to the next
    integer; for the integer moduli 360 and 1440 used here this is the same single rounding as
    CPython's `fmod(x, y) (+ y)`.  Over the reals the correction never fires. -/
def pyMod (x y : α) : α :=
  let r := x - Transc.floor (x / y) * y
  if r < 0.0 then r + y else r

/-- `julian_day`: `days + 2415018.5 + round(dayfrac, 2) - tz / 24`. -/
def julianDay (days frac tz : α) : α := days + 2415018.5 + frac - tz / 24.0

def julianCentury (jd : α) : α := (jd - 2451545.0) / 36525.0

/-- Geometric mean longitude of the sun, degrees in [0, 360). -/
def geomMeanLongSun (T : α) : α :=
  pyMod (280.46646 + T * (36000.76983 + T * 0.0003032)) 360.0

/-- Geometric mean anomaly of the sun, degrees. -/
def geomMeanAnomSun (T : α) : α := 357.52911 + T * (35999.05029 - 0.0001537 * T)

def eccentOrbit (T : α) : α := 0.016708634 - T * (0.000042037 + 0.0000001267 * T)

/-- Equation of centre, degrees. -/
def sunEqOfCtr (T : α) : α :=
  let m := geomMeanAnomSun T
  Transc.sin (rad m) * (1.914602 - T * (0.004817 + 0.000014 * T)) +
    Transc.sin (rad (2.0 * m)) * (0.019993 - 0.000101 * T) +
    Transc.sin (rad (3.0 * m)) * 0.000289

def sunTrueLong (T : α) : α := geomMeanLongSun T + sunEqOfCtr T

def sunAppLong (T : α) : α :=
  sunTrueLong T - 0.00569 - 0.00478 * Transc.sin (rad (125.04 - 1934.136 * T))

def meanObliqEcliptic (T : α) : α :=
  23.0 + (26.0 + (21.448 - T * (46.815 + T * (0.00059 - T * 0.001813))) / 60.0) / 60.0

def obliqueCorr (T : α) : α :=
  meanObliqEcliptic T + 0.00256 * Transc.cos (rad (125.04 - 1934.136 * T))

/-- Solar declination in RADIANS. -/
def solDec (T : α) : α :=
  Transc.asin (Transc.sin (rad (obliqueCorr T)) * Transc.sin (rad (sunAppLong T)))

def varY (T : α) : α :=
  Transc.tan (rad (obliqueCorr T / 2.0)) * Transc.tan (rad (obliqueCorr T / 2.0))

/-- Equation of time in minutes. -/
def eqOfTime (T : α) : α :=
  let l := geomMeanLongSun T
  let m := geomMeanAnomSun T
  let e := eccentOrbit T
  let y := varY T
  4.0 * deg (
    y * Transc.sin (2.0 * rad l) -
    2.0 * e * Transc.sin (rad m) +
    4.0 * e * y * Transc.sin (rad m) * Transc.cos (2.0 * rad l) -
    0.5 * Transc.pow y 2.0 * Transc.sin (4.0 * rad l) -
    1.25 * Transc.pow e 2.0 * Transc.sin (2.0 * rad m))

/-- `_calculate_solar_geometry` from the Julian day: (declination in radians, equation of time). -/
def solarGeometry (jd : α) : α × α :=
  let T := julianCentury jd
  (solDec T, eqOfTime T)

/-- `_calculate_solar_time(hour, eq_of_time, is_solar_time)` (hours). -/
def solarTime (hour eot lonRad tz : α) (isSolar : Bool) : α :=
  if isSolar then hour
  else pyMod (hour * 60.0 + eot + 4.0 * deg lonRad - 60.0 * tz) 1440.0 / 60.0

/-- Hour angle in degrees from the solar time in minutes. -/
def hourAngle (solTime : α) : α :=
  if solTime < 0.0 then solTime / 4.0 + 180.0 else solTime / 4.0 - 180.0

/-- Argument of the `acos` giving the zenith angle. -/
def cosZenith (latRad dec ha : α) : α :=
  Transc.sin latRad * Transc.sin dec + Transc.cos latRad * Transc.cos dec * Transc.cos (rad ha)

/-- Atmospheric refraction in arc seconds for the geometric altitude (degrees); four branches. -/
def refraction (alt : α) : α :=
  if 85.0 < alt then 0.0
  else if 5.0 < alt then
    58.1 / Transc.tan (rad alt) - 0.07 / Transc.pow (Transc.tan (rad alt)) 3.0 +
      0.000086 / Transc.pow (Transc.tan (rad alt)) 5.0
  else if -0.575 < alt then
    1735.0 + alt * (-518.2 + alt * (103.4 + alt * (-12.79 + alt * 0.711)))
  else -20.772 / Transc.tan (rad alt)

/-- Altitude reported by the code: geometric altitude plus refraction. -/
def apparentAltitude (alt : α) : α := alt + refraction alt / 3600.0

def azInit (latRad dec zenith : α) : α :=
  (Transc.sin latRad * Transc.cos zenith - Transc.sin dec) / (Transc.cos latRad * Transc.sin zenith)

/-- The azimuth branch: afternoon (`hour_angle > 0`) / morning, and the `ValueError` branch
    (`math.acos` of a value outside [-1, 1] by round-off at perfect solar noon): due south (180)
    when `az_init > 0`, due north (0) otherwise.  This is the behaviour REPAIRED by
    fixes/C05_noon_azimuth_north.patch (the pinned code answered 180 in both cases, which put the
    solar-noon sun of the southern hemisphere due south). -/
def azimuthOf (ha a : α) : α :=
  if a < -1.0 ∨ 1.0 < a then (if 0.0 < a then 180.0 else 0.0)
  else if 0.0 < ha then pyMod (deg (Transc.acos a) + 180.0) 360.0
  else pyMod (540.0 - deg (Transc.acos a)) 360.0

/-- The `if hour_angle > 0 … else …` inside the `try` of the azimuth computation (the part of
    `azimuthOf` that runs when `math.acos` does not raise): see `azimuthOf_eq_try`. -/
def azimuthTry (ha a : α) : α :=
  if 0.0 < ha then pyMod (deg (Transc.acos a) + 180.0) 360.0
  else pyMod (540.0 - deg (Transc.acos a)) 360.0

omit [LE α] [DecidableLE α] in
/-- `azimuthOf` is the `ValueError` guard around `azimuthTry`. -/
theorem azimuthOf_eq_try (ha a : α) :
    azimuthOf ha a =
      if a < -1.0 ∨ 1.0 < a then (if 0.0 < a then 180.0 else 0.0) else azimuthTry ha a := rfl

/-- The expression of `_calculate_sunrise_hour_angle` (degrees), without the `ValueError` of
    `math.acos` (which the C11 model `SunTimes.sunriseHourAngle` adds as `none`). -/
def sunriseHourAngleRaw (latRad dec depRad : α) : α :=
  deg (Transc.acos (Transc.cos ((pi : α) / 2.0 + depRad) / (Transc.cos latRad * Transc.cos dec) -
    Transc.tan latRad * Transc.tan dec))

/-- `max(-1.0, min(1.0, x))`: the clamp applied to the cosine of the zenith angle (REPAIRED by
    fixes/C05_zenith_sun.patch; the pinned code passed `x` to `acos` unclamped and raised
    `ValueError` when round-off pushed it past 1 for a sun at the zenith). -/
def clampUnit (x : α) : α :=
  let m := if x < 1.0 then x else 1.0
  if -1.0 < m then m else -1.0

/-- The azimuth computation inside the `try`: `ZeroDivisionError` (`cos(lat) * sin(zenith) == 0`,
    sun exactly at the zenith) gives 180 (REPAIRED by fixes/C05_zenith_sun.patch; the pinned code
    raised), otherwise `azimuthOf`. -/
def azimuthAt (latRad dec zenith ha : α) : α :=
  let den := Transc.cos latRad * Transc.sin zenith
  if den ≤ 0.0 ∧ 0.0 ≤ den then 180.0
  else azimuthOf ha (azInit latRad dec zenith)

/-- The numeric body of `calculate_sun_from_date_time` after the Julian day and the float hour are
    known: (altitude, azimuth) in degrees. -/
def position (latRad lonRad tz hour jd : α) (isSolar : Bool) : α × α :=
  let g := solarGeometry jd
  let solTime := solarTime hour g.2 lonRad tz isSolar * 60.0
  let ha := hourAngle solTime
  let zenith := Transc.acos (clampUnit (cosZenith latRad g.1 ha))
  let alt := 90.0 - deg zenith
  (apparentAltitude alt, azimuthAt latRad g.1 zenith ha)

/-! ### Sunpath setters -/

/-- `Sunpath.latitude` setter: radians, nudged by 1e-9 off the poles. -/
def latitudeRad (latDeg : α) : α :=
  let r := rad latDeg
  let h : α := (pi : α) / 2.0
  if r ≤ h ∧ h ≤ r then r - 0.000000001
  else if r ≤ -h ∧ -h ≤ r then r + 0.000000001
  else r

/-- `Sunpath.time_zone` setter: `longitude / 15` when `None`. -/
def timeZoneOf (lonRad : α) (tz : Option α) : α :=
  match tz with
  | none => deg lonRad / 15.0
  | some t => t

/-! ### The Sun object -/

/-- `Vector3D._rotate(vec, axis, angle)` of ladybug_geometry. -/
def rotate3 (x y z u v w angle : α) : α × α × α :=
  let r2 := Transc.pow u 2.0 + Transc.pow v 2.0 + Transc.pow w 2.0
  let r := Transc.sqrt r2
  let ct := Transc.cos angle
  let st := Transc.sin angle / r
  let dt := (u * x + v * y + w * z) * (1.0 - ct) / r2
  (u * dt + x * ct + (-w * y + v * z) * st,
   v * dt + y * ct + (w * x - u * z) * st,
   w * dt + z * ct + (-v * x + u * y) * st)

/-- `Vector2D._rotate(vec, angle)`. -/
def rotateXY (x y angle : α) : α × α :=
  let c := Transc.cos angle
  let s := Transc.sin angle
  (c * x - s * y, s * x + c * y)

/-- `Sun._calculate_sun_vector`: the reversed vector (pointing to the sun).  `north` is the value
    the Sun object holds (degrees). -/
def sunVectorReversed (alt az north : α) : α × α × α :=
  let v := rotate3 0.0 1.0 0.0 1.0 0.0 0.0 (rad alt)
  let p := rotateXY v.1 v.2.1 (-(rad az))
  if north < 0.0 ∨ 0.0 < north then
    let q := rotateXY p.1 p.2 (rad north)
    (q.1, q.2, v.2.2)
  else (p.1, p.2, v.2.2)

/-- `sun_vector` = the reversed vector negated (points from the sun to the scene). -/
def sunVector (alt az north : α) : α × α × α :=
  let r := sunVectorReversed alt az north
  (-r.1, -r.2.1, -r.2.2)

/-- `Sun.is_during_day`: `sun_vector.z <= 0`. -/
def isDuringDay (alt az north : α) : Bool := decide ((sunVector alt az north).2.2 ≤ 0.0)

/-- `Sun.azimuth_from_y_axis`. -/
def azimuthFromYAxis (az north : α) : α :=
  let a := az - north
  if 360.0 < a then a - 360.0 else if a < 0.0 then a + 360.0 else a

inductive SErr where
  | assert  -- AssertionError (Sun.__init__)
deriving DecidableEq, Repr

/-- What the harness observes of one Sun. -/
structure SunOut (α : Type) where
  dt : Cal.DT
  altitude : α
  azimuth : α
  vec : α × α × α
  rev : α × α × α
  duringDay : Bool
  azFromY : α

/-- `Sun.__init__` assertions and derived attributes. -/
def mkSun (d : Cal.DT) (alt az north : α) : Except SErr (SunOut α) :=
  if ¬ (-90.0 ≤ alt ∧ alt ≤ 90.0) then .error .assert
  else if ¬ (-360.0 ≤ az ∧ az ≤ 360.0) then .error .assert
  else .ok ⟨d, alt, az, sunVector alt az north, sunVectorReversed alt az north,
            isDuringDay alt az north, azimuthFromYAxis az north⟩

/-- A Sunpath as the harness configures it: degrees as given by the user; `tz = none` is solar
    time zone; `leap` the `is_leap_year` switch.  No daylight-saving period (C11). -/
structure Cfg (α : Type) where
  lat : α
  lon : α
  tz : Option α
  north : α
  leap : Bool

/-- `calculate_sun_from_date_time(datetime, is_solar_time)` without daylight saving.
    `ofN` casts the integer day count / minute counts into `α`. -/
def sunOfDT (ofN : Nat → α) (c : Cfg α) (d : Cal.DT) (isSolar : Bool) : Except SErr (SunOut α) :=
  let leap := d.leap || c.leap
  let d' : Cal.DT := { d with leap := leap }
  let year := if leap then 2016 else 2017
  let latRad := latitudeRad c.lat
  let lonRad := rad c.lon
  let tz := timeZoneOf lonRad c.tz
  let days := ofN (daysFrom010119 year d.month d.day)
  let frac := ofN (dayFracHundredths (d.minute + d.hour * 60)) / 100.0
  let jd := julianDay days frac tz
  let hour := ofN d.hour + ofN d.minute / 60.0
  let p := position latRad lonRad tz hour jd isSolar
  mkSun d' p.1 p.2 (deg (rad c.north))

end Generic

/-! ### Entry points (date-time construction is integer logic on `Cal`) -/

inductive EErr where
  | dt (e : Cal.Err)      -- the DateTime could not be built
  | sun (e : SErr)
deriving DecidableEq, Repr

section Entry

variable {α : Type} [Add α] [Sub α] [Mul α] [Div α] [Neg α] [OfScientific α] [LT α] [LE α]
  [DecidableLT α] [DecidableLE α] [Transc α]

def liftSun (r : Except SErr (SunOut α)) : Except EErr (SunOut α) :=
  match r with
  | .ok s => .ok s
  | .error e => .error (.sun e)

def withDT (ofN : Nat → α) (c : Cfg α) (r : Except Cal.Err Cal.DT) (isSolar : Bool) :
    Except EErr (SunOut α) :=
  match r with
  | .error e => .error (.dt e)
  | .ok d => liftSun (sunOfDT ofN c d isSolar)

/-- The DateTime of `calculate_sun(month, day, hour)`:
    `DateTime(month, day, *_calculate_hour_and_minute(hour), leap_year)`. -/
def dtOfMDH (leap : Bool) (month day : Nat) (hourInt : Int) (prod : Rat) : Except Cal.Err Cal.DT :=
  let hm := hmOfFloatHour hourInt prod
  if hm.1 < 0 ∨ hm.2 < 0 then .error .value
  else Cal.DT.make month day hm.1.toNat hm.2.toNat leap

/-- `calculate_sun(month, day, hour, is_solar_time)`. -/
def calcSun (ofN : Nat → α) (c : Cfg α) (month day : Nat) (hourInt : Int) (prod : Rat)
    (isSolar : Bool) : Except EErr (SunOut α) :=
  withDT ofN c (dtOfMDH c.leap month day hourInt prod) isSolar

/-- `calculate_sun_from_hoy(hoy)`; the argument is the product `hoy * 60`. -/
def calcSunFromHoy (ofN : Nat → α) (c : Cfg α) (hoyTimes60 : Rat) (isSolar : Bool) :
    Except EErr (SunOut α) :=
  withDT ofN c (Cal.fromHoyTimes60 c.leap hoyTimes60) isSolar

/-- `calculate_sun_from_moy(moy)`. -/
def calcSunFromMoy (ofN : Nat → α) (c : Cfg α) (moy : Int) (isSolar : Bool) :
    Except EErr (SunOut α) :=
  withDT ofN c (Cal.fromMoy c.leap moy) isSolar

end Entry

/-! ### Unit tests of the integer part -/

#guard daysFrom010119 2017 1 1 = 42736
#guard daysFrom010119 2016 1 1 = 42370
#guard daysFrom010119 2016 3 1 = 42430
#guard daysFrom010119General 2017 1 1 = 42736
#guard daysFrom010119General 2016 12 31 = 42735
#guard daysFrom010119General 1900 1 1 = 2
#guard dayFracHundredths 0 = 0
#guard dayFracHundredths 36 = 3
#guard dayFracHundredths 108 = 7
#guard dayFracHundredths 720 = 50
#guard dayFracHundredths 1439 = 100
#guard hmOfFloatHour 12 (61/2) = (12, 30)
#guard hmOfFloatHour 12 (119/2) = (13, 0)

end Sun
