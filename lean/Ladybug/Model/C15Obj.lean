/-
  Object state machines for C15 (round 3): histories of operations on ONE `ColorRange`, ONE
  `LegendParameters` / `LegendParametersCategorized` object and the `Legend` built from it.
  No Mathlib.  Built on the pure functions of Model/Color.lean and Model/Legend.lean.

  The model has no hidden slots: the state of an object is exactly what its public getters show,
  every read is a function of that state, a refused operation returns the state unchanged together
  with an error output.  As the code is (after fixes C15_colors_setter_domain_check and
  C15_rejected_setters_keep_state):

    * `ColorRange.colors = cols`     : empty -> the default colour set; the domain is re-checked
      against the NEW colours through the domain setter (a stored 2-stop continuous domain is
      re-mapped to one stop per new colour; too few colours are refused and the old colours stay);
    * `ColorRange.domain = dom`      : `mkDomain` with the current colours, refused = unchanged;
    * `ColorRange.duplicate()`       : `ColorRange(colors, domain, continuous_colors)`;
    * parameter setters (`Par.set`)  : `min`/`max` asserted against the other bound when both are
      numbers (`None` always accepted); `segment_count` >= 1, `None` -> 11 + default flag;
      `colors` at least two (`None` -> default set), categorised: exactly `len(domain) + 1`
      (`None` refused); flags `None` -> their defaults; segment dimensions positive;
      categorised `domain` sorted, length `len(colors) - 1`, updates min / max / segment_count;
      `category_names` length `len(domain) + 1`; `min`, `max`, `segment_count`,
      `ordinal_dictionary` of categorised parameters have no setter (AttributeError), the
      categorised attributes do not exist on plain parameters (`__slots__`: AttributeError);
    * `Legend(values, par)`          : works on a duplicate of the parameters with the resolved
      minimum / maximum / segment count stored in them (`Live`); later assignments to
      `legend.legend_parameters` go through the same setters;
    * `Legend.duplicate()` / dict round trip: a new `Legend` from the live parameters (a default
      segment count is resolved again), default flags copied;
    * dict round trip of categorised parameters writes the generated names out (they become
      explicit names).
-/
import Ladybug.Model.Legend

namespace Obj15

open Col Leg

/-- Why an operation was refused (the exception class of the code). -/
inductive Rej where
  | assert | attr | zero | index | value | type
  deriving DecidableEq, Repr

def Rej.ofErr : Err → Rej
  | .assert => .assert
  | .index => .index
  | .zero => .zero
  | .value => .value

/-! ## One `ColorRange` object -/

inductive CROp where
  | setColors (cols : List RGB)
  | setDomain (dom : List Rat)
  | readColor (v : Rat)
  | readState
  | duplicate
  deriving Repr

inductive CROut where
  | done
  | refused (e : Rej)
  | color (c : Except Err RGB)
  | state (colors : List RGB) (domain : List Rat) (continuous : Bool)
  deriving Repr

/-- `cr.colors = cols` (fixed code: the domain is re-checked against the new colours). -/
def crSetColors (cr : ColorRange) (cols : List RGB) : Except Err ColorRange :=
  let cols := if cols.isEmpty then defaultColors else cols
  match mkDomain cols.length cr.domain cr.continuous with
  | .ok d => .ok ⟨cols, d, cr.continuous⟩
  | .error e => .error e

/-- `cr.domain = dom`. -/
def crSetDomain (cr : ColorRange) (dom : List Rat) : Except Err ColorRange :=
  match mkDomain cr.colors.length dom cr.continuous with
  | .ok d => .ok ⟨cr.colors, d, cr.continuous⟩
  | .error e => .error e

/-- One operation on a colour range: the new state and what the caller sees. -/
def crStep (cr : ColorRange) : CROp → ColorRange × CROut
  | .setColors cols =>
    match crSetColors cr cols with
    | .ok cr' => (cr', .done)
    | .error e => (cr, .refused (Rej.ofErr e))
  | .setDomain dom =>
    match crSetDomain cr dom with
    | .ok cr' => (cr', .done)
    | .error e => (cr, .refused (Rej.ofErr e))
  | .readColor v => (cr, .color (cr.color v))
  | .readState => (cr, .state cr.colors cr.domain cr.continuous)
  | .duplicate =>
    match ColorRange.make cr.colors cr.domain cr.continuous with
    | .ok cr' => (cr', .done)
    | .error e => (cr, .refused (Rej.ofErr e))

/-- A whole history: final state and the outputs in order. -/
def crRun (cr : ColorRange) : List CROp → ColorRange × List CROut
  | [] => (cr, [])
  | op :: ops =>
    let r := crStep cr op
    let rest := crRun r.1 ops
    (rest.1, r.2 :: rest.2)

/-- Is the operation a read (no state change by definition of the interface)? -/
def CROp.isRead : CROp → Bool
  | .readColor _ => true
  | .readState => true
  | _ => false

/-! ## One parameters object -/

/-- An assignment `par.<attribute> = value` (`none` = Python `None`). -/
inductive Field where
  | min (x : Option Rat)
  | max (x : Option Rat)
  | count (n : Option Nat)
  | colors (c : Option (List RGB))
  | contLegend (b : Option Bool)
  | vertical (b : Option Bool)
  | decimals (n : Option Nat)
  | ils (b : Option Bool)
  | ordinal (d : Option (List (Int × String)))
  | segH (x : Option Rat)
  | segW (x : Option Rat)
  | textH (x : Option Rat)
  | catDomain (d : List Rat)
  | catNames (n : Option (List String))
  | catCC (b : Option Bool)
  | bad (name : String)          -- a value of the wrong type for attribute `name`
  deriving Repr

def posOpt (x : Option Rat) : Bool := ¬ x.any (fun v => decide (v ≤ 0))

/-- Setters of plain `LegendParameters`. -/
def setPlain (p : Par) : Field → Except Rej Par
  | .min x =>
    match x, p.max with
    | some a, some b => if a ≤ b then .ok { p with min := x } else .error .assert
    | _, _ => .ok { p with min := x }
  | .max x =>
    match p.min, x with
    | some a, some b => if a ≤ b then .ok { p with max := x } else .error .assert
    | _, _ => .ok { p with max := x }
  | .count none => .ok { p with segCount := 11, segCountDefault := true }
  | .count (some n) =>
    if n = 0 then .error .assert else .ok { p with segCount := n, segCountDefault := false }
  | .colors none => .ok { p with colors := defaultColors }
  | .colors (some cs) => if cs.length ≤ 1 then .error .assert else .ok { p with colors := cs }
  | .contLegend b => .ok { p with continuousLegend := b.getD false }
  | .vertical b => .ok { p with vertical := b.getD true }
  | .decimals n => .ok { p with decimalCount := n.getD 2 }
  | .ils b => .ok { p with includeLS := b.getD false }
  | .ordinal d => .ok { p with ordinal := d }
  | .segH x => if posOpt x then .ok { p with segHeight := x } else .error .assert
  | .segW x => if posOpt x then .ok { p with segWidth := x } else .error .assert
  | .textH x => if posOpt x then .ok { p with textHeight := x } else .error .assert
  | .catDomain _ => .error .attr
  | .catNames _ => .error .attr
  | .catCC _ => .error .attr
  | .bad name => if name = "dom" ∨ name = "names" ∨ name = "cc" then .error .attr else .error .assert

/-- Setters of `LegendParametersCategorized` (`c` = its categorised part). -/
def setCat (p : Par) (c : Cat) : Field → Except Rej Par
  | .min _ => .error .attr
  | .max _ => .error .attr
  | .count _ => .error .attr
  | .ordinal _ => .error .attr
  | .colors none => .error .assert
  | .colors (some cs) =>
    if cs.length = c.domain.length + 1 then .ok { p with colors := cs } else .error .assert
  | .contLegend b => .ok { p with continuousLegend := b.getD false }
  | .vertical b => .ok { p with vertical := b.getD true }
  | .decimals n => .ok { p with decimalCount := n.getD 2 }
  | .ils b => .ok { p with includeLS := b.getD true }
  | .segH x => if posOpt x then .ok { p with segHeight := x } else .error .assert
  | .segW x => if posOpt x then .ok { p with segWidth := x } else .error .assert
  | .textH x => if posOpt x then .ok { p with textHeight := x } else .error .assert
  | .catDomain d =>
    let s := sortDom d
    if s.length + 1 = p.colors.length then
      .ok { p with min := s[0]?, max := s.getLast?, segCount := s.length + 1,
                   cat := some { c with domain := s } }
    else .error .assert
  | .catNames none => .ok { p with cat := some { c with names := none } }
  | .catNames (some ns) =>
    if ns.length = c.domain.length + 1 then .ok { p with cat := some { c with names := some ns } }
    else .error .assert
  | .catCC b => .ok { p with cat := some { c with continuousColors := b.getD false } }
  | .bad name =>
    if name = "min" ∨ name = "max" ∨ name = "count" ∨ name = "ord" then .error .attr
    else .error .assert

/-- `par.<attribute> = value`. -/
def parSet (p : Par) (f : Field) : Except Rej Par :=
  match p.cat with
  | none => setPlain p f
  | some c => setCat p c f

/-- The dictionary round trip `from_dict(to_dict())` of a parameters object: a defaulted segment
    count is not written (it reads back as 11), categorised parameters write their generated names
    out. -/
def viaDict (p : Par) : Par :=
  match p.cat with
  | none => { p with segCount := if p.segCountDefault then 11 else p.segCount }
  | some c =>
    match c.names with
    | some _ => p
    | none =>
      let ns := catNames c.domain p.decimalCount p.includeLS
      { p with cat := some { c with names := some ns } }

/-! ## The legend built from the parameters -/

/-- A live `Legend` object: its values, its own parameters (minimum, maximum and segment count
    resolved and stored in them) and its two default flags. -/
structure Live where
  values : List Rat
  par : Par
  isMinDefault : Bool
  isMaxDefault : Bool
  deriving DecidableEq, Repr

/-- The parameters a `Legend` holds after its constructor ran. -/
def resolved (l : Legend) : Par :=
  { l.par with min := some l.min, max := some l.max, segCount := l.segCount }

def Live.ofLegend (l : Legend) : Live := ⟨l.values, resolved l, l.isMinDefault, l.isMaxDefault⟩

/-- The pure legend a live object stands for (`none`: a bound was assigned `None` on the live
    parameters; every read of such a legend raises). -/
def Live.legend? (o : Live) : Option Legend :=
  match o.par.min, o.par.max with
  | some a, some b => some ⟨o.values, o.par, a, b, o.par.segCount, o.isMinDefault, o.isMaxDefault⟩
  | _, _ => none

/-- `Legend(values, par)`. -/
def build (vals : List Rat) (p : Par) : Except Rej Live :=
  match Legend.make vals p with
  | .ok l => .ok (Live.ofLegend l)
  | .error e => .error (Rej.ofErr e)

/-- `GraphicContainer(values, min_point, max_point, par).legend`. -/
def buildGraphic (vals : List Rat) (p : Par) (x0 y0 x1 y1 : Rat) : Except Rej Live :=
  match Graphic.make vals p x0 y0 x1 y1 with
  | .ok g => .ok (Live.ofLegend g.legend)
  | .error e => .error (Rej.ofErr e)

/-- `legend.duplicate()` (also `Legend.from_dict(legend.to_dict())` for plain parameters):
    a new legend from the live parameters, the default flags copied. -/
def Live.duplicate (o : Live) : Except Rej Live :=
  match build o.values o.par with
  | .ok n => .ok { n with isMinDefault := o.isMinDefault, isMaxDefault := o.isMaxDefault }
  | .error e => .error e

/-- Everything the property speaks about, read from a legend. -/
structure Obs where
  min : Rat
  max : Rat
  segCount : Nat
  numbers : List Rat
  segmentColors : Except Err (List RGB)
  valueColors : Except Err (List RGB)
  text : List String
  textPositions : Nat
  cells : Nat
  mesh : Except Err (Nat × Nat × List RGB)
  colorRange : Except Err ColorRange
  deriving Repr

def observe (l : Legend) : Obs :=
  { min := l.min, max := l.max, segCount := l.segCount, numbers := l.segmentNumbers,
    segmentColors := l.segmentColors, valueColors := l.valueColors, text := l.segmentText,
    textPositions := l.textPoints.length, cells := l.segmentLength, mesh := l.mesh,
    colorRange := l.colorRange }

/-- The session state: one parameters object and the legend built last (if any). -/
structure Sess where
  par : Par
  live : Option Live
  deriving Repr

inductive LOp where
  | setP (f : Field)                 -- par.<attr> = value
  | setL (f : Field)                 -- legend.legend_parameters.<attr> = value
  | build (vals : List Rat)          -- legend = Legend(vals, par)
  | buildG (x0 y0 x1 y1 : Rat) (vals : List Rat)   -- legend = GraphicContainer(...).legend
  | obsL                             -- read every observable of the legend
  | obsP                             -- read the public attributes of the parameters
  | dupP | dupL                      -- x = x.duplicate()
  | dictP | dictL                    -- x = from_dict(x.to_dict())
  deriving Repr

inductive LOut where
  | done
  | refused (e : Rej)
  | legend (o : Option Obs)          -- none: the legend cannot be read
  | params (p : Par)
  | nolegend                         -- an operation on a legend that was never built
  deriving Repr

def LOp.isRead : LOp → Bool
  | .obsL => true
  | .obsP => true
  | _ => false

def lStep (s : Sess) : LOp → Sess × LOut
  | .setP f =>
    match parSet s.par f with
    | .ok p => ({ s with par := p }, .done)
    | .error e => (s, .refused e)
  | .setL f =>
    match s.live with
    | none => (s, .nolegend)
    | some o =>
      match parSet o.par f with
      | .ok p => ({ s with live := some { o with par := p } }, .done)
      | .error e => (s, .refused e)
  | .build vals =>
    match build vals s.par with
    | .ok o => ({ s with live := some o }, .done)
    | .error e => (s, .refused e)
  | .buildG x0 y0 x1 y1 vals =>
    match buildGraphic vals s.par x0 y0 x1 y1 with
    | .ok o => ({ s with live := some o }, .done)
    | .error e => (s, .refused e)
  | .obsL =>
    match s.live with
    | none => (s, .nolegend)
    | some o => (s, .legend (o.legend?.map observe))
  | .obsP => (s, .params s.par)
  | .dupP => (s, .done)
  | .dupL =>
    match s.live with
    | none => (s, .nolegend)
    | some o =>
      match o.duplicate with
      | .ok n => ({ s with live := some n }, .done)
      | .error e => (s, .refused e)
  | .dictP => ({ s with par := viaDict s.par }, .done)
  | .dictL =>
    match s.live with
    | none => (s, .nolegend)
    | some o =>
      match ({ o with par := viaDict o.par } : Live).duplicate with
      | .ok n => ({ s with live := some n }, .done)
      | .error e => (s, .refused e)

def lRun (s : Sess) : List LOp → Sess × List LOut
  | [] => (s, [])
  | op :: ops =>
    let r := lStep s op
    let rest := lRun r.1 ops
    (rest.1, r.2 :: rest.2)

/-! Unit tests -/

private def c3 : List RGB := [⟨0, 0, 255⟩, ⟨0, 255, 0⟩, ⟨255, 0, 0⟩]

-- the defect repaired by C15_colors_setter_domain_check: fewer colours than stops are refused
#guard (match ColorRange.make [] [100, 2000] true with
  | .ok cr => (crStep cr (.setColors c3)).1.colors.length
  | .error _ => 0) = 10
-- a stored 2-stop domain follows the new colours
#guard (match ColorRange.make [⟨0, 0, 0⟩, ⟨9, 9, 9⟩] [0, 10] true with
  | .ok cr => (crStep cr (.setColors c3)).1.domain
  | .error _ => []) = [0, 5, 10]
#guard (match Par.mkPlain (some 0) (some 10) none none false true 2 false none none none none with
  | .ok p => (parSet p (.min (some 50))).toOption.isNone ∧ (parSet p (.min (some 10))).toOption.isSome
  | .error _ => false)

end Obj15
