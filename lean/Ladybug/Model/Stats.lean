/-
  Model of the statistics of ladybug/_datacollectionbase.py over exact rationals (C03).  No Mathlib.

    * `total / average`                 `sum(vals)`, `sum(vals) / len(vals)`
    * `sorted`                          Python `sorted` (stable, ascending)
    * `percentile`                      `_percentile`: `k = (n - 1) * (p / 100)`, floor/ceil, weights
    * `median`, `minV`, `maxV`, `bounds`
    * `highestValues / lowestValues`    values and index lists (`sorted(range(n), key=…, reverse=…)[0:count]`)

  Python's float arithmetic is not modelled: the correspondence compares bit-exactly on inputs where
  the float computation is exact, and within 1e-9 elsewhere.
-/
import Ladybug.Py
import Ladybug.Model.Group

namespace Stats

open Grp (Err)

/-- `sum(vals)`. -/
def total (vals : List Rat) : Rat := vals.foldl (· + ·) 0

/-- `sum(vals) / len(vals)` (ZeroDivisionError never occurs: collections and groups are non-empty). -/
def average (vals : List Rat) : Except Err Rat :=
  if vals.isEmpty then .error .value else .ok (total vals / (vals.length : Rat))

/-- Python `sorted(vals)`. -/
def sorted (vals : List Rat) : List Rat := vals.mergeSort (fun a b => decide (a ≤ b))

/-- `_percentile(values, percent)`:
    ```
    vals = sorted(values); k = (len(vals) - 1) * (percent / 100)
    f = floor(k); c = ceil(k)
    if f == c: return vals[int(k)]
    return vals[int(f)] * (c - k) + vals[int(c)] * (k - f)
    ```
    Indexing is Python's (negative indices wrap; `none` = IndexError). -/
def percentile (vals : List Rat) (p : Rat) : Except Err Rat :=
  let s := sorted vals
  let k : Rat := ((s.length : Int) - 1 : Int) * (p / 100)
  let f := k.floor
  let c := k.ceil
  if f = c then
    match Py.getIdx? s (Py.truncRat k) with
    | some v => .ok v
    | none => .error .index
  else
    match Py.getIdx? s f, Py.getIdx? s c with
    | some a, some b => .ok (a * ((c : Rat) - k) + b * (k - (f : Rat)))
    | _, _ => .error .index

/-- `percentile(p)` of a collection: asserts `0 <= p <= 100`. -/
def percentileChecked (vals : List Rat) (p : Rat) : Except Err Rat :=
  if 0 ≤ p ∧ p ≤ 100 then percentile vals p else .error .assert

/-- `median`. -/
def median (vals : List Rat) : Except Err Rat := percentile vals 50

/-- `min(vals)` / `max(vals)` (ValueError on an empty list). -/
def minV (vals : List Rat) : Except Err Rat :=
  match vals.min? with
  | some v => .ok v
  | none => .error .value

def maxV (vals : List Rat) : Except Err Rat :=
  match vals.max? with
  | some v => .ok v
  | none => .error .value

/-- `sorted(range(n), key=lambda k: vals[k])` – stable ascending by value. -/
def argsortAsc (vals : List Rat) : List Nat :=
  (List.range vals.length).mergeSort fun i j => decide (vals.getD i 0 ≤ vals.getD j 0)

/-- `sorted(range(n), key=lambda k: vals[k], reverse=True)` – descending by value, equal values keep
    their original order (Python's `reverse=True` preserves stability). -/
def argsortDesc (vals : List Rat) : List Nat :=
  (List.range vals.length).mergeSort fun i j => decide (vals.getD j 0 ≤ vals.getD i 0)

/-- `sorted(vals, reverse=True)`. -/
def sortedDesc (vals : List Rat) : List Rat := vals.mergeSort (fun a b => decide (b ≤ a))

/-- `highest_values(count)` (argument already `int(count)`). -/
def highestValues (vals : List Rat) (count : Int) : Except Err (List Rat × List Nat) :=
  if ¬ count ≤ vals.length then .error .assert
  else if ¬ 0 < count then .error .assert
  else .ok ((sortedDesc vals).take count.toNat, (argsortDesc vals).take count.toNat)

/-- `lowest_values(count)`. -/
def lowestValues (vals : List Rat) (count : Int) : Except Err (List Rat × List Nat) :=
  if ¬ count ≤ vals.length then .error .assert
  else if ¬ 0 < count then .error .assert
  else .ok ((sorted vals).take count.toNat, (argsortAsc vals).take count.toNat)

/-- The statistic chosen by `_time_interval_operation` / `_monthly_operation`. -/
inductive Op where
  | average
  | total
  | percentile (p : Rat)
deriving Repr

/-- `funct(vals)`. -/
def Op.apply (op : Op) (vals : List Rat) : Except Err Rat :=
  match op with
  | .average => Stats.average vals
  | .total => .ok (Stats.total vals)
  | .percentile p => Stats.percentile vals p

/-- The assertion `0 <= percentile <= 100` made before any grouping. -/
def Op.admissible (op : Op) : Bool :=
  match op with
  | .percentile p => decide (0 ≤ p ∧ p ≤ 100)
  | _ => true

#guard percentile [3, 1, 2] 50 = .ok 2
#guard percentile [4, 1, 2, 3] 50 = .ok (5 / 2)
#guard percentile [4, 1, 2, 3] 0 = .ok 1
#guard percentile [4, 1, 2, 3] 100 = .ok 4
#guard percentile [4, 1, 2, 3] 25 = .ok (7 / 4)
#guard percentile [] 50 = .error .index
#guard average [1, 2, 4] = .ok (7 / 3)
#guard highestValues [1, 5, 3, 5] 3 = .ok ([5, 5, 3], [1, 3, 2])
#guard lowestValues [2, 1, 2, 1] 3 = .ok ([1, 1, 2], [1, 3, 0])
#guard highestValues [1, 2] 3 = .error .assert
#guard highestValues [1, 2] 0 = .error .assert

end Stats
