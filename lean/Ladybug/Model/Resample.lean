/-
  Model of the validation / hole-filling / resampling code of ladybug/datacollection.py
  (HourlyDiscontinuousCollection.validate_analysis_period, interpolate_holes, _xxrange,
  cull_to_timestep/_timestep_cull, HourlyContinuousCollection.interpolate_to_timestep,
  Daily/Monthly/MonthlyPerHour validate_analysis_period) and of the factor arithmetic of
  _datacollectionbase.py (_time_aggregated_collection, _time_rate_of_change_collection).
  Hand-written from the code; on top of `Cal` (dt.py) and `AP` (analysisperiod.py).  No Mathlib.

  The model describes the code WITH these repairs applied (fixes/C13_*.patch):
    * single_value_validation            duplicate check runs over i = 1 .. n-1 (4 classes)
    * interpolate_holes_first_hole       `i = n_steps` / `+ 1` (index of the next step to fill)
    * interpolate_holes_year_wrap        hole lengths counted modulo the minutes of the year
    * interpolate_to_timestep_ratio      n_sub = target / current timestep
    * validate_reversed_subhourly_tail   rotation point `moy < end_moy + 60`
    * validate_timestep_all_datetimes    coarsest valid timestep fitting every datetime
    * mph_sort_full_key                  monthly-per-hour sort key is the whole (month, hour, minute)
    * monthly_keeps_timestep_leap        Monthly / MonthlyPerHour validation keep header timestep + leap flag
    * mph_fits_timestep                  MonthlyPerHour validation repairs a timestep that does not fit the minutes
    * monthly_wrapping_same_month        Monthly / MonthlyPerHour: wrapping header inside one month -> annual

  Conventions: an hourly datum is `(moy, value)`; all `DateTime`s of one collection carry the
  same leap flag `dl` (which may differ from the header's).  Values that are only moved are a
  type parameter `α`; interpolation is over `Rat`.

  Correspondence ops: Drv/C13.lean (harness/props/c13.py).  Theorems: Props/C13.lean.
-/
import Ladybug.Py
import Ladybug.Model.Cal
import Ladybug.Model.AP

open Cal

namespace Resample

/-- Error classes that the modelled functions raise. -/
inductive VErr where
  | value | assert | index | type | zero
deriving DecidableEq, Repr

def ofCalErr : Err → VErr
  | .value => .value
  | .index => .index
  | .type => .type

def liftAP (r : Except Err AP) : Except VErr AP :=
  match r with
  | .ok a => .ok a
  | .error e => .error (ofCalErr e)

/-! ### List helpers -/

/-- `sorted(zip(datetimes, values))` for pairwise distinct datetimes: a stable sort on the key
    (for equal datetimes Python would go on to compare the values; such input is rejected as a
    duplicate afterwards whatever their order). -/
def sortByKey {β : Type} (key : β → Nat) (l : List β) : List β :=
  l.mergeSort (fun a b => decide (key a ≤ key b))

/-- `l[k:] + l[:k]`. -/
def rotateAt {β : Type} (l : List β) (k : Nat) : List β := l.drop k ++ l.take k

/-- The loop `for i, x in enumerate(l): last_ind = i if p(x) else last_ind`. -/
def lastIdxGo {β : Type} (p : β → Bool) : List β → Nat → Option Nat → Option Nat
  | [], _, acc => acc
  | x :: xs, i, acc => lastIdxGo p xs (i + 1) (if p x then some i else acc)

def lastIdx {β : Type} (p : β → Bool) (l : List β) : Option Nat := lastIdxGo p l 0 none

/-- The rotation of the reversed branches: after the last item that satisfies `p`. -/
def rotateAfterLast {β : Type} (p : β → Bool) (l : List β) : List β :=
  match lastIdx p l with
  | none => l
  | some i => rotateAt l (i + 1)

/-- The re-ordering shared by the four validations: for a wrapping (`rev`) header the sorted list
    is rotated after the last item that satisfies `p`; when the first item then passes `gapTest`
    (it lies strictly between the end and the start of the header) the plain sorted list is taken
    instead and the period is made annual.  Returns the list and the "make annual" flag. -/
def gapOf {β : Type} (gapTest : β → Bool) (rot : List β) : Bool :=
  match rot.head? with
  | some f => gapTest f
  | none => false

def reorder {β : Type} (rev : Bool) (p gapTest : β → Bool) (sorted : List β) : List β × Bool :=
  let rot := if rev then rotateAfterLast p sorted else sorted
  let gap := rev && gapOf gapTest rot
  (if gap then sorted else rot, gap)

/-- `for i in range(1, n): assert l[i] != l[i - 1]` (repaired: starts at 1). -/
def hasAdjDup {κ : Type} [DecidableEq κ] : List κ → Bool
  | a :: b :: rest => decide (a = b) || hasAdjDup (b :: rest)
  | _ => false

/-! ### Hourly validation -/

/-- `(month, day)` of a `DateTime` given by its minute of the year. -/
def mdOf (leap : Bool) (m : Nat) : Nat × Nat :=
  match fromMoyNat leap m with
  | .ok d => (d.month, d.day)
  | .error _ => (0, 0)

/-- `.doy` of a datum. -/
def doyOfMoy (m : Nat) : Nat := m / 1440 + 1
/-- `.hour` of a datum. -/
def hourOfMoy (m : Nat) : Nat := m / 60 % 24

/-- `sorted(VALIDTIMESTEPS.keys())`. -/
def sortedTimesteps : List Nat := Gen.Ap.validTimesteps.mergeSort (fun a b => decide (a ≤ b))

/-- The timestep repair (repaired code): keep the header timestep when every datetime is on its
    grid, else the first valid timestep in ascending order whose grid holds every datetime. -/
def fitTimestep (ts : Nat) (moys : List Nat) : Nat :=
  if moys.all (fun m => m % (60 / ts) = 0) then ts
  else
    match sortedTimesteps.find? (fun t => moys.all (fun m => m % (60 / t) = 0)) with
    | some t => t
    | none => ts

/-- `n_ap[2] = date_t.hour if date_t.hour < n_ap[2] else n_ap[2]` over all datetimes. -/
def minHour (h0 : Nat) (hours : List Nat) : Nat := hours.foldl (fun a h => if h < a then h else a) h0
def maxHour (h0 : Nat) (hours : List Nat) : Nat := hours.foldl (fun a h => if h > a then h else a) h0

/-- Result of a validation: the repaired period and the re-ordered data. -/
structure Validated (β : Type) where
  ap : AP
  data : List β
deriving Repr

/-- `HourlyDiscontinuousCollection.validate_analysis_period` (repaired).
    `ap` header period, `dl` leap flag of the `DateTime` objects, `data` the (moy, value) pairs in
    collection order. -/
def validateHourly {α : Type} (ap : AP) (dl : Bool) (data : List (Nat × α)) :
    Except VErr (Validated (Nat × α)) :=
  let sorted := sortByKey (fun p : Nat × α => p.1) data
  match sorted.head?, sorted.getLast? with
  | some first, some last =>
    -- dates
    let fwd := ap.isReversed = false ∧ ap.isAnnual = false
    let stMD : Nat × Nat :=
      if fwd ∧ doyOfMoy first.1 < ap.stTime.doy then mdOf dl first.1 else (ap.st_month, ap.st_day)
    let endMD : Nat × Nat :=
      if fwd ∧ doyOfMoy last.1 > ap.endTime.doy then mdOf dl last.1 else (ap.end_month, ap.end_day)
    let ro := reorder ap.isReversed (fun p : Nat × α => decide (p.1 < ap.endMoy + 60))
      (fun f : Nat × α => decide (doyOfMoy f.1 > ap.endTime.doy ∧ doyOfMoy f.1 < ap.stTime.doy)) sorted
    let out := ro.1
    let gap := ro.2
    let stMD := if gap then (1, 1) else stMD
    let endMD := if gap then (12, 31) else endMD
    -- hours
    let hours := out.map fun p => hourOfMoy p.1
    let stH := if ap.isAnnual = false ∧ ap.st_hour ≠ 0 then minHour ap.st_hour hours else ap.st_hour
    let endH := if ap.isAnnual = false ∧ ap.end_hour ≠ 23 then maxHour ap.end_hour hours else ap.end_hour
    -- duplicates
    if hasAdjDup (out.map fun p => p.1) then .error .assert
    else
      let ts := fitTimestep ap.timestep (out.map fun p => p.1)
      let leap := ap.leap || out.any fun p => decide (mdOf dl p.1 = (2, 29))
      match liftAP (AP.mk? stMD.1 stMD.2 stH endMD.1 endMD.2 endH ts leap) with
      | .error e => .error e
      | .ok nap => .ok ⟨nap, out⟩
  | _, _ => .error .assert   -- an empty collection cannot even be constructed (`_check_values`)

/-! ### Daily / Monthly / MonthlyPerHour validation -/

/-- `DateTime.from_hoy((doy - 1) * 24, leap)` → `(month, day)`. -/
def mdOfDoy (leap : Bool) (doy : Nat) : Except VErr (Nat × Nat) :=
  match fromMoy leap (((doy : Int) - 1) * 1440) with
  | .ok d => .ok (d.month, d.day)
  | .error e => .error (ofCalErr e)

/-- `DailyCollection.validate_analysis_period` (repaired); data = (day of year, value). -/
def validateDaily {α : Type} (ap : AP) (data : List (Nat × α)) : Except VErr (Validated (Nat × α)) :=
  let leap := ap.leap || data.any fun p => decide (p.1 = 366)
  let sorted := sortByKey (fun p : Nat × α => p.1) data
  match sorted.head?, sorted.getLast? with
  | some first, some last =>
    let fwd := ap.isReversed = false ∧ ap.isAnnual = false
    let stMD : Except VErr (Nat × Nat) :=
      if fwd ∧ first.1 < ap.stTime.doy then mdOfDoy leap first.1 else .ok (ap.st_month, ap.st_day)
    match stMD with
    | .error e => .error e
    | .ok stMD =>
      let endMD : Except VErr (Nat × Nat) :=
        if fwd ∧ last.1 > ap.endTime.doy then mdOfDoy leap last.1 else .ok (ap.end_month, ap.end_day)
      match endMD with
      | .error e => .error e
      | .ok endMD =>
        let ro := reorder ap.isReversed (fun p : Nat × α => decide (p.1 ≤ ap.endTime.doy))
          (fun f : Nat × α => decide (f.1 > ap.endTime.doy ∧ f.1 < ap.stTime.doy)) sorted
        let out := ro.1
        let gap := ro.2
        let stMD := if gap then (1, 1) else stMD
        let endMD := if gap then (12, 31) else endMD
        if hasAdjDup (out.map fun p => p.1) then .error .assert
        else
          match liftAP (AP.mk? stMD.1 stMD.2 ap.st_hour endMD.1 endMD.2 ap.end_hour ap.timestep leap) with
          | .error e => .error e
          | .ok nap => .ok ⟨nap, out⟩
  | _, _ => .error .assert

/-- `MonthlyCollection.validate_analysis_period` (repaired); data = (month, value).  The new
    period is `AnalysisPeriod(st_month=.., end_month=.., timestep, is_leap_year)`: days and hours of
    the header are dropped (as in the code); timestep and leap flag are kept (repaired). -/
def validateMonthly {α : Type} (ap : AP) (data : List (Nat × α)) : Except VErr (Validated (Nat × α)) :=
  let sorted := sortByKey (fun p : Nat × α => p.1) data
  match sorted.head?, sorted.getLast? with
  | some first, some last =>
    let fwd := ap.isReversed = false ∧ ap.isAnnual = false
    let stM := if fwd ∧ first.1 < ap.st_month then first.1 else ap.st_month
    let endM := if fwd ∧ last.1 > ap.end_month then last.1 else ap.end_month
    let ro := reorder ap.isReversed (fun p : Nat × α => decide (p.1 ≤ ap.end_month))
      (fun f : Nat × α => decide (ap.st_month = ap.end_month ∨ (f.1 > ap.end_month ∧ f.1 < ap.st_month))) sorted
    let out := ro.1
    let gap := ro.2
    let stM := if gap then 1 else stM
    let endM := if gap then 12 else endM
    if hasAdjDup (out.map fun p => p.1) then .error .assert
    else
      match liftAP (AP.mkOpt? (some stM) none none (some endM) none none (some ap.timestep) ap.leap) with
      | .error e => .error e
      | .ok nap => .ok ⟨nap, out⟩
  | _, _ => .error .assert

/-- A `(month, hour, minute)` key. -/
abbrev MPH := Nat × Nat × Nat

/-- Sort key of the monthly-per-hour sort (repaired: the whole `(month, hour, minute)` tuple,
    lexicographic; hours and minutes are below 100 in every input the harness builds). -/
def mphKey (k : MPH) : Nat := k.1 * 10000 + k.2.1 * 100 + k.2.2

/-- `MonthlyPerHourCollection.validate_analysis_period` (repaired); data = ((month, hour, minute),
    value).  New period `AnalysisPeriod(st_month, st_hour, end_month, end_hour, timestep, leap)`:
    the leap flag is the header's, the timestep the header's unless a minute of a key is off its
    grid – then the coarsest valid timestep that fits every minute (both repaired). -/
def validateMPH {α : Type} (ap : AP) (data : List (MPH × α)) : Except VErr (Validated (MPH × α)) :=
  let sorted := sortByKey (fun p : MPH × α => mphKey p.1) data
  match sorted.head?, sorted.getLast? with
  | some first, some last =>
    let fwd := ap.isReversed = false ∧ ap.isAnnual = false
    let stM := if fwd ∧ first.1.1 < ap.st_month then first.1.1 else ap.st_month
    let endM := if fwd ∧ last.1.1 > ap.end_month then last.1.1 else ap.end_month
    let ro := reorder ap.isReversed (fun p : MPH × α => decide (p.1.1 ≤ ap.end_month ∧ p.1.2.1 ≤ ap.end_hour))
      (fun f : MPH × α => decide (ap.st_month = ap.end_month ∨ (f.1.1 > ap.end_month ∧ f.1.1 < ap.st_month))) sorted
    let out := ro.1
    let gap := ro.2
    let stM := if gap then 1 else stM
    let endM := if gap then 12 else endM
    if hasAdjDup (out.map fun p => p.1) then .error .assert
    else
      let hours := out.map fun p => p.1.2.1
      let stH := if ap.isAnnual = false ∧ ap.st_hour ≠ 0 then minHour ap.st_hour hours else ap.st_hour
      let endH := if ap.isAnnual = false ∧ ap.end_hour ≠ 23 then maxHour ap.end_hour hours else ap.end_hour
      let ts := fitTimestep ap.timestep (out.map fun p => p.1.2.2)
      match liftAP (AP.mkOpt? (some stM) none (some stH) (some endM) none (some endH) (some ts) ap.leap) with
      | .error e => .error e
      | .ok nap => .ok ⟨nap, out⟩
  | _, _ => .error .assert

/-! ### Culling to a coarser timestep -/

/-- `_timestep_cull` + `cull_to_timestep`: keep the data whose minute of the year is a multiple of
    `60 / timestep`; the period is rebuilt with the new timestep. -/
def cull {α : Type} (ap : AP) (ts : Nat) (data : List (Nat × α)) : Except VErr (Validated (Nat × α)) :=
  if ts ∈ Gen.Ap.validTimesteps then
    let kept := data.filter fun p => p.1 % (60 / ts) = 0
    if kept = [] then .error .assert   -- a collection needs at least one value (`_check_values`)
    else
    match liftAP (AP.mk? ap.st_month ap.st_day ap.st_hour ap.end_month ap.end_day ap.end_hour ts ap.leap) with
    | .error e => .error e
    | .ok nap => .ok ⟨nap, kept⟩
  else .error .assert

/-- `cull_to_timestep` of a `HourlyContinuousCollection`: its datetimes are the steps of its period,
    paired in order with its values; the same per-datetime test applies (the target need not divide
    the current timestep: 6 -> 4 keeps :00 and :30 only). -/
def cullContinuous {α : Type} (ap : AP) (ts : Nat) (vals : List α) : Except VErr (Validated (Nat × α)) :=
  cull ap ts (ap.moys.zip vals)

/-! ### Linear interpolation -/

/-- `_xxrange(start, end, n)`: `start + i * ((end - start) / n)` for `i < n`. -/
def xxrange (a b : Rat) (n : Nat) : List Rat :=
  (List.range n).map fun (i : Nat) => a + (i : Rat) * ((b - a) / (n : Rat))

/-- The hole-filling loop.  `grid` is the rest of the period's steps starting at the next step to
    fill (`new_datetimes[i:]`), `prev` the previous source value.  A source step that is the next
    step is copied; otherwise the `n - 1` missing steps are interpolated between `prev` and the
    value (`list(_xxrange(prev, v, n))[1:] + [v]`, `n` counted cyclically through the year end). -/
def holesGo (year step : Nat) : List (Nat × Rat) → List Nat → Rat → Except VErr (List Rat)
  | [], _, _ => .ok []
  | (m, v) :: rest, grid, prev =>
    match grid with
    | [] => .error .index
    | g :: gs =>
      if g = m then
        match holesGo year step rest gs v with
        | .ok r => .ok (v :: r)
        | .error e => .error e
      else
        let n := (m + year - g) % year / step + 1
        match holesGo year step rest (grid.drop n) v with
        | .ok r => .ok ((xxrange prev v n).tail ++ v :: r)
        | .error e => .error e

/-- `interpolate_holes` (repaired) of a discontinuous collection: `ap` header period, `validated`
    the flag, `data` the (moy, value) pairs in collection order (their `DateTime`s carry the
    header's leap flag).  The result is the value list of the continuous collection over `ap`. -/
def interpolateHoles (ap : AP) (validated : Bool) (data : List (Nat × Rat)) : Except VErr (List Rat) :=
  if validated = false then .error .assert
  else
    let grid := ap.moys
    let year := minutesInYear ap.leap
    let step := 60 / ap.timestep
    match grid.head?, data.head?, data.getLast? with
    | some g0, some (m0, v0), some (_, vlast) =>
      let lead := if g0 ≠ m0 then (m0 + year - g0) % year / step else 0
      match holesGo year step data (grid.drop lead) vlast with
      | .error e => .error e
      | .ok vals =>
        let vals := List.replicate lead v0 ++ vals
        let vals := vals ++ List.replicate (grid.length - vals.length) vlast
        if ap.st_hour ≠ 0 ∨ ap.end_hour ≠ 23 then .error .assert
        else if vals.length ≠ ap.len then .error .assert
        else .ok vals
    | _, _, _ => .error .index

/-- Python `l[-s:] + l[:-s]`. -/
def shiftRight (l : List Rat) (s : Nat) : List Rat :=
  Py.slice l (-(s : Int)) (l.length : Int) ++ (if s = 0 then [] else Py.slice l 0 (-(s : Int)))

/-- The refined values of `interpolate_to_timestep` before the header is rebuilt:
    `n` new steps per source step, cyclic successor, optional division and half-step shift. -/
def refine (vals : List Rat) (n : Nat) (divide shift : Bool) : List Rat :=
  let len := vals.length
  let raw := (List.range len).flatMap fun d =>
    xxrange (vals.getD d 0) (vals.getD ((d + 1) % len) 0) n
  let raw := if divide then raw.map (· / (n : Rat)) else raw
  if shift then shiftRight raw (n / 2) else raw

/-- `HourlyContinuousCollection.interpolate_to_timestep(timestep, cumulative)` (repaired).
    `cumulative : Option Bool` the argument, `nativeCum` / `pointInTime` the two flags of the data
    type.  Returns the new period and values. -/
def interpolateToTimestep (ap : AP) (vals : List Rat) (ts : Nat) (cumulative : Option Bool)
    (nativeCum pointInTime : Bool) : Except VErr (AP × List Rat) :=
  if ts % ap.timestep ≠ 0 then .error .assert
  else
    let n := ts / ap.timestep
    if n = 0 ∧ vals ≠ [] then .error .zero
    else
      let divide := cumulative = some true ∨ (cumulative = none ∧ nativeCum = true)
      let out := refine vals n divide (!pointInTime)
      match liftAP (AP.mk? ap.st_month ap.st_day ap.st_hour ap.end_month ap.end_day ap.end_hour ts ap.leap) with
      | .error e => .error e
      | .ok nap =>
        if nap.st_hour ≠ 0 ∨ nap.end_hour ≠ 23 then .error .assert
        else if out.length ≠ nap.len then .error .assert
        else .ok (nap, out)

/-! ### Time aggregation / rate of change (factor only) -/

/-- `_time_aggregated_collection(timestep)`: `val * (time_aggregated_factor / timestep)`. -/
def timeAggregated (factor ts v : Rat) : Rat := v * (factor / ts)
/-- `_time_rate_of_change_collection(timestep)`: `val / (time_aggregated_factor / timestep)`. -/
def timeRate (factor ts v : Rat) : Rat := v / (factor / ts)

/-! ### Unit tests of the model -/

#guard sortedTimesteps = [1, 2, 3, 4, 5, 6, 10, 12, 15, 20, 30, 60]
#guard fitTimestep 1 [20, 30] = 6
#guard fitTimestep 2 [30, 60] = 2
#guard fitTimestep 4 [30, 60] = 4
#guard rotateAfterLast (fun x : Nat => decide (x < 3)) [1, 2, 5, 7] = [5, 7, 1, 2]
#guard (validateHourly (AP.annual false 1) false [(246240, 7)]).toOption.map (·.data) = some [(246240, 7)]
#guard (cullContinuous ⟨7, 14, 0, 7, 14, 23, 6, false⟩ 4 [0, 1, 2, 3, 4, 5, 6]).toOption.map (·.data)
  = some [(194 * 1440, 0), (194 * 1440 + 30, 3), (194 * 1440 + 60, 6)]
#guard xxrange 0 10 4 = [0, 5/2, 5, 15/2]
#guard interpolateHoles ⟨1, 1, 0, 1, 1, 23, 1, false⟩ true [(0, 0), (60, 10), (240, 40), (300, 50)]
  = .ok ([0, 10, 20, 30, 40, 50] ++ List.replicate 18 50)
#guard interpolateHoles ⟨1, 1, 0, 1, 1, 23, 1, false⟩ true [(120, 20), (180, 30), (360, 60)]
  = .ok ([20, 20, 20, 30, 40, 50, 60] ++ List.replicate 17 60)
#guard refine [0, 1, 2] 2 false false = [0, 1/2, 1, 3/2, 2, 1]
#guard refine [0, 1, 2] 2 true true = [1/2, 0, 1/4, 1/2, 3/4, 1]
#guard shiftRight [1, 2, 3, 4] 0 = [1, 2, 3, 4]
#guard shiftRight [1, 2, 3, 4] 1 = [4, 1, 2, 3]

end Resample
