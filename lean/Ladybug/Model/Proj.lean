/-
  Model of the sky projections of ladybug/compass.py and of `Sun.position_3d/position_2d`
  (ladybug/sunpath.py) for property C20.  No Mathlib; generic in the number type so that the same
  definitions run on `Float` (driver) and are reasoned about over ℝ (Props/C20.lean).

  The inverse formulas are not part of ladybug (it has no inverse projection); they are the textbook
  inverses the property statement refers to and are defined here so that the theorems can name them.
-/
namespace Proj

section
variable {α : Type} [Add α] [Sub α] [Mul α] [Div α]

/-- `Compass.point3d_to_orthographic(point)`: drop z. -/
def ortho (x y _z : α) : α × α := (x, y)

/-- `Compass.point3d_to_stereographic(point, radius, origin)`. -/
def stereo (x y z r ox oy oz : α) : α × α :=
  let cx := x - ox
  let cy := y - oy
  let cz := z - oz
  let px := cx / (r + cz)
  let py := cy / (r + cz)
  (px * r + ox, py * r + oy)

/-- `Sun.position_3d(origin, radius)` from the reversed sun vector `(vx, vy, vz)`. -/
def position3d (vx vy vz r ox oy oz : α) : α × α × α :=
  (vx * r + ox, vy * r + oy, vz * r + oz)

/-- `Sun.position_2d('Orthographic', origin, radius)`; the 3D origin is `(ox, oy, 0)`. -/
def position2dOrtho [OfNat α 0] (vx vy vz r ox oy : α) : α × α :=
  let p := position3d vx vy vz r ox oy 0
  ortho p.1 p.2.1 p.2.2

/-- `Sun.position_2d('Stereographic', origin, radius)`. -/
def position2dStereo [OfNat α 0] (vx vy vz r ox oy : α) : α × α :=
  let p := position3d vx vy vz r ox oy 0
  stereo p.1 p.2.1 p.2.2 r ox oy 0

/-- Inverse stereographic formula: from the image `(X, Y)` back to the point on the sphere of radius `r`
around `(ox, oy, oz)`:  with `u = (X − ox)/r`, `v = (Y − oy)/r`, `d = 1 + u² + v²`:
`(ox + r·2u/d, oy + r·2v/d, oz + r·(1 − u² − v²)/d)`. -/
def stereoInv [OfNat α 1] [OfNat α 2] (X Y r ox oy oz : α) : α × α × α :=
  let u := (X - ox) / r
  let v := (Y - oy) / r
  let d := 1 + u * u + v * v
  (ox + r * (2 * u / d), oy + r * (2 * v / d), oz + r * ((1 - u * u - v * v) / d))

/-- Inverse orthographic formula for the upper hemisphere, given a square-root function. -/
def orthoInv (sqrt : α → α) (X Y r ox oy oz : α) : α × α × α :=
  (X, Y, oz + sqrt (r * r - (X - ox) * (X - ox) - (Y - oy) * (Y - oy)))

end
end Proj
