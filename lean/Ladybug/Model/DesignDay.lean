/-
  Model of ladybug/designday.py (hourly profiles, date handling, IDF text form), ddy.py (file = list of
  IDF objects), location.py (to_idf / from_idf) and DesignDay.from_ashrae_dict_heating/cooling.
  Hand-written from the code as it exists; the tables, the IDF field layout of `to_idf`/`from_idf` and the
  day offset of `start_moy` come from `Gen.DD` (regenerated from designday.py on every run).  No Mathlib.

  * numeric profiles are written once over the generic numeric interface (Float executes, ℝ is proved);
    the humidity profile is the one of Model/Psychro.lean (`ddDewPoint`, `ddHourlyDewPoint`, `ddHourlyRelHumid`);
  * date logic is integer arithmetic on minutes of the year on top of Model/Cal.lean;
  * the IDF form is modelled at field level (`List String`) with fields as abstract tokens (`Tok`: numbers are opaque), plus an
    executable character-level renderer/lexer that is tied by correspondence only.

  Correspondence ops: Drv/C16.lean.  Theorems: Props/C16.lean.
-/
import Ladybug.Py
import Ladybug.Model.Cal
import Ladybug.Model.Psychro
import Ladybug.Gen.DesignDayTables

namespace DD

open Gen.DD

/-! ### hourly profiles -/

section profile
variable {α : Type} [Sub α] [Mul α] [OfScientific α]

/-- `DryBulbCondition.hourly_values`: `[max - range * x for x in HOURLY_MULTIPLIERS]`. -/
def hourlyDryBulb (mx rng : α) : List α := (hourlyMultipliers (α := α)).map fun x => mx - rng * x

/-- `[value] * 24` (pressure, wind speed, wind direction, sky cover). -/
def constant24 (v : α) : List α := List.replicate 24 v

end profile

section cover
variable {α : Type} [Sub α] [Mul α] [OfScientific α] [LT α] [DecidableLT α]

/-- `ASHRAEClearSky.hourly_sky_cover`: `0 if clearness > 1 else (1 - clearness) * 10`, 24 times
    (`_SkyCondition` and `ASHRAETau`: 0). -/
def clearSkyCover (clearness : α) : List α :=
  List.replicate 24 (if (1.0 : α) < clearness then 0.0 else (1.0 - clearness) * 10.0)

end cover

/-! ### date handling -/

/-- `date.doy * 1440` as the code has it: `(doy - off) * 1440` with the extracted day offset
    (0 = pinned tree, 1 = repaired). -/
def dayStart (off : Nat) (d : Cal.D) : Int := ((d.doy : Int) - (off : Int)) * 1440

/-- All-or-first-error evaluation of a generator of datetimes (`tuple(... for i in ...)`). -/
def collect : List (Except Cal.Err Cal.DT) → Except Cal.Err (List Cal.DT)
  | [] => .ok []
  | .error e :: _ => .error e
  | .ok x :: r =>
    match collect r with
    | .ok xs => .ok (x :: xs)
    | .error e => .error e

/-- `DesignDay.hourly_datetimes`. -/
def hourlyDatetimesOff (off : Nat) (d : Cal.D) : List (Except Cal.Err Cal.DT) :=
  (List.range 24).map fun (i : Nat) => Cal.fromMoy d.leap (dayStart off d + (i : Int) * 60)

def hourlyDatetimes (d : Cal.D) : Except Cal.Err (List Cal.DT) :=
  collect (hourlyDatetimesOff hourlyDayOffset d)

/-- `start_moy` of `_SkyCondition._get_datetimes(timestep)`. -/
def skyStartOff (off : Nat) (d : Cal.D) (dst : Bool) (ts : Nat) : Int :=
  dayStart off d - (if dst then 60 else 0) + (if ts = 1 then 30 else 0)

/-- `start_moy + i * (1 / timestep) * 60` over exact rationals. -/
def skyMoyExact (start : Int) (ts i : Nat) : Rat := (start : Rat) + (i : Rat) * (1 / (ts : Rat)) * 60

/-- The same expression in IEEE double arithmetic (what CPython computes), as an exact rational;
    `none` when the float is not finite. -/
def skyMoyFloat (start : Int) (ts i : Nat) : Option Rat :=
  Py.ratOfFloatBits ((Float.ofInt start) + (Float.ofNat i) * (1.0 / Float.ofNat ts) * 60.0).toBits

/-- `DateTime.from_moy(x, leap)` for a real `x` (`moy = int(moy)` truncates). -/
def fromMoyReal (leap : Bool) (x : Rat) : Except Cal.Err Cal.DT := Cal.fromMoy leap (Py.truncRat x)

/-- `int(start_moy + i * (1 / timestep) * 60)` for a non-negative result over exact arithmetic:
    `start + 60 * i / timestep` (integer division). -/
def skyMoyInt (start : Int) (ts i : Nat) : Int := start + ((60 * i / ts : Nat) : Int)

/-- `_get_datetimes(timestep)` at integer level (what the theorems are about; the driver reports where the
    IEEE evaluation differs: only for `start_moy <= 0`, i.e. on 1 January). -/
def skyDatetimesInt (off : Nat) (d : Cal.D) (dst : Bool) (ts : Nat) : List (Except Cal.Err Cal.DT) :=
  (List.range (24 * ts)).map fun i => Cal.fromMoy d.leap (skyMoyInt (skyStartOff off d dst ts) ts i)

/-- `_get_datetimes(timestep)` with exact rational arithmetic. -/
def skyDatetimesExact (off : Nat) (d : Cal.D) (dst : Bool) (ts : Nat) : List (Except Cal.Err Cal.DT) :=
  (List.range (24 * ts)).map fun i => fromMoyReal d.leap (skyMoyExact (skyStartOff off d dst ts) ts i)

/-- `_get_datetimes(timestep)` with the IEEE evaluation of the offset (executed by the driver). -/
def skyDatetimesFloat (off : Nat) (d : Cal.D) (dst : Bool) (ts : Nat) : List (Except Cal.Err Cal.DT) :=
  (List.range (24 * ts)).map fun i =>
    match skyMoyFloat (skyStartOff off d dst ts) ts i with
    | some x => fromMoyReal d.leap x
    | none => .error .value

/-- The 24 datetimes of the header of every `hourly_*` collection:
    `AnalysisPeriod(m, d, 0, m, d, 23, is_leap_year=date.leap_year)` - the year kind of the stated date
    (correspondence op `cdts`). -/
def collectionDatetimes (d : Cal.D) : List Cal.DT :=
  (List.range 24).map fun h => ⟨d.month, d.day, h, 0, d.leap⟩

/-! ### numbers as opaque tokens -/

/-- A field of the IDF object as a token of an abstract type `τ`, with the numbers `ν` it can carry.
    `ofStr s` is the text `s` itself, `ofNum x` is Python's `str(x)`, `ofNat n` is `str(n)`; `text t` reads
    the token as text (names, schedule names, enum words), `num? t` is `float(t)` (`none` = ValueError),
    `int? t` is `int(t)`, `isYes t` is `t.lower() == 'yes'`; `zero` is the literal `0` of the defaults and
    `toRat` the value used by the range assertions of the constructors.
    The driver instantiates `τ = ν = String` (the real text); the theorems hold for every instance that obeys
    the laws `num? (ofNum x) = some x`, `int? (ofNat n) = some n`, `text (ofStr s) = s`, ... (Props/C16.lean). -/
class Tok (τ : Type) (ν : outParam Type) where
  ofStr : String → τ
  ofNum : ν → τ
  ofNat : Nat → τ
  text : τ → String
  num? : τ → Option ν
  int? : τ → Option Int
  isYes : τ → Bool

/-- The numbers: `zero` is the literal `0` of the defaults, `toRat` the value the range assertions test. -/
class NumVal (ν : Type) where
  zero : ν
  toRat : ν → Rat

open Tok NumVal

/-! ### the objects -/

inductive Err where
  | value | index | assert
deriving DecidableEq, Repr

structure DryBulb (ν : Type) where
  max : ν
  range : ν
  modType : String
  modSched : String
deriving DecidableEq, Repr

/-- `wet_bulb_range`: `''` (default) or a number. -/
inductive WBR (ν : Type) where
  | blank
  | num (x : ν)
deriving DecidableEq, Repr

structure Humidity (ν : Type) where
  ty : Psychro.HumType
  value : ν
  pressure : ν
  rain : Bool
  snow : Bool
  schedule : String
  wetBulbRange : WBR ν
deriving DecidableEq, Repr

structure Wind (ν : Type) where
  speed : ν
  dir : ν
deriving DecidableEq, Repr

inductive SkyKind (ν : Type) where
  /-- `_SkyCondition` itself (solar model 'Schedule' / 'ZhangHuang' of a file) -/
  | base (beam diff : String)
  | clear (clearness : ν)
  | tau (tb td : ν) (use2017 : Bool)
deriving DecidableEq, Repr

structure Sky (ν : Type) where
  date : Cal.D
  dst : Bool
  kind : SkyKind ν
deriving DecidableEq, Repr

structure DesignDay (ν : Type) where
  name : String
  dayType : String
  db : DryBulb ν
  hum : Humidity ν
  wind : Wind ν
  sky : Sky ν
deriving DecidableEq, Repr

def humTypeName : Psychro.HumType → String
  | .wetbulb => "Wetbulb"
  | .dewpoint => "Dewpoint"
  | .humidityRatio => "HumidityRatio"
  | .enthalpy => "Enthalpy"

/-- `assert data in HUMIDITY_TYPES` plus the dispatch on the name. -/
def humTypeOfName? (s : String) : Option Psychro.HumType :=
  if ¬ humidityTypes.contains s then none
  else if s = "Wetbulb" then some .wetbulb
  else if s = "Dewpoint" then some .dewpoint
  else if s = "HumidityRatio" then some .humidityRatio
  else if s = "Enthalpy" then some .enthalpy
  else none

/-! ### `to_idf` at field level -/

section idf
variable {τ ν : Type} [NumVal ν] [Tok τ ν]

def yesNo (b : Bool) : String := if b then "Yes" else "No"

/-- `str(<attribute>)` of one `ep_vals` cell, as a token. -/
def slotText (d : DesignDay ν) : Slot → τ
  | .name => ofStr d.name
  | .month => ofNat d.sky.date.month
  | .day => ofNat d.sky.date.day
  | .dayType => ofStr d.dayType
  | .dbMax => ofNum d.db.max
  | .dbRange => ofNum d.db.range
  | .modType => ofStr d.db.modType
  | .modSched => ofStr d.db.modSched
  | .humType => ofStr (humTypeName d.hum.ty)
  | .humSched => ofStr d.hum.schedule
  | .wbRange => match d.hum.wetBulbRange with
    | .blank => ofStr ""
    | .num x => ofNum x
  | .pressure => ofNum d.hum.pressure
  | .humValue => ofNum d.hum.value
  | .windSpeed => ofNum d.wind.speed
  | .windDir => ofNum d.wind.dir
  | .beamSched => match d.sky.kind with
    | .base b _ => ofStr b
    | _ => ofStr ""
  | .diffSched => match d.sky.kind with
    | .base _ f => ofStr f
    | _ => ofStr ""
  | .clearness => match d.sky.kind with
    | .clear c => ofNum c
    | _ => ofStr ""
  | .tauB => match d.sky.kind with
    | .tau b _ _ => ofNum b
    | _ => ofStr ""
  | .tauD => match d.sky.kind with
    | .tau _ t _ => ofNum t
    | _ => ofStr ""
  | .rain => ofStr (yesNo d.hum.rain)
  | .snow => ofStr (yesNo d.hum.snow)
  | .dst => ofStr (yesNo d.sky.dst)
  | .tauModel => match d.sky.kind with
    | .tau _ _ true => ofStr tauName2017
    | _ => ofStr tauName
  | .blank => ofStr ""
  | .lit s => ofStr s

/-- the `ep_vals[k] = ...` assignments of one branch, on the slot list -/
def applyOverrides (l : List Slot) (ov : List (Nat × Slot)) : List Slot :=
  ov.foldl (fun acc p => acc.set p.1 p.2) l

def dropLastN {β : Type} : Nat → List β → List β
  | 0, l => l
  | n + 1, l => dropLastN n l.dropLast

/-- which class the sky condition is -/
inductive SkyTag where
  | base | clear | tau
deriving DecidableEq, Repr

def SkyKind.tag : SkyKind ν → SkyTag
  | .base _ _ => .base
  | .clear _ => .clear
  | .tau _ _ _ => .tau

/-- Which attribute `to_idf` writes into which cell of `ep_vals`, for a humidity type name and a sky class
    (built from the regenerated layout: base list, humidity overrides, sky overrides, pops). -/
def layout (hum : String) (sky : SkyTag) : List Slot :=
  let l1 := applyOverrides toIdfBase ((humOverrides.filter fun p => p.1 == hum).map fun p => p.2)
  match sky with
  | .base => l1
  | .clear => dropLastN clearPops (applyOverrides l1 clearOverrides)
  | .tau => dropLastN tauPops (applyOverrides l1 tauOverrides)

/-- The value list `ep_vals` of `to_idf` after all assignments (strings as `str(val)` prints them). -/
def toIdfFields (d : DesignDay ν) : List τ :=
  (layout (humTypeName d.hum.ty) d.sky.kind.tag).map (slotText d)

/-! ### `from_idf` at field level (`ep_fields`, index 0 is the object name) -/

def fld (f : List τ) (k : Nat) : Except Err τ :=
  match f[k]? with
  | some s => .ok s
  | none => .error .index

/-- a field read as text -/
def strFld (f : List τ) (k : Nat) : Except Err String := do
  let t ← fld f k
  pure (text t)

def numFld (f : List τ) (k : Nat) : Except Err ν := do
  let s ← fld f k
  match (num? s : Option ν) with
  | some x => .ok x
  | none => .error .value

/-- `len(ep_fields) > g and ep_fields[k].lower() == 'yes'` -/
def flagFld (f : List τ) (g k : Nat) : Except Err Bool :=
  if g < f.length then do
    let s ← fld f k
    pure (isYes s)
  else pure false

/-- `int(s)` for the month / day fields -/
def intFld (f : List τ) (k : Nat) : Except Err Int := do
  let s ← fld f k
  match int? s with
  | some n => .ok n
  | none => .error .value

def check (b : Bool) : Except Err Unit := if b then .ok () else .error .assert

def between (lo : Rat) (x : ν) (hi : Rat) : Bool := decide (lo ≤ toRat x) && decide (toRat x ≤ hi)

/-- `DryBulbCondition(float(f[5]), float(f[6]), f[7], f[8])`; the constructor asserts range >= 0. -/
def readDryBulb (f : List τ) : Except Err (DryBulb ν) := do
  let dbMax : ν ← numFld f iDbMax
  let dbRange : ν ← numFld f iDbRange
  let modType ← strFld f iModType
  let modSched ← strFld f iModSched
  check (decide (0 ≤ toRat dbRange))
  pure ⟨dbMax, dbRange, modType, modSched⟩

/-- the humidity part of `from_idf` (type, generic value with the `''` default, rain, snow, the value of
    the HumidityRatio / Enthalpy cells, pressure, schedule; the constructor asserts the type name) -/
def readHumidity (f : List τ) : Except Err (Humidity ν) := do
  let hType ← strFld f iHumType
  let hv0 ← strFld f iHumValue
  let hVal0 : ν ← if hv0 == "" then pure zero else numFld f iHumValue
  let rain ← flagFld f gRain iRain
  let snow ← flagFld f gSnow iSnow
  let hVal : ν ←
    if hType == "HumidityRatio" then numFld f iHumRatio
    else if hType == "Enthalpy" then numFld f iEnthalpy
    else pure hVal0
  let pressure : ν ← numFld f iPressure
  let sched ← strFld f iHumSched
  let ty ← match humTypeOfName? hType with
    | some t => pure t
    | none => throw Err.assert
  pure ⟨ty, hVal, pressure, rain, snow, sched, .blank⟩

/-- `WindCondition(float(f[16]), float(f[17]))`; the constructor asserts 0 <= direction <= 360. -/
def readWind (f : List τ) : Except Err (Wind ν) := do
  let ws : ν ← numFld f iWindSpeed
  let wd : ν ← numFld f iWindDir
  check (between 0 wd 360)
  pure ⟨ws, wd⟩

/-- date, daylight-saving flag and the sky condition by solar model name -/
def readSky (f : List τ) : Except Err (Sky ν) := do
  let mo ← intFld f iMonth
  let da ← intFld f iDay
  let date ← match Cal.D.make mo da false with
    | .ok d => pure d
    | .error _ => throw Err.value
  let dst ← flagFld f gDst iDst
  let kind : SkyKind ν ←
    if gSkyModel < f.length then do
      let model ← strFld f iSkyModel
      if model == "ASHRAEClearSky" then do
        let c : ν ← if gClearness < f.length then numFld f iClearness else pure zero
        check (between 0 c (6 / 5))
        pure (SkyKind.clear c)
      else if model == "ASHRAETau" || model == "ASHRAETau2017" then do
        let tb : ν ← if gTauB < f.length then numFld f iTauB else pure zero
        let td : ν ← if gTauD < f.length then numFld f iTauD else pure zero
        -- `sky_model.endswith('2017')`: of the two names of this branch only 'ASHRAETau2017' ends so
        pure (SkyKind.tau tb td (model == "ASHRAETau2017"))
      else if model == "Schedule" then do
        let b ← strFld f iBeamSched
        let df ← strFld f iDiffSched
        pure (SkyKind.base b df)
      else pure (SkyKind.base "" "")
    else do
      check (between 0 (zero : ν) (6 / 5))
      pure (SkyKind.clear zero)
  pure ⟨date, dst, kind⟩

/-- `DesignDay.from_idf` on the field list, in the evaluation order of the source. -/
def fromIdfFields (f : List τ) : Except Err (DesignDay ν) := do
  let name ← strFld f iName
  let dayType ← strFld f iDayType
  let db ← readDryBulb f
  let hum ← readHumidity f
  let wind ← readWind f
  let sky ← readSky f
  check (dayTypes.contains dayType)
  pure { name := name, dayType := dayType, db := db, hum := hum, wind := wind, sky := sky }

/-- The field list `from_idf` sees for a written object: the object name, the values, and the text that
    follows the last separator (the last comment, which has lost its newline to `strip()`). -/
def writtenFields (d : DesignDay ν) (tail : τ) : List τ :=
  ofStr "SizingPeriod:DesignDay" :: toIdfFields d ++ [tail]

/-! ### Location (`Site:Location`) at field level -/

structure Loc (ν : Type) where
  city : String
  lat : ν
  lon : ν
  tz : ν
  elev : ν
deriving DecidableEq, Repr

/-- values written by `Location.to_idf` -/
def locFields (l : Loc ν) : List τ := [ofStr l.city, ofNum l.lat, ofNum l.lon, ofNum l.tz, ofNum l.elev]

def optNum (t : τ) : Except Err ν :=
  if text t == "" then pure zero
  else match (num? t : Option ν) with
    | some x => .ok x
    | none => .error .value

/-- `Location.from_idf` after `ep_fields.pop(0)`. -/
def locFromFields (f : List τ) : Except Err (Loc ν) := do
  let city ← strFld f 0
  let lat ← fld f 1
  let lon ← fld f 2
  let tz ← fld f 3
  let el ← fld f 4
  let latv : ν ← optNum lat
  check (between (-90) latv 90)
  let lonv : ν ← optNum lon
  check (between (-180) lonv 180)
  let tzv : ν ← match (num? tz : Option ν) with
    | some x => pure x
    | none => throw Err.value
  check (between (-12) tzv 14)
  let elv : ν ← optNum el
  pure ⟨if city == "" then "-" else city, latv, lonv, tzv, elv⟩

/-! ### DDY file = location followed by the design days (object level) -/

structure DDY (ν : Type) where
  loc : Loc ν
  days : List (DesignDay ν)
deriving DecidableEq, Repr

/-- Object level of `DDY.to_file_string`: one field list per IDF object. -/
def ddyObjects (y : DDY ν) (tail : τ) : List τ × List (List τ) :=
  (locFields y.loc, y.days.map fun d => writtenFields d tail)

/-- Object level of `DDY.from_ddy_file`: first location object, every design-day object, in order. -/
def ddyFromObjects (o : List τ × List (List τ)) : Except Err (DDY ν) := do
  let loc ← locFromFields o.1
  let days ← o.2.mapM fromIdfFields
  pure ⟨loc, days⟩

/-! ### `from_ashrae_dict_heating` / `from_ashrae_dict_cooling` -/

def lookup (kv : List (String × τ)) (k : String) : Except Err τ :=
  match kv.find? (·.1 == k) with
  | some p => .ok p.2
  | none => .error .index          -- KeyError (reported as the enum `index` here)

def numKey (kv : List (String × τ)) (k : String) : Except Err ν := do
  let s ← lookup kv k
  match (num? s : Option ν) with
  | some x => .ok x
  | none => .error .value

def monthDate (kv : List (String × τ)) : Except Err Cal.D := do
  let s ← lookup kv "Month"
  match int? s with
  | none => .error .value
  | some m =>
    match Cal.D.make m 21 false with
    | .ok d => .ok d
    | .error _ => .error .value

/-- `DesignDay.from_ashrae_dict_heating(dict, location, use_990, pressure)`; `city` is `location.city`. -/
def fromAshraeHeating (kv : List (String × τ)) (city : String) (use990 : Bool) (pressure : ν) :
    Except Err (DesignDay ν) := do
  let dbKey := if use990 then "DB990" else "DB996"
  let perc := if use990 then "99" else "99.6"
  let db : ν ← numKey kv dbKey
  let wb : ν ← numKey kv dbKey
  let ws : ν ← numKey kv "WS_DB996"
  let wd : ν ← numKey kv "WD_DB996"
  check (between 0 wd 360)
  let date ← monthDate kv
  pure { name := city ++ " Heating Design Day " ++ perc ++ "% Condns DB", dayType := "WinterDesignDay",
         db := ⟨db, zero, "DefaultMultipliers", ""⟩,
         hum := ⟨.wetbulb, wb, pressure, false, false, "", .blank⟩,
         wind := ⟨ws, wd⟩, sky := ⟨date, false, .clear zero⟩ }

/-- `DesignDay.from_ashrae_dict_cooling(dict, location, use_010, pressure, tau)`; `one` is the default
    clearness `1` of `ASHRAEClearSky(date)`. -/
def fromAshraeCooling (kv : List (String × τ)) (city : String) (use010 : Bool) (pressure : ν)
    (tau : Option (ν × ν)) (one : ν) : Except Err (DesignDay ν) := do
  let dbKey := if use010 then "DB010" else "DB004"
  let wbKey := if use010 then "WB_DB010" else "WB_DB004"
  let perc := if use010 then "1" else "0.4"
  let db : ν ← numKey kv dbKey
  let rng : ν ← numKey kv "DBR"
  check (decide (0 ≤ toRat rng))
  let wb : ν ← numKey kv wbKey
  let ws : ν ← numKey kv "WS_DB004"
  let wd : ν ← numKey kv "WD_DB004"
  check (between 0 wd 360)
  let date ← monthDate kv
  let kind : SkyKind ν := match tau with
    | some (b, t) => .tau b t false
    | none => .clear one
  pure { name := city ++ " Cooling Design Day " ++ perc ++ "% Condns DB=>MWB", dayType := "SummerDesignDay",
         db := ⟨db, rng, "DefaultMultipliers", ""⟩,
         hum := ⟨.wetbulb, wb, pressure, false, false, "", .blank⟩,
         wind := ⟨ws, wd⟩, sky := ⟨date, false, kind⟩ }

end idf

/-! ### character level (executable; tied by correspondence only) -/

/-- Python `str.strip()` / `\s` whitespace (ASCII part). -/
def isWs (c : Char) : Bool := c == ' ' || c == '\t' || c == '\n' || c == '\r' || c == '\x0b' || c == '\x0c'

def strip (s : String) : String :=
  String.ofList ((s.toList.dropWhile isWs).reverse.dropWhile isWs).reverse

/-- `re.sub(r'!.*\n', '', s)`: on every line that ends with a newline, the text from the first `!` up to
    and including the newline is removed; the text after the last newline is kept. -/
def removeComments (s : String) : String :=
  let parts := s.splitOn "\n"
  let n := parts.length
  let rec go (i : Nat) (ps : List String) : List String :=
    match ps with
    | [] => []
    | p :: rest =>
      if i + 1 = n then [p]                     -- after the last newline
      else
        match p.splitOn "!" with
        | [_] => (p ++ "\n") :: go (i + 1) rest
        | a :: _ => a :: go (i + 1) rest
        | [] => go (i + 1) rest
  String.join (go 0 parts)

/-- `strip`, `replace(';', ',')`, comment removal, `split(',')`, `strip` of each field. -/
def lexIdf (s : String) : List String :=
  ((removeComments ((strip s).replace ";" ",")).splitOn ",").map strip

/-- One rendered line of `to_idf`: `'  {},{}{}\n'.format(str(val), ' ' * (60 - len(str(val))), comment)`. -/
def renderLine (val comment : String) : String :=
  "  " ++ val ++ "," ++ String.ofList (List.replicate (60 - val.length) ' ') ++ comment ++ "\n"

/-- `DesignDay.to_idf()` text from the value list; `none` = IndexError (more values than comments). -/
def renderIdf (vals : List String) : Option String :=
  if idfComments.length < vals.length then none
  else
    let ls := (vals.zip idfComments).map fun p => renderLine p.1 p.2
    let ls := match ls.reverse with
      | [] => []                 -- (not reachable: `commented_str[-1]` of an empty list raises)
      | last :: front => (last.replace "," ";" :: front).reverse
    some (String.join ("SizingPeriod:DesignDay,\n" :: ls ++ ["\n"]))

section chars
variable {τ ν : Type} [NumVal ν] [Tok τ ν]
open Tok

/-- `DesignDay.to_idf()` text (`τ` names the token instance that prints the numbers). -/
def toIdf (τ : Type) {ν : Type} [NumVal ν] [Tok τ ν] (d : DesignDay ν) : Option String :=
  renderIdf ((toIdfFields d : List τ).map text)

/-- `DesignDay.from_idf(text, location)` (the location is passed through untouched). -/
def fromIdf (τ : Type) {ν : Type} [NumVal ν] [Tok τ ν] (s : String) : Except Err (DesignDay ν) :=
  if (strip s).startsWith "SizingPeriod:DesignDay" then fromIdfFields ((lexIdf s).map (ofStr : String → τ))
  else .error .assert

/-- `Location.to_idf()`. -/
def locToIdf (τ : Type) {ν : Type} [NumVal ν] [Tok τ ν] (l : Loc ν) : String :=
  let r := fun (x : ν) => text (ofNum x : τ)
  "Site:Location,\n  " ++ l.city ++ ",\n  " ++ r l.lat ++ ",      !Latitude\n  " ++
    r l.lon ++ ",     !Longitude\n  " ++ r l.tz ++ ",     !Time Zone\n  " ++
    r l.elev ++ ";       !Elevation"

def locFromIdf (τ : Type) {ν : Type} [NumVal ν] [Tok τ ν] (s : String) : Except Err (Loc ν) :=
  if (strip s).startsWith "Site:Location" then
    locFromFields (((lexIdf s).drop 1).map (ofStr : String → τ))
  else .error .assert

end chars

/-- End of one regex match `KW,(.|\n)*?((;\s*!)|(;\s*\n)|(;\n))` scanning `cs` (the text after the keyword):
    returns (matched text, remaining text).  `fuel` bounds the scan by the text length. -/
def scanObject : Nat → List Char → List Char → Option (List Char × List Char)
  | 0, _, _ => none
  | _ + 1, _, [] => none
  | fuel + 1, acc, c :: rest =>
    if c == ';' then
      let ws := rest.takeWhile isWs
      let after := rest.dropWhile isWs
      match after with
      | '!' :: more => some ((acc.reverse ++ c :: ws) ++ ['!'], more)
      | _ =>
        if ws.contains '\n' then
          -- greedy `\s*` backtracks to the last newline of the whitespace run
          let keep := (ws.reverse.dropWhile (· != '\n')).reverse
          some (acc.reverse ++ c :: keep, rest.drop keep.length)
        else scanObject fuel (c :: acc) rest
    else scanObject fuel (c :: acc) rest

/-- `re.findall` of the object pattern for keyword `kw` (e.g. `SizingPeriod:DesignDay,`): the matched
    texts in order, non-overlapping. -/
def findObjects (kw : String) (text : String) : List String :=
  let k := kw.toList
  let rec go (fuel : Nat) (cs : List Char) : List String :=
    match fuel with
    | 0 => []
    | fuel + 1 =>
      match cs with
      | [] => []
      | _ :: tl =>
        if k.isPrefixOf cs then
          match scanObject (cs.length + 1) [] (cs.drop k.length) with
          | some (m, rest) => String.ofList (k ++ m) :: go fuel rest
          | none => []          -- no terminator further on: no later match either
        else go fuel tl
  go (text.length + 1) text.toList

section ddyfile

/-- `DDY.to_file_string()`. -/
def ddyToString (τ : Type) {ν : Type} [NumVal ν] [Tok τ ν] (y : DDY ν) : Option String := do
  let ds ← y.days.mapM fun d => toIdf τ d
  pure (locToIdf τ y.loc ++ "\n\n" ++ String.join (ds.map fun s => s ++ "\n\n"))

/-- `DDY.from_ddy_file` on the file text. -/
def ddyFromString (τ : Type) {ν : Type} [NumVal ν] [Tok τ ν] (text : String) : Except Err (DDY ν) :=
  match findObjects "Site:Location," text, findObjects "SizingPeriod:DesignDay," text with
  | [], _ => .error .assert
  | _, [] => .error .assert
  | l :: _, ds => do
    let loc ← locFromIdf τ l
    let days ← ds.mapM fun s => fromIdf τ s
    pure ⟨loc, days⟩

end ddyfile

end DD
