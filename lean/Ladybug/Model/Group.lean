/-
  Model of the calendar grouping of ladybug/datacollection.py (C03).  Hand-written from the code;
  polymorphic in the value type `α` (the functions only move values around).  No Mathlib.

    * `Dict`                               `OrderedDict` whose values are lists
    * `keyed`                              the datetime-keyed algorithm of HourlyDiscontinuousCollection
                                           (`d[key(dt)].append(v)`; missing key = KeyError)
    * `discDay / discMonth / discMph`      `HourlyDiscontinuousCollection.group_by_day / _month / _month_per_hour`
    * `contDay / contMonth`                the slice arithmetic of `HourlyContinuousCollection.group_by_day / _month`
    * `dailyMonth`                         `DailyCollection.group_by_month`
    * `intervalOp`                         the loop of `_time_interval_operation` / `_monthly_operation`
                                           (`for i in dates: vals = d[i]; if vals != []: …`)

  The model describes the code WITH the repairs fixes/C03_1 … C03_5 applied:
    1. continuous `group_by_month` slices `[indx : indx + interval]` (was `+ 1`: one value too many),
    2. a month visited twice by a period that wraps the year end inside one month is extended, not overwritten,
    3. continuous `group_by_day` of a wrapping period starts the second loop after the last day of the year
       (was: 1 Jan received the data of 31 Dec and a phantom extra day appeared) and knows leap years,
    4. the day dictionaries have the keys `1 .. 366` in leap years (was: KeyError on 31 Dec),
    5. `DailyCollection.group_by_month` uses the leap flag of the header (was: always the normal year).

  Correspondence ops: Drv/C03.lean (harness/props/c03.py).  Theorems: Props/C03.lean.
-/
import Ladybug.Py
import Ladybug.Model.Cal
import Ladybug.Model.AP

open Cal

namespace Grp

inductive Err where
  | key      -- KeyError
  | value    -- ValueError
  | index    -- IndexError
  | assert   -- AssertionError
deriving DecidableEq, Repr

/-- `OrderedDict` with list values: keys in insertion order. -/
abbrev Dict (κ : Type) (α : Type) := List (κ × List α)

/-- `d = OrderedDict(); for k in keys: d[k] = []`. -/
def Dict.init {κ α : Type} (keys : List κ) : Dict κ α := keys.map fun k => (k, [])

/-- `d[k]` (`none` = KeyError). -/
def Dict.get? {κ α : Type} [DecidableEq κ] : Dict κ α → κ → Option (List α)
  | [], _ => none
  | (k', l) :: rest, k => if k' = k then some l else Dict.get? rest k

/-- `d[k]` for a key known to be present (`[]` otherwise; used only after `Dict.init`). -/
def Dict.getD {κ α : Type} [DecidableEq κ] (d : Dict κ α) (k : κ) : List α := (d.get? k).getD []

/-- `d[k].append(v)`; `none` = KeyError. -/
def Dict.append {κ α : Type} [DecidableEq κ] : Dict κ α → κ → α → Option (Dict κ α)
  | [], _, _ => none
  | (k', l) :: rest, k, v =>
    if k' = k then some ((k', l ++ [v]) :: rest)
    else (Dict.append rest k v).map fun r => (k', l) :: r

/-- `d[k] = l`: replaces in place, a new key goes to the end. -/
def Dict.set {κ α : Type} [DecidableEq κ] : Dict κ α → κ → List α → Dict κ α
  | [], k, l => [(k, l)]
  | (k', l') :: rest, k, l => if k' = k then (k', l) :: rest else (k', l') :: Dict.set rest k l

/-! ### Datetime-keyed grouping (HourlyDiscontinuousCollection) -/

/-- One step `d[key(dt)].append(v)` (KeyError when the key is missing). -/
def keyedStep {κ τ α : Type} [DecidableEq κ] (key : τ → κ) (d : Dict κ α) (x : τ × α) :
    Except Err (Dict κ α) :=
  match d.append (key x.1) x.2 with
  | some d' => .ok d'
  | none => .error .key

/-- `for v, dt in zip(values, datetimes): d[key(dt)].append(v)` starting from empty lists for `keys`. -/
def keyed {κ τ α : Type} [DecidableEq κ] (keys : List κ) (key : τ → κ) (data : List (τ × α)) :
    Except Err (Dict κ α) :=
  data.foldlM (keyedStep key) (Dict.init keys)

/-- Keys of the day dictionaries: `xrange(1, 367 if leap else 366)` (repair 4). -/
def dayKeys (leap : Bool) : List Nat := List.range' 1 (daysInYear leap)

/-- Keys of the month dictionaries: `xrange(1, 13)`. -/
def monthKeys : List Nat := List.range' 1 12

/-- Keys of `group_by_month_per_hour`:
    `(m, int(h / t_step), int((h % t_step) * (60 / t_step)))` for `m in 1..12`, `h in range(24 * t_step)`. -/
def mphKeys (ts : Nat) : List (Nat × Nat × Nat) :=
  monthKeys.flatMap fun m => (List.range (24 * ts)).map fun h => (m, h / ts, h % ts * (60 / ts))

/-- `HourlyDiscontinuousCollection.group_by_day` (header period `ap`, pairs `(datetime, value)`). -/
def discDay {α : Type} (ap : AP) (data : List (DT × α)) : Except Err (Dict Nat α) :=
  keyed (dayKeys ap.leap) DT.doy data

/-- `HourlyDiscontinuousCollection.group_by_month`. -/
def discMonth {α : Type} (data : List (DT × α)) : Except Err (Dict Nat α) :=
  keyed monthKeys DT.month data

/-- `HourlyDiscontinuousCollection.group_by_month_per_hour`. -/
def discMph {α : Type} (ap : AP) (data : List (DT × α)) : Except Err (Dict (Nat × Nat × Nat) α) :=
  keyed (mphKeys ap.timestep) (fun d => (d.month, d.hour, d.minute)) data

/-! ### Slice-based grouping (HourlyContinuousCollection) -/

/-- Python `range(a, b, s)` for `s > 0` (`s = 0` raises in Python; no period has timestep 0). -/
def pyRange (a b s : Nat) : List Nat := if s = 0 then [] else List.range' a ((b - a + s - 1) / s) s

/-- `vals[i : i + n]`. -/
def sliceLen {α : Type} (vals : List α) (i n : Nat) : List α := (vals.drop i).take n

/-- `for i in <is>: d[start_doy] = values[i:i + indx_per_day]; start_doy += 1`. -/
def assignDays {α : Type} (ipd : Nat) (vals : List α) : List Nat → Nat → Dict Nat α → Dict Nat α
  | [], _, d => d
  | i :: is, start, d => assignDays ipd vals is (start + 1) (d.set start (sliceLen vals i ipd))

/-- `HourlyContinuousCollection.group_by_day` (repairs 3 and 4). -/
def contDay {α : Type} (ap : AP) (vals : List α) : Dict Nat α :=
  let ipd := 24 * ap.timestep
  let start := AP.doyOf ap.leap ap.st_month ap.st_day
  let d0 : Dict Nat α := Dict.init (dayKeys ap.leap)
  if ap.isReversed = false then
    assignDays ipd vals (pyRange 0 vals.length ipd) start d0
  else
    let endInd := ipd * (daysInYear ap.leap - start + 1)
    let d1 := assignDays ipd vals (pyRange 0 endInd ipd) start d0
    assignDays ipd vals (pyRange endInd vals.length ipd) 1 d1

/-- The `for mon in a_per_months[1:]` loop: `d[mon] = d[mon] + values[indx:indx + interval]; indx += interval`
    (repairs 1 and 2). -/
def assignMonths {α : Type} (nd : List Nat) (ts : Nat) (vals : List α) :
    List Nat → Nat → Dict Nat α → Dict Nat α
  | [], _, d => d
  | mon :: ms, indx, d =>
    let interval := nd.getD (mon - 1) 0 * 24 * ts
    assignMonths nd ts vals ms (indx + interval) (d.set mon (d.getD mon ++ sliceLen vals indx interval))

/-- `HourlyContinuousCollection.group_by_month` (repairs 1 and 2).  `months_int` is never empty
    for a constructed period; the `[]` branch stands for the `IndexError` of `a_per_months[0]`. -/
def contMonth {α : Type} (ap : AP) (vals : List α) : Except Err (Dict Nat α) :=
  let nd := AP.numDaysTable ap.leap
  let d0 : Dict Nat α := Dict.init monthKeys
  match ap.monthsInt with
  | [] => .error .index
  | m0 :: rest =>
    -- 24 * timestep * abs(st_day - 1 - num_of_days[m0 - 1])
    let indx := 24 * ap.timestep * ((ap.st_day : Int) - 1 - (nd.getD (m0 - 1) 0 : Nat)).natAbs
    .ok (assignMonths nd ap.timestep vals rest indx (d0.set m0 (vals.take indx)))

/-! ### DailyCollection.group_by_month -/

/-- Month of day number `doy`: `DateTime.from_hoy((doy - 1) * 24 + 1, leap).month` (repair 5). -/
def monthOfDoy (leap : Bool) (doy : Nat) : Except Err Nat :=
  match fromMoy leap ((((doy : Int) - 1) * 24 + 1) * 60) with
  | .ok d => .ok d.month
  | .error _ => .error .value

/-- One step of `DailyCollection.group_by_month`. -/
def dailyStep {α : Type} (leap : Bool) (d : Dict Nat α) (x : Nat × α) : Except Err (Dict Nat α) :=
  match monthOfDoy leap x.1 with
  | .error e => .error e
  | .ok m => match d.append m x.2 with
    | some d' => .ok d'
    | none => .error .key

/-- `DailyCollection.group_by_month` on pairs `(doy, value)`. -/
def dailyMonth {α : Type} (leap : Bool) (data : List (Nat × α)) : Except Err (Dict Nat α) :=
  data.foldlM (dailyStep leap) (Dict.init monthKeys)

/-! ### `_time_interval_operation` / `_monthly_operation` -/

/-- One step of the loop below. -/
def intervalStep {κ α β : Type} [DecidableEq κ] (d : Dict κ α) (funct : List α → Except Err β)
    (acc : List (κ × β)) (i : κ) : Except Err (List (κ × β)) :=
  match d.get? i with
  | none => .error .key
  | some [] => .ok acc
  | some (v :: vs) =>
    match funct (v :: vs) with
    | .ok r => .ok (acc ++ [(i, r)])
    | .error e => .error e

/-- `for i in dates: vals = d[i]; if vals != []: new_data.append(funct(vals)); d_times.append(i)`.
    `funct` may fail (it does not on non-empty groups). -/
def intervalOp {κ α β : Type} [DecidableEq κ] (d : Dict κ α) (dates : List κ)
    (funct : List α → Except Err β) : Except Err (List (κ × β)) :=
  dates.foldlM (intervalStep d funct) []

/-- The constructor of the result collection (`DailyCollection(header, new_data, d_times)` …):
    `_check_values` asserts that there is at least one value. -/
def resultCollection {κ β : Type} (l : List (κ × β)) : Except Err (List (κ × β)) :=
  if l.isEmpty then .error .assert else .ok l

/-- The groups used by `average_/total_/percentile_daily` etc.: the listing of the header period. -/
inductive Interval where
  | daily | monthly | monthlyPerHour
deriving DecidableEq, Repr

/-- Header timestep of the result: sub-hourly daily/monthly results get a period with timestep 1. -/
def resultTimestep (ap : AP) (iv : Interval) : Nat :=
  if ap.timestep ≠ 1 ∧ (iv = .monthly ∨ iv = .daily) then 1 else ap.timestep

/-! ### Unit tests -/

#guard (Dict.init [1, 2, 3] : Dict Nat Nat).append 2 7 = some [(1, []), (2, [7]), (3, [])]
#guard (Dict.init [1, 2, 3] : Dict Nat Nat).append 4 7 = none
#guard (Dict.init [1, 2] : Dict Nat Nat).set 3 [5] = [(1, []), (2, []), (3, [5])]
#guard pyRange 0 10 4 = [0, 4, 8]
#guard pyRange 0 8 4 = [0, 4]
#guard pyRange 5 5 4 = []
#guard (mphKeys 2).take 3 = [(1, 0, 0), (1, 0, 30), (1, 1, 0)]
#guard (mphKeys 2).length = 576
-- AP(1,30,0,3,2,23): Jan 2 days, Feb 28, Mar 2
#guard ((contMonth ⟨1, 30, 0, 3, 2, 23, 1, false⟩ (List.range 768)).toOption.map fun d =>
  d.map fun p => (p.1, p.2.length)) = some [(1, 48), (2, 672), (3, 48), (4, 0), (5, 0), (6, 0), (7, 0),
    (8, 0), (9, 0), (10, 0), (11, 0), (12, 0)]
-- wrapping AP(12,26,0,1,3,23): 1 Jan gets values 144.., no day 4
#guard ((contDay ⟨12, 26, 0, 1, 3, 23, 1, false⟩ (List.range 216)).filter (·.2 ≠ [])).map
  (fun p => (p.1, p.2.head?, p.2.length)) =
  [(1, some 144, 24), (2, some 168, 24), (3, some 192, 24), (360, some 0, 24), (361, some 24, 24),
   (362, some 48, 24), (363, some 72, 24), (364, some 96, 24), (365, some 120, 24)]
#guard monthOfDoy true 60 = .ok 2
#guard monthOfDoy false 60 = .ok 3
#guard monthOfDoy false 366 = .error .value

end Grp
