/-
  Executable model of ladybug/legend.py `Legend`, `LegendParameters`,
  `LegendParametersCategorized` (the parts anchored by C15).  No Mathlib.

  Modelled as the code is:
    * parameter setters: `min <= max` asserted when both are given; `segment_count >= 1`, default 11
      (flag `is_segment_count_default`); `colors`: default `Colorset.original()`, at least 2;
      categorised parameters: sorted non-empty domain, `min/max` = first/last boundary,
      `segment_count = len(domain) + 1`, `len(colors) = len(names) = len(domain) + 1`,
      `include_larger_smaller` defaults to True (False for plain parameters), `continuous_colors`
      defaults to False;
    * `Legend.__init__`: non-empty values; missing `min` := `min(values)` (through the setter: it
      is asserted against a given `max`), then missing `max` := `max(values)` (asserted against
      `min`); `segment_count := 1` when `min == max`, not categorised and the count is default;
    * `segment_numbers`: `min + i * step`, `step = (max - min) / (count - 1)` (`ZeroDivisionError` -> 0);
    * `color_range`: `ColorRange(colors, (min, max))`, or the categorised domain/colours/flag;
    * `segment_colors`, `value_colors`, `segment_text` (number format `%.nf`, `<`/`>` marks, ordinal
      dictionary lookup, category names), `segment_length`, `_segment_point_scene_2d`
      (`_frange` loops, exact arithmetic), `_segment_mesh_2d` (face/vertex/colour counts; a mesh
      with 0 faces is refused by ladybug_geometry).
-/
import Ladybug.Model.Color

namespace Leg

open Col

/-- Categorised part of `LegendParametersCategorized`. -/
structure Cat where
  domain : List Rat              -- sorted
  names : Option (List String)
  continuousColors : Bool
  deriving DecidableEq, Repr

/-- Legend parameters after their own constructor/setters ran. -/
structure Par where
  min : Option Rat
  max : Option Rat
  segCount : Nat
  segCountDefault : Bool
  colors : List RGB
  continuousLegend : Bool
  vertical : Bool
  decimalCount : Nat
  includeLS : Bool
  ordinal : Option (List (Int × String))
  segHeight : Option Rat
  segWidth : Option Rat
  textHeight : Option Rat
  cat : Option Cat
  deriving DecidableEq, Repr

/-- `LegendParameters(min, max, segment_count, colors)` plus the later setters, in the order the
    constructor runs them. -/
def Par.mkPlain (mn mx : Option Rat) (sc : Option Nat) (cols : Option (List RGB))
    (contLegend vertical : Bool) (dc : Nat) (ils : Bool) (ordinal : Option (List (Int × String)))
    (sh sw th : Option Rat) : Except Err Par :=
  let okMinMax : Bool := match mn, mx with
    | some a, some b => decide (a ≤ b)
    | _, _ => true
  if ¬ okMinMax then .error .assert
  else if sc = some 0 then .error .assert
  else
    let colors := cols.getD defaultColors
    if colors.length ≤ 1 then .error .assert
    else if sh.any (fun x => decide (x ≤ 0)) ∨ sw.any (fun x => decide (x ≤ 0))
        ∨ th.any (fun x => decide (x ≤ 0)) then .error .assert
    else .ok { min := mn, max := mx, segCount := sc.getD 11, segCountDefault := sc.isNone,
               colors := colors, continuousLegend := contLegend, vertical := vertical,
               decimalCount := dc, includeLS := ils, ordinal := ordinal,
               segHeight := sh, segWidth := sw, textHeight := th, cat := none }

/-- `LegendParametersCategorized(domain, colors, category_names)` plus the later setters. -/
def Par.mkCat (dom : List Rat) (cols : List RGB) (names : Option (List String))
    (contColors : Option Bool) (contLegend vertical : Bool) (dc : Nat) (ils : Option Bool)
    (sh sw th : Option Rat) : Except Err Par :=
  let d := sortDom dom
  if d.isEmpty then .error .assert
  else if cols.length ≠ d.length + 1 then .error .assert
  else if names.any (fun ns => ns.length ≠ d.length + 1) then .error .assert
  else if sh.any (fun x => decide (x ≤ 0)) ∨ sw.any (fun x => decide (x ≤ 0))
      ∨ th.any (fun x => decide (x ≤ 0)) then .error .assert
  else .ok { min := d[0]?, max := d.getLast?, segCount := d.length + 1, segCountDefault := true,
             colors := cols, continuousLegend := contLegend, vertical := vertical,
             decimalCount := dc, includeLS := ils.getD true, ordinal := none,
             segHeight := sh, segWidth := sw, textHeight := th,
             cat := some ⟨d, names, contColors.getD false⟩ }

/-- Python `min(values)` / `max(values)`. -/
def minList : List Rat → Option Rat
  | [] => none
  | x :: xs => some (xs.foldl (fun m y => if y < m then y else m) x)

def maxList : List Rat → Option Rat
  | [] => none
  | x :: xs => some (xs.foldl (fun m y => if m < y then y else m) x)

/-- A legend after `Legend.__init__`: resolved minimum, maximum and segment count. -/
structure Legend where
  values : List Rat
  par : Par
  min : Rat
  max : Rat
  segCount : Nat
  isMinDefault : Bool
  isMaxDefault : Bool
  deriving DecidableEq, Repr

/-- `Legend(values, legend_parameters)`. -/
def Legend.make (values : List Rat) (p : Par) : Except Err Legend :=
  match minList values, maxList values with
  | some vmin, some vmax =>
    let mn := p.min.getD vmin
    -- `legend_par.min = min(values)` runs the setter's assertion against a given max
    if p.min.isNone ∧ p.max.any (fun b => decide (b < mn)) then .error .assert
    else
      let mx := p.max.getD vmax
      if p.max.isNone ∧ mx < mn then .error .assert
      else
        let sc := if mn = mx ∧ p.cat.isNone ∧ p.segCountDefault then 1 else p.segCount
        .ok ⟨values, p, mn, mx, sc, p.min.isNone, p.max.isNone⟩
  | _, _ => .error .assert

/-- `Legend.segment_numbers`. -/
def Legend.segmentNumbers (l : Legend) : List Rat :=
  let step : Rat := if l.segCount = 1 then 0 else (l.max - l.min) / ((l.segCount : Rat) - 1)
  (List.range l.segCount).map fun (i : Nat) => l.min + (i : Rat) * step

/-- `Legend.color_range`. -/
def Legend.colorRange (l : Legend) : Except Err ColorRange :=
  match l.par.cat with
  | some c => ColorRange.make l.par.colors c.domain c.continuousColors
  | none => ColorRange.make l.par.colors [l.min, l.max] true

/-- `Legend.value_colors`. -/
def Legend.valueColors (l : Legend) : Except Err (List RGB) :=
  match l.colorRange with
  | .ok cr => l.values.mapM cr.color
  | .error e => .error e

/-- `Legend.segment_colors`. -/
def Legend.segmentColors (l : Legend) : Except Err (List RGB) :=
  match l.par.cat with
  | some _ => .ok l.par.colors
  | none =>
    match l.colorRange with
    | .ok cr => l.segmentNumbers.mapM cr.color
    | .error e => .error e

/-- `Legend.segment_length`: number of mesh cells. -/
def Legend.segmentLength (l : Legend) : Nat :=
  if l.par.continuousLegend then l.segCount - 1 else l.segCount

/-- Left-pad with zeros to width `n`. -/
def zpad (n : Nat) (s : String) : String := String.ofList (List.replicate (n - s.length) '0') ++ s

/-- Token level of `'%.nf' % x`: the sign and the magnitude in units of `10^-n`, rounded half to
    even on the exact value (what C's `printf` does with the exact binary value of a float). -/
def fmtToken (x : Rat) (n : Nat) : Bool × Nat :=
  let neg := decide (x < 0)
  let a := if neg then -x else x
  (neg, (Py.round (a * Py.pow10 n)).toNat)

/-- The number a label token denotes. -/
def tokenValue (t : Bool × Nat) (n : Nat) : Rat :=
  (if t.1 then -1 else 1) * ((t.2 : Rat) / Py.pow10 n)

/-- Character level: sign, integer digits, `.`, `n` zero-padded fraction digits. -/
def renderToken (t : Bool × Nat) (n : Nat) : String :=
  let ip := t.2 / 10 ^ n
  let fp := t.2 % 10 ^ n
  let s := toString ip ++ (if n = 0 then "" else "." ++ zpad n (toString fp))
  if t.1 then "-" ++ s else s

/-- Python `'%.nf' % x` on an exact value. -/
def fmtFixed (x : Rat) (n : Nat) : String := renderToken (fmtToken x n) n

/-- `seg_txt[0] = '<' + seg_txt[0]; seg_txt[-1] = '>' + seg_txt[-1]` (sequential, so a single
    label gets both marks). -/
def markEnds (t : List String) : List String :=
  let t1 := match t with
    | [] => []
    | x :: xs => ("<" ++ x) :: xs
  match t1.reverse with
  | [] => []
  | y :: ys => ((">" ++ y) :: ys).reverse

/-- `ordinal_dictionary[x]` with a number key: found iff `x` equals an integer key. -/
def ordLookup (d : List (Int × String)) (x : Rat) : String :=
  match d.find? (fun kv => decide ((kv.1 : Rat) = x)) with
  | some kv => kv.2
  | none => ""

/-- `LegendParametersCategorized.category_names` when no names were given. -/
def catNames (dom : List Rat) (dc : Nat) (ils : Bool) : List String :=
  let nums := dom.map (fmtFixed · dc)
  let mids := (List.range (nums.length - 1)).map fun i =>
    nums[i]?.getD "" ++ " - " ++ nums[i + 1]?.getD ""
  let first := nums[0]?.getD ""
  let last := nums.getLast?.getD ""
  if ils then ["<" ++ first] ++ mids ++ [">" ++ last] else [first] ++ mids ++ [last]

/-- `Legend.segment_text`. -/
def Legend.segmentText (l : Legend) : List String :=
  match l.par.cat with
  | some c =>
    match c.names with
    | some ns => ns
    | none => catNames c.domain l.par.decimalCount l.par.includeLS
  | none =>
    match l.par.ordinal with
    | none =>
      let t := l.segmentNumbers.map (fmtFixed · l.par.decimalCount)
      if l.par.includeLS then markEnds t else t
    | some d => l.segmentNumbers.map (ordLookup d)

/-- `Legend._frange(start, stop, step)` in exact arithmetic (`step > 0` is guaranteed by the
    setters of the segment dimensions). -/
def frange (start stop step : Rat) : List Rat :=
  if step ≤ 0 then []
  else (List.range ((stop - start) / step).ceil.toNat).map fun (i : Nat) => start + (i : Rat) * step

def Legend.segH (l : Legend) : Rat := l.par.segHeight.getD 1

/-- `text_height` (default `segment_height * 0.33`). -/
def Legend.textH (l : Legend) : Rat := l.par.textHeight.getD (l.segH * (33 / 100))

/-- `segment_width`: a default width of a horizontal legend reads `text_height * 5`. -/
def Legend.segW (l : Legend) : Rat :=
  match l.par.segWidth with
  | some w => w
  | none => if l.par.vertical then 1 else l.textH * 5

/-- `Legend._segment_point_scene_2d`: the 2D points of the segment labels. -/
def Legend.textPoints (l : Legend) : List (Rat × Rat) :=
  if l.par.vertical then
    (frange 0 (l.segH * l.segCount) l.segH).map fun i => (l.segW + l.textH * (1 / 4), i)
  else
    let start := -l.segW * (l.segmentLength : Rat)
    (frange 0 (l.segW * l.segCount) l.segW).map fun i => (start + i, -l.textH * (5 / 4))

/-- Colours handed to the mesh: per face for discrete legends, per vertex for gradient legends. -/
def Legend.meshColors (l : Legend) (sc : List RGB) : List RGB :=
  if ¬ l.par.continuousLegend then sc
  else if l.par.vertical then sc ++ sc
  else sc.flatMap fun c => [c, c]

/-- `Legend._segment_mesh_2d`: (faces, vertices, colours) of the legend mesh. -/
def Legend.mesh (l : Legend) : Except Err (Nat × Nat × List RGB) :=
  if l.segmentLength = 0 then .error .assert            -- "Mesh must have at least one face."
  else
    match l.segmentColors with
    | .error e => .error e
    | .ok sc =>
      if (l.meshColors sc).length = l.segmentLength ∨
          (l.meshColors sc).length = 2 * (l.segmentLength + 1) then
        .ok (l.segmentLength, 2 * (l.segmentLength + 1), l.meshColors sc)
      else .error .assert

/-! ### graphic.py `GraphicContainer` (without a data type) -/

/-- `GraphicContainer(values, min_point, max_point, legend_parameters)`: builds its own `Legend`
    and then fills in the default 3D dimensions from the bounding box (`min_point`, `max_point` as
    x/y pairs): segment height = box height / max(count, 8) (vertical; box width if that is 0), or
    box width / (2 max(count, 8)) (horizontal; box height / max(count, 8) if that is 0) — the setter
    asserts it positive; the default width of a vertical legend becomes half the segment height. -/
structure Graphic where
  legend : Legend
  deriving DecidableEq, Repr

/-- The segment height a `GraphicContainer` uses (`count` = the legend's segment count). -/
def graphicSegH (p : Par) (count : Nat) (minX minY maxX maxY : Rat) : Rat :=
  let denom : Rat := if 8 ≤ count then (count : Rat) else 8
  match p.segHeight with
  | some h => h
  | none =>
    if p.vertical then
      (if (maxY - minY) / denom = 0 then (maxX - minX) / denom else (maxY - minY) / denom)
    else
      (if (maxX - minX) / (denom * 2) = 0 then (maxY - minY) / denom
       else (maxX - minX) / (denom * 2))

/-- The stored segment width a `GraphicContainer` leaves behind. -/
def graphicSegW (p : Par) (h : Rat) : Option Rat :=
  match p.segWidth with
  | some w => some w
  | none => if p.vertical then some (h / 2) else none

/-- The legend with the container's dimensions filled in. -/
def Legend.withDims (l : Legend) (h : Rat) (w : Option Rat) : Legend :=
  { l with par := { l.par with segHeight := some h, segWidth := w } }

def Graphic.make (values : List Rat) (p : Par) (minX minY maxX maxY : Rat) : Except Err Graphic :=
  match Legend.make values p with
  | .error e => .error e
  | .ok l =>
    if graphicSegH p l.segCount minX minY maxX maxY ≤ 0 then .error .assert
    else .ok ⟨l.withDims (graphicSegH p l.segCount minX minY maxX maxY)
      (graphicSegW p (graphicSegH p l.segCount minX minY maxX maxY))⟩

/-- `GraphicContainer.value_colors`. -/
def Graphic.valueColors (g : Graphic) : Except Err (List RGB) := g.legend.valueColors

/-! Unit tests: the three docstring examples of legend.py. -/

private def mk (vals : List Rat) (p : Except Err Par) : Except Err Legend :=
  p.bind (Legend.make vals)

private def ex1 := mk [0, 1, 2, 3, 4, 5, 6, 7, 8, 9]
  (Par.mkPlain none none (some 6) none false true 2 false none none none none)

#guard ex1.map (·.segmentText) = .ok ["0.00", "1.80", "3.60", "5.40", "7.20", "9.00"]
#guard ex1.bind (·.segmentColors) = .ok [⟨75, 107, 169⟩, ⟨159, 189, 238⟩, ⟨224, 229, 145⟩,
  ⟨247, 200, 53⟩, ⟨234, 113, 0⟩, ⟨234, 38, 0⟩]
#guard ex1.bind (fun l => l.mesh.map fun m => (m.1, m.2.1)) = .ok (6, 14)

private def ex2 := mk [100, 300, 500, 1000, 2000, 3000]
  (Par.mkCat [300, 2000] [⟨0, 0, 255⟩, ⟨0, 255, 0⟩, ⟨255, 0, 0⟩] (some ["low", "desired", "too much"])
    (some false) false true 2 none none none none)

#guard ex2.map (·.segmentText) = .ok ["low", "desired", "too much"]
#guard ex2.bind (·.valueColors) = .ok [⟨0, 0, 255⟩, ⟨0, 255, 0⟩, ⟨0, 255, 0⟩, ⟨0, 255, 0⟩,
  ⟨0, 255, 0⟩, ⟨255, 0, 0⟩]

private def ord7 : List (Int × String) := [(-3, "Cold"), (-2, "Cool"), (-1, "Slightly Cool"),
  (0, "Neutral"), (1, "Slightly Warm"), (2, "Warm"), (3, "Hot")]

#guard (mk [-1 / 2, 0, 1 / 2]
  (Par.mkPlain (some (-1)) (some 1) (some 5) none false true 2 false (some ord7) none none none)).map
  (·.segmentText) = .ok ["Slightly Cool", "", "Neutral", "", "Slightly Warm"]
#guard (mk [3, 3] (Par.mkPlain none none none none false true 2 false none none none none)).map
  (fun l => (l.segCount, l.segmentNumbers)) = .ok (1, [3])
#guard fmtFixed (-1 / 1000) 2 = "-0.00"
#guard fmtFixed (1 / 8) 2 = "0.12"
#guard fmtFixed (3 / 8) 2 = "0.38"
#guard fmtFixed 1234 0 = "1234"
#guard (frange 0 (6 * (1 / 10)) (1 / 10)).length = 6

end Leg
