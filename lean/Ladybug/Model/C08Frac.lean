/-
  C08 round 4: the pieces of dt.py that Model/Cal.lean leaves to "integer arguments only",
  modelled as the code is (Model/Cal.lean is frozen; everything here is additive).  No Mathlib.

  * `Time._calculate_hour_and_minute(float_hour)` on an arbitrary float hour (both branches:
    `minute == 60` carries into the hour, otherwise the rounded minute is kept) and the two
    constructors `DateTime.__new__` / `Time.__new__` called with fractional hour / minute arguments
    (`DateTime(6, 21, 12.5)`, `Time(7, 59.7)`);
  * `add_minute(x)` / `sub_minute(x)` for an offset that is not a whole number (`int(x)` truncates
    toward zero; `sub_minute` negates first);
  * the branch taken by `Date.from_doy` (negative / fall-through of the search loop / the
    `day == 0` month-end branch / plain) and by the month search of `DateTime.from_moy`.

  The float arithmetic itself (`hour + minute / 60.0`, `(float_hour - hour) * 60`) is formed by the
  driver in IEEE double arithmetic (Lean `Float` = C double, as CPython); the model takes the exact
  values of those floats.
-/
import Ladybug.Model.Cal

namespace Cal

/-- `Time._calculate_hour_and_minute(float_hour)`: `hour = int(float_hour)` and `prod` = exact value
    of the IEEE product `(float_hour - hour) * 60`.  Branch 1 (`minute == 60`): carry. -/
def calcHM (hour : Int) (prod : Rat) : Int × Int :=
  if Py.round prod = 60 then (hour + 1, 0) else (hour, Py.round prod)

/-- `datetime.__new__(cls, year, month, day, hour, minute)` on the normalised pair. -/
def DT.makeHM (month day : Nat) (hm : Int × Int) (leap : Bool) : Except Err DT :=
  if 0 ≤ hm.1 ∧ 0 ≤ hm.2 then
    let d : DT := ⟨month, day, hm.1.toNat, hm.2.toNat, leap⟩
    if d.valid then .ok d else .error .value
  else .error .value

/-- `time.__new__(cls, hour, minute)` on the normalised pair. -/
def T.makeHM (hm : Int × Int) : Except Err T :=
  if 0 ≤ hm.1 ∧ 0 ≤ hm.2 then
    let t : T := ⟨hm.1.toNat, hm.2.toNat⟩
    if t.valid then .ok t else .error .value
  else .error .value

/-- `add_minute(x)` for any real offset: `self.moy + int(x)`. -/
def DT.addMinuteQ (d : DT) (x : Rat) : Except Err DT := d.addMinute (Py.truncRat x)
/-- `sub_minute(x)` = `add_minute(-x)`. -/
def DT.subMinuteQ (d : DT) (x : Rat) : Except Err DT := d.addMinuteQ (-x)

/-- The branches of `Date.from_doy` (after `doy = int(doy)`). -/
inductive DoyBranch where
  | negative      -- month 1 is found, `day < 0`, the constructor refuses
  | fallThrough   -- the search loop ends without `break`: UnboundLocalError -> ValueError
  | monthEnd      -- `day == 0`: `month -= 1`, day recomputed from the previous table entry
  | plain
deriving DecidableEq, Repr

def doyBranch (leap : Bool) (doy : Int) : DoyBranch :=
  if doy < 0 then .negative
  else
    match findMonth (dayTable leap) doy.toNat with
    | none => .fallThrough
    | some month => if doy - ((dayTable leap).getD (month - 1) 0 : Nat) = 0 then .monthEnd else .plain

/-- The days of the year that are the last day of a month other than December. -/
def monthEndDays (leap : Bool) : List Nat := ((cumDaysOf leap).drop 1).take 11
where cumDaysOf (leap : Bool) : List Nat := (List.range 13).map fun k => daysBefore leap (k + 1)

/-- The branches of `DateTime.from_moy` (after `moy = int(moy)`): which month the search loop
    breaks at, or that it falls through. -/
def moyBranch (leap : Bool) (moy : Int) : Option Nat :=
  if moy < 0 then some 1 else findMonth (minuteTable leap) moy.toNat

#guard calcHM 5 (599 / 10) = (6, 0)
#guard calcHM 5 (119 / 2) = (6, 0)
#guard calcHM 5 (594 / 10) = (5, 59)
#guard calcHM 0 (1 / 2) = (0, 0)
#guard calcHM 0 (3 / 2) = (0, 2)
#guard doyBranch true 60 = .monthEnd
#guard doyBranch false 60 = .plain
#guard doyBranch false 365 = .plain
#guard doyBranch false 366 = .fallThrough
#guard doyBranch true 0 = .monthEnd
#guard monthEndDays true = [31, 60, 91, 121, 152, 182, 213, 244, 274, 305, 335]
#guard moyBranch true 86400 = some 3
#guard moyBranch false 525600 = none

end Cal
