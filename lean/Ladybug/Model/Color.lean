/-
  Executable model of ladybug/color.py `ColorRange` (C15).  No Mathlib.

  Numbers are exact rationals (`Rat`); colours are integer triples; `round` is Python's half-to-even
  (`Py.round`).  The model follows the code as it is, quirks included:
    * `domain` setter: empty/None -> (0, 1); `sorted(map(float, dom))`; a continuous range with a
      2-value domain is re-mapped to one stop per colour (`lo + c * step`); otherwise only the
      length is checked (continuous: `len(colors) >= len(dom)`, segmented: `len(colors) > len(dom)`);
    * `color(value)`: `value < domain[0]` -> `colors[0]`; `value > domain[-1]` -> `colors[-1]`
      (the last *colour*, even when the domain is shorter than the colour list); then the first
      interval `domain[c] <= value <= domain[c+1]` (closed on both sides, first match wins), searched
      over `range(len(domain) - 1)`; when no interval matches (only possible for `len(domain) == 1`,
      value on the single boundary) the last colour is returned
      (fix "C15_single_boundary_color": the pinned loop read `domain[count + 1]` past the end);
    * `_cal_color`: `factor = (value - lo) / (hi - lo)`, `ZeroDivisionError` -> 0;
      channel = `round(factor * (max - min) + min)`.
-/
import Ladybug.Py

namespace Col

inductive Err where
  | assert | index | zero | value
  deriving DecidableEq, Repr

structure RGB where
  r : Int
  g : Int
  b : Int
  deriving DecidableEq, Repr

/-- `Colorset.original()` (color.py `_colors[0]`): the default when `colors` is empty/None. -/
def defaultColors : List RGB :=
  [⟨75, 107, 169⟩, ⟨115, 147, 202⟩, ⟨170, 200, 247⟩, ⟨193, 213, 208⟩, ⟨245, 239, 103⟩,
   ⟨252, 230, 74⟩, ⟨239, 156, 21⟩, ⟨234, 123, 0⟩, ⟨234, 74, 0⟩, ⟨234, 38, 0⟩]

/-- `l[i]` for a non-negative index; `IndexError` otherwise. -/
def getE {α : Type} (l : List α) (i : Nat) : Except Err α :=
  match l[i]? with
  | some x => .ok x
  | none => .error .index

/-- `sorted(dom)`. -/
def sortDom (dom : List Rat) : List Rat := dom.mergeSort (fun a b => decide (a ≤ b))

/-- The 2-value re-map: `tuple(lo + c * step for c in range(n))`, `step = (hi - lo) / (n - 1)`. -/
def remap (n : Nat) (lo hi : Rat) : List Rat :=
  (List.range n).map fun (c : Nat) => lo + (c : Rat) * ((hi - lo) / ((n : Rat) - 1))

/-- `ColorRange.domain` setter for a range with `n` colours. -/
def mkDomain (n : Nat) (dom : List Rat) (continuous : Bool) : Except Err (List Rat) :=
  let d := if dom.isEmpty then [0, 1] else sortDom dom
  if continuous then
    match d with
    | [lo, hi] => if n = 1 then .error .zero else .ok (remap n lo hi)
    | _ => if d.length ≤ n then .ok d else .error .assert
  else if d.length < n then .ok d else .error .assert

structure ColorRange where
  colors : List RGB
  domain : List Rat
  continuous : Bool
  deriving DecidableEq, Repr

/-- `ColorRange(colors, domain, continuous_colors)`. -/
def ColorRange.make (cols : List RGB) (dom : List Rat) (cont : Bool) : Except Err ColorRange :=
  let cols := if cols.isEmpty then defaultColors else cols
  match mkDomain cols.length dom cont with
  | .ok d => .ok ⟨cols, d, cont⟩
  | .error e => .error e

/-- The exact (pre-rounding) channel value `factor * (max - min) + min`. -/
def blendExact (f : Rat) (a b : Int) : Rat := f * ((b : Rat) - (a : Rat)) + (a : Rat)

/-- One channel of `_cal_color`. -/
def blend (f : Rat) (a b : Int) : Int := Py.round (blendExact f a b)

/-- `factor` of `_cal_color` (`ZeroDivisionError` -> 0). -/
def factor (lo hi v : Rat) : Rat := if hi - lo = 0 then 0 else (v - lo) / (hi - lo)

def blendRGB (f : Rat) (a b : RGB) : RGB := ⟨blend f a.r b.r, blend f a.g b.g, blend f a.b b.b⟩

/-- The interval search of `color`: first `c` (counted from `i`) with `d[c] <= v <= d[c+1]`;
    `none` = the loop ended without a match. -/
def findInterval (v : Rat) : List Rat → Nat → Option Nat
  | d :: d' :: rest, i => if d ≤ v ∧ v ≤ d' then some i else findInterval v (d' :: rest) (i + 1)
  | _, _ => none

/-- `ColorRange.color(value)`. -/
def ColorRange.color (cr : ColorRange) (v : Rat) : Except Err RGB :=
  match cr.domain[0]?, cr.domain.getLast? with
  | some d0, some dl =>
    if v < d0 then getE cr.colors 0
    else if dl < v then getE cr.colors (cr.colors.length - 1)
    else
      match findInterval v cr.domain 0 with
      | none => getE cr.colors (cr.colors.length - 1)
      | some c =>
        if cr.continuous then
          match cr.domain[c]?, cr.domain[c + 1]?, cr.colors[c]?, cr.colors[c + 1]? with
          | some lo, some hi, some a, some b => .ok (blendRGB (factor lo hi v) a b)
          | _, _, _, _ => .error .index
        else getE cr.colors (c + 1)
  | _, _ => .error .index

/-- The pre-rounding channel values of a continuous blend (used by the harness to recognise
    rounding ties on inexact float inputs); `none` when the result is not a blend. -/
def ColorRange.colorExact (cr : ColorRange) (v : Rat) : Option (Rat × Rat × Rat) :=
  match cr.domain[0]?, cr.domain.getLast? with
  | some d0, some dl =>
    if v < d0 then none
    else if dl < v then none
    else
      match findInterval v cr.domain 0 with
      | none => none
      | some c =>
        if cr.continuous then
          match cr.domain[c]?, cr.domain[c + 1]?, cr.colors[c]?, cr.colors[c + 1]? with
          | some lo, some hi, some a, some b =>
            let f := factor lo hi v
            some (blendExact f a.r b.r, blendExact f a.g b.g, blendExact f a.b b.b)
          | _, _, _, _ => none
        else none
  | _, _ => none

/-! Unit tests (docstring example of color.py and the quirks listed above). -/

private def ex3 : List RGB := [⟨75, 107, 169⟩, ⟨245, 239, 103⟩, ⟨234, 38, 0⟩]

#guard (ColorRange.make ex3 [100, 2000] true).map (·.domain) = .ok [100, 1050, 2000]
#guard ((ColorRange.make ex3 [100, 2000] true).bind (·.color 1050)) = .ok ⟨245, 239, 103⟩
#guard ((ColorRange.make ex3 [2000, 100] true).bind (·.color 99)) = .ok ⟨75, 107, 169⟩
#guard ((ColorRange.make ex3 [100, 2000] true).bind (·.color 5000)) = .ok ⟨234, 38, 0⟩
#guard ((ColorRange.make ex3 [100, 2000] true).bind (·.color 575)) = .ok ⟨160, 173, 136⟩
#guard ((ColorRange.make ex3 [100, 2000] false).bind (·.color 100)) = .ok ⟨245, 239, 103⟩
#guard ((ColorRange.make ex3 [100, 2000] false).bind (·.color 2000)) = .ok ⟨245, 239, 103⟩
#guard ((ColorRange.make ex3 [100, 2000] false).bind (·.color 2001)) = .ok ⟨234, 38, 0⟩
#guard ((ColorRange.make ex3 [5, 5] true).bind (·.color 5)) = .ok ⟨75, 107, 169⟩
#guard ((ColorRange.make ex3 [100] false).bind (·.color 100)) = .ok ⟨234, 38, 0⟩
#guard (ColorRange.make ex3 [1, 2, 3, 4] true).map (·.domain) = .error .assert
#guard (ColorRange.make ex3 [1, 2, 3] false).map (·.domain) = .error .assert
#guard (ColorRange.make [⟨1, 2, 3⟩] [1, 2] true).map (·.domain) = .error .zero
#guard (ColorRange.make [] [] true).map (·.domain.length) = .ok 10

end Col
