/-
  C08 round 3: operation histories on ONE date-time variable in ONE process.

  `ladybug/dt.py` has no per-object state (`__slots__ = ()`, every operation returns a new
  immutable object) and no module-level state.  That *is* the specification the histories are
  checked against: the machine below is a pure function of the public state (month, day, hour,
  minute, leap flag) of the current date-time; a refused operation (the code raises) leaves the
  current date-time as it was.  The harness runs the same op list on the real classes (one Python
  process / one module instance, results of refused calls discarded) and compares step by step.

  Built on the existing pure functions of Model/Cal.lean (nothing there is changed).  No Mathlib.
-/
import Ladybug.Model.Cal

namespace Cal
namespace Hist

/-- The "object": the date-time variable a user program keeps (`cur`). -/
structure Obj where
  cur : DT
deriving DecidableEq, Repr, Inhabited

/-- `DateTime()` – the start of every history. -/
def Obj.fresh : Obj := ⟨⟨1, 1, 0, 0, false⟩⟩

/-- Serial forms a date-time can be sent through (`cur = read(write(cur))`). -/
inductive Form where
  | array        -- from_array(to_array())
  | dict         -- from_dict(to_dict())
  | reduce       -- pickle (any protocol) / copy / deepcopy: cls(*__reduce_ex__ args)
  | text         -- from_date_time_string(str(cur), cur.leap_year)   (token level)
  | dateAndTime  -- from_date_and_time(cur.date, cur.time)
deriving DecidableEq, Repr

/-- One public operation on the variable.  Float arguments arrive as the exact value of the IEEE
    product `hoy * 60` (formed by the driver), as in Model/Cal. -/
inductive Op where
  | fromMoy (leap : Bool) (m : Int)        -- cur = DateTime.from_moy(m, leap)
  | fromHoy (leap : Bool) (x : Rat)        -- cur = DateTime.from_hoy(h, leap), x = h * 60
  | fromDoy (leap : Bool) (k : Int)        -- cur = from_date_and_time(Date.from_doy(k, leap), cur.time)
  | make (leap : Bool) (mo da h mi : Nat)  -- cur = DateTime(mo, da, h, mi, leap)
  | addMin (k : Int)                       -- cur = cur.add_minute(k)
  | subMin (k : Int)                       -- cur = cur.sub_minute(k)
  | addHour (x : Rat)                      -- cur = cur.add_hour(h), x = h * 60
  | subHour (x : Rat)                      -- cur = cur.sub_hour(h), x = h * 60  (the code adds -h)
  | setLeap (b : Bool)                     -- cur = DateTime(cur.month, cur.day, cur.hour, cur.minute, b)
  | setMod (m : Nat)                       -- cur = from_date_and_time(cur.date, Time.from_mod(m))
  | via (f : Form)                         -- cur = read(write(cur))
  | read                                   -- read every index again (no assignment)
deriving Repr

/-- Everything the property speaks about, read from a date-time. -/
structure Obs where
  month : Nat
  day : Nat
  hour : Nat
  minute : Nat
  leap : Bool
  doy : Nat
  intHoy : Nat
  moy : Nat
  hoy : Rat
deriving DecidableEq, Repr

def observe (d : DT) : Obs := ⟨d.month, d.day, d.hour, d.minute, d.leap, d.doy, d.intHoy, d.moy, d.hoy⟩

inductive Out where
  | obs (o : Obs)
  | refused (e : Err)
deriving DecidableEq, Repr

/-- `from_date_and_time(date, time)`: the leap flag is the date's. -/
def fromDateAndTime (d : D) (t : T) : Except Err DT := DT.make d.month d.day t.hour t.minute d.leap

def viaForm (d : DT) : Form → Except Err DT
  | .array => DT.fromArray d.toArray
  | .dict => DT.fromDict d.toDict
  | .reduce => DT.rebuild d.reduceArgs
  | .text => DT.parseTokens d.strTokens d.leap
  | .dateAndTime =>
    match D.make d.month d.day d.leap, T.make d.hour d.minute with
    | .ok da, .ok t => fromDateAndTime da t
    | .error e, _ => .error e
    | _, .error e => .error e

/-- The value the right-hand side of the assignment evaluates to (or the exception class). -/
def apply (d : DT) : Op → Except Err DT
  | .fromMoy leap m => fromMoy leap m
  | .fromHoy leap x => fromHoyTimes60 leap x
  | .fromDoy leap k =>
    match fromDoy leap k, T.make d.hour d.minute with
    | .ok da, .ok t => fromDateAndTime da t
    | .error e, _ => .error e
    | _, .error e => .error e
  | .make leap mo da h mi => DT.make mo da h mi leap
  | .addMin k => d.addMinute k
  | .subMin k => d.subMinute k
  | .addHour x => d.addHourTimes60 x
  | .subHour x => d.addHourTimes60 (-x)
  | .setLeap b => DT.make d.month d.day d.hour d.minute b
  | .setMod m =>
    match D.make d.month d.day d.leap, fromMod m with
    | .ok da, .ok t => fromDateAndTime da t
    | .error e, _ => .error e
    | _, .error e => .error e
  | .via f => viaForm d f
  | .read => .ok d

/-- One step: a refused operation returns the unchanged state and the error. -/
def step (o : Obj) (op : Op) : Obj × Out :=
  match apply o.cur op with
  | .ok d => (⟨d⟩, .obs (observe d))
  | .error e => (o, .refused e)

/-- State after a history. -/
def run (o : Obj) : List Op → Obj
  | [] => o
  | op :: rest => run (step o op).1 rest

/-- Outputs of a history, step by step (what the driver prints). -/
def trace (o : Obj) : List Op → List Out
  | [] => []
  | op :: rest => (step o op).2 :: trace (step o op).1 rest

#guard (run Obj.fresh [.fromMoy true 86399, .addMin 1]).cur = ⟨3, 1, 0, 0, true⟩
#guard (run Obj.fresh [.fromMoy true 86399, .setLeap false]).cur = ⟨2, 29, 23, 59, true⟩
#guard (run Obj.fresh [.fromMoy false 525599, .addMin 1, .via .text]).cur = ⟨12, 31, 23, 59, false⟩
#guard (run Obj.fresh [.fromDoy true 366, .setMod 61]).cur = ⟨12, 31, 1, 1, true⟩

end Hist
end Cal
