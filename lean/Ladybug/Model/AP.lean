/-
  Model of ladybug/analysisperiod.py (class AnalysisPeriod) on top of the calendar model `Cal`.
  Hand-written from the code; the class constants come from `Gen.Ap` (regenerated from
  analysisperiod.py on every run).  No Mathlib.  Time is minute-of-year `Nat` (Cal conventions).

  Correspondence ops: Drv/C04.lean (harness/props/c04.py).  Theorems: Props/C04.lean
  (helper lemmas: Proofs/C04Lemmas.lean).

  The model describes the code WITH the two repairs fixes/C04_trailing_steps_window.patch and
  fixes/C04_months_per_hour_window.patch applied (see "Repaired behaviour" notes at `trailing`
  and `hourRange`).

  ## API for other models (C02, C03, C12, C13, C17 …)

  * `AP`                      the eight constructor fields as stored (after defaults/clipping)
  * `AP.WF ap`                what every constructed period satisfies (valid dates/hours/timestep)
  * `AP.mk?` / `AP.mkOpt?`    constructor: defaults (`x or d`), end-day clipping, rejection
  * `AP.annual leap ts`       the default period 1/1 0h – 12/31 23h
  * `AP.stMoy / endMoy / step / stTime / endTime`
  * `AP.isReversed / isOvernight / isAnnual`
  * `AP.moys : List Nat`      the enumeration exactly as `_calculate_timestamps` produces it
  * `AP.datetimes / hoysInt`  maps of `moys`
  * `AP.len`                  `__len__` (fast path and slow path)
  * `AP.isTimeIncluded / includesMoy`
  * `AP.doysInt / monthsInt / monthsPerHour`
  * `AP.inWindow / AP.Pred`   independent specification of membership
  * `AP.chronoKey`            position of a minute counted cyclically from the start moment
  * key theorems (Props/C04.lean, all under `ap.WF`):
      `C04_mem_moys      : m ∈ ap.moys ↔ ap.Pred m`
      `C04_moys_sorted   : ap.isReversed = false → ap.moys.Pairwise (· < ·)`
      `C04_moys_segments : ap.isReversed = true → ∃ l₁ l₂, ap.moys = l₁ ++ l₂ ∧ both increasing ∧
                           l₁ ≥ stMoy ∧ l₂ < endMoy + 60 ≤ stMoy`
      `C04_moys_chrono   : (ap.moys.map ap.chronoKey).Pairwise (· < ·)`
      `C04_moys_nodup    : ap.moys.Nodup`
      `C04_len           : ap.len = ap.moys.length`
      `C04_included`, `C04_doys`, `C04_months`, `C04_months_per_hour_complete/_sound`,
      `C04_mk_wf` (constructor ok → WF and field provenance), `C04_mk_accepts`, `C04_dict_roundtrip`.
    Reusable lemmas (Proofs/C04Lemmas.lean, Proofs/C04Listings.lean): `AP.mem_moys`, `AP.mem_segment`,
    `AP.moment_facts` (stMoy/endMoy are multiples of 60, inside the year, `isReversed = false ↔ stMoy ≤ endMoy`),
    `AP.doy_facts`, `AP.ts_cases` / `AP.ts_facts` (case split over the 12 timesteps), `AP.possibleMod_iff`,
    `AP.mem_doysInt`, `AP.mem_monthsInt`, `AP.mem_monthsPerHour`, `AP.mkOpt_wf`, `AP.mk_of_wf`.
-/
import Ladybug.Py
import Ladybug.Model.Cal
import Ladybug.Gen.ApTables

open Cal

/-- An `AnalysisPeriod` as stored by the constructor: start/end date and hour (the two
    `DateTime`s `st_time`, `end_time` have minute 0), steps per hour, leap flag. -/
structure AP where
  st_month : Nat
  st_day : Nat
  st_hour : Nat
  end_month : Nat
  end_day : Nat
  end_hour : Nat
  timestep : Nat
  leap : Bool
deriving DecidableEq, Repr, Inhabited

namespace AP

/-! ### Basic attributes -/

/-- `st_time` (a `DateTime` with minute 0). -/
def stTime (ap : AP) : DT := ⟨ap.st_month, ap.st_day, ap.st_hour, 0, ap.leap⟩
/-- `end_time` (a `DateTime` with minute 0). -/
def endTime (ap : AP) : DT := ⟨ap.end_month, ap.end_day, ap.end_hour, 0, ap.leap⟩
/-- minute of the year of the start moment -/
def stMoy (ap : AP) : Nat := ap.stTime.moy
/-- minute of the year of the end moment (`end_hour:00` of the end day) -/
def endMoy (ap : AP) : Nat := ap.endTime.moy
/-- `minute_intervals` in minutes: `timedelta(1 / (24.0 * timestep))` = `60 / timestep` minutes for
    the 12 valid timesteps (checked against the real `timedelta` on every run). -/
def step (ap : AP) : Nat := 60 / ap.timestep

/-- What every constructed period satisfies: both dates exist in the (leap) year, hours ≤ 23,
    timestep is one of `VALIDTIMESTEPS`. -/
def WF (ap : AP) : Prop :=
  ap.stTime.valid ∧ ap.endTime.valid ∧ ap.timestep ∈ Gen.Ap.validTimesteps

instance (ap : AP) : Decidable ap.WF := by unfold WF; infer_instance

/-- `is_overnight`: `not (st_time.hour <= end_time.hour)`. -/
def isOvernight (ap : AP) : Bool := decide (ap.end_hour < ap.st_hour)

/-- `is_reversed`: `st_time.hoy > end_time.hoy`; both minutes are 0, so `hoy` is `int_hoy`. -/
def isReversed (ap : AP) : Bool := decide (ap.endTime.intHoy < ap.stTime.intHoy)

/-- `is_annual`. -/
def isAnnual (ap : AP) : Bool :=
  ap.st_month == 1 && ap.st_day == 1 && ap.st_hour == 0 &&
  ap.end_month == 12 && ap.end_day == 31 && ap.end_hour == 23

/-- `NUMOFDAYSEACHMONTH` / `NUMOFDAYSEACHMONTHLEAP`. -/
def numDaysTable (leap : Bool) : List Nat := if leap then Gen.Ap.numDaysLeap else Gen.Ap.numDays

/-! ### The daily hour window (`is_possible_hour`)

The argument is the minute of the day `mod` (the float hour of the code is `mod / 60.0`;
comparing a float hour with an integer hour is exact). -/

/-- The two chained comparisons at the end of `is_possible_hour`. -/
def windowChk (ap : AP) (mod : Nat) : Bool :=
  if ap.isOvernight = false then decide (ap.st_hour * 60 ≤ mod ∧ mod ≤ ap.end_hour * 60)
  else decide ((ap.st_hour * 60 ≤ mod ∧ mod ≤ 23 * 60) ∨ mod ≤ ap.end_hour * 60)

/-- `is_possible_hour(0)`. -/
def possible0 (ap : AP) : Bool := ap.windowChk 0

/-- `is_possible_hour(mod / 60.0)`: `if hour > 23 and self.is_possible_hour(0): hour = int(hour)`. -/
def possibleMod (ap : AP) (mod : Nat) : Bool :=
  if 23 * 60 < mod ∧ ap.possible0 = true then ap.windowChk (mod / 60 * 60) else ap.windowChk mod

/-! ### The enumeration (`_calc_timestamps`, `_calculate_timestamps`) -/

/-- The `while curr <= end_time` loop of `_calc_timestamps`; `curr`, `en` are minutes of the year
    (the loop never leaves the year), `fuel` bounds the number of iterations. -/
def loop (ap : AP) (en : Nat) : Nat → Nat → List Nat
  | 0, _ => []
  | fuel + 1, curr =>
    if curr ≤ en then
      if ap.possibleMod (curr % 1440) = true then curr :: loop ap en fuel (curr + ap.step)
      else loop ap en fuel (curr + ap.step)
    else []

/-- Value of `curr` when the loop exits: the first grid point after `en`. -/
def currAfter (ap : AP) (st en : Nat) : Nat :=
  if st ≤ en then st + ((en - st) / ap.step + 1) * ap.step else st

/-- The block after the loop: the `timestep - 1` sub-hourly steps after `en` when the hour of
    `curr` is 23 and hour 0 is possible.

    Repaired behaviour (fixes/C04_trailing_steps_window.patch): the condition also requires
    `is_possible_hour(23)`.  The pinned code appends Dec 31 23:xx of a reversed period whose window
    is `0 .. end_hour < 23` although 23:xx is outside the window. -/
def trailing (ap : AP) (st en : Nat) : List Nat :=
  if ap.timestep ≠ 1 ∧ ap.currAfter st en / 60 % 24 = 23 ∧ ap.possible0 = true ∧
      ap.possibleMod (23 * 60) = true then
    (List.range (ap.timestep - 1)).map fun k => en + (k + 1) * ap.step
  else []

/-- `_calc_timestamps(st_time, end_time)` on minutes of the year. -/
def segment (ap : AP) (st en : Nat) : List Nat := ap.loop en (en + 1) st ++ ap.trailing st en

/-- `DateTime.from_last_hour(leap).moy` (Dec 31 23:00). -/
def lastHourMoy (leap : Bool) : Nat := (⟨12, 31, 23, 0, leap⟩ : DT).moy
/-- `DateTime.from_first_hour(leap).moy` (= 0). -/
def firstHourMoy (leap : Bool) : Nat := (⟨1, 1, 0, 0, leap⟩ : DT).moy

/-- `moys` – the enumeration in the code's order: one run, or for reversed periods the run from the
    start moment to the end of the year followed by the run from the start of the year. -/
def moys (ap : AP) : List Nat :=
  if ap.isReversed = false then ap.segment ap.stMoy ap.endMoy
  else ap.segment ap.stMoy (lastHourMoy ap.leap) ++ ap.segment (firstHourMoy ap.leap) ap.endMoy

/-- `datetimes`: the `DateTime` of every step (`DateTime(curr.month, …)` = `from_moy`). -/
def datetimes (ap : AP) : List (Except Err DT) := ap.moys.map fun (m : Nat) => fromMoy ap.leap (m : Int)

/-- `hoys_int`: `int(moy / 60.0)`. -/
def hoysInt (ap : AP) : List Nat := ap.moys.map (· / 60)

/-- `__len__`: closed form when the window is the whole day, else the length of the enumeration. -/
def len (ap : AP) : Nat :=
  if ap.st_hour = 0 ∧ ap.end_hour = 23 then
    if ap.isReversed = false then (ap.endTime.intHoy + 1 - ap.stTime.intHoy) * ap.timestep
    else
      let first := (⟨12, 31, 23, 0, ap.leap⟩ : DT).intHoy - ap.stTime.intHoy
      let second := ap.endTime.intHoy - (⟨1, 1, 0, 0, ap.leap⟩ : DT).intHoy
      (first + second + 2) * ap.timestep
  else ap.moys.length

/-- `time.moy in self._timestamps_data`. -/
def includesMoy (ap : AP) (m : Nat) : Bool := ap.moys.contains m
/-- `is_time_included(time)` (only `time.moy` is used, the leap flag of `time` is ignored). -/
def isTimeIncluded (ap : AP) (d : DT) : Bool := ap.includesMoy d.moy

/-! ### Listings -/

/-- `sum(self._num_of_days_each_month[:month - 1]) + day`. -/
def doyOf (leap : Bool) (month day : Nat) : Nat := ((numDaysTable leap).take (month - 1)).sum + day

/-- `_calc_daystamps`: `range(start_doy, end_doy + 1)`. -/
def calcDaystamps (leap : Bool) (st en : DT) : List Nat :=
  let a := doyOf leap st.month st.day
  let b := doyOf leap en.month en.day + 1
  List.range' a (b - a)

/-- `doys_int`. -/
def doysInt (ap : AP) : List Nat :=
  if ap.isReversed = false then calcDaystamps ap.leap ap.stTime ap.endTime
  else calcDaystamps ap.leap ap.stTime ⟨12, 31, 23, 0, ap.leap⟩ ++
       calcDaystamps ap.leap ⟨1, 1, 0, 0, ap.leap⟩ ap.endTime

/-- `months_int`. -/
def monthsInt (ap : AP) : List Nat :=
  if ap.isReversed = false then List.range' ap.st_month (ap.end_month + 1 - ap.st_month)
  else List.range' ap.st_month (13 - ap.st_month) ++ List.range' 1 ap.end_month

/-- Indices `hr` (in units of one step, `0 ≤ hr < 24 * timestep`) of the steps of one day that lie
    in the hour window.

    Repaired behaviour (fixes/C04_months_per_hour_window.patch):
    `[hr for hr in xrange(24 * timestep) if self.is_possible_hour(hr / timestep)]`.  The pinned code
    uses `xrange(st_hour, (end_hour + 1) * timestep)`: empty or wrong for overnight windows, and
    for `timestep > 1` it starts at `st_hour / timestep` and runs past `end_hour:00`. -/
def hourRange (ap : AP) : List Nat :=
  (List.range (24 * ap.timestep)).filter fun hr => ap.possibleMod (hr * ap.step)

/-- `months_per_hour`: `(month, int(hr / timestep), int((hr % timestep) * (60 / timestep)))`. -/
def monthsPerHour (ap : AP) : List (Nat × Nat × Nat) :=
  ap.monthsInt.flatMap fun mo =>
    ap.hourRange.map fun hr => (mo, hr / ap.timestep, hr % ap.timestep * ap.step)

/-! ### Constructor -/

/-- Python `x or d` on an optional integer (`None` and `0` are both falsy). -/
def orD (x : Option Int) (d : Int) : Int :=
  match x with
  | none => d
  | some v => if v = 0 then d else v

/-- `DateTime(int(month), int(day), int(hour), leap_year=leap)` on integers. -/
def makeDT (month day hour : Int) (leap : Bool) : Except Err DT :=
  if 0 ≤ month ∧ 0 ≤ day ∧ 0 ≤ hour then DT.make month.toNat day.toNat hour.toNat 0 leap
  else .error .value

/-- `AnalysisPeriod.__init__` with optional (`None`) arguments, in the code's order of evaluation:
    defaults, start `DateTime`, end-day clipping (`IndexError` when `end_month - 1` is outside the
    table, negative months wrap as Python indices), end `DateTime`, timestep check. -/
def mkOpt? (stM stD stH endM endD endH ts : Option Int) (leap : Bool) : Except Err AP :=
  let stM := orD stM 1
  let stD := orD stD 1
  let stH := orD stH 0
  let endM := orD endM 12
  let endD := orD endD 31
  let endH := endH.getD 23
  let ts := orD ts 1
  match makeDT stM stD stH leap with
  | .error e => .error e
  | .ok st =>
    match Py.getIdx? (numDaysTable leap) (endM - 1) with
    | none => .error .index
    | some t =>
      let endD := if endD > (t : Int) then (t : Int) else endD
      match makeDT endM endD endH leap with
      | .error e => .error e
      | .ok en =>
        if 0 ≤ ts ∧ ts.toNat ∈ Gen.Ap.validTimesteps then
          .ok ⟨st.month, st.day, st.hour, en.month, en.day, en.hour, ts.toNat, leap⟩
        else .error .value

/-- `AnalysisPeriod(st_month, st_day, st_hour, end_month, end_day, end_hour, timestep, leap)` on
    integers (`0` counts as missing except for `end_hour`). -/
def mk? (stM stD stH endM endD endH ts : Int) (leap : Bool) : Except Err AP :=
  mkOpt? (some stM) (some stD) (some stH) (some endM) (some endD) (some endH) (some ts) leap

/-- The default period of a year: 1/1 0h to 12/31 23h. -/
def annual (leap : Bool) (ts : Nat) : AP := ⟨1, 1, 0, 12, 31, 23, ts, leap⟩

/-- `duplicate()` / `__copy__`: the constructor on the stored fields. -/
def duplicate (ap : AP) : Except Err AP :=
  mk? ap.st_month ap.st_day ap.st_hour ap.end_month ap.end_day ap.end_hour ap.timestep ap.leap

/-! ### Serial forms -/

/-- `to_dict()` without the constant `type` tag; `is_leap_year` as 0/1. -/
def toDict (ap : AP) : List (String × Int) :=
  [("st_month", ap.st_month), ("st_day", ap.st_day), ("st_hour", ap.st_hour),
   ("end_month", ap.end_month), ("end_day", ap.end_day), ("end_hour", ap.end_hour),
   ("timestep", ap.timestep), ("is_leap_year", if ap.leap then 1 else 0)]

def lookup? (kv : List (String × Int)) (k : String) : Option Int :=
  (kv.find? (·.1 == k)).map (·.2)

/-- `from_dict(data)`: missing keys become `None`. -/
def fromDict (kv : List (String × Int)) : Except Err AP :=
  mkOpt? (lookup? kv "st_month") (lookup? kv "st_day") (lookup? kv "st_hour")
    (lookup? kv "end_month") (lookup? kv "end_day") (lookup? kv "end_hour")
    (lookup? kv "timestep") (orD (lookup? kv "is_leap_year") 0 != 0)

/-- Tokens of `__repr__` in the order they are printed:
    `st_month/st_day to end_month/end_day between st_hour and end_hour @timestep` (+ `*` if leap). -/
def reprTokens (ap : AP) : List Nat :=
  [ap.st_month, ap.st_day, ap.end_month, ap.end_day, ap.st_hour, ap.end_hour, ap.timestep]

/-- `__repr__`, character level. -/
def repr (ap : AP) : String :=
  s!"{ap.st_month}/{ap.st_day} to {ap.end_month}/{ap.end_day} between {ap.st_hour} and {ap.end_hour} @{ap.timestep}" ++
    (if ap.leap then "*" else "")

/-- `from_string` after tokenisation.  The seven tokens are passed to the constructor as *strings*
    (`none` = empty string): an empty string takes the `or` default, every other string goes through
    `int()` without zero-defaulting ("0" is truthy); the timestep is converted first (`int(timestep)`,
    then `timestep or 1`).  When the end day needs clipping the code indexes the table with the
    *string* `end_month` (TypeError) unless that token was empty.  Every failure inside is re-raised
    as ValueError. -/
def fromTokens (toks : List (Option Int)) (leap : Bool) : Except Err AP :=
  match toks with
  | [stM, stD, endM, endD, stH, endH, ts] =>
    match ts with
    | none => .error .value
    | some ts =>
      let stMi := stM.getD 1
      let stDi := stD.getD 1
      let stHi := stH.getD 0
      let endMi := endM.getD 12
      let endDi := endD.getD 31
      -- `end_hour` is never None here; an empty string fails in int('')
      match endH with
      | none => .error .value
      | some endHi =>
        let ts := if ts = 0 then 1 else ts
        match makeDT stMi stDi stHi leap with
        | .error _ => .error .value
        | .ok st =>
          match Py.getIdx? (numDaysTable leap) (endMi - 1) with
          | none => .error .value
          | some t =>
            if endDi > (t : Int) ∧ endM.isSome then .error .value
            else
              let endDi := if endDi > (t : Int) then (t : Int) else endDi
              match makeDT endMi endDi endHi leap with
              | .error _ => .error .value
              | .ok en =>
                if 0 ≤ ts ∧ ts.toNat ∈ Gen.Ap.validTimesteps then
                  .ok ⟨st.month, st.day, st.hour, en.month, en.day, en.hour, ts.toNat, leap⟩
                else .error .value
  | _ => .error .value

/-- Python `int(s)` on the token shapes that can occur (optional sign, decimal digits). -/
def pyInt? (s : String) : Option Int := s.toInt?

/-- `from_string`, character level (executable; tied to the code by correspondence only): leap
    flag from a trailing `*`, lower-casing, the `replace` chain, `split(' ')`. -/
def fromString (s : String) : Except Err AP :=
  let t := s.trimAscii.toString
  if t.isEmpty then .error .index
  else
    let leap := t.back == '*'
    let u := (((((((s.toLower.replace " " "").replace "to" " ").replace "and" " ").replace "/" " ").replace
      "between" " ").replace "@" " ").replace "*" "")
    let toks := u.splitOn " "
    if toks.length ≠ 7 then .error .value
    else
      match toks.mapM (fun x => if x.isEmpty then some none else (pyInt? x).map some) with
      | none => .error .value
      | some ts => fromTokens ts leap

/-! ### Independent specification of membership -/

/-- The daily hour window on the minute of the day: the closed interval from `st_hour:00` to
    `end_hour:00` (through midnight when `st_hour > end_hour`); the window `0 .. 23` is the whole day. -/
def inWindow (ap : AP) (mod : Nat) : Prop :=
  if ap.st_hour ≤ ap.end_hour then
    (ap.st_hour * 60 ≤ mod ∧ mod ≤ ap.end_hour * 60) ∨ (ap.st_hour = 0 ∧ ap.end_hour = 23)
  else ap.st_hour * 60 ≤ mod ∨ mod ≤ ap.end_hour * 60

instance (ap : AP) (mod : Nat) : Decidable (ap.inWindow mod) := by unfold inWindow; infer_instance

/-- Minute `m` of the year is a time step of the period: it is inside the year, on the grid of
    `60 / timestep` minutes, its time of day is inside the hour window, and it lies between the start
    moment and the end of the end hour – cyclically through the year end when the start moment is
    after the end moment. -/
def Pred (ap : AP) (m : Nat) : Prop :=
  m < minutesInYear ap.leap ∧ m % ap.step = 0 ∧ ap.inWindow (m % 1440) ∧
    ((ap.stMoy ≤ ap.endMoy ∧ ap.stMoy ≤ m ∧ m < ap.endMoy + 60) ∨
     (ap.endMoy < ap.stMoy ∧ (ap.stMoy ≤ m ∨ m < ap.endMoy + 60)))

instance (ap : AP) (m : Nat) : Decidable (ap.Pred m) := by unfold Pred; infer_instance

/-- Position of a minute of the year counted cyclically from the start moment of the period
    (0 for the start moment itself): the key by which the enumeration is chronological. -/
def chronoKey (ap : AP) (m : Nat) : Nat :=
  (m + minutesInYear ap.leap - ap.stMoy) % minutesInYear ap.leap

/-! ### Unit tests of the model (`#guard`) -/

#guard (annual false 1).moys.length = 8760
#guard (annual true 2).len = 8784 * 2
#guard (⟨1, 1, 9, 1, 1, 10, 2, false⟩ : AP).moys = [540, 570, 600]
#guard (⟨1, 1, 22, 1, 2, 2, 1, false⟩ : AP).moys = [1320, 1380, 1440, 1500, 1560]
#guard (⟨1, 1, 0, 1, 1, 23, 2, false⟩ : AP).moys.length = 48
#guard (⟨1, 1, 5, 1, 1, 23, 2, false⟩ : AP).moys.length = 37
-- repaired: no Dec 31 23:30 for a reversed period with window 0..10
#guard (⟨12, 31, 0, 1, 1, 10, 2, false⟩ : AP).moys.take 22 = (List.range 21).map (fun k => 524160 + 30 * k) ++ [0]
#guard (⟨1, 1, 9, 1, 1, 10, 2, false⟩ : AP).monthsPerHour = [(1, 9, 0), (1, 9, 30), (1, 10, 0)]
#guard (⟨1, 1, 22, 1, 2, 2, 1, false⟩ : AP).monthsPerHour = [(1, 0, 0), (1, 1, 0), (1, 2, 0), (1, 22, 0), (1, 23, 0)]
#guard mk? 1 1 0 2 30 23 1 false = .ok ⟨1, 1, 0, 2, 28, 23, 1, false⟩
#guard mk? 0 0 0 0 0 0 0 true = .ok ⟨1, 1, 0, 12, 31, 0, 1, true⟩
#guard mk? 1 1 0 13 1 23 1 false = .error .index
#guard mk? 2 29 0 12 31 23 1 false = .error .value
#guard mk? 1 1 0 12 31 23 7 false = .error .value
#guard (annual true 4).repr = "1/1 to 12/31 between 0 and 23 @4*"
#guard fromString "1/1 to 12/31 between 0 and 23 @4*" = .ok (annual true 4)
#guard fromString "6/21 to 3/20 between 22 and 5 @1" = .ok ⟨6, 21, 22, 3, 20, 5, 1, false⟩

end AP
