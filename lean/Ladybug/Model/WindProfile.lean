/-
  C18 (c) — WindProfile (ladybug/windprofile.py) as a state machine with the two cached
  denominators `_met_power_denom`, `_met_log_denom`.

  Numbers are a type parameter `α` with abstract `pw : α → α → α` (Python `**`) and `lg : α → α`
  (`math.log`): `Float` for execution (driver), `ℝ` with `Real.rpow`/`Real.log` for the theorems.
  Which denominators a setter recomputes is *not* hard-wired: it is a parameter `tbl` that the
  driver and the theorems instantiate with the table regenerated from the source
  (`Gen.Wind.setterTable`).  No Mathlib.
-/
import Ladybug.Gen.WindTables

namespace Wind

inductive Err where
  | value | assert | zero
  deriving Repr, DecidableEq

/-- The ten public setters. Terrain arguments are an index into `Gen.Wind.terrainParams`
(`none`: text that `_check_terrain` does not recognise). -/
inductive Kind where
  | terrain | metTerrain | metH | logLaw | blh | exp | z0 | metBlh | metExp | metZ0
  deriving Repr, DecidableEq

def Kind.all : List Kind :=
  [.terrain, .metTerrain, .metH, .logLaw, .blh, .exp, .z0, .metBlh, .metExp, .metZ0]

def Kind.name : Kind → String
  | .terrain => "terrain" | .metTerrain => "meteorological_terrain"
  | .metH => "meteorological_height" | .logLaw => "log_law"
  | .blh => "boundary_layer_height" | .exp => "power_law_exponent" | .z0 => "roughness_length"
  | .metBlh => "met_boundary_layer_height" | .metExp => "met_power_law_exponent"
  | .metZ0 => "met_roughness_length"

/-- Attributes each setter assigns in the model (compared with the regenerated table by `decide`). -/
def Kind.writes : Kind → List String
  | .terrain => ["_boundary_layer_height", "_power_law_exponent", "_roughness_length", "_terrain"]
  | .metTerrain => ["_met_boundary_layer_height", "_met_power_law_exponent", "_met_roughness_length",
                    "_meteorological_terrain"]
  | .metH => ["_meteorological_height"] | .logLaw => ["_log_law"]
  | .blh => ["_boundary_layer_height"] | .exp => ["_power_law_exponent"]
  | .z0 => ["_roughness_length"] | .metBlh => ["_met_boundary_layer_height"]
  | .metExp => ["_met_power_law_exponent"] | .metZ0 => ["_met_roughness_length"]

/-- Which cached denominators a setter recomputes: (power, log). -/
abbrev RecTable := Kind → Bool × Bool

def tableOfGen (rows : List (String × List String × Bool × Bool)) : RecTable := fun k =>
  match rows.find? (·.1 == k.name) with
  | some r => (r.2.2.1, r.2.2.2)
  | none => (false, false)

/-- The table read off the source on this run. -/
def genTable : RecTable := tableOfGen Gen.Wind.setterTable

/-- The model's setters assign the same attributes as the source's. -/
def writesMatch (rows : List (String × List String × Bool × Bool)) : Bool :=
  Kind.all.all fun k => (rows.find? (·.1 == k.name)).map (·.2.1) == some k.writes

/-- Setters whose assignments touch what `_met_power_denom` / `_met_log_denom` are computed from. -/
def Kind.needsPow : Kind → Bool
  | .metTerrain | .metH | .metBlh | .metExp => true
  | _ => false

def Kind.needsLog : Kind → Bool
  | .metTerrain | .metH | .metZ0 => true
  | _ => false

/-- `needsPow/needsLog` agree with the attribute lists read by the two `_compute_*` helpers. -/
def needsMatch : Bool :=
  Kind.all.all fun k =>
    (k.needsPow == k.writes.any fun a => Gen.Wind.powDenReads.contains a) &&
    (k.needsLog == k.writes.any fun a => Gen.Wind.logDenReads.contains a)

/-- The hypothesis of `C18_wind_fresh`: a setter that assigns an attribute read by a cached
denominator recomputes that denominator. -/
def TableOk (tbl : RecTable) : Bool :=
  Kind.all.all fun k => (!k.needsPow || (tbl k).1) && (!k.needsLog || (tbl k).2)

structure Cfg (α : Type) where
  terrain : Nat
  metTerrain : Nat
  metH : α
  logLaw : Bool
  blh : α
  exp : α
  z0 : α
  metBlh : α
  metExp : α
  metZ0 : α

structure St (α : Type) where
  cfg : Cfg α
  powDen : α
  logDen : α

/-- A setter call: kind + argument (number, terrain index or flag as appropriate). -/
structure Call (α : Type) where
  kind : Kind
  num : α
  terr : Option Nat := none
  flag : Bool := false

section
variable {α : Type} [Div α] [Mul α] [LT α] [DecidableLT α] [OfNat α 0] [OfNat α 1]
variable (pw : α → α → α) (lg : α → α) (tp : Nat → Option (α × α × α))

/-- Configuration-level meaning of a setter (what the settings are afterwards);
validation exactly as the assertions of the setters. -/
def Cfg.set (c : Cfg α) (x : Call α) : Except Err (Cfg α) :=
  match x.kind with
  | .terrain =>
    match x.terr.bind (fun i => (tp i).map (i, ·)) with
    | some (i, p) => .ok { c with terrain := i, blh := p.1, exp := p.2.1, z0 := p.2.2 }
    | none => .error .value
  | .metTerrain =>
    match x.terr.bind (fun i => (tp i).map (i, ·)) with
    | some (i, p) => .ok { c with metTerrain := i, metBlh := p.1, metExp := p.2.1, metZ0 := p.2.2 }
    | none => .error .value
  | .metH => if 0 < x.num then .ok { c with metH := x.num } else .error .assert
  | .logLaw => .ok { c with logLaw := x.flag }
  | .blh => if 0 < x.num then .ok { c with blh := x.num } else .error .assert
  | .exp => if 0 < x.num ∧ x.num < 1 then .ok { c with exp := x.num } else .error .assert
  | .z0 => if 0 < x.num then .ok { c with z0 := x.num } else .error .assert
  | .metBlh => if 0 < x.num then .ok { c with metBlh := x.num } else .error .assert
  | .metExp => if 0 < x.num ∧ x.num < 1 then .ok { c with metExp := x.num } else .error .assert
  | .metZ0 => if 0 < x.num then .ok { c with metZ0 := x.num } else .error .assert

def powDenOf (c : Cfg α) : α := pw (c.metBlh / c.metH) c.metExp
def logDenOf (c : Cfg α) : α := lg (c.metH / c.metZ0)

/-- A fresh object with the given settings: both denominators computed from them. -/
def fresh (c : Cfg α) : St α := ⟨c, powDenOf pw c, logDenOf lg c⟩

/-- The setter as the code performs it: assign, then recompute only what the setter recomputes.
A rejected call leaves the object unchanged (the assertions precede the assignments). -/
def St.set (tbl : RecTable) (s : St α) (x : Call α) : Except Err (St α) :=
  match s.cfg.set tp x with
  | .error e => .error e
  | .ok c =>
    let r := tbl x.kind
    .ok ⟨c, if r.1 then powDenOf pw c else s.powDen, if r.2 then logDenOf lg c else s.logDen⟩

/-- Apply a list of setter calls; rejected calls are skipped (they raise and change nothing). -/
def run (tbl : RecTable) (s : St α) : List (Call α) → St α
  | [] => s
  | x :: xs =>
    match s.set pw lg tp tbl x with
    | .ok s' => run tbl s' xs
    | .error _ => run tbl s xs

def finalCfg (c : Cfg α) : List (Call α) → Cfg α
  | [] => c
  | x :: xs =>
    match c.set tp x with
    | .ok c' => finalCfg c' xs
    | .error _ => finalCfg c xs

/-- `calculate_wind(meteorological_wind_speed, height)`. -/
def calculateWind (s : St α) (v h : α) : Except Err α :=
  if s.cfg.logLaw then
    if s.cfg.z0 < h then
      if s.logDen < 0 ∨ 0 < s.logDen then .ok (v * (lg (h / s.cfg.z0) / s.logDen))
      else .error .zero
    else .ok 0
  else .ok (pw (h / s.cfg.blh) s.cfg.exp * (v * s.powDen))

/-- `WindProfile(terrain, meteorological_terrain, meteorological_height, log_law)`:
`_meteorological_height = 10` first, then the four setters in the order of `__init__`. -/
def init (tbl : RecTable) (ten : α) (t mt : Option Nat) (mh : α) (ll : Bool) : Except Err (St α) := do
  let c0 : Cfg α := ⟨0, 0, ten, false, 1, 1, 1, 1, 1, 1⟩
  let s0 : St α := ⟨c0, 1, 1⟩
  let s1 ← s0.set pw lg tp tbl ⟨.terrain, 0, t, false⟩
  let s2 ← s1.set pw lg tp tbl ⟨.metTerrain, 0, mt, false⟩
  let s3 ← s2.set pw lg tp tbl ⟨.metH, mh, none, false⟩
  s3.set pw lg tp tbl ⟨.logLaw, 0, none, ll⟩

end

end Wind
