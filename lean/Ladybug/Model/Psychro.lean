/-
  Model of ladybug/psychrometrics.py (whole file) and of its users
  designday.py:HumidityCondition.dew_point / hourly_dew_point_values, DesignDay.hourly_relative_humidity
  and psychchart.py:PsychrometricChart.t_x_value / hr_y_value / plot_point / data_points.

  Every function is written ONCE over the generic numeric interface (Transc.lean); the `Float`
  instantiation is executed by `drv_c09` and compared with the real Python functions, the `ℝ`
  instantiation (RealInst.lean) is what Props/C09.lean proves theorems about.  No Mathlib.

  Transcribed from the code as it is (operator order, the two different molar-mass constants
  0.621945 / 621.9907, `min(td, db)`, `x if x >= 0 else 0`, loop exits, iteration limits).
  Python exceptions (ZeroDivisionError, ValueError of `math.log`, OverflowError) are NOT modelled:
  the functions are total, over `Float` they produce inf/nan where Python raises; the driver reports
  every non-finite result as `nonfinite` and the harness maps an exception to the same token.
-/
import Ladybug.Transc

namespace Psychro

open Transc

section generic

variable {α : Type} [Add α] [Sub α] [Mul α] [Div α] [Neg α] [OfScientific α]
  [LT α] [LE α] [DecidableLT α] [DecidableLE α] [Transc α]

/-! ### saturation pressure (psychrometrics.py:8-36) and its logarithmic derivative (490-508) -/

/-- `ln_p_ws` of the branch `t_kelvin <= 273.15` (over ice). -/
def lnPwsIce (t : α) : α :=
  -5.6745359E+03 / t + 6.3925247 - 9.677843E-03 * t +
    6.2215701E-07 * pow t 2.0 + 2.0747825E-09 * pow t 3.0 -
    9.484024E-13 * pow t 4.0 + 4.1635019 * log t

/-- `ln_p_ws` of the branch above freezing (over liquid water). -/
def lnPwsWater (t : α) : α :=
  -5.8002206E+03 / t + 1.3914993 - 4.8640239E-02 * t +
    4.1764768E-05 * pow t 2.0 - 1.4452093E-08 * pow t 3.0 +
    6.5459673 * log t

/-- `saturated_vapor_pressure(t_kelvin)` (Pa). -/
def satVapPres (t : α) : α :=
  if t ≤ 273.15 then exp (lnPwsIce t) else exp (lnPwsWater t)

/-- derivative expression of the ice branch, in kelvin -/
def dLnPwsIce (t : α) : α :=
  5.6745359E+03 / pow t 2.0 - 9.677843E-03 + 2.0 * 6.2215701E-07 * t +
    3.0 * 2.0747825E-09 * pow t 2.0 - 4.0 * 9.484024E-13 * pow t 3.0 + 4.1635019 / t

/-- derivative expression of the water branch, in kelvin -/
def dLnPwsWater (t : α) : α :=
  5.8002206E+03 / pow t 2.0 - 4.8640239E-02 + 2.0 * 4.1764768E-05 * t -
    3.0 * 1.4452093E-08 * pow t 2.0 + 6.5459673 / t

/-- `_d_ln_p_ws(db_temp)` (argument in °C; note the branch test is on °C `<= 0.`). -/
def dLnPws (db : α) : α :=
  if db ≤ 0.0 then dLnPwsIce (db + 273.15) else dLnPwsWater (db + 273.15)

/-! ### closed-form metrics -/

/-- `humid_ratio_from_db_rh(db_temp, rel_humid, b_press)` -/
def humidRatioFromDbRh (db rh p : α) : α :=
  let pws := satVapPres (db + 273.15)
  let pw := pws * (rh / 100.0)
  (pw * 0.621945) / (p - pw)

/-- the enthalpy expression before the `>= 0` clamp -/
def enthalpyRaw (db hr ref : α) : α :=
  let ct := db - ref
  1.006 * ct + hr * (2501.0 + 1.86 * ct)

/-- `enthalpy_from_db_hr(db_temp, humid_ratio, reference_temp)` -/
def enthalpyFromDbHr (db hr ref : α) : α :=
  let e := enthalpyRaw db hr ref
  if 0.0 ≤ e then e else 0.0

/-- `rel_humid_from_db_hr(db_temp, humid_ratio, b_press)` -/
def relHumidFromDbHr (db hr p : α) : α :=
  let pw := (hr * 1000.0 * p) / (621.9907 + (hr * 1000.0))
  let pws := satVapPres (db + 273.15)
  (pw / pws) * 100.0

/-- `rel_humid_from_db_enth(db_temp, enthalpy, b_press, reference_temp)` -/
def relHumidFromDbEnth (db enth p ref : α) : α :=
  let ct := db - ref
  let hr := (enth - (1.006 * ct)) / ((1.86 * ct) + 2501.0)
  relHumidFromDbHr db hr p

/-- `rel_humid_from_db_dpt(db_temp, dew_pt)` -/
def relHumidFromDbDpt (db dpt : α) : α :=
  let pwsTa := satVapPres (db + 273.15)
  let pwsTd := satVapPres (dpt + 273.15)
  100.0 * (pwsTd / pwsTa)

/-- `rel_humid_from_db_wb(db_temp, wet_bulb, b_press)` -/
def relHumidFromDbWb (db wb p : α) : α :=
  let pws := satVapPres (db + 273.15)
  let pwsWb := satVapPres (wb + 273.15)
  let pw := pwsWb - (p * 0.000662 * (db - wb))
  (pw / pws) * 100.0

/-- `humid_ratio_from_db_wb(db_temp, wb_temp, b_press)` -/
def humidRatioFromDbWb (db wb p : α) : α :=
  let pws := satVapPres (wb + 273.15)
  let pwsStar := 0.621945 * pws / (p - pws)
  if 0.0 ≤ wb then
    ((2501.0 - 2.326 * wb) * pwsStar - 1.006 * (db - wb)) / (2501.0 + 1.86 * db - 4.186 * wb)
  else
    ((2830.0 - 0.24 * wb) * pwsStar - 1.006 * (db - wb)) / (2830.0 + 1.86 * db - 2.1 * wb)

/-- `db_temp_from_enth_hr(enthalpy, humid_ratio, reference_temp)` -/
def dbTempFromEnthHr (enth hr ref : α) : α :=
  let db := (enth - 2501.0 * hr) / (1.006 + 1.86 * hr)
  db + ref

/-- `db_temp_from_rh_hr(rel_humid, humid_ratio, b_press)` (Antoine equation) -/
def dbTempFromRhHr (rh hr p : α) : α :=
  let pw := (p * hr) / (0.621945 + hr)
  let pws := pw / (rh / 100.0)
  (1730.63 / (8.07131 - log10 (pws / 133.322))) - 233.426

/-- `db_temp_and_hr_from_wb_rh(wb_temp, rel_humid, b_press)` -/
def dbTempAndHrFromWbRh (wb rh p : α) : α × α :=
  let hr := humidRatioFromDbRh wb rh p
  let hrSat := humidRatioFromDbRh wb 100.0 p
  let db := (((hrSat - hr) * 2260000.0) / 1005.0) + wb
  (db, hr)

/-! ### dew point by Newton–Raphson (90-138) -/

/-- partial pressure of water vapour (first two lines of `dew_point_from_db_rh`) -/
def dewPw (db rh : α) : α :=
  let pws := satVapPres (db + 273.15)
  pws * (rh / 100.0)

/-- One Newton–Raphson update (the four assignments of the loop body): the new `td` from the old one. -/
def newtonStep (lnVp tdIter : α) : α :=
  let lnVpIter := log (satVapPres (tdIter + 273.15))
  let dLnVp := dLnPws tdIter
  tdIter - (lnVpIter - lnVp) / dLnVp

/-- `math.fabs(td - td_iter) <= 0.1`: the convergence test. -/
abbrev newtonStop (td tdIter : α) : Prop := fabs (td - tdIter) ≤ 0.1

/-- `if (index > 100): break` – `index` starts at 1 and is incremented after the test, so the loop body
    runs at most `newtonMaxIndex + 1` = 101 times. -/
def newtonMaxIndex : Nat := 100

/-- The `while True` loop: `fuel` = iterations still allowed. Returns the last `td`. -/
def dewNewton (lnVp : α) : Nat → α → α
  | 0, td => td
  | n + 1, tdIter =>
    let td := newtonStep lnVp tdIter
    if newtonStop td tdIter then td else dewNewton lnVp n td

/-- `min(td, db_temp)` (CPython keeps the first argument unless the second is smaller). -/
def dewClamp (td db : α) : α := if db < td then db else td

/-- `dew_point_from_db_rh(db_temp, rel_humid)`.  `math.log(p_w)` raises for `p_w <= 0`, which the
    code turns into −273.15. -/
def dewPointFromDbRh (db rh : α) : α :=
  let pw := dewPw db rh
  if pw ≤ 0.0 then -273.15
  else dewClamp (dewNewton (log pw) (newtonMaxIndex + 1) db) db

/-! ### wet bulb by bisection (141-180) -/

/-- State of the bisection: upper bound, lower bound, current guess. -/
structure Bis (α : Type) where
  sup : α
  inf : α
  wb : α

/-- One pass of the `while` body (new bounds, new guess). -/
def bisStep (db hr p : α) (s : Bis α) : Bis α :=
  let wStar := humidRatioFromDbWb db s.wb p
  let sup := if hr < wStar then s.wb else s.sup
  let inf := if hr < wStar then s.inf else s.wb
  ⟨sup, inf, (sup + inf) / 2.0⟩

/-- `(wb_temp_sup - wb_temp_inf) > 0.1`: the loop test. -/
abbrev bisContinue (sup inf : α) : Prop := 0.1 < sup - inf

/-- `if index >= 100: break` after the update, `index` starting at 1: at most `bisMaxIndex` passes. -/
def bisMaxIndex : Nat := 100

/-- The `while (sup - inf) > 0.1` loop with at most `fuel` passes. -/
def bisLoop (db hr p : α) : Nat → Bis α → Bis α
  | 0, s => s
  | n + 1, s => if bisContinue s.sup s.inf then bisLoop db hr p n (bisStep db hr p s) else s

/-- humidity ratio and the initial bracket / guess (first four assignments of `wet_bulb_from_db_rh`) -/
def bisInit (db rh p : α) : α × Bis α :=
  let hr := humidRatioFromDbRh db rh p
  let sup := db
  let inf := dewPointFromDbRh db rh
  (hr, ⟨sup, inf, (inf + sup) / 2.0⟩)

/-- `wet_bulb_from_db_rh(db_temp, rel_humid, b_press)` -/
def wetBulbFromDbRh (db rh p : α) : α :=
  (bisLoop db (bisInit db rh p).1 p bisMaxIndex (bisInit db rh p).2).wb

/-- `wet_bulb_from_db_hr` -/
def wetBulbFromDbHr (db hr p : α) : α :=
  wetBulbFromDbRh db (relHumidFromDbHr db hr p) p

/-- `dew_point_from_db_hr` -/
def dewPointFromDbHr (db hr p : α) : α :=
  dewPointFromDbRh db (relHumidFromDbHr db hr p)

/-- `dew_point_from_db_enth` -/
def dewPointFromDbEnth (db enth p ref : α) : α :=
  dewPointFromDbRh db (relHumidFromDbEnth db enth p ref)

/-- `dew_point_from_db_wb` -/
def dewPointFromDbWb (db wb p : α) : α :=
  dewPointFromDbRh db (relHumidFromDbWb db wb p)

/-! ### the "fast" NOAA formulas (410-487) -/

/-- `6.112 * math.e**((17.67 * t) / (t + 243.5))` -/
def magnusNoaa (t : α) : α :=
  6.112 * pow 2.718281828459045 ((17.67 * t) / (t + 243.5))

/-- `es`, `e` of both fast functions: vapour pressure in hPa -/
def fastE (db rh : α) : α :=
  let es := magnusNoaa db
  (es * rh) / 100.0

/-- the value returned inside the `try` of `dew_point_from_db_rh_fast` -/
def dewFastValue (e : α) : α :=
  (243.5 * log (e / 6.112)) / (17.67 - log (e / 6.112))

/-- `dew_point_from_db_rh_fast` (`math.log` raises for `e / 6.112 <= 0` → −273.15). -/
def dewPointFast (db rh : α) : α :=
  let e := fastE db rh
  if e / 6.112 ≤ 0.0 then -273.15 else dewFastValue e

/-- State of the sign-change search of `wet_bulb_from_db_rh_fast`. -/
structure FastSt (α : Type) where
  tw : α
  increase : α
  prevPos : Bool          -- previoussign == 1
  ed : α

/-- `e_wg`, `eg`, `e_d` of the loop body: the vapour-pressure residual at the guess `t_w`. -/
def fastEd (tw p db e : α) : α :=
  let eWg := magnusNoaa tw
  let eg := eWg - (p / 100.0) * (db - tw) * 0.00066 * (1.0 + (0.00155 * tw))
  e - eg

/-- `math.fabs(e_d) > 0.005`: the loop test. -/
abbrev fastContinue (ed : α) : Prop := 0.005 < fabs ed

/-- The `while math.fabs(e_d) > 0.005` loop; the code has no iteration limit, the model returns
    `none` when `fuel` passes were not enough. -/
def wbFastLoop (db e p : α) : Nat → FastSt α → Option α
  | 0, _ => none
  | n + 1, s =>
    if fastContinue s.ed then
      let ed := fastEd s.tw p db e
      if ed ≤ 0.0 ∧ 0.0 ≤ ed then some s.tw         -- `if e_d == 0: break`
      else
        let curPos : Bool := !(decide (ed < 0.0))
        let flip := curPos != s.prevPos
        let prevPos := if flip then curPos else s.prevPos
        let increase := if flip then s.increase / 10.0 else s.increase
        let sign : α := if prevPos then 1.0 else -1.0
        wbFastLoop db e p n ⟨s.tw + increase * sign, increase, prevPos, ed⟩
    else some s.tw

/-- `wet_bulb_from_db_rh_fast(db_temp, rel_humid, b_press)` -/
def wetBulbFast (db rh p : α) (fuel : Nat := 100000) : Option α :=
  wbFastLoop db (fastE db rh) p fuel ⟨0.0, 10.0, true, 1.0⟩

/-! ### users: design-day humidity profile (designday.py) -/

/-- `HumidityCondition.HUMIDITY_TYPES` -/
inductive HumType where
  | dewpoint | wetbulb | humidityRatio | enthalpy
  deriving DecidableEq, Repr

/-- `HumidityCondition.dew_point(db)`: the day's dew point from the humidity value at the maximum dry bulb
    (the enthalpy value is stored in J/kg, hence `/ 1000`; reference temperature 0). -/
def ddDewPoint (ty : HumType) (value p db : α) : α :=
  match ty with
  | .dewpoint => value
  | .wetbulb => dewPointFromDbWb db value p
  | .humidityRatio => dewPointFromDbHr db value p
  | .enthalpy => dewPointFromDbEnth db (value / 1000.0) p 0.0

/-- `HumidityCondition.hourly_dew_point_values`: constant dew point capped by each hour's dry bulb. -/
def ddHourlyDewPoint (maxDpt : α) (hourlyDb : List α) : List α :=
  hourlyDb.map fun db => if maxDpt ≤ db then maxDpt else db

/-- `DesignDay.hourly_relative_humidity` values. -/
def ddHourlyRelHumid (maxDpt : α) (hourlyDb : List α) : List α :=
  (hourlyDb.zip (ddHourlyDewPoint maxDpt hourlyDb)).map fun (x, y) => relHumidFromDbDpt x y

/-! ### users: psychrometric chart coordinates (psychchart.py) -/

/-- Chart geometry parameters that the coordinates depend on. -/
structure Chart (α : Type) where
  baseX : α
  baseY : α
  xDim : α
  yDim : α
  minT : α          -- `int(min_temperature)`, in the chart's own unit
  pressure : α
  useIp : Bool

/-- `t_x_value(temperature)` -/
def Chart.tX (c : Chart α) (t : α) : α := c.baseX + c.xDim * (t - c.minT)

/-- `hr_y_value(humidity_ratio)` -/
def Chart.hrY (c : Chart α) (hr : α) : α := c.baseY + hr * c.yDim

/-- `Temperature._F_to_C` -/
def fToC (v : α) : α := (v - 32.0) * 5.0 / 9.0

/-- `Temperature._C_to_F` -/
def cToF (v : α) : α := v * 9.0 / 5.0 + 32.0

/-- `plot_point(temperature, relative_humidity)`: temperature in the chart's unit. -/
def Chart.plotPoint (c : Chart α) (t rh : α) : α × α :=
  let tc := if c.useIp then fToC t else t
  let hr := humidRatioFromDbRh tc rh c.pressure
  (c.tX t, c.hrY hr)

/-- One entry of `data_points`: the input temperature is in °C; an IP chart converts it for x only. -/
def Chart.dataPoint (c : Chart α) (tC rh : α) : α × α :=
  let t := if c.useIp then cToF tC else tC
  (c.tX t, c.hrY (humidRatioFromDbRh tC rh c.pressure))

end generic

/-! ### unit tests of the Float instantiation (values from tests/psychrometrics_test.py) -/

private def close (a b tol : Float) : Bool := (a - b).abs ≤ tol

#guard close (satVapPres (253.15 : Float)) 103.2 0.1 -- -20 C, value quoted in the tests (approx.)
#guard close (humidRatioFromDbRh (30.0 : Float) 0.0 101325.0) 0.0 1e-12
#guard close (humidRatioFromDbRh (30.0 : Float) 50.0 101325.0) 0.013314 1e-5
#guard close (enthalpyFromDbHr (30.0 : Float) 0.0 0.0) 30.18 1e-9
#guard close (dewPointFromDbRh (30.0 : Float) 100.0) 30.0 1e-12
#guard close (dewPointFromDbRh (30.0 : Float) 0.0) (-273.15) 1e-12
#guard close (wetBulbFromDbRh (30.0 : Float) 100.0 101325.0) 30.0 1e-12

end Psychro
