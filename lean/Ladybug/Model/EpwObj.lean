/-
  Object state machine of ladybug/epw.py (EPW) on top of Model/Epw.lean: ONE object, its lazy-loading
  flags, unit flag, data columns and header slots, and every public operation as a step
  `Obj → Op → Obj × Out`.  A refused operation (an argument the setter's validation rejects, a field
  number outside the file, an hour outside the year, a write of data that is not a full year) returns
  the state it found and an error output.  The model has no hidden slot: what a step answers is a
  function of the file and of the state the accepted operations established – that is the
  specification the history theorems of Props/C01.lean state and the `obj` op of Drv/C01.lean runs.

  Value-parametric: `Val` are the cells, `H` is whatever a header slot holds (location, the three
  design-condition dictionaries, the three week dictionaries, ground temperatures, daylight-saving pair,
  two comment lines: slots 0..10).  The driver runs it on ids.  No Mathlib.
-/
import Ladybug.Model.Epw

namespace Epw

/-- What the file behind the object holds, already parsed (a file whose header or body is rejected has
    no object history: the first read raises). -/
structure Src (Val H : Type) where
  leapHdr : Option Bool           -- leap field of the header line (`None` when neither Yes nor No)
  body : Body Val                 -- what `_import_body` makes of the data lines
  slots : List H                  -- what `_import_location` / `_import_header` make of the 8 lines

/-- The object: lazy flags, unit flag, leap flag, columns (`St`) and the header slots. -/
structure Obj (Val H : Type) where
  st : St Val
  slots : List H

inductive Op (Val H : Type) where
  | header                                   -- location / header / is_leap_year / any header property
  | load                                     -- any data property
  | field (k : Nat)                          -- import_data_by_field(k)
  | toIp
  | toSi
  | write                                    -- to_file_string / write / save
  | writeShort (k : Nat)                     -- to_file_string while field k lacks its last value
  | wea (hoys : Option (List Nat))           -- to_wea(path, hoys)
  | mos                                      -- to_mos
  | dict                                     -- to_dict
  | set (j : Nat) (v : H) (valid : Bool)     -- header-slot setter; `valid`: the argument passes the validation
  | setValues (k : Nat) (vals : List Val)    -- import_data_by_field(k).values = vals

inductive Out (Tok Val H : Type) where
  | none
  | err (e : Err)
  | hdr (slots : List H) (leap : Option Bool)
  | col (c : List Val)
  | text (slots : List H) (leap : Option Bool) (rows : List (List Tok))
  | wea (ls : List (Nat × Nat × Nat × Val × Val))
  | mos (slots : List H) (t : List (List Val))
  | dict (slots : List H) (d : EpwDict Val)

section
variable {Tok Val H : Type}

/-- `_load_header_check()`. -/
def Obj.loadHeader (src : Src Val H) (o : Obj Val H) : Obj Val H :=
  if o.st.hdrLoaded then o
  else { st := { o.st with hdrLoaded := true, leap := src.leapHdr }, slots := src.slots }

/-- `if not self.is_data_loaded: self._import_data()` (the header is read first when it was not). -/
def Obj.loadData (src : Src Val H) (o : Obj Val H) : Obj Val H :=
  if o.st.dataLoaded then o
  else
    let o1 := o.loadHeader src
    { o1 with st := { o1.st with dataLoaded := true, leap := some src.body.leap, nf := src.body.nf,
                                 cols := src.body.cols } }

def dropLastAt (k : Nat) (cols : List (List Val)) : List (List Val) :=
  cols.mapIdx fun j c => if j = k then c.dropLast else c

/-- `values.append(saved)` on the columns the call left behind (`saved` from the columns before). -/
def restoreAt (k : Nat) (orig cols : List (List Val)) : List (List Val) :=
  cols.mapIdx fun j c => if j = k then c ++ ((orig.getD j []).getLast?).toList else c

/-- `len(values) == len(self.datetimes)` of `HourlyContinuousCollection.values = vals`, on an existing field. -/
def valuesOk (s : St Val) (k : Nat) (vals : List Val) : Bool :=
  decide (k < s.nf) && decide (k < s.cols.length) && decide (vals.length = hoursInYear (s.leap.getD false))

/-- A step on an object whose data is loaded (`o` is what `loadData` returned). -/
def stepLoaded (c : Codec Tok Val) (flag : Nat → Bool) (cv : Conv Val) (o : Obj Val H) :
    Op Val H → Obj Val H × Out Tok Val H
  | .header => (o, .hdr o.slots o.st.leap)
  | .load => (o, .none)
  | .field k => if k < o.st.nf then (o, .col (o.st.cols.getD k [])) else (o, .err .value)
  | .toIp => ({ o with st := o.st.toIp cv }, .none)
  | .toSi => ({ o with st := o.st.toSi cv }, .none)
  | .write =>
    let r := o.st.toFileString c flag cv
    ({ o with st := r.2 }, match r.1 with
      | .ok rows => .text o.slots r.2.leap rows
      | .error e => .err e)
  | .writeShort k =>
    let r := ({ o.st with cols := dropLastAt k o.st.cols } : St Val).toFileString c flag cv
    ({ o with st := { r.2 with cols := restoreAt k o.st.cols r.2.cols } }, match r.1 with
      | .ok rows => .text o.slots r.2.leap rows
      | .error e => .err e)
  | .wea hoys =>
    let r := o.st.toWea cv hoys
    ({ o with st := r.2 }, match r.1 with
      | .ok ls => .wea ls
      | .error e => .err e)
  | .mos => (o, .mos o.slots (mosTable o.st.cols))
  | .dict => (o, .dict o.slots o.st.toDict)
  | .set j v valid => if valid then ({ o with slots := o.slots.set j v }, .none) else (o, .err .assert)
  | .setValues k vals =>
    if valuesOk o.st k vals then ({ o with st := { o.st with cols := o.st.cols.set k vals } }, .none)
    else (o, .err .assert)

/-- One public operation on the object.  Header reads and header-slot setters call `_load_header_check`
    only; everything else makes sure the data is loaded first. -/
def step (c : Codec Tok Val) (flag : Nat → Bool) (cv : Conv Val) (src : Src Val H) (o : Obj Val H)
    (op : Op Val H) : Obj Val H × Out Tok Val H :=
  match op with
  | .header => stepLoaded c flag cv (o.loadHeader src) .header
  | .set j v valid => stepLoaded c flag cv (o.loadHeader src) (.set j v valid)
  | op => stepLoaded c flag cv (o.loadData src) op

/-- The object after a history. -/
def run (c : Codec Tok Val) (flag : Nat → Bool) (cv : Conv Val) (src : Src Val H) :
    Obj Val H → List (Op Val H) → Obj Val H
  | o, [] => o
  | o, op :: ops => run c flag cv src (step c flag cv src o op).1 ops

/-- Does the operation change the state the user has established (on the loaded object `o`)?  Unit
    conversions, accepted setters, accepted value assignments; nothing else. -/
def mutates (o : Obj Val H) : Op Val H → Bool
  | .toIp => true
  | .toSi => true
  | .set _ _ valid => valid
  | .setValues k vals => valuesOk o.st k vals
  | _ => false

/-- The accepted state-changing operations of a history, in order: the public state the user established. -/
def pub (c : Codec Tok Val) (flag : Nat → Bool) (cv : Conv Val) (src : Src Val H) :
    Obj Val H → List (Op Val H) → List (Op Val H)
  | _, [] => []
  | o, op :: ops =>
    if mutates (o.loadData src) op then op :: pub c flag cv src (step c flag cv src o op).1 ops
    else pub c flag cv src (step c flag cv src o op).1 ops

/-- Everything a user can observe of the object: all reads and exports, asked of the loaded object. -/
def observe (c : Codec Tok Val) (flag : Nat → Bool) (cv : Conv Val) (src : Src Val H) (o : Obj Val H)
    (q : Op Val H) : Out Tok Val H :=
  (step c flag cv src (o.loadData src) q).2

/-- Does the operation need the hourly data (it starts with `if not self.is_data_loaded: self._import_data()`)?
    Header reads and header-slot setters call `_load_header_check` only. -/
def Op.needsData : Op Val H → Bool
  | .header => false
  | .set _ _ _ => false
  | _ => true

/-- The CLASS of change behind `C01_header_before_load_*`: `to_file_string` split in two so that the header part
    (slots and leap field) is rendered after the header load only, BEFORE the step that loads the data and with it
    settles the leap flag of a file whose header has none.  Not the code: the variant the theorems separate from it. -/
def stepWriteHeaderFirst (c : Codec Tok Val) (flag : Nat → Bool) (cv : Conv Val) (src : Src Val H) (o : Obj Val H) :
    Obj Val H × Out Tok Val H :=
  let oh := o.loadHeader src
  let ol := o.loadData src
  let r := ol.st.toFileString c flag cv
  ({ ol with st := r.2 }, match r.1 with
    | .ok rows => .text oh.slots oh.st.leap rows
    | .error e => .err e)

/-- A fresh lazy object (`EPW(path)`). -/
def Obj.lazy (dflt : List H) : Obj Val H := ⟨⟨false, false, false, some false, 35, []⟩, dflt⟩

/-- Invariant of every reachable object: the data is never loaded without the header. -/
def Obj.WF (o : Obj Val H) : Prop := o.st.dataLoaded = true → o.st.hdrLoaded = true

def Obj.Loaded (o : Obj Val H) : Prop := o.st.hdrLoaded = true ∧ o.st.dataLoaded = true

end

#guard dropLastAt 1 [[1, 2], [3, 4]] = [[1, 2], [3]]
#guard restoreAt 1 [[1, 2], [3, 4]] [[1, 2], [3]] = [[1, 2], [3, 4]]

end Epw
