/-
  Object state machines for property C20 (round 3).  No Mathlib.

  `ViewSphere` (ladybug/viewsphere.py): the only state of an object are its eleven lazily filled slots
  (`Dome.LState`); the class and the module hold constants only.  Every public method other than the
  eleven property getters is a pure function of its arguments: it neither reads nor writes a slot, and it
  hands out a new list on every call.  That *is* the specification the histories are compared with: the
  model has no hidden memo, so a call answers the same after any history, a refused call (one that
  raises) changes nothing, and a caller editing a list it was handed changes nothing.

  `Compass` (ladybug/compass.py): public state radius / center / north angle / spacing factor with
  setters; the altitude circles are consumers of the projections (`point3d_to_stereographic(pt, 1).x *
  radius`, `radius * cos a`).  The setters are modelled as the code is: `radius` and `spacing_factor`
  assign `float(value)` *before* the positivity assertion, so a refused assignment leaves the refused
  number behind (known finding C20-compass-refused-setter-keeps-value, `C20_compass_refused_counterexample`).
-/
import Ladybug.Model.Dome
import Ladybug.Model.Proj

namespace Dome

/-- One step of a history on one `ViewSphere`: a property read, a call of a plain method with arguments
`c`, or the caller editing (in place) the list a previous call returned. -/
inductive Op (C : Type) where
  | read (p : LazyProp)
  | call (c : C)
  | scribble
  | renew        -- go on with another, newly created object of the same class

/-- What a step shows: the content a getter returned, the answer of a call, the error class of a refused
call, or nothing. -/
inductive Out (E R : Type) where
  | content (c : Option Content)
  | result (r : R)
  | refused (e : E)
  | unit

def Out.isRefused {E R : Type} : Out E R → Bool
  | .refused _ => true
  | _ => false

/-- The whole object state: the eleven slots. -/
abbrev Obj := LState

/-- One step. `ans` is the (pure) answer of the plain methods: `dome_patches`, `sphere_patches`,
`dome_patch_weights`, `sphere_patch_weights`, `horizontal_radial_patches`, `horizontal_radial_patch_weights`,
`dome_radial_patches`, `dome_radial_patch_weights`, `_patch_row_count_array`. -/
def step {C E R : Type} (ans : C → Except E R) (st : Obj) : Op C → Obj × Out E R
  | .read p => let r := st.read p; (r.2, .content r.1)
  | .call c =>
    match ans c with
    | .ok r => (st, .result r)
    | .error e => (st, .refused e)
  | .scribble => (st, .unit)
  | .renew => (LState.empty, .unit)

/-- State after a history. -/
def runState {C E R : Type} (ans : C → Except E R) (st : Obj) (ops : List (Op C)) : Obj :=
  ops.foldl (fun s o => (step ans s o).1) st

/-- Observations of a history, step by step. -/
def runOuts {C E R : Type} (ans : C → Except E R) : Obj → List (Op C) → List (Out E R)
  | _, [] => []
  | st, o :: rest => let r := step ans st o; r.2 :: runOuts ans r.1 rest

/-- What a step shows on a given object. -/
def observe {C E R : Type} (ans : C → Except E R) (st : Obj) (o : Op C) : Out E R := (step ans st o).2

/-- The mesh-producing plain methods and their (pure) answers. -/
inductive ShapeCall where
  | dome (n : Int) (ip : Bool)
  | sphere (n : Int) (ip : Bool)
  | radial (az alt : Nat)

def shapeAns : ShapeCall → Except Err MeshShape
  | .dome n ip => domeShape n ip
  | .sphere n ip => sphereShape n ip
  | .radial az alt => radialShape az alt

end Dome

namespace CompassObj

/-- Public state of a `Compass` (north angle as the setter stores it; it does not enter the circles). -/
structure St (α : Type) where
  radius : α
  cx : α
  cy : α
  north : α
  spacing : α
  deriving DecidableEq, Repr

inductive Err where
  | assert | value
  deriving DecidableEq, Repr

/-- Setter calls and reads. `setRadiusText` / `setCenterOther` are assignments of something that is not a
number / not a `Point2D` (refused before anything is stored). -/
inductive Op (α : Type) where
  | setRadius (v : α)
  | setRadiusText
  | setSpacing (v : α)
  | setCenter (x y : α)
  | setCenterOther
  | readStereo
  | readOrtho
  | duplicate      -- go on with `compass.duplicate()` (the constructor runs the setters again)
  deriving DecidableEq, Repr

inductive Out (α : Type) where
  | done
  | refused (e : Err)
  | circles (cx cy : α) (radii : List α)
  deriving DecidableEq, Repr

def Out.isRefused {α : Type} : Out α → Bool
  | .refused _ => true
  | _ => false

section
variable {α : Type} [Add α] [Sub α] [Mul α] [Div α] [OfNat α 0] [OfNat α 1] [LT α] [DecidableLT α]

/-- `stereographic_altitude_circles`: `point3d_to_stereographic(Point3D(cos a, 0, sin a), 1).x * radius`
for the tabulated altitudes, `alts` = their `(cos a, sin a)`. -/
def stereoRadii (alts : List (α × α)) (radius : α) : List α :=
  alts.map fun cs => (Proj.stereo cs.1 0 cs.2 1 0 0 0).1 * radius

/-- `orthographic_altitude_circles`: `radius * cos a`. -/
def orthoRadii (alts : List (α × α)) (radius : α) : List α :=
  alts.map fun cs => radius * cs.1

/-- `Arc2D(center, r)` asserts `r > 0`. -/
def circlesOut (st : St α) (radii : List α) : Out α :=
  if radii.all (fun r => decide (0 < r)) then .circles st.cx st.cy radii else .refused .assert

/-- One step, as the code is: the numeric setters store first and assert afterwards. -/
def step (alts : List (α × α)) (st : St α) : Op α → St α × Out α
  | .setRadius v => ({ st with radius := v }, if 0 < v then .done else .refused .assert)
  | .setRadiusText => (st, .refused .value)
  | .setSpacing v => ({ st with spacing := v }, if 0 < v then .done else .refused .assert)
  | .setCenter x y => ({ st with cx := x, cy := y }, .done)
  | .setCenterOther => (st, .refused .assert)
  | .readStereo => (st, circlesOut st (stereoRadii alts st.radius))
  | .readOrtho => (st, circlesOut st (orthoRadii alts st.radius))
  | .duplicate => (st, if 0 < st.radius ∧ 0 < st.spacing then .done else .refused .assert)

/-- The repaired setter (validate, then store): what the property needs. -/
def stepRepaired (alts : List (α × α)) (st : St α) : Op α → St α × Out α
  | .setRadius v => if 0 < v then ({ st with radius := v }, .done) else (st, .refused .assert)
  | .setSpacing v => if 0 < v then ({ st with spacing := v }, .done) else (st, .refused .assert)
  | o => step alts st o

/-- The setters as configured by what the translator read in compass.py (`Gen.Compass.*ValidatesFirst`):
per setter either "store, then assert" (`false`) or "assert, then store" (`true`). -/
def stepCfg (radiusFirst spacingFirst : Bool) (alts : List (α × α)) (st : St α) : Op α → St α × Out α
  | .setRadius v => if radiusFirst then stepRepaired alts st (.setRadius v) else step alts st (.setRadius v)
  | .setSpacing v => if spacingFirst then stepRepaired alts st (.setSpacing v) else step alts st (.setSpacing v)
  | o => step alts st o

def runState (stp : St α → Op α → St α × Out α) (st : St α) (ops : List (Op α)) : St α :=
  ops.foldl (fun s o => (stp s o).1) st

def runOuts (stp : St α → Op α → St α × Out α) : St α → List (Op α) → List (Out α)
  | _, [] => []
  | st, o :: rest => let r := stp st o; r.2 :: runOuts stp r.1 rest

end
end CompassObj
