/-
  C16, round 4: the `DDY.design_days` setter of ddy.py on arguments of every container kind.

  A Python argument that is "a sequence of design days" is either a container that can be walked as often as
  one likes (list, tuple, deque, dict view) or a one-shot iterator (generator, map, filter, iter(...),
  reversed(...), itertools.chain) that yields its remaining items exactly once.  The setter's statements, in the
  order of the source (`Gen.DDY.setterPlan`, regenerated from ddy.py on every run), are interpreted on such an
  argument.  No Mathlib.

  Tied to the code by the translator (statement order) and by the correspondence op `ddy_setter` (Drv/C16.lean)
  that runs `setDays` and the real setter on the same items in every container kind; theorems: Props/C16.lean.
-/
import Ladybug.Gen.DDYSetter

namespace DD.Shapes

open Gen.DDY

/-- An iterable argument: `container isList items` can be walked repeatedly, `oneShot rest` yields `rest` once. -/
inductive Iterable (α : Type) where
  | container (isList : Bool) (items : List α)
  | oneShot (rest : List α)
deriving Repr

namespace Iterable

/-- The items the iterable holds when it is handed over. -/
def items {α : Type} : Iterable α → List α
  | container _ xs => xs
  | oneShot xs => xs

/-- One full walk (`for x in it`, `list(it)`): what it yields, and the iterable afterwards. -/
def pass {α : Type} : Iterable α → List α × Iterable α
  | container b xs => (xs, container b xs)
  | oneShot xs => (xs, oneShot [])

end Iterable

inductive SetErr where
  | assert
deriving DecidableEq, Repr

/-- Variables of the running setter: `data` (the argument, possibly re-bound) and `self._design_days`. -/
structure St (α : Type) where
  data : Iterable α
  stored : Option (List α)

/-- One statement of the setter. -/
def runStep {α : Type} (isDay : α → Bool) (s : St α) : SetterStep → Except SetErr (St α)
  | .materialiseUnlessList =>
    match s.data with
    | .container true _ => .ok s
    | d => .ok { s with data := .container true d.pass.1 }
  | .materialise => .ok { s with data := .container true s.data.pass.1 }
  | .checkItems =>
    let p := s.data.pass
    if p.1.all isDay then .ok { s with data := p.2 } else .error .assert
  | .storeArg =>
    -- the object itself is stored; what it still yields is what the DDY will ever see
    .ok { s with stored := some s.data.pass.1 }
  | .storeListOfArg =>
    let p := s.data.pass
    .ok { data := p.2, stored := some p.1 }
  | .updateLocations => .ok s

def runPlan {α : Type} (isDay : α → Bool) : List SetterStep → St α → Except SetErr (St α)
  | [], s => .ok s
  | st :: r, s =>
    match runStep isDay s st with
    | .ok s' => runPlan isDay r s'
    | .error e => .error e

/-- `ddy.design_days = arg` with the statements `plan`: the list the DDY holds afterwards, or the refusal. -/
def setDaysWith {α : Type} (plan : List SetterStep) (isDay : α → Bool) (arg : Iterable α) : Except SetErr (List α) :=
  match runPlan isDay plan ⟨arg, none⟩ with
  | .ok s => .ok (s.stored.getD [])
  | .error e => .error e

/-- The setter of the source tree. -/
def setDays {α : Type} (isDay : α → Bool) (arg : Iterable α) : Except SetErr (List α) :=
  setDaysWith setterPlan isDay arg

/-- A DDY as far as its list of days is concerned: a refused assignment keeps the old list. -/
def assign {α : Type} (isDay : α → Bool) (old : List α) (arg : Iterable α) : List α × Bool :=
  match setDays isDay arg with
  | .ok xs => (xs, true)
  | .error _ => (old, false)

def okIs {α : Type} [BEq α] (r : Except SetErr (List α)) (xs : List α) : Bool :=
  match r with
  | .ok ys => ys == xs
  | .error _ => false

#guard okIs (setDays (fun (b : Bool) => b) (.oneShot [true, true])) [true, true]
#guard !(okIs (setDays (fun (b : Bool) => b) (.container false [true, false])) [true, false])
#guard okIs (setDaysWith [.checkItems, .storeListOfArg] (fun (b : Bool) => b) (.oneShot [true, true])) []

/-! ### round 6: the location-update loop of the two setters (`for dd in self._design_days: if dd.location !=
    self._location: dd.location = self._location`)

A design day is, for the DDY, its location `ℓ` and everything else `δ`.  The loop is parameterised by the test
`differs`; the code's test is the comparison of the whole Location objects (`Gen.DDY.daysSetterGuard`,
`locationSetterGuard`, regenerated from ddy.py; `Location.__eq__` compares `Gen.DDY.locationKey`). -/

/-- The update loop with the test `differs dayLocation ddyLocation`. -/
def updateLocationsWith {ℓ δ : Type} (differs : ℓ → ℓ → Bool) (ddyLoc : ℓ) (days : List (ℓ × δ)) : List (ℓ × δ) :=
  days.map fun d => if differs d.1 ddyLoc then (ddyLoc, d.2) else d

/-- The test a guard of ddy.py stands for. -/
def guardTest {ℓ : Type} [DecidableEq ℓ] : LocGuard → ℓ → ℓ → Bool
  | .wholeLocation => fun a b => decide (a ≠ b)

/-- The loop of the `design_days` setter / of the `location` setter as the source has them. -/
def updateLocations {ℓ δ : Type} [DecidableEq ℓ] (ddyLoc : ℓ) (days : List (ℓ × δ)) : List (ℓ × δ) :=
  updateLocationsWith (guardTest daysSetterGuard) ddyLoc days

def updateLocationsOnLocationSet {ℓ δ : Type} [DecidableEq ℓ] (ddyLoc : ℓ) (days : List (ℓ × δ)) : List (ℓ × δ) :=
  updateLocationsWith (guardTest locationSetterGuard) ddyLoc days

/-- `ddy[i] = day` (`DDY.__setitem__`): the day is stored as it comes - ddy.py has NO update loop there. -/
def setItem {ℓ δ : Type} (days : List (ℓ × δ)) (i : Nat) (d : ℓ × δ) : List (ℓ × δ) :=
  days.set i d

/-- What a reader of the written file sees: ONE `Site:Location`, given to every design day of the file. -/
def readBack {ℓ δ : Type} (ddyLoc : ℓ) (days : List (ℓ × δ)) : ℓ × List (ℓ × δ) :=
  (ddyLoc, days.map fun d => (ddyLoc, d.2))

/-- The nine attributes of a Location (numbers and texts as canonical tokens). -/
structure Loc9 where
  city : String
  state : String
  country : String
  latitude : String
  longitude : String
  timeZone : String
  elevation : String
  stationId : String
  source : String
deriving DecidableEq, Repr

/-- The slot that holds the attribute a key entry reads (`latitude` is the property over `_lat`, ...). -/
def slotOf (k : String) : String :=
  if k = "latitude" then "_lat" else if k = "longitude" then "_lon" else if k = "time_zone" then "_tz"
  else if k = "elevation" then "_elev" else k

#guard (updateLocations "L" [("L", 1), ("M", 2)]) == [("L", 1), ("L", 2)]
#guard (updateLocationsWith (fun (a b : String) => a.length != b.length) "L" [("M", 2)]) == [("M", 2)]

end DD.Shapes
