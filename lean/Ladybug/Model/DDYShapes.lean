/-
  C16, round 4: the `DDY.design_days` setter of ddy.py on arguments of every container kind.

  A Python argument that is "a sequence of design days" is either a container that can be walked as often as
  one likes (list, tuple, deque, dict view) or a one-shot iterator (generator, map, filter, iter(...),
  reversed(...), itertools.chain) that yields its remaining items exactly once.  The setter's statements, in the
  order of the source (`Gen.DDY.setterPlan`, regenerated from ddy.py on every run), are interpreted on such an
  argument.  No Mathlib.

  Tied to the code by the translator (statement order) and by the correspondence op `ddy_setter` (Drv/C16.lean)
  that runs `setDays` and the real setter on the same items in every container kind; theorems: Props/C16.lean.
-/
import Ladybug.Gen.DDYSetter

namespace DD.Shapes

open Gen.DDY

/-- An iterable argument: `container isList items` can be walked repeatedly, `oneShot rest` yields `rest` once. -/
inductive Iterable (α : Type) where
  | container (isList : Bool) (items : List α)
  | oneShot (rest : List α)
deriving Repr

namespace Iterable

/-- The items the iterable holds when it is handed over. -/
def items {α : Type} : Iterable α → List α
  | container _ xs => xs
  | oneShot xs => xs

/-- One full walk (`for x in it`, `list(it)`): what it yields, and the iterable afterwards. -/
def pass {α : Type} : Iterable α → List α × Iterable α
  | container b xs => (xs, container b xs)
  | oneShot xs => (xs, oneShot [])

end Iterable

inductive SetErr where
  | assert
deriving DecidableEq, Repr

/-- Variables of the running setter: `data` (the argument, possibly re-bound) and `self._design_days`. -/
structure St (α : Type) where
  data : Iterable α
  stored : Option (List α)

/-- One statement of the setter. -/
def runStep {α : Type} (isDay : α → Bool) (s : St α) : SetterStep → Except SetErr (St α)
  | .materialiseUnlessList =>
    match s.data with
    | .container true _ => .ok s
    | d => .ok { s with data := .container true d.pass.1 }
  | .materialise => .ok { s with data := .container true s.data.pass.1 }
  | .checkItems =>
    let p := s.data.pass
    if p.1.all isDay then .ok { s with data := p.2 } else .error .assert
  | .storeArg =>
    -- the object itself is stored; what it still yields is what the DDY will ever see
    .ok { s with stored := some s.data.pass.1 }
  | .storeListOfArg =>
    let p := s.data.pass
    .ok { data := p.2, stored := some p.1 }
  | .updateLocations => .ok s

def runPlan {α : Type} (isDay : α → Bool) : List SetterStep → St α → Except SetErr (St α)
  | [], s => .ok s
  | st :: r, s =>
    match runStep isDay s st with
    | .ok s' => runPlan isDay r s'
    | .error e => .error e

/-- `ddy.design_days = arg` with the statements `plan`: the list the DDY holds afterwards, or the refusal. -/
def setDaysWith {α : Type} (plan : List SetterStep) (isDay : α → Bool) (arg : Iterable α) : Except SetErr (List α) :=
  match runPlan isDay plan ⟨arg, none⟩ with
  | .ok s => .ok (s.stored.getD [])
  | .error e => .error e

/-- The setter of the source tree. -/
def setDays {α : Type} (isDay : α → Bool) (arg : Iterable α) : Except SetErr (List α) :=
  setDaysWith setterPlan isDay arg

/-- A DDY as far as its list of days is concerned: a refused assignment keeps the old list. -/
def assign {α : Type} (isDay : α → Bool) (old : List α) (arg : Iterable α) : List α × Bool :=
  match setDays isDay arg with
  | .ok xs => (xs, true)
  | .error _ => (old, false)

def okIs {α : Type} [BEq α] (r : Except SetErr (List α)) (xs : List α) : Bool :=
  match r with
  | .ok ys => ys == xs
  | .error _ => false

#guard okIs (setDays (fun (b : Bool) => b) (.oneShot [true, true])) [true, true]
#guard !(okIs (setDays (fun (b : Bool) => b) (.container false [true, false])) [true, false])
#guard okIs (setDaysWith [.checkItems, .storeListOfArg] (fun (b : Bool) => b) (.oneShot [true, true])) []

end DD.Shapes
